(** Shared vocabulary of the model: results with explicit error classes, strings as code
    points, byte lists, association lists with Python-dict semantics.  No proofs here. *)
From Coq Require Export ZArith List Bool.
Export ListNotations.
Open Scope Z_scope.

(** Every Python exception class that can reject an input is an explicit error kind. *)
Inductive errk :=
| EKey        (* KeyError: unmapped bank, unknown macro, missing dict entry *)
| ENode       (* a816.parse.nodes.NodeError *)
| ERuntime    (* RuntimeError *)
| EStruct     (* struct.error *)
| EIndex      (* IndexError *)
| EValue      (* ValueError *)
| ESymbol     (* a816.exceptions.SymbolNotDefined escaping un-wrapped *)
| EScan       (* ScannerException *)
| EParse      (* ParserSyntaxError *)
| EFile       (* FileNotFoundError / OSError *)
| EAssert     (* AssertionError *)
| ERecursion  (* RecursionError: depth fuel exhausted where Python's stack would be *)
| EType       (* TypeError *)
| EOther.

Inductive res (A : Type) :=
| Ok (a : A)
| Err (k : errk)
| OutOfFuel.    (* loop fuel exhausted: must be proved unreachable, never a normal value *)
Arguments Ok {A}. Arguments Err {A}. Arguments OutOfFuel {A}.

Definition bind {A B} (r : res A) (f : A -> res B) : res B :=
  match r with Ok a => f a | Err k => Err k | OutOfFuel => OutOfFuel end.
Notation "'do' x <- r ; k" := (bind r (fun x => k)) (at level 200, x pattern, r at level 100, k at level 200).

Definition is_ok {A} (r : res A) : bool := match r with Ok _ => true | _ => false end.
Definition is_err {A} (r : res A) : bool := match r with Err _ => true | _ => false end.

Definition errk_eqb (a b : errk) : bool :=
  match a, b with
  | EKey, EKey | ENode, ENode | ERuntime, ERuntime | EStruct, EStruct | EIndex, EIndex
  | EValue, EValue | ESymbol, ESymbol | EScan, EScan | EParse, EParse | EFile, EFile
  | EAssert, EAssert | ERecursion, ERecursion | EType, EType | EOther, EOther => true
  | _, _ => false
  end.

(** Python [str] = list of Unicode code points; [bytes] = list of 0..255. *)
Definition str := list Z.
Definition bytes := list Z.

Fixpoint list_eqb {A} (eqb : A -> A -> bool) (a b : list A) : bool :=
  match a, b with
  | [], [] => true
  | x :: a', y :: b' => eqb x y && list_eqb eqb a' b'
  | _, _ => false
  end.
Definition str_eqb : str -> str -> bool := list_eqb Z.eqb.
Definition mem_z (c : Z) (l : list Z) : bool := existsb (Z.eqb c) l.

Definition option_eqb {A} (eqb : A -> A -> bool) (a b : option A) : bool :=
  match a, b with Some x, Some y => eqb x y | None, None => true | _, _ => false end.

(** Association list with Python-dict semantics: [dict_set] replaces in place (the key keeps
    its insertion rank) or appends; iteration order = insertion order. *)
Section Dict.
  Context {V : Type}.
  Definition dict := list (str * V).
  Fixpoint dict_get (d : dict) (k : str) : option V :=
    match d with
    | [] => None
    | (k', v) :: r => if str_eqb k k' then Some v else dict_get r k
    end.
  Fixpoint dict_set (d : dict) (k : str) (v : V) : dict :=
    match d with
    | [] => [(k, v)]
    | (k', v') :: r => if str_eqb k k' then (k', v) :: r else (k', v') :: dict_set r k v
    end.
  Definition dict_mem (d : dict) (k : str) : bool :=
    match dict_get d k with Some _ => true | None => false end.
End Dict.
Arguments dict : clear implicits.

(** Little-endian packing: [le_bytes n v] = the [n] low bytes of [v], least significant first.
    Callers mask or range-check [v] exactly where the Python code does. *)
Fixpoint le_bytes (n : nat) (v : Z) : bytes :=
  match n with
  | O => []
  | S n' => (v mod 256) :: le_bytes n' (v / 256)
  end.
Fixpoint le_decode (bs : bytes) : Z :=
  match bs with
  | [] => 0
  | b :: r => b + 256 * le_decode r
  end.

Definition byte_ok (b : Z) : bool := (0 <=? b) && (b <? 256).

Fixpoint repeat_z (x : Z) (n : nat) : list Z :=
  match n with O => [] | S n' => x :: repeat_z x n' end.

(** Indices of the elements on which [f] is false (used by generated case files). *)
Fixpoint bad_indices_from {A} (f : A -> bool) (l : list A) (i : nat) : list nat :=
  match l with
  | [] => []
  | x :: r => if f x then bad_indices_from f r (S i) else i :: bad_indices_from f r (S i)
  end.
Definition bad_indices {A} (f : A -> bool) (l : list A) : list nat := bad_indices_from f l 0.

(** [run_checks chk cases] = (indices whose correspondence bit is false,
                              indices whose spec-oracle bit is false). *)
Fixpoint run_checks_from {A} (chk : A -> bool * bool) (l : list A) (i : nat) : list nat * list nat :=
  match l with
  | [] => ([], [])
  | x :: r =>
      let '(c, o) := chk x in
      let '(cs, os) := run_checks_from chk r (S i) in
      ((if c then cs else i :: cs), (if o then os else i :: os))
  end.
Definition run_checks {A} (chk : A -> bool * bool) (l : list A) : list nat * list nat :=
  run_checks_from chk l 0.
