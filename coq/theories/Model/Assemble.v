(** M9 — the whole pipeline from source text, and the front ends.

    Mirrors a816/parse/mzparser.py (MZParser.parse / parse_as_ast), a816/program.py
    (assemble_string_with_emitter, assemble_with_emitter, assemble, assemble_as_patch,
    exports_symbol_file) and a816/cli.py (cli_main) on top of the scanner, parser, code
    generation, passes and writer models.  Definitions only. *)
From A816 Require Export Model.Scanner Model.Parser Model.Codegen Model.Ips Model.Sfc Model.Table.
Open Scope Z_scope.

(** ** Files the assembly may open, by the path written in the source *)
Record srcfiles := {
  sf_text : list (str * str);              (* .include: decoded text *)
  sf_bin : list (str * bytes);             (* .incbin / .include_ips: raw bytes *)
  sf_tbl : list (str * list entry)         (* .table: the file as its parsed lines *)
}.
Definition no_srcfiles : srcfiles := {| sf_text := []; sf_bin := []; sf_tbl := [] |}.

(** The live tables of one run. *)
Record live := {
  lv_low : bus; lv_high : bus; lv_busmap : list (Z * bool);
  lv_optable : optable; lv_prec : prectab; lv_lex : lexicon
}.

Definition romtype_code (t : romtype) : Z := match t with LowRom => 0 | LowRom2 => 1 | HighRom => 2 end.
Fixpoint assoc_z {V} (l : list (Z * V)) (k : Z) : option V :=
  match l with [] => None | (k', v) :: r => if k =? k' then Some v else assoc_z r k end.
Definition live_builtin (t : live) (rt : romtype) : res bus :=
  match assoc_z (lv_busmap t) (romtype_code rt) with
  | Some true => Ok (lv_low t)
  | Some false => Ok (lv_high t)
  | None => Err EKey
  end.

(** IncludeIpsNode raises RuntimeError for a missing header / truncated file; the reader model
    reports the same class. *)
Definition world_of (t : live) (fs : srcfiles) : world :=
  {| w_builtin := live_builtin t;
     w_optable := lv_optable t;
     w_prec := lv_prec t;
     w_incbin := fun p => match assoc_str (sf_bin fs) p with Some b => Ok b | None => Err EFile end;
     w_table := fun p => match assoc_str (sf_tbl fs) p with
                         | Some es => do tb <- table_of_entries es; Ok (to_bytes tb)
                         | None => Err EFile
                         end;
     w_ips := fun p d => match assoc_str (sf_bin fs) p with Some b => read_ips d b | None => Err EFile end |}.

(** open(filename) + Scanner.scan for [.include] *)
Definition include_tokens (t : live) (fs : srcfiles) (path : str) : res (list token) :=
  match assoc_str (sf_text fs) path with
  | Some text => do x <- scan_res (lv_lex t) path text; Ok (fst x)
  | None => Err EFile
  end.

Definition include_depth : nat := 40.

(** ** assemble_string_with_emitter *)
Record config := { cf_rom : option romtype; cf_defines : list (str * Z) }.

Inductive aresult :=
| AOk (o : output) (final : rstate)
| AScanError (file : str) (e : scan_error)     (* the returned error string describes a ScannerException *)
| AParseError (t : option token)               (* the returned error string is token.trace() *)
| AExc (k : errk) (site : option token)        (* an exception escapes; NodeErrors carry their file_info *)
| AFuel.

Definition initial_resolver (w : world) (c : config) : res rstate :=
  do r <- resolver_init w;
  let r1 := fold_left (fun r kv => add_symbol r (fst kv) (snd kv)) (cf_defines c) r in
  Ok (match cf_rom c with Some t => set_rom r1 t | None => r1 end).

(** The token a NodeError raised by a node points at. *)
Definition node_fi (n : node) : option token :=
  match n with
  | NData _ _ fi | NOpcode _ _ _ _ _ fi | NCodePos _ fi | NReloc _ fi | NText _ fi => Some fi
  | _ => None
  end.

(** The passes again, this time returning where they stop (same traversal as Program.v; the
    projection to [res] is proved equal to it in Proofs/AssembleProofs.v). *)
Fixpoint label_site (w : world) (r : rstate) (ns : list node) (a : addr) : option (errk * option token) :=
  match ns with
  | [] => None
  | n :: rest =>
      if is_symbol_node n then label_site w r rest a
      else match pc_after w r n a with
           | Ok ra => label_site w (fst ra) rest (snd ra)
           | Err k => Some (k, node_fi n)
           | OutOfFuel => None
           end
  end.
Fixpoint symbol_site (w : world) (r : rstate) (ns : list node) (a : addr) : option (errk * option token) :=
  match ns with
  | [] => None
  | n :: rest =>
      if is_label_or_binary n then symbol_site w r rest a
      else match pc_after w r n a with
           | Ok ra => symbol_site w (fst ra) rest (snd ra)
           | Err k => Some (k, node_fi n)
           | OutOfFuel => None
           end
  end.
Fixpoint emit_site (w : world) (st : estate) (ns : list node) (addrs : list Z) : option (errk * option token) :=
  match ns, addrs with
  | n :: rest, x :: addrs' =>
      match emit_step w st n x with
      | Ok st' => emit_site w st' rest addrs'
      | Err k =>
          (* a phase error is a RuntimeError without location; node errors point at the node *)
          Some (k, if negb (a_val (r_reloc (e_r st)) =? x) then None else node_fi n)
      | OutOfFuel => None
      end
  | _, _ => None
  end.

(** Where assemble_nodes fails (None when it does not, or not with an exception). *)
Definition nodes_site (w : world) (r : rstate) (ns : list node) : option (errk * option token) :=
  let r0 := set_cur_last r (r_cur r) 0 in
  match label_site w r0 ns (r_reloc r0) with
  | Some s => Some s
  | None =>
      match label_pass w r0 ns (r_reloc r0) [] with
      | Ok (r1, _, addrs) =>
          let r2 := resolver_reset r1 in
          match symbol_site w r2 ns (r_reloc r2) with
          | Some s => Some s
          | None =>
              match symbol_pass w r2 ns (r_reloc r2) with
              | Ok y =>
                  let r3 := resolver_reset (fst y) in
                  emit_site w {| e_r := r3; e_block := []; e_baddr := r_pc r3; e_out := [] |} ns addrs
              | _ => None
              end
          end
      | _ => None
      end
  end.

(** Where code generation stops with generate_code_lookup's NodeError ("... is not a code block
    (...)": [{{x}}] with [x] bound to a number).  The error carries the file_info of the [{{x}}]
    statement (its identifier token), wherever the statement stands: in the main text, in a macro body
    (the line inside the macro definition), in an included file, in a block passed as an argument.
    Same traversal as [gen_list] / [gen_one]; [None] when code generation does not fail, or fails
    with anything else. *)
Section CgSite.
  Variable w : world.
  Variable gen : cgstate -> list ast -> res (cgstate * list node).
  Variable gsite : cgstate -> list ast -> option token.

  Definition scoped_site (k : skind) (s : cgstate) (pre : rstate -> rstate * list node) (b : list ast) : option token :=
    match enter_scope (cg_r s) k with
    | Ok r1 => gsite (cg_set_r s (fst (pre r1))) b
    | _ => None
    end.

  Fixpoint for_site (n : nat) (k : Z) (v : str) (b : list ast) (s : cgstate) : option token :=
    match n with
    | O => None
    | S n' =>
        match scoped gen SInternal s (fun r => (r, [NSymConst v k])) b with
        | Ok x => for_site n' (k + 1) v b (fst x)
        | Err _ => scoped_site SInternal s (fun r => (r, [NSymConst v k])) b
        | OutOfFuel => None
        end
    end.

  Definition gen_one_site (s : cgstate) (a : ast) : option token :=
    let r := cg_r s in
    match a with
    | ABlock b _ => gsite s b
    | ACompound b _ => scoped_site SPlain s (fun r => (r, [])) b
    | AScope name b _ _ => scoped_site (SNamed name) s (fun r => (r, [])) b
    | AMacroApply name args _ =>
        match dict_get (cg_macros s) name with
        | Some md =>
            match eval_macro_args w r (md_params md) args with
            | Ok bound => scoped_site SPlain s (fun r => bind_macro_args r bound) (md_body md)
            | _ => None
            end
        | None => None
        end
    | ACodeLookup name fi =>
        match value_for r name with
        | Ok (VCode b _) => gsite s b
        | Ok (VInt _) => Some fi
        | _ => None
        end
    | AIf c th _ el _ =>
        match if_condition w r c with
        | Ok true => gsite s th
        | Ok false => match el with Some (eb, _) => gsite s eb | None => None end
        | _ => None
        end
    | AFor v lo hi b _ _ =>
        match eval_raw w r lo, eval_raw w r hi with
        | Ok from, Ok to => for_site (Z.to_nat (to - from)) from v b s
        | _, _ => None
        end
    | _ => None
    end.

  Fixpoint gen_list_site (s : cgstate) (body : list ast) : option token :=
    match body with
    | [] => None
    | a :: rest =>
        match gen_one w gen s a with
        | Ok x => gen_list_site (fst x) rest
        | Err _ => gen_one_site s a
        | OutOfFuel => None
        end
    end.
End CgSite.

Fixpoint code_gen_site (w : world) (fuel : nat) (s : cgstate) (body : list ast) {struct fuel} : option token :=
  match fuel with
  | O => None
  | S f => gen_list_site w (code_gen_fuel w f) (code_gen_site w f) s body
  end.

Definition assemble_program (w : world) (c : config) (prog : list ast) : aresult :=
  match initial_resolver w c with
  | Ok r =>
      match code_gen_fuel w cg_depth {| cg_r := r; cg_macros := [] |} prog with
      | Ok (s, ns) =>
          match assemble_nodes w (cg_r s) ns with
          | Ok o => AOk o (o_final o)
          | Err k => AExc k (match nodes_site w (cg_r s) ns with Some (_, site) => site | None => None end)
          | OutOfFuel => AFuel
          end
      | Err k => AExc k (code_gen_site w cg_depth {| cg_r := r; cg_macros := [] |} prog)
      | OutOfFuel => AFuel
      end
  | Err k => AExc k None
  | OutOfFuel => AFuel
  end.

(** The first included file (in the order given) whose scan fails: the ScannerException that
    escapes parse_keyword's nested scan. *)
Fixpoint first_include_scan_error (lx : lexicon) (files : list (str * str)) : option (str * scan_error) :=
  match files with
  | [] => None
  | (path, text) :: rest =>
      match scan lx path text with
      | ScanErr e => Some (path, e)
      | _ => first_include_scan_error lx rest
      end
  end.

Definition assemble_source (t : live) (fs : srcfiles) (c : config) (fname src : str) : aresult :=
  match scan (lv_lex t) fname src with
  | ScanErr e => match se_quoted e with Some _ => AScanError fname e | None => AExc EIndex None end
  | ScanStuck => AExc EOther None
  | ScanOutOfFuel => AFuel
  | ScanOk toks _ =>
      match parse_program (parse_fuel (length toks)) include_depth (include_tokens t fs) toks with
      | POk prog => assemble_program (world_of t fs) c prog
      | PErr EParse tok => AParseError tok
      | PErr EScan _ =>
          match first_include_scan_error (lv_lex t) (sf_text fs) with
          | Some (path, e) => AScanError path e
          | None => AExc EScan None
          end
      | PErr k _ => AExc k None
      | PUnrep _ => AExc EOther None
      | PFuel => AFuel
      end
  end.

(** ** The front ends *)
Inductive format := FIps | FSfc.
Record frontcfg := { fc_format : format; fc_copier : bool; fc_config : config }.

(** Blocks as the writers receive them (address, bytes), in call order. *)
Definition writer_blocks (o : output) : list (Z * bytes) := map (fun b => (snd b, fst b)) (o_blocks o).

(** The output file of a successful assembly: assemble_as_patch = begin + blocks + end;
    assemble = seek/write into an empty file. *)
Definition output_file (f : frontcfg) (o : output) : res bytes :=
  match fc_format f with
  | FIps => ips_write (fc_copier f) (writer_blocks o)
  | FSfc => sfc_image (writer_blocks o)
  end.

(** What a file API call does: return a status (and whether "Success !" was logged), or let an
    exception through.  NodeError, RuntimeError and an error string give -1; every other exception
    class is not caught by assemble_with_emitter. *)
Inductive status := SReturn (code : Z) (announced : bool) | SRaise (k : errk).

Definition file_api (f : frontcfg) (r : aresult) : status * option bytes :=
  match r with
  | AOk o _ =>
      match output_file f o with
      | Ok bs => (SReturn 0 true, Some bs)
      | Err ERuntime => (SReturn (-1) false, None)
      | Err k => (SRaise k, None)
      | OutOfFuel => (SRaise EOther, None)
      end
  | AScanError _ _ | AParseError _ => (SReturn (-1) false, None)
  | AExc ENode _ | AExc ERuntime _ | AExc ERecursion _ => (SReturn (-1) false, None)
        (* NodeError, and `except RuntimeError` — RecursionError is a RuntimeError — : logged, -1 *)
  | AExc k _ => (SRaise k, None)
  | AFuel => (SRaise EOther, None)
  end.

(** The string API: None exactly on success, the error string for scan/parse errors, an
    exception otherwise. *)
Inductive string_api_result := RNone | RErrorString | RRaise (k : errk).
Definition string_api (r : aresult) : string_api_result :=
  match r with
  | AOk _ _ => RNone
  | AScanError _ _ | AParseError _ => RErrorString
  | AExc k _ => RRaise k
  | AFuel => RRaise EOther
  end.

(** Process exit status of x816: sys.exit(code) of the returned status (-1 is 255), 1 for an
    uncaught exception. *)
Definition cli_exit (s : status) : Z :=
  match s with SReturn c _ => c mod 256 | SRaise _ => 1 end.

(** exports_symbol_file: one "bank:offset name" line per label of a non-internal scope. *)
Definition symbol_lines (r : rstate) : list (Z * Z * str) :=
  map (fun nv => (Z.land (Z.shiftr (snd nv) 16) 255, Z.land (snd nv) 65535, fst nv)) (get_all_labels r).

(** ** Process state (C19): what an assembly could reach and share with the next one *)
Record globals := { g_live : live }.
Record request := { rq_files : srcfiles; rq_config : config; rq_name : str; rq_src : str }.
(** Serving a request never writes the shared objects: the built-in buses are frozen (Bus.map /
    unmap raise), every Program builds its own Resolver, Scope list and Bus. *)
Definition serve (g : globals) (q : request) : globals * aresult :=
  (g, assemble_source (g_live g) (rq_files q) (rq_config q) (rq_name q) (rq_src q)).

(** ** eval_expression_str(text, resolver): Scanner(lex_expression) + parse_expression_ep + eval_expression
    (what the command line does with the value of -D NAME=VALUE). *)
Definition memory_name : str := [109; 101; 109; 111; 114; 121].   (* "memory" *)
Definition eval_expression_str (prec : prectab) (ev : env) (text : str) : res Z :=
  match scan_expression memory_name text with
  | ScanOk toks _ =>
      match parse_expression_ep (parse_fuel (length toks)) toks with
      | POk e => eval_expression prec ev e
      | PErr k _ => Err k
      | PUnrep _ => Err EOther
      | PFuel => OutOfFuel
      end
  | ScanErr e => match se_quoted e with Some _ => Err EScan | None => Err EIndex end
  | ScanStuck => Err EOther
  | ScanOutOfFuel => OutOfFuel
  end.

(** cli_main's -D handling: each NAME=VALUE is evaluated in turn with eval_expression_str in the
    root scope (so a later definition may use an earlier one) and bound as a constant; an exception
    escapes before anything is assembled. *)
Fixpoint eval_defines (prec : prectab) (defs : list (str * str)) (acc : list (str * Z)) : res (list (str * Z)) :=
  match defs with
  | [] => Ok acc
  | (name, text) :: rest =>
      do v <- eval_expression_str prec
                (fun n => match assoc_str (rev acc) n with Some x => Ok x | None => Err ESymbol end) text;
      eval_defines prec rest (acc ++ [(name, v)])
  end.
