(** The parser's AST: mirrors a816/parse/ast/nodes.py.  Every node carries its [file_info]
    token (the token the error messages point at). *)
From A816 Require Export Model.Tokens.

(** cpu_65c816.AddressingMode *)
Inductive amode :=
| M_none | M_immediate | M_direct | M_direct_indexed | M_indirect | M_indirect_indexed
| M_indirect_long | M_indirect_indexed_long | M_dp_or_sr_indirect_indexed
| M_stack_indexed_indirect_indexed.
Definition amode_code (m : amode) : Z :=
  match m with
  | M_none => 0 | M_immediate => 1 | M_direct => 2 | M_direct_indexed => 3 | M_indirect => 4
  | M_indirect_indexed => 5 | M_indirect_long => 6 | M_indirect_indexed_long => 7
  | M_dp_or_sr_indirect_indexed => 8 | M_stack_indexed_indirect_indexed => 9
  end.
Definition amode_eqb (a b : amode) : bool := Z.eqb (amode_code a) (amode_code b).

(** ValueSize "b" | "w" | "l" *)
Inductive vsize := SzB | SzW | SzL.
Definition vsize_idx (s : vsize) : nat := match s with SzB => 0 | SzW => 1 | SzL => 2 end.
Definition vsize_eqb (a b : vsize) : bool := Nat.eqb (vsize_idx a) (vsize_idx b).

(** ExprNode subclasses: Term, BinOp, UnaryOp, Parenthesis, each wrapping its token. *)
Inductive ekind := EK_term | EK_bin | EK_un | EK_par.
Record enode := { en_kind : ekind; en_tok : token }.
(** ExpressionAstNode: a non-empty flat token list; its file_info is the first token. *)
Definition expr := list enode.

Inductive dkind := D_db | D_dw | D_dl | D_pointer.

(** MapArgs: the optional attributes of a [.map] line, already through [ast.literal_eval]. *)
Record mapargs := {
  ma_identifier : option Z;
  ma_writable : option Z;                (* present at all => truthy test in generate_map *)
  ma_bank_range : option (Z * option Z); (* a single number is kept as (n, None) *)
  ma_addr_range : option (Z * option Z);
  ma_mask : option (Z * option Z);
  ma_mirror_bank_range : option (Z * option Z)
}.

Inductive ast :=
| ABlock (body : list ast) (fi : token)
| ACompound (body : list ast) (fi : token)
| ALabel (name : str) (fi : token)
| AText (text : str) (fi : token)
| AAscii (text : str) (fi : token)
| AScope (name : str) (body : list ast) (body_fi : token) (fi : token)
| AStarEq (e : expr) (fi : token)
| AAtEq (e : expr) (fi : token)
| AMap (args : mapargs) (fi : token)
| AIf (c : expr) (th : list ast) (th_fi : token) (el : option (list ast * token)) (fi : token)
| AMacro (name : str) (params : list str) (body : list ast) (body_fi : token) (fi : token)
| AMacroApply (name : str) (args : list (expr + (list ast * token))) (fi : token)
| AData (k : dkind) (data : list expr) (fi : token)   (* DataNode asserts every item is an expression *)
| ATable (path : str) (fi : token)
| AIncludeIps (path : str) (e : expr) (fi : token)
| AIncbin (path : str) (fi : token)
| ASymbol (name : str) (e : expr) (fi : token)   (* name = expr *)
| AAssign (name : str) (e : expr) (fi : token)   (* name := expr *)
| ACodeLookup (name : str) (fi : token)
| AStruct (name : str) (fields : list (str * str)) (fi : token)
| AFor (v : str) (lo hi : expr) (body : list ast) (body_fi : token) (fi : token)
| AOpcode (mode : amode) (opcode : str) (size : option vsize) (operand : option expr)
          (index : option str) (fi : token).
