(** M1 — address mapping.  Mirrors a816/cpu/mapping.py (Mapping, Bus, Address) and the way
    a816/symbols.py builds the built-in buses.  Definitions only; proofs are in Proofs/. *)
From A816 Require Export Base.Prelude.

(** Mapping: [address_range] is stored by the Python class but never read; it is omitted. *)
Record mapping := { m_first : Z; m_last : Z; m_mask : Z; m_writable : bool }.

(** Mapping.physical_address:
      bank = value >> 16
      if self.writable is False: (bank - bank_range[0]) * mask + (value & ~mask & 0xFFFF)
      else None *)
Definition physical_address (m : mapping) (v : Z) : option Z :=
  if m_writable m then None
  else Some ((Z.shiftr v 16 - m_first m) * m_mask m + Z.land (Z.land v (Z.lnot (m_mask m))) 65535).

(** Mapping.logical_address — Python precedence made explicit:
      ((value // mask + bank_range[0]) << 16) | ((mask & 0xFFFF) + value % mask)
    [mask = 0] is ZeroDivisionError. *)
Definition logical_address (m : mapping) (p : Z) : res Z :=
  if m_mask m =? 0 then Err EOther
  else Ok (Z.lor (Z.shiftl (p / m_mask m + m_first m) 16) (Z.land (m_mask m) 65535 + p mod m_mask m)).

(** Bus: [lookup : dict bank -> identifier] is kept as the list of assigned bank ranges,
    newest first (a later [map] overwrites the banks it covers); [mappings] by identifier. *)
Record bus := { b_ranges : list (Z * Z * str); b_maps : dict mapping; b_editable : bool }.

Definition empty_bus : bus := {| b_ranges := []; b_maps := []; b_editable := true |}.
Definition bus_has_mappings (b : bus) : bool := match b_maps b with [] => false | _ => true end.

Fixpoint find_range (rs : list (Z * Z * str)) (bank : Z) : option str :=
  match rs with
  | [] => None
  | (lo, hi, id) :: r => if (lo <=? bank) && (bank <=? hi) then Some id else find_range r bank
  end.

(** Bus.get_mapping_for_bank: self.mappings[self.lookup[bank]] — KeyError either way. *)
Definition bus_mapping_for_bank (b : bus) (bank : Z) : res mapping :=
  match find_range (b_ranges b) bank with
  | None => Err EKey
  | Some id => match dict_get (b_maps b) id with None => Err EKey | Some m => Ok m end
  end.

Definition mirror_suffix : str := [95; 109; 105; 114; 114; 111; 114].   (* "_mirror" *)

(** Bus.map *)
Definition bus_map (b : bus) (id : str) (banks : Z * Z) (mask : Z) (writable : bool)
           (mirror : option (Z * Z)) : res bus :=
  if negb (b_editable b) then Err ERuntime else
  let m := {| m_first := fst banks; m_last := snd banks; m_mask := mask; m_writable := writable |} in
  let b1 := {| b_ranges := (fst banks, snd banks, id) :: b_ranges b;
               b_maps := dict_set (b_maps b) id m; b_editable := true |} in
  match mirror with
  | None => Ok b1
  | Some mb =>
      let mid := id ++ mirror_suffix in
      let mm := {| m_first := fst mb; m_last := snd mb; m_mask := mask; m_writable := writable |} in
      Ok {| b_ranges := (fst mb, snd mb, mid) :: b_ranges b1;
            b_maps := dict_set (b_maps b1) mid mm; b_editable := true |}
  end.

Fixpoint dict_remove {V} (d : dict V) (k : str) : dict V :=
  match d with
  | [] => []
  | (k', v) :: r => if str_eqb k k' then r else (k', v) :: dict_remove r k
  end.

(** Bus.unmap: removes the mappings, not the bank lookups. *)
Definition bus_unmap (b : bus) (id : str) : res bus :=
  if negb (b_editable b) then Err ERuntime else
  Ok {| b_ranges := b_ranges b;
        b_maps := dict_remove (dict_remove (b_maps b) id) (id ++ mirror_suffix);
        b_editable := true |}.

Definition bus_freeze (b : bus) : bus :=
  {| b_ranges := b_ranges b; b_maps := b_maps b; b_editable := false |}.

(** Address(bus, v): looks its mapping up at construction (KeyError when the bank is unmapped).
    The model represents an Address by its logical value; the bus is passed alongside. *)
Definition get_address (b : bus) (v : Z) : res Z :=
  do _ <- bus_mapping_for_bank b (Z.shiftr v 16); Ok v.

(** Address.physical *)
Definition addr_physical (b : bus) (v : Z) : res (option Z) :=
  do m <- bus_mapping_for_bank b (Z.shiftr v 16); Ok (physical_address m v).

Definition addr_writable (b : bus) (v : Z) : res bool :=
  do m <- bus_mapping_for_bank b (Z.shiftr v 16); Ok (m_writable m).

(** Address.__add__ *)
Definition addr_add (b : bus) (v n : Z) : res Z :=
  do m <- bus_mapping_for_bank b (Z.shiftr v 16);
  do l <- match physical_address m v with
          | Some p => logical_address m (p + n)
          | None => Ok (v + n)
          end;
  get_address b l.

(** The two built-in buses, as a816/symbols.py builds them.  The check regenerates the same
    data from the live objects (Gen/Buses.v) and requires equality with these. *)
Definition id1 : str := [49]. Definition id2 : str := [50].
Definition build (steps : list (str * (Z * Z) * Z * bool * option (Z * Z))) : res bus :=
  fold_left (fun rb st => do b <- rb;
               let '(id, banks, mask, w, mir) := st in bus_map b id banks mask w mir)
            steps (Ok empty_bus).
Definition low_rom_bus_spec : res bus :=
  do b <- build [ (id1, (0, 111), 32768, false, Some (128, 207));
                  (id2, (126, 127), 65536, true, None) ];
  Ok (bus_freeze b).
Definition high_rom_bus_spec : res bus :=
  do b <- build [ (id1, (64, 127), 65536, false, Some (192, 255));
                  (id2, (126, 127), 65536, true, None) ];
  Ok (bus_freeze b).
