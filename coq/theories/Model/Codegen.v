(** M5 — code generation.  Mirrors a816/parse/codegen.py: code_gen / _code_gen and every
    generate_* function.  Definitions only.

    All recursion (nested bodies, macro expansion, code-block splices) goes through one depth
    fuel; exhaustion is [Err ERecursion] (Python's RecursionError).  [.for] iterates over
    [Z.to_nat (to - from)] values. *)
From A816 Require Export Model.Program.

Record macrodef := { md_params : list str; md_body : list ast }.
Record cgstate := { cg_r : rstate; cg_macros : dict macrodef }.
Definition cg_set_r (s : cgstate) (r : rstate) : cgstate := {| cg_r := r; cg_macros := cg_macros s |}.

(** str(int) for a non-negative identifier (the [.map] identifier attribute). *)
Fixpoint dec_digits (fuel : nat) (n : Z) (acc : str) : str :=
  match fuel with
  | O => acc
  | S f => if n <? 10 then (48 + n) :: acc else dec_digits f (n / 10) ((48 + n mod 10) :: acc)
  end.
Definition str_of_int (n : Z) : str :=
  if n <? 0 then 45 :: dec_digits (S (Z.to_nat (Z.log2 (- n)))) (- n) []
  else dec_digits (S (Z.to_nat (Z.log2 n))) n [].

(** generate_map: resolver.bus.map(str(identifier), bank_range, addr_range, mask,
    writeable=args.get("writable", False), mirror_bank_range=args.get("mirror_bank_range")).
    A missing identifier / bank_range / addr_range / mask is a KeyError; a range given as a
    single number is a TypeError when it is subscripted. *)
Definition generate_map (r : rstate) (a : mapargs) : res rstate :=
  match ma_identifier a, ma_bank_range a, ma_addr_range a, ma_mask a with
  | Some id, Some br, Some _, Some mk =>
      match br, mk with
      | (lo, Some hi), (mask, None) =>
          match ma_mirror_bank_range a with
          | Some (m0, None) =>
              (* a non-zero number is truthy: the primary range is mapped, then mirror_bank_range[0] raises *)
              if m0 =? 0 then
                do b <- bus_map (r_bus r) (str_of_int id) (lo, hi) mask
                                (match ma_writable a with Some _ => true | None => false end) None;
                Ok (set_bus r b)
              else Err EType
          | mir =>
              let mirror := match mir with Some (mlo, Some mhi) => Some (mlo, mhi) | _ => None end in
              let writable := match ma_writable a with Some _ => true | None => false end in
              do b <- bus_map (r_bus r) (str_of_int id) (lo, hi) mask writable mirror;
              Ok (set_bus r b)
          end
      | _, _ => Err EType
      end
  | _, _, _, _ => Err EKey
  end.

Definition indexed_mode (m : amode) : bool :=
  match m with
  | M_direct_indexed | M_indirect_indexed | M_indirect_indexed_long | M_dp_or_sr_indirect_indexed
  | M_stack_indexed_indirect_indexed => true
  | _ => false
  end.

(** .if: SymbolNotDefined while evaluating the condition counts as false (every other failure,
    an operator without precedence entry — KeyError — included, reaches the caller). *)
Definition if_condition (w : world) (r : rstate) (c : expr) : res bool :=
  match eval_raw w r c with
  | Ok v => Ok (negb (v =? 0))
  | Err ESymbol => Ok false
  | Err k => Err k
  | OutOfFuel => OutOfFuel
  end.

(** Argument evaluation of a macro application, in the caller's scope. *)
Inductive argval := AVInt (v : Z) | AVCode (body : list ast) (fi : token) | AVDeferred (e : expr).
Fixpoint eval_macro_args (w : world) (r : rstate) (params : list str)
         (args : list (expr + (list ast * token))) : res (list (str * argval)) :=
  match params with
  | [] => Ok []
  | p :: ps =>
      match args with
      | [] => Err EIndex                                  (* macro_args_values[index] *)
      | a :: rest =>
          do v <- match a with
                  | inr (body, fi) => Ok (AVCode body fi)
                  | inl e => match eval_raw w r e with
                             | Ok v => Ok (AVInt v)
                             | Err ESymbol => Ok (AVDeferred e)
                             | Err k => Err k
                             | OutOfFuel => OutOfFuel
                             end
                  end;
          do tl <- eval_macro_args w r ps rest;
          Ok ((p, v) :: tl)
      end
  end.

(** Binding of the evaluated arguments inside the application scope. *)
Fixpoint bind_macro_args (r : rstate) (bs : list (str * argval)) : rstate * list node :=
  match bs with
  | [] => (r, [])
  | (p, v) :: rest =>
      match v with
      | AVInt x => bind_macro_args (add_symbol r p x) rest
      | AVCode body fi => bind_macro_args (add_code r p (body, fi)) rest
      | AVDeferred e => let '(r', ns) := bind_macro_args r rest in (r', NSymbol p e true :: ns)
      end
  end.

Definition enter_scope (r : rstate) (k : skind) : res rstate := use_next_scope (append_scope r k).

Section Gen.
  Variable w : world.
  (** [gen] is _code_gen one nesting level further down (see [code_gen_fuel] below). *)
  Variable gen : cgstate -> list ast -> res (cgstate * list node).

  (** A body generated inside a fresh scope: append + use_next_scope, ScopeNode, [pre] (parameter
      bindings / loop variable), the body, PopScopeNode, restore_scope. *)
  Definition scoped (k : skind) (s : cgstate) (pre : rstate -> rstate * list node) (b : list ast)
    : res (cgstate * list node) :=
    do r1 <- enter_scope (cg_r s) k;
    let '(r2, prens) := pre r1 in
    do x <- gen (cg_set_r s r2) b;
    do r3 <- restore_scope (cg_r (fst x)) false;
    Ok (cg_set_r (fst x) r3, NScope :: prens ++ snd x ++ [NPop]).

  (** generate_for: for k in range(from, to) *)
  Fixpoint for_loop (n : nat) (k : Z) (v : str) (b : list ast) (s : cgstate) : res (cgstate * list node) :=
    match n with
    | O => Ok (s, [])
    | S n' =>
        do x <- scoped SInternal s (fun r => (r, [NSymConst v k])) b;
        do y <- for_loop n' (k + 1) v b (fst x);
        Ok (fst y, snd x ++ snd y)
    end.

  (** The dispatch on node.kind (the [generators] table). *)
  Definition gen_one (s : cgstate) (a : ast) : res (cgstate * list node) :=
    let r := cg_r s in
    match a with
    | ABlock b _ => gen s b
    | ACompound b _ => scoped SPlain s (fun r => (r, [])) b
    | AScope name b _ _ => scoped (SNamed name) s (fun r => (r, [])) b
    | AMap args _ => do r' <- generate_map r args; Ok (cg_set_r s r', [])
    | AMacro name params b _ _ =>
        Ok ({| cg_r := r; cg_macros := dict_set (cg_macros s) name {| md_params := params; md_body := b |} |}, [])
    | AMacroApply name args _ =>
        match dict_get (cg_macros s) name with
        | None => Err EKey
        | Some md =>
            do bound <- eval_macro_args w r (md_params md) args;
            scoped SPlain s (fun r => bind_macro_args r bound) (md_body md)
        end
    | ACodeLookup name fi =>
        match value_for r name with
        | Ok (VCode b _) => gen s b
        | Ok (VInt _) => Err ENode
        | Err k => Err k
        | OutOfFuel => OutOfFuel
        end
    | AIf c th _ el _ =>
        do cond <- if_condition w r c;
        if cond then gen s th
        else match el with Some (eb, _) => gen s eb | None => Ok (s, []) end
    | AFor v lo hi b _ _ =>
        do from <- eval_raw w r lo;
        do to <- eval_raw w r hi;
        for_loop (Z.to_nat (to - from)) from v b s
    | AAtEq e fi => Ok (s, [NReloc e fi])
    | AStarEq e fi => Ok (s, [NCodePos e fi])
    | ATable path _ =>
        do t <- w_table w path;
        Ok (cg_set_r s (upd_scope r (r_cur r) (scope_set_table t)), [NTable])
    | AText text fi =>
        do t <- get_table r;
        Ok (s, [NText (match t with Some f => f text | None => Err ENode end) fi])
    | AAscii text _ => Ok (s, [NAscii text])
    | AData k data fi => Ok (s, map (fun e => NData k e fi) data)
    | ASymbol name e _ => Ok (s, [NSymbol name e false])
    | AAssign name e _ => do v <- eval_raw w r e; Ok (cg_set_r s (add_symbol r name v), [])
    | ALabel name _ => Ok (s, [NLabel name])
    | AOpcode mode opcode size operand index fi =>
        match mode with
        | M_none => Ok (s, [NOpcode (lower_ascii opcode) mode None None None fi])
        | _ =>
            match operand with
            | None => Err EAssert
            | Some e =>
                Ok (s, [NOpcode (lower_ascii opcode) mode (if indexed_mode mode then index else None)
                                (Some e) size fi])
            end
        end
    | AIncbin path _ => do c <- w_incbin w path; Ok (s, [NBinary path c])
    | AIncludeIps path e _ =>
        do delta <- eval_raw w r e;
        do blocks <- w_ips w path delta;
        Ok (s, [NIps blocks])
    | AStruct _ _ _ => Err ERuntime                  (* "Left over node" *)
    end.

  (** _code_gen: the statements of one list, in order. *)
  Fixpoint gen_list (s : cgstate) (body : list ast) : res (cgstate * list node) :=
    match body with
    | [] => Ok (s, [])
    | a :: rest =>
        do x <- gen_one s a;
        do y <- gen_list (fst x) rest;
        Ok (fst y, snd x ++ snd y)
    end.
End Gen.

(** Nesting (blocks, macro expansion, code splices) is bounded by the depth fuel. *)
Fixpoint code_gen_fuel (w : world) (fuel : nat) (s : cgstate) (body : list ast) {struct fuel}
  : res (cgstate * list node) :=
  match fuel with
  | O => Err ERecursion
  | S f => gen_list w (code_gen_fuel w f) s body
  end.

Definition cg_depth : nat := 300.

(** MZParser.parse's code generation + Program.resolve_labels + Program.emit on an AST. *)
Definition assemble_ast (w : world) (r : rstate) (prog : list ast) : res output :=
  do x <- code_gen_fuel w cg_depth {| cg_r := r; cg_macros := [] |} prog;
  assemble_nodes w (cg_r (fst x)) (snd x).
