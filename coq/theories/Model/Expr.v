(** M3 — expressions.  Mirrors a816/parse/ast/expression.py: shunting_yard (as repaired:
    a prefix operator is pushed without popping and has precedence 2 on the stack),
    reverse_find_token, eval_number, eval_expression.  Definitions only.

    [prec] is OPERATOR_PRECEDENCE (regenerated from the live dict each run); [env] is
    [resolver.current_scope.value_for] followed by the isinstance-int test:
    undefined => [Err ESymbol], bound to a code block => [Err ERuntime]. *)
From A816 Require Export Model.Ast.

Definition prectab := list (str * Z).
Fixpoint prec_get (p : prectab) (k : str) : res Z :=
  match p with
  | [] => Err EKey
  | (k', v) :: r => if str_eqb k k' then Ok v else prec_get r k
  end.

Definition s_lparen : str := [40].   (* "(" *)
Definition en_val (e : enode) : str := t_value (en_tok e).
Definition en_type (e : enode) : ttype := t_type (en_tok e).
Definition is_un (e : enode) : bool := match en_kind e with EK_un => true | _ => false end.
Definition is_bin (e : enode) : bool := match en_kind e with EK_bin => true | _ => false end.
Definition is_term (e : enode) : bool := match en_kind e with EK_term => true | _ => false end.

(** _stack_precedence *)
Definition stack_prec (p : prectab) (e : enode) : res Z :=
  if is_un e then Ok 2 else prec_get p (en_val e).

(** The [while] loop of the BinOp case: pops while the top is at least as tight.
    Structural on the stack (the Python list, top first). *)
Fixpoint pop_tighter (p : prectab) (cur : Z) (stack : list enode) (out : list enode)
  : res (list enode * list enode) :=
  match stack with
  | [] => Ok ([], out)
  | top :: rest =>
      do tp <- stack_prec p top;
      if (tp <=? cur) && negb (str_eqb (en_val top) s_lparen)
      then pop_tighter p cur rest (out ++ [top])
      else Ok (stack, out)
  end.

(** RPAREN: pop to the last "(" on the stack (reverse_find_token); ValueError when none. *)
Fixpoint pop_to_lparen (stack : list enode) (out : list enode) : res (list enode * list enode) :=
  match stack with
  | [] => Err EValue
  | top :: rest =>
      if str_eqb (en_val top) s_lparen then Ok (rest, out)
      else pop_to_lparen rest (out ++ [top])
  end.

Fixpoint sy_loop (p : prectab) (nodes : list enode) (stack out : list enode) : res (list enode) :=
  match nodes with
  | [] => Ok (out ++ stack)                       (* while stack: output.append(stack.pop()) *)
  | e :: r =>
      match en_kind e with
      | EK_term => sy_loop p r stack (out ++ [e])
      | EK_un => sy_loop p r (e :: stack) out
      | EK_bin =>
          do cur <- prec_get p (en_val e);
          do so <- pop_tighter p cur stack out;
          sy_loop p r (e :: fst so) (snd so)
      | EK_par =>
          match en_type e with
          | T_LPAREN => sy_loop p r (e :: stack) out
          | T_RPAREN => do so <- pop_to_lparen stack out; sy_loop p r (fst so) (snd so)
          | _ => sy_loop p r stack out
          end
      end
  end.
Definition shunting_yard (p : prectab) (nodes : list enode) : res (list enode) := sy_loop p nodes [] [].

(** eval_number *)
Definition digit_val (c : Z) : option Z :=
  if (48 <=? c) && (c <=? 57) then Some (c - 48)
  else if (97 <=? c) && (c <=? 102) then Some (c - 87)
  else if (65 <=? c) && (c <=? 70) then Some (c - 55)
  else None.
Fixpoint digits_val (base : Z) (ds : str) (acc : Z) : res Z :=
  match ds with
  | [] => Ok acc
  | c :: r => match digit_val c with
              | Some d => if d <? base then digits_val base r (acc * base + d) else Err EValue
              | None => Err EValue
              end
  end.
Definition eval_number (s : str) : res Z :=
  match s with
  | 48 :: 120 :: ds => match ds with [] => Err EValue | _ => digits_val 16 ds 0 end   (* 0x *)
  | 48 :: 98 :: ds => match ds with [] => Err EValue | _ => digits_val 2 ds 0 end     (* 0b *)
  | [] => Err EValue
  | _ => digits_val 10 s 0
  end.

(** ~v : complement within the smallest of 8/16/32 bits holding |v| (v.bit_length()). *)
Definition eval_not (v : Z) : res Z :=
  let a := Z.abs v in
  if a <? 256 then Ok ((- v - 1) mod 256)
  else if a <? 65536 then Ok ((- v - 1) mod 65536)
  else if a <? 4294967296 then Ok ((- v - 1) mod 4294967296)
  else Err ERuntime.

Definition op_is (e : enode) (s : str) : bool := str_eqb (en_val e) s.

Definition eval_binop (e : enode) (v1 v2 : Z) : res Z :=
  if op_is e [43] then Ok (v1 + v2)
  else if op_is e [45] then Ok (v1 - v2)
  else if op_is e [42] then Ok (v1 * v2)
  else if op_is e [38] then Ok (Z.land v1 v2)
  else if op_is e [124] then Ok (Z.lor v1 v2)
  else if op_is e [62; 62] then (if v2 <? 0 then Err EValue else Ok (Z.shiftr v1 v2))
  else if op_is e [60; 60] then (if v2 <? 0 then Err EValue else Ok (Z.shiftl v1 v2))
  else Err ERuntime.

Definition env := str -> res Z.

Fixpoint eval_rpn (ev : env) (rpn : list enode) (stack : list Z) : res Z :=
  match rpn with
  | [] => match stack with v :: _ => Ok v | [] => Err EIndex end
  | e :: r =>
      match en_type e with
      | T_NUMBER => do v <- eval_number (en_val e); eval_rpn ev r (v :: stack)
      | T_IDENTIFIER => do v <- ev (en_val e); eval_rpn ev r (v :: stack)
      | _ =>
          match en_kind e with
          | EK_un =>
              match stack with
              | [] => Err EIndex
              | v1 :: st =>
                  do v <- (if op_is e [45] then Ok (- v1)
                           else if op_is e [126] then eval_not v1
                           else Err ERuntime);
                  eval_rpn ev r (v :: st)
              end
          | EK_bin =>
              match stack with
              | v2 :: v1 :: st => do v <- eval_binop e v1 v2; eval_rpn ev r (v :: st)
              | _ => Err EIndex
              end
          | _ => eval_rpn ev r stack
          end
      end
  end.

(** eval_expression(expression, resolver) *)
Definition eval_expression (p : prectab) (ev : env) (e : expr) : res Z :=
  do rpn <- shunting_yard p e; eval_rpn ev rpn [].
