(** M6 — IPS writer and reader.  Mirrors a816/writers.py (IPSWriter.begin, write_block_header,
    write_block, end) and a816/parse/nodes.py (IncludeIpsNode.__init__, _read_exactly).
    Definitions only; proofs are in Proofs/IpsProofs.v. *)
From A816 Require Export Base.Prelude.
Open Scope Z_scope.

(** ** struct.pack / struct.unpack for the formats used (big-endian, unsigned).
    [struct.pack] raises struct.error when an argument is outside the field's range. *)
Definition pack_BH (x y : Z) : res bytes :=
  if (0 <=? x) && (x <=? 255) && (0 <=? y) && (y <=? 65535)
  then Ok [x; y / 256; y mod 256] else Err EStruct.
Definition pack_H (y : Z) : res bytes :=
  if (0 <=? y) && (y <=? 65535) then Ok [y / 256; y mod 256] else Err EStruct.
(** struct.unpack(">H", b) on exactly two bytes. *)
Definition unpack_H (b1 b0 : Z) : Z := b1 * 256 + b0.

Definition ips_magic : bytes := [80; 65; 84; 67; 72].   (* b"PATCH" *)
Definition ips_eof : bytes := [69; 79; 70].             (* b"EOF" *)

(** ** Writer.  The file is only ever appended to; a call is modelled by the bytes it appended
    and how it ended.  When a call raises, what it wrote before stays in the file and nothing
    further is written (the exception propagates to the caller of the assembler). *)
Definition wr := (bytes * res unit)%type.

Definition wr_bind (a : wr) (k : unit -> wr) : wr :=
  match a with
  | (b, Ok _) => let (b', r) := k tt in (b ++ b', r)
  | (b, Err e) => (b, Err e)
  | (b, OutOfFuel) => (b, OutOfFuel)
  end.

(** IPSWriter.begin *)
Definition ips_begin : wr := (ips_magic, Ok tt).
(** IPSWriter.end *)
Definition ips_end : wr := (ips_eof, Ok tt).

(** IPSWriter.write_block_header(block, block_address):
      if self._copier_header: block_address += 0x200
      if block_address == 0x454F46: raise ValueError
      self.file.write(struct.pack(">BH", block_address >> 16, block_address & 0xFFFF))
      self.file.write(struct.pack(">H", len(block)))                                         *)
Definition ips_write_block_header (copier : bool) (block : bytes) (addr : Z) : wr :=
  let addr := if copier then addr + 512 else addr in
  if addr =? 4542278 then ([], Err EValue)
  else
    match pack_BH (Z.shiftr addr 16) (Z.land addr 65535) with
    | Ok h1 =>
        match pack_H (Z.of_nat (length block)) with
        | Ok h2 => (h1 ++ h2, Ok tt)
        | Err e => (h1, Err e)
        | OutOfFuel => (h1, OutOfFuel)
        end
    | Err e => ([], Err e)
    | OutOfFuel => ([], OutOfFuel)
    end.

(** IPSWriter.write_block(block, block_address):
      k = 0
      while block[k:]:
          slice_size = min(0xFFFF, len(block) - k)
          block_slice = block[k : k + slice_size]
          self.write_block_header(block_slice, block_address)
          self.file.write(block_slice)
          block_address += slice_size
          k += slice_size
    The loop state is carried as [rest = block[k:]] (so [len(block) - k = length rest]).  The
    loop is not structurally recursive (it advances by [slice_size]); it takes fuel. *)
Fixpoint ips_write_block (fuel : nat) (copier : bool) (rest : bytes) (addr : Z) : wr :=
  match fuel with
  | O => ([], OutOfFuel)
  | S f =>
      match rest with
      | [] => ([], Ok tt)
      | _ :: _ =>
          let slice_size := Z.min 65535 (Z.of_nat (length rest)) in
          let n := Z.to_nat slice_size in
          let block_slice := firstn n rest in
          wr_bind (ips_write_block_header copier block_slice addr) (fun _ =>
          wr_bind (block_slice, Ok tt) (fun _ =>
          ips_write_block f copier (skipn n rest) (addr + slice_size)))
      end
  end.

(** One call of write_block; [length block + 1] iterations always suffice (proved). *)
Definition ips_write_block_call (copier : bool) (block : bytes) (addr : Z) : wr :=
  ips_write_block (S (length block)) copier block addr.

(** A sequence of write_block calls; blocks are (address, bytes) in call order. *)
Fixpoint ips_write_blocks (copier : bool) (blocks : list (Z * bytes)) : wr :=
  match blocks with
  | [] => ([], Ok tt)
  | (a, b) :: r => wr_bind (ips_write_block_call copier b a) (fun _ => ips_write_blocks copier r)
  end.

(** begin(); write_block(...)*; end() — the file contents (also after an exception) and the
    outcome of the whole session. *)
Definition ips_session (copier : bool) (blocks : list (Z * bytes)) : wr :=
  wr_bind ips_begin (fun _ => wr_bind (ips_write_blocks copier blocks) (fun _ => ips_end)).

(** The produced file when every call returned normally. *)
Definition ips_write (copier : bool) (blocks : list (Z * bytes)) : res bytes :=
  match ips_session copier blocks with
  | (f, Ok _) => Ok f
  | (_, Err e) => Err e
  | (_, OutOfFuel) => OutOfFuel
  end.

(** ** Reader: IncludeIpsNode.__init__ on the contents of the file.  The open file is the list
    of bytes not read yet; [file.read(n)] returns at most [n] of them. *)
Definition file_read (n : nat) (rest : bytes) : bytes * bytes := (firstn n rest, skipn n rest).

(** _read_exactly(ips_file, size): RuntimeError("... is truncated.") on a short read. *)
Definition read_exactly (n : nat) (rest : bytes) : res (bytes * bytes) :=
  let (data, rest') := file_read n rest in
  if Nat.eqb (length data) n then Ok (data, rest') else Err ERuntime.

(** Body of the [while True] loop after the marker test: [start] are the three bytes read. *)
Definition read_record_after (delta : Z) (start : bytes) (rest : bytes) : res ((Z * bytes) * bytes) :=
  match start with
  | [a2; a1; a0] =>
      let block_addr := Z.lor (Z.shiftl a2 16) (unpack_H a1 a0) in
      do (sz, rest1) <- read_exactly 2 rest;
      match sz with
      | [s1; s0] =>
          let block_size := unpack_H s1 s0 in
          do (block, rest2) <-
             (if block_size =? 0 then
                do (rl, rest2) <- read_exactly 3 rest1;
                match rl with
                | [n1; n0; v] => Ok (repeat v (Z.to_nat (unpack_H n1 n0)), rest2)
                | _ => Err EStruct
                end
              else read_exactly (Z.to_nat block_size) rest1);
          Ok ((block_addr + delta, block), rest2)
      | _ => Err EStruct
      end
  | _ => Err EStruct
  end.

(** The [while True] loop: every iteration consumes at least three bytes or raises, so
    [length rest + 1] iterations always suffice (proved). [acc] is self.blocks, newest first. *)
Fixpoint read_ips_loop (fuel : nat) (delta : Z) (rest : bytes) (acc : list (Z * bytes))
  : res (list (Z * bytes)) :=
  match fuel with
  | O => OutOfFuel
  | S f =>
      do (start, rest1) <- read_exactly 3 rest;
      if list_eqb Z.eqb start ips_eof then Ok (rev acc)
      else
        do (blk, rest2) <- read_record_after delta start rest1;
        read_ips_loop f delta rest2 (blk :: acc)
  end.

(** IncludeIpsNode(file, resolver, delta_expression).blocks; [delta] is the evaluated
    expression (0 when there is none; the [if self.delta is not None] test is always true). *)
Definition read_ips (delta : Z) (file : bytes) : res (list (Z * bytes)) :=
  let (hd, rest) := file_read 5 file in
  if list_eqb Z.eqb hd ips_magic then read_ips_loop (S (length file)) delta rest []
  else Err ERuntime.
