(** Legacy address conversions: a816/cpu/cpu_65c816.py rom_to_snes / snes_to_rom and
    script/formulas.py.  Definitions only. *)
From A816 Require Export Base.Prelude.

Inductive romtype := LowRom | LowRom2 | HighRom.

(** [int(address / 0x8000)] is float division then truncation toward zero: [Z.quot]
    (exact while |address| < 2^53); [%] is Python's floor modulo. *)
Definition rom_to_snes (address : Z) (mode : romtype) : Z :=
  match mode with
  | LowRom => Z.lor (Z.shiftl (Z.quot address 32768) 16) (address mod 32768 + 32768)
  | LowRom2 => Z.lor (Z.shiftl (Z.quot address 32768 + 128) 16) (address mod 32768 + 32768)
  | HighRom => address + 12582912
  end.

Definition snes_to_rom (address : Z) : Z :=
  if 12582912 <=? address then address - 12582912
  else if 8421376 <=? address then (Z.shiftr address 16 - 128) * 32768 + Z.land address 32767
  else Z.shiftr address 16 * 32768 + Z.land address 32767.

(** struct.pack("<HB", a, b): range-checked, never truncating. *)
Definition pack_HB (a b : Z) : res bytes :=
  if (0 <=? a) && (a <? 65536) && (0 <=? b) && (b <? 256)
  then Ok (le_bytes 2 a ++ [b]) else Err EStruct.

(** script.formulas.long_low_rom_pointer(base)(pointer) *)
Definition long_low_rom_pointer (base pointer : Z) : res bytes :=
  let s := rom_to_snes (pointer + base) LowRom in
  pack_HB (Z.land s 65535) (Z.shiftr s 16).

(** script.formulas.base_relative_16bits_pointer_formula(base)(v) with v = [b0; b1; ...] *)
Definition base_relative_16bits_pointer (base : Z) (v : bytes) : res Z :=
  match v with
  | b0 :: b1 :: _ => Ok (b0 + Z.shiftl b1 8 + base)
  | _ => Err EIndex
  end.
