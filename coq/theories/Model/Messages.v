(** M10 — the TEXT of the error reports (C17).  Mirrors
      a816/parse/tokens.py    Position.__str__, Position.get_line, File.get, Token.trace
      a816/parse/mzparser.py  MZParser.parse_as_ast (the two except branches)
      a816/parse/nodes.py     NodeError.__str__ and the messages OpcodeNode / ExpressionNode / TextNode build
    on top of Model/Assemble.v, which carries the FIELDS of a report only.  Definitions only
    (proofs: Proofs/MessagesProofs.v; tie: Oracle/Msgo.v + harness/a816v/props/msg.py).

    What the records of the model provide and what they lack:
    - [scan_error] has everything [parse_as_ast] prints: message, line, column, the quoted line
      ([se_quoted]; [None] = [position.get_line()] raises IndexError); the file name is the
      argument of [AScanError].
    - [token] has type, value (caret width) and [tpos] = line, column and the NAME of the file; it
      does not have the File object, i.e. [file.lines].  The lines are recomputed here from the
      name ([file_lines]: the main text when the name is the main file's, else the included text
      of that path).  A main file and an included file with the SAME name are two File objects
      in Python and one here: outside the model (the generators never do that).
    - [AExc ENode site] has the file_info token of the failing node but no message.  The failing
      node is recomputed here ([nodes_fail], the traversal of Assemble.v's [nodes_site] returning
      the node and the resolver state instead of the token) and the message rebuilt from it where
      it is determined by the model's data: the three OpcodeNode messages exactly; for an
      undefined symbol only the suffix (the message embeds the symbol name as the evaluator
      raised it and [ExpressionAstNode.to_representation()], which the model does not have); for
      [.text] without table prefix and suffix only (the message embeds the default [repr] of the
      TextNode: a memory address).
    - The NodeError generate_code_lookup raises during code generation ("... is not a code block
      (...)") reaches [aresult] with the file_info of the [{{x}}] statement ([code_gen_site],
      Model/Assemble.v): the report has its suffix (file, line, quoted line); the message itself is not
      rebuilt ([RepNode None]).  "Opcode operand must not be code" still reaches [aresult] without
      site.
    - A ParserSyntaxError on a token WITHOUT position (the parser's synthetic EOF past the end of the
      token list): [trace()] is None, so [parse_as_ast] returns error = None and an empty node
      list — the string API then reports success ([RepSilent]).  No input reaching this was
      found (every path meets the scanner's real EOF token first). *)
From A816 Require Export Model.Assemble Model.TableFile.
Open Scope Z_scope.

(** ** str(int) *)
Definition dec_of_Z (z : Z) : str := if z <? 0 then 45 :: dec_digits (- z) else dec_digits z.

(** [" " * n], ["^" * n] (a negative count gives the empty string) *)
Definition spaces (n : Z) : str := repeat_z 32 (Z.to_nat n).
Definition carets (n : nat) : str := repeat_z 94 n.

(** ** TokenType / AddressingMode / ValueSize as printed *)
Definition ttype_name (t : ttype) : str :=
  match t with
  | T_EOF => [69;79;70]
  | T_COMMENT => [67;79;77;77;69;78;84]
  | T_LABEL => [76;65;66;69;76]
  | T_IDENTIFIER => [73;68;69;78;84;73;70;73;69;82]
  | T_QUOTED_STRING => [81;85;79;84;69;68;95;83;84;82;73;78;71]
  | T_OPERATOR => [79;80;69;82;65;84;79;82]
  | T_LPAREN => [76;80;65;82;69;78]
  | T_RPAREN => [82;80;65;82;69;78]
  | T_SHARP => [83;72;65;82;80]
  | T_RBRAKET => [82;66;82;65;75;69;84]
  | T_LBRAKET => [76;66;82;65;75;69;84]
  | T_RBRACE => [82;66;82;65;67;69]
  | T_LBRACE => [76;66;82;65;67;69]
  | T_ADDRESSING_MODE_INDEX => [65;68;68;82;69;83;83;73;78;71;95;77;79;68;69;95;73;78;68;69;88]
  | T_OPCODE_SIZE => [79;80;67;79;68;69;95;83;73;90;69]
  | T_OPCODE_NAKED => [79;80;67;79;68;69;95;78;65;75;69;68]
  | T_OPCODE => [79;80;67;79;68;69]
  | T_COMMA => [67;79;77;77;65]
  | T_KEYWORD => [75;69;89;87;79;82;68]
  | T_NUMBER => [78;85;77;66;69;82]
  | T_STAR_EQ => [83;84;65;82;95;69;81]
  | T_AT_EQ => [65;84;95;69;81]
  | T_EQUAL => [69;81;85;65;76]
  | T_ASSIGN => [65;83;83;73;71;78]
  | T_DOUBLE_LBRACE => [68;79;85;66;76;69;95;76;66;82;65;67;69]
  | T_DOUBLE_RBRACE => [68;79;85;66;76;69;95;82;66;82;65;67;69]
  | T_BOOLEAN => [66;79;79;76;69;65;78]
  | T_TYPE => [84;89;80;69]
  end.
(** f"{self.type}" of an Enum member: "TokenType.NAME" *)
Definition tokentype_prefix : str := [84;111;107;101;110;84;121;112;101;46].
Definition ttype_str (t : ttype) : str := tokentype_prefix ++ ttype_name t.

Definition amode_name (m : amode) : str :=
  match m with
  | M_none => [110;111;110;101]
  | M_immediate => [105;109;109;101;100;105;97;116;101]
  | M_direct => [100;105;114;101;99;116]
  | M_direct_indexed => [100;105;114;101;99;116;95;105;110;100;101;120;101;100]
  | M_indirect => [105;110;100;105;114;101;99;116]
  | M_indirect_indexed => [105;110;100;105;114;101;99;116;95;105;110;100;101;120;101;100]
  | M_indirect_long => [105;110;100;105;114;101;99;116;95;108;111;110;103]
  | M_indirect_indexed_long => [105;110;100;105;114;101;99;116;95;105;110;100;101;120;101;100;95;108;111;110;103]
  | M_dp_or_sr_indirect_indexed => [100;112;95;111;114;95;115;114;95;105;110;100;105;114;101;99;116;95;105;110;100;101;120;101;100]
  | M_stack_indexed_indirect_indexed => [115;116;97;99;107;95;105;110;100;101;120;101;100;95;105;110;100;105;114;101;99;116;95;105;110;100;101;120;101;100]
  end.
Definition vsize_letter (s : vsize) : Z := match s with SzB => 98 | SzW => 119 | SzL => 108 end.

(** ** Position.__str__ : f"{file.filename}:{line}:{column}" *)
Definition position_text (file : str) (line col : Z) : str :=
  file ++ [58] ++ dec_of_Z line ++ [58] ++ dec_of_Z col.
Definition position_str (p : tpos) : str := position_text (tp_file p) (tp_line p) (tp_col p).

(** ** parse_as_ast, except ScannerException:
    f"{position_str} : {e}\n{line}\n" + (" " * position.column + "^") *)
Definition scan_report (file : str) (line col : Z) (msg quoted : str) : str :=
  position_text file line col ++ [32;58;32] ++ msg ++ [10] ++ quoted ++ [10] ++ spaces col ++ [94].

(** [None]: [position.get_line()] raises IndexError instead *)
Definition scan_error_text (file : str) (e : scan_error) : option str :=
  match se_quoted e with
  | Some q => Some (scan_report file (se_line e) (se_col e) (render_msg (se_msg e)) q)
  | None => None
  end.

(** ** Token.trace()
    f"\n{self.position} {self.type}\n{line}\n{' ' * column}{'^' * len(self.value)}" *)
Definition trace_report (file : str) (line col : Z) (ty : ttype) (quoted : str) (width : nat) : str :=
  [10] ++ position_text file line col ++ [32] ++ ttype_str ty ++ [10] ++ quoted ++ [10] ++
  spaces col ++ carets width.

(** [lines[-1]] *)
Definition last_line (lines : list str) : option str :=
  match lines with [] => None | _ => Some (last lines []) end.

(** [lines] = [self.position.file.lines].  Ok None: no position, trace() is None.
    Err EIndex: [lines[-1]] of an empty list / [lines[line]] out of range. *)
Definition token_trace (lines : list str) (t : token) : res (option str) :=
  match t_pos t with
  | None => Ok None
  | Some p =>
      match (if ttype_eqb (t_type t) T_EOF then last_line lines else py_index lines (tp_line p)) with
      | Some q => Ok (Some (trace_report (tp_file p) (tp_line p) (tp_col p) (t_type t) q (length (t_value t))))
      | None => Err EIndex
      end
  end.

(** ** NodeError.__str__
    f'"{message}"' + f" at\n{filename}:{line} {get_line()}"   (no column; location only with a position) *)
Definition node_error_loc (file : str) (line : Z) (quoted : str) : str :=
  [32;97;116;10] ++ file ++ [58] ++ dec_of_Z line ++ [32] ++ quoted.
Definition node_error_report (msg file : str) (line : Z) (quoted : str) : str :=
  [34] ++ msg ++ [34] ++ node_error_loc file line quoted.

(** the part after the closing quote of the message; Ok [] without position *)
Definition node_error_suffix (lines : list str) (fi : option token) : res str :=
  match fi with
  | None => Ok []
  | Some t =>
      match t_pos t with
      | None => Ok []
      | Some p =>
          match py_index lines (tp_line p) with
          | Some q => Ok (node_error_loc (tp_file p) (tp_line p) q)
          | None => Err EIndex
          end
      end
  end.
Definition node_error_text (msg : str) (lines : list str) (fi : option token) : res str :=
  do suf <- node_error_suffix lines fi; Ok ([34] ++ msg ++ [34] ++ suf).

(** ** The messages the nodes build *)
Inductive msg_pat :=
| MExact (s : str)              (* the message *)
| MAffix (pre suf : str).       (* pre ++ (something the model does not have) ++ suf *)

Definition s_addressing_mode : str := [65;100;100;114;101;115;115;105;110;103;32;109;111;100;101;32;40].
Definition s_for_opcode_def : str := [41;32;102;111;114;32;111;112;99;111;100;101;95;100;101;102;32;40].
Definition s_is_not_defined : str := [41;32;105;115;32;110;111;116;32;100;101;102;105;110;101;100;46].
Definition s_needs_an_index : str := [41;32;110;101;101;100;115;32;97;110;32;105;110;100;101;120;46].
Definition s_does_not_supports : str :=
  [32;100;111;101;115;32;110;111;116;32;115;117;112;112;111;114;116;115;32;115;105;122;101;32;40].
Definition s_not_in_scope : str :=      (* ") is not defined in the current scope." *)
  [41;32;105;115;32;110;111;116;32;100;101;102;105;110;101;100;32;105;110;32;116;104;101;32;99;117;114;114;101;110;116;32;115;99;111;112;101;46].
Definition s_table_prefix : str :=      (* "table_is_not_defined (<a816.parse.nodes.TextNode object at 0x" *)
  [116;97;98;108;101;95;105;115;95;110;111;116;95;100;101;102;105;110;101;100;32;40;60;97;56;49;54;46;112;97;114;115;101;46;110;111;100;101;115;46;84;101;120;116;78;111;100;101;32;111;98;106;101;99;116;32;97;116;32;48;120].

(** f"Addressing mode ({mode.name}) for opcode_def ({opcode}) is not defined." / "... needs an index." *)
Definition msg_mode_undefined (m : amode) (opcode : str) : str :=
  s_addressing_mode ++ amode_name m ++ s_for_opcode_def ++ opcode ++ s_is_not_defined.
Definition msg_needs_index (m : amode) (opcode : str) : str :=
  s_addressing_mode ++ amode_name m ++ s_for_opcode_def ++ opcode ++ s_needs_an_index.
(** f"{opcode} does not supports size ({guessed_size})." *)
Definition msg_size (opcode : str) (s : vsize) : str :=
  opcode ++ s_does_not_supports ++ [vsize_letter s] ++ [41;46].
(** f"{e} (ExpressionNode({repr})) is not defined in the current scope." : the stable end, with
    the ")" of "ExpressionNode(...)" *)
Definition pat_undefined : msg_pat := MAffix [] (41 :: s_not_in_scope).
(** f"table_is_not_defined ({self}) is not defined in the current scope." with the default repr *)
Definition pat_no_table : msg_pat := MAffix s_table_prefix (62 :: s_not_in_scope).

(** the message of the NodeError that node [n] raises in resolver state [r] (None: not a NodeError
    this model knows) *)
Definition node_message (w : world) (r : rstate) (n : node) : option msg_pat :=
  match n with
  | NOpcode opcode mode index operand size _ =>
      match assoc_str (w_optable w) opcode with
      | None => Some (MExact (msg_mode_undefined mode opcode))
      | Some by_mode =>
          match assoc_mode by_mode mode with
          | None => Some (MExact (msg_mode_undefined mode opcode))
          | Some d =>
              let em := match d with
                        | Single e => Some (Some e)
                        | ByIndex l => match index with
                                       | None => None
                                       | Some i => Some (assoc_str l i)
                                       end
                        end in
              match em with
              | None => Some (MExact (msg_needs_index mode opcode))
              | Some None => None                                   (* bare KeyError *)
              | Some (Some (EmPlain defs)) =>
                  match operand_value w r operand with
                  | None => None
                  | Some ev =>
                      match guess_size ev size with
                      | Ok s => match opcode_byte defs s with
                                | None => Some (MExact (msg_size opcode s))
                                | Some _ => Some pat_undefined
                                end
                      | _ => Some pat_undefined
                      end
                  end
              | Some (Some _) => Some pat_undefined
              end
          end
      end
  | NData _ _ _ | NCodePos _ _ | NReloc _ _ => Some pat_undefined
  | NText _ _ => Some pat_no_table
  | _ => None
  end.

(** Where assemble_nodes fails: Assemble.v's [label_site] / [symbol_site] / [emit_site] /
    [nodes_site], returning the node and the resolver state of the failing call. *)
Fixpoint label_fail (w : world) (r : rstate) (ns : list node) (a : addr) : option (errk * node * rstate) :=
  match ns with
  | [] => None
  | n :: rest =>
      if is_symbol_node n then label_fail w r rest a
      else match pc_after w r n a with
           | Ok ra => label_fail w (fst ra) rest (snd ra)
           | Err k => Some (k, n, r)
           | OutOfFuel => None
           end
  end.
Fixpoint symbol_fail (w : world) (r : rstate) (ns : list node) (a : addr) : option (errk * node * rstate) :=
  match ns with
  | [] => None
  | n :: rest =>
      if is_label_or_binary n then symbol_fail w r rest a
      else match pc_after w r n a with
           | Ok ra => symbol_fail w (fst ra) rest (snd ra)
           | Err k => Some (k, n, r)
           | OutOfFuel => None
           end
  end.
(** (a phase error is a RuntimeError of the driver, not of the node: no node) *)
Fixpoint emit_fail (w : world) (st : estate) (ns : list node) (addrs : list Z) : option (errk * node * rstate) :=
  match ns, addrs with
  | n :: rest, x :: addrs' =>
      match emit_step w st n x with
      | Ok st' => emit_fail w st' rest addrs'
      | Err k => if negb (a_val (r_reloc (e_r st)) =? x) then None else Some (k, n, e_r st)
      | OutOfFuel => None
      end
  | _, _ => None
  end.
Definition nodes_fail (w : world) (r : rstate) (ns : list node) : option (errk * node * rstate) :=
  let r0 := set_cur_last r (r_cur r) 0 in
  match label_fail w r0 ns (r_reloc r0) with
  | Some s => Some s
  | None =>
      match label_pass w r0 ns (r_reloc r0) [] with
      | Ok (r1, _, addrs) =>
          let r2 := resolver_reset r1 in
          match symbol_fail w r2 ns (r_reloc r2) with
          | Some s => Some s
          | None =>
              match symbol_pass w r2 ns (r_reloc r2) with
              | Ok y =>
                  let r3 := resolver_reset (fst y) in
                  emit_fail w {| e_r := r3; e_block := []; e_baddr := r_pc r3; e_out := [] |} ns addrs
              | _ => None
              end
          end
      | _ => None
      end
  end.

(** the failing node of [assemble_program] *)
Definition program_fail (w : world) (c : config) (prog : list ast) : option (errk * node * rstate) :=
  match initial_resolver w c with
  | Ok r =>
      match code_gen_fuel w cg_depth {| cg_r := r; cg_macros := [] |} prog with
      | Ok (s, ns) => nodes_fail w (cg_r s) ns
      | _ => None
      end
  | _ => None
  end.
(** ... and of [assemble_source] *)
Definition source_fail (t : live) (fs : srcfiles) (c : config) (fname src : str) : option (errk * node * rstate) :=
  match scan (lv_lex t) fname src with
  | ScanOk toks _ =>
      match parse_program (parse_fuel (length toks)) include_depth (include_tokens t fs) toks with
      | POk prog => program_fail (world_of t fs) c prog
      | _ => None
      end
  | _ => None
  end.

(** ** file.lines of the File object named [file] *)
Definition lines_of_scan (r : scan_result) : option (list str) :=
  match r with
  | ScanOk _ lines => Some lines
  | ScanErr e => Some (se_lines e)
  | _ => None
  end.
Definition file_lines (t : live) (fs : srcfiles) (fname src file : str) : option (list str) :=
  if str_eqb file fname then lines_of_scan (scan (lv_lex t) fname src)
  else match assoc_str (sf_text fs) file with
       | Some text => lines_of_scan (scan (lv_lex t) file text)
       | None => None
       end.
Definition token_lines (t : live) (fs : srcfiles) (fname src : str) (tok : token) : list str :=
  match t_pos tok with
  | Some p => match file_lines t fs fname src (tp_file p) with Some l => l | None => [] end
  | None => []
  end.

(** ** What the caller of assemble_string_with_emitter gets to read *)
Inductive report :=
| RepText (s : str)                      (* the returned error string *)
| RepNode (pat : option msg_pat) (suffix : str)
                                         (* str(the escaping NodeError) = '"' ++ message ++ '"' ++ suffix,
                                            the message as far as the model can tell *)
| RepSilent                              (* the error string is None although parsing failed *)
| RepRaise (k : errk)                    (* building the report raises *)
| RepNone.                               (* no report: success, or an exception without text in the model *)

Definition report_of (t : live) (fs : srcfiles) (c : config) (fname src : str) (r : aresult) : report :=
  match r with
  | AScanError file e =>
      match scan_error_text file e with Some s => RepText s | None => RepRaise EIndex end
  | AParseError (Some tok) =>
      match token_trace (token_lines t fs fname src tok) tok with
      | Ok (Some s) => RepText s
      | Ok None => RepSilent
      | Err k => RepRaise k
      | OutOfFuel => RepNone
      end
  | AParseError None => RepNone
  | AExc ENode (Some tok) =>
      match node_error_suffix (token_lines t fs fname src tok) (Some tok) with
      | Ok suf =>
          RepNode (match source_fail t fs c fname src with
                   | Some (ENode, n, r) => node_message (world_of t fs) r n
                   | _ => None
                   end) suf
      | Err k => RepRaise k
      | OutOfFuel => RepNone
      end
  | _ => RepNone
  end.

(** the error string of the string API (scan and parse errors) *)
Definition report_text (t : live) (fs : srcfiles) (c : config) (fname src : str) (r : aresult) : option str :=
  match report_of t fs c fname src r with RepText s => Some s | _ => None end.

(** ** Reading a report back (used by the round-trip theorems and the oracle) *)

(** text.rsplit(sep_char, 1): (before the last [c], after it) *)
Fixpoint rsplit_rev (c : Z) (racc : str) (r : str) : option (str * str) :=
  match r with
  | [] => None
  | x :: r' => if x =? c then Some (rev r', racc) else rsplit_rev c (x :: racc) r'
  end.
Definition rsplit1 (c : Z) (s : str) : option (str * str) := rsplit_rev c [] (rev s).

(** text.split(" : ", 1) *)
Definition starts_sep (s : str) : bool :=
  match s with
  | a :: b :: c :: _ => (a =? 32) && (b =? 58) && (c =? 32)
  | _ => false
  end.
Fixpoint find_sep (s : str) : option (str * str) :=
  match s with
  | [] => None
  | c :: r =>
      if starts_sep s then Some ([], skipn 2 r)
      else match find_sep r with Some (a, b) => Some (c :: a, b) | None => None end
  end.

(** int(text) for "-"? digit+ *)
Definition parse_int (s : str) : option Z :=
  match s with
  | [] => None
  | c :: r =>
      if c =? 45 then (if nonempty r && forallb is_dec_digit r then Some (- int10 r) else None)
      else if forallb is_dec_digit s then Some (int10 s) else None
  end.

(** "file:line:col" -> (file, line, col) *)
Definition parse_position (s : str) : option (str * Z * Z) :=
  match rsplit1 58 s with
  | Some (fl, c) =>
      match rsplit1 58 fl with
      | Some (f, l) =>
          match parse_int l, parse_int c with
          | Some lz, Some cz => Some (f, lz, cz)
          | _, _ => None
          end
      | None => None
      end
  | None => None
  end.

(** the fields of a scan report: (file, line, column, message, quoted line); the caret line must be
    the column in blanks followed by "^" *)
Definition parse_scan_report (s : str) : option (str * Z * Z * str * str) :=
  match rsplit1 10 s with
  | Some (hq, caret) =>
      match rsplit1 10 hq with
      | Some (head, quoted) =>
          match find_sep head with
          | Some (pos, msg) =>
              match parse_position pos with
              | Some (f, l, c) =>
                  if str_eqb caret (spaces c ++ [94]) then Some (f, l, c, msg, quoted) else None
              | None => None
              end
          | None => None
          end
      | None => None
      end
  | None => None
  end.

Definition all_ttypes : list ttype :=
  [T_EOF; T_COMMENT; T_LABEL; T_IDENTIFIER; T_QUOTED_STRING; T_OPERATOR; T_LPAREN; T_RPAREN; T_SHARP; T_RBRAKET;
   T_LBRAKET; T_RBRACE; T_LBRACE; T_ADDRESSING_MODE_INDEX; T_OPCODE_SIZE; T_OPCODE_NAKED; T_OPCODE; T_COMMA;
   T_KEYWORD; T_NUMBER; T_STAR_EQ; T_AT_EQ; T_EQUAL; T_ASSIGN; T_DOUBLE_LBRACE; T_DOUBLE_RBRACE; T_BOOLEAN; T_TYPE].
Definition parse_ttype (s : str) : option ttype := find (fun t => str_eqb (ttype_str t) s) all_ttypes.

(** the fields of a trace: (file, line, column, token type, quoted line, caret width) *)
Definition parse_trace_report (s : str) : option (str * Z * Z * ttype * str * nat) :=
  match s with
  | c0 :: s1 =>
      if c0 =? 10 then
        match rsplit1 10 s1 with
        | Some (hq, caret) =>
            match rsplit1 10 hq with
            | Some (head, quoted) =>
                match rsplit1 32 head with
                | Some (pos, ty) =>
                    match parse_position pos, parse_ttype ty with
                    | Some (f, l, c), Some t =>
                        let w := (length caret - Z.to_nat c)%nat in
                        if str_eqb caret (spaces c ++ carets w) then Some (f, l, c, t, quoted, w) else None
                    | _, _ => None
                    end
                | None => None
                end
            | None => None
            end
        | None => None
        end
      else None
  | [] => None
  end.
