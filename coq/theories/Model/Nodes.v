(** M4b — the generated node list and the two per-node methods.  Mirrors a816/parse/nodes.py
    (LabelNode, SymbolNode, BinaryNode, Byte/Word/LongNode, OpcodeNode, CodePositionNode,
    RelocationAddressNode, IncludeIpsNode, ScopeNode, PopScopeNode, TableNode, TextNode,
    AsciiNode) — [pc_after] and [emit].  Definitions only. *)
From A816 Require Export Model.Resolver.

Inductive node :=
| NLabel (name : str)
| NSymbol (name : str) (e : expr) (in_parent : bool)   (* SymbolNode *)
| NSymConst (name : str) (k : Z)                        (* SymbolNode over the literal [str(k)] made by .for *)
| NBinary (path : str) (content : bytes)
| NData (k : dkind) (e : expr) (fi : token)             (* ByteNode / WordNode / LongNode (pointer = long) *)
| NOpcode (opcode : str) (mode : amode) (index : option str) (operand : option expr)
          (size : option vsize) (fi : token)
| NCodePos (e : expr) (fi : token)
| NReloc (e : expr) (fi : token)
| NIps (blocks : list (Z * bytes))
| NScope
| NPop
| NTable
| NText (enc : res bytes) (fi : token)    (* TextNode: table chosen at construction; encoding raised lazily *)
| NAscii (text : str).

Definition dkind_len (k : dkind) : Z := match k with D_db => 1 | D_dw => 2 | D_dl | D_pointer => 3 end.

(** str.encode("ascii", errors="ignore") *)
Definition ascii_bytes (s : str) : bytes := filter (fun c => c <? 128) s.

(** path.replace("/", "_").replace(".", "_") *)
Definition symbol_base (path : str) : str :=
  map (fun c => if (c =? 47) || (c =? 46) then 95 else c) path.
Definition size_suffix : str := [95; 95; 115; 105; 122; 101].   (* "__size" *)

(** str.lower() restricted to ASCII (mnemonics are ASCII; see DESIGN section 6). *)
Definition lower_ascii (s : str) : str := map (fun c => if (65 <=? c) && (c <=? 90) then c + 32 else c) s.

(** The value node handed to an emitter: [None] without operand, else the (cached per call)
    result of ExpressionNode.get_value in the current resolver state. *)
Definition operand_value (w : world) (r : rstate) (operand : option expr) : option (res Z) :=
  match operand with None => None | Some e => Some (get_value w r e) end.

(** RelativeJumpOpcode.emit, with the two buses it really consults: the destination is looked
    up on resolver.get_bus(), the branch's own run address on reloc_address's bus. *)
Definition rel_emit (w : world) (r : rstate) (b : Z) (ev : option (res Z)) : res bytes :=
  match ev with
  | None => Err ERuntime
  | Some ev =>
      do v <- ev;
      do bus <- get_bus w r;
      do da <- mk_addr bus v;
      do dest <- addr_phys da;
      match dest with
      | None => Err ERuntime
      | Some pd =>
          do here <- addr_phys (r_reloc r);
          match here with
          | None => Err ERuntime
          | Some _ => do ob <- pack_B b; do db <- pack_b (pd - r_pc r - 2); Ok (ob ++ db)
          end
      end
  end.

Definition dummy_rc (r : rstate) : relctx := {| rc_bus := a_bus (r_reloc r); rc_pc := r_pc r; rc_reloc := a_val (r_reloc r) |}.

(** OpcodeNode.emit *)
Definition opcode_emit (w : world) (r : rstate) (opcode : str) (mode : amode) (index : option str)
           (operand : option expr) (size : option vsize) : res bytes :=
  do e <- get_emitter (w_optable w) opcode mode index;
  let ev := operand_value w r operand in
  match e with
  | EmRel b => rel_emit w r b ev
  | _ => emitter_emit e ev size (dummy_rc r)
  end.
(** OpcodeNode.pc_after (length part) *)
Definition opcode_length (w : world) (r : rstate) (opcode : str) (mode : amode) (index : option str)
           (operand : option expr) (size : option vsize) : res Z :=
  opnode_length (w_optable w) opcode mode index (operand_value w r operand) size.

(** Data nodes: struct.pack of the masked value. *)
Definition data_bytes (k : dkind) (v : Z) : bytes :=
  match k with
  | D_db => [Z.land v 255]
  | D_dw => le_bytes 2 (Z.land v 65535)
  | D_dl | D_pointer => le_bytes 2 (Z.land v 65535) ++ [Z.land (Z.shiftr v 16) 255]
  end.

(** node.pc_after(current_pc): new resolver state and the address after the node. *)
Definition pc_after (w : world) (r : rstate) (n : node) (a : addr) : res (rstate * addr) :=
  match n with
  | NLabel name => Ok (add_label r name (a_val a), a)
  | NSymbol name e in_parent =>
      let cur := r_cur r in
      let r_eval := if in_parent
                    then match nth_error (r_scopes r) cur with
                         | Some s => match s_parent s with Some p => set_cur r p | None => r end
                         | None => r
                         end
                    else r in
      do v <- eval_raw w r_eval e;
      Ok (add_symbol r name v, a)
  | NSymConst name k => Ok (add_symbol r name k, a)
  | NBinary path content =>
      do a' <- addr_plus a (Z.of_nat (length content));
      let r1 := add_label r (symbol_base path) (a_val a) in
      Ok (add_symbol r1 (symbol_base path ++ size_suffix) (Z.of_nat (length content)), a')
  | NData k _ _ => do a' <- addr_plus a (dkind_len k); Ok (r, a')
  | NOpcode opcode mode index operand size _ =>
      do len <- opcode_length w r opcode mode index operand size;
      do a' <- addr_plus a len; Ok (r, a')
  | NCodePos e _ | NReloc e _ =>
      do v <- get_value w r e;
      do b <- get_bus w r;
      do a' <- mk_addr b v; Ok (r, a')
  | NIps _ | NTable => Ok (r, a)
  | NScope => do r' <- use_next_scope r; Ok (r', a)
  | NPop => do r' <- restore_scope r true; Ok (r', a)
  | NText enc _ => do bs <- enc; do a' <- addr_plus a (Z.of_nat (length bs)); Ok (r, a')
  | NAscii text => do a' <- addr_plus a (Z.of_nat (length (ascii_bytes text))); Ok (r, a')
  end.

(** node.emit(current_addr): new resolver state and the node's bytes. *)
Definition node_emit (w : world) (r : rstate) (n : node) : res (rstate * bytes) :=
  match n with
  | NLabel _ | NSymbol _ _ _ | NSymConst _ _ | NIps _ | NTable => Ok (r, [])
  | NBinary _ content => Ok (r, content)
  | NData k e _ => do v <- get_value w r e; Ok (r, data_bytes k v)
  | NOpcode opcode mode index operand size _ =>
      do bs <- opcode_emit w r opcode mode index operand size; Ok (r, bs)
  | NCodePos e _ | NReloc e _ =>
      do v <- get_value w r e;
      do r' <- set_position w r v; Ok (r', [])
  | NScope => do r' <- use_next_scope r; Ok (r', [])
  | NPop => do r' <- restore_scope r false; Ok (r', [])
  | NText enc _ => do bs <- enc; Ok (r, bs)
  | NAscii text => Ok (r, ascii_bytes text)
  end.

Definition is_symbol_node (n : node) : bool :=
  match n with NSymbol _ _ _ | NSymConst _ _ => true | _ => false end.
Definition is_label_or_binary (n : node) : bool :=
  match n with NLabel _ | NBinary _ _ => true | _ => false end.
Definition is_codepos (n : node) : bool := match n with NCodePos _ _ => true | _ => false end.
