(** M2 — opcode emitters.  Mirrors a816/cpu/cpu_65c816.py (OpcodeWithoutOperand,
    RelativeJumpOpcode, Opcode, guess_value_size) and a816/parse/nodes.py
    (get_operand_size, OpcodeNode._get_emitter / emit / pc_after).  Definitions only.

    The value node is represented by the result [ev : res Z] of evaluating it (it is
    evaluated in a fixed resolver state within one call, so every evaluation gives the same
    result); [None] is "no value node". *)
From A816 Require Export Model.Ast Model.Bus.

Inductive emitter :=
| EmNoOperand (b : Z)                  (* OpcodeWithoutOperand(b) *)
| EmRel (b : Z)                        (* RelativeJumpOpcode(b) *)
| EmPlain (defs : list (option Z)).    (* Opcode(opcode_def) *)

Inductive opdef := Single (e : emitter) | ByIndex (l : list (str * emitter)).
Definition optable := list (str * list (amode * opdef)).

(** len(hex(v)) - 2 : hex digits of |v|, plus one for the sign of a negative value. *)
Definition hex_len (v : Z) : Z :=
  if v =? 0 then 1 else Z.log2 (Z.abs v) / 4 + 1 + (if v <? 0 then 1 else 0).

(** ValueNodeProtocol.get_operand_size *)
Definition operand_size (v : Z) : vsize :=
  if hex_len v <=? 2 then SzB else if hex_len v <=? 4 then SzW else SzL.

(** guess_value_size(value_node, size): the suffix when given, else inferred from the value. *)
Definition guess_size (ev : res Z) (size : option vsize) : res vsize :=
  match size with
  | Some s => Ok s
  | None => do v <- ev; Ok (operand_size v)
  end.

(** struct.pack("B", x) *)
Definition pack_B (x : Z) : res bytes := if byte_ok x then Ok [x] else Err EStruct.
(** struct.pack("b", x) *)
Definition pack_b (x : Z) : res bytes :=
  if (-128 <=? x) && (x <=? 127) then Ok [x mod 256] else Err EStruct.

(** Opcode.emit_value *)
Definition emit_value (v : Z) (s : vsize) : res bytes :=
  match s with
  | SzB => Ok [Z.land v 255]
  | SzW => Ok (le_bytes 2 (Z.land v 65535))
  | SzL => let hi := Z.shiftr v 16 in
           if byte_ok hi then Ok (le_bytes 2 (Z.land v 65535) ++ [hi]) else Err EStruct
  end.

(** Opcode.get_opcode_byte: IndexError / None => NoOpcodeForOperandSize, which
    OpcodeNode.emit turns into a NodeError. *)
Definition opcode_byte (defs : list (option Z)) (s : vsize) : option Z :=
  match nth_error defs (vsize_idx s) with
  | Some (Some b) => Some b
  | _ => None
  end.

(** What a relative branch needs from the resolver. *)
Record relctx := { rc_bus : bus; rc_pc : Z; rc_reloc : Z }.

(** emitter.emit(value_node, resolver, size) as called from OpcodeNode.emit (including its
    translation of NoOpcodeForOperandSize into NodeError). *)
Definition emitter_emit (e : emitter) (ev : option (res Z)) (size : option vsize) (rc : relctx)
  : res bytes :=
  match e with
  | EmNoOperand b => pack_B b
  | EmRel b =>
      match ev with
      | None => Err ERuntime
      | Some ev =>
          do v <- ev;
          do dest <- addr_physical (rc_bus rc) v;
          match dest with
          | None => Err ERuntime                     (* "Jumping from ram is not supported." *)
          | Some pd =>
              do here <- addr_physical (rc_bus rc) (rc_reloc rc);
              match here with
              | None => Err ERuntime                 (* code relocated to RAM *)
              | Some _ =>
                  do ob <- pack_B b;
                  do db <- pack_b (pd - rc_pc rc - 2);
                  Ok (ob ++ db)
              end
          end
      end
  | EmPlain defs =>
      match ev with
      | None => Err ERuntime
      | Some ev =>
          do s <- guess_size ev size;
          match opcode_byte defs s with
          | None => do _ <- guess_size ev size; Err ENode
          | Some b =>
              do v <- ev;
              do operand <- emit_value v s;
              do ob <- pack_B b;
              Ok (ob ++ operand)
          end
      end
  end.

(** emitter.supposed_length(value_node, size) *)
Definition emitter_length (e : emitter) (ev : option (res Z)) (size : option vsize) : res Z :=
  match e with
  | EmNoOperand _ => Ok 1
  | EmRel _ => Ok 2
  | EmPlain _ =>
      match ev with
      | None => Err ERuntime
      | Some ev => do s <- guess_size ev size; Ok (2 + Z.of_nat (vsize_idx s))
      end
  end.

Fixpoint assoc_str {V} (l : list (str * V)) (k : str) : option V :=
  match l with
  | [] => None
  | (k', v) :: r => if str_eqb k k' then Some v else assoc_str r k
  end.
Fixpoint assoc_mode {V} (l : list (amode * V)) (k : amode) : option V :=
  match l with
  | [] => None
  | (k', v) :: r => if amode_eqb k k' then Some v else assoc_mode r k
  end.

(** OpcodeNode._get_emitter: table[opcode][mode] (KeyError => NodeError); a dict-valued mode
    needs an index (NodeError when absent, bare KeyError when the letter is missing); an
    index on a non-dict mode is ignored. *)
Definition get_emitter (t : optable) (opcode : str) (mode : amode) (index : option str) : res emitter :=
  match assoc_str t opcode with
  | None => Err ENode
  | Some by_mode =>
      match assoc_mode by_mode mode with
      | None => Err ENode
      | Some (Single e) => Ok e
      | Some (ByIndex l) =>
          match index with
          | None => Err ENode
          | Some i => match assoc_str l i with Some e => Ok e | None => Err EKey end
          end
      end
  end.

(** OpcodeNode.emit / OpcodeNode.pc_after (length part) *)
Definition opnode_emit (t : optable) (opcode : str) (mode : amode) (index : option str)
           (ev : option (res Z)) (size : option vsize) (rc : relctx) : res bytes :=
  do e <- get_emitter t opcode mode index; emitter_emit e ev size rc.
Definition opnode_length (t : optable) (opcode : str) (mode : amode) (index : option str)
           (ev : option (res Z)) (size : option vsize) : res Z :=
  do e <- get_emitter t opcode mode index; emitter_length e ev size.
