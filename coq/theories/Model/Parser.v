(** M7b — the parser.  Mirrors a816/parse/parser.py (Parser.current/peek/next/backup,
    expect_token(s)) and a816/parse/parser_states.py, function for function, as the code is now.
    Definitions only.

    Representation.  The Python [Parser] object is (tokens, pos); here the token list [ts] is a
    section variable and every state function takes the position and returns the new one.
    [cur pos] = [p.current()] (beyond the end: the synthetic position-less [Token(EOF, "")]),
    [peek pos] = [p.peek()], [p.next()] = ([cur pos], [S pos]).
    [p.backup()] is [backup]: every call site in parser_states.py follows a [p.next()] of the same
    function (or of [parse_decl] for [parse_label]), so [pos >= 1] there and Python's negative
    indexing can never be reached; [backup 0] is nevertheless an explicit error ([EIndex]) rather
    than a silent default.

    Results.  [POk], [PErr k t] (the exception class and, for ParserSyntaxError, the offending
    token [e.token] whose position the message prints), [PUnrep t] (OUTSIDE THE MODELLED DOMAIN: the
    [.map] statement just parsed ends with a value for attribute [t] that the frozen [Ast.mapargs]
    type cannot hold, i.e. a pair for [identifier]/[writable]; Python's parse_map returns normally
    and parsing goes on, so the real outcome is either a later error or an AST that [Ast.ast]
    cannot represent -- the model stops at the end of that statement),
    [PFuel] (fuel exhausted: proved unreachable in Proofs/ParserProofs.v).

    Fuel.  Every loop and every recursive call of the Python code is a recursive call on
    explicit fuel here, and nothing in the definitions assumes that a callee consumed a token:
    a loop that would spin in Python runs out of fuel in the model.  Python's recursion limit
    (RecursionError on ~1000 nested frames) is not modelled except for [.include] (include-depth
    fuel -> [ERecursion]). *)
From A816 Require Export Model.Ast.
Open Scope Z_scope.

Inductive pres (A : Type) :=
| POk (a : A)
| PErr (k : errk) (t : option token)
| PUnrep (t : option token)
| PFuel.
Arguments POk {A}. Arguments PErr {A}. Arguments PUnrep {A}. Arguments PFuel {A}.

Definition pbind {A B} (r : pres A) (f : A -> pres B) : pres B :=
  match r with
  | POk a => f a
  | PErr k t => PErr k t
  | PUnrep t => PUnrep t
  | PFuel => PFuel
  end.
Notation "'dop' x <- r ; k" := (pbind r (fun x => k))
  (at level 200, x pattern, r at level 100, k at level 200).

(** Projection to the shared result type ([PUnrep] has no counterpart: it is mapped to
    [Err EOther]; consumers that care must match on [pres]). *)
Definition pres_to_res {A} (r : pres A) : res A :=
  match r with
  | POk a => Ok a
  | PErr k _ => Err k
  | PUnrep _ => Err EOther
  | PFuel => OutOfFuel
  end.
Definition pres_is_fuel {A} (r : pres A) : bool := match r with PFuel => true | _ => false end.

(** ---------------------------------------------------------------- strings *)
Definition k_scope : str := [115;99;111;112;101].
Definition k_ascii : str := [97;115;99;105;105].
Definition k_text : str := [116;101;120;116].
Definition k_dw : str := [100;119].
Definition k_dl : str := [100;108].
Definition k_db : str := [100;98].
Definition k_pointer : str := [112;111;105;110;116;101;114].
Definition k_include : str := [105;110;99;108;117;100;101].
Definition k_include_ips : str := [105;110;99;108;117;100;101;95;105;112;115].
Definition k_incbin : str := [105;110;99;98;105;110].
Definition k_table : str := [116;97;98;108;101].
Definition k_macro : str := [109;97;99;114;111].
Definition k_map : str := [109;97;112].
Definition k_if : str := [105;102].
Definition k_for : str := [102;111;114].
Definition k_struct : str := [115;116;114;117;99;116].
Definition k_else : str := [101;108;115;101].
Definition k_identifier : str := [105;100;101;110;116;105;102;105;101;114].
Definition k_writable : str := [119;114;105;116;97;98;108;101].
Definition k_bank_range : str := [98;97;110;107;95;114;97;110;103;101].
Definition k_addr_range : str := [97;100;100;114;95;114;97;110;103;101].
Definition k_mask : str := [109;97;115;107].
Definition k_mirror_bank_range : str := [109;105;114;114;111;114;95;98;97;110;107;95;114;97;110;103;101].
Definition k_minus : str := [45].
Definition k_tilde : str := [126].
Definition k_b : str := [98].
Definition k_w : str := [119].
Definition k_l : str := [108].
Definition k_s : str := [115].
Definition k_y : str := [121].

(** [str.lower()] on the ASCII range (the scanner only produces [xXyYsS] / [bBwWlL] for the
    tokens whose value the parser lower-cases). *)
Definition lower_c (c : Z) : Z := if (65 <=? c) && (c <=? 90) then c + 32 else c.
Definition lower (s : str) : str := map lower_c s.

(** [s[1:-1]] *)
Definition strip_quotes (s : str) : str := removelast (tl s).

(** ---------------------------------------------------------------- ast.literal_eval on NUMBER values
    Python integer literals: decimal (no leading zeros unless the value is all zeros), [0x]/[0X],
    [0b]/[0B], [0o]/[0O], with the single-underscore digit separators of the Python grammar.
    [None] = a string Python rejects with SyntaxError ("08", "0b2", "0x", "0o8", "1__0", ...).
    Domain: strings the scanner can produce for NUMBER (a digit followed by letters/digits);
    float/complex spellings ("1e5", "1j") are NOT modelled (they are reported as [None]). *)
Definition lit_digit (base : Z) (c : Z) : option Z :=
  let d := if (48 <=? c) && (c <=? 57) then Some (c - 48)
           else if (97 <=? c) && (c <=? 102) then Some (c - 87)
           else if (65 <=? c) && (c <=? 70) then Some (c - 55)
           else None in
  match d with Some v => if v <? base then Some v else None | None => None end.

(** (["_"] digit)* : [us] = the previous character was an underscore. *)
Fixpoint lit_digits (base : Z) (s : str) (acc : Z) (us : bool) : option Z :=
  match s with
  | [] => if us then None else Some acc
  | c :: r =>
      if c =? 95 then (if us then None else lit_digits base r acc true)
      else match lit_digit base c with
           | Some d => lit_digits base r (acc * base + d) false
           | None => None
           end
  end.

Definition py_int_literal (s : str) : option Z :=
  match s with
  | [] => None
  | c :: r =>
      if c =? 48 then
        match r with
        | [] => Some 0
        | p :: r' =>
            let prefixed (base : Z) :=
              match r' with [] => None | _ => lit_digits base r' 0 false end in
            if (p =? 120) || (p =? 88) then prefixed 16
            else if (p =? 98) || (p =? 66) then prefixed 2
            else if (p =? 111) || (p =? 79) then prefixed 8
            else (* "0"+ (["_"] "0")* *)
              match lit_digits 10 r 0 false with
              | Some 0 => Some 0
              | _ => None
              end
        end
      else match lit_digit 10 c with
           | Some d => lit_digits 10 r d false
           | None => None
           end
  end.

(** ---------------------------------------------------------------- MapArgs *)
Definition mapargs_empty : mapargs :=
  {| ma_identifier := None; ma_writable := None; ma_bank_range := None; ma_addr_range := None;
     ma_mask := None; ma_mirror_bank_range := None |}.

Inductive mapkey := MK_identifier | MK_writable | MK_bank_range | MK_addr_range | MK_mask
                  | MK_mirror_bank_range.
Definition mapkey_of (k : str) : option mapkey :=
  if str_eqb k k_identifier then Some MK_identifier
  else if str_eqb k k_writable then Some MK_writable
  else if str_eqb k k_bank_range then Some MK_bank_range
  else if str_eqb k k_addr_range then Some MK_addr_range
  else if str_eqb k k_mask then Some MK_mask
  else if str_eqb k k_mirror_bank_range then Some MK_mirror_bank_range
  else None.

(** [args[key] = v]; [None] when the value does not fit the frozen record (tuple for
    identifier / writable). *)
Definition mapargs_set (a : mapargs) (k : mapkey) (v : Z * option Z) : option mapargs :=
  let scalar := match v with (n, None) => Some n | _ => None end in
  match k with
  | MK_identifier =>
      match scalar with
      | Some n => Some {| ma_identifier := Some n; ma_writable := ma_writable a;
                          ma_bank_range := ma_bank_range a; ma_addr_range := ma_addr_range a;
                          ma_mask := ma_mask a; ma_mirror_bank_range := ma_mirror_bank_range a |}
      | None => None
      end
  | MK_writable =>
      match scalar with
      | Some n => Some {| ma_identifier := ma_identifier a; ma_writable := Some n;
                          ma_bank_range := ma_bank_range a; ma_addr_range := ma_addr_range a;
                          ma_mask := ma_mask a; ma_mirror_bank_range := ma_mirror_bank_range a |}
      | None => None
      end
  | MK_bank_range =>
      Some {| ma_identifier := ma_identifier a; ma_writable := ma_writable a;
              ma_bank_range := Some v; ma_addr_range := ma_addr_range a;
              ma_mask := ma_mask a; ma_mirror_bank_range := ma_mirror_bank_range a |}
  | MK_addr_range =>
      Some {| ma_identifier := ma_identifier a; ma_writable := ma_writable a;
              ma_bank_range := ma_bank_range a; ma_addr_range := Some v;
              ma_mask := ma_mask a; ma_mirror_bank_range := ma_mirror_bank_range a |}
  | MK_mask =>
      Some {| ma_identifier := ma_identifier a; ma_writable := ma_writable a;
              ma_bank_range := ma_bank_range a; ma_addr_range := ma_addr_range a;
              ma_mask := Some v; ma_mirror_bank_range := ma_mirror_bank_range a |}
  | MK_mirror_bank_range =>
      Some {| ma_identifier := ma_identifier a; ma_writable := ma_writable a;
              ma_bank_range := ma_bank_range a; ma_addr_range := ma_addr_range a;
              ma_mask := ma_mask a; ma_mirror_bank_range := Some v |}
  end.

(** nodes.index_map *)
Definition index_map (m : amode) : option amode :=
  match m with
  | M_indirect => Some M_indirect_indexed
  | M_indirect_long => Some M_indirect_indexed_long
  | M_direct => Some M_direct_indexed
  | M_dp_or_sr_indirect_indexed => Some M_stack_indexed_indirect_indexed
  | _ => None
  end.

(** is_value_size *)
Definition to_vsize (s : str) : option vsize :=
  if str_eqb s k_b then Some SzB else if str_eqb s k_w then Some SzW
  else if str_eqb s k_l then Some SzL else None.

Definition dkind_of (k : str) : option dkind :=
  if str_eqb k k_dw then Some D_dw else if str_eqb k k_dl then Some D_dl
  else if str_eqb k k_db then Some D_db else if str_eqb k k_pointer then Some D_pointer
  else None.

(** DataNode.__init__: [assert isinstance(d, ExpressionAstNode)] for every item. *)
Definition margs := list (expr + (list ast * token)).
Fixpoint all_exprs (l : margs) : option (list expr) :=
  match l with
  | [] => Some []
  | inl e :: r => match all_exprs r with Some es => Some (e :: es) | None => None end
  | inr _ :: _ => None
  end.

Definition en (k : ekind) (t : token) : enode := {| en_kind := k; en_tok := t |}.

Definition opt_app {A} (acc : list A) (o : option A) : list A :=
  match o with Some x => acc ++ [x] | None => acc end.

(** ================================================================ the state functions *)
Section Parser.
  Variable ts : list token.
  (** [.include]: open + scan + parse the named file (a complete nested [Parser(...).parse()]). *)
  Variable sub : str -> pres (list ast).

  Definition R (A : Type) := pres (A * nat).

  Definition cur (pos : nat) : token := nth pos ts eof_token.
  Definition peek (pos : nat) : token := nth (S pos) ts eof_token.
  Definition backup {A} (pos : nat) (k : nat -> pres A) : pres A :=
    match pos with O => PErr EIndex None | S p => k p end.

  Definition is_ty (t : token) (ty : ttype) : bool := ttype_eqb (t_type t) ty.
  (** expect_token *)
  Definition expect {A} (t : token) (ty : ttype) (k : pres A) : pres A :=
    if is_ty t ty then k else PErr EParse (Some t).

  (** _parse_expression *)
  Fixpoint pexpr (fuel : nat) (pos : nat) : R (list enode) :=
    match fuel with
    | O => PFuel
    | S f =>
        let t := cur pos in
        let p1 := S pos in
        dop hd <- (if is_ty t T_LPAREN then
                     dop r <- pexpr f p1;
                     let '(e, p2) := r in
                     expect (cur p2) T_RPAREN (POk ((en EK_par t :: e) ++ [en EK_par (cur p2)], S p2))
                   else if is_ty t T_NUMBER || is_ty t T_BOOLEAN || is_ty t T_IDENTIFIER then
                     POk ([en EK_term t], p1)
                   else if is_ty t T_OPERATOR
                           && (str_eqb (t_value t) k_minus || str_eqb (t_value t) k_tilde) then
                     dop r <- pexpr f p1;
                     let '(e, p2) := r in POk (en EK_un t :: e, p2)
                   else PErr EParse (Some t));
        let '(toks, p3) := hd in
        match toks with
        | [] => POk (toks, p3)                                   (* "if tokens:" *)
        | _ =>
            let op := cur p3 in
            if is_ty op T_OPERATOR then
              dop r <- pexpr f (S p3);
              let '(e, p4) := r in POk ((toks ++ [en EK_bin op]) ++ e, p4)
            else POk (toks, p3)
        end
    end.

  (** parse_expression: ExpressionAstNode(nodes) reads nodes[0] *)
  Definition pexpression (f : nat) (pos : nat) : R expr :=
    dop r <- pexpr f pos;
    match fst r with [] => PErr EIndex None | _ => POk r end.

  (** parse_macro_definition_args *)
  Fixpoint pmacro_args_loop (fuel : nat) (pos : nat) (acc : list str) : R (list str) :=
    match fuel with
    | O => PFuel
    | S f =>
        let t := cur pos in
        let p1 := S pos in
        if is_ty t T_COMMA || is_ty t T_RPAREN || is_ty t T_IDENTIFIER then
          if is_ty t T_RPAREN then backup p1 (fun p => POk (acc, p))
          else if is_ty t T_COMMA then pmacro_args_loop f p1 acc
          else expect t T_IDENTIFIER (pmacro_args_loop f p1 (acc ++ [t_value t]))
        else PErr EParse (Some t)
    end.
  Definition pmacro_args (f : nat) (pos : nat) : R (list str) :=
    let first := cur pos in
    let p1 := S pos in
    if negb (is_ty first T_RPAREN) then
      expect first T_IDENTIFIER (pmacro_args_loop f p1 [t_value first])
    else backup p1 (fun p => POk ([], p)).

  (** parse_map *)
  Definition lit_eval (t : token) {A} (k : Z -> pres A) : pres A :=
    match py_int_literal (t_value t) with
    | Some v => k v
    | None => PErr EOther None            (* SyntaxError escaping from ast.literal_eval *)
    end.
  (** [poison] remembers, per scalar attribute, the attribute token whose value (a pair) does not
      fit the frozen record; a later scalar assignment to the same key overwrites it, exactly as
      the Python dict assignment does. *)
  Definition poison := (option token * option token)%type.
  Definition poison_upd (ps : poison) (k : mapkey) (v : option token) : poison :=
    match k with
    | MK_identifier => (v, snd ps)
    | MK_writable => (fst ps, v)
    | _ => ps
    end.
  Definition map_assign (args : mapargs) (ps : poison) (k : mapkey) (ident : token) (v : Z * option Z)
    : mapargs * poison :=
    match mapargs_set args k v with
    | Some a' => (a', poison_upd ps k None)
    | None => (args, poison_upd ps k (Some ident))
    end.
  Fixpoint pmap_loop (fuel : nat) (pos : nat) (args : mapargs) (ps : poison) : R mapargs :=
    match fuel with
    | O => PFuel
    | S f =>
        if is_ty (cur pos) T_IDENTIFIER then
          let ident := cur pos in
          let p1 := S pos in
          expect ident T_IDENTIFIER
            match mapkey_of (t_value ident) with
            | None => PErr EParse (Some ident)
            | Some key =>
                expect (cur p1) T_EQUAL
                  (let p2 := S p1 in
                   let n1 := cur p2 in
                   let p3 := S p2 in
                   expect n1 T_NUMBER
                     (if is_ty (cur p3) T_COMMA then
                        let p4 := S p3 in
                        let n2 := cur p4 in
                        let p5 := S p4 in
                        expect n2 T_NUMBER
                          (lit_eval n1 (fun v1 => lit_eval n2 (fun v2 =>
                             let '(a', ps') := map_assign args ps key ident (v1, Some v2) in
                             pmap_loop f p5 a' ps')))
                      else
                        lit_eval n1 (fun v1 =>
                          let '(a', ps') := map_assign args ps key ident (v1, None) in
                          pmap_loop f p3 a' ps')))
            end
        else
          match ps with
          | (None, None) => POk (args, pos)
          | (Some t, _) => PUnrep (Some t)
          | (None, Some t) => PUnrep (Some t)
          end
    end.
  Definition pmap (f : nat) (pos : nat) : R ast :=
    let first := cur pos in
    expect first T_IDENTIFIER
      (dop r <- pmap_loop f pos mapargs_empty (None, None);
       POk (AMap (fst r) first, snd r)).

  (** parse_struct *)
  Fixpoint pstruct_loop (fuel : nat) (pos : nat) (fields : list (str * str)) : R (list (str * str)) :=
    match fuel with
    | O => PFuel
    | S f =>
        let c := cur pos in
        if is_ty c T_EOF then POk (fields, pos)
        else if is_ty c T_COMMENT then pstruct_loop f (S pos) fields
        else if is_ty c T_RBRACE then POk (fields, pos)
        else expect c T_TYPE
               (let p1 := S pos in
                let fid := cur p1 in
                expect fid T_IDENTIFIER
                  (pstruct_loop f (S p1) (dict_set fields (t_value fid) (t_value c))))
    end.
  Definition pstruct (f : nat) (pos : nat) : R ast :=
    let current := cur pos in
    let variable := cur pos in
    let p1 := S pos in
    expect variable T_IDENTIFIER
      (expect (cur p1) T_LBRACE
         (dop r <- pstruct_loop f (S p1) [];
          let '(fields, p2) := r in
          expect (cur p2) T_RBRACE (POk (AStruct (t_value variable) fields current, S p2)))).

  (** parse_directive_with_quoted_string *)
  Definition pquoted (pos : nat) : R str :=
    let s := cur pos in
    expect s T_QUOTED_STRING (POk (strip_quotes (t_value s), S pos)).

  (** parse_include_ips *)
  Definition pinclude_ips (f : nat) (pos : nat) : R ast :=
    let current := cur pos in
    dop r <- pquoted pos;
    let '(s, p1) := r in
    expect (cur p1) T_COMMA
      (dop r2 <- pexpression f (S p1);
       POk (AIncludeIps s (fst r2) current, snd r2)).

  (** parse_code_lookup *)
  Definition pcode_lookup (pos : nat) : R ast :=
    let current := cur pos in
    let ident := cur pos in
    let p1 := S pos in
    expect ident T_IDENTIFIER
      (expect (cur p1) T_DOUBLE_RBRACE (POk (ACodeLookup (t_value ident) current, S p1))).

  (** parse_label *)
  Definition plabel (pos : nat) : R ast :=
    backup pos (fun p => let t := cur p in POk (ALabel (t_value t) t, S p)).

  (** parse_symbol_affectation *)
  Definition psymbol (f : nat) (pos : nat) : R ast :=
    let current := cur pos in
    let symbol := cur pos in
    let p1 := S pos in
    let operator := cur p1 in
    let p2 := S p1 in
    if is_ty operator T_EQUAL || is_ty operator T_ASSIGN then
      dop r <- pexpression f p2;
      POk ((if is_ty operator T_EQUAL then ASymbol (t_value symbol) (fst r) current
            else AAssign (t_value symbol) (fst r) current), snd r)
    else PErr EParse (Some operator).

  (** parse_code_position_keyword / parse_code_relocation_keyword *)
  Definition pstar_eq (f : nat) (pos : nat) : R ast :=
    let current := cur pos in
    dop r <- pexpression f pos; POk (AStarEq (fst r) current, snd r).
  Definition pat_eq (f : nat) (pos : nat) : R ast :=
    let current := cur pos in
    dop r <- pexpression f pos; POk (AAtEq (fst r) current, snd r).

  (** parse_operand_and_addressing.  The [try] body raises [SyntaxError] only at the explicit
      [raise SyntaxError()] (ParserSyntaxError is not a subclass of SyntaxError), i.e. when the
      token after the closing parenthesis is an OPERATOR; the handler rewinds to the opening
      parenthesis and re-parses the whole operand as a direct expression.  [inner_index] keeps
      the value assigned inside the [try]. *)
  Definition poperand (f : nat) (mode0 : amode) (opc : token) (pos : nat)
    : R (amode * option str * option expr) :=
    let c := cur pos in
    if is_ty c T_SHARP then
      let p1 := S pos in
      if is_ty (cur p1) T_EOF then PErr EParse (Some (cur p1))
      else dop r <- pexpression f p1; POk ((M_immediate, None, Some (fst r)), snd r)
    else if is_ty c T_LPAREN then
      dop r <- pexpression f (S pos);
      let '(e, p2) := r in
      let '(mode, inner, p3) :=
        if is_ty (cur p2) T_ADDRESSING_MODE_INDEX
        then (M_dp_or_sr_indirect_indexed, Some (lower (t_value (cur p2))), S p2)
        else (M_indirect, None, p2) in
      expect (cur p3) T_RPAREN
        (if is_ty (peek p3) T_OPERATOR then
           dop r' <- pexpression f pos;
           POk ((M_direct, inner, Some (fst r')), snd r')
         else POk ((mode, inner, Some e), S p3))
    else if is_ty c T_LBRAKET then
      dop r <- pexpression f (S pos);
      let '(e, p2) := r in
      expect (cur p2) T_RBRAKET (POk ((M_indirect_long, None, Some e), S p2))
    else if is_ty opc T_OPCODE then
      dop r <- pexpression f pos; POk ((mode0, None, Some (fst r)), snd r)
    else POk ((mode0, None, None), pos).

  (** parse_opcode *)
  Definition popcode (f : nat) (pos : nat) : R ast :=
    let opc := cur pos in
    let p1 := S pos in
    let mode0 := if is_ty opc T_OPCODE_NAKED then M_none else M_direct in
    let '(size, p2) :=
      if is_ty (cur p1) T_OPCODE_SIZE then (Some (lower (t_value (cur p1))), S p1) else (None, p1) in
    dop r <- poperand f mode0 opc p2;
    let '((mode, inner, operand), p3) := r in
    let vs := match size with Some s => to_vsize s | None => None end in
    if is_ty (cur p3) T_ADDRESSING_MODE_INDEX then
      let it := cur p3 in
      let idx := lower (t_value it) in
      if match inner with
         | Some i => negb (str_eqb i k_s && str_eqb idx k_y)
         | None => false
         end
      then PErr EParse (Some it)
      else match index_map mode with
           | None => PErr EKey None
           | Some m' =>
               POk (AOpcode m' (t_value opc) vs operand
                      (match idx with [] => inner | _ => Some idx end) opc, S p3)
           end
    else POk (AOpcode mode (t_value opc) vs operand inner opc, p3).

  (** The functions below call [parse_block] / [parse_expression_list_inner]; they take them as
      parameters ([PB pos] = [parse_block] started at [pos], [PEL pos] =
      [parse_expression_list_inner] started at [pos]) and the knot is tied in [pdecl]. *)
  Section Open.
    Variable PB : nat -> R (list ast).
    Variable PEL : nat -> R margs.
    Variable f : nat.       (* fuel handed to the expression / attribute loops *)

    (** parse_scope *)
    Definition pscope (pos : nat) : R ast :=
      let current := cur pos in
      let keyword := cur pos in
      let p1 := S pos in
      expect keyword T_IDENTIFIER
        (let next_token := cur p1 in
         expect next_token T_LBRACE
           (dop r <- PB (S p1);
            POk (AScope (t_value keyword) (fst r) next_token current, snd r))).

    (** parse_expression_list *)
    Definition pelist (pos : nat) : R margs :=
      expect (cur pos) T_LPAREN
        (dop r <- PEL (S pos);
         let '(l, p1) := r in
         expect (cur p1) T_RPAREN (POk (l, S p1))).

    (** parse_macro_application *)
    Definition pmacro_apply (pos : nat) : R ast :=
      let ident := cur pos in
      expect ident T_IDENTIFIER
        (dop r <- pelist (S pos);
         POk (AMacroApply (t_value ident) (fst r) ident, snd r)).

    (** parse_macro *)
    Definition pmacro (pos : nat) : R ast :=
      let ident := cur pos in
      let p1 := S pos in
      expect ident T_IDENTIFIER
        (expect (cur p1) T_LPAREN
           (dop r <- pmacro_args f (S p1);
            let '(args, p2) := r in
            expect (cur p2) T_RPAREN
              (let p3 := S p2 in
               let block_token := cur p3 in
               expect (cur p3) T_LBRACE
                 (dop rb <- PB (S p3);
                  POk (AMacro (t_value ident) args (fst rb) block_token ident, snd rb))))).

    (** parse_if *)
    Definition pif (pos : nat) : R ast :=
      let current := cur pos in
      dop r <- pexpression f pos;
      let '(cond, p1) := r in
      expect (cur p1) T_LBRACE
        (dop rb <- PB (S p1);
         let '(body, p2) := rb in
         let body_fi := cur p2 in
         if str_eqb (t_value (cur p2)) k_else then
           let p3 := S p2 in
           expect (cur p3) T_LBRACE
             (dop re <- PB (S p3);
              let '(ebody, p4) := re in
              POk (AIf cond body body_fi (Some (ebody, cur p4)) current, p4))
         else POk (AIf cond body body_fi None current, p2)).

    (** parse_for *)
    Definition pfor (pos : nat) : R ast :=
      let current := cur pos in
      let variable := cur pos in
      let p1 := S pos in
      expect variable T_IDENTIFIER
        (expect (cur p1) T_ASSIGN
           (dop r1 <- pexpression f (S p1);
            let '(lo, p2) := r1 in
            expect (cur p2) T_COMMA
              (dop r2 <- pexpression f (S p2);
               let '(hi, p3) := r2 in
               expect (cur p3) T_LBRACE
                 (dop rb <- PB (S p3);
                  let '(body, p4) := rb in
                  POk (AFor (t_value variable) lo hi body (cur p4) current, p4))))).

    (** parse_keyword ([pos] is the position of the KEYWORD token) *)
    Definition pkeyword (pos : nat) : R ast :=
      let keyword := cur pos in
      let p1 := S pos in
      let v := t_value keyword in
      if str_eqb v k_scope then pscope p1
      else if str_eqb v k_ascii then
        dop r <- pquoted p1; POk (AAscii (fst r) keyword, snd r)
      else if str_eqb v k_text then
        dop r <- pquoted p1; POk (AText (fst r) keyword, snd r)
      else match dkind_of v with
      | Some dk =>
          dop r <- PEL p1;
          match all_exprs (fst r) with
          | Some es => POk (AData dk es keyword, snd r)
          | None => PErr EAssert None
          end
      | None =>
      if str_eqb v k_include then
        dop r <- pquoted p1;
        dop sub_ast <- sub (fst r);
        POk (ABlock sub_ast keyword, snd r)
      else if str_eqb v k_include_ips then pinclude_ips f p1
      else if str_eqb v k_incbin then
        dop r <- pquoted p1; POk (AIncbin (fst r) (cur (snd r)), snd r)
      else if str_eqb v k_table then
        dop r <- pquoted p1; POk (ATable (fst r) (cur (snd r)), snd r)
      else if str_eqb v k_macro then pmacro p1
      else if str_eqb v k_map then pmap f p1
      else if str_eqb v k_if then pif p1
      else if str_eqb v k_for then pfor p1
      else if str_eqb v k_struct then pstruct f p1
      else PErr EParse (Some keyword)
      end.

    (** parse_decl, everything except the recursion on blocks ([pos] = position of the token
        [parse_decl] reads with its first [p.next()]). *)
    Definition pdecl_body (pos : nat) : R (option ast) :=
      let t := cur pos in
      let p1 := S pos in
      let some (r : R ast) : R (option ast) := dop x <- r; POk (Some (fst x), snd x) in
      match t_type t with
      | T_COMMENT => POk (None, p1)
      | T_DOUBLE_LBRACE => some (pcode_lookup p1)
      | T_OPCODE | T_OPCODE_NAKED => backup p1 (fun p => some (popcode f p))
      | T_KEYWORD => backup p1 (fun p => some (pkeyword p))
      | T_IDENTIFIER =>
          backup p1 (fun p =>
            if is_ty (peek p) T_LPAREN then some (pmacro_apply p) else some (psymbol f p))
      | T_LABEL => some (plabel p1)
      | T_LBRACE => dop r <- PB p1; POk (Some (ACompound (fst r) t), snd r)
      | T_STAR_EQ => some (pstar_eq f p1)
      | T_AT_EQ => some (pat_eq f p1)
      | _ => PErr EParse (Some t)
      end.
  End Open.

  (** parse_decl / parse_block / parse_expression_list_inner *)
  Fixpoint pdecl (fuel : nat) (pos : nat) {struct fuel} : R (option ast) :=
    match fuel with
    | O => PFuel
    | S f => pdecl_body (fun p => pblock f p []) (fun p => pel f p []) f pos
    end
  with pblock (fuel : nat) (pos : nat) (acc : list ast) {struct fuel} : R (list ast) :=
    match fuel with
    | O => PFuel
    | S f =>
        let c := cur pos in
        if is_ty c T_EOF || is_ty c T_RBRACE then
          expect c T_RBRACE (POk (acc, S pos))         (* expect_token(p.next(), RBRACE) *)
        else
          dop r <- pdecl f pos;
          pblock f (snd r) (opt_app acc (fst r))
    end
  with pel (fuel : nat) (pos : nat) (acc : margs) {struct fuel} : R margs :=
    match fuel with
    | O => PFuel
    | S f =>
        let c := cur pos in
        if is_ty c T_RPAREN then POk (acc, pos)
        else
          dop r <- (if is_ty c T_LBRACE then
                      dop rb <- pblock f (S pos) [];
                      POk (inr (fst rb, c), snd rb)
                    else
                      dop re <- pexpression f pos;
                      POk (inl (fst re), snd re));
          let '(item, p2) := r in
          if is_ty (cur p2) T_COMMA then pel f (S p2) (acc ++ [item])
          else POk (acc ++ [item], p2)
    end.

  (** parse_initial *)
  Fixpoint pinitial (fuel : nat) (pos : nat) (acc : list ast) : pres (list ast) :=
    match fuel with
    | O => PFuel
    | S f =>
        if is_ty (cur pos) T_EOF then POk acc
        else dop r <- pdecl f pos; pinitial f (snd r) (opt_app acc (fst r))
    end.
End Parser.

(** ================================================================ entry points *)
(** Fuel sufficient for a token list of length [n] (Proofs/ParserProofs.v). *)
Definition parse_fuel (n : nat) : nat := (2 * n + 4)%nat.

(** [Parser(tokens, parse_initial).parse()] with [.include] resolved through [inc] (the result of
    open + Scanner.scan on the named file).  Each included file gets the fuel of its own length
    and consumes one unit of include depth ([incfuel = 0] ~ RecursionError). *)
Fixpoint parse_file (incfuel : nat) (inc : str -> res (list token)) (fuel : nat) (ts : list token)
  : pres (list ast) :=
  pinitial ts
    (fun name =>
       match incfuel with
       | O => PErr ERecursion None
       | S i =>
           match inc name with
           | Ok toks => parse_file i inc (parse_fuel (length toks)) toks
           | Err k => PErr k None
           | OutOfFuel => PFuel
           end
       end)
    fuel O [].

Definition parse_program (fuel incfuel : nat) (inc : str -> res (list token)) (tokens : list token)
  : pres (list ast) :=
  parse_file incfuel inc fuel tokens.

(** [Parser(tokens, parse_expression_ep).parse()[0]] (used by expr_to_ast). *)
Definition parse_expression_ep (fuel : nat) (tokens : list token) : pres expr :=
  dop r <- pexpression tokens fuel O; POk (fst r).
