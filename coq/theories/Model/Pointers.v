(** script/pointers.py — Pointer, Script.read_fixed_text_list / read_pointers /
    read_pointers_content / append_pointers, write_pointers_value_as_binary,
    write_pointers_addresses_as_binary, recode_pointer_values.  Definitions only.
    (The XML reader / writer are not modelled.)

    A binary file object = its content and its position.  [read(n)] returns at most [n] bytes and
    advances by what it returned; a negative [n] reads to the end; [seek] to a negative offset is a
    ValueError (io.BytesIO).  Functions that mutate Pointer objects return the updated list. *)
From A816 Require Export Model.Table Model.Legacy.
Open Scope Z_scope.

Record file := { f_content : bytes; f_pos : Z }.

Definition fseek (f : file) (n : Z) : res file :=
  if n <? 0 then Err EValue else Ok {| f_content := f_content f; f_pos := n |}.
Definition fread (f : file) (n : Z) : bytes * file :=
  let avail := skipn (Z.to_nat (f_pos f)) (f_content f) in
  let out := if n <? 0 then avail else firstn (Z.to_nat n) avail in
  (out, {| f_content := f_content f; f_pos := f_pos f + Z.of_nat (length out) |}).

Record pointer := { p_id : Z; p_addr : option Z; p_value : option bytes }.

(** Pointer.get_address / get_value: [assert ... is not None] *)
Definition get_address (p : pointer) : res Z := match p_addr p with Some a => Ok a | None => Err EAssert end.
Definition get_value (p : pointer) : res bytes := match p_value p with Some v => Ok v | None => Err EAssert end.
Definition set_value (p : pointer) (v : bytes) : pointer := {| p_id := p_id p; p_addr := p_addr p; p_value := Some v |}.

(** [for i in range(count): data = f.read(length); ...] *)
Fixpoint read_chunks (f : file) (i : Z) (count : nat) (length : Z) : list (Z * bytes) * file :=
  match count with
  | O => ([], f)
  | S c => let '(d, f1) := fread f length in
           let '(rest, f2) := read_chunks f1 (i + 1) c length in ((i, d) :: rest, f2)
  end.

(** Script.read_fixed_text_list(pointer_file, address, count, bytes_length) *)
Definition read_fixed_text_list (pf : file) (address count len : Z) : res (list pointer * file) :=
  do f0 <- fseek pf address;
  let '(chunks, f1) := read_chunks f0 0 (Z.to_nat count) len in
  Ok (map (fun c => {| p_id := fst c; p_addr := None; p_value := Some (snd c) |}) chunks, f1).

(** Script.read_pointers(pointer_file, address, count, length, formula): the formula is applied
    while reading, so it fails at the first chunk it rejects *)
Fixpoint read_ptr_loop (formula : bytes -> res Z) (f : file) (i : Z) (count : nat) (length : Z)
  : res (list pointer * file) :=
  match count with
  | O => Ok ([], f)
  | S c => let '(d, f1) := fread f length in
           do a <- formula d;
           do x <- read_ptr_loop formula f1 (i + 1) c length;
           Ok ({| p_id := i; p_addr := Some a; p_value := None |} :: fst x, snd x)
  end.
Definition read_pointers (pf : file) (address count len : Z) (formula : bytes -> res Z) : res (list pointer * file) :=
  do f0 <- fseek pf address; read_ptr_loop formula f0 0 (Z.to_nat count) len.

(** sorted(xs, key=...): stable *)
Fixpoint insert_by {A} (key : A -> Z) (x : A) (l : list A) : list A :=
  match l with
  | [] => [x]
  | y :: r => if key x <=? key y then x :: l else y :: insert_by key x r
  end.
Definition sort_by {A} (key : A -> Z) (l : list A) : list A := fold_right (insert_by key) [] l.

(** the key function is called on every element, in order, before anything is compared *)
Fixpoint all_addresses (ps : list pointer) : res (list Z) :=
  match ps with
  | [] => Ok []
  | p :: r => do a <- get_address p; do t <- all_addresses r; Ok (a :: t)
  end.
Definition addr_key (p : pointer) : Z := match p_addr p with Some a => a | None => 0 end.

(** the loop of read_pointers_content over the sorted list: every pointer but the last is read
    after a seek to its address, up to the next pointer's address *)
Fixpoint rpc_loop (rom : file) (ps : list pointer) : res (list pointer * file) :=
  match ps with
  | p :: ((q :: _) as rest) =>
      do f1 <- fseek rom (addr_key p);
      let '(v, f2) := fread f1 (addr_key q - addr_key p) in
      do x <- rpc_loop f2 rest;
      Ok (set_value p v :: fst x, snd x)
  | _ => Ok (ps, rom)
  end.

(** Script.read_pointers_content(pointers_to_dump, end_of_script_address): the last pointer is read
    WITHOUT a seek, from wherever the file position is *)
Definition read_pointers_content (rom : file) (ps : list pointer) (end_addr : Z) : res (list pointer * file) :=
  do _ <- all_addresses ps;
  let sorted := sort_by addr_key ps in
  do x <- rpc_loop rom sorted;
  match rev (fst x) with
  | [] => Err EIndex                                   (* pointers[-1] on an empty list *)
  | lastp :: before =>
      let '(v, f) := fread (snd x) (end_addr - addr_key lastp) in
      Ok (rev before ++ [set_value lastp v], f)
  end.

(** Script.append_pointers(pointer_table_1, pointer_table_2) *)
Definition shift_id (d : Z) (p : pointer) : pointer := {| p_id := p_id p + d; p_addr := p_addr p; p_value := p_value p |}.
Definition append_pointers (t1 t2 : list pointer) : res (list pointer) :=
  let s1 := sort_by p_id t1 in
  let s2 := sort_by p_id t2 in
  match rev s1 with
  | [] => Err EIndex
  | lastp :: _ => Ok (s1 ++ map (shift_id (p_id lastp)) s2)
  end.

(** write_pointers_value_as_binary(pointers, output_file): the content written *)
Fixpoint concat_values (ps : list pointer) : res bytes :=
  match ps with
  | [] => Ok []
  | p :: r => do v <- get_value p; do t <- concat_values r; Ok (v ++ t)
  end.
Definition write_pointers_value_as_binary (ps : list pointer) : res bytes := concat_values (sort_by p_id ps).

(** write_pointers_addresses_as_binary(pointers, formula, output_file): the formula is applied to
    the running position before the pointer's value is looked at *)
Fixpoint write_addr_loop (formula : Z -> res bytes) (ps : list pointer) (pos : Z) : res bytes :=
  match ps with
  | [] => Ok []
  | p :: r => do fb <- formula pos; do v <- get_value p;
              do t <- write_addr_loop formula r (pos + Z.of_nat (length v)); Ok (fb ++ t)
  end.
Definition write_pointers_addresses_as_binary (ps : list pointer) (formula : Z -> res bytes) : res bytes :=
  write_addr_loop formula (sort_by p_id ps) 0.

(** recode_pointer_values(pointers, from_table, to_table) *)
Fixpoint recode_pointer_values (ps : list pointer) (from_t to_t : table) : res (list pointer) :=
  match ps with
  | [] => Ok []
  | p :: r => do v <- get_value p; do s <- to_text from_t v; do b <- to_bytes to_t s;
              do t <- recode_pointer_values r from_t to_t; Ok (set_value p b :: t)
  end.

(** What an exception leaves behind.  Both writers open the output file before the loop and the
    [with] block flushes what was written, so after a failure the file holds a prefix; the address
    writer has already written the address of the pointer whose value is missing.
    [recode_pointer_values] updates the objects one by one, so after a failure a prefix is recoded. *)
Fixpoint values_written (ps : list pointer) : bytes :=
  match ps with
  | [] => []
  | p :: r => match p_value p with Some v => v ++ values_written r | None => [] end
  end.
Definition write_pointers_value_file (ps : list pointer) : bytes := values_written (sort_by p_id ps).

Fixpoint addrs_written (formula : Z -> res bytes) (ps : list pointer) (pos : Z) : bytes :=
  match ps with
  | [] => []
  | p :: r => match formula pos with
              | Ok fb => fb ++ match p_value p with
                               | Some v => addrs_written formula r (pos + Z.of_nat (length v))
                               | None => []
                               end
              | _ => []
              end
  end.
Definition write_pointers_addresses_file (ps : list pointer) (formula : Z -> res bytes) : bytes :=
  addrs_written formula (sort_by p_id ps) 0.

Fixpoint recode_state (ps : list pointer) (from_t to_t : table) : list pointer :=
  match ps with
  | [] => []
  | p :: r => match (do v <- get_value p; do s <- to_text from_t v; to_bytes to_t s) with
              | Ok b => set_value p b :: recode_state r from_t to_t
              | _ => ps
              end
  end.

(** A reading formula undoing [long_low_rom_pointer 0].  formulas.py has none; this is the one the
    tie's driver passes to [read_pointers]:
    [lambda v: snes_to_rom(int.from_bytes(v, "little"))]. *)
Definition long_low_rom_pointer_inverse (v : bytes) : res Z := Ok (snes_to_rom (le_decode v)).
