(** M4c — the passes.  Mirrors a816/program.py: Program.resolve_labels, resolver_reset, emit,
    _check_phase.  Definitions only. *)
From A816 Require Export Model.Nodes.

(** Program.resolver_reset: pc = 0; last_used_scope = 0; current_scope = scopes[0]
    (reloc_address is not touched). *)
Definition resolver_reset (r : rstate) : rstate := set_pc (set_cur_last r 0 0) 0.

(** First traversal of resolve_labels: every node except SymbolNode; records the address each
    node is given (label_pass_addresses), then the end address. *)
Fixpoint label_pass (w : world) (r : rstate) (ns : list node) (a : addr) (acc : list Z)
  : res (rstate * addr * list Z) :=
  match ns with
  | [] => Ok (r, a, acc ++ [a_val a])
  | n :: rest =>
      let acc' := acc ++ [a_val a] in
      if is_symbol_node n then label_pass w r rest a acc'
      else do ra <- pc_after w r n a; label_pass w (fst ra) rest (snd ra) acc'
  end.

(** Second traversal: every node except LabelNode and BinaryNode. *)
Fixpoint symbol_pass (w : world) (r : rstate) (ns : list node) (a : addr) : res (rstate * addr) :=
  match ns with
  | [] => Ok (r, a)
  | n :: rest =>
      if is_label_or_binary n then symbol_pass w r rest a
      else do ra <- pc_after w r n a; symbol_pass w (fst ra) rest (snd ra)
  end.

(** Program.resolve_labels: returns the resolver and label_pass_addresses. *)
Definition resolve_labels (w : world) (r : rstate) (ns : list node) : res (rstate * list Z) :=
  let r0 := set_cur_last r (r_cur r) 0 in            (* self.resolver.last_used_scope = 0 *)
  do x <- label_pass w r0 ns (r_reloc r0) [];
  let '(r1, _, addrs) := x in
  let r2 := resolver_reset r1 in
  do y <- symbol_pass w r2 ns (r_reloc r2);
  Ok (resolver_reset (fst y), addrs).

(** One (block, address) call on the writer. *)
Definition wblock := (bytes * Z)%type.

(** Emission state: resolver, current_block, current_block_addr, writer calls so far. *)
Record estate := { e_r : rstate; e_block : bytes; e_baddr : Z; e_out : list wblock }.

(** One iteration of Program.emit's loop (phase check included). *)
Definition emit_step (w : world) (st : estate) (n : node) (expected : Z) : res estate :=
  let r := e_r st in
  if negb (a_val (r_reloc r) =? expected) then Err ERuntime       (* Phase error *)
  else
    do rb <- node_emit w r n;
    let '(r1, bs) := rb in
    do r2 <- match bs with
             | [] => Ok r1
             | _ => do a' <- addr_plus (r_reloc r1) (Z.of_nat (length bs));
                    Ok (set_reloc (set_pc r1 (r_pc r1 + Z.of_nat (length bs))) a')
             end;
    let block := e_block st ++ bs in
    let st1 :=
      if is_codepos n then
        {| e_r := r2; e_block := []; e_baddr := r_pc r2;
           e_out := match block with [] => e_out st | _ => e_out st ++ [(block, e_baddr st)] end |}
      else {| e_r := r2; e_block := block; e_baddr := e_baddr st; e_out := e_out st |} in
    Ok match n with
       | NIps blocks =>
           {| e_r := e_r st1; e_block := e_block st1; e_baddr := e_baddr st1;
              e_out := e_out st1 ++ map (fun ab => (snd ab, fst ab)) blocks |}
       | _ => st1
       end.

Fixpoint emit_loop (w : world) (st : estate) (ns : list node) (addrs : list Z) : res estate :=
  match ns with
  | [] => match addrs with
          | [expected] =>
              if negb (a_val (r_reloc (e_r st)) =? expected) then Err ERuntime else Ok st
          | _ => Err EIndex
          end
  | n :: rest =>
      match addrs with
      | expected :: addrs' => do st' <- emit_step w st n expected; emit_loop w st' rest addrs'
      | [] => Err EIndex
      end
  end.

(** Program.emit with the phase check on (the node list is the one labels were resolved for). *)
Definition emit (w : world) (r : rstate) (ns : list node) (addrs : list Z) : res (rstate * list wblock) :=
  do st <- emit_loop w {| e_r := r; e_block := []; e_baddr := r_pc r; e_out := [] |} ns addrs;
  Ok (e_r st, match e_block st with [] => e_out st | b => e_out st ++ [(b, e_baddr st)] end).

Record output := { o_blocks : list wblock; o_labels : list (str * Z); o_final : rstate }.

(** resolve_labels followed by emit, as assemble_string_with_emitter runs them on the
    generated node list. *)
Definition assemble_nodes (w : world) (r : rstate) (ns : list node) : res output :=
  do ra <- resolve_labels w r ns;
  do rb <- emit w (fst ra) ns (snd ra);
  Ok {| o_blocks := snd rb; o_labels := get_all_labels (fst rb); o_final := fst rb |}.
