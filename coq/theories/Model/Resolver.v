(** M4a — scopes and the resolver.  Mirrors a816/symbols.py (Scope, NamedScope, InternalScope,
    Resolver) and the [Address] objects the passes thread.  Definitions only.

    Python object identity is replaced by indices: a scope is its index in [resolver.scopes]
    (scopes are only ever appended); [current_scope] is an index. *)
From A816 Require Export Model.Expr Model.Opcode Model.Legacy.

(** What the model needs from outside the source text (files, live tables). *)
Record world := {
  w_builtin : romtype -> res bus;             (* BUS_MAPPING[rom_type]; KeyError when absent *)
  w_optable : optable;                        (* snes_opcode_table *)
  w_prec : prectab;                           (* OPERATOR_PRECEDENCE *)
  w_incbin : str -> res bytes;                (* open(path, "rb").read() *)
  w_table : str -> res (str -> res bytes);    (* Table(path), then its to_bytes *)
  w_ips : str -> Z -> res (list (Z * bytes))  (* IncludeIpsNode's reader: path, delta -> blocks *)
}.

Inductive skind := SPlain | SNamed (name : str) | SInternal.

Record scope := {
  s_parent : option nat;
  s_kind : skind;
  s_symbols : dict Z;                         (* Scope.symbols *)
  s_code : dict (list ast * token);           (* Scope.code_symbols: BlockAstNode = (body, file_info) *)
  s_labels : dict Z;                          (* Scope.labels *)
  s_table : option (str -> res bytes)         (* Scope.table (its to_bytes) *)
}.
Definition new_scope (parent : option nat) (k : skind) : scope :=
  {| s_parent := parent; s_kind := k; s_symbols := []; s_code := []; s_labels := []; s_table := None |}.

(** An [Address] object: the bus it was created on and its logical value (its mapping is the
    bus's mapping for that bank; buses do not change once addresses are threaded). *)
Record addr := { a_bus : bus; a_val : Z }.

Record rstate := {
  r_scopes : list scope;
  r_cur : nat;                 (* index of current_scope *)
  r_last : nat;                (* last_used_scope *)
  r_pc : Z;                    (* resolver.pc: file offset of the next emitted byte *)
  r_reloc : addr;              (* resolver.reloc_address *)
  r_bus : bus;                 (* resolver.bus: the program's own [.map] bus *)
  r_rom : romtype              (* resolver.rom_type *)
}.

Definition set_scopes (r : rstate) (s : list scope) : rstate :=
  {| r_scopes := s; r_cur := r_cur r; r_last := r_last r; r_pc := r_pc r; r_reloc := r_reloc r;
     r_bus := r_bus r; r_rom := r_rom r |}.
Definition set_cur (r : rstate) (c : nat) : rstate :=
  {| r_scopes := r_scopes r; r_cur := c; r_last := r_last r; r_pc := r_pc r; r_reloc := r_reloc r;
     r_bus := r_bus r; r_rom := r_rom r |}.
Definition set_cur_last (r : rstate) (c l : nat) : rstate :=
  {| r_scopes := r_scopes r; r_cur := c; r_last := l; r_pc := r_pc r; r_reloc := r_reloc r;
     r_bus := r_bus r; r_rom := r_rom r |}.
Definition set_pc (r : rstate) (pc : Z) : rstate :=
  {| r_scopes := r_scopes r; r_cur := r_cur r; r_last := r_last r; r_pc := pc; r_reloc := r_reloc r;
     r_bus := r_bus r; r_rom := r_rom r |}.
Definition set_reloc (r : rstate) (a : addr) : rstate :=
  {| r_scopes := r_scopes r; r_cur := r_cur r; r_last := r_last r; r_pc := r_pc r; r_reloc := a;
     r_bus := r_bus r; r_rom := r_rom r |}.
Definition set_bus (r : rstate) (b : bus) : rstate :=
  {| r_scopes := r_scopes r; r_cur := r_cur r; r_last := r_last r; r_pc := r_pc r; r_reloc := r_reloc r;
     r_bus := b; r_rom := r_rom r |}.
Definition set_rom (r : rstate) (t : romtype) : rstate :=
  {| r_scopes := r_scopes r; r_cur := r_cur r; r_last := r_last r; r_pc := r_pc r; r_reloc := r_reloc r;
     r_bus := r_bus r; r_rom := t |}.

(** Resolver.get_bus *)
Definition get_bus (w : world) (r : rstate) : res bus :=
  if bus_has_mappings (r_bus r) then Ok (r_bus r) else w_builtin w (r_rom r).

(** bus.get_address(v): Address(bus, v) — KeyError when the bank is unmapped. *)
Definition mk_addr (b : bus) (v : Z) : res addr :=
  do _ <- get_address b v; Ok {| a_bus := b; a_val := v |}.
(** Address.__add__ (on the address's own bus) *)
Definition addr_plus (a : addr) (n : Z) : res addr :=
  do v <- addr_add (a_bus a) (a_val a) n; Ok {| a_bus := a_bus a; a_val := v |}.
Definition addr_phys (a : addr) : res (option Z) := addr_physical (a_bus a) (a_val a).

(** Resolver.set_position *)
Definition set_position (w : world) (r : rstate) (v : Z) : res rstate :=
  do b <- get_bus w r;
  do a <- mk_addr b v;
  do p <- addr_phys a;
  let r1 := match p with Some off => set_pc r off | None => r end in
  Ok (set_reloc r1 a).

(** Resolver(): rom_type = low_rom, one root scope, empty bus, set_position(0). *)
Definition resolver_init (w : world) : res rstate :=
  match w_builtin w LowRom with
  | Ok b =>
      let r0 := {| r_scopes := [new_scope None SPlain]; r_cur := 0; r_last := 0; r_pc := 0;
                   r_reloc := {| a_bus := b; a_val := 0 |}; r_bus := empty_bus; r_rom := LowRom |} in
      set_position w r0 0
  | Err k => Err k
  | OutOfFuel => OutOfFuel
  end.

(** Scope update helpers. *)
Fixpoint list_update {A} (l : list A) (i : nat) (f : A -> A) : list A :=
  match l, i with
  | [], _ => []
  | x :: r, O => f x :: r
  | x :: r, S i' => x :: list_update r i' f
  end.
Definition upd_scope (r : rstate) (i : nat) (f : scope -> scope) : rstate :=
  set_scopes r (list_update (r_scopes r) i f).

Definition scope_add_symbol (name : str) (v : Z) (s : scope) : scope :=
  {| s_parent := s_parent s; s_kind := s_kind s; s_symbols := dict_set (s_symbols s) name v;
     s_code := s_code s; s_labels := s_labels s; s_table := s_table s |}.
Definition scope_add_code (name : str) (c : list ast * token) (s : scope) : scope :=
  {| s_parent := s_parent s; s_kind := s_kind s; s_symbols := s_symbols s;
     s_code := dict_set (s_code s) name c; s_labels := s_labels s; s_table := s_table s |}.
(** Scope.add_label: labels[label] = v; add_symbol(label, v) *)
Definition scope_add_label (name : str) (v : Z) (s : scope) : scope :=
  {| s_parent := s_parent s; s_kind := s_kind s; s_symbols := dict_set (s_symbols s) name v;
     s_code := s_code s; s_labels := dict_set (s_labels s) name v; s_table := s_table s |}.
Definition scope_set_table (t : str -> res bytes) (s : scope) : scope :=
  {| s_parent := s_parent s; s_kind := s_kind s; s_symbols := s_symbols s;
     s_code := s_code s; s_labels := s_labels s; s_table := Some t |}.

Definition add_symbol (r : rstate) (name : str) (v : Z) : rstate := upd_scope r (r_cur r) (scope_add_symbol name v).
Definition add_code (r : rstate) (name : str) (c : list ast * token) : rstate :=
  upd_scope r (r_cur r) (scope_add_code name c).
Definition add_label (r : rstate) (name : str) (v : Z) : rstate := upd_scope r (r_cur r) (scope_add_label name v).

(** A value bound to a name: an int or a code block. *)
Inductive sval := VInt (v : Z) | VCode (body : list ast) (fi : token).

(** Scope.__getitem__: code symbols first, then symbols, else SymbolNotDefined. *)
Definition scope_getitem (s : scope) (name : str) : res sval :=
  match dict_get (s_code s) name with
  | Some (b, fi) => Ok (VCode b fi)
  | None => match dict_get (s_symbols s) name with
            | Some v => Ok (VInt v)
            | None => Err ESymbol
            end
  end.

(** Scope.value_for: walks the parent chain.  Parents have smaller indices than their
    children, so [fuel = S index] always suffices (proved in Proofs/). *)
Fixpoint value_for_fuel (scopes : list scope) (fuel : nat) (i : nat) (name : str) : res sval :=
  match fuel with
  | O => OutOfFuel
  | S f =>
      match nth_error scopes i with
      | None => Err EIndex
      | Some s =>
          match s_parent s with
          | Some p =>
              if dict_mem (s_symbols s) name || dict_mem (s_code s) name then scope_getitem s name
              else value_for_fuel scopes f p name
          | None => scope_getitem s name
          end
      end
  end.
Definition value_for (r : rstate) (name : str) : res sval :=
  value_for_fuel (r_scopes r) (S (r_cur r)) (r_cur r) name.

(** The evaluator's environment: value_for followed by the isinstance(int) test. *)
Definition env_of (r : rstate) : env :=
  fun name => match value_for r name with
              | Ok (VInt v) => Ok v
              | Ok (VCode _ _) => Err ERuntime
              | Err k => Err k
              | OutOfFuel => OutOfFuel
              end.
(** eval_expression(expression, resolver): exceptions escape raw (SymbolNotDefined = ESymbol). *)
Definition eval_raw (w : world) (r : rstate) (e : expr) : res Z := eval_expression (w_prec w) (env_of r) e.
(** ExpressionNode.get_value: SymbolNotDefined becomes a NodeError. *)
Definition get_value (w : world) (r : rstate) (e : expr) : res Z :=
  match eval_raw w r e with Err ESymbol => Err ENode | x => x end.

(** Scope.get_table *)
Fixpoint get_table_fuel (scopes : list scope) (fuel : nat) (i : nat) : res (option (str -> res bytes)) :=
  match fuel with
  | O => OutOfFuel
  | S f =>
      match nth_error scopes i with
      | None => Err EIndex
      | Some s =>
          match s_table s with
          | Some t => Ok (Some t)
          | None => match s_parent s with Some p => get_table_fuel scopes f p | None => Ok None end
          end
      end
  end.
Definition get_table (r : rstate) : res (option (str -> res bytes)) :=
  get_table_fuel (r_scopes r) (S (r_cur r)) (r_cur r).

(** Resolver.append_scope / append_named_scope / append_internal_scope *)
Definition append_scope (r : rstate) (k : skind) : rstate :=
  set_scopes r (r_scopes r ++ [new_scope (Some (r_cur r)) k]).

(** Resolver.use_next_scope: last_used_scope += 1; current_scope = scopes[last_used_scope] *)
Definition use_next_scope (r : rstate) : res rstate :=
  let l := S (r_last r) in
  match nth_error (r_scopes r) l with
  | Some _ => Ok (set_cur_last r l l)
  | None => Err EIndex
  end.

Definition dot : str := [46].
(** parent.symbols |= {f"{name}.{k}": v for k, v in scope.symbols.items()} *)
Definition export_into (name : str) (child : dict Z) (parent : scope) : scope :=
  fold_left (fun p kv => scope_add_symbol (name ++ dot ++ fst kv) (snd kv) p) child parent.

(** Resolver.restore_scope(exports) *)
Definition restore_scope (r : rstate) (exports : bool) : res rstate :=
  match nth_error (r_scopes r) (r_cur r) with
  | None => Err EIndex
  | Some s =>
      match s_parent s with
      | None => Err ERuntime                     (* "Current scope has no parent..." *)
      | Some p =>
          let r1 := match s_kind s with
                    | SNamed name => if exports then upd_scope r p (export_into name (s_symbols s)) else r
                    | _ => r
                    end in
          Ok (set_cur r1 p)
      end
  end.

(** Resolver.get_all_labels: labels of every non-internal scope, in creation order. *)
Definition get_all_labels (r : rstate) : list (str * Z) :=
  flat_map (fun s => match s_kind s with SInternal => [] | _ => s_labels s end) (r_scopes r).
