(** M7a — executable model of the scanner: a816/parse/scanner.py (class Scanner) and
    a816/parse/scanner_states.py (lex_* state functions), function for function, as the code
    is in /repo now (after the fix: commits e8408b0 "Unterminated Comment", e5f992f string
    position, 8fecc10 size-specifier position, 74c2432 no-progress test in the scan driver).
    Definitions only; proofs are in Proofs/ScannerProofs.v (ScannerFuel.v, ScannerPos.v).

    Conventions
    - characters are Unicode code points ([Z]); [peek] beyond the end returns EOF = "\0" = 0,
      so an actual NUL in the input is indistinguishable from the end of input for every test
      written with [peek] / [accept] (exactly as in Python);
    - positions ([pos], [start], [line_offset], [current_line]) are [nat]; the column of a token
      is [start - line_offset] computed in [Z] (it can be negative for COMMENT tokens);
    - [toks_rev] / [lines_rev] are kept newest-first (Python appends);
    - every Python loop is a recursion on explicit fuel; a loop that would spin in Python
      (e.g. [accept_run(c, negate=True)] with "\0" not in [c] at the end of input: [accept]
      returns True because [next()] returns None without advancing)  runs out of fuel here;
    - a raised ScannerException is [LRaise msg line col s] where [s] is the scanner state at the
      raise (the driver's handler keeps mutating it) and (line, col) the Position object that was
      built — possibly earlier than the raise — by [get_position];
    - [str.lower()] in accept_opcode / lex_opcode is modelled as ASCII lower-casing.  Known gap:
      U+212A KELVIN SIGN lower-cases to "k" (so "br<U+212A>" is the mnemonic brk for Python and
      not for the model) and U+0130 lower-cases to two code points; the harness excludes both;
    - [backup] at [pos = 0] (Python would continue with pos = -1 and index from the end of the
      string) is [LStuck]; proved unreachable ([backup] is only called after a successful
      [accept]/[next]). *)
From A816 Require Export Model.Tokens.
From Coq Require Import Arith.
Open Scope Z_scope.

(* ------------------------------------------------------------------------------------------ *)
(** * Tables taken from the live code ([Run.GenLexicon]) *)

Record lexicon := mk_lexicon {
  lx_mnemonics : list str;     (* snes_opcode_table.keys() *)
  lx_naked     : list str;     (* opcodes_without_operand  *)
  lx_keywords  : list str      (* KEYWORDS                 *)
}.

Definition mem_str (s : str) (l : list str) : bool := existsb (str_eqb s) l.

(* ------------------------------------------------------------------------------------------ *)
(** * Messages, results *)

Inductive scan_msg :=
| M_InvalidInput (rest : str)        (* f"Invalid Input {s.input[s.start:]}" *)
| M_UnterminatedString               (* "Unterminated String"   *)
| M_UnterminatedComment              (* "Unterminated Comment"  *)
| M_InvalidSize                      (* "Invalid Size Specifier" *)
| M_InvalidIndex                     (* "Invalid index"         *)
| M_UnknownKeyword (kw : str).       (* f"Unknown Keyword {s.current_token_text()}" *)

(** str(exception) *)
Definition render_msg (m : scan_msg) : str :=
  match m with
  | M_InvalidInput rest => [73;110;118;97;108;105;100;32;73;110;112;117;116;32] ++ rest
  | M_UnterminatedString => [85;110;116;101;114;109;105;110;97;116;101;100;32;83;116;114;105;110;103]
  | M_UnterminatedComment => [85;110;116;101;114;109;105;110;97;116;101;100;32;67;111;109;109;101;110;116]
  | M_InvalidSize => [73;110;118;97;108;105;100;32;83;105;122;101;32;83;112;101;99;105;102;105;101;114]
  | M_InvalidIndex => [73;110;118;97;108;105;100;32;105;110;100;101;120]
  | M_UnknownKeyword kw => [85;110;107;110;111;119;110;32;75;101;121;119;111;114;100;32] ++ kw
  end.

(** Coarse class of the message (what C17 compares). *)
Definition msg_class (m : scan_msg) : Z :=
  match m with
  | M_InvalidInput _ => 1 | M_UnterminatedString => 2 | M_UnterminatedComment => 3
  | M_InvalidSize => 4 | M_InvalidIndex => 5 | M_UnknownKeyword _ => 6
  end.

Record sc := mk_sc {
  inp : str;                (* self.input *)
  pos : nat;                (* self.pos *)
  start : nat;              (* self.start *)
  loff : nat;               (* self.line_offset *)
  cline : nat;              (* self.current_line *)
  lines_rev : list str;     (* self.file.lines, newest first *)
  toks_rev : list token;    (* self.tokens, newest first *)
  fname : str               (* self.file.filename *)
}.

Inductive lres (A : Type) :=
| LOk (a : A)
| LRaise (m : scan_msg) (line col : Z) (s : sc)   (* ScannerException(m, Position(line, col, file)) *)
| LStuck                                          (* model left its domain: backup() at pos = 0 *)
| LOutOfFuel.
Arguments LOk {A}. Arguments LRaise {A}. Arguments LStuck {A}. Arguments LOutOfFuel {A}.

Definition lbind {A B} (r : lres A) (f : A -> lres B) : lres B :=
  match r with
  | LOk a => f a
  | LRaise m l c s => LRaise m l c s
  | LStuck => LStuck
  | LOutOfFuel => LOutOfFuel
  end.
Notation "'dol' x <- r ; k" := (lbind r (fun x => k)) (at level 200, x pattern, r at level 100, k at level 200).

(* ------------------------------------------------------------------------------------------ *)
(** * scanner.py primitives *)

(** Python slice [l[a:b]] for 0 <= a, 0 <= b (clipped at the end, empty when b <= a). *)
Definition slice (l : str) (a b : nat) : str := firstn (b - a) (skipn a l).

Definition set_pos (s : sc) (p : nat) : sc :=
  mk_sc (inp s) p (start s) (loff s) (cline s) (lines_rev s) (toks_rev s) (fname s).

(** _handle_line *)
Definition handle_line (s : sc) : sc :=
  if (loff s <=? pos s)%nat then
    mk_sc (inp s) (pos s) (start s) (S (pos s)) (S (cline s))
          (slice (inp s) (loff s) (pos s) :: lines_rev s) (toks_rev s) (fname s)
  else s.

(** next: None at the end of input WITHOUT advancing. *)
Definition next (s : sc) : option Z * sc :=
  match nth_error (inp s) (pos s) with
  | Some c => let s1 := if c =? 10 then handle_line s else s in (Some c, set_pos s1 (S (pos s)))
  | None => (None, s)
  end.

(** backup: pos -= 1 *)
Definition backup (s : sc) : lres sc :=
  match pos s with
  | O => LStuck
  | S p => LOk (set_pos s p)
  end.

(** peek(k): EOF = "\0" beyond the end *)
Definition peek_k (s : sc) (k : nat) : Z := nth (pos s + k) (inp s) 0.
Definition peek (s : sc) : Z := peek_k s 0.

(** accept(candidates, negate) *)
Definition accept (s : sc) (cands : str) (negate : bool) : bool * sc :=
  let r := xorb (mem_z (peek s) cands) negate in
  if r then (true, snd (next s)) else (false, s).

(** accept_prefix(prefix): no call to next(), hence no line bookkeeping *)
Definition accept_prefix (s : sc) (p : str) : bool * sc :=
  if str_eqb (slice (inp s) (pos s) (pos s + length p)) p
  then (true, set_pos s (pos s + length p)) else (false, s).

(** accept_run(candidates, negate): while self.accept(...): pass *)
Fixpoint accept_run (fuel : nat) (s : sc) (cands : str) (negate : bool) : lres sc :=
  match fuel with
  | O => LOutOfFuel
  | S f => let '(b, s') := accept s cands negate in
           if b then accept_run f s' cands negate else LOk s'
  end.

(** ignore *)
Definition ignore (s : sc) : sc :=
  mk_sc (inp s) (pos s) (pos s) (loff s) (cline s) (lines_rev s) (toks_rev s) (fname s).

(** ignore_run *)
Definition ignore_run (fuel : nat) (s : sc) (cands : str) : lres sc :=
  dol s1 <- accept_run fuel s cands false; LOk (ignore s1).

Definition current_token_text (s : sc) : str := slice (inp s) (start s) (pos s).

(** get_position: Position(current_line, start - line_offset, file) *)
Definition get_position (s : sc) : Z * Z := (Z.of_nat (cline s), Z.of_nat (start s) - Z.of_nat (loff s)).

Definition get_token (s : sc) (ty : ttype) : token :=
  {| t_type := ty; t_value := current_token_text s;
     t_pos := Some {| tp_line := fst (get_position s); tp_col := snd (get_position s); tp_file := fname s |} |}.

(** emit *)
Definition emit (s : sc) (ty : ttype) : sc :=
  mk_sc (inp s) (pos s) (pos s) (loff s) (cline s) (lines_rev s) (get_token s ty :: toks_rev s) (fname s).

Definition raise {A} (m : scan_msg) (p : Z * Z) (s : sc) : lres A := LRaise m (fst p) (snd p) s.

(** "a or b" on accept results: b is evaluated (on a's state) only if a failed *)
Definition accept_or (r : bool * sc) (f : sc -> bool * sc) : bool * sc :=
  if fst r then r else f (snd r).

Definition oz_is (c : option Z) (v : Z) : bool := match c with Some x => x =? v | None => false end.

(* ------------------------------------------------------------------------------------------ *)
(** * Character sets (the literal strings of scanner_states.py) *)

Definition ident_chars : str :=   (* "_ABCEDFGHIJKLMNOPQRSTUVWXYZabcedfghijklmnopqrstuvwxyz0123456789" *)
  [95;65;66;67;69;68;70;71;72;73;74;75;76;77;78;79;80;81;82;83;84;85;86;87;88;89;90;97;98;99;101;100;
   102;103;104;105;106;107;108;109;110;111;112;113;114;115;116;117;118;119;120;121;122;
   48;49;50;51;52;53;54;55;56;57].
Definition ident_start : str :=   (* "_ABCEDFGHIJKLMNOPQRSTUVWXYZabcedfghijklmnopqrstuvwxyz" *)
  [95;65;66;67;69;68;70;71;72;73;74;75;76;77;78;79;80;81;82;83;84;85;86;87;88;89;90;97;98;99;101;100;
   102;103;104;105;106;107;108;109;110;111;112;113;114;115;116;117;118;119;120;121;122].
Definition digits : str := [48;49;50;51;52;53;54;55;56;57].
Definition kw_chars : str :=      (* "abcdefghijklmnopqrstuvwxyz_" *)
  [97;98;99;100;101;102;103;104;105;106;107;108;109;110;111;112;113;114;115;116;117;118;119;120;121;122;95].
Definition bin_digits : str := [48;49].
Definition oct_digits : str := [48;49;50;51;52;53;54;55;56].       (* "012345678" (sic) *)
Definition hex_digits : str := [48;49;50;51;52;53;54;55;56;57;65;66;67;68;69;70;97;98;99;100;101;102].
Definition expr_ops : str := [43;45;42;47;38;124;126].             (* "+-*/&|~" *)
Definition index_chars : str := [120;88;121;89;115;83].            (* "xXyYsS" *)
Definition size_chars : str := [98;66;119;87;108;76].              (* "bBwWlL" *)
Definition blanks : str := [32;9;10].                              (* " \t\n" *)
Definition eol_or_eof : str := [10;0].                             (* "\n\0" *)

(** ASCII part of str.lower() *)
Definition lower (c : Z) : Z := if (65 <=? c) && (c <=? 90) then c + 32 else c.

(* ------------------------------------------------------------------------------------------ *)
(** * scanner_states.py *)

(** lex_identifier *)
Definition lex_identifier (F : nat) (s : sc) : lres sc :=
  dol s1 <- accept_run F s ident_chars false;
  if (peek s1 =? 58) && negb (peek_k s1 1 =? 61) then
    let s2 := emit s1 T_LABEL in
    let s3 := snd (next s2) in
    LOk (ignore s3)
  else
    dol s2 <- (if peek s1 =? 46 then accept_run F (snd (next s1)) ident_chars false else LOk s1);
    LOk (emit s2 T_IDENTIFIER).

(** lex_quoted_string: [c = s.next(); while c != "'": ...] *)
Fixpoint quoted_loop (fuel : nat) (p : Z * Z) (c : option Z) (s : sc) : lres sc :=
  match fuel with
  | O => LOutOfFuel
  | S f =>
      if oz_is c 39 then LOk (emit s T_QUOTED_STRING)
      else if oz_is c 10 || match c with None => true | Some _ => false end then raise M_UnterminatedString p s
      else
        let s1 := if oz_is c 92 && (peek s =? 39) then snd (next s) else s in
        let '(c', s2) := next s1 in
        quoted_loop f p c' s2
  end.
Definition lex_quoted_string (F : nat) (s : sc) : lres sc :=
  let p := get_position s in
  let '(c, s1) := next s in
  quoted_loop F p c s1.

(** accept_opcode *)
Definition accept_opcode (lx : lexicon) (s : sc) : bool * sc :=
  let cand := map lower (slice (inp s) (start s) (pos s + 3)) in
  let is_ws := peek_k s 3 in
  if mem_str cand (lx_mnemonics lx) && mem_z is_ws [32;10;9;46;0]
  then (true, set_pos s (pos s + 3)) else (false, s).

(** lex_number *)
Definition lex_number (F : nat) (s : sc) : lres sc :=
  dol s0 <- backup s;
  let '(ch, s1) := next s0 in
  if (peek s1 =? 10) || (peek s1 =? 0) then LOk (emit s1 T_NUMBER)
  else
    dol s2 <- (if oz_is ch 48 then
                 let '(bp, s2) := next s1 in
                 if oz_is bp 98 then accept_run F s2 bin_digits false
                 else if oz_is bp 111 then accept_run F s2 oct_digits false
                 else if oz_is bp 120 then accept_run F s2 hex_digits false
                 else backup s2
               else accept_run F s1 digits false);
    LOk (emit s2 T_NUMBER).

(** lex_expression: [while s.pos < len(s.input): ... else: break] *)
Fixpoint lex_expression_loop (fuel F : nat) (s : sc) : lres sc :=
  match fuel with
  | O => LOutOfFuel
  | S f =>
      if (pos s <? length (inp s))%nat then
        dol s0 <- ignore_run F s [32];
        let '(b, s1) := accept s0 digits false in
        if b then (dol s2 <- lex_number F s1; lex_expression_loop f F s2) else
        let '(b, s1) := accept s1 ident_start false in
        if b then (dol s2 <- lex_identifier F s1; lex_expression_loop f F s2) else
        let '(b, s1) := accept_or (accept_or (accept s1 expr_ops false)
                                             (fun s => accept_prefix s [60;60]))
                                  (fun s => accept_prefix s [62;62]) in
        if b then lex_expression_loop f F (emit s1 T_OPERATOR) else
        let '(b, s1) := accept s1 [40] false in
        if b then lex_expression_loop f F (emit s1 T_LPAREN) else
        let '(b, s1) := accept s1 [41] false in
        if b then lex_expression_loop f F (emit s1 T_RPAREN) else
        LOk s1
      else LOk s
  end.
Definition lex_expression (F : nat) (s : sc) : lres sc := lex_expression_loop F F s.

(** lex_opcode_index *)
Definition lex_opcode_index (F : nat) (s : sc) : lres sc :=
  let s1 := ignore s in
  dol s2 <- ignore_run F s1 [32];
  let '(b, s3) := accept s2 index_chars false in
  if b then LOk (emit s3 T_ADDRESSING_MODE_INDEX)
  else raise M_InvalidIndex (get_position s3) s3.

(** lex_operand *)
Definition lex_operand (F : nat) (s : sc) : lres sc :=
  let p := peek s in
  let s1 := if p =? 35 then emit (snd (next s)) T_SHARP
            else if p =? 40 then emit (snd (next s)) T_LPAREN
            else if p =? 91 then emit (snd (next s)) T_LBRAKET
            else s in
  dol s2 <- ignore_run F s1 [32];
  dol s3 <- lex_expression F s2;
  dol s4 <- ignore_run F s3 [32];
  let '(b, s5) := accept s4 [44] false in
  dol s6 <- (if b then lex_opcode_index F s5 else LOk s5);
  let p := peek s6 in
  let s7 := if p =? 41 then emit (snd (next s6)) T_RPAREN
            else if p =? 93 then emit (snd (next s6)) T_RBRAKET
            else s6 in
  dol s8 <- ignore_run F s7 [32];
  let '(b, s9) := accept s8 [44] false in
  if b then lex_opcode_index F s9 else LOk s9.

(** lex_opcode_size (its result is returned to lex_opcode, which goes on) *)
Definition lex_opcode_size (F : nat) (s : sc) : lres sc :=
  let s1 := ignore s in
  let '(b, s2) := accept s1 size_chars false in
  if b then
    let s3 := emit s2 T_OPCODE_SIZE in
    dol s4 <- ignore_run F s3 [32];
    lex_operand F s4
  else
    let p := get_position s2 in
    let s3 := snd (next s2) in
    raise M_InvalidSize p s3.

(** lex_opcode *)
Definition lex_opcode_tail (F : nat) (s : sc) : lres sc :=
  let '(b, s1) := accept s [46] false in
  dol s2 <- (if b then lex_opcode_size F s1 else LOk s1);
  dol s3 <- ignore_run F s2 [32];
  lex_operand F s3.

Definition lex_opcode (F : nat) (lx : lexicon) (s : sc) : lres sc :=
  let cand := map lower (slice (inp s) (start s) (pos s)) in
  if mem_str cand (lx_naked lx) && negb (peek s =? 46) then
    let saved_pos := pos s in
    dol s1 <- accept_run F s [32;9] false;
    let '(b, s2) := accept s1 [59] false in
    dol s3 <- (if b then accept_run F s2 eol_or_eof true else LOk s2);
    if (peek s3 =? 10) || (peek s3 =? 0) then
      LOk (emit (set_pos s3 saved_pos) T_OPCODE_NAKED)
    else
      lex_opcode_tail F (emit (set_pos s3 saved_pos) T_OPCODE)
  else
    lex_opcode_tail F (emit s T_OPCODE).

(** lex_keyword *)
Definition lex_keyword (F : nat) (lx : lexicon) (s : sc) : lres sc :=
  let s1 := ignore s in
  dol s2 <- accept_run F s1 kw_chars false;
  if mem_str (current_token_text s2) (lx_keywords lx) then LOk (emit s2 T_KEYWORD)
  else raise (M_UnknownKeyword (current_token_text s2)) (get_position s2) s2.

(** [while s.next() not in ["\n", None]: pass] *)
Fixpoint line_comment_loop (fuel : nat) (s : sc) : lres sc :=
  match fuel with
  | O => LOutOfFuel
  | S f =>
      let '(c, s1) := next s in
      match c with
      | None => LOk s1
      | Some x => if x =? 10 then LOk s1 else line_comment_loop f s1
      end
  end.

(** [while not s.accept_prefix("*/"): if s.next() is None: raise ...] *)
Fixpoint block_comment_loop (fuel : nat) (p : Z * Z) (s : sc) : lres sc :=
  match fuel with
  | O => LOutOfFuel
  | S f =>
      let '(b, s1) := accept_prefix s [42;47] in
      if b then LOk s1
      else
        let '(c, s2) := next s1 in
        match c with
        | None => raise M_UnterminatedComment p s2
        | Some _ => block_comment_loop f p s2
        end
  end.

(** lex_initial *)
Definition lex_initial (lx : lexicon) (F : nat) (s : sc) : lres sc :=
  dol s <- ignore_run F s blanks;
  let '(b, s1) := accept s [59] false in
  if b then (dol s2 <- line_comment_loop F s1; LOk (emit s2 T_COMMENT)) else
  let '(b, s1) := accept s1 digits false in
  if b then lex_number F s1 else
  let '(b, s1) := accept s1 [43;45;38] false in
  if b then LOk (emit s1 T_OPERATOR) else
  let '(b, s1) := accept_prefix s1 [61;61] in
  if b then LOk (emit s1 T_OPERATOR) else
  let '(b, s1) := accept_prefix s1 [33;61] in
  if b then LOk (emit s1 T_OPERATOR) else
  let '(b, s1) := accept_prefix s1 [62;62] in
  if b then LOk (emit s1 T_OPERATOR) else
  let '(b, s1) := accept_prefix s1 [60;60] in
  if b then LOk (emit s1 T_OPERATOR) else
  let '(b, s1) := accept_or (accept_or (accept_or (accept_prefix s1 [62])
                                                  (fun s => accept_prefix s [60]))
                                       (fun s => accept_prefix s [62;61]))
                            (fun s => accept_prefix s [60;61]) in
  if b then LOk (emit s1 T_OPERATOR) else
  let '(b, s1) := accept s1 ident_start false in
  if b then
    (dol s2 <- backup s1;
     let '(b, s3) := accept_opcode lx s2 in
     if b then lex_opcode F lx s3 else lex_identifier F s3) else
  let '(b, s1) := accept s1 [46] false in
  if b then lex_keyword F lx s1 else
  let '(b, s1) := accept s1 [44] false in
  if b then LOk (emit s1 T_COMMA) else
  let '(b, s1) := accept_prefix s1 [58;61] in
  if b then LOk (emit s1 T_ASSIGN) else
  let '(b, s1) := accept_prefix s1 [64;61] in
  if b then LOk (emit s1 T_AT_EQ) else
  let '(b, s1) := accept s1 [42] false in
  if b then
    (let '(b, s2) := accept s1 [61] false in
     if b then LOk (emit s2 T_STAR_EQ) else LOk (emit s2 T_OPERATOR)) else
  let '(b, s1) := accept s1 [39] false in
  if b then lex_quoted_string F s1 else
  let '(b, s1) := accept s1 [40] false in
  if b then LOk (emit s1 T_LPAREN) else
  let '(b, s1) := accept s1 [41] false in
  if b then LOk (emit s1 T_RPAREN) else
  let '(b, s1) := accept s1 [91] false in
  if b then LOk (emit s1 T_LBRAKET) else
  let '(b, s1) := accept s1 [93] false in
  if b then LOk (emit s1 T_RBRAKET) else
  let '(b, s1) := accept s1 [123] false in
  if b then
    (let '(b, s2) := accept s1 [123] false in
     if b then LOk (emit s2 T_DOUBLE_LBRACE) else LOk (emit s2 T_LBRACE)) else
  let '(b, s1) := accept s1 [125] false in
  if b then
    (let '(b, s2) := accept s1 [125] false in
     if b then LOk (emit s2 T_DOUBLE_RBRACE) else LOk (emit s2 T_RBRACE)) else
  let '(b, s1) := accept s1 [61] false in
  if b then LOk (emit s1 T_EQUAL) else
  let '(b, s1) := accept_prefix s1 [47;42] in
  if b then
    (let p := get_position s1 in
     dol s2 <- block_comment_loop F p s1;
     LOk (emit s2 T_COMMENT)) else
  let '(c, s2) := next s1 in
  match c with
  | Some _ => raise (M_InvalidInput (skipn (start s2) (inp s2))) (get_position s2) s2
  | None => LOk s2
  end.

(* ------------------------------------------------------------------------------------------ *)
(** * Scanner.scan *)

(** What a caller of [scan] can observe of a ScannerException: str(e), e.position (line, column),
    [e.position.get_line()] = file.lines[line] after the handler ran ([None] = IndexError), and the
    File object's lines / the tokens appended so far. *)
Record scan_error := mk_scan_error {
  se_msg : scan_msg;
  se_line : Z;
  se_col : Z;
  se_quoted : option str;
  se_lines : list str;
  se_toks : list token
}.

Inductive scan_result :=
| ScanOk (toks : list token) (lines : list str)     (* returned tokens, scanner.file.lines *)
| ScanErr (e : scan_error)                          (* ScannerException *)
| ScanStuck
| ScanOutOfFuel.

(** Python's [lines[k]] for the [int] k of a Position (never negative here, but be exact) *)
Definition py_index {A} (l : list A) (k : Z) : option A :=
  if 0 <=? k then nth_error l (Z.to_nat k)
  else if 0 <=? k + Z.of_nat (length l) then nth_error l (Z.to_nat (k + Z.of_nat (length l)))
  else None.

Definition init_sc (file input : str) : sc := mk_sc input 0 0 0 0 [] [] file.

(** The [except ScannerException] handler of the driver: consume the rest of the current line,
    _handle_line(), re-raise. *)
Definition scan_handler (F : nat) (m : scan_msg) (line col : Z) (s' : sc) : scan_result :=
  match accept_run F s' eol_or_eof true with
  | LOk s'' =>
      let s3 := handle_line s'' in
      let lines := rev (lines_rev s3) in
      ScanErr (mk_scan_error m line col (py_index lines line) lines (rev (toks_rev s3)))
  | LRaise _ _ _ _ => ScanStuck          (* accept_run raises nothing *)
  | LStuck => ScanStuck
  | LOutOfFuel => ScanOutOfFuel
  end.

(** [while self.pos < len(self.input): try: state_pos = self.pos; self.state(self);
      if self.pos == state_pos: self.start = self.pos; raise ScannerException("Invalid Input ...")
    except ScannerException: ...] ;
    [state] is the initial state function (never reassigned, never None).  (The no-progress test
    is the fix of commit 74c2432.) *)
Fixpoint scan_loop (n F : nat) (state : nat -> sc -> lres sc) (s : sc) : scan_result :=
  match n with
  | O => ScanOutOfFuel
  | S n' =>
      if (pos s <? length (inp s))%nat then
        match state F s with
        | LOk s' =>
            if (pos s' =? pos s)%nat then
              let s1 := ignore s' in
              scan_handler F (M_InvalidInput (skipn (pos s1) (inp s1))) (fst (get_position s1)) (snd (get_position s1)) s1
            else scan_loop n' F state s'
        | LRaise m line col s' => scan_handler F m line col s'
        | LStuck => ScanStuck
        | LOutOfFuel => ScanOutOfFuel
        end
      else
        let s1 := emit s T_EOF in
        let s2 := handle_line s1 in
        ScanOk (rev (toks_rev s2)) (rev (lines_rev s2))
  end.

Definition scan_gen (fuel : nat) (state : nat -> sc -> lres sc) (file input : str) : scan_result :=
  scan_loop fuel fuel state (init_sc file input).

(** Scanner(lex_initial).scan(file, input) *)
Definition scan_with_fuel (fuel : nat) (lx : lexicon) (file input : str) : scan_result :=
  scan_gen fuel (lex_initial lx) file input.
Definition scan_fuel (input : str) : nat := (length input + 2)%nat.
Definition scan (lx : lexicon) (file input : str) : scan_result :=
  scan_with_fuel (scan_fuel input) lx file input.

(** Scanner(lex_expression).scan("memory", input) as used by expr_to_ast.  lex_expression returns
    without consuming a character it does not know; the driver's no-progress test turns that
    into "Invalid Input" (before commit 74c2432 it looped for ever, e.g. on "1 ?"). *)
Definition scan_expression_with_fuel (fuel : nat) (file input : str) : scan_result :=
  scan_gen fuel lex_expression file input.
Definition scan_expression (file input : str) : scan_result :=
  scan_expression_with_fuel (scan_fuel input) file input.

(** Projection on the shared result type: tokens and lines, or the exception class.
    [ScanErr] with [se_quoted = None] is the IndexError parse_as_ast would die of. *)
Definition scan_to_res (r : scan_result) : res (list token * list str) :=
  match r with
  | ScanOk t l => Ok (t, l)
  | ScanErr e => match se_quoted e with Some _ => Err EScan | None => Err EIndex end
  | ScanStuck => Err EOther
  | ScanOutOfFuel => OutOfFuel
  end.
Definition scan_res (lx : lexicon) (file input : str) : res (list token * list str) :=
  scan_to_res (scan lx file input).

(** The error string MZParser.parse_as_ast builds for a ScannerException:
    f"{file}:{line}:{col} : {e}\n{line_text}\n" + " " * col + "^"   (decimal rendering is left to
    the consumer: the fields are (file, line, col, message, quoted line)). *)
Definition scan_error_fields (file : str) (e : scan_error) : option (str * Z * Z * str * str) :=
  match se_quoted e with
  | Some q => Some (file, se_line e, se_col e, render_msg (se_msg e), q)
  | None => None
  end.
