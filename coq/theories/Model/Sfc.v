(** M6 — flat image writer.  Mirrors a816/writers.py: SFCWriter (begin / write_block_header / end
    do nothing; write_block is [file.seek(block_address); file.write(block)]).
    The file is its list of bytes.  Definitions only. *)
From A816 Require Export Base.Prelude.
Open Scope Z_scope.

(** file.seek(pos) followed by file.write(data) on a file whose contents are [img]:
    - writing nothing leaves the file as it is (no extension, wherever the position is);
    - a position inside the file overwrites and, if the data run past the end, extends;
    - a position beyond the end extends the file, the gap reads back as zeros. *)
Definition seek_write (img : bytes) (pos : nat) (data : bytes) : bytes :=
  match data with
  | [] => img
  | _ =>
      if Nat.leb pos (length img)
      then firstn pos img ++ data ++ skipn (pos + length data) img
      else img ++ repeat 0 (pos - length img) ++ data
  end.

(** SFCWriter.write_block(block, block_address).  seek() to a negative position raises
    (ValueError on io.BytesIO, OSError on a real file); compared as "rejected". *)
Definition sfc_write_block (img : bytes) (block : bytes) (addr : Z) : res bytes :=
  if addr <? 0 then Err EValue else Ok (seek_write img (Z.to_nat addr) block).

(** A sequence of write_block calls ((address, bytes) in call order) on a file. *)
Fixpoint sfc_write_blocks (blocks : list (Z * bytes)) (img : bytes) : res bytes :=
  match blocks with
  | [] => Ok img
  | (a, b) :: r => do img' <- sfc_write_block img b a; sfc_write_blocks r img'
  end.

(** The image produced from a new, empty file. *)
Definition sfc_image (blocks : list (Z * bytes)) : res bytes := sfc_write_blocks blocks [].
