(** M8 — table codec.  Mirrors /repo/script/__init__.py (class Table: include, parse_table_line,
    add_lookup, add_inverted_lookup, to_bytes, to_text), a816/symbols.py (Scope.get_table) and
    a816/parse/nodes.py (TableNode, TextNode, AbstractTextNode).  Definitions only.

    The line regex [table_line_regex] is modelled by its parsed result: one [entry] per matching
    line, in file order, = (text after the [\\n] replacement, code bytes, ignore count of [NN:k=]). *)
From A816 Require Export Base.Prelude Model.Bus.

Definition entry : Type := (str * bytes * option Z)%type.
Definition e_text (e : entry) : str := fst (fst e).
Definition e_code (e : entry) : bytes := snd (fst e).
Definition e_ignore (e : entry) : option Z := snd e.

(** [lookup : dict[str, bytes]], [inverted_lookup : dict[bytes, str | (str, int)]] — Python dicts:
    a later line with the same key overwrites the value (Prelude [dict_set]). *)
Record table := {
  t_lookup : dict bytes;
  t_inv : dict (str * option Z);
  t_max_bytes : nat;
  t_max_text : nat }.

Definition empty_table : table :=
  {| t_lookup := []; t_inv := []; t_max_bytes := 0; t_max_text := 0 |}.

Definition add_lookup (t : table) (text : str) (code : bytes) : table :=
  {| t_lookup := dict_set (t_lookup t) text code; t_inv := t_inv t;
     t_max_bytes := t_max_bytes t; t_max_text := t_max_text t |}.

Definition add_inverted_lookup (t : table) (code : bytes) (text : str) (ignore : option Z) : table :=
  {| t_lookup := t_lookup t; t_inv := dict_set (t_inv t) code (text, ignore);
     t_max_bytes := t_max_bytes t; t_max_text := t_max_text t |}.

(** parse_table_line on a matching line (non-matching lines change nothing and are not entries). *)
Definition parse_table_line (t : table) (e : entry) : table :=
  add_inverted_lookup (add_lookup t (e_text e) (e_code e)) (e_code e) (e_text e) (e_ignore e).

(** [len(max(xs, key=len))]; [max()] of an empty iterable is ValueError. *)
Definition max_len (xs : list (list Z)) : res nat :=
  match xs with
  | [] => Err EValue
  | _ => Ok (fold_left Nat.max (map (@length Z) xs) O)
  end.

(** Table.include: all lines, then both maxima over [self.lookup] (values / keys) — NOT over
    [inverted_lookup], so a code whose text was overwritten later is not counted. *)
Definition include (t : table) (entries : list entry) : res table :=
  let t1 := fold_left parse_table_line entries t in
  do mb <- max_len (map snd (t_lookup t1));
  do mt <- max_len (map fst (t_lookup t1));
  Ok {| t_lookup := t_lookup t1; t_inv := t_inv t1; t_max_bytes := mb; t_max_text := mt |}.

(** Table(path) *)
Definition table_of_entries (entries : list entry) : res table := include empty_table entries.

(** joker_regex = ^\[0x([0-9a-fA-F]+)]  :  '[' = 91, '0' = 48, 'x' = 120, ']' = 93. *)
Definition is_hex_digit (c : Z) : bool :=
  ((48 <=? c) && (c <=? 57)) || ((65 <=? c) && (c <=? 70)) || ((97 <=? c) && (c <=? 102)).
Definition hex_digit_value (c : Z) : Z :=
  if c <=? 57 then c - 48 else if c <=? 70 then c - 55 else c - 87.
(** int(digits, 16) *)
Definition int16 (ds : str) : Z := fold_left (fun a d => a * 16 + hex_digit_value d) ds 0.

(** the greedy [[0-9a-fA-F]+]: the maximal run of hex digits and what follows it *)
Fixpoint span_hex (s : str) : str * str :=
  match s with
  | [] => ([], [])
  | c :: r => if is_hex_digit c then let '(ds, rest) := span_hex r in (c :: ds, rest) else ([], s)
  end.

(** [joker_regex.match(remainder)]: Some (group "byte", len(matches.group())) *)
Definition joker_match (s : str) : option (str * nat) :=
  match s with
  | a :: b :: c :: r =>
      if (a =? 91) && (b =? 48) && (c =? 120) then
        match span_hex r with
        | (d :: ds, close :: _) => if close =? 93 then Some (d :: ds, (4 + length (d :: ds))%nat) else None
        | _ => None
        end
      else None
  | _ => None
  end.

(** for i in range(bound, 0, -1): try self.lookup[remainder[:i]] … break  /  else (None) *)
Fixpoint try_lookup {V} (d : dict V) (rem : list Z) (i : nat) : option (V * nat) :=
  match i with
  | O => None
  | S j => match dict_get d (firstn i rem) with
           | Some v => Some (v, i)
           | None => try_lookup d rem j
           end
  end.

(** Table.to_bytes.  [total] = len(text) of the WHOLE text (the loop bound uses it, not the
    remainder); [rem] = text[current_position:] ([skipn] past the end is [[]], as the slice is). *)
Fixpoint to_bytes_loop (fuel : nat) (t : table) (total : nat) (rem : str) (acc : bytes) : res bytes :=
  match fuel with
  | O => OutOfFuel
  | S f =>
      match rem with
      | [] => Ok acc
      | _ :: _ =>
          match joker_match rem with
          | Some (ds, n) =>
              let v := int16 ds in
              if v <=? 255 then to_bytes_loop f t total (skipn n rem) (acc ++ [v])
              else Err EValue                        (* bytes([v]) : ValueError *)
          | None =>
              match try_lookup (t_lookup t) rem (Nat.min total (t_max_text t)) with
              | Some (code, i) => to_bytes_loop f t total (skipn i rem) (acc ++ code)
              | None => to_bytes_loop f t total (skipn 1 rem) acc
              end
          end
      end
  end.

Definition to_bytes (t : table) (text : str) : res bytes :=
  to_bytes_loop (S (length text)) t (length text) text [].

(** hex(b) for a byte: "0x" + lower-case digits without padding. *)
Definition hex_char (d : Z) : Z := if d <? 10 then 48 + d else 87 + d.
Definition hex_of_byte (b : Z) : str :=
  [48; 120] ++ (if b <? 16 then [hex_char b] else [hex_char (b / 16); hex_char (b mod 16)]).
(** f"[{hex(b)}]" *)
Definition raw_byte_text (b : Z) : str := [91] ++ hex_of_byte b ++ [93].

(** for _ in range(k): text += f"[{hex(binary[current_position])}]"; current_position += 1
    — indexing past the end is IndexError (not caught by the [except KeyError]). *)
Fixpoint ignore_bytes (k : nat) (rem : bytes) (acc : str) : res (bytes * str) :=
  match k with
  | O => Ok (rem, acc)
  | S k' => match rem with
            | [] => Err EIndex
            | b :: r => ignore_bytes k' r (acc ++ raw_byte_text b)
            end
  end.

(** Table.to_text; [rem] = binary[current_position:]. *)
Fixpoint to_text_loop (fuel : nat) (t : table) (rem : bytes) (acc : str) : res str :=
  match fuel with
  | O => OutOfFuel
  | S f =>
      match rem with
      | [] => Ok acc
      | b :: r =>
          match try_lookup (t_inv t) rem (Nat.min (length rem) (t_max_bytes t)) with
          | Some ((text, None), i) => to_text_loop f t (skipn i rem) (acc ++ text)
          | Some ((text, Some k), i) =>
              do st <- ignore_bytes (Z.to_nat k) (skipn i rem) (acc ++ text);
              to_text_loop f t (fst st) (snd st)
          | None => to_text_loop f t r (acc ++ raw_byte_text b)
          end
      end
  end.

Definition to_text (t : table) (binary : bytes) : res str :=
  to_text_loop (S (length binary)) t binary [].

(** Scope.get_table: the scope chain from the current scope outwards to the root. *)
Fixpoint get_table (chain : list (option table)) : option table :=
  match chain with
  | [] => None
  | Some t :: _ => Some t
  | None :: parents => get_table parents
  end.

(** TextNode.binary_text (table captured at construction), AbstractTextNode.pc_after / emit. *)
Definition binary_text (tbl : option table) (text : str) : res bytes :=
  match tbl with
  | None => Err ENode
  | Some t => to_bytes t text
  end.
Definition text_emit (tbl : option table) (text : str) : res bytes := binary_text tbl text.
Definition text_pc_after (b : bus) (tbl : option table) (text : str) (pc : Z) : res Z :=
  do bs <- binary_text tbl text; addr_add b pc (Z.of_nat (length bs)).

(** Code generation restricted to the statements C18 talks about: [.table], [.text], [{ … }].
    State = scope chain (current first).  TableNode.__init__ sets current_scope.table (a failing
    Table(path) aborts code generation); TextNode.__init__ captures get_table(); a compound
    statement pushes a fresh scope and restores the parent afterwards. *)
Inductive stmt :=
| STable (entries : list entry)
| SText (s : str)
| SBlock (body : list stmt).

Definition text_node : Type := (option table * str)%type.

Definition set_current_table (chain : list (option table)) (t : table) : list (option table) :=
  match chain with
  | [] => []
  | _ :: parents => Some t :: parents
  end.

Fixpoint gen_stmt (st : stmt) (chain : list (option table)) : res (list (option table) * list text_node) :=
  match st with
  | STable es => do t <- table_of_entries es; Ok (set_current_table chain t, [])
  | SText s => Ok (chain, [(get_table chain, s)])
  | SBlock body =>
      do r <- (fix go (l : list stmt) (ch : list (option table)) : res (list (option table) * list text_node) :=
                 match l with
                 | [] => Ok (ch, [])
                 | x :: l' => do r1 <- gen_stmt x ch; do r2 <- go l' (fst r1); Ok (fst r2, snd r1 ++ snd r2)
                 end) body (None :: chain);
      Ok (tl (fst r), snd r)
  end.

Fixpoint gen_body (l : list stmt) (ch : list (option table)) : res (list (option table) * list text_node) :=
  match l with
  | [] => Ok (ch, [])
  | x :: l' => do r1 <- gen_stmt x ch; do r2 <- gen_body l' (fst r1); Ok (fst r2, snd r1 ++ snd r2)
  end.

(** The bytes of all text nodes in program order (the first failing node aborts the assembly). *)
Fixpoint emit_texts (nodes : list text_node) : res bytes :=
  match nodes with
  | [] => Ok []
  | (tbl, s) :: r => do b <- text_emit tbl s; do bs <- emit_texts r; Ok (b ++ bs)
  end.

(** Top level: the root scope has no table. *)
Definition assemble_texts (prog : list stmt) : res bytes :=
  do r <- gen_body prog [None]; emit_texts (snd r).
