(** M8b — loading a [.tbl] file: /repo/script/__init__.py  Table.__init__ / Table.include /
    Table.parse_table_line / Table.transform_byte_matches_to_int and the regular expression
    [table_line_regex], on the TEXT of the file.  Definitions only (proofs: Proofs/TableFileProofs.v).

    Model/Table.v models the loading "by its parsed result" (a [list entry]); this file supplies the
    missing front half:  file text -> lines -> regex match -> entry,  and ends in Model/Table.v's own
    [parse_table_line] / [include].

    table_line_regex = (?P<byte>[0-9a-fA-F]+)(?::(?P<ignore>[0-9a-fA-F]+))?\s*=(?P<text>[^\n]+)
    used with [re.match]: anchored at the start of the line only.

    Python details modelled here (all observed on CPython 3.12, see props/tblfile.py):
    - [open(path, encoding="utf-8")] reads with universal newlines: "\r\n" and a lone "\r" arrive
      as "\n" ([universal_newlines]); [readlines] then splits after every "\n" and nowhere else
      (not at U+000B, U+000C, U+001C-1E, U+0085, U+2028, U+2029, unlike str.splitlines); a BOM is NOT removed.
    - [\s] on a str pattern is Unicode white space ([is_space]); it contains "\n", so on a str with
      an inner newline (never produced by readlines) the blank run may cross it.
    - the match is deterministic although the regex engine backtracks (proved against a small
      backtracking matcher in Proofs/TableFileProofs.v): byte = the maximal hex run; the ignore
      group is taken iff ':' and at least one hex digit follow, and then it is the maximal hex run.
    - the strict zip over one shared iterator, taken twice,: ValueError exactly for an odd number of hex digits
      (raised when the list is built, i.e. before the table is touched).
    - [int(ignore)] is a DECIMAL conversion of a string of hex digits: ValueError if a letter
      occurs, and ValueError if it has more than 4300 characters (sys.int_max_str_digits default;
      leading zeros count).  It is evaluated after [add_lookup] ran: the exception leaves a
      half-updated object behind, unobservable through [Table(path)] (the constructor raised). *)
From A816 Require Export Model.Table.
Open Scope Z_scope.

(** ---- the file as text *)

(** newline=None translation of the decoded text: "\r\n" -> "\n", lone "\r" -> "\n". *)
Fixpoint universal_newlines (s : str) : str :=
  match s with
  | [] => []
  | c :: r =>
      if c =? 13 then
        10 :: match r with
              | d :: r' => if d =? 10 then universal_newlines r' else universal_newlines r
              | [] => []
              end
      else c :: universal_newlines r
  end.

(** [f.readlines()] on the translated text: every line keeps its "\n"; the last may lack it;
    the empty text has no line. *)
Fixpoint split_lines (s : str) : list str :=
  match s with
  | [] => []
  | c :: r =>
      if c =? 10 then [10] :: split_lines r
      else match split_lines r with
           | [] => [[c]]
           | l :: ls => (c :: l) :: ls
           end
  end.

(** ---- table_line_regex.match(line) *)

(** [\s] for str patterns: 9-13, 28-32, 133, 160, 5760, 8192-8202, 8232, 8233, 8239, 8287, 12288. *)
Definition is_space (c : Z) : bool :=
  ((9 <=? c) && (c <=? 13)) || ((28 <=? c) && (c <=? 32)) || (c =? 133) || (c =? 160) ||
  (c =? 5760) || ((8192 <=? c) && (c <=? 8202)) || (c =? 8232) || (c =? 8233) || (c =? 8239) ||
  (c =? 8287) || (c =? 12288).

(** the greedy [\s*] *)
Fixpoint skip_space (s : str) : str :=
  match s with
  | [] => []
  | c :: r => if is_space c then skip_space r else s
  end.

(** the greedy [[^\n]*] *)
Fixpoint take_line (s : str) : str :=
  match s with
  | [] => []
  | c :: r => if c =? 10 then [] else c :: take_line r
  end.

(** [\s*=(?P<text>[^\n]+)] after the byte / ignore groups; '=' = 61. *)
Definition match_tail (byte : str) (ign : option str) (s : str) : option (str * option str * str) :=
  match skip_space s with
  | [] => None
  | c :: r =>
      if c =? 61 then
        match take_line r with
        | [] => None
        | t => Some (byte, ign, t)
        end
      else None
  end.

(** Some (group "byte", group "ignore", group "text"); ':' = 58.  [span_hex] is Model/Table.v's
    maximal hex run. *)
Definition match_table_line (line : str) : option (str * option str * str) :=
  match span_hex line with
  | ([], _) => None
  | (b, rest) =>
      match rest with
      | c :: r2 =>
          if c =? 58 then
            match span_hex r2 with
            | ([], _) => None         (* ':' without digits: the group is skipped and [\s*=] meets ':' *)
            | (g, r3) => match_tail b (Some g) r3
            end
          else match_tail b None rest
      | [] => None
      end
  end.

(** ---- parse_table_line *)

(** transform_byte_matches_to_int: pairs of hex digits, ValueError on an odd count. *)
Fixpoint hex_pairs (s : str) : res bytes :=
  match s with
  | [] => Ok []
  | a :: r =>
      match r with
      | [] => Err EValue
      | b :: r' => do bs <- hex_pairs r'; Ok ((hex_digit_value a * 16 + hex_digit_value b) :: bs)
      end
  end.

Definition is_dec_digit (c : Z) : bool := (48 <=? c) && (c <=? 57).
Definition int10 (ds : str) : Z := fold_left (fun a d => a * 10 + (d - 48)) ds 0.
Definition int_max_str_digits : nat := 4300.
(** [int(g)] for a non-empty string of hex digits *)
Definition int_dec (g : str) : res Z :=
  if forallb is_dec_digit g && (length g <=? int_max_str_digits)%nat then Ok (int10 g) else Err EValue.

(** [text.replace("\\n", "\n")]: left to right, non-overlapping; '\' = 92, 'n' = 110. *)
Fixpoint unescape (s : str) : str :=
  match s with
  | [] => []
  | a :: r =>
      match r with
      | [] => [a]
      | b :: r' => if (a =? 92) && (b =? 110) then 10 :: unescape r' else a :: unescape r
      end
  end.

(** the entry a line stands for: Ok None = no match *)
Definition parse_line (line : str) : res (option entry) :=
  match match_table_line line with
  | None => Ok None
  | Some (b, ig, txt) =>
      do code <- hex_pairs b;
      do k <- match ig with
              | None => Ok None
              | Some g => do v <- int_dec g; Ok (Some v)
              end;
      Ok (Some (unescape txt, code, k))
  end.

(** Table.parse_table_line(line) (the name [parse_table_line] is Model/Table.v's update by an entry) *)
Definition parse_table_line_text (t : table) (line : str) : res table :=
  do oe <- parse_line line;
  Ok (match oe with Some e => parse_table_line t e | None => t end).

(** ---- Table.include / Table(path) *)

Fixpoint parse_lines (t : table) (ls : list str) : res table :=
  match ls with
  | [] => Ok t
  | l :: r => do t1 <- parse_table_line_text t l; parse_lines t1 r
  end.

(** the two [max(...)] lines of [include] *)
Definition finish_include (t1 : table) : res table :=
  do mb <- max_len (map snd (t_lookup t1));
  do mt <- max_len (map fst (t_lookup t1));
  Ok {| t_lookup := t_lookup t1; t_inv := t_inv t1; t_max_bytes := mb; t_max_text := mt |}.

(** [s] = the text as [f.readlines()] sees it (already newline-translated) *)
Definition include_text (t : table) (s : str) : res table :=
  do t1 <- parse_lines t (split_lines s); finish_include t1.
Definition table_of_text (s : str) : res table := include_text empty_table s.

(** the entries of a text, in line order (first failing line aborts) *)
Fixpoint entries_of_lines (ls : list str) : res (list entry) :=
  match ls with
  | [] => Ok []
  | l :: r =>
      do oe <- parse_line l;
      do es <- entries_of_lines r;
      Ok (match oe with Some e => e :: es | None => es end)
  end.
Definition entries_of_text (s : str) : res (list entry) := entries_of_lines (split_lines s).

(** [raw] = the decoded characters of the file as written on disk (may contain "\r") *)
Definition include_file (t : table) (raw : str) : res table := include_text t (universal_newlines raw).
Definition table_of_file (raw : str) : res table := include_file empty_table raw.

(** ---- a printer for well-formed lines (used by the round-trip theorems and the harness) *)

Definition hex_digit_char (up : bool) (d : Z) : Z :=
  if d <? 10 then 48 + d else if up then 55 + d else 87 + d.
(** two digits per byte; [ups] chooses upper case digit by digit (missing = lower case) *)
Fixpoint render_hex (ups : list bool) (code : bytes) : str :=
  match code with
  | [] => []
  | b :: r =>
      hex_digit_char (nth 0 ups false) (b / 16) :: hex_digit_char (nth 1 ups false) (b mod 16) ::
      render_hex (skipn 2 ups) r
  end.

(** "\n" -> "\\n" *)
Fixpoint escape (s : str) : str :=
  match s with
  | [] => []
  | c :: r => if c =? 10 then 92 :: 110 :: escape r else c :: escape r
  end.

(** a line as the author of a table file writes it *)
Record wline := {
  w_code : bytes;              (* code bytes *)
  w_upper : list bool;         (* case of the hex digits *)
  w_ignore : option str;       (* the digits after ':' *)
  w_blanks : str;              (* between the number(s) and '=' *)
  w_text : str }.              (* the text, raw newlines allowed (they are written as \n) *)

Definition render_line (w : wline) : str :=
  render_hex (w_upper w) (w_code w) ++
  (match w_ignore w with Some ds => 58 :: ds | None => [] end) ++
  w_blanks w ++ [61] ++ escape (w_text w).

Definition entry_of (w : wline) : entry :=
  (w_text w, w_code w, option_map int10 (w_ignore w)).

(** no two-character sequence backslash,'n' in the text: exactly the texts that survive
    escape / unescape (Proofs: [unescape_escape_iff]) *)
Fixpoint no_bs_n (s : str) : bool :=
  match s with
  | [] => true
  | a :: r =>
      match r with
      | [] => true
      | b :: _ => negb ((a =? 92) && (b =? 110)) && no_bs_n r
      end
  end.

Definition nonempty {A} (l : list A) : bool := match l with [] => false | _ => true end.

Definition wf_ignore (o : option str) : bool :=
  match o with
  | None => true
  | Some ds => nonempty ds && forallb is_dec_digit ds && (length ds <=? int_max_str_digits)%nat
  end.

(** well-formed as ONE line handed to parse_table_line *)
Definition wf_line (w : wline) : bool :=
  nonempty (w_code w) && forallb byte_ok (w_code w) && wf_ignore (w_ignore w) &&
  forallb is_space (w_blanks w) && nonempty (w_text w) && no_bs_n (w_text w).

(** ... and as a line of a file: the blanks must not contain the line end *)
Definition wf_file_line (w : wline) : bool := wf_line w && negb (mem_z 10 (w_blanks w)).
(** ... and of a file on disk: no "\r" either (it would be read as a line end) *)
Definition wf_disk_line (w : wline) : bool :=
  wf_file_line w && negb (mem_z 13 (w_blanks w)) && negb (mem_z 13 (w_text w)).

Definition render_file (ws : list wline) : str := concat (map (fun w => render_line w ++ [10]) ws).

(** str(k) for k >= 0 *)
Fixpoint dec_digits_aux (fuel : nat) (k : Z) (acc : str) : str :=
  match fuel with
  | O => acc
  | S f => if k <? 10 then (48 + k) :: acc else dec_digits_aux f (k / 10) ((48 + k mod 10) :: acc)
  end.
Definition dec_digits (k : Z) : str := dec_digits_aux (S (Z.to_nat (Z.log2 k))) k [].

(** the canonical line of an entry: lower case, no blanks, "str(k)" *)
Definition canonical_line (e : entry) : wline :=
  {| w_code := e_code e; w_upper := []; w_ignore := option_map dec_digits (e_ignore e);
     w_blanks := []; w_text := e_text e |}.

Definition wf_entry (e : entry) : bool :=
  nonempty (e_code e) && forallb byte_ok (e_code e) &&
  (match e_ignore e with
   | None => true
   | Some k => (0 <=? k) && (length (dec_digits k) <=? int_max_str_digits)%nat
   end) &&
  nonempty (e_text e) && no_bs_n (e_text e) && negb (mem_z 13 (e_text e)).
