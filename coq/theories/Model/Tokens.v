(** Tokens and positions: mirrors a816/parse/tokens.py (TokenType, Token, Position). *)
From A816 Require Export Base.Prelude.

Inductive ttype :=
| T_EOF | T_COMMENT | T_LABEL | T_IDENTIFIER | T_QUOTED_STRING | T_OPERATOR | T_LPAREN | T_RPAREN
| T_SHARP | T_RBRAKET | T_LBRAKET | T_RBRACE | T_LBRACE | T_ADDRESSING_MODE_INDEX | T_OPCODE_SIZE
| T_OPCODE_NAKED | T_OPCODE | T_COMMA | T_KEYWORD | T_NUMBER | T_STAR_EQ | T_AT_EQ | T_EQUAL
| T_ASSIGN | T_DOUBLE_LBRACE | T_DOUBLE_RBRACE | T_BOOLEAN | T_TYPE.

(** Numbering used by the harness when it ships token streams (order of the Python enum). *)
Definition ttype_code (t : ttype) : Z :=
  match t with
  | T_EOF => 1 | T_COMMENT => 2 | T_LABEL => 3 | T_IDENTIFIER => 4 | T_QUOTED_STRING => 5
  | T_OPERATOR => 6 | T_LPAREN => 7 | T_RPAREN => 8 | T_SHARP => 9 | T_RBRAKET => 10
  | T_LBRAKET => 11 | T_RBRACE => 12 | T_LBRACE => 13 | T_ADDRESSING_MODE_INDEX => 14
  | T_OPCODE_SIZE => 15 | T_OPCODE_NAKED => 16 | T_OPCODE => 17 | T_COMMA => 18 | T_KEYWORD => 19
  | T_NUMBER => 20 | T_STAR_EQ => 21 | T_AT_EQ => 22 | T_EQUAL => 23 | T_ASSIGN => 24
  | T_DOUBLE_LBRACE => 25 | T_DOUBLE_RBRACE => 26 | T_BOOLEAN => 29 | T_TYPE => 30
  end.
Definition ttype_eqb (a b : ttype) : bool := Z.eqb (ttype_code a) (ttype_code b).

(** [t_pos = None] models a Token built without a Position (the parser's synthetic EOF,
    the number tokens made by [.for]).  [tp_file] is the name given to [Scanner.scan]. *)
Record tpos := { tp_line : Z; tp_col : Z; tp_file : str }.
Record token := { t_type : ttype; t_value : str; t_pos : option tpos }.

Definition mk_token (ty : ttype) (v : str) : token := {| t_type := ty; t_value := v; t_pos := None |}.
Definition eof_token : token := mk_token T_EOF [].

(** Token.__eq__ compares type and value only. *)
Definition token_eqb (a b : token) : bool :=
  ttype_eqb (t_type a) (t_type b) && str_eqb (t_value a) (t_value b).
