(** Whole-assembly cases shared by the properties that run programs (C02, C03, C05, C07-C10, ...):
    the world built from shipped files and the regenerated live tables, the model run, and the
    comparison with the implementation's observed output. *)
From A816 Require Export Model.Codegen Oracle.Obs Oracle.AstShip.
Open Scope Z_scope.

(** The live tables of one run (Run.GenBuses / Run.GenOpcodes). *)
Record tables := {
  t_low : bus; t_high : bus; t_busmap : list (Z * bool);   (* RomType value -> is low_rom_bus *)
  t_optable : optable; t_prec : prectab
}.

Definition romtype_code (t : romtype) : Z := match t with LowRom => 0 | LowRom2 => 1 | HighRom => 2 end.
Fixpoint assoc_z {V} (l : list (Z * V)) (k : Z) : option V :=
  match l with [] => None | (k', v) :: r => if k =? k' then Some v else assoc_z r k end.
Definition builtin_bus (t : tables) (rt : romtype) : res bus :=
  match assoc_z (t_busmap t) (romtype_code rt) with
  | Some true => Ok (t_low t)
  | Some false => Ok (t_high t)
  | None => Err EKey
  end.

(** Files the program may open, by the path written in the source. *)
Record files := {
  f_bin : list (str * bytes);                           (* .incbin *)
  f_tables : list (str * res (str -> res bytes));       (* .table: loaded table's to_bytes (or load error) *)
  f_ips : list (str * (Z -> res (list (Z * bytes))))    (* .include_ips: reader applied to the file's bytes *)
}.
Definition no_files : files := {| f_bin := []; f_tables := []; f_ips := [] |}.

Definition mk_world (t : tables) (f : files) : world :=
  {| w_builtin := builtin_bus t;
     w_optable := t_optable t;
     w_prec := t_prec t;
     w_incbin := fun p => match assoc_str (f_bin f) p with Some b => Ok b | None => Err EFile end;
     w_table := fun p => match assoc_str (f_tables f) p with Some r => r | None => Err EFile end;
     w_ips := fun p d => match assoc_str (f_ips f) p with Some rd => rd d | None => Err EFile end |}.

(** One assembly: ROM type set before assembling (Program._use_mapping), [-D]-style constants
    pre-bound in the root scope, the AST exported from the real parser. *)
Record asmcase := {
  ac_rom : option romtype;
  ac_defs : list (str * Z);
  ac_files : files;
  ac_prog : list ast
}.

Definition initial_state (w : world) (c : asmcase) : res rstate :=
  do r <- resolver_init w;
  let r1 := fold_left (fun r kv => add_symbol r (fst kv) (snd kv)) (ac_defs c) r in
  Ok (match ac_rom c with Some t => set_rom r1 t | None => r1 end).

Definition run_model (t : tables) (c : asmcase) : res output :=
  let w := mk_world t (ac_files c) in
  do r <- initial_state w c;
  assemble_ast w r (ac_prog c).

(** What the harness observes: writer calls (bytes, address) and get_all_labels(). *)
Definition asmobs := (list (bytes * Z) * list (str * Z))%type.

Definition wblock_eqb (a b : bytes * Z) : bool := bytes_eqb (fst a) (fst b) && (snd a =? snd b).
Definition label_eqb (a b : str * Z) : bool := str_eqb (fst a) (fst b) && (snd a =? snd b).
Definition asmobs_eqb (a b : asmobs) : bool :=
  list_eqb wblock_eqb (fst a) (fst b) && list_eqb label_eqb (snd a) (snd b).

Definition model_obs (t : tables) (c : asmcase) : res asmobs :=
  do o <- run_model t c; Ok (o_blocks o, o_labels o).

Definition corr (t : tables) (c : asmcase) (impl : obs asmobs) : bool :=
  agree asmobs_eqb (model_obs t c) impl.
