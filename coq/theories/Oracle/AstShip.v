(** Short constructors used by the harness when it ships tokens / expressions / ASTs exported
    from the real scanner and parser (harness/a816v/astexport.py). *)
From A816 Require Export Model.Ast.
Open Scope Z_scope.

Definition tk (ty : ttype) (v : str) (l c : Z) (f : str) : token :=
  {| t_type := ty; t_value := v; t_pos := Some {| tp_line := l; tp_col := c; tp_file := f |} |}.
Definition tk0 (ty : ttype) (v : str) : token := mk_token ty v.

Definition eT (t : token) : enode := {| en_kind := EK_term; en_tok := t |}.
Definition eB (t : token) : enode := {| en_kind := EK_bin; en_tok := t |}.
Definition eU (t : token) : enode := {| en_kind := EK_un; en_tok := t |}.
Definition eP (t : token) : enode := {| en_kind := EK_par; en_tok := t |}.

Definition mapargs0 : mapargs :=
  {| ma_identifier := None; ma_writable := None; ma_bank_range := None; ma_addr_range := None;
     ma_mask := None; ma_mirror_bank_range := None |}.
