(** C01 case type, correspondence check and spec oracle.

    A case is one instruction statement, described by (mnemonic as written, operand shape,
    size suffix, operand value), assembled alone at 0x008000 under LoROM; the harness ships
    the real parser's OpcodeAstNode (mode, index, size, opcode) and the blocks the writer
    received.

    - correspondence bit: [opnode_length]/[opnode_emit] of Model/Opcode.v, run on the live table
      and the exported AST, must give the implementation's blocks / rejection;
    - oracle bit: computed from the DESCRIPTOR through Spec/Isa65816.v and Spec/SupportedSet.v
      only (never through the live table or the model). *)
From A816 Require Export Spec.Isa65816 Spec.SupportedSet Model.Opcode Oracle.Obs.
Open Scope Z_scope.

Record ast_view := AV { av_mode : amode; av_idx : option str; av_size : option vsize; av_opcode : str }.

Record case := C {
  c_mn : str;                       (* mnemonic as written (any letter case) *)
  c_shape : opshape;
  c_suffix : option vsize;
  c_val : Z;                        (* value of the operand expression (0 for implied) *)
  c_ast : obs ast_view;             (* MZParser.parse_as_ast: the statement's OpcodeAstNode *)
  c_impl : obs (list (Z * bytes))   (* write_block calls: (file offset, bytes) *)
}.

(** ------------------------------------------------------------------ correspondence *)

(** codegen.generate_opcode: the index reaches the OpcodeNode only for the indexed modes; no
    value node for AddressingMode.none. *)
Definition is_indexed_mode (m : amode) : bool :=
  match m with
  | M_direct_indexed | M_indirect_indexed | M_indirect_indexed_long
  | M_dp_or_sr_indirect_indexed | M_stack_indexed_indirect_indexed => true
  | _ => false
  end.
Definition cg_index (m : amode) (idx : option str) : option str :=
  if is_indexed_mode m then idx else None.
Definition cg_value (m : amode) (v : Z) : option (res Z) :=
  match m with M_none => None | _ => Some (Ok v) end.

(** The program is [*=0x008000] + the statement: both label passes call [pc_after] (which
    needs the emitter and the operand width), then [emit] runs at file offset 0. *)
Definition model_blocks (t : optable) (low : bus) (a : ast_view) (v : Z) : res (list (Z * bytes)) :=
  let opc := str_lower (av_opcode a) in
  let idx := cg_index (av_mode a) (av_idx a) in
  let ev := cg_value (av_mode a) v in
  do _ <- opnode_length t opc (av_mode a) idx ev (av_size a);
  do bs <- opnode_emit t opc (av_mode a) idx ev (av_size a)
             {| rc_bus := low; rc_pc := 0; rc_reloc := 32768 |};
  Ok [(0, bs)].

Definition block_eqb (x y : Z * bytes) : bool := (fst x =? fst y) && bytes_eqb (snd x) (snd y).
Definition blocks_eqb : list (Z * bytes) -> list (Z * bytes) -> bool := list_eqb block_eqb.

Definition corr_ok (t : optable) (low : bus) (c : case) : bool :=
  match c_ast c with
  | OOk a => agree blocks_eqb (model_blocks t low a (c_val c)) (c_impl c)
  | OErr _ => obs_is_err (c_impl c)        (* the parser rejected: so must the assembler *)
  | OTimeout => false
  end.

(** ------------------------------------------------------------------ spec oracle *)

(** The syntactic shape written back as the (mode, index) key of the supported set. *)
Definition shape_key (sh : opshape) : option (amode * option str) :=
  match sh with
  | ShImplied => Some (M_none, None)
  | ShImm => Some (M_immediate, None)
  | ShDir => Some (M_direct, None)
  | ShDirX => Some (M_direct_indexed, Some ix)
  | ShDirY => Some (M_direct_indexed, Some iy)
  | ShDirS => Some (M_direct_indexed, Some is_)
  | ShInd => Some (M_indirect, None)
  | ShIndY => Some (M_indirect_indexed, Some iy)
  | ShLng => Some (M_indirect_long, None)
  | ShLngY => Some (M_indirect_indexed_long, Some iy)
  | ShXInd => Some (M_dp_or_sr_indirect_indexed, Some ix)
  | ShSIndY => Some (M_stack_indexed_indirect_indexed, Some iy)
  | ShBad => None
  end.
Definition pinned_desc (m : str) (sh : opshape) (k : pkind) : bool :=
  match shape_key sh with
  | Some (md, idx) => is_pinned (str_lower m) (P md idx k)
  | None => false
  end.

(** Operand widths the statement may be assembled with: the suffix; else the smallest that
    holds the non-negative value.  (The property does not say what the width of a negative
    operand without suffix is: any of the three is tolerated there.) *)
Definition widths (suffix : option vsize) (v : Z) : list vsize :=
  match suffix with
  | Some s => [s]
  | None => match natural_width v with
            | Some w => [w]
            | None => if v <? 0 then [SzB; SzW; SzL] else []
            end
  end.

Definition opt_list {A} (o : option A) : list A := match o with Some a => [a] | None => [] end.

Definition single_block (o : obs (list (Z * bytes))) : option bytes :=
  match o with OOk [(0, bs)] => Some bs | _ => None end.

(** Must a representable operand be accepted?  A 3-byte operand must fit 24 bits. *)
Definition representable (w : vsize) (v : Z) : bool :=
  match w with SzL => (0 <=? v) && (v <? 16777216) | _ => true end.

Definition spec_plain (m : str) (sh : opshape) (suffix : option vsize) (v : Z)
           (impl : obs (list (Z * bytes))) : bool :=
  let ws := widths suffix v in
  let valid := flat_map (fun w => opt_list (isa_expected m sh w v)) ws in
  match impl with
  | OOk _ =>
      (* accepted: exactly the ISA encoding for that shape and width, and nothing else *)
      match single_block impl with
      | Some bs => existsb (bytes_eqb bs) valid
      | None => false
      end
  | OErr _ =>
      (* rejected: not allowed for a combination of the supported set *)
      negb (match ws with
            | [w] => pinned_desc m sh (PWidth w) && representable w v
            | _ => false
            end)
  | OTimeout => false
  end.

Definition spec_implied (m : str) (suffix : option vsize) (impl : obs (list (Z * bytes))) : bool :=
  match impl with
  | OOk _ =>
      match suffix, isa_implied m, single_block impl with
      | None, Some b, Some bs => bytes_eqb bs [b]
      | _, _, _ => false
      end
  | OErr _ => negb (match suffix with None => pinned_desc m ShImplied PNoOperand | Some _ => false end)
  | OTimeout => false
  end.

(** Relative branches belong to C05; here only: a branch mnemonic is accepted in the direct
    shape alone, as [opcode; displacement], and for a target in the same 32K window the
    displacement is target - (0x8000 + 2), in range. *)
Definition spec_rel (m : str) (b : Z) (sh : opshape) (suffix : option vsize) (v : Z)
           (impl : obs (list (Z * bytes))) : bool :=
  let in_window := (32768 <=? v) && (v <=? 65535) in
  let d := v - 32770 in
  let in_range := (-128 <=? d) && (d <=? 127) in
  match impl with
  | OOk _ =>
      match sh, single_block impl with
      | ShDir, Some [b'; d'] =>
          (b' =? b) && (0 <=? d') && (d' <? 256) && (negb in_window || (in_range && (d' =? d mod 256)))
      | _, _ => false
      end
  | OErr _ =>
      negb (match sh, suffix with
            | ShDir, None => pinned_desc m ShDir PRel && in_window && in_range
            | _, _ => false
            end)
  | OTimeout => false
  end.

Definition spec_ok (c : case) : bool :=
  let m := str_upper (c_mn c) in
  match isa_rel8 m with
  | Some b => spec_rel m b (c_shape c) (c_suffix c) (c_val c) (c_impl c)
  | None =>
      match c_shape c with
      | ShImplied => spec_implied m (c_suffix c) (c_impl c)
      | sh => spec_plain m sh (c_suffix c) (c_val c) (c_impl c)
      end
  end.

Definition check (t : optable) (low : bus) (c : case) : bool * bool := (corr_ok t low c, spec_ok c).

Definition model_view (t : optable) (low : bus) (c : case) :=
  (match c_ast c with OOk a => model_blocks t low a (c_val c) | _ => Err EParse end,
   map (fun w => (w, isa_expected (str_upper (c_mn c)) (c_shape c) w (c_val c))) (widths (c_suffix c) (c_val c)),
   isa_implied (str_upper (c_mn c))).
