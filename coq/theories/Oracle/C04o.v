(** C04 case type, correspondence check and spec oracle. *)
From A816 Require Export Spec.BusLaws Oracle.Obs.
Open Scope Z_scope.

(** One [Bus.map] call as the harness performs it. *)
Record mapstep := { ms_id : str; ms_lo : Z; ms_hi : Z; ms_mask : Z; ms_writable : bool;
                    ms_mirror : option (Z * Z) }.
Inductive busdesc := BLow | BHigh | BUser (steps : list mapstep).

Definition model_bus (low high : bus) (d : busdesc) : res bus :=
  match d with
  | BLow => Ok low
  | BHigh => Ok high
  | BUser steps =>
      fold_left (fun rb s => do b <- rb;
                   bus_map b (ms_id s) (ms_lo s, ms_hi s) (ms_mask s) (ms_writable s) (ms_mirror s))
                steps (Ok empty_bus)
  end.

Inductive case :=
| CPhys (d : busdesc) (a : Z) (impl : obs (option Z))     (* Address(bus, a).physical *)
| CAdd (d : busdesc) (a n : Z) (impl : obs Z).            (* (Address(bus, a) + n).logical_value *)

(** Specification-side lookup, independent of the model's bus representation: the range that
    owns a bank is the one assigned last (a mirror is assigned after its primary). *)
Inductive srange := SR (lo hi mask : Z) (ram : bool).
Definition sr_has (r : srange) (bank : Z) : bool := let '(SR lo hi _ _) := r in (lo <=? bank) && (bank <=? hi).
Definition step_ranges (s : mapstep) : list srange :=
  SR (ms_lo s) (ms_hi s) (ms_mask s) (ms_writable s) ::
  match ms_mirror s with Some (a, b) => [SR a b (ms_mask s) (ms_writable s)] | None => [] end.
Definition spec_ranges (d : busdesc) : list srange :=
  match d with
  | BLow => [SR 0 111 32768 false; SR 128 207 32768 false; SR 126 127 65536 true]
  | BHigh => [SR 64 127 65536 false; SR 192 255 65536 false; SR 126 127 65536 true]
  | BUser steps => flat_map step_ranges steps
  end.
Definition owner (d : busdesc) (bank : Z) : option srange :=
  fold_left (fun acc r => if sr_has r bank then Some r else acc) (spec_ranges d) None.

Definition sr_offset (r : srange) (a : Z) : option Z :=
  let '(SR lo _ mask ram) := r in
  if ram then None
  else if 65536 - mask <=? a mod 65536 then Some ((a / 65536 - lo) * mask + (a mod 65536 - (65536 - mask)))
  else None.   (* out of the window: the property says nothing *)
Definition sr_ram (r : srange) : bool := let '(SR _ _ _ ram) := r in ram.
Definition sr_size (r : srange) : Z := let '(SR lo hi mask _) := r in (hi - lo + 1) * mask.
Definition sr_eqb (x y : srange) : bool :=
  let '(SR a b c d) := x in let '(SR a' b' c' d') := y in
  (a =? a') && (b =? b') && (c =? c') && Bool.eqb d d'.
Definition masks_ok (d : busdesc) : bool :=
  forallb (fun r => let '(SR _ _ mask _) := r in (mask =? 32768) || (mask =? 65536)) (spec_ranges d).

(** The laws are stated for buses whose ranges carry distinct identifiers (re-using an
    identifier silently re-parameterises the banks mapped under it earlier). *)
Fixpoint ids_unique (ids : list str) : bool :=
  match ids with
  | [] => true
  | i :: r => negb (existsb (str_eqb i) r) && ids_unique r
  end.
Definition in_scope (d : busdesc) : bool :=
  masks_ok d &&
  match d with
  | BUser steps => ids_unique (flat_map (fun s => [ms_id s; ms_id s ++ mirror_suffix]) steps)
  | _ => true
  end.

Definition spec_ok (c : case) : bool :=
  match c with
  | CPhys d a impl =>
      negb (in_scope d) ||
      match owner d (a / 65536) with
      | None => obs_is_err impl                             (* unmapped banks are rejected *)
      | Some r =>
          if sr_ram r then match impl with OOk None => true | _ => false end
          else match sr_offset r a with
               | Some p => match impl with OOk (Some q) => p =? q | _ => false end
               | None => true
               end
      end
  | CAdd d a n impl =>
      negb (in_scope d) ||
      match owner d (a / 65536) with
      | None => obs_is_err impl
      | Some r =>
          if sr_ram r then
            match owner d ((a + n) / 65536) with
            | None => obs_is_err impl
            | Some _ => match impl with OOk a' => a' =? a + n | _ => false end
            end
          else match sr_offset r a with
               | None => true
               | Some p =>
                   if (0 <=? p + n) && (p + n <? sr_size r) then
                     match impl with
                     | OOk a' =>
                         match owner d (a' / 65536) with
                         | Some r' =>
                             (* the result has offset p + n in the source range; when its bank belongs to the
                                same range this is its real file offset ("in the same primary/mirror range").  A
                                bank of the source range that a LATER map re-assigned (HiROM 0x7E/0x7F, owned by
                                the RAM mapping) is not "inside the mapped range" of the quantifier: the code
                                accepts such an advance silently (Proofs/CoversSub.v, bus_advance_leaves) and
                                nothing is asserted about it here. *)
                             match sr_offset r a' with
                             | Some q => q =? p + n
                             | None => false
                             end
                         | None => false
                         end
                     | _ =>
                         (* the implementation may only reject when the target bank now
                            belongs to nobody or the arithmetic left the range *)
                         false
                     end
                   else true
               end
      end
  end.

Definition check (low high : bus) (c : case) : bool * bool :=
  let corr :=
    match c with
    | CPhys d a impl => agree opt_z_eqb (do b <- model_bus low high d; addr_physical b a) impl
    | CAdd d a n impl => agree Z.eqb (do b <- model_bus low high d; addr_add b a n) impl
    end in
  (corr, spec_ok c).

Definition model_view (low high : bus) (c : case) : res (option Z) * res Z :=
  match c with
  | CPhys d a _ => (do b <- model_bus low high d; addr_physical b a, Err EOther)
  | CAdd d a n _ => (Err EOther, do b <- model_bus low high d; addr_add b a n)
  end.

(** ** Exhaustive sweeps (thorough tier): one case = one bank of 65536 addresses, compared through
    an order-sensitive checksum of the results (value + 2, 1 for "no offset", 0 for "rejected"). *)
Definition sweep_prime : Z := 2147483629.
Inductive sweepfn := SwPhys | SwAdd (n : Z).

Definition code_opt (r : res (option Z)) : Z := match r with Ok (Some v) => v + 2 | Ok None => 1 | _ => 0 end.
Definition code_z (r : res Z) : Z := match r with Ok v => v + 2 | _ => 0 end.

Definition sweep_step (f : Z -> Z) (st : Z * Z) : Z * Z :=
  let '(i, acc) := st in (i + 1, (acc * 31 + (i + 1) * f i) mod sweep_prime).
Definition sweep (f : Z -> Z) (base : Z) : Z :=
  snd (Pos.iter (sweep_step (fun i => f (base + i))) (0, 0) 65536%positive).

Definition model_code (b : bus) (fn : sweepfn) (a : Z) : Z :=
  match fn with
  | SwPhys => code_opt (addr_physical b a)
  | SwAdd n => code_z (addr_add b a n)
  end.

(** the specification side of a sweep: the textbook closed forms, on the addresses the property
    speaks about (everything, except LoROM ROM addresses below the window) *)
Definition spec_phys (high : bool) (a : Z) : res (option Z) := if high then hirom_spec a else lorom_spec a.
Definition excluded (high : bool) (a : Z) : bool :=
  negb high && (a mod 65536 <? 32768) && (match lorom_spec a with Ok (Some _) => true | _ => false end).
Definition spec_code (high : bool) (a : Z) : Z := if excluded high a then 0 else code_opt (spec_phys high a).

(** [impl] = checksum of the implementation's results over the bank; [impl_in] = the same with the
    excluded addresses counted as 0 (physical only). *)
Inductive sweepcase := Sweep (high : bool) (bank : Z) (fn : sweepfn) (impl impl_in : Z).

Definition check_sweep (low high : bus) (c : sweepcase) : bool * bool :=
  let '(Sweep h bank fn impl impl_in) := c in
  let b := if h then high else low in
  (sweep (model_code b fn) (bank * 65536) =? impl,
   match fn with SwPhys => sweep (spec_code h) (bank * 65536) =? impl_in | SwAdd _ => true end).

(** Cases of both kinds in one list. *)
Inductive anycase := Plain (c : case) | Swept (c : sweepcase).
Definition check_any (low high : bus) (c : anycase) : bool * bool :=
  match c with Plain c => check low high c | Swept c => check_sweep low high c end.
