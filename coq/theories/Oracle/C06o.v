(** C06 case type, correspondence check and spec oracle.

    A tree case carries: the expression tree the harness generated (and rendered as text in its
    conventional reading), the symbol table, the flat node list the real parser built from the
    text ([expr_to_ast(text).tokens], positions dropped) and what the implementation produced in
    each context.
      correspondence bit = [flat tree] is the parser's node list, and the model
                           ([eval_expression] on the *implementation's* node list, live
                           precedence table) predicts the observation in every context;
      spec-oracle bit    = the tree is [wf] and the independent semantics [eval] of Spec/ExprSem.v
                           predicts the observation in every context.
    A bad case is a malformed text or a hand-built node list (unbalanced parentheses, trailing
    operator, junk): model and implementation must agree, and both must reject when the
    generator marked the input as one that has no value. *)
From A816 Require Export Spec.ExprSem Model.Expr Oracle.Obs.
Open Scope Z_scope.

Definition mkenv (d : list (str * Z)) : env :=
  fun s => match dict_get d s with Some v => Ok v | None => Err ESymbol end.

Definition ekind_code (k : ekind) : Z :=
  match k with EK_term => 0 | EK_bin => 1 | EK_un => 2 | EK_par => 3 end.
Definition enode_eqb (a b : enode) : bool :=
  (ekind_code (en_kind a) =? ekind_code (en_kind b)) && token_eqb (en_tok a) (en_tok b).
Definition expr_eqb : expr -> expr -> bool := list_eqb enode_eqb.

(** What was observed in one context (text T = the rendering of the tree). *)
Inductive ctxobs :=
| XStr (v : obs Z)      (* eval_expression_str(T, resolver): the exact integer *)
| XDl (v : obs Z)       (* [.dl T]: three bytes, little endian *)
| XAssign (v : obs Z)   (* [x := T] then [.dl x] *)
| XImm (v : obs Z)      (* [lda.w #T]: two operand bytes *)
| XLong (v : obs Z)     (* [lda.l T]: three operand bytes; defined for 0 <= value < 2^24 only *)
| XSym (v : obs Z)      (* [x = T] then [.dl x]: a symbol bound when the passes run *)
| XMarg (v : obs Z)     (* [.macro m(a) { .dl a }] / [m(T)]: a macro argument *)
| XIf (v : obs Z).      (* [.if T { .db 1 } else { .db 0 }]: 1 iff the value is non-zero; an undefined name is false *)

Inductive case :=
| CTree (t : sexpr) (d : list (str * Z)) (toks : obs expr) (xs : list ctxobs)
| CBad (must_reject : bool) (d : list (str * Z)) (toks : obs expr) (v : obs Z).

Definition trunc (k : Z) (r : res Z) : res Z := do z <- r; Ok (z mod 2 ^ k).

(** Does the predicted value [r] (of the model, or of the specification) match the observation? *)
Definition ctx_ok (r : res Z) (x : ctxobs) : bool :=
  match x with
  | XStr v => agree Z.eqb r v
  | XDl v | XAssign v | XSym v | XMarg v => agree Z.eqb (trunc 24 r) v
  | XIf v =>
      match r with
      | Ok z => agree Z.eqb (Ok (if z =? 0 then 0 else 1)) v
      | Err ESymbol => agree Z.eqb (Ok 0) v
      | Err _ => obs_is_err v
      | OutOfFuel => false
      end
  | XImm v => agree Z.eqb (trunc 16 r) v
  | XLong v =>
      match r with
      | Ok z => if (0 <=? z) && (z <? 2 ^ 24) then agree Z.eqb r v else true
      | _ => agree Z.eqb r v
      end
  end.

Definition check (prec : prectab) (c : case) : bool * bool :=
  match c with
  | CTree t d toks xs =>
      let corr :=
        match toks with
        | OOk l => expr_eqb (flat t) l && forallb (ctx_ok (eval_expression prec (mkenv d) l)) xs
        | _ => false
        end in
      (corr, wfb t && obs_is_ok toks && forallb (ctx_ok (eval (mkenv d) t)) xs)
  | CBad mr d toks v =>
      let corr :=
        match toks with
        | OOk l => agree Z.eqb (eval_expression prec (mkenv d) l) v
        | OErr _ => obs_is_err v
        | OTimeout => false
        end in
      (corr, negb mr || obs_is_err v)
  end.

Definition model_view (prec : prectab) (c : case) : res Z * res Z * option expr :=
  match c with
  | CTree t d toks _ =>
      (match toks with OOk l => eval_expression prec (mkenv d) l | _ => Err EOther end,
       eval (mkenv d) t, Some (flat t))
  | CBad _ d toks _ =>
      (match toks with OOk l => eval_expression prec (mkenv d) l | _ => Err EOther end, Err EOther, None)
  end.
