(** C11 case type, correspondence check (IPSWriter / SFCWriter vs Model/Ips.v, Model/Sfc.v) and
    spec oracle (the implementation's file read by the independent patcher of Spec/IpsFormat.v). *)
From A816 Require Export Spec.IpsFormat Model.Ips Model.Sfc Oracle.Obs.
Open Scope Z_scope.

(** Byte strings are shipped run-length coded, [(byte, count)], to keep case files small. *)
Definition runs := list (Z * Z).
Fixpoint expand_runs (rs : runs) : bytes :=
  match rs with
  | [] => []
  | (b, n) :: r => repeat_z b (Z.to_nat n) ++ expand_runs r
  end.

(** One writer session: begin(); write_block(bytes, address) for every block; end().
    [file]   : the bytes of the io.BytesIO file afterwards (also after an exception),
    [status] : how the session ended,
    [sfc]    : the same blocks through SFCWriter (shipped only when the image is small). *)
Inductive case :=
| CW (copier : bool) (blocks : list (Z * runs)) (file : runs) (status : obs unit) (sfc : option (obs runs)).

Definition unit_eqb (_ _ : unit) : bool := true.
Definition obs_map {A B} (f : A -> B) (o : obs A) : obs B :=
  match o with OOk a => OOk (f a) | OErr k => OErr k | OTimeout => OTimeout end.

(** *** Spec side (nothing below mentions the model). *)
Definition shift_of (copier : bool) : Z := if copier then 512 else 0.

(** A block may be refused only if one of the record starts of its 65535-byte tiling is not a
    representable offset: negative, >= 2^24, or the marker.  Closed form, no iteration. *)
Definition block_refusable (sh : Z) (b : Z * bytes) : bool :=
  let a := fst b + sh in
  let len := Z.of_nat (length (snd b)) in
  (0 <? len) &&
  ((a <? 0) || (16777216 <=? a + ((len - 1) / 65535) * 65535) ||
   ((a <=? sentinel) && ((sentinel - a) mod 65535 =? 0) && (sentinel - a <? len))).

(** Normal form of a write list: empty writes dropped, consecutive writes that are exactly
    adjacent merged.  Equal normal forms => equal effect on every image (write_at_app). *)
Fixpoint merge_writes (ws : list (Z * bytes)) : list (Z * bytes) :=
  match ws with
  | [] => []
  | (a, d) :: r =>
      match d with
      | [] => merge_writes r
      | _ =>
          match merge_writes r with
          | (a', d') :: r' =>
              if a' =? a + Z.of_nat (length d) then (a, d ++ d') :: r' else (a, d) :: (a', d') :: r'
          | [] => [(a, d)]
          end
      end
  end.
Definition write_eqb (x y : Z * bytes) : bool := (fst x =? fst y) && bytes_eqb (snd x) (snd y).
Definition extent (ws : list (Z * bytes)) : Z :=
  fold_left (fun m w => Z.max m (fst w + Z.of_nat (length (snd w)))) ws 0.
Definition nonneg_writes (ws : list (Z * bytes)) : bool :=
  forallb (fun w => (0 <=? fst w) || match snd w with [] => true | _ => false end) ws.

(** Same effect on the empty image (sound: Proofs/IpsOracleProofs.v).  Decided on normal forms;
    when these differ and both extents are small the images are computed and compared. *)
Definition writes_equiv (w1 w2 : list (Z * bytes)) : bool :=
  if nonneg_writes w1 && nonneg_writes w2 then
    if list_eqb write_eqb (merge_writes w1) (merge_writes w2) then true
    else if (extent w1 <=? 2000000) && (extent w2 <=? 2000000)
         then bytes_eqb (apply_writes w1 empty_image) (apply_writes w2 empty_image)
         else false
  else false.

Definition spec_ok (copier : bool) (blocks : list (Z * bytes)) (file : bytes) (status : obs unit)
           (sfc : option (obs bytes)) : bool :=
  let sh := shift_of copier in
  match status with
  | OOk _ =>
      match parse_ips file with
      | Ok (rs, tl) =>
          match tl with [] => true | _ => false end           (* "PATCH" records "EOF", nothing after *)
          && forallb wf_record_b rs                           (* every record valid *)
          && writes_equiv (map (fun r => (rec_off r, rec_data r)) rs)
                          (map (fun b => (fst b + sh, snd b)) blocks)
          && match sfc with                                   (* C12: flat image = patch applied to nothing *)
             | Some (OOk im) =>
                 if copier then true else bytes_eqb (apply_records rs empty_image) im
             | _ => true
             end
      | _ => false
      end
  | OErr _ => existsb (block_refusable sh) blocks             (* refusal only for unrepresentable starts *)
  | OTimeout => false
  end.

(** *** Check. *)
Definition check (c : case) : bool * bool :=
  let '(CW copier rblocks rfile status rsfc) := c in
  let blocks := map (fun b => (fst b, expand_runs (snd b))) rblocks in
  let file := expand_runs rfile in
  let sfc := match rsfc with Some o => Some (obs_map expand_runs o) | None => None end in
  let '(mfile, mstatus) := ips_session copier blocks in
  let corr :=
    bytes_eqb mfile file && agree_strict unit_eqb mstatus status &&
    match sfc with
    | Some o => agree bytes_eqb (sfc_image blocks) o
    | None => true
    end in
  (corr, spec_ok copier blocks file status sfc).

(** For replays: the model's outcome, file length and first bytes. *)
Definition model_view (c : case) : res unit * Z * bytes :=
  let '(CW copier rblocks _ _ _) := c in
  let blocks := map (fun b => (fst b, expand_runs (snd b))) rblocks in
  let '(mfile, mstatus) := ips_session copier blocks in
  (mstatus, Z.of_nat (length mfile), firstn 64 mfile).
