(** C13 case type, correspondence check (IncludeIpsNode.__init__ vs Model/Ips.v read_ips) and
    spec oracle (the same file read by the independent record parser of Spec/IpsFormat.v). *)
From A816 Require Export Spec.IpsFormat Model.Ips Oracle.Obs.
From A816 Require Oracle.Coreo.
Open Scope Z_scope.

Definition runs := list (Z * Z).
Fixpoint expand_runs (rs : runs) : bytes :=
  match rs with
  | [] => []
  | (b, n) :: r => repeat_z b (Z.to_nat n) ++ expand_runs r
  end.

(** IncludeIpsNode(path-of-[file], Resolver(), delta).blocks, or the exception. *)
Inductive case :=
| CR (file : runs) (delta : Z) (impl : obs (list (Z * runs)))
(** the directive placed inside a program: whole-assembly correspondence + the writer-protocol
    oracle of Oracle/Coreo.v (the records go out where the directive stands, at their offsets, and
    the surrounding program's blocks and offsets are what they are without it) *)
| CP (c : Coreo.ccase).

Definition write_eqb (x y : Z * bytes) : bool := (fst x =? fst y) && bytes_eqb (snd x) (snd y).
Definition blocks_eqb : list (Z * bytes) -> list (Z * bytes) -> bool := list_eqb write_eqb.
Definition obs_map {A B} (f : A -> B) (o : obs A) : obs B :=
  match o with OOk a => OOk (f a) | OErr k => OErr k | OTimeout => OTimeout end.

(** Spec side: a file that is "PATCH", valid records, "EOF" must yield every record's bytes at
    its offset + delta, in order; a file the record parser cannot read must be rejected.  (Bytes
    after the marker, zero-length runs: the property does not say - no claim.) *)
Definition spec_ok (file : bytes) (delta : Z) (impl : obs (list (Z * bytes))) : bool :=
  match parse_ips file with
  | Ok (rs, []) =>
      if forallb wf_record_b rs then
        match impl with
        | OOk bl => blocks_eqb (map (fun r => (rec_off r + delta, rec_data r)) rs) bl
        | _ => false
        end
      else true
  | Ok (_, _ :: _) => true
  | _ => obs_is_err impl
  end.

Definition check (t : Asmo.tables) (c : case) : bool * bool :=
  match c with
  | CR rfile delta rimpl =>
      let file := expand_runs rfile in
      let impl := obs_map (map (fun b => (fst b, expand_runs (snd b)))) rimpl in
      (agree_strict blocks_eqb (read_ips delta file) impl, spec_ok file delta impl)
  | CP cc => Coreo.check t cc
  end.

Definition model_view (t : Asmo.tables) (c : case) : res (list (Z * Z)) + res Asmo.asmobs :=
  match c with
  | CR rfile delta _ =>
      inl (do bl <- read_ips delta (expand_runs rfile);
           Ok (map (fun b => (fst b, Z.of_nat (length (snd b)))) bl))
  | CP cc => inr (Coreo.model_view t cc)
  end.
