(** C18 case type, correspondence check and spec oracle.
    Correspondence bit: Model/Table.v against the implementation's observed results.
    Oracle bit: the implementation's observed results against Spec/TableSpec.v (the executable
    counterparts [tokenise], [rt_table_b], [spec_texts]; proved equivalent to the inductive
    specification in Proofs/TableProofs.v).  The oracle never calls a Model/Table.v function. *)
From A816 Require Export Spec.TableSpec Oracle.Obs.
Open Scope Z_scope.

Inductive case :=
(* T = Table(file of [es]);  ib = T.to_bytes(s);  it = T.to_text(T.to_bytes(s)) *)
| CCodec (es : list entry) (s : str) (ib : obs bytes) (it : obs str)
(* Table(file of [es]).to_text(bs) *)
| CText (es : list entry) (bs : bytes) (it : obs str)
(* "*=0x008000" prog "end:" ".dl end"  through Program().assemble_string_with_emitter: write_block calls *)
| CAsm (prog : list stmt) (impl : obs (list (Z * bytes))).

Definition block_eqb (a b : Z * bytes) : bool := (fst a =? fst b) && bytes_eqb (snd a) (snd b).
Definition blocks_eqb : list (Z * bytes) -> list (Z * bytes) -> bool := list_eqb block_eqb.
Definition obs_is {A} (eqb : A -> A -> bool) (o : obs A) (x : A) : bool :=
  match o with OOk y => eqb x y | _ => false end.

(** Harness glue around the text bytes: one block at file offset 0 (LoROM 0x008000), followed
    by the three bytes of [.dl end] where [end] is the label after the last statement. *)
Definition start_address : Z := 32768.
Definition expected_blocks (bs : bytes) : list (Z * bytes) :=
  [(0, bs ++ le_bytes 3 (start_address + Z.of_nat (length bs)))].

(** ---- model side *)
Definition model_to_bytes (es : list entry) (s : str) : res bytes :=
  do t <- table_of_entries es; to_bytes t s.
Definition model_roundtrip (es : list entry) (s : str) : res str :=
  do t <- table_of_entries es; do b <- to_bytes t s; to_text t b.
Definition model_to_text (es : list entry) (bs : bytes) : res str :=
  do t <- table_of_entries es; to_text t bs.
Definition model_asm (prog : list stmt) : res (list (Z * bytes)) :=
  do bs <- assemble_texts prog; Ok (expected_blocks bs).

Definition corr (c : case) : bool :=
  match c with
  | CCodec es s ib it =>
      agree_strict bytes_eqb (model_to_bytes es s) ib && agree_strict str_eqb (model_roundtrip es s) it
  | CText es bs it => agree_strict str_eqb (model_to_text es bs) it
  | CAsm prog impl => agree_strict blocks_eqb (model_asm prog) impl
  end.

(** ---- specification side *)
Fixpoint tables_nonempty (st : stmt) : bool :=
  match st with
  | STable es => match es with [] => false | _ => true end
  | SText _ => true
  | SBlock body => forallb tables_nonempty body
  end.

(** expected bytes of a program; None = the property does not say (a text without table, an
    escape above 0xFF) *)
Fixpoint spec_bytes (nodes : list (option (list entry) * str)) : option bytes :=
  match nodes with
  | [] => Some []
  | (Some es, s) :: r =>
      match tokenise es s, spec_bytes r with
      | Some its, Some bs => Some (bytes_of its ++ bs)
      | _, _ => None
      end
  | (None, _) :: _ => None
  end.

Definition spec_ok (c : case) : bool :=
  match c with
  | CCodec es s ib it =>
      match es with
      | [] => true                                   (* an empty table file is outside the property *)
      | _ :: _ =>
          match tokenise es s with
          | None => true                             (* "[0xNNN]" above 0xFF: not covered *)
          | Some its =>
              obs_is bytes_eqb ib (bytes_of its) &&
              (* round trip for tables with unique, non-empty, prefix-free codes *)
              (if rt_table_b es && forallb not_joker_b its then obs_is str_eqb it (texts_of its) else true)
          end
      end
  | CText _ _ _ => true                              (* decoding arbitrary bytes: correspondence only *)
  | CAsm prog impl =>
      if forallb tables_nonempty prog then
        match spec_bytes (spec_texts prog) with
        | None => true
        | Some bs =>
            match impl with
            | OOk [(off, blk)] =>
                let n := length bs in
                (off =? 0) && Nat.eqb (length blk) (n + 3) &&
                bytes_eqb (firstn n blk) bs &&                                  (* emitted bytes *)
                (le_decode (skipn n blk) =? start_address + Z.of_nat n)          (* label after the text *)
            | _ => false
            end
        end
      else true
  end.

Definition check (c : case) : bool * bool := (corr c, spec_ok c).

Definition model_view (c : case) : res bytes * res str * res (list (Z * bytes)) * option (list item) :=
  match c with
  | CCodec es s _ _ => (model_to_bytes es s, model_roundtrip es s, Err EOther, tokenise es s)
  | CText es bs _ => (Err EOther, model_to_text es bs, Err EOther, None)
  | CAsm prog _ => (assemble_texts prog, Err EOther, model_asm prog, None)
  end.
