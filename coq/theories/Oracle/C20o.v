(** C20 case type, correspondence and spec oracle. *)
From A816 Require Export Model.Legacy Spec.BusLaws Oracle.Obs.
Open Scope Z_scope.

Inductive case :=
| CR2S (o : Z) (mode : romtype) (impl : obs Z)                 (* rom_to_snes(o, mode) *)
| CS2R (a : Z) (impl : obs Z)                                  (* snes_to_rom(a) *)
| CRound (o : Z) (mode : romtype) (impl : obs Z)               (* snes_to_rom(rom_to_snes(o, mode)) *)
| CLong (base p : Z) (impl : obs bytes)                        (* long_low_rom_pointer(base)(p) *)
| CRel (base : Z) (v : bytes) (impl : obs Z)                   (* base_relative_16bits_pointer_formula(base)(v) *)
| CBus (o : Z) (mode : romtype) (impl : obs (option Z)).       (* the assembler's own bus: get_address(rom_to_snes(o, mode)).physical *)

(** Independent specification: the textbook address of a file offset. *)
Definition textbook (o : Z) (mode : romtype) : Z :=
  match mode with
  | LowRom => (o / 32768) * 65536 + 32768 + o mod 32768
  | LowRom2 => (128 + o / 32768) * 65536 + 32768 + o mod 32768
  | HighRom => (192 + o / 65536) * 65536 + o mod 65536
  end.
Definition in_range (o : Z) (mode : romtype) : bool :=
  (0 <=? o) && match mode with LowRom => o <? 3670016 | LowRom2 => o <? 2621440 | HighRom => o <? 4194304 end.
Definition spec_phys (mode : romtype) (a : Z) : res (option Z) :=
  match mode with HighRom => hirom_spec a | _ => lorom_spec a end.

Definition spec_ok (c : case) : bool :=
  match c with
  | CR2S o mode impl =>
      negb (in_range o mode) ||
      match impl with
      | OOk a => (a =? textbook o mode) &&
                 match spec_phys mode a with Ok (Some p) => p =? o | _ => false end
      | _ => false
      end
  | CS2R a impl => true         (* constrained through CRound *)
  | CRound o mode impl =>
      negb (in_range o mode) ||
      match mode with
      | LowRom2 => negb (o <? 2097152) || match impl with OOk o' => o' =? o | _ => false end
      | _ => match impl with OOk o' => o' =? o | _ => false end
      end
  | CLong base p impl =>
      negb ((0 <=? base + p) && (base + p <? 3670016)) ||
      match impl with
      | OOk bs => let a := textbook (base + p) LowRom in
                  bytes_eqb bs [a mod 256; (a / 256) mod 256; (a / 65536) mod 256]
      | _ => false
      end
  | CRel base v impl =>
      match v with
      | b0 :: b1 :: _ => match impl with OOk x => x =? b0 + 256 * b1 + base | _ => false end
      | _ => true
      end
  | CBus o mode impl =>
      (* "the address whose mapped file offset is that offset": asked of the live mapping the assembler uses *)
      negb (in_range o mode) || match impl with OOk (Some p) => p =? o | _ => false end
  end.

Definition check (c : case) : bool * bool :=
  let corr :=
    match c with
    | CR2S o mode impl => agree Z.eqb (Ok (rom_to_snes o mode)) impl
    | CS2R a impl => agree Z.eqb (Ok (snes_to_rom a)) impl
    | CRound o mode impl => agree Z.eqb (Ok (snes_to_rom (rom_to_snes o mode))) impl
    | CLong base p impl => agree bytes_eqb (long_low_rom_pointer base p) impl
    | CRel base v impl => agree Z.eqb (base_relative_16bits_pointer base v) impl
    | CBus _ _ _ => true     (* the live bus is regenerated from the implementation itself (C20_live ties it to the spec) *)
    end in
  (corr, spec_ok c).

(** ** Exhaustive sweeps (thorough tier): one case = 65536 consecutive offsets, compared through an
    order-sensitive checksum. *)
Definition sweep_prime : Z := 2147483629.
Definition sweep_step (f : Z -> Z) (st : Z * Z) : Z * Z :=
  let '(i, acc) := st in (i + 1, (acc * 31 + (i + 1) * f i) mod sweep_prime).
Definition sweep (f : Z -> Z) (base : Z) : Z :=
  snd (Pos.iter (sweep_step (fun i => f (base + i))) (0, 0) 65536%positive).

Inductive sweepfn := SwR2S | SwRound.
Definition model_code (mode : romtype) (fn : sweepfn) (o : Z) : Z :=
  match fn with SwR2S => rom_to_snes o mode | SwRound => snes_to_rom (rom_to_snes o mode) end.
(** specification: the textbook address of the offset; the round trip gives the offset back (second
    LoROM variant: below 0x200000 only, 0 = "not specified" above) *)
Definition spec_code (mode : romtype) (fn : sweepfn) (o : Z) : Z :=
  if negb (in_range o mode) then 0
  else match fn with
       | SwR2S => textbook o mode
       | SwRound => match mode with LowRom2 => if o <? 2097152 then o else 0 | _ => o end
       end.

(** [impl] checksum of the raw results; [impl_in] with the unspecified offsets counted as 0. *)
Inductive sweepcase := Sweep (mode : romtype) (chunk : Z) (fn : sweepfn) (impl impl_in : Z).
Definition check_sweep (c : sweepcase) : bool * bool :=
  let '(Sweep mode chunk fn impl impl_in) := c in
  (sweep (model_code mode fn) (chunk * 65536) =? impl, sweep (spec_code mode fn) (chunk * 65536) =? impl_in).

Inductive anycase := Plain (c : case) | Swept (c : sweepcase).
Definition check_any (c : anycase) : bool * bool :=
  match c with Plain c => check c | Swept c => check_sweep c end.
