(** Case type, correspondence and spec oracles of the whole-assembly properties
    (C02, C03, C05, C07, C08, C09, C10).  Every oracle is evaluated on what the IMPLEMENTATION
    produced (writer calls, labels, per-node trace) against an independent specification; none of
    them calls the model. *)
From A816 Require Export Oracle.Asmo Spec.BusLaws.
Open Scope Z_scope.

(** ** Independent specifications used by the oracles *)

Definition kbytes (k : dkind) : nat := match k with D_db => 1 | D_dw => 2 | D_dl | D_pointer => 3 end.
(** value truncated to the field, least significant byte first *)
Fixpoint le_spec (n : nat) (v : Z) : bytes :=
  match n with O => [] | S n' => (v mod 256) :: le_spec n' (v / 256) end.

Inductive item := IData (k : dkind) (vals : list Z) | IAscii (s : str) | IBin (content : bytes).
Definition item_bytes (i : item) : bytes :=
  match i with
  | IData k vals => flat_map (fun v => le_spec (kbytes k) (v mod 256 ^ Z.of_nat (kbytes k))) vals
  | IAscii s => filter (fun c => c <? 128) s
  | IBin c => c
  end.

(** File offset of a logical address under the built-in mappings (Spec/BusLaws closed forms),
    only for in-window ROM addresses. *)
Definition rom_offset (high : bool) (a : Z) : option Z :=
  if high then match hirom_spec a with Ok (Some p) => Some p | _ => None end
  else if 32768 <=? a mod 65536 then match lorom_spec a with Ok (Some p) => Some p | _ => None end
  else None.
Definition is_ram (high : bool) (a : Z) : bool :=
  match (if high then hirom_spec a else lorom_spec a) with Ok None => true | _ => false end.
Definition same_range (high : bool) (a b : Z) : bool :=
  if high then Bool.eqb (192 <=? a / 65536) (192 <=? b / 65536)
  else Bool.eqb (128 <=? a / 65536) (128 <=? b / 65536).

Fixpoint firstn_eqb (expected actual : bytes) : bool :=
  match expected, actual with
  | [], _ => true
  | x :: e, y :: a => (x =? y) && firstn_eqb e a
  | _ :: _, [] => false
  end.
Fixpoint lookup_label (labels : list (str * Z)) (name : str) : option Z :=
  match labels with
  | [] => None
  | (n, v) :: r => match lookup_label r name with Some x => Some x | None => if str_eqb n name then Some v else None end
  end.

(** One node of the emission trace, as observed: kind (0 other, 1 CodePositionNode,
    2 RelocationAddressNode, 3 IncludeIpsNode), run address and resolver.pc before the node, bytes. *)
Record tnode := { tn_kind : Z; tn_addr : Z; tn_pc : Z; tn_bytes : bytes; tn_ips : list (bytes * Z) }.

(** The writer protocol, specified on the observed trace: bytes accumulate in source order; a
    [*=] flushes what was accumulated at the offset where it started and the next block starts at
    the offset in force after the move ([pc] of the next node, or of the end).  The records of an
    included patch ([tn_ips]) are handed to the writer where the [.include_ips] stands, at their own
    offsets, and do not interrupt the run being accumulated (it is flushed later, as one block). *)
Fixpoint cut_spec (ns : list tnode) (end_pc : Z) (block : bytes) (baddr : Z) : list (bytes * Z) :=
  match ns with
  | [] => match block with [] => [] | _ => [(block, baddr)] end
  | n :: rest =>
      let block' := block ++ tn_bytes n in
      let next_pc := match rest with m :: _ => tn_pc m | [] => end_pc end in
      if tn_kind n =? 1 then
        (match block' with [] => [] | _ => [(block', baddr)] end) ++ cut_spec rest end_pc [] next_pc
      else tn_ips n ++ cut_spec rest end_pc block' baddr
  end.

(** Offsets: while the code is not relocated (no [@=] since the last [*=]) and runs in ROM, the
    file offset of every emitting node is the one the mapping assigns to its run address. *)
Fixpoint offsets_ok (high : bool) (ns : list tnode) (relocated : bool) : bool :=
  match ns with
  | [] => true
  | n :: rest =>
      let here :=
        match tn_bytes n with
        | [] => true
        | _ => relocated ||
               match rom_offset high (tn_addr n) with Some p => p =? tn_pc n | None => true end
        end in
      here && offsets_ok high rest
                (if tn_kind n =? 1 then false else if tn_kind n =? 2 then true else relocated)
  end.

(** Contiguity: a node that emits n bytes moves the file offset by n; other nodes except position
    moves leave it alone. *)
Fixpoint pcs_ok (ns : list tnode) (end_pc : Z) : bool :=
  match ns with
  | [] => true
  | n :: rest =>
      let next_pc := match rest with m :: _ => tn_pc m | [] => end_pc end in
      ((0 <? tn_kind n) && (tn_kind n <? 3) || (next_pc =? tn_pc n + Z.of_nat (length (tn_bytes n))))
      && pcs_ok rest end_pc
  end.

(** [*=] to a RAM address (no file offset to move to) leaves the output offset where it was. *)
Fixpoint ram_org_ok (high : bool) (ns : list tnode) : bool :=
  match ns with
  | [] => true
  | n :: rest =>
      match rest with
      | m :: _ => negb (tn_kind n =? 1) || negb (is_ram high (tn_addr m)) || (tn_pc m =? tn_pc n)
      | [] => true
      end && ram_org_ok high rest
  end.

(** Programs that declare their own bus with [.map]: [ranges] are the declared bank ranges in
    declaration order (the mirror range of a declaration right after its main range, with the same
    window and flag); the range in force for a bank is the LAST declared one that holds it.  The
    offset of a ROM address inside its bank window is the textbook one of Spec/BusLaws
    ((bank - first bank of the range) x window size + position in the window). *)
Fixpoint user_range (ranges : list mapping) (bank : Z) (acc : option mapping) : option mapping :=
  match ranges with
  | [] => acc
  | m :: rest => user_range rest bank (if (m_first m <=? bank) && (bank <=? m_last m) then Some m else acc)
  end.
Definition user_offset (ranges : list mapping) (a : Z) : option Z :=
  match user_range ranges (bank_of a) None with
  | Some m => if m_writable m then None
              else if mask_ok_b m && in_window_b m a then Some (spec_offset m a) else None
  | None => None
  end.
Fixpoint user_offsets_ok (ranges : list mapping) (ns : list tnode) (relocated : bool) : bool :=
  match ns with
  | [] => true
  | n :: rest =>
      let here :=
        match tn_bytes n with
        | [] => true
        | _ => relocated ||
               match user_offset ranges (tn_addr n) with Some p => p =? tn_pc n | None => true end
        end in
      here && user_offsets_ok ranges rest
                (if tn_kind n =? 1 then false else if tn_kind n =? 2 then true else relocated)
  end.

(** [*=] into a region the program's own bus declares writable leaves the output offset where it was. *)
Definition user_is_ram (ranges : list mapping) (a : Z) : bool :=
  match user_range ranges (bank_of a) None with Some m => m_writable m | None => false end.
Fixpoint user_ram_org_ok (ranges : list mapping) (ns : list tnode) : bool :=
  match ns with
  | [] => true
  | n :: rest =>
      match rest with
      | m :: _ => negb (tn_kind n =? 1) || negb (user_is_ram ranges (tn_addr m)) || (tn_pc m =? tn_pc n)
      | [] => true
      end && user_ram_org_ok ranges rest
  end.

(** Run addresses in RAM: behind an ordinary node (kind 0: not [*=], not [@=], not [.include_ips]) whose run
    address lies in RAM, the next node runs at that address plus the number of bytes the node emitted ("following
    code is ... assembled to run elsewhere": statement after statement).  [isram] is [is_ram high] under a
    built-in mapping and [user_is_ram ranges] under a bus the program declares.  Sound for the model:
    Proofs/UserRamRun.v. *)
Fixpoint ram_runs_ok (isram : Z -> bool) (ns : list tnode) : bool :=
  match ns with
  | [] => true
  | n :: rest =>
      match rest with
      | m :: _ =>
          negb (tn_kind n =? 0) || negb (isram (tn_addr n)) ||
          (tn_addr m =? tn_addr n + Z.of_nat (length (tn_bytes n)))
      | [] => true
      end && ram_runs_ok isram rest
  end.

(** ** What a case asks the oracle to check *)
Inductive spec :=
| SNone
(* C07: one block at [off] starting with the items' bytes; label zz_end = address after them *)
| SData (high : bool) (org off : Z) (items : list item) (end_label : str) (tail : list (option Z))
    (* [tail]: 3-byte little-endian values that follow the items ([None] = the end label's own value) *)
(* C05: branch at run address p to target t, opcode byte, bytes before the branch in its block *)
| SBranch (high : bool) (p t op : Z) (skip : nat) (expect_reject : bool)
(* C02: label events (node index, value bound in the label pass); pass-1 and emission addresses per node *)
| STrace (labels : list (nat * Z)) (pass1 : list (nat * Z)) (emit : list (nat * Z * nat * Z))
(* C03: emission trace, resolver.pc at the end, built-in mapping in force *)
| SBlocks (high : bool) (user_map : bool) (ns : list tnode) (end_pc : Z)
(* C13 in a program: as SBlocks, and the patch records handed over by the directives, in order, are [expected]
   (each record of the file at its offset + the delta the directive's expression has where it stands) *)
| SBlocksI (high : bool) (user_map : bool) (ns : list tnode) (end_pc : Z) (expected : list (bytes * Z))
(* C08-C10, C16: the twin program's observed output must be the same (labels too when asked) *)
| STwin (twin : obs asmobs) (with_labels : bool)
(* C08: the last three bytes written are the value of label [name] (a reference to scope.name) *)
| SExport (name : str)
(* the assembly must be rejected *)
| SReject
(* C02: every listed label (name, value) is the address some LabelNode / BinaryNode of that name was given
   in the label pass ([events]: name, address passed to pc_after) *)
| SLabelValues (events : list (str * Z))
(* C03/C04 with a user-declared bus: every unrelocated ROM byte sits at the offset the declared ranges give *)
| SUserOffsets (ranges : list mapping) (ns : list tnode)
(* a program the harness wrote to be valid: it must assemble (keeps hand-written cases from being vacuous, and turns
   "a valid program is refused" into a failing input of its own) *)
| SAccept
| SAnd (a b : spec).

Definition nth_z {A} (l : list A) (i : nat) : option A := nth_error l i.

Fixpoint assoc_nat {V} (l : list (nat * V)) (k : nat) : option V :=
  match l with [] => None | (k', v) :: r => if Nat.eqb k k' then Some v else assoc_nat r k end.

(** first emitting node at or after index i, with no position move in between *)
Fixpoint next_emitting (em : list (nat * Z * nat * Z)) (i : nat) : option Z :=
  match em with
  | [] => None
  | (j, a, n, kind) :: rest =>
      if Nat.ltb j i then next_emitting rest i
      else if (0 <? kind) && (kind <? 3) then None
      else if Nat.ltb 0 n then Some a else next_emitting rest i
  end.
Definition emit_addr (em : list (nat * Z * nat * Z)) (i : nat) : option Z :=
  match filter (fun x => Nat.eqb (fst (fst (fst x))) i) em with
  | (_, a, _, _) :: _ => Some a
  | [] => None
  end.

Fixpoint spec_ok (s : spec) (impl : obs asmobs) : bool :=
  match s with
  | SAnd a b => spec_ok a impl && spec_ok b impl
  | SUserOffsets ranges ns =>
      match impl with
      | OOk _ => user_offsets_ok ranges ns false && user_ram_org_ok ranges ns && ram_runs_ok (user_is_ram ranges) ns
      | _ => true
      end
  | SAccept => match impl with OOk _ => true | _ => false end
  | SLabelValues events =>
      match impl with
      | OOk (_, labels) => forallb (fun nv => existsb (label_eqb nv) events) labels
      | _ => true
      end
  | SNone => true
  | SData high org off items end_label tail =>
      match impl with
      | OOk (blocks, labels) =>
          let expected := flat_map item_bytes items in
          let len := Z.of_nat (length expected) in
          match blocks with
          | (bs, addr) :: _ =>
              firstn_eqb expected bs && (addr =? off) &&
              match lookup_label labels end_label with
              | Some e =>
                  firstn_eqb (flat_map (fun t => le_spec 3 ((match t with Some v => v | None => e end) mod 16777216)) tail)
                             (skipn (length expected) bs) &&
                  match expected with
                  | [] => true       (* nothing emitted: the address may be normalised, not constrained here *)
                  | _ => match rom_offset high e with
                         | Some p => (p =? off + len) && same_range high org e
                         | None => false
                         end
                  end
              | None => false
              end
          | [] => match expected with [] => true | _ => false end
          end
      | _ => false
      end
  | SBranch high p t op skip expect_reject =>
      let d := t - (p + 2) in
      let rom_ok := match rom_offset high p, rom_offset high t with Some _, Some _ => true | _, _ => false end in
      let same_bank := p / 65536 =? t / 65536 in
      if expect_reject then obs_is_err impl
      else if rom_ok && same_bank then
        if (-128 <=? d) && (d <=? 127) then
          match impl with
          | OOk (blocks, _) =>
              existsb (fun b => match skipn skip (fst b) with
                                | x :: y :: _ => (x =? op) && (y =? d mod 256)
                                | _ => false
                                end) blocks
          | _ => false
          end
        else obs_is_err impl
      else if is_ram high p || is_ram high t then obs_is_err impl
      else
        (* both in ROM, different banks: a target whose file distance is out of reach must be refused ("a target
           outside -128..+127 bytes is rejected; a displacement is never truncated or wrapped into range"); the
           few bytes around a bank end, where the file distance is within reach, are left to the correspondence *)
        match rom_offset high p, rom_offset high t with
        | Some op', Some ot =>
            if (-128 <=? ot - (op' + 2)) && (ot - (op' + 2) <=? 127) then true else obs_is_err impl
        | _, _ => true
        end
  | STrace labels pass1 em =>
      match impl with
      | OOk _ =>
          forallb (fun lv => match emit_addr em (fst lv) with
                             | Some a => (a =? snd lv) &&
                                         match next_emitting em (fst lv) with Some b => b =? snd lv | None => true end
                             | None => false
                             end) labels
          && forallb (fun ia => match emit_addr em (fst ia) with Some a => a =? snd ia | None => false end) pass1
      | _ => true
      end
  | SBlocks high user_map ns end_pc =>
      match impl with
      | OOk (blocks, _) =>
          list_eqb wblock_eqb (cut_spec ns end_pc [] 0) blocks
          && (user_map || offsets_ok high ns false) && pcs_ok ns end_pc && (user_map || ram_org_ok high ns)
          && (user_map || ram_runs_ok (is_ram high) ns)
      | _ => true
      end
  | SBlocksI high user_map ns end_pc expected =>
      match impl with
      | OOk (blocks, _) =>
          list_eqb wblock_eqb (cut_spec ns end_pc [] 0) blocks
          && (user_map || offsets_ok high ns false) && pcs_ok ns end_pc && (user_map || ram_org_ok high ns)
          && (user_map || ram_runs_ok (is_ram high) ns)
          && list_eqb wblock_eqb (flat_map tn_ips ns) expected
      | _ => true
      end
  | STwin twin with_labels =>
      match impl, twin with
      | OOk (b1, l1), OOk (b2, l2) =>
          list_eqb wblock_eqb b1 b2 && (negb with_labels || list_eqb label_eqb l1 l2)
      | OErr _, OErr _ => true
      | _, _ => false
      end
  | SExport name =>
      match impl with
      | OOk (blocks, labels) =>
          match lookup_label labels name, rev blocks with
          | Some v, (bs, _) :: _ =>
              match rev bs with
              | c :: b :: a :: _ => (a =? v mod 256) && (b =? (v / 256) mod 256) && (c =? (v / 65536) mod 256)
              | _ => false
              end
          | _, _ => false
          end
      | _ => false
      end
  | SReject => obs_is_err impl
  end.

Record ccase := { cc_asm : asmcase; cc_impl : obs asmobs; cc_spec : spec; cc_corr : bool }.

(** (correspondence bit, oracle bit).  [cc_corr = false] marks a case the model is not asked about
    (e.g. the source does not parse: parse errors belong to the parser model). *)
Definition check (t : tables) (c : ccase) : bool * bool :=
  ((negb (cc_corr c) || corr t (cc_asm c) (cc_impl c)), spec_ok (cc_spec c) (cc_impl c)).

Definition model_view (t : tables) (c : ccase) : res asmobs := model_obs t (cc_asm c).
