(** End-to-end cases: source TEXT (+ files, options) through the whole model pipeline
    (Model/Assemble.v) against what the implementation's entry points returned.  Shared by
    C12, C14, C15, C16, C17, C19. *)
From A816 Require Export Model.Assemble Oracle.Obs Oracle.Asmo Spec.IpsFormat.
Open Scope Z_scope.

(** What the string API (assemble_string_with_emitter with a recording writer) did. *)
Inductive e2eobs :=
| EOk (o : asmobs)
| EScanErr (file : str) (line col : Z) (msg quoted : str)   (* fields of the returned error string *)
| EParseErr (file : str) (line col : Z)                      (* position printed by token.trace() *)
| EErrOther                                                  (* an error string of another shape *)
| EExc (k : errk) (site : option (str * Z * str))            (* exception; NodeError: file, line, quoted line *)
| ETimeout.

(** What a file API / the command line did. *)
Inductive frontobs :=
| FReturn (code : Z) (announced : bool) (file : option bytes)   (* returned status, "Success !" logged, output file *)
| FRaise (k : errk)
| FExit (code : Z) (announced : bool) (file : option bytes)     (* process exit status of x816 *)
| FNone.

Record e2ecase := {
  ec_files : srcfiles; ec_config : config; ec_name : str; ec_src : str;
  ec_impl : e2eobs;
  ec_format : format; ec_copier : bool;
  ec_api : frontobs;            (* Program.assemble / assemble_as_patch *)
  ec_cli : frontobs;            (* python -m a816.cli *)
  ec_symfile : option (list (Z * Z * str));  (* parsed lines of the exported symbol file *)
  ec_cli_defines : option (list (str * str)); (* -D NAME=VALUE texts given to the command line (None: none) *)
  ec_labeldefs : option (list (Z * Z * str)) (* label definitions observed while labels were resolved (Scope.add_label
                                                calls outside loop-iteration scopes), as (bank, offset, name), by scope *)
}.

Definition model_result (t : live) (c : e2ecase) : aresult :=
  assemble_source t (ec_files c) (ec_config c) (ec_name c) (ec_src c).

(** file.lines[line] of the File object a token belongs to (the scanner of that file). *)
Definition file_text (c : e2ecase) (file : str) : option str :=
  if str_eqb file (ec_name c) then Some (ec_src c) else assoc_str (sf_text (ec_files c)) file.
Definition quoted_line (t : live) (c : e2ecase) (file : str) (line : Z) : option str :=
  match file_text c file with
  | Some text =>
      match scan (lv_lex t) file text with
      | ScanOk _ lines => py_index lines line
      | ScanErr e => py_index (se_lines e) line
      | _ => None
      end
  | None => None
  end.

Definition status_class (k : errk) : Z :=
  match k with ENode => 0 | ERuntime => 0 | ERecursion => 0 | _ => 1 end.

Definition site_eqb (t : live) (c : e2ecase) (tok : option token) (site : option (str * Z * str)) : bool :=
  match tok, site with
  | Some tk, Some (f, l, q) =>
      match t_pos tk with
      | Some p => str_eqb (tp_file p) f && (tp_line p =? l) &&
                  match quoted_line t c (tp_file p) (tp_line p) with Some q' => str_eqb q q' | None => false end
      | None => false
      end
  | None, None => true
  | Some tk, None => match t_pos tk with None => true | Some _ => false end
  | None, Some _ => false
  end.

Definition corr_core (t : live) (c : e2ecase) : bool :=
  match model_result t c, ec_impl c with
  | AOk o _, EOk obs => asmobs_eqb (o_blocks o, o_labels o) obs
  | AScanError f e, EScanErr f' l col msg q =>
      str_eqb f f' && (se_line e =? l) && (se_col e =? col) && str_eqb (render_msg (se_msg e)) msg &&
      match se_quoted e with Some q' => str_eqb q q' | None => false end
  | AParseError (Some tk), EParseErr f l col =>
      match t_pos tk with
      | Some p => str_eqb (tp_file p) f && (tp_line p =? l) && (tp_col p =? col)
      | None => false
      end
  | AExc k site, EExc k' site' =>
      (status_class k =? status_class k') &&
      (match k, k' with ENode, ENode => site_eqb t c site site' | _, _ => true end)
  | _, _ => false
  end.

Definition front_eqb (m : status * option bytes) (o : frontobs) : bool :=
  match o with
  | FNone => true
  | FReturn code ann file =>
      match fst m with
      | SReturn code' ann' => (code =? code') && Bool.eqb ann ann' &&
                              match snd m, file with
                              | Some a, Some b => bytes_eqb a b
                              | _, _ => true      (* after a failure the file content is not specified *)
                              end
      | SRaise _ => false
      end
  | FRaise k => match fst m with SRaise k' => true | _ => false end
  | FExit code ann file =>
      (cli_exit (fst m) =? code) &&
      match fst m with SReturn _ ann' => Bool.eqb ann ann' | SRaise _ => negb ann end &&
      match fst m, snd m, file with
      | SReturn 0 _, Some a, Some b => bytes_eqb a b
      | _, _, _ => true
      end
  end.

Definition sym_eqb (a b : Z * Z * str) : bool :=
  (fst (fst a) =? fst (fst b)) && (snd (fst a) =? snd (fst b)) && str_eqb (snd a) (snd b).

Definition corr (t : live) (c : e2ecase) : bool :=
  corr_core t c &&
  (let f := {| fc_format := ec_format c; fc_copier := ec_copier c; fc_config := ec_config c |} in
   let m := file_api f (model_result t c) in
   (* the command line evaluates its -D texts itself: model that too *)
   let m_cli :=
     match ec_cli_defines c with
     | None => m
     | Some texts =>
         match eval_defines (lv_prec t) texts [] with
         | Ok defs =>
             file_api f (assemble_source t (ec_files c)
                           {| cf_rom := cf_rom (ec_config c); cf_defines := defs |} (ec_name c) (ec_src c))
         | Err k => (SRaise k, None)
         | OutOfFuel => (SRaise EOther, None)
         end
     end in
   front_eqb m (ec_api c) && front_eqb m_cli (ec_cli c)) &&
  match ec_symfile c, model_result t c with
  | Some lines, AOk _ final => list_eqb sym_eqb (symbol_lines final) lines
  | Some _, _ => false
  | None, _ => true
  end.

(** ** Oracles on the implementation's observations (independent of the model) *)

Definition obs_failed (o : e2eobs) : bool := match o with EOk _ => false | _ => true end.
Definition front_failed (o : frontobs) : bool :=
  match o with
  | FReturn code ann _ => negb (code =? 0) && negb ann
  | FRaise _ => true
  | FExit code ann _ => negb (code =? 0) && negb ann
  | FNone => true
  end.
Definition front_succeeded (o : frontobs) : bool :=
  match o with
  | FReturn code ann _ => (code =? 0) && ann
  | FRaise _ => false
  | FExit code ann _ => (code =? 0) && ann
  | FNone => true
  end.

(** C14: [must_fail] = the harness planted a definite error.  A planted error must reach every
    caller; and whatever happened, all entry points tell the same story: success (None / 0 /
    "Success !") exactly together, and never a zero status or a success message on a failure. *)
Definition c14_ok (must_fail : bool) (c : e2ecase) : bool :=
  (negb must_fail || obs_failed (ec_impl c)) &&
  (if obs_failed (ec_impl c)
   then front_failed (ec_api c) && front_failed (ec_cli c)
   else front_succeeded (ec_api c) && front_succeeded (ec_cli c)).

(** C12: the output file of every front end, decoded independently: the IPS patch (parsed and
    applied by the Spec patcher to an empty image) writes exactly the in-memory blocks (shifted by
    0x200 with the copier header); the SFC image is the blocks written into an empty image. *)
Definition spec_write (img : list Z) (pos : nat) (data : list Z) : list Z :=
  firstn pos (img ++ repeat_z 0 (pos - length img)) ++ data ++ skipn (pos + length data) img.
Definition spec_image (blocks : list (bytes * Z)) (delta : Z) : list Z :=
  fold_left (fun img b => match fst b with [] => img | _ => spec_write img (Z.to_nat (snd b + delta)) (fst b) end) blocks [].

Definition file_matches (fmt : format) (copier : bool) (mem : asmobs) (file : bytes) : bool :=
  match fmt with
  | FSfc => bytes_eqb file (spec_image (fst mem) 0)
  | FIps =>
      match apply_ips file [] with
      | Ok img => bytes_eqb img (spec_image (fst mem) (if copier then 512 else 0))
      | _ => false
      end
  end.

Definition front_file (o : frontobs) : option bytes :=
  match o with FReturn _ _ f | FExit _ _ f => f | _ => None end.

Definition c12_ok (c : e2ecase) : bool :=
  match ec_impl c with
  | EOk mem =>
      (match front_file (ec_api c) with Some f => file_matches (ec_format c) (ec_copier c) mem f | None => true end) &&
      (match front_file (ec_cli c) with Some f => file_matches (ec_format c) (ec_copier c) mem f | None => true end) &&
      front_succeeded (ec_api c) && front_succeeded (ec_cli c) &&
      match ec_symfile c with
      | Some lines =>
          list_eqb sym_eqb lines
            (map (fun nv => ((snd nv / 65536) mod 256, snd nv mod 65536, fst nv)) (snd mem)) &&
          match ec_labeldefs c with Some defs => list_eqb sym_eqb lines defs | None => true end
      | None => true
      end
  | _ => true
  end.

(** C17: the planted error must be reported at (file, zero-based line) with that line quoted (and
    the column for lexical errors). *)
Definition c17_ok (file : str) (line : Z) (col : option Z) (text : str) (c : e2ecase) : bool :=
  match ec_impl c with
  | EScanErr f l cl _ q =>
      str_eqb f file && (l =? line) && str_eqb q text &&
      match col with Some k => cl =? k | None => true end
  | EExc ENode (Some (f, l, q)) => str_eqb f file && (l =? line) && str_eqb q text
  | EParseErr f l cl => str_eqb f file && (l =? line) && match col with Some k => cl =? k | None => true end
  | _ => false
  end.

(** Twins (C16, C19): another observation of the implementation must be the same. *)
Definition e2eobs_eqb (a b : e2eobs) (with_labels : bool) : bool :=
  match a, b with
  | EOk (b1, l1), EOk (b2, l2) => list_eqb wblock_eqb b1 b2 && (negb with_labels || list_eqb label_eqb l1 l2)
  | EScanErr f l c m q, EScanErr f' l' c' m' q' => str_eqb f f' && (l =? l') && (c =? c') && str_eqb m m' && str_eqb q q'
  | EParseErr f l c, EParseErr f' l' c' => str_eqb f f' && (l =? l') && (c =? c')
  | EErrOther, EErrOther => true
  | EExc k s, EExc k' s' => errk_eqb k k' &&
      match s, s' with
      | Some (f, l, q), Some (f', l', q') => str_eqb f f' && (l =? l') && str_eqb q q'
      | None, None => true
      | _, _ => false
      end
  | _, _ => false
  end.

Inductive e2espec :=
| XNone
| XC12
| XC14 (must_fail : bool)
| XC15                                  (* the implementation terminated (no watchdog timeout) *)
| XC17 (file : str) (line : Z) (col : option Z) (text : str)
| XTwin (other : e2eobs) (with_labels : bool)
| XTwinErrClass (other : e2eobs)        (* both fail or both succeed with equal output *)
| XFrontSays (ok : bool)                (* what the file API logged / the command line printed names the planted place (text search done by the harness) *)
| XAnd (a b : e2espec).

(** A front end that was killed by the watchdog is shipped as the impossible observation "status 99 with
    a success message": no model result equals it ([front_eqb]), it neither failed nor succeeded for
    [c14_ok], and the termination oracle rejects it. *)
Definition not_hung (o : frontobs) : bool :=
  match o with
  | FExit 99 true None | FReturn 99 true None => false
  | _ => true
  end.

Fixpoint spec_ok (s : e2espec) (c : e2ecase) : bool :=
  match s with
  | XNone => true
  | XC12 => c12_ok c
  | XC14 must_fail => c14_ok must_fail c
  | XC15 => match ec_impl c with ETimeout => false | _ => true end && not_hung (ec_api c) && not_hung (ec_cli c)
  | XC17 file line col text => c17_ok file line col text c
  | XTwin other wl =>
      e2eobs_eqb (ec_impl c) other wl &&
      (* a file written by the command line of the same case (with its -D texts) holds the twin's blocks *)
      match other, front_file (ec_cli c) with
      | EOk mem, Some f => file_matches (ec_format c) (ec_copier c) mem f
      | _, _ => true
      end
  | XFrontSays ok => ok
  | XAnd a b => spec_ok a c && spec_ok b c
  | XTwinErrClass other =>
      match ec_impl c, other with
      | EOk _, EOk _ => e2eobs_eqb (ec_impl c) other true
      | EOk _, _ | _, EOk _ => false
      | ETimeout, _ | _, ETimeout => false
      | _, _ => true
      end
  end.

Definition check (t : live) (x : e2ecase * e2espec * bool) : bool * bool :=
  let '(c, s, do_corr) := x in
  ((negb do_corr || corr t c), spec_ok s c).

Definition model_view (t : live) (x : e2ecase * e2espec * bool) : aresult := model_result t (fst (fst x)).
