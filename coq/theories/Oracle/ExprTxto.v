(** EXPRTXT — text-level tie of eval_expression_str: scanner (lex_expression driver) + parser entry
    point + evaluator, against the implementation on the same text. *)
From A816 Require Export Model.Assemble Oracle.Obs.
Open Scope Z_scope.

Record txcase := { tx_text : str; tx_env : list (str * Z); tx_impl : obs Z }.
Definition env_of_list (l : list (str * Z)) : env :=
  fun n => match assoc_str l n with Some v => Ok v | None => Err ESymbol end.
Definition check (prec : prectab) (c : txcase) : bool * bool :=
  (agree Z.eqb (eval_expression_str prec (env_of_list (tx_env c)) (tx_text c)) (tx_impl c), true).
