(** MSG — tie of Model/Messages.v (the TEXT of error reports) to the implementation.

    A case = a source text (+ included files, options) and what
    [Program.assemble_string_with_emitter] did with it: the returned error string in full, or the
    escaping NodeError as ([e.message], [str(e)]), or another exception class, or success.

    Correspondence bit: [report_of (assemble_source ...)] against the observation —
    scan and parse errors: the model's string equals the returned string, character by character;
    NodeError: ['"' ++ e.message ++ '"' ++ model suffix] equals [str(e)] (the whole location part:
    file, line, quoted line), and [e.message] matches the model's message (exact for the OpcodeNode
    messages, stable prefix / suffix for the two that embed what the model does not have).

    Oracle bit (no model function): the harness planted the erroneous statement and built, in
    Python, from the planted (file, zero-based line, column, statement text) the strings the
    report must begin with, contain and end with; the oracle only does string matching on the
    observed text.  [CNames]: the live enum member names against the model's printing tables. *)
From A816 Require Export Model.Messages Oracle.Obs.
Open Scope Z_scope.

Inductive mobs :=
| MOk                              (* returned None *)
| MErrText (s : str)               (* returned error string *)
| MNodeError (msg full : str)      (* NodeError escaped: e.message, str(e) *)
| MExc (k : errk)                  (* another exception escaped *)
| MTimeout.

Inductive mspec :=
| SNone
| SText (pre inf suf : str).       (* the report starts with, contains, ends with *)

Inductive mcase :=
| CAsm (files : srcfiles) (cfg : config) (name src : str) (impl : mobs) (spec : mspec)
| CNames (tys : list (Z * str)) (am : list (Z * str)).

Fixpoint starts_with (p s : str) : bool :=
  match p, s with
  | [], _ => true
  | a :: p', b :: s' => (a =? b) && starts_with p' s'
  | _ :: _, [] => false
  end.
Definition ends_with (p s : str) : bool := starts_with (rev p) (rev s).
Fixpoint contains (p s : str) : bool :=
  starts_with p s || match s with [] => false | _ :: s' => contains p s' end.

Definition pat_matches (p : msg_pat) (msg : str) : bool :=
  match p with
  | MExact s => str_eqb s msg
  | MAffix pre suf => starts_with pre msg && ends_with suf msg && (length pre + length suf <=? length msg)%nat
  end.

Definition model_result (t : live) (files : srcfiles) (cfg : config) (name src : str) : aresult :=
  assemble_source t files cfg name src.

Fixpoint assoc_zs (l : list (Z * str)) (k : Z) : option str :=
  match l with [] => None | (k', v) :: r => if k =? k' then Some v else assoc_zs r k end.

Definition all_amodes : list amode :=
  [M_none; M_immediate; M_direct; M_direct_indexed; M_indirect; M_indirect_indexed; M_indirect_long;
   M_indirect_indexed_long; M_dp_or_sr_indirect_indexed; M_stack_indexed_indirect_indexed].

Definition corr (t : live) (c : mcase) : bool :=
  match c with
  | CAsm files cfg name src impl _ =>
      let r := model_result t files cfg name src in
      match r, impl with
      | AOk _ _, MOk => true
      | AScanError _ _, MErrText s' | AParseError (Some _), MErrText s' =>
          match report_of t files cfg name src r with RepText s => str_eqb s s' | _ => false end
      | AExc ENode (Some _), MNodeError msg full =>
          match report_of t files cfg name src r with
          | RepNode (Some pat) suf => str_eqb ([34] ++ msg ++ [34] ++ suf) full && pat_matches pat msg
          | RepNode None suf => str_eqb ([34] ++ msg ++ [34] ++ suf) full    (* code lookup: the place is modelled, the wording is not *)
          | _ => false
          end
      | AExc ENode None, MNodeError _ _ => true      (* "Opcode operand must not be code": no site in [aresult] *)
      | AExc ENode _, MExc _ => false
      | AExc _ _, MExc _ => true                     (* exception classes are E2E's business *)
      | _, _ => false
      end
  | CNames tys am =>
      forallb (fun ty => match assoc_zs tys (ttype_code ty) with Some n => str_eqb n (ttype_name ty) | None => false end)
              all_ttypes &&
      (* the two members the scanner never produces *)
      Nat.eqb (length tys) 30 &&
      forallb (fun m => match assoc_zs am (amode_code m) with Some n => str_eqb n (amode_name m) | None => false end)
              all_amodes &&
      Nat.eqb (length am) 10
  end.

Definition observed_text (o : mobs) : option str :=
  match o with
  | MErrText s => Some s
  | MNodeError _ full => Some full
  | _ => None
  end.

Definition spec_ok (c : mcase) : bool :=
  match c with
  | CAsm _ _ _ _ impl SNone => match impl with MTimeout => false | _ => true end
  | CAsm _ _ _ _ impl (SText pre inf suf) =>
      match observed_text impl with
      | Some s => starts_with pre s && contains inf s && ends_with suf s
      | None => false
      end
  | CNames _ _ => true
  end.

Definition check (t : live) (c : mcase) : bool * bool := (corr t c, spec_ok c).

Definition model_view (t : live) (c : mcase) : option report :=
  match c with
  | CAsm files cfg name src _ _ => Some (report_of t files cfg name src (model_result t files cfg name src))
  | CNames _ _ => None
  end.
