(** Observations of the implementation, as shipped by the harness, and their comparison with
    model results.  Rejections are compared coarsely (rejected vs accepted) unless a property
    asks for the class. *)
From A816 Require Export Base.Prelude.

Inductive obs (A : Type) := OOk (a : A) | OErr (k : errk) | OTimeout.
Arguments OOk {A}. Arguments OErr {A}. Arguments OTimeout {A}.

Definition agree {A} (eqb : A -> A -> bool) (r : res A) (o : obs A) : bool :=
  match r, o with
  | Ok a, OOk b => eqb a b
  | Err _, OErr _ => true
  | _, _ => false
  end.
Definition agree_strict {A} (eqb : A -> A -> bool) (r : res A) (o : obs A) : bool :=
  match r, o with
  | Ok a, OOk b => eqb a b
  | Err j, OErr k => errk_eqb j k
  | _, _ => false
  end.

Definition opt_z_eqb := option_eqb Z.eqb.
Definition bytes_eqb : bytes -> bytes -> bool := list_eqb Z.eqb.
Definition obs_is_err {A} (o : obs A) : bool := match o with OErr _ => true | _ => false end.
Definition obs_is_ok {A} (o : obs A) : bool := match o with OOk _ => true | _ => false end.
