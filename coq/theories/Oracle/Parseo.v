(** PARSE — model tie of Model/Parser.v: case type and check.
    A case carries the token list shipped from the real scanner (or built by the harness), the
    scanned contents of the files an [.include] may name, and what the real
    [Parser(tokens, parse_initial).parse()] did.  The correspondence bit compares the complete
    outcome (every AST field including every [file_info] token with its position; for a
    ParserSyntaxError the offending token with its position; for any other exception its class).
    The second bit is the termination observation on the implementation (no watchdog timeout). *)
From A816 Require Export Model.Parser Oracle.AstShip.
Open Scope Z_scope.

Definition tpos_eqb (a b : tpos) : bool :=
  (tp_line a =? tp_line b) && (tp_col a =? tp_col b) && str_eqb (tp_file a) (tp_file b).
(** full token equality: type, value and position (Token.__eq__ ignores the position) *)
Definition tok_eqb (a b : token) : bool :=
  token_eqb a b && option_eqb tpos_eqb (t_pos a) (t_pos b).

Definition ekind_eqb (a b : ekind) : bool :=
  match a, b with
  | EK_term, EK_term | EK_bin, EK_bin | EK_un, EK_un | EK_par, EK_par => true
  | _, _ => false
  end.
Definition enode_eqb (a b : enode) : bool := ekind_eqb (en_kind a) (en_kind b) && tok_eqb (en_tok a) (en_tok b).
Definition expr_eqb : expr -> expr -> bool := list_eqb enode_eqb.
Definition dkind_eqb (a b : dkind) : bool :=
  match a, b with
  | D_db, D_db | D_dw, D_dw | D_dl, D_dl | D_pointer, D_pointer => true
  | _, _ => false
  end.
Definition zz_eqb (a b : Z * option Z) : bool := (fst a =? fst b) && option_eqb Z.eqb (snd a) (snd b).
Definition mapargs_eqb (a b : mapargs) : bool :=
  option_eqb Z.eqb (ma_identifier a) (ma_identifier b) &&
  option_eqb Z.eqb (ma_writable a) (ma_writable b) &&
  option_eqb zz_eqb (ma_bank_range a) (ma_bank_range b) &&
  option_eqb zz_eqb (ma_addr_range a) (ma_addr_range b) &&
  option_eqb zz_eqb (ma_mask a) (ma_mask b) &&
  option_eqb zz_eqb (ma_mirror_bank_range a) (ma_mirror_bank_range b).
Definition ss_eqb (a b : str * str) : bool := str_eqb (fst a) (fst b) && str_eqb (snd a) (snd b).

Fixpoint ast_eqb (a b : ast) {struct a} : bool :=
  let body_eqb := fix go (x y : list ast) {struct x} : bool :=
    match x, y with
    | [], [] => true
    | u :: x', v :: y' => ast_eqb u v && go x' y'
    | _, _ => false
    end in
  let args_eqb := fix goa (x y : list (expr + (list ast * token))) {struct x} : bool :=
    match x, y with
    | [], [] => true
    | inl e :: x', inl e' :: y' => expr_eqb e e' && goa x' y'
    | inr (bd, t) :: x', inr (bd', t') :: y' => body_eqb bd bd' && tok_eqb t t' && goa x' y'
    | _, _ => false
    end in
  match a with
  | ABlock bd fi => match b with ABlock bd' fi' => body_eqb bd bd' && tok_eqb fi fi' | _ => false end
  | ACompound bd fi => match b with ACompound bd' fi' => body_eqb bd bd' && tok_eqb fi fi' | _ => false end
  | ALabel n fi => match b with ALabel n' fi' => str_eqb n n' && tok_eqb fi fi' | _ => false end
  | AText n fi => match b with AText n' fi' => str_eqb n n' && tok_eqb fi fi' | _ => false end
  | AAscii n fi => match b with AAscii n' fi' => str_eqb n n' && tok_eqb fi fi' | _ => false end
  | AScope n bd bfi fi =>
      match b with
      | AScope n' bd' bfi' fi' => str_eqb n n' && body_eqb bd bd' && tok_eqb bfi bfi' && tok_eqb fi fi'
      | _ => false
      end
  | AStarEq e fi => match b with AStarEq e' fi' => expr_eqb e e' && tok_eqb fi fi' | _ => false end
  | AAtEq e fi => match b with AAtEq e' fi' => expr_eqb e e' && tok_eqb fi fi' | _ => false end
  | AMap m fi => match b with AMap m' fi' => mapargs_eqb m m' && tok_eqb fi fi' | _ => false end
  | AIf c th thfi el fi =>
      match b with
      | AIf c' th' thfi' el' fi' =>
          expr_eqb c c' && body_eqb th th' && tok_eqb thfi thfi' &&
          match el, el' with
          | None, None => true
          | Some (eb, et), Some (eb', et') => body_eqb eb eb' && tok_eqb et et'
          | _, _ => false
          end && tok_eqb fi fi'
      | _ => false
      end
  | AMacro n ps bd bfi fi =>
      match b with
      | AMacro n' ps' bd' bfi' fi' =>
          str_eqb n n' && list_eqb str_eqb ps ps' && body_eqb bd bd' && tok_eqb bfi bfi' && tok_eqb fi fi'
      | _ => false
      end
  | AMacroApply n args fi =>
      match b with
      | AMacroApply n' args' fi' => str_eqb n n' && args_eqb args args' && tok_eqb fi fi'
      | _ => false
      end
  | AData k d fi =>
      match b with
      | AData k' d' fi' => dkind_eqb k k' && list_eqb expr_eqb d d' && tok_eqb fi fi'
      | _ => false
      end
  | ATable p fi => match b with ATable p' fi' => str_eqb p p' && tok_eqb fi fi' | _ => false end
  | AIncludeIps p e fi =>
      match b with
      | AIncludeIps p' e' fi' => str_eqb p p' && expr_eqb e e' && tok_eqb fi fi'
      | _ => false
      end
  | AIncbin p fi => match b with AIncbin p' fi' => str_eqb p p' && tok_eqb fi fi' | _ => false end
  | ASymbol n e fi =>
      match b with ASymbol n' e' fi' => str_eqb n n' && expr_eqb e e' && tok_eqb fi fi' | _ => false end
  | AAssign n e fi =>
      match b with AAssign n' e' fi' => str_eqb n n' && expr_eqb e e' && tok_eqb fi fi' | _ => false end
  | ACodeLookup n fi => match b with ACodeLookup n' fi' => str_eqb n n' && tok_eqb fi fi' | _ => false end
  | AStruct n fs fi =>
      match b with
      | AStruct n' fs' fi' => str_eqb n n' && list_eqb ss_eqb fs fs' && tok_eqb fi fi'
      | _ => false
      end
  | AFor v lo hi bd bfi fi =>
      match b with
      | AFor v' lo' hi' bd' bfi' fi' =>
          str_eqb v v' && expr_eqb lo lo' && expr_eqb hi hi' && body_eqb bd bd' && tok_eqb bfi bfi' &&
          tok_eqb fi fi'
      | _ => false
      end
  | AOpcode m o sz opd idx fi =>
      match b with
      | AOpcode m' o' sz' opd' idx' fi' =>
          amode_eqb m m' && str_eqb o o' && option_eqb vsize_eqb sz sz' && option_eqb expr_eqb opd opd' &&
          option_eqb str_eqb idx idx' && tok_eqb fi fi'
      | _ => false
      end
  end.
Definition prog_eqb : list ast -> list ast -> bool := list_eqb ast_eqb.

(** What the implementation did. *)
Inductive expected (A : Type) :=
| XOk (a : A)
| XParse (t : token)      (* ParserSyntaxError: e.token *)
| XErr (k : errk)         (* any other exception, by class *)
| XUnrep                  (* succeeded, but the AST is outside the frozen Ast type *)
| XTimeout.
Arguments XOk {A}. Arguments XParse {A}. Arguments XErr {A}. Arguments XUnrep {A}. Arguments XTimeout {A}.

Definition files := list (str * res (list token)).
Definition inc_of (fs : files) (name : str) : res (list token) :=
  match dict_get fs name with Some r => r | None => Err EFile end.

Inductive case :=
| CProg (ts : list token) (fs : files) (x : expected (list ast))   (* Parser(ts, parse_initial).parse() *)
| CExpr (ts : list token) (x : expected expr).                      (* Parser(ts, parse_expression_ep).parse()[0] *)

(** include depth given to the model: deeper than any non-cyclic chain the harness builds;
    a cyclic chain ends in ERecursion on both sides *)
Definition inc_depth : nat := 24.

Definition matches {A} (eqb : A -> A -> bool) (r : pres A) (x : expected A) : bool :=
  match r, x with
  | POk a, XOk b => eqb a b
  | PErr EParse (Some t), XParse t' => tok_eqb t t'
  | PErr EParse _, _ => false
  | PErr k _, XErr k' => errk_eqb k k'
  (* PUnrep = the model stopped after a [.map] statement whose value is outside the frozen Ast type:
     Python goes on from there, so it either fails later or succeeds with an AST the exporter
     cannot ship (never XOk) *)
  | PUnrep _, XUnrep | PUnrep _, XParse _ | PUnrep _, XErr _ => true
  | _, _ => false
  end.

Definition run_model (c : case) : pres (list ast) + pres expr :=
  match c with
  | CProg ts fs _ => inl (parse_program (parse_fuel (length ts)) inc_depth (inc_of fs) ts)
  | CExpr ts _ => inr (parse_expression_ep (parse_fuel (length ts)) ts)
  end.

Definition terminated {A} (x : expected A) : bool := match x with XTimeout => false | _ => true end.

Definition check (c : case) : bool * bool :=
  match c with
  | CProg ts fs x =>
      (matches prog_eqb (parse_program (parse_fuel (length ts)) inc_depth (inc_of fs) ts) x, terminated x)
  | CExpr ts x =>
      (matches expr_eqb (parse_expression_ep (parse_fuel (length ts)) ts) x, terminated x)
  end.

Definition model_view (c : case) := run_model c.
