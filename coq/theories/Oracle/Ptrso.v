(** PTRS — tie of Model/Pointers.v to script/pointers.py (Pointer, Script.read_fixed_text_list,
    read_pointers, read_pointers_content, append_pointers, write_pointers_value_as_binary,
    write_pointers_addresses_as_binary, recode_pointer_values).

    A case = the arguments of one call (byte files as byte lists + initial position, pointer tables
    as (id, address, value) triples) and what the implementation did: exception kind or the
    resulting table, the file position afterwards, the content of the files written.

    Correspondence bit: the model function on the same arguments, compared exactly (error kinds
    included, also what a failing call leaves behind in the output file / in the objects).

    Oracle bit (never calls a Model/Pointers.v function): the observed results against facts
    computed here from scratch - own stable sort (selection, not insertion), own slicing ([nth]
    over [seq], not [firstn]/[skipn]), own LoROM arithmetic ([/] and [mod], not shifts):
    the values read by read_pointers_content are the consecutive pieces of
    [rom[first address : end]], each starting at its address (for a single pointer: at the initial
    file position - the missing seek); the addresses written are the LoROM addresses of
    [base + running length]; and so on.  Error classes are predicted too. *)
From A816 Require Export Model.Pointers Oracle.Obs.
Open Scope Z_scope.

(** (id, address, value) *)
Definition pobs : Type := (Z * option Z * option bytes)%type.
Definition o_id (o : pobs) : Z := fst (fst o).
Definition o_addr (o : pobs) : option Z := snd (fst o).
Definition o_val (o : pobs) : option bytes := snd o.
Definition to_ptr (o : pobs) : pointer := {| p_id := o_id o; p_addr := o_addr o; p_value := o_val o |}.
Definition of_ptr (p : pointer) : pobs := (p_id p, p_addr p, p_value p).

Inductive rformula := FBaseRel (base : Z) | FLoInv.
Definition rformula_fn (f : rformula) : bytes -> res Z :=
  match f with FBaseRel base => base_relative_16bits_pointer base | FLoInv => long_low_rom_pointer_inverse end.

Inductive case :=
| CFixed (content : bytes) (pos0 address count len : Z) (impl : obs (list pobs * Z))
| CRead (content : bytes) (pos0 address count len : Z) (f : rformula) (impl : obs (list pobs * Z))
| CContent (rom : bytes) (pos0 : Z) (ps : list pobs) (e : Z) (impl : obs (list pobs * Z))
| CAppend (t1 t2 : list pobs) (impl : obs (list pobs * list Z))
  (* both writers on the same table, then the address file read back through the inverse formula *)
| CWrite (ps : list pobs) (base : Z) (vimpl : obs unit) (vfile : bytes) (aimpl : obs unit) (afile : bytes)
         (back : option (obs (list pobs * Z)))
  (* [expect]: the values the generator intends (it built the old values from the table codes) *)
| CRecode (ps : list pobs) (es1 es2 : list entry) (expect : option (list bytes)) (impl : obs unit) (after : list pobs).

Definition opt_bytes_eqb := option_eqb bytes_eqb.
Definition pobs_eqb (a b : pobs) : bool :=
  (o_id a =? o_id b) && opt_z_eqb (o_addr a) (o_addr b) && opt_bytes_eqb (o_val a) (o_val b).
Definition pobs_list_eqb := list_eqb pobs_eqb.
Definition zlist_eqb := list_eqb Z.eqb.
Definition tbl_pos_eqb (a b : list pobs * Z) : bool := pobs_list_eqb (fst a) (fst b) && (snd a =? snd b).
Definition with_pos (r : res (list pointer * file)) : res (list pobs * Z) :=
  do x <- r; Ok (map of_ptr (fst x), f_pos (snd x)).
Definition unit_of {A} (r : res A) : res unit := do _ <- r; Ok tt.
Definition unit_eqb (_ _ : unit) : bool := true.
Definition mk (content : bytes) (pos : Z) : file := {| f_content := content; f_pos := pos |}.

(** ---- correspondence *)
Definition corr (c : case) : bool :=
  match c with
  | CFixed content pos0 address count len impl =>
      agree_strict tbl_pos_eqb (with_pos (read_fixed_text_list (mk content pos0) address count len)) impl
  | CRead content pos0 address count len f impl =>
      agree_strict tbl_pos_eqb (with_pos (read_pointers (mk content pos0) address count len (rformula_fn f))) impl
  | CContent rom pos0 ps e impl =>
      agree_strict tbl_pos_eqb (with_pos (read_pointers_content (mk rom pos0) (map to_ptr ps) e)) impl
  | CAppend t1 t2 impl =>
      agree_strict (fun a b => pobs_list_eqb (fst a) (fst b) && zlist_eqb (snd a) (snd b))
        (do l <- append_pointers (map to_ptr t1) (map to_ptr t2);
         (* the objects of table 2 carry their new ids: seen through the caller's own list *)
         Ok (map of_ptr l, map (fun o => o_id o + (fold_right Z.max (o_id (hd (0, None, None) t1)) (map o_id t1))) t2))
        impl
  | CWrite ps base vimpl vfile aimpl afile back =>
      let pl := map to_ptr ps in
      agree_strict unit_eqb (unit_of (write_pointers_value_as_binary pl)) vimpl &&
      bytes_eqb (write_pointers_value_file pl) vfile &&
      agree_strict unit_eqb (unit_of (write_pointers_addresses_as_binary pl (long_low_rom_pointer base))) aimpl &&
      bytes_eqb (write_pointers_addresses_file pl (long_low_rom_pointer base)) afile &&
      match back with
      | None => true
      | Some b => agree_strict tbl_pos_eqb
                    (with_pos (read_pointers (mk afile 0) 0 (Z.of_nat (length ps)) 3 long_low_rom_pointer_inverse)) b
      end
  | CRecode ps es1 es2 _ impl after =>
      match table_of_entries es1, table_of_entries es2 with
      | Ok t1, Ok t2 =>
          agree_strict unit_eqb (unit_of (recode_pointer_values (map to_ptr ps) t1 t2)) impl &&
          pobs_list_eqb (map of_ptr (recode_state (map to_ptr ps) t1 t2)) after
      | _, _ => false
      end
  end.

(** ---- specification side, from scratch *)
Definition py_slice (rom : bytes) (a b : Z) : bytes :=       (* rom[a:b], 0 <= a *)
  let hi := Z.min b (Z.of_nat (length rom)) in
  map (fun i => nth i rom 0) (seq (Z.to_nat a) (Z.to_nat (hi - a))).
Definition py_read (rom : bytes) (a n : Z) : bytes :=        (* what read(n) gives at position a *)
  if n <? 0 then py_slice rom a (Z.of_nat (length rom)) else py_slice rom a (a + n).

Fixpoint sel_sort (fuel : nat) (key : pobs -> Z) (l : list pobs) : list pobs :=
  match fuel, l with
  | _, [] => []
  | O, _ => l
  | S k, x :: r =>
      let m := fold_right (fun y a => Z.min (key y) a) (key x) r in
      filter (fun y => key y =? m) l ++ sel_sort k key (filter (fun y => negb (key y =? m)) l)
  end.
Definition sorted_on (key : pobs -> Z) (l : list pobs) : list pobs := sel_sort (length l) key l.
Definition key_addr (o : pobs) : Z := match o_addr o with Some a => a | None => 0 end.
Definition ids_from_zero (l : list pobs) : bool :=
  zlist_eqb (map o_id l) (map Z.of_nat (seq 0 (length l))).
Definition same_ids_addrs (a b : list pobs) : bool :=
  zlist_eqb (map o_id a) (map o_id b) && list_eqb opt_z_eqb (map o_addr a) (map o_addr b).
Definition vals (l : list pobs) : list bytes := map (fun o => match o_val o with Some v => v | None => [] end) l.
Definition all_vals (l : list pobs) : bool := forallb (fun o => match o_val o with Some _ => true | None => false end) l.
Definition blen (b : bytes) : Z := Z.of_nat (length b).

(** successive reads of the sorted table: address, next address (or end) *)
Fixpoint expected_pieces (rom : bytes) (addrs : list Z) (e : Z) : list bytes :=
  match addrs with
  | [] => []
  | a :: r => match r with
              | [] => [py_read rom a (e - a)]
              | b :: _ => py_read rom a (b - a) :: expected_pieces rom r e
              end
  end.

Definition spec_content (rom : bytes) (pos0 : Z) (ps : list pobs) (e : Z) (impl : obs (list pobs * Z)) : bool :=
  match ps with
  | [] => match impl with OErr EIndex => true | _ => false end
  | first :: more =>
      if existsb (fun o => match o_addr o with None => true | _ => false end) ps
      then match impl with OErr EAssert => true | _ => false end
      else
        let srt := sorted_on key_addr ps in
        let addrs := map key_addr srt in
        let lo := hd 0 addrs in
        let hi := last addrs 0 in
        match more with
        | [] =>   (* one pointer: read at the file position, whatever the address *)
            match impl with
            | OOk ([o], pos) =>
                same_ids_addrs [o] ps &&
                opt_bytes_eqb (o_val o) (Some (py_read rom pos0 (e - lo))) &&
                (pos =? pos0 + blen (py_read rom pos0 (e - lo)))
            | _ => false
            end
        | _ =>
            if lo <? 0 then match impl with OErr EValue => true | _ => false end
            else match impl with
                 | OOk (out, pos) =>
                     same_ids_addrs out srt && all_vals out &&
                     (* every value is what a read AT its address gives ... *)
                     list_eqb bytes_eqb (vals out) (expected_pieces rom addrs e) &&
                     (* ... and together they are one piece of the ROM starting at the lowest address *)
                     bytes_eqb (concat (vals out)) (py_read rom lo (if e <? hi then -1 else e - lo)) &&
                     (* within the file: values abut, the position ends at [end] *)
                     (if (hi <=? e) && (e <=? blen rom)
                      then (pos =? e) &&
                           zlist_eqb (map (fun o => key_addr o + blen (match o_val o with Some v => v | None => [] end)) out)
                                     (tl addrs ++ [e])
                      else true)
                 | _ => false
                 end
        end
  end.

(** chunks read by the two list readers: [count] reads of [len] bytes from [address] *)
Fixpoint expected_chunks (content : bytes) (pos : Z) (count : nat) (len : Z) : list bytes :=
  match count with
  | O => []
  | S c => let d := py_read content pos len in d :: expected_chunks content (pos + blen d) c len
  end.
Definition own_snes_to_rom (s : Z) : Z :=
  if 12582912 <=? s then s - 12582912
  else if 8421376 <=? s then (s / 65536 - 128) * 32768 + s mod 32768
  else s / 65536 * 32768 + s mod 32768.
Definition own_formula (f : rformula) (d : bytes) : option Z :=
  match f with
  | FBaseRel base => match d with b0 :: b1 :: _ => Some (b0 + 256 * b1 + base) | _ => None end
  | FLoInv => Some (own_snes_to_rom (fold_right (fun b a => b + 256 * a) 0 d))
  end.

Definition spec_fixed (content : bytes) (address count len : Z) (impl : obs (list pobs * Z)) : bool :=
  if address <? 0 then match impl with OErr EValue => true | _ => false end
  else match impl with
       | OOk (out, pos) =>
           let ch := expected_chunks content address (Z.to_nat count) len in
           ids_from_zero out && forallb (fun o => match o_addr o with None => true | _ => false end) out &&
           all_vals out && list_eqb bytes_eqb (vals out) ch && (pos =? address + blen (concat ch)) &&
           (if 0 <=? len then bytes_eqb (concat ch) (py_slice content address (address + Z.max count 0 * len)) else true)
       | _ => false
       end.
Definition spec_read (content : bytes) (address count len : Z) (f : rformula) (impl : obs (list pobs * Z)) : bool :=
  if address <? 0 then match impl with OErr EValue => true | _ => false end
  else
    let ch := expected_chunks content address (Z.to_nat count) len in
    let addrs := map (own_formula f) ch in
    if existsb (fun a => match a with None => true | _ => false end) addrs
    then match impl with OErr EIndex => true | _ => false end
    else match impl with
         | OOk (out, pos) =>
             ids_from_zero out && list_eqb opt_z_eqb (map o_addr out) addrs &&
             forallb (fun o => match o_val o with None => true | _ => false end) out &&
             (pos =? address + blen (concat ch))
         | _ => false
         end.

Definition spec_append (t1 t2 : list pobs) (impl : obs (list pobs * list Z)) : bool :=
  match t1 with
  | [] => match impl with OErr EIndex => true | _ => false end
  | x :: r =>
      let m := fold_right Z.max (o_id x) (map o_id r) in
      let shift (o : pobs) : pobs := (o_id o + m, o_addr o, o_val o) in
      match impl with
      | OOk (out, ids2) =>
          pobs_list_eqb out (sorted_on o_id t1 ++ map shift (sorted_on o_id t2)) &&
          zlist_eqb ids2 (map (fun o => o_id o + m) t2)
      | _ => false
      end
  end.

(** LoROM, by hand: offset o -> bank o / 0x8000, address 0x8000 + o mod 0x8000, three bytes *)
Definition own_lorom_bytes (o : Z) : bytes := [o mod 256; (o / 256) mod 128 + 128; o / 32768].

(** the address writer, walked by hand: (what is in the file, error met); [None] = no prediction
    (negative offsets go through Python's float division and floor modulo) *)
Fixpoint walk_addrs (base : Z) (l : list pobs) (pos : Z) : option (bytes * option errk) :=
  match l with
  | [] => Some ([], None)
  | o :: r =>
      let a := base + pos in
      if a <? 0 then None
      else if 8388608 <=? a then Some ([], Some EStruct)
      else match o_val o with
           | None => Some (own_lorom_bytes a, Some EAssert)
           | Some v => match walk_addrs base r (pos + blen v) with
                       | Some (t, e) => Some (own_lorom_bytes a ++ t, e)
                       | None => None
                       end
           end
  end.
Fixpoint walk_vals (l : list pobs) : bytes * option errk :=
  match l with
  | [] => ([], None)
  | o :: r => match o_val o with
              | None => ([], Some EAssert)
              | Some v => let '(t, e) := walk_vals r in (v ++ t, e)
              end
  end.
Fixpoint starts (l : list bytes) (pos : Z) : list Z :=
  match l with [] => [] | v :: r => pos :: starts r (pos + blen v) end.
Definition outcome_ok (e : option errk) (o : obs unit) : bool :=
  match e, o with
  | None, OOk _ => true
  | Some k, OErr k' => errk_eqb k k'
  | _, _ => false
  end.

Definition spec_write (ps : list pobs) (base : Z) (vimpl : obs unit) (vfile : bytes) (aimpl : obs unit) (afile : bytes)
           (back : option (obs (list pobs * Z))) : bool :=
  let srt := sorted_on o_id ps in
  let '(vexp, verr) := walk_vals srt in
  outcome_ok verr vimpl && bytes_eqb vexp vfile &&
  match walk_addrs base srt 0 with
  | None => true
  | Some (aexp, aerr) =>
      outcome_ok aerr aimpl && bytes_eqb aexp afile &&
      match aerr, back with
      | None, Some (OOk (out, pos)) =>
          (* every offset inside the LoROM image: the table read back points at the values *)
          if base + blen vexp <? 3670016
          then ids_from_zero out && (pos =? 3 * blen (map (fun _ => 0) ps)) &&
               list_eqb opt_z_eqb (map o_addr out) (map (fun s => Some (base + s)) (starts (vals srt) 0)) &&
               (* i.e. with the values file placed at [base], each value sits at its address *)
               forallb (fun ov => match fst ov with
                                  | Some a => (base <=? a) &&
                                              bytes_eqb (py_slice vfile (a - base) (a - base + blen (snd ov))) (snd ov)
                                  | None => false
                                  end) (combine (map o_addr out) (vals srt))
          else true
      | None, Some _ => false
      | _, _ => true
      end
  end.

Definition spec_recode (ps : list pobs) (expect : option (list bytes)) (impl : obs unit) (after : list pobs) : bool :=
  same_ids_addrs after ps &&
  match expect with
  | Some vs => match impl with OOk _ => list_eqb opt_bytes_eqb (map o_val after) (map Some vs) | _ => false end
  | None =>
      match impl with
      | OOk _ => all_vals ps && all_vals after
      | OErr EAssert => negb (all_vals ps)
      | OErr _ => true
      | OTimeout => false
      end
  end.

Definition spec_ok (c : case) : bool :=
  match c with
  | CFixed content _ address count len impl => spec_fixed content address count len impl
  | CRead content _ address count len f impl => spec_read content address count len f impl
  | CContent rom pos0 ps e impl => spec_content rom pos0 ps e impl
  | CAppend t1 t2 impl => spec_append t1 t2 impl
  | CWrite ps base vimpl vfile aimpl afile back => spec_write ps base vimpl vfile aimpl afile back
  | CRecode ps _ _ expect impl after => spec_recode ps expect impl after
  end.

Definition check (c : case) : bool * bool := (corr c, spec_ok c).

(** what the model says, for the report of a disagreement *)
Inductive view :=
| VTable (r : res (list pobs * Z))
| VAppend (r : res (list pobs))
| VWrite (v : res bytes) (vfile : bytes) (a : res bytes) (afile : bytes)
| VRecode (r : res (list pobs)) (after : list pobs).
Definition model_view (c : case) : view :=
  match c with
  | CFixed content pos0 address count len _ => VTable (with_pos (read_fixed_text_list (mk content pos0) address count len))
  | CRead content pos0 address count len f _ => VTable (with_pos (read_pointers (mk content pos0) address count len (rformula_fn f)))
  | CContent rom pos0 ps e _ => VTable (with_pos (read_pointers_content (mk rom pos0) (map to_ptr ps) e))
  | CAppend t1 t2 _ => VAppend (do l <- append_pointers (map to_ptr t1) (map to_ptr t2); Ok (map of_ptr l))
  | CWrite ps base _ _ _ _ _ =>
      let pl := map to_ptr ps in
      VWrite (write_pointers_value_as_binary pl) (write_pointers_value_file pl)
             (write_pointers_addresses_as_binary pl (long_low_rom_pointer base))
             (write_pointers_addresses_file pl (long_low_rom_pointer base))
  | CRecode ps es1 es2 _ _ _ =>
      match table_of_entries es1, table_of_entries es2 with
      | Ok t1, Ok t2 => VRecode (do l <- recode_pointer_values (map to_ptr ps) t1 t2; Ok (map of_ptr l))
                                (map of_ptr (recode_state (map to_ptr ps) t1 t2))
      | _, _ => VRecode (Err EOther) []
      end
  end.
