(** SCAN — case type, correspondence check (scanner model vs Scanner.scan) and the position
    oracle (closed forms of Proofs/ScannerSpec.v evaluated on the implementation's observed
    tokens / exception; it never calls the scanner model). *)
From A816 Require Export Model.Scanner Proofs.ScannerSpec Oracle.Obs.
From Coq Require Import Arith.
Open Scope Z_scope.

(** An observed token: TokenType value, text, Position.line, Position.column, and the value of
    [Scanner.start] when [emit] was called (recorded by a subclass wrapper in the harness). *)
Inductive otok := OT (code : Z) (value : str) (line col : Z) (startoff : Z).

Inductive sobs :=
| SOk (toks : list otok) (lines : list str)                   (* returned tokens, scanner.file.lines *)
| SErr (msg : str) (line col : Z) (quoted : option str)       (* str(e), e.position, position.get_line() *)
       (toks : list otok) (lines : list str)                  (* scanner.tokens, scanner.file.lines afterwards *)
| SOther.                                                     (* watchdog timeout or any other exception *)

Inductive entry := E_initial | E_expression.
Record case := mk_case { c_entry : entry; c_file : str; c_input : str; c_obs : sobs }.

(* ------------------------------------------------------------------------------------------ *)
(** * Correspondence *)

Definition tok_agree (file : str) (t : token) (o : otok) : bool :=
  let '(OT code value line col _) := o in
  (ttype_code (t_type t) =? code) && str_eqb (t_value t) value &&
  match t_pos t with
  | Some p => (tp_line p =? line) && (tp_col p =? col) && str_eqb (tp_file p) file
  | None => false
  end.

Fixpoint list_agree {A B} (f : A -> B -> bool) (a : list A) (b : list B) : bool :=
  match a, b with
  | [], [] => true
  | x :: a', y :: b' => f x y && list_agree f a' b'
  | _, _ => false
  end.

Definition model_run (lx : lexicon) (c : case) : scan_result :=
  match c_entry c with
  | E_initial => scan lx (c_file c) (c_input c)
  | E_expression => scan_expression (c_file c) (c_input c)
  end.

Definition corr (lx : lexicon) (c : case) : bool :=
  match model_run lx c, c_obs c with
  | ScanOk toks lines, SOk otoks olines =>
      list_agree (tok_agree (c_file c)) toks otoks && list_eqb str_eqb lines olines
  | ScanErr e, SErr msg line col quoted otoks olines =>
      str_eqb (render_msg (se_msg e)) msg && (se_line e =? line) && (se_col e =? col) &&
      option_eqb str_eqb (se_quoted e) quoted &&
      list_agree (tok_agree (c_file c)) (se_toks e) otoks && list_eqb str_eqb (se_lines e) olines
  | _, _ => false
  end.

(* ------------------------------------------------------------------------------------------ *)
(** * Oracle: independent closed forms on the implementation's output *)

Fixpoint strip_prefix (p s : str) : option str :=
  match p, s with
  | [], _ => Some s
  | a :: p', b :: s' => if a =? b then strip_prefix p' s' else None
  | _, [] => None
  end.

Definition is_some {A} (o : option A) : bool := match o with Some _ => true | None => false end.

Fixpoint has_close (l : str) : bool :=       (* "*/" occurs in l *)
  match l with
  | a :: ((b :: _) as r) => ((a =? 42) && (b =? 47)) || has_close r
  | _ => false
  end.

Definition nthz (s : str) (i : nat) : Z := nth i s 0.

(** every non-comment token sits where its (line, col) say, and carries the text found there *)
Definition otok_ok (s : str) (o : otok) : bool :=
  let '(OT code value line col st) := o in
  (code =? ttype_code T_COMMENT) ||
  ((0 <=? st) &&
   let off := Z.to_nat st in
   (line =? Z.of_nat (line_of s off)) && (col =? col_of s off) &&
   str_eqb value (slice s off (off + length value)) &&
   (off + length value <=? length s)%nat &&
   negb (mem_z 10 value)).

(** EOF exactly once, at the end *)
Fixpoint eof_last (l : list otok) : bool :=
  match l with
  | [] => false
  | [OT code _ _ _ _] => code =? ttype_code T_EOF
  | OT code _ _ _ _ :: r => negb (code =? ttype_code T_EOF) && eof_last r
  end.

Definition m_invalid_input : str := [73;110;118;97;108;105;100;32;73;110;112;117;116;32].
Definition m_unterminated_string : str := [85;110;116;101;114;109;105;110;97;116;101;100;32;83;116;114;105;110;103].
Definition m_unterminated_comment : str := [85;110;116;101;114;109;105;110;97;116;101;100;32;67;111;109;109;101;110;116].
Definition m_invalid_size : str := [73;110;118;97;108;105;100;32;83;105;122;101;32;83;112;101;99;105;102;105;101;114].
Definition m_invalid_index : str := [73;110;118;97;108;105;100;32;105;110;100;101;120].
Definition m_unknown_keyword : str := [85;110;107;110;111;119;110;32;75;101;121;119;111;114;100;32].

(** what the message says about the character at the reported offset *)
Definition site_ok (lx : lexicon) (s : str) (off : nat) (msg : str) : bool :=
  match strip_prefix m_invalid_input msg with
  | Some rest => str_eqb rest (skipn off s) && (off <? length s)%nat
  | None =>
  match strip_prefix m_unknown_keyword msg with
  | Some kw =>
      (1 <=? off)%nat && (nthz s (off - 1) =? 46) &&
      str_eqb kw (slice s off (off + length kw)) && (off + length kw <=? length s)%nat &&
      forallb (fun c => mem_z c kw_chars) kw && negb (mem_z (nthz s (off + length kw)) kw_chars) &&
      negb (mem_str kw (lx_keywords lx))
  | None =>
      if str_eqb msg m_unterminated_string then nthz s off =? 39
      else if str_eqb msg m_unterminated_comment then
        str_eqb (slice s off (off + 2)) [47;42] && negb (has_close (skipn (off + 2) s))
      else if str_eqb msg m_invalid_size then
        (1 <=? off)%nat && (nthz s (off - 1) =? 46) && negb (mem_z (nthz s off) size_chars)
      else if str_eqb msg m_invalid_index then negb (mem_z (nthz s off) index_chars)
      else false
  end
  end.

Definition spec_ok (lx : lexicon) (c : case) : bool :=
  let s := c_input c in
  match c_obs c with
  | SOk otoks olines =>
      forallb (otok_ok s) otoks && eof_last otoks && list_eqb str_eqb olines (split_nl s)
  | SErr msg line col quoted otoks olines =>
      forallb (otok_ok s) otoks &&
      (0 <=? line) && (0 <=? col) &&
      match line_offset s (Z.to_nat line) with
      | None => false                                   (* the reported line does not exist *)
      | Some lo =>
          let off := (lo + Z.to_nat col)%nat in
          (off <=? length s)%nat &&
          (Z.of_nat (line_of s off) =? line) &&         (* the column lies within that line *)
          match quoted with
          | Some q =>
              if mem_z 0 s then is_some (strip_prefix q (line_text s (Z.to_nat line)))   (* the handler stops at a NUL *)
              else str_eqb q (line_text s (Z.to_nat line))
          | None => false
          end &&
          site_ok lx s off msg
      end
  | SOther => false
  end.

Definition check (lx : lexicon) (c : case) : bool * bool := (corr lx c, spec_ok lx c).

Definition model_view (lx : lexicon) (c : case) : scan_result := model_run lx c.
