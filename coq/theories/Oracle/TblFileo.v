(** TBLFILE — tie of Model/TableFile.v (loading a [.tbl] file from its text) to script.Table.

    A case = the decoded characters of a generated table file as written on disk, what the
    generator intended it to mean, and what [script.Table(path)] did with it: the exception kind,
    or [lookup] / [inverted_lookup] in insertion order, both maxima, and [to_bytes] of some probes.

    Correspondence bit: [table_of_file raw] (Model/TableFile.v) against the observation, field by
    field, and Model/Table.v's [to_bytes] on the loaded table against the observed probe results.

    Oracle bit (never calls a Model/TableFile.v function): the observed object against the
    generator's intent — for files made of rendered well-formed lines and lines that are known not
    to be table lines, [lookup] / [inverted_lookup] are the intended entries with last-write-wins
    (dictionary built here from scratch: keys in first-occurrence order, last value) and the maxima
    are those of the surviving [lookup] pairs; files with an intended failing line, or without any
    entry, must raise ValueError; for every accepted file: structural facts about the object. *)
From A816 Require Export Model.TableFile Oracle.Obs.
Open Scope Z_scope.

Inductive intent :=
| IEntries (es : list entry)   (* exactly these entries, in this order (none = ValueError) *)
| IError                       (* a line that must raise ValueError *)
| IUnknown.                    (* random text: no prediction *)

(** (lookup items, inverted_lookup items, (max_bytes_length, max_text_length)) *)
Definition tbl_obs : Type := (list (str * bytes) * list (bytes * (str * option Z)) * (Z * Z))%type.

Inductive case :=
| CFile (raw : str) (it : intent) (impl : obs tbl_obs) (probes : list (str * obs bytes)).

Definition pair_eqb {A B} (ea : A -> A -> bool) (eb : B -> B -> bool) (x y : A * B) : bool :=
  ea (fst x) (fst y) && eb (snd x) (snd y).
Definition lookup_eqb : list (str * bytes) -> list (str * bytes) -> bool :=
  list_eqb (pair_eqb str_eqb bytes_eqb).
Definition inv_eqb : list (bytes * (str * option Z)) -> list (bytes * (str * option Z)) -> bool :=
  list_eqb (pair_eqb bytes_eqb (pair_eqb str_eqb opt_z_eqb)).

(** ---- correspondence *)
Definition corr (c : case) : bool :=
  match c with
  | CFile raw _ impl probes =>
      match table_of_file raw, impl with
      | Ok t, OOk (lk, inv, (mb, mt)) =>
          lookup_eqb (t_lookup t) lk && inv_eqb (t_inv t) inv &&
          (Z.of_nat (t_max_bytes t) =? mb) && (Z.of_nat (t_max_text t) =? mt) &&
          forallb (fun p => agree_strict bytes_eqb (to_bytes t (fst p)) (snd p)) probes
      | Err j, OErr k => errk_eqb j k && match probes with [] => true | _ => false end
      | _, _ => false
      end
  end.

(** ---- specification side: a Python dict built from scratch *)
Section SpecDict.
  Context {V : Type}.
  Fixpoint last_binding (k : str) (l : list (str * V)) (acc : option V) : option V :=
    match l with
    | [] => acc
    | (k', v) :: r => last_binding k r (if str_eqb k k' then Some v else acc)
    end.
  Fixpoint first_keys (seen : list str) (l : list (str * V)) : list str :=
    match l with
    | [] => []
    | (k, _) :: r => if existsb (str_eqb k) seen then first_keys seen r else k :: first_keys (k :: seen) r
    end.
  Definition spec_dict (l : list (str * V)) : list (str * option V) :=
    map (fun k => (k, last_binding k l None)) (first_keys [] l).
End SpecDict.

Definition max_length (xs : list (list Z)) : Z :=
  fold_right (fun x m => Z.max (Z.of_nat (length x)) m) 0 xs.

Definition some_pair_eqb {A} (eqb : A -> A -> bool) (x : str * option A) (y : str * A) : bool :=
  str_eqb (fst x) (fst y) && match snd x with Some a => eqb a (snd y) | None => false end.
Fixpoint list_eqb2 {A B} (eqb : A -> B -> bool) (a : list A) (b : list B) : bool :=
  match a, b with
  | [], [] => true
  | x :: a', y :: b' => eqb x y && list_eqb2 eqb a' b'
  | _, _ => false
  end.

Definition has_bs_n (s : str) : bool :=
  existsb (fun p => (fst p =? 92) && (snd p =? 110)) (combine s (tl s)).

(** facts about every loaded object: something was loaded; the maxima are those of [lookup]; texts
    and codes are non-empty; no text contains backslash-n (it was replaced) ; every text of
    [inverted_lookup] is a key of [lookup] and every code of [lookup] a key of [inverted_lookup];
    ignore counts are non-negative *)
Definition structural (o : tbl_obs) : bool :=
  let '(lk, inv, (mb, mt)) := o in
  nonempty lk && nonempty inv &&
  (mb =? max_length (map snd lk)) && (mt =? max_length (map fst lk)) && (1 <=? mb) && (1 <=? mt) &&
  forallb (fun p => nonempty (fst p) && nonempty (snd p) && negb (has_bs_n (fst p)) &&
                    existsb (fun q => bytes_eqb (fst q) (snd p)) inv) lk &&
  forallb (fun q => nonempty (fst q) && existsb (fun p => str_eqb (fst p) (fst (snd q))) lk &&
                    match snd (snd q) with Some k => 0 <=? k | None => true end) inv.

Definition spec_ok (c : case) : bool :=
  match c with
  | CFile _ it impl _ =>
      match it with
      | IEntries [] => match impl with OErr EValue => true | _ => false end
      | IEntries es =>
          match impl with
          | OOk (lk, inv, (mb, mt)) =>
              list_eqb2 (some_pair_eqb bytes_eqb) (spec_dict (map (fun e => (e_text e, e_code e)) es)) lk &&
              list_eqb2 (some_pair_eqb (pair_eqb str_eqb opt_z_eqb))
                        (spec_dict (map (fun e => (e_code e, (e_text e, e_ignore e))) es)) inv &&
              structural (lk, inv, (mb, mt))
          | _ => false
          end
      | IError => match impl with OErr EValue => true | _ => false end
      | IUnknown =>
          match impl with
          | OOk o => structural o
          | OErr EValue => true
          | _ => false
          end
      end
  end.

Definition check (c : case) : bool * bool := (corr c, spec_ok c).

Definition model_view (c : case) : res table * res (list entry) :=
  match c with
  | CFile raw _ _ _ => (table_of_file raw, entries_of_text (universal_newlines raw))
  end.
