(** C14 / C19 / C12 — the front ends: success is announced exactly when the assembly and the
    writer succeeded; serving requests never changes the shared state. *)
From Coq Require Import ZArith List Lia Bool.
From A816 Require Import Model.Assemble Proofs.IpsProofs.
Open Scope Z_scope.

Definition succeeded (r : aresult) : Prop := exists o f, r = AOk o f.

(** *** C14 *)
Theorem file_api_zero_iff f r :
  (exists ann file, file_api f r = (SReturn 0 ann, file)) <->
  (exists o fin bs, r = AOk o fin /\ output_file f o = Ok bs).
Proof.
  split.
  - intros (ann & file & H). destruct r as [o fin|fl e|t|k site|]; cbn [file_api] in H.
    + destruct (output_file f o) as [bs|k|] eqn:E.
      * exists o, fin, bs. auto.
      * destruct k; inversion H.
      * inversion H.
    + inversion H.
    + inversion H.
    + destruct k; inversion H.
    + inversion H.
  - intros (o & fin & bs & -> & E). cbn [file_api]. rewrite E. eauto.
Qed.

(** "Success !" is logged exactly with status 0, and an output file is only claimed then. *)
Theorem file_api_announces f r code ann file :
  file_api f r = (SReturn code ann, file) -> (ann = true <-> code = 0) /\ (file <> None -> code = 0).
Proof.
  destruct r as [o fin|fl e|t|k site|]; cbn [file_api].
  - destruct (output_file f o) as [bs|k|]; [|destruct k|]; intros H; inversion H; subst;
      (split; [split; intros; congruence || lia|intros; congruence || reflexivity]).
  - intros H; inversion H; subst. split; [split; intros; congruence || lia|intros N; congruence].
  - intros H; inversion H; subst. split; [split; intros; congruence || lia|intros N; congruence].
  - destruct k; intros H; inversion H; subst; (split; [split; intros; congruence || lia|intros N; congruence]).
  - intros H; inversion H.
Qed.

(** The string API returns None exactly on success. *)
Theorem string_api_none_iff r : string_api r = RNone <-> exists o f, r = AOk o f.
Proof.
  destruct r; cbn [string_api]; split; try discriminate; eauto; intros (o' & f' & H); discriminate.
Qed.

(** The process exit status is zero exactly when the file API returned 0. *)
Theorem cli_exit_zero_iff s : cli_exit s = 0 <-> exists ann, s = SReturn 0 ann \/ (exists c, s = SReturn c ann /\ c mod 256 = 0).
Proof.
  destruct s as [c ann|k]; cbn [cli_exit]; split.
  - intros H. exists ann. right. eauto.
  - intros (a & [H|(c' & H & M)]); inversion H; subst; auto.
  - discriminate.
  - intros (a & [H|(c' & H & M)]); discriminate.
Qed.
(** The only statuses the file APIs return are 0 and -1, so exit status 0 means status 0. *)
Theorem file_api_codes f r code ann file : file_api f r = (SReturn code ann, file) -> code = 0 \/ code = -1.
Proof.
  destruct r as [o fin|fl e|t|k site|]; cbn [file_api].
  - destruct (output_file f o) as [bs|k|]; [|destruct k|]; intros H; inversion H; auto.
  - intros H; inversion H; auto.
  - intros H; inversion H; auto.
  - destruct k; intros H; inversion H; auto.
  - intros H; inversion H.
Qed.
Theorem cli_exit_zero_success f r :
  cli_exit (fst (file_api f r)) = 0 <-> exists o fin bs, r = AOk o fin /\ output_file f o = Ok bs.
Proof.
  rewrite <- file_api_zero_iff. destruct (file_api f r) as [s file] eqn:E. cbn [fst]. split.
  - destruct s as [c ann|k]; cbn [cli_exit]; [|discriminate]. intros H.
    destruct (file_api_codes _ _ _ _ _ E) as [->| ->]; [eauto|discriminate].
  - intros (ann & fl & H). inversion H; subst. reflexivity.
Qed.

(** Every failure class: what each kind of failed assembly turns into. *)
Theorem failure_classes f r :
  (forall o fin, r <> AOk o fin) ->
  match fst (file_api f r) with
  | SReturn c ann => c = -1 /\ ann = false
  | SRaise _ => True
  end /\ snd (file_api f r) = None /\ string_api r <> RNone.
Proof.
  intros H. destruct r as [o fin|fl e|t|k site|]; cbn [file_api string_api fst snd].
  - exfalso. eapply H; reflexivity.
  - repeat split; auto; discriminate.
  - repeat split; auto; discriminate.
  - destruct k; repeat split; auto; discriminate.
  - repeat split; auto; discriminate.
Qed.

(** *** C19 *)
Theorem serve_keeps_globals g q : fst (serve g q) = g.
Proof. reflexivity. Qed.

Fixpoint serve_all (g : globals) (qs : list request) : globals :=
  match qs with [] => g | q :: rest => serve_all (fst (serve g q)) rest end.

Theorem history_independent g history probe :
  snd (serve (serve_all g history) probe) = snd (serve g probe).
Proof.
  revert g; induction history as [|q rest IH]; intros g; cbn [serve_all]; [reflexivity|].
  rewrite IH. reflexivity.
Qed.

Corollary repeatable g probe : snd (serve (fst (serve g probe)) probe) = snd (serve g probe).
Proof. reflexivity. Qed.

(** The shared default buses are frozen: mapping or unmapping them is refused. *)
Theorem frozen_bus_map b id banks mask w mir : b_editable b = false -> bus_map b id banks mask w mir = Err ERuntime.
Proof. intros H. unfold bus_map. rewrite H. reflexivity. Qed.
Theorem frozen_bus_unmap b id : b_editable b = false -> bus_unmap b id = Err ERuntime.
Proof. intros H. unfold bus_unmap. rewrite H. reflexivity. Qed.
(** ... and a program's own [.map] lines go to its own, initially empty, editable bus. *)
Theorem own_bus_is_fresh w r : resolver_init w = Ok r -> r_bus r = empty_bus.
Proof.
  unfold resolver_init. destruct (w_builtin w LowRom); try discriminate.
  unfold set_position. destruct (get_bus w _); cbn [bind]; try discriminate.
  destruct (mk_addr _ _); cbn [bind]; try discriminate.
  destruct (addr_phys _) as [[p|]| |]; cbn [bind]; try discriminate; intros H; inversion H; reflexivity.
Qed.

(** *** C12: what a front end writes is the in-memory assembly through the chosen writer *)
Theorem front_is_memory_assembly f o fin :
  file_api f (AOk o fin) =
  match output_file f o with
  | Ok bs => (SReturn 0 true, Some bs)
  | Err ERuntime => (SReturn (-1) false, None)
  | Err k => (SRaise k, None)
  | OutOfFuel => (SRaise EOther, None)
  end.
Proof. reflexivity. Qed.

Theorem symbol_line_fields r name v :
  In (name, v) (get_all_labels r) ->
  In ((v / 65536) mod 256, v mod 65536, name) (symbol_lines r).
Proof.
  intros H. unfold symbol_lines. apply in_map_iff. exists (name, v). split; [|exact H].
  cbn [fst snd]. f_equal. f_equal.
  - rewrite Z.shiftr_div_pow2 by lia. change 255 with (Z.ones 8). rewrite Z.land_ones by lia. reflexivity.
  - change 65535 with (Z.ones 16). rewrite Z.land_ones by lia. reflexivity.
Qed.
