(** Bit-operation lemmas reducing the Python [& | << >> ~] idioms of the code to [/ mod + *]. *)
From Coq Require Import ZArith Lia Bool ZifyBool.
Open Scope Z_scope.
Ltac Zify.zify_post_hook ::= Z.to_euclidean_division_equations.

Lemma shiftr16 v : Z.shiftr v 16 = v / 65536.
Proof. rewrite Z.shiftr_div_pow2 by lia. reflexivity. Qed.
Lemma shiftr8 v : Z.shiftr v 8 = v / 256.
Proof. rewrite Z.shiftr_div_pow2 by lia. reflexivity. Qed.
Lemma shiftl16 v : Z.shiftl v 16 = v * 65536.
Proof. rewrite Z.shiftl_mul_pow2 by lia. reflexivity. Qed.
Lemma shiftl8 v : Z.shiftl v 8 = v * 256.
Proof. rewrite Z.shiftl_mul_pow2 by lia. reflexivity. Qed.

Lemma land_255 v : Z.land v 255 = v mod 256.
Proof. change 255 with (Z.ones 8). rewrite Z.land_ones by lia. reflexivity. Qed.
Lemma land_65535 v : Z.land v 65535 = v mod 65536.
Proof. change 65535 with (Z.ones 16). rewrite Z.land_ones by lia. reflexivity. Qed.
Lemma land_32767 v : Z.land v 32767 = v mod 32768.
Proof. change 32767 with (Z.ones 15). rewrite Z.land_ones by lia. reflexivity. Qed.

(** value & ~mask & 0xFFFF for the two window sizes *)
Lemma low15 v : Z.land (Z.land v (Z.lnot 32768)) 65535 = v mod 32768.
Proof.
  rewrite <- Z.land_assoc.
  replace (Z.land (Z.lnot 32768) 65535) with (Z.ones 15) by reflexivity.
  apply Z.land_ones. lia.
Qed.
Lemma low16 v : Z.land (Z.land v (Z.lnot 65536)) 65535 = v mod 65536.
Proof.
  rewrite <- Z.land_assoc.
  replace (Z.land (Z.lnot 65536) 65535) with (Z.ones 16) by reflexivity.
  apply Z.land_ones. lia.
Qed.

Lemma land_disjoint_low b x k : 0 <= k -> 0 <= x < 2 ^ k -> Z.land (b * 2 ^ k) x = 0.
Proof.
  intros Hk Hx. apply Z.bits_inj'. intros n Hn. rewrite Z.land_spec, Z.bits_0.
  destruct (Z.ltb_spec n k).
  - rewrite Z.mul_pow2_bits_low by lia. reflexivity.
  - destruct (Z.eq_dec x 0) as [->|Hne]; [rewrite Z.bits_0; apply andb_false_r|].
    rewrite (Z.bits_above_log2 x n); [apply andb_false_r|lia|].
    apply Z.log2_lt_pow2; [lia|].
    apply Z.lt_le_trans with (2 ^ k); [apply Hx|apply Z.pow_le_mono_r; lia].
Qed.

(** (b << k) | x = b * 2^k + x when x fits in k bits *)
Lemma lor_shift b x k : 0 <= k -> 0 <= x < 2 ^ k -> Z.lor (Z.shiftl b k) x = b * 2 ^ k + x.
Proof.
  intros Hk Hx. rewrite Z.shiftl_mul_pow2 by lia.
  rewrite <- Z.lxor_lor by (apply land_disjoint_low; lia).
  rewrite <- Z.add_nocarry_lxor by (apply land_disjoint_low; lia).
  reflexivity.
Qed.
Lemma lor_shift16 b x : 0 <= x < 65536 -> Z.lor (Z.shiftl b 16) x = b * 65536 + x.
Proof. intros H. rewrite lor_shift by lia. reflexivity. Qed.
