(** * The C05 run-time oracle clause and the model's branch emission

    [Oracle/Coreo.v], clause [SBranch high p t op skip expect_reject] of [spec_ok], is evaluated by
    the harness on the IMPLEMENTATION's output for hand-laid branch programs.  Its case analysis is
    written with the closed forms [rom_offset high] / [is_ram high] of [Spec/BusLaws].  This file
    proves that, on the specification buses [builtin high] ([BusProofs.lorom] / [BusProofs.hirom],
    the values of [low_rom_bus_spec] / [high_rom_bus_spec]), the MODEL's [rel_emit] does in every
    case of the clause what the clause demands:

    - [branch_oracle_accept]: both in ROM, same bank, distance in -128..127: the two bytes
      [op; (t - (p + 2)) mod 256];
    - [branch_oracle_reject_range]: both in ROM, same bank, distance out of reach: an error;
    - [branch_oracle_reject_ram]: run address or target in RAM: an error;
    - [branch_oracle_reject_far]: both in ROM (any banks), FILE distance out of reach: an error.

    The resolver condition is the one of [C05_encode]: the bus in force ([get_bus]) and the bus of
    the relocation address are the built-in bus, the run address [p] is the value of the relocation
    address, and [r_pc] is the file offset of [p] (the emission invariant of C03). *)
From Coq Require Import ZArith List Lia Bool ZifyBool.
From A816 Require Import Model.Nodes Spec.BusLaws Proofs.BitLemmas Proofs.BusProofs Proofs.BranchProofs
  Oracle.Coreo.
Import ListNotations.
Open Scope Z_scope.
Ltac Zify.zify_post_hook ::= Z.to_euclidean_division_equations.

(** the specification bus and its closed form *)
Definition builtin (high : bool) : bus := if high then hirom else lorom.
Definition builtin_spec (high : bool) (a : Z) : res (option Z) := if high then hirom_spec a else lorom_spec a.

Lemma builtin_closed_form high a : addr_physical (builtin high) a = builtin_spec high a.
Proof. destruct high; [apply hirom_closed_form|apply lorom_closed_form]. Qed.

(** the oracle's [rom_offset] is a case of the closed form *)
Lemma rom_offset_spec high a o : rom_offset high a = Some o -> builtin_spec high a = Ok (Some o).
Proof.
  unfold rom_offset, builtin_spec. destruct high.
  - destruct (hirom_spec a) as [[q|]| |]; intros H; try discriminate H. inversion H. reflexivity.
  - destruct (32768 <=? a mod 65536); [|discriminate].
    destruct (lorom_spec a) as [[q|]| |]; intros H; try discriminate H. inversion H. reflexivity.
Qed.

Lemma is_ram_spec high a : is_ram high a = true -> builtin_spec high a = Ok None.
Proof.
  unfold is_ram, builtin_spec. destruct high.
  - destruct (hirom_spec a) as [[q|]| |]; intros H; try discriminate H; reflexivity.
  - destruct (lorom_spec a) as [[q|]| |]; intros H; try discriminate H; reflexivity.
Qed.

Lemma builtin_spec_fuel high a : builtin_spec high a <> OutOfFuel.
Proof.
  unfold builtin_spec, hirom_spec, lorom_spec. destruct high;
    repeat match goal with |- context [if ?c then _ else _] => destruct c end; discriminate.
Qed.

(** [rel_emit] in terms of the two physical addresses *)
Lemma rel_emit_physical w r op t bus :
  get_bus w r = Ok bus ->
  rel_emit w r op (Some (Ok t)) =
  (do dest <- addr_physical bus t;
   match dest with
   | None => Err ERuntime
   | Some pd =>
       do here <- addr_physical (a_bus (r_reloc r)) (a_val (r_reloc r));
       match here with
       | None => Err ERuntime
       | Some _ => do ob <- pack_B op; do db <- pack_b (pd - r_pc r - 2); Ok (ob ++ db)
       end
   end).
Proof.
  intros Hbus. unfold rel_emit. cbn [bind]. rewrite Hbus. cbn [bind].
  unfold mk_addr, get_address, addr_phys, addr_physical.
  destruct (bus_mapping_for_bank bus (Z.shiftr t 16)) as [m| |] eqn:Em; cbn [bind a_bus a_val];
    try rewrite Em; reflexivity.
Qed.

(** both in ROM under the built-in bus, file offset in step: the branch is packed from the FILE
    distance *)
Lemma rel_emit_rom w r high p t op op' ot :
  get_bus w r = Ok (builtin high) -> a_bus (r_reloc r) = builtin high -> a_val (r_reloc r) = p ->
  rom_offset high p = Some op' -> rom_offset high t = Some ot ->
  r_pc r = op' -> byte_ok op = true ->
  rel_emit w r op (Some (Ok t)) = branch_bytes op (ot - (op' + 2)).
Proof.
  intros Hbus Hab Hav Hp Ht Hpc Hop.
  rewrite (rel_emit_physical w r op t _ Hbus), Hab, Hav, !builtin_closed_form.
  rewrite (rom_offset_spec _ _ _ Hp), (rom_offset_spec _ _ _ Ht). cbn [bind].
  unfold pack_B. rewrite Hop. cbn [bind]. rewrite Hpc.
  replace (ot - op' - 2) with (ot - (op' + 2)) by lia.
  unfold pack_b, branch_bytes.
  destruct ((-128 <=? ot - (op' + 2)) && (ot - (op' + 2) <=? 127)); reflexivity.
Qed.

(** same bank, both in ROM: the file distance is the distance of the addresses *)
Lemma rom_offset_same_bank high p t op' ot :
  rom_offset high p = Some op' -> rom_offset high t = Some ot -> p / 65536 = t / 65536 ->
  ot - op' = t - p.
Proof.
  unfold rom_offset, hirom_spec, lorom_spec, bank_of. intros Hp Ht Hb. rewrite <- Hb in Ht.
  destruct high.
  - destruct ((126 <=? p / 65536) && (p / 65536 <=? 127)); [discriminate|].
    destruct ((64 <=? p / 65536) && (p / 65536 <=? 125)).
    + inversion Hp. inversion Ht. lia.
    + destruct ((192 <=? p / 65536) && (p / 65536 <=? 255)); [|discriminate].
      inversion Hp. inversion Ht. lia.
  - destruct (Z.leb_spec 32768 (p mod 65536)) as [Hwp|]; [|discriminate].
    destruct (Z.leb_spec 32768 (t mod 65536)) as [Hwt|]; [|discriminate].
    destruct ((0 <=? p / 65536) && (p / 65536 <=? 111)).
    + inversion Hp. inversion Ht. lia.
    + destruct ((128 <=? p / 65536) && (p / 65536 <=? 207)).
      * inversion Hp. inversion Ht. lia.
      * destruct ((126 <=? p / 65536) && (p / 65536 <=? 127)); discriminate.
Qed.

(** ** (a) acceptance *)
Theorem branch_oracle_accept w r high p t op op' ot :
  get_bus w r = Ok (builtin high) -> a_bus (r_reloc r) = builtin high -> a_val (r_reloc r) = p ->
  rom_offset high p = Some op' -> rom_offset high t = Some ot ->
  p / 65536 = t / 65536 -> -128 <= t - (p + 2) <= 127 ->
  r_pc r = op' -> byte_ok op = true ->
  rel_emit w r op (Some (Ok t)) = Ok [op; (t - (p + 2)) mod 256].
Proof.
  intros Hbus Hab Hav Hp Ht Hb Hd Hpc Hop.
  rewrite (rel_emit_rom w r high p t op op' ot Hbus Hab Hav Hp Ht Hpc Hop).
  pose proof (rom_offset_same_bank high p t op' ot Hp Ht Hb) as Hdiff.
  replace (ot - (op' + 2)) with (t - (p + 2)) by lia.
  unfold branch_bytes.
  destruct ((-128 <=? t - (p + 2)) && (t - (p + 2) <=? 127)) eqn:E; [reflexivity|lia].
Qed.

(** ** (c) both in ROM, file distance out of reach (whatever the banks): rejected *)
Theorem branch_oracle_reject_far w r high p t op op' ot :
  get_bus w r = Ok (builtin high) -> a_bus (r_reloc r) = builtin high -> a_val (r_reloc r) = p ->
  rom_offset high p = Some op' -> rom_offset high t = Some ot ->
  (ot - (op' + 2) < -128 \/ 127 < ot - (op' + 2)) ->
  r_pc r = op' -> byte_ok op = true ->
  rel_emit w r op (Some (Ok t)) = Err EStruct.
Proof.
  intros Hbus Hab Hav Hp Ht Hd Hpc Hop.
  rewrite (rel_emit_rom w r high p t op op' ot Hbus Hab Hav Hp Ht Hpc Hop).
  unfold branch_bytes.
  destruct ((-128 <=? ot - (op' + 2)) && (ot - (op' + 2) <=? 127)) eqn:E; [lia|reflexivity].
Qed.

(** ** (b) same bank, distance out of reach: rejected *)
Theorem branch_oracle_reject_range w r high p t op op' ot :
  get_bus w r = Ok (builtin high) -> a_bus (r_reloc r) = builtin high -> a_val (r_reloc r) = p ->
  rom_offset high p = Some op' -> rom_offset high t = Some ot ->
  p / 65536 = t / 65536 -> (t - (p + 2) < -128 \/ 127 < t - (p + 2)) ->
  r_pc r = op' -> byte_ok op = true ->
  rel_emit w r op (Some (Ok t)) = Err EStruct.
Proof.
  intros Hbus Hab Hav Hp Ht Hb Hd Hpc Hop.
  pose proof (rom_offset_same_bank high p t op' ot Hp Ht Hb) as Hdiff.
  apply (branch_oracle_reject_far w r high p t op op' ot); try assumption. lia.
Qed.

(** ** (b) run address or target in RAM: rejected (no condition on [r_pc] nor on [op]) *)
Theorem branch_oracle_reject_ram w r high p t op :
  get_bus w r = Ok (builtin high) -> a_bus (r_reloc r) = builtin high -> a_val (r_reloc r) = p ->
  is_ram high p = true \/ is_ram high t = true ->
  is_err (rel_emit w r op (Some (Ok t))) = true.
Proof.
  intros Hbus Hab Hav Hram.
  rewrite (rel_emit_physical w r op t _ Hbus), Hab, Hav, !builtin_closed_form.
  destruct Hram as [Hr|Hr].
  - rewrite (is_ram_spec _ _ Hr).
    pose proof (builtin_spec_fuel high t) as Hf.
    destruct (builtin_spec high t) as [[pd|]| |]; try reflexivity. contradiction.
  - rewrite (is_ram_spec _ _ Hr). reflexivity.
Qed.

(** the same with the oracle's own boolean tests, as the clause reads them: whenever the clause
    of [spec_ok] asks for the two bytes, [rel_emit] gives them; whenever it asks for an error
    (its three [obs_is_err] branches with [expect_reject = false]), [rel_emit] is an error *)
Definition oracle_rom_ok (high : bool) (p t : Z) : bool :=
  match rom_offset high p, rom_offset high t with Some _, Some _ => true | _, _ => false end.

Theorem branch_oracle_clause w r high p t op :
  get_bus w r = Ok (builtin high) -> a_bus (r_reloc r) = builtin high -> a_val (r_reloc r) = p ->
  (forall op', rom_offset high p = Some op' -> r_pc r = op') -> byte_ok op = true ->
  let d := t - (p + 2) in
  if oracle_rom_ok high p t && (p / 65536 =? t / 65536) then
    if (-128 <=? d) && (d <=? 127) then rel_emit w r op (Some (Ok t)) = Ok [op; d mod 256]
    else is_err (rel_emit w r op (Some (Ok t))) = true
  else if is_ram high p || is_ram high t then is_err (rel_emit w r op (Some (Ok t))) = true
  else match rom_offset high p, rom_offset high t with
       | Some op', Some ot =>
           if (-128 <=? ot - (op' + 2)) && (ot - (op' + 2) <=? 127) then True
           else is_err (rel_emit w r op (Some (Ok t))) = true
       | _, _ => True
       end.
Proof.
  intros Hbus Hab Hav Hpc Hop d. unfold oracle_rom_ok.
  destruct (rom_offset high p) as [op'|] eqn:Hp; destruct (rom_offset high t) as [ot|] eqn:Ht; cbn [andb].
  - specialize (Hpc op' eq_refl).
    destruct (Z.eqb_spec (p / 65536) (t / 65536)) as [Hb|Hb].
    + destruct ((-128 <=? d) && (d <=? 127)) eqn:E.
      * apply (branch_oracle_accept w r high p t op op' ot); try assumption. unfold d in E. lia.
      * rewrite (branch_oracle_reject_range w r high p t op op' ot); try assumption; [reflexivity|].
        unfold d in E. lia.
    + destruct (is_ram high p || is_ram high t) eqn:R.
      * apply (branch_oracle_reject_ram w r high p t op); try assumption.
        apply orb_true_iff in R. exact R.
      * destruct ((-128 <=? ot - (op' + 2)) && (ot - (op' + 2) <=? 127)) eqn:E; [exact I|].
        rewrite (branch_oracle_reject_far w r high p t op op' ot); try assumption; [reflexivity|lia].
  - destruct (is_ram high p || is_ram high t) eqn:R; [|exact I].
    apply (branch_oracle_reject_ram w r high p t op); try assumption. apply orb_true_iff in R. exact R.
  - destruct (is_ram high p || is_ram high t) eqn:R; [|exact I].
    apply (branch_oracle_reject_ram w r high p t op); try assumption. apply orb_true_iff in R. exact R.
  - destruct (is_ram high p || is_ram high t) eqn:R; [|exact I].
    apply (branch_oracle_reject_ram w r high p t op); try assumption. apply orb_true_iff in R. exact R.
Qed.

(** * Non-vacuity: concrete resolvers under LoROM (0x018000 region) and HiROM (0xC10000 region) *)
Module BranchOracleExamples.
  Definition world_of_rom : world :=
    {| w_builtin := fun rt => match rt with HighRom => Ok hirom | _ => Ok lorom end;
       w_optable := []; w_prec := [];
       w_incbin := fun _ => Err EFile; w_table := fun _ => Err EFile; w_ips := fun _ _ => Err EFile |}.
  (** a resolver running at [p] with file offset [pc], no user [.map] *)
  Definition at_ (high : bool) (p pc : Z) : rstate :=
    {| r_scopes := []; r_cur := 0; r_last := 0; r_pc := pc;
       r_reloc := {| a_bus := builtin high; a_val := p |}; r_bus := empty_bus;
       r_rom := if high then HighRom else LowRom |}.

  Lemma at_bus high p pc : get_bus world_of_rom (at_ high p pc) = Ok (builtin high).
  Proof. destruct high; reflexivity. Qed.

  (** LoROM: 0x018010 is file offset 0x8010; HiROM: 0xC10010 is file offset 0x10010 *)
  Example lo_offsets : rom_offset false 98320 = Some 32784 /\ rom_offset false 98306 = Some 32770
                       /\ rom_offset false 98600 = Some 33064 /\ rom_offset false 163840 = Some 65536.
  Proof. vm_compute. repeat split. Qed.
  Example hi_offsets : rom_offset true 12648464 = Some 65552 /\ rom_offset true 12648575 = Some 65663
                       /\ rom_offset true 12648192 = Some 65280 /\ rom_offset true 12713984 = Some 131072.
  Proof. vm_compute. repeat split. Qed.

  (** (a) LoROM: BNE (0xD0) at 0x018010 back to 0x018002: displacement -16 = 0xF0 *)
  Example accept_lo :
    rel_emit world_of_rom (at_ false 98320 32784) 208 (Some (Ok 98306)) = Ok [208; 240].
  Proof.
    apply (branch_oracle_accept world_of_rom (at_ false 98320 32784) false 98320 98306 208 32784 32770); try reflexivity; lia.
  Qed.
  Example accept_lo_computed :
    rel_emit world_of_rom (at_ false 98320 32784) 208 (Some (Ok 98306)) = Ok [208; 240].
  Proof. vm_compute. reflexivity. Qed.

  (** (a) HiROM: BRA (0x80) at 0xC10010 forward to 0xC1007F: displacement 0x6D *)
  Example accept_hi :
    rel_emit world_of_rom (at_ true 12648464 65552) 128 (Some (Ok 12648575)) = Ok [128; 109].
  Proof.
    apply (branch_oracle_accept world_of_rom (at_ true 12648464 65552) true 12648464 12648575 128 65552 65663); try reflexivity; lia.
  Qed.
  Example accept_hi_computed :
    rel_emit world_of_rom (at_ true 12648464 65552) 128 (Some (Ok 12648575)) = Ok [128; 109].
  Proof. vm_compute. reflexivity. Qed.

  (** (b) range, LoROM: 0x018010 to 0x018128 (+278) *)
  Example reject_range_lo :
    rel_emit world_of_rom (at_ false 98320 32784) 208 (Some (Ok 98600)) = Err EStruct.
  Proof.
    apply (branch_oracle_reject_range world_of_rom (at_ false 98320 32784) false 98320 98600 208 32784 33064);
      try reflexivity; lia.
  Qed.
  (** (b) range, HiROM: 0xC10010 to 0xC1F000 in the same bank (+61 K) *)
  Example reject_range_hi :
    rel_emit world_of_rom (at_ true 12648464 65552) 128 (Some (Ok 12709888)) = Err EStruct.
  Proof.
    apply (branch_oracle_reject_range world_of_rom (at_ true 12648464 65552) true 12648464 12709888 128 65552 126976);
      try reflexivity; lia.
  Qed.
  Example reject_range_computed :
    rel_emit world_of_rom (at_ false 98320 32784) 208 (Some (Ok 98600)) = Err EStruct
    /\ rel_emit world_of_rom (at_ true 12648464 65552) 128 (Some (Ok 12709888)) = Err EStruct.
  Proof. split; vm_compute; reflexivity. Qed.

  (** (b) RAM: target 0x7E0010 from ROM (LoROM), and a branch RUNNING at 0x7E2000 to ROM (HiROM) *)
  Example ram_tests : is_ram false 8257552 = true /\ is_ram true 8265728 = true.
  Proof. split; reflexivity. Qed.
  Example reject_ram_target_lo :
    is_err (rel_emit world_of_rom (at_ false 98320 32784) 208 (Some (Ok 8257552))) = true.
  Proof.
    apply (branch_oracle_reject_ram world_of_rom (at_ false 98320 32784) false 98320 8257552 208);
      try reflexivity; right; reflexivity.
  Qed.
  Example reject_ram_source_hi :
    is_err (rel_emit world_of_rom (at_ true 8265728 65552) 128 (Some (Ok 12648464))) = true.
  Proof.
    apply (branch_oracle_reject_ram world_of_rom (at_ true 8265728 65552) true 8265728 12648464 128);
      try reflexivity; left; reflexivity.
  Qed.
  Example reject_ram_computed :
    rel_emit world_of_rom (at_ false 98320 32784) 208 (Some (Ok 8257552)) = Err ERuntime
    /\ rel_emit world_of_rom (at_ true 8265728 65552) 128 (Some (Ok 12648464)) = Err ERuntime.
  Proof. split; vm_compute; reflexivity. Qed.

  (** (c) other bank, out of reach: LoROM 0x018010 to 0x028000 (file distance +0x7FEE),
      HiROM 0xC10010 to 0xC20000 (+0xFFEE) *)
  Example reject_far_lo :
    rel_emit world_of_rom (at_ false 98320 32784) 208 (Some (Ok 163840)) = Err EStruct.
  Proof.
    apply (branch_oracle_reject_far world_of_rom (at_ false 98320 32784) false 98320 163840 208 32784 65536);
      try reflexivity; lia.
  Qed.
  Example reject_far_hi :
    rel_emit world_of_rom (at_ true 12648464 65552) 128 (Some (Ok 12713984)) = Err EStruct.
  Proof.
    apply (branch_oracle_reject_far world_of_rom (at_ true 12648464 65552) true 12648464 12713984 128 65552 131072);
      try reflexivity; lia.
  Qed.
  Example reject_far_computed :
    rel_emit world_of_rom (at_ false 98320 32784) 208 (Some (Ok 163840)) = Err EStruct
    /\ rel_emit world_of_rom (at_ true 12648464 65552) 128 (Some (Ok 12713984)) = Err EStruct.
  Proof. split; vm_compute; reflexivity. Qed.

  (** the bytes around a bank end that the clause leaves to the correspondence: from the last
      bytes of LoROM bank 01 to the first of bank 02 the file distance is in reach and the model
      encodes it (the oracle's last branch says [true] there) *)
  Example bank_end_in_reach :
    rom_offset false 131056 = Some 65520 /\ rom_offset false 163840 = Some 65536
    /\ rel_emit world_of_rom (at_ false 131056 65520) 208 (Some (Ok 163840)) = Ok [208; 14].
  Proof. vm_compute. repeat split. Qed.
End BranchOracleExamples.

Check branch_oracle_accept.
Check branch_oracle_reject_range.
Check branch_oracle_reject_ram.
Check branch_oracle_reject_far.
Check branch_oracle_clause.
Print Assumptions branch_oracle_accept.
Print Assumptions branch_oracle_reject_range.
Print Assumptions branch_oracle_reject_ram.
Print Assumptions branch_oracle_reject_far.
Print Assumptions branch_oracle_clause.
