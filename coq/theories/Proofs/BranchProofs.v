(** C05 — relative branches: the true displacement or a rejection. *)
From Coq Require Import ZArith List Lia Bool ZifyBool.
From A816 Require Import Model.Nodes Spec.BusLaws Proofs.BitLemmas Proofs.BusProofs.
Open Scope Z_scope.
Ltac Zify.zify_post_hook ::= Z.to_euclidean_division_equations.

(** Same bank, both inside the window: the difference of the file offsets is the difference of the
    logical addresses. *)
Lemma same_bank_offset_diff m p t :
  bank_of t = bank_of p -> spec_offset m t - spec_offset m p = t - p.
Proof. unfold spec_offset, bank_of. intros H. rewrite H. lia. Qed.

Definition branch_bytes (op d : Z) : res bytes :=
  if (-128 <=? d) && (d <=? 127) then Ok [op; d mod 256] else Err EStruct.

Lemma mk_addr_ok bus v m : bus_mapping_for_bank bus (bank_of v) = Ok m -> mk_addr bus v = Ok {| a_bus := bus; a_val := v |}.
Proof. intros H. unfold mk_addr, get_address. rewrite bank_shiftr, H. reflexivity. Qed.

(** Run address [p] and target [t] ROM-mapped, in the same bank, the file offset in step with the
    run address ([r_pc = offset of p], the emission invariant of C03): the branch is its opcode
    followed by the signed displacement t - (p + 2), and rejected outside -128..127. *)
Theorem rel_branch_encode w r op t bus m :
  get_bus w r = Ok bus -> a_bus (r_reloc r) = bus ->
  let p := a_val (r_reloc r) in
  bus_mapping_for_bank bus (bank_of p) = Ok m -> mask_ok m -> m_writable m = false ->
  in_window m p -> in_window m t -> bank_of t = bank_of p ->
  r_pc r = spec_offset m p -> byte_ok op = true ->
  rel_emit w r op (Some (Ok t)) = branch_bytes op (t - (p + 2)).
Proof.
  intros Hbus Hsame p Hm Hmask Hrom Hwp Hwt Hbank Hpc Hop.
  unfold rel_emit. cbn [bind]. rewrite Hbus. cbn [bind].
  assert (Hmt : bus_mapping_for_bank bus (bank_of t) = Ok m) by (rewrite Hbank; exact Hm).
  rewrite (mk_addr_ok _ _ _ Hmt). cbn [bind].
  unfold addr_phys. cbn [a_bus a_val].
  rewrite (bus_physical bus t m Hmt Hmask Hrom Hwt). cbn [bind].
  rewrite Hsame. fold p. rewrite (bus_physical bus p m Hm Hmask Hrom Hwp). cbn [bind].
  unfold pack_B. rewrite Hop. cbn [bind].
  rewrite Hpc. replace (spec_offset m t - spec_offset m p - 2) with (t - (p + 2))
    by (pose proof (same_bank_offset_diff m p t Hbank); lia).
  unfold pack_b, branch_bytes. destruct ((-128 <=? t - (p + 2)) && (t - (p + 2) <=? 127)); reflexivity.
Qed.

(** A displacement is never truncated or wrapped into range. *)
Corollary rel_branch_range w r op t bus m :
  get_bus w r = Ok bus -> a_bus (r_reloc r) = bus ->
  let p := a_val (r_reloc r) in
  bus_mapping_for_bank bus (bank_of p) = Ok m -> mask_ok m -> m_writable m = false ->
  in_window m p -> in_window m t -> bank_of t = bank_of p ->
  r_pc r = spec_offset m p -> byte_ok op = true ->
  (t - (p + 2) < -128 \/ 127 < t - (p + 2)) ->
  rel_emit w r op (Some (Ok t)) = Err EStruct.
Proof.
  intros H1 H2 p H3 H4 H5 H6 H7 H8 H9 H10 Hd.
  rewrite (rel_branch_encode w r op t bus m H1 H2 H3 H4 H5 H6 H7 H8 H9 H10).
  unfold branch_bytes. fold p.
  destruct ((-128 <=? t - (p + 2)) && (t - (p + 2) <=? 127)) eqn:E; [lia|reflexivity].
Qed.

(** A target in RAM-mapped space is rejected. *)
Theorem rel_branch_target_ram w r op t bus m :
  get_bus w r = Ok bus -> bus_mapping_for_bank bus (bank_of t) = Ok m -> m_writable m = true ->
  rel_emit w r op (Some (Ok t)) = Err ERuntime.
Proof.
  intros Hbus Hm Hw. unfold rel_emit. cbn [bind]. rewrite Hbus. cbn [bind].
  rewrite (mk_addr_ok _ _ _ Hm). cbn [bind]. unfold addr_phys. cbn [a_bus a_val].
  rewrite (bus_ram bus t m Hm Hw). reflexivity.
Qed.

(** A branch whose own run address lies in RAM-mapped space (code relocated with @=) is rejected
    rather than encoded against the storage offset. *)
Theorem rel_branch_source_ram w r op t bus mt m :
  get_bus w r = Ok bus -> bus_mapping_for_bank bus (bank_of t) = Ok mt ->
  bus_mapping_for_bank (a_bus (r_reloc r)) (bank_of (a_val (r_reloc r))) = Ok m -> m_writable m = true ->
  is_err (rel_emit w r op (Some (Ok t))) = true.
Proof.
  intros Hbus Hmt Hm Hw. unfold rel_emit. cbn [bind]. rewrite Hbus. cbn [bind].
  rewrite (mk_addr_ok _ _ _ Hmt). cbn [bind]. unfold addr_phys at 1. cbn [a_bus a_val].
  unfold addr_physical at 1. rewrite bank_shiftr, Hmt. cbn [bind].
  destruct (physical_address mt t); [|reflexivity].
  unfold addr_phys. rewrite (bus_ram _ _ m Hm Hw). reflexivity.
Qed.

(** An unmapped target is rejected too. *)
Theorem rel_branch_target_unmapped w r op t bus :
  get_bus w r = Ok bus -> bus_mapping_for_bank bus (bank_of t) = Err EKey ->
  rel_emit w r op (Some (Ok t)) = Err EKey.
Proof.
  intros Hbus Hm. unfold rel_emit. cbn [bind]. rewrite Hbus. cbn [bind].
  unfold mk_addr, get_address. rewrite bank_shiftr, Hm. reflexivity.
Qed.
