(** Proofs of the bus laws (C04) for arbitrary mappings with 32K/64K windows. *)
From Coq Require Import ZArith Lia Bool ZifyBool List.
From A816 Require Import Spec.BusLaws Proofs.BitLemmas.
Open Scope Z_scope.
Ltac Zify.zify_post_hook ::= Z.to_euclidean_division_equations.

(** ** Mapping level *)

Lemma physical_rom m a :
  mask_ok m -> m_writable m = false -> in_window m a ->
  physical_address m a = Some (spec_offset m a).
Proof.
  intros [Hm|Hm] Hw Hin; unfold physical_address, spec_offset, in_window, window_start, bank_of in *;
    rewrite Hw, Hm in *; f_equal; rewrite shiftr16.
  - rewrite low15. lia.
  - rewrite low16. lia.
Qed.

Lemma physical_ram m a : m_writable m = true -> physical_address m a = None.
Proof. intros H. unfold physical_address. rewrite H. reflexivity. Qed.

Lemma spec_offset_range m a :
  mask_ok m -> in_window m a ->
  (bank_of a - m_first m) * m_mask m <= spec_offset m a < (bank_of a - m_first m + 1) * m_mask m.
Proof.
  intros [Hm|Hm] Hin; unfold spec_offset, in_window, window_start, bank_of in *; rewrite Hm in *; lia.
Qed.

(** logical_address is the specification's inverse: it yields [spec_address]. *)
Lemma logical_spec m p :
  mask_ok m -> logical_address m p = Ok (spec_address m p).
Proof.
  intros [Hm|Hm]; unfold logical_address, spec_address, window_start; rewrite Hm; cbn [Z.eqb];
    f_equal.
  - change (Z.land 32768 65535) with 32768. rewrite lor_shift16 by lia. lia.
  - change (Z.land 65536 65535) with 0. rewrite lor_shift16 by lia. lia.
Qed.

Lemma spec_address_props m p :
  mask_ok m ->
  bank_of (spec_address m p) = p / m_mask m + m_first m /\
  in_window m (spec_address m p) /\
  spec_offset m (spec_address m p) = p.
Proof.
  intros [Hm|Hm]; unfold spec_address, spec_offset, in_window, window_start, bank_of; rewrite Hm;
    repeat split; lia.
Qed.

Lemma spec_address_offset m a :
  mask_ok m -> in_window m a -> spec_address m (spec_offset m a) = a.
Proof.
  intros [Hm|Hm] Hin; unfold spec_address, spec_offset, in_window, window_start, bank_of in *;
    rewrite Hm in *; lia.
Qed.

(** A mirror bank translates to the same offset as its primary bank. *)
Lemma mirror_same_offset m m' k off :
  m_mask m = m_mask m' -> m_writable m = false -> m_writable m' = false ->
  0 <= off < 65536 ->
  physical_address m ((m_first m + k) * 65536 + off) = physical_address m' ((m_first m' + k) * 65536 + off).
Proof.
  intros Hmask Hw Hw' Hoff. unfold physical_address. rewrite Hw, Hw', <- Hmask. f_equal.
  rewrite !shiftr16.
  replace (((m_first m + k) * 65536 + off) / 65536) with (m_first m + k) by lia.
  replace (((m_first m' + k) * 65536 + off) / 65536) with (m_first m' + k) by lia.
  f_equal; [lia|].
  rewrite !(Z.land_comm _ (Z.lnot (m_mask m))), <- !Z.land_assoc, !land_65535.
  f_equal. lia.
Qed.

(** ** Bus level *)

(** Every bank of [m]'s range is looked up as [m] (true of any range not shadowed later). *)
Definition covers (b : bus) (m : mapping) : Prop :=
  forall bank, m_first m <= bank <= m_last m -> bus_mapping_for_bank b bank = Ok m.

Lemma bank_shiftr a : Z.shiftr a 16 = bank_of a.
Proof. apply shiftr16. Qed.

Theorem bus_physical b a m :
  bus_mapping_for_bank b (bank_of a) = Ok m -> mask_ok m -> m_writable m = false -> in_window m a ->
  addr_physical b a = Ok (Some (spec_offset m a)).
Proof.
  intros Hl Hm Hw Hin. unfold addr_physical. rewrite bank_shiftr, Hl. cbn [bind].
  rewrite physical_rom by assumption. reflexivity.
Qed.

Theorem bus_ram b a m :
  bus_mapping_for_bank b (bank_of a) = Ok m -> m_writable m = true -> addr_physical b a = Ok None.
Proof.
  intros Hl Hw. unfold addr_physical. rewrite bank_shiftr, Hl. cbn [bind].
  rewrite physical_ram by assumption. reflexivity.
Qed.

Theorem bus_unmapped b a :
  bus_mapping_for_bank b (bank_of a) = Err EKey ->
  addr_physical b a = Err EKey /\ get_address b a = Err EKey /\ forall n, addr_add b a n = Err EKey.
Proof.
  intros Hl. unfold addr_physical, get_address, addr_add. rewrite bank_shiftr, Hl. cbn [bind].
  repeat split.
Qed.

Lemma find_range_none_unmapped b bank :
  find_range (b_ranges b) bank = None -> bus_mapping_for_bank b bank = Err EKey.
Proof. intros H. unfold bus_mapping_for_bank. rewrite H. reflexivity. Qed.

Theorem bus_advance b a n m :
  covers b m -> mask_ok m -> m_writable m = false -> in_window m a ->
  m_first m <= bank_of a <= m_last m ->
  0 <= spec_offset m a + n < (m_last m - m_first m + 1) * m_mask m ->
  let a' := spec_address m (spec_offset m a + n) in
  addr_add b a n = Ok a' /\
  addr_physical b a' = Ok (Some (spec_offset m a + n)) /\
  in_window m a' /\ m_first m <= bank_of a' <= m_last m.
Proof.
  intros Hc Hm Hw Hin Hb Hr a'.
  destruct (spec_address_props m (spec_offset m a + n) Hm) as (Hbank & Hwin & Hoff).
  fold a' in Hbank, Hwin, Hoff.
  assert (Hb' : m_first m <= bank_of a' <= m_last m).
  { rewrite Hbank. destruct Hm as [E|E]; rewrite E in *; lia. }
  repeat split; try assumption; try lia.
  - unfold addr_add. rewrite bank_shiftr, (Hc _ Hb). cbn [bind].
    rewrite physical_rom by assumption. rewrite logical_spec by assumption. cbn [bind].
    fold a'. unfold get_address. rewrite bank_shiftr, (Hc _ Hb'). reflexivity.
  - rewrite (bus_physical b a' m); [rewrite Hoff; reflexivity|apply Hc; assumption|assumption..].
Qed.

Theorem bus_add_ram b a n m :
  bus_mapping_for_bank b (bank_of a) = Ok m -> m_writable m = true ->
  addr_add b a n = get_address b (a + n).
Proof.
  intros Hl Hw. unfold addr_add. rewrite bank_shiftr, Hl. cbn [bind].
  rewrite physical_ram by assumption. reflexivity.
Qed.

Theorem bus_add_0 b a m :
  covers b m -> mask_ok m -> m_writable m = false -> in_window m a ->
  m_first m <= bank_of a <= m_last m ->
  addr_add b a 0 = Ok a.
Proof.
  intros Hc Hm Hw Hin Hb.
  assert (Hr : 0 <= spec_offset m a + 0 < (m_last m - m_first m + 1) * m_mask m).
  { pose proof (spec_offset_range m a Hm Hin). destruct Hm as [E|E]; rewrite E in *; nia. }
  destruct (bus_advance b a 0 m Hc Hm Hw Hin Hb Hr) as (H & _).
  rewrite H. rewrite Z.add_0_r. rewrite spec_address_offset by assumption. reflexivity.
Qed.

Theorem bus_add_add b a n1 n2 m a1 :
  covers b m -> mask_ok m -> m_writable m = false -> in_window m a ->
  m_first m <= bank_of a <= m_last m ->
  0 <= spec_offset m a + n1 < (m_last m - m_first m + 1) * m_mask m ->
  0 <= spec_offset m a + (n1 + n2) < (m_last m - m_first m + 1) * m_mask m ->
  addr_add b a n1 = Ok a1 ->
  addr_add b a1 n2 = addr_add b a (n1 + n2).
Proof.
  intros Hc Hm Hw Hin Hb Hr1 Hr12 H1.
  destruct (bus_advance b a n1 m Hc Hm Hw Hin Hb Hr1) as (E1 & P1 & W1 & B1).
  rewrite E1 in H1. injection H1 as <-.
  destruct (spec_address_props m (spec_offset m a + n1) Hm) as (_ & _ & Hoff).
  set (a1 := spec_address m (spec_offset m a + n1)) in *.
  assert (Hr2 : 0 <= spec_offset m a1 + n2 < (m_last m - m_first m + 1) * m_mask m) by (rewrite Hoff; lia).
  destruct (bus_advance b a1 n2 m Hc Hm Hw W1 B1 Hr2) as (E2 & _).
  destruct (bus_advance b a (n1 + n2) m Hc Hm Hw Hin Hb Hr12) as (E12 & _).
  rewrite E2, E12, Hoff. f_equal. f_equal. lia.
Qed.

(** ** Buses built by [bus_map] *)

Lemma str_eqb_refl (s : str) : str_eqb s s = true.
Proof. induction s as [|c s IH]; cbn; [reflexivity|]. rewrite Z.eqb_refl, IH. reflexivity. Qed.

Lemma str_eqb_eq (s t : str) : str_eqb s t = true <-> s = t.
Proof.
  split; [|intros ->; apply str_eqb_refl].
  revert t; induction s as [|c s IH]; intros [|d t] H; cbn in H; try discriminate; [reflexivity|].
  apply andb_true_iff in H as [Hc Hs]. apply Z.eqb_eq in Hc. f_equal; [assumption|apply IH; assumption].
Qed.

Lemma dict_get_set_same {V} (d : dict V) k v : dict_get (dict_set d k v) k = Some v.
Proof.
  induction d as [|[k' v'] d IH]; cbn.
  - rewrite str_eqb_refl. reflexivity.
  - destruct (str_eqb k k') eqn:E; cbn; rewrite E; [reflexivity|assumption].
Qed.

Lemma dict_get_set_other {V} (d : dict V) k k' v : str_eqb k' k = false ->
  dict_get (dict_set d k v) k' = dict_get d k'.
Proof.
  intros Hne. induction d as [|[k0 v0] d IH]; cbn.
  - rewrite Hne. reflexivity.
  - destruct (str_eqb k k0) eqn:E; cbn.
    + apply str_eqb_eq in E. subst k0. rewrite Hne. reflexivity.
    + destruct (str_eqb k' k0); [reflexivity|assumption].
Qed.

Lemma mirror_id_differs (id : str) : str_eqb id (id ++ mirror_suffix) = false.
Proof.
  destruct (str_eqb id (id ++ mirror_suffix)) eqn:E; [|reflexivity].
  apply str_eqb_eq in E. apply (f_equal (@length Z)) in E. rewrite app_length in E. cbn in E. lia.
Qed.

Theorem bus_map_covers b id lo hi mask w b' :
  bus_map b id (lo, hi) mask w None = Ok b' ->
  covers b' {| m_first := lo; m_last := hi; m_mask := mask; m_writable := w |}.
Proof.
  unfold bus_map. destruct (negb (b_editable b)); [discriminate|]. cbn [fst snd]. intros [= <-].
  intros bank Hb. cbn [m_first m_last] in Hb. unfold bus_mapping_for_bank. cbn [b_ranges b_maps find_range].
  destruct (Z.leb_spec lo bank); [|lia]. destruct (Z.leb_spec bank hi); [|lia]. cbn [andb].
  rewrite dict_get_set_same. reflexivity.
Qed.

Theorem bus_map_covers_mirror b id lo hi mask w mlo mhi b' :
  bus_map b id (lo, hi) mask w (Some (mlo, mhi)) = Ok b' ->
  covers b' {| m_first := mlo; m_last := mhi; m_mask := mask; m_writable := w |} /\
  (hi < mlo \/ mhi < lo ->
   covers b' {| m_first := lo; m_last := hi; m_mask := mask; m_writable := w |}).
Proof.
  unfold bus_map. destruct (negb (b_editable b)); [discriminate|]. cbn [fst snd]. intros [= <-].
  split.
  - intros bank Hb. cbn [m_first m_last] in Hb. unfold bus_mapping_for_bank.
    cbn [b_ranges b_maps find_range].
    destruct (Z.leb_spec mlo bank); [|lia]. destruct (Z.leb_spec bank mhi); [|lia]. cbn [andb].
    rewrite dict_get_set_same. reflexivity.
  - intros Hdis bank Hb. cbn [m_first m_last] in Hb. unfold bus_mapping_for_bank.
    cbn [b_ranges b_maps find_range].
    replace ((mlo <=? bank) && (bank <=? mhi)) with false by lia.
    destruct (Z.leb_spec lo bank); [|lia]. destruct (Z.leb_spec bank hi); [|lia]. cbn [andb].
    rewrite dict_get_set_other by apply mirror_id_differs.
    rewrite dict_get_set_same. reflexivity.
Qed.

(** Mapping the same offset through a mirror range built by [bus_map]. *)
Theorem bus_mirror b id lo hi mask mlo mhi b' k off :
  bus_map b id (lo, hi) mask false (Some (mlo, mhi)) = Ok b' ->
  hi < mlo \/ mhi < lo ->
  0 <= k <= hi - lo -> k <= mhi - mlo -> 0 <= off < 65536 ->
  addr_physical b' ((lo + k) * 65536 + off) = addr_physical b' ((mlo + k) * 65536 + off).
Proof.
  intros Hmap Hdis Hk Hk' Hoff.
  destruct (bus_map_covers_mirror _ _ _ _ _ _ _ _ _ Hmap) as (Hm & Hp). specialize (Hp Hdis).
  unfold addr_physical. rewrite !shiftr16.
  replace (((lo + k) * 65536 + off) / 65536) with (lo + k) by lia.
  replace (((mlo + k) * 65536 + off) / 65536) with (mlo + k) by lia.
  rewrite (Hp (lo + k)) by (cbn; lia). rewrite (Hm (mlo + k)) by (cbn; lia). cbn [bind]. f_equal.
  apply (mirror_same_offset
           {| m_first := lo; m_last := hi; m_mask := mask; m_writable := false |}
           {| m_first := mlo; m_last := mhi; m_mask := mask; m_writable := false |});
    try reflexivity; assumption.
Qed.

(** ** The built-in buses *)

Definition lorom : bus := Eval vm_compute in match low_rom_bus_spec with Ok b => b | _ => empty_bus end.
Definition hirom : bus := Eval vm_compute in match high_rom_bus_spec with Ok b => b | _ => empty_bus end.
Lemma lorom_is_spec : low_rom_bus_spec = Ok lorom. Proof. reflexivity. Qed.
Lemma hirom_is_spec : high_rom_bus_spec = Ok hirom. Proof. reflexivity. Qed.

Ltac split_leb :=
  repeat match goal with
         | |- context [Z.leb ?x ?y] => destruct (Z.leb_spec x y)
         end.

Theorem lorom_closed_form a : addr_physical lorom a = lorom_spec a.
Proof.
  unfold addr_physical, bus_mapping_for_bank, lorom, lorom_spec, bank_of.
  cbn [b_ranges b_maps find_range]. rewrite shiftr16. set (bank := a / 65536).
  split_leb; cbn [andb]; try lia;
    cbn [dict_get str_eqb list_eqb Z.eqb andb bind Pos.eqb]; try reflexivity;
    unfold physical_address; cbn [m_writable m_first m_mask]; try reflexivity;
    rewrite shiftr16, low15; fold bank; repeat f_equal; lia.
Qed.

Theorem hirom_closed_form a : addr_physical hirom a = hirom_spec a.
Proof.
  unfold addr_physical, bus_mapping_for_bank, hirom, hirom_spec, bank_of.
  cbn [b_ranges b_maps find_range]. rewrite shiftr16. set (bank := a / 65536).
  split_leb; cbn [andb]; try lia;
    cbn [dict_get str_eqb list_eqb Z.eqb andb bind Pos.eqb]; try reflexivity;
    unfold physical_address; cbn [m_writable m_first m_mask]; try reflexivity;
    rewrite shiftr16, low16; fold bank; repeat f_equal; lia.
Qed.

(** ** Agreement of a regenerated bus with a specification bus *)

Lemma mapping_eqb_eq x y : mapping_eqb x y = true -> x = y.
Proof.
  destruct x, y. unfold mapping_eqb. cbn. intros H.
  repeat (apply andb_true_iff in H as [H ?]).
  apply Z.eqb_eq in H. apply eqb_prop in H0. repeat match goal with E : (_ =? _) = true |- _ => apply Z.eqb_eq in E end.
  subst. reflexivity.
Qed.

Lemma errk_eqb_eq j k : errk_eqb j k = true -> j = k.
Proof. destruct j, k; cbn; intros H; try discriminate; reflexivity. Qed.

Lemma res_mapping_eqb_eq x y : res_mapping_eqb x y = true -> x = y.
Proof.
  destruct x, y; cbn; intros H; try discriminate.
  - f_equal. apply mapping_eqb_eq. assumption.
  - f_equal. apply errk_eqb_eq. assumption.
Qed.

Lemma ranges_small_outside b bank :
  ranges_small b = true -> bank < 0 \/ 255 < bank -> find_range (b_ranges b) bank = None.
Proof.
  unfold ranges_small. induction (b_ranges b) as [|[[lo hi] id] rs IH]; cbn; [reflexivity|].
  intros H Hb. apply andb_true_iff in H as [H Hrs].
  replace ((lo <=? bank) && (bank <=? hi)) with false by lia. apply IH; assumption.
Qed.

Theorem bus_agree_sound b1 b2 :
  bus_agree_b b1 b2 = true -> forall bank, bus_mapping_for_bank b1 bank = bus_mapping_for_bank b2 bank.
Proof.
  unfold bus_agree_b. intros H bank.
  apply andb_true_iff in H as [H Hall]. apply andb_true_iff in H as [H1 H2].
  destruct (Z_lt_dec bank 0) as [Hneg|Hnn]; [|destruct (Z_lt_dec 255 bank) as [Hbig|Hsm]].
  - unfold bus_mapping_for_bank. rewrite !ranges_small_outside by (assumption || lia). reflexivity.
  - unfold bus_mapping_for_bank. rewrite !ranges_small_outside by (assumption || lia). reflexivity.
  - rewrite forallb_forall in Hall. specialize (Hall (Z.to_nat bank)).
    rewrite Z2Nat.id in Hall by lia. apply res_mapping_eqb_eq, Hall.
    apply in_seq. lia.
Qed.

Corollary bus_agree_physical b1 b2 :
  bus_agree_b b1 b2 = true -> forall a, addr_physical b1 a = addr_physical b2 a.
Proof. intros H a. unfold addr_physical. rewrite (bus_agree_sound _ _ H). reflexivity. Qed.

Corollary bus_agree_add b1 b2 :
  bus_agree_b b1 b2 = true -> forall a n, addr_add b1 a n = addr_add b2 a n.
Proof.
  intros H a n. unfold addr_add, get_address. rewrite (bus_agree_sound _ _ H).
  destruct (bus_mapping_for_bank b2 (Z.shiftr a 16)); cbn [bind]; try reflexivity.
  destruct (match physical_address a0 a with Some p => logical_address a0 (p + n) | None => Ok (a + n) end);
    cbn [bind]; try reflexivity.
  rewrite (bus_agree_sound _ _ H). reflexivity.
Qed.
