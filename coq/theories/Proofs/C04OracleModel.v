(** * The C04 run-time oracle against the model (built-in buses, physical address; sweeps)

    [Oracle/C04o.v]: [check low high c = (correspondence with the model, spec_ok c)].  Proved
    here, for live buses that agree with the specification buses ([bus_agree_b low lorom],
    [bus_agree_b high hirom], the per-run condition of [C04_live_*]):

    - [cphys_builtin_ok]: for [CPhys BLow] / [CPhys BHigh], correspondence implies [spec_ok],
      for every address of Z (ROM, mirror, RAM, unmapped, below the LoROM window);
    - [cphys_builtin_model_passes]: the case carrying the model's own value passes;
    - sweeps: for [SwAdd] the clause is [true]; for [SwPhys] the clause is about [impl_in], a
      second checksum that the correspondence does not constrain, so "correspondence implies
      clause" is false as it stands ([sweep_needs_side_condition]); with [impl_in] the model's own
      masked checksum the clause holds ([sweep_model_passes]).

    NOT covered (budget): [CAdd] on any bus, and [CPhys] on a user bus ([BUser]): the latter needs
    the theory that ties [owner] ("assigned last") to [find_range] over a fold of [bus_map]. *)
From Coq Require Import ZArith Lia Bool ZifyBool List.
From A816 Require Import Spec.BusLaws Proofs.BitLemmas Proofs.BusProofs Oracle.C04o.
Import ListNotations.
Open Scope Z_scope.
Ltac Zify.zify_post_hook ::= Z.to_euclidean_division_equations.

Ltac split_leb_all :=
  repeat match goal with
         | |- context [Z.leb ?x ?y] => destruct (Z.leb_spec x y)
         end.

(** ** who owns a bank of the built-in descriptions *)
Lemma owner_low bank : owner BLow bank =
  if (126 <=? bank) && (bank <=? 127) then Some (SR 126 127 65536 true)
  else if (128 <=? bank) && (bank <=? 207) then Some (SR 128 207 32768 false)
  else if (0 <=? bank) && (bank <=? 111) then Some (SR 0 111 32768 false)
  else None.
Proof.
  unfold owner, spec_ranges. cbn [fold_left sr_has].
  split_leb_all; cbn [andb]; try reflexivity; lia.
Qed.
Lemma owner_high bank : owner BHigh bank =
  if (126 <=? bank) && (bank <=? 127) then Some (SR 126 127 65536 true)
  else if (192 <=? bank) && (bank <=? 255) then Some (SR 192 255 65536 false)
  else if (64 <=? bank) && (bank <=? 127) then Some (SR 64 127 65536 false)
  else None.
Proof.
  unfold owner, spec_ranges. cbn [fold_left sr_has].
  split_leb_all; cbn [andb]; try reflexivity; lia.
Qed.

Lemma agree_opt_some r q impl : agree opt_z_eqb r impl = true -> r = Ok (Some q) -> impl = OOk (Some q).
Proof.
  intros H ->. destruct impl as [[x|]| |]; cbn [agree opt_z_eqb option_eqb] in H; try discriminate H.
  apply Z.eqb_eq in H. rewrite H. reflexivity.
Qed.
Lemma agree_opt_none r impl : agree opt_z_eqb r impl = true -> r = Ok None -> impl = OOk None.
Proof.
  intros H ->. destruct impl as [[x|]| |]; cbn [agree opt_z_eqb option_eqb] in H; try discriminate H. reflexivity.
Qed.
Lemma agree_err {A} (eqb : A -> A -> bool) r k impl : agree eqb r impl = true -> r = Err k -> obs_is_err impl = true.
Proof. intros H ->. destruct impl; cbn [agree] in H; try discriminate H. reflexivity. Qed.

(** ** the specification clause on the closed forms *)
Lemma cphys_low_spec a impl : agree opt_z_eqb (lorom_spec a) impl = true -> spec_ok (CPhys BLow a impl) = true.
Proof.
  intros H. cbn [spec_ok]. change (in_scope BLow) with true. cbn [negb orb].
  rewrite owner_low. unfold lorom_spec, bank_of in H. set (bank := a / 65536) in *.
  destruct ((126 <=? bank) && (bank <=? 127)) eqn:E1.
  - cbn [sr_ram]. replace ((0 <=? bank) && (bank <=? 111)) with false in H by lia.
    replace ((128 <=? bank) && (bank <=? 207)) with false in H by lia.
    rewrite (agree_opt_none _ _ H eq_refl). reflexivity.
  - destruct ((128 <=? bank) && (bank <=? 207)) eqn:E2.
    + cbn [sr_ram sr_offset]. replace ((0 <=? bank) && (bank <=? 111)) with false in H by lia.
      destruct (Z.leb_spec (65536 - 32768) (a mod 65536)) as [Hw|Hw]; [|reflexivity].
      rewrite (agree_opt_some _ _ _ H eq_refl). apply Z.eqb_eq. unfold bank. lia.
    + destruct ((0 <=? bank) && (bank <=? 111)) eqn:E3.
      * cbn [sr_ram sr_offset].
        destruct (Z.leb_spec (65536 - 32768) (a mod 65536)) as [Hw|Hw]; [|reflexivity].
        rewrite (agree_opt_some _ _ _ H eq_refl). apply Z.eqb_eq. unfold bank. lia.
      * exact (agree_err _ _ _ _ H eq_refl).
Qed.

Lemma cphys_high_spec a impl : agree opt_z_eqb (hirom_spec a) impl = true -> spec_ok (CPhys BHigh a impl) = true.
Proof.
  intros H. cbn [spec_ok]. change (in_scope BHigh) with true. cbn [negb orb].
  rewrite owner_high. unfold hirom_spec, bank_of in H. set (bank := a / 65536) in *.
  destruct ((126 <=? bank) && (bank <=? 127)) eqn:E1.
  - cbn [sr_ram]. rewrite (agree_opt_none _ _ H eq_refl). reflexivity.
  - destruct ((192 <=? bank) && (bank <=? 255)) eqn:E2.
    + cbn [sr_ram sr_offset]. replace ((64 <=? bank) && (bank <=? 125)) with false in H by lia.
      destruct (Z.leb_spec (65536 - 65536) (a mod 65536)) as [Hw|Hw]; [|reflexivity].
      rewrite (agree_opt_some _ _ _ H eq_refl). apply Z.eqb_eq. unfold bank. lia.
    + destruct ((64 <=? bank) && (bank <=? 127)) eqn:E3.
      * cbn [sr_ram sr_offset]. replace ((64 <=? bank) && (bank <=? 125)) with true in H by lia.
        destruct (Z.leb_spec (65536 - 65536) (a mod 65536)) as [Hw|Hw]; [|reflexivity].
        rewrite (agree_opt_some _ _ _ H eq_refl). apply Z.eqb_eq. unfold bank. lia.
      * replace ((64 <=? bank) && (bank <=? 125)) with false in H by lia.
        exact (agree_err _ _ _ _ H eq_refl).
Qed.

Definition builtin_desc (d : busdesc) : bool := match d with BUser _ => false | _ => true end.

(** ** correspondence implies the clause: physical address on the built-in buses *)
Theorem cphys_builtin_ok low high d a impl :
  bus_agree_b low lorom = true -> bus_agree_b high hirom = true -> builtin_desc d = true ->
  fst (check low high (CPhys d a impl)) = true -> snd (check low high (CPhys d a impl)) = true.
Proof.
  intros Hl Hh Hd. unfold check. cbn [fst snd]. destruct d as [| |steps]; [| |discriminate Hd];
    cbn [model_bus bind]; intros H.
  - rewrite (bus_agree_physical _ _ Hl), lorom_closed_form in H. exact (cphys_low_spec a impl H).
  - rewrite (bus_agree_physical _ _ Hh), hirom_closed_form in H. exact (cphys_high_spec a impl H).
Qed.

(** the case carrying the model's own value *)
Definition obs_of {A} (r : res A) : obs A :=
  match r with Ok a => OOk a | Err k => OErr k | OutOfFuel => OTimeout end.

Lemma opt_z_eqb_refl x : opt_z_eqb x x = true.
Proof. destruct x as [q|]; cbn [opt_z_eqb option_eqb]; [apply Z.eqb_refl|reflexivity]. Qed.

Theorem cphys_builtin_model_passes low high d a :
  bus_agree_b low lorom = true -> bus_agree_b high hirom = true -> builtin_desc d = true ->
  check low high (CPhys d a (obs_of (do b <- model_bus low high d; addr_physical b a))) = (true, true).
Proof.
  intros Hl Hh Hd.
  assert (Hc : fst (check low high (CPhys d a (obs_of (do b <- model_bus low high d; addr_physical b a)))) = true).
  { unfold check. cbn [fst]. destruct d as [| |steps]; [| |discriminate Hd]; cbn [model_bus bind].
    - rewrite (bus_agree_physical _ _ Hl), lorom_closed_form. unfold lorom_spec.
      repeat match goal with |- context [if ?c then _ else _] => destruct c end;
        cbn [obs_of agree]; try apply opt_z_eqb_refl; reflexivity.
    - rewrite (bus_agree_physical _ _ Hh), hirom_closed_form. unfold hirom_spec.
      repeat match goal with |- context [if ?c then _ else _] => destruct c end;
        cbn [obs_of agree]; try apply opt_z_eqb_refl; reflexivity. }
  pose proof (cphys_builtin_ok low high d a _ Hl Hh Hd Hc) as Hs.
  destruct (check low high _) as [x y]. cbn [fst snd] in Hc, Hs. rewrite Hc, Hs. reflexivity.
Qed.

(** ** sweeps *)
Lemma iter_ext {A} (F G : A -> A) : (forall x, F x = G x) -> forall p x, Pos.iter F x p = Pos.iter G x p.
Proof.
  intros HFG. induction p as [p IH|p IH|]; intros x; cbn [Pos.iter].
  - rewrite !IH, HFG. reflexivity.
  - rewrite !IH. reflexivity.
  - apply HFG.
Qed.
Lemma sweep_ext f g base : (forall a, f a = g a) -> sweep f base = sweep g base.
Proof.
  intros H.
  assert (E : forall st, sweep_step (fun i => f (base + i)) st = sweep_step (fun i => g (base + i)) st)
    by (intros [i acc]; unfold sweep_step; rewrite H; reflexivity).
  unfold sweep. rewrite (iter_ext _ _ E). reflexivity.
Qed.

(** the model's own masked codes are the specification's *)
Definition masked_model_code (h : bool) (b : bus) (a : Z) : Z :=
  if excluded h a then 0 else model_code b SwPhys a.

Theorem sweep_model_passes low high h bank fn impl :
  bus_agree_b low lorom = true -> bus_agree_b high hirom = true ->
  snd (check_sweep low high
         (Sweep h bank fn impl (sweep (masked_model_code h (if h then high else low)) (bank * 65536)))) = true.
Proof.
  intros Hl Hh. unfold check_sweep. cbn [snd]. destruct fn as [|n]; [|reflexivity].
  apply Z.eqb_eq. apply sweep_ext. intros a. unfold spec_code, masked_model_code, model_code, spec_phys.
  destruct (excluded h a); [reflexivity|]. destruct h.
  - rewrite (bus_agree_physical _ _ Hh), hirom_closed_form. reflexivity.
  - rewrite (bus_agree_physical _ _ Hl), lorom_closed_form. reflexivity.
Qed.

Theorem sweep_add_ok low high h bank n impl impl_in :
  snd (check_sweep low high (Sweep h bank (SwAdd n) impl impl_in)) = true.
Proof. unfold check_sweep. cbn [snd]. reflexivity. Qed.

(** * Examples *)
(** a LoROM mirror bank (0x81 mirrors 0x01), a HiROM address, RAM, an unmapped bank, an address
    below the LoROM window (the oracle is silent there) *)
Example phys_cases :
  check lorom hirom (CPhys BLow 8495173 (OOk (Some 41029))) = (true, true)      (* 0x81 A045 -> 0xA045 *)
  /\ check lorom hirom (CPhys BLow 106565 (OOk (Some 41029))) = (true, true)    (* 0x01 A045 -> 0xA045 *)
  /\ check lorom hirom (CPhys BHigh 12657477 (OOk (Some 74565))) = (true, true) (* 0xC1 2345 -> 0x12345 *)
  /\ check lorom hirom (CPhys BLow 8257552 (OOk None)) = (true, true)           (* 0x7E 0010: RAM *)
  /\ check lorom hirom (CPhys BLow 7340032 (OErr EKey)) = (true, true)          (* 0x70: unmapped *)
  /\ check lorom hirom (CPhys BLow 65552 (OOk (Some 32784))) = (true, true).    (* 0x01 0010: below the window *)
Proof. vm_compute. repeat split. Qed.

(** the clause is not vacuous: wrong values are refused *)
Example phys_wrong_values :
  snd (check lorom hirom (CPhys BLow 8495173 (OOk (Some 41030)))) = false
  /\ snd (check lorom hirom (CPhys BLow 8257552 (OOk (Some 0)))) = false
  /\ snd (check lorom hirom (CPhys BLow 7340032 (OOk None))) = false.
Proof. vm_compute. repeat split. Qed.

Example phys_by_theorem : snd (check lorom hirom (CPhys BHigh 12657477 (OOk (Some 74565)))) = true.
Proof. apply cphys_builtin_ok; reflexivity. Qed.

(** an advance across a bank end (LoROM 0x01FFFE + 4 = 0x028002): model and oracle agree.  (The
    general [CAdd] theorem is not in this file.) *)
Example add_across_bank_end :
  check lorom hirom (CAdd BLow 131070 4 (OOk 163842)) = (true, true).
Proof. vm_compute. repeat split. Qed.

(** the [SwPhys] clause constrains [impl_in], which the correspondence does not see: the model's
    checksum of LoROM bank 01 with a wrong [impl_in] *)
Definition impl_bank1 : Z := Eval vm_compute in sweep (model_code lorom SwPhys) 65536.
Example sweep_needs_side_condition :
  check_sweep lorom hirom (Sweep false 1 SwPhys impl_bank1 0) = (true, false).
Proof. vm_compute. reflexivity. Qed.
Example sweep_bank1_passes :
  check_sweep lorom hirom (Sweep false 1 SwPhys impl_bank1 (sweep (masked_model_code false lorom) 65536)) = (true, true).
Proof. vm_compute. reflexivity. Qed.

Check cphys_builtin_ok.
Check cphys_builtin_model_passes.
Check sweep_model_passes.
Check sweep_add_ok.
Print Assumptions cphys_builtin_ok.
Print Assumptions cphys_builtin_model_passes.
Print Assumptions sweep_model_passes.
