(** The C13 run-time oracle (Oracle/C13o.v [spec_ok]) against the model (Model/Ips.v [read_ips]):
    the oracle's independent record parser ([parse_ips], Spec/IpsFormat.v) and the model's reader agree
    on every file made of bytes - same records when the parser accepts, rejection when it rejects -
    so the model's own result passes the oracle, and a passed correspondence check implies a passed
    oracle check.  Side condition: the file's elements are bytes (0..255); outside that range the
    reader's [lor]/[shiftl] and the parser's sums differ (counterexample below). *)
From Coq Require Import ZArith List Bool Lia.
From A816 Require Import Spec.IpsFormat Model.Ips Oracle.Obs Oracle.C13o
  Proofs.BitLemmas Proofs.IpsFormatProofs Proofs.IpsProofs Proofs.IpsOracleProofs.
Import ListNotations.
Open Scope Z_scope.

Definition is_byte (b : Z) : Prop := 0 <= b < 256.
Definition byte_file (f : bytes) : Prop := Forall is_byte f.
Definition obs_of_res {A} (r : res A) : obs A :=
  match r with Ok a => OOk a | Err k => OErr k | OutOfFuel => OTimeout end.

Lemma read_exactly_ge n l : (n <= length l)%nat -> read_exactly n l = Ok (firstn n l, skipn n l).
Proof.
  intros H. unfold read_exactly, file_read. rewrite firstn_length_le by exact H. rewrite Nat.eqb_refl. reflexivity.
Qed.
Lemma read_exactly_lt n l : (length l < n)%nat -> read_exactly n l = Err ERuntime.
Proof.
  intros H. unfold read_exactly, file_read. rewrite firstn_length, Nat.min_r by lia.
  destruct (Nat.eqb_spec (length l) n); [lia|reflexivity].
Qed.

Lemma addr_bytes a2 a1 a0 : is_byte a1 -> is_byte a0 ->
  Z.lor (Z.shiftl a2 16) (unpack_H a1 a0) = a2 * 65536 + a1 * 256 + a0.
Proof. unfold is_byte, unpack_H. intros H1 H0. rewrite lor_shift16 by lia. lia. Qed.

(** the heart: parser and reader loop on the same byte list *)
Lemma loops_agree delta : forall fuel bs acc fuel', byte_file bs -> (length bs < fuel')%nat ->
  match parse_records fuel bs with
  | Ok (rs, _) => read_ips_loop fuel' delta bs acc = Ok (rev acc ++ records_blocks delta rs)
  | Err _ => exists e, read_ips_loop fuel' delta bs acc = Err e
  | OutOfFuel => True
  end.
Proof.
  induction fuel as [|fuel IH]; intros bs acc fuel' Hb Hlen; [exact I|].
  destruct fuel' as [|f']; [inversion Hlen|].
  cbn [parse_records read_ips_loop].
  destruct bs as [|o2 [|o1 [|o0 after]]].
  1-3: (rewrite read_exactly_lt by (cbn [length]; lia); cbn [bind]; eexists; reflexivity).
  rewrite read_exactly_3. cbn [bind]. unfold ips_eof. cbn [list_eqb].
  replace ((o2 =? 69) && ((o1 =? 79) && ((o0 =? 70) && true))) with ((o2 =? 69) && (o1 =? 79) && (o0 =? 70))
    by (rewrite andb_true_r, andb_assoc; reflexivity).
  destruct ((o2 =? 69) && (o1 =? 79) && (o0 =? 70)); [rewrite app_nil_r; reflexivity|].
  inversion Hb as [|? ? _ Hb1]; subst. inversion Hb1 as [|? ? B1 Hb2]; subst. inversion Hb2 as [|? ? B0 Hb3]; subst.
  unfold read_record_after.
  destruct after as [|s1 [|s0 body]].
  1-2: (rewrite read_exactly_lt by (cbn [length]; lia); cbn [bind]; eexists; reflexivity).
  rewrite read_exactly_2. cbn [bind].
  inversion Hb3 as [|? ? S1 Hb4]; subst. inversion Hb4 as [|? ? S0 Hb5]; subst.
  rewrite (addr_bytes o2 o1 o0 B1 B0). unfold unpack_H.
  cbn [length] in Hlen.
  destruct (s1 * 256 + s0 =? 0) eqn:Ez.
  - destruct body as [|n1 [|n0 [|v rest]]].
    1-3: (rewrite read_exactly_lt by (cbn [length]; lia); cbn [bind]; eexists; reflexivity).
    rewrite read_exactly_3. cbn [bind].
    inversion Hb5 as [|? ? _ Hb6]; subst. inversion Hb6 as [|? ? _ Hb7]; subst. inversion Hb7 as [|? ? _ Hb8]; subst.
    specialize (IH rest ((o2 * 65536 + o1 * 256 + o0 + delta, repeat v (Z.to_nat (n1 * 256 + n0))) :: acc) f' Hb8
                  ltac:(cbn [length] in Hlen; lia)).
    destruct (parse_records fuel rest) as [[rs tl]| |]; cbn [bind].
    + refine (eq_trans IH _). cbn [rev records_blocks map rec_off rec_data]. rewrite <- app_assoc. reflexivity.
    + exact IH.
    + exact I.
  - assert (Hs : 0 < s1 * 256 + s0) by (unfold is_byte in *; lia).
    destruct (Z.of_nat (length body) <? s1 * 256 + s0) eqn:El.
    + rewrite read_exactly_lt by lia. cbn [bind]. eexists; reflexivity.
    + rewrite read_exactly_ge by lia. cbn [bind].
      assert (Hsk : byte_file (skipn (Z.to_nat (s1 * 256 + s0)) body)).
      { unfold byte_file. rewrite <- (firstn_skipn (Z.to_nat (s1 * 256 + s0)) body) in Hb5.
        apply Forall_app in Hb5. apply Hb5. }
      pose proof (skipn_length (Z.to_nat (s1 * 256 + s0)) body) as Hl.
      specialize (IH (skipn (Z.to_nat (s1 * 256 + s0)) body)
                    ((o2 * 65536 + o1 * 256 + o0 + delta, firstn (Z.to_nat (s1 * 256 + s0)) body) :: acc) f' Hsk ltac:(lia)).
      destruct (parse_records fuel (skipn (Z.to_nat (s1 * 256 + s0)) body)) as [[rs tl]| |]; cbn [bind].
      * refine (eq_trans IH _). cbn [rev records_blocks map rec_off rec_data]. rewrite <- app_assoc. reflexivity.
      * exact IH.
      * exact I.
Qed.

Lemma parse_ips_header file :
  parse_ips file = if list_eqb Z.eqb (firstn 5 file) magic
                   then parse_records (S (length (skipn 5 file))) (skipn 5 file) else Err EValue.
Proof.
  unfold parse_ips, magic.
  repeat (match goal with |- context [match ?x with _ => _ end] => is_var x; destruct x; try reflexivity end).
Qed.

(** parser and reader on a whole file *)
Theorem parse_read_agree : forall file delta, byte_file file ->
  match parse_ips file with
  | Ok (rs, _) => read_ips delta file = Ok (records_blocks delta rs)
  | Err _ => exists e, read_ips delta file = Err e
  | OutOfFuel => False
  end.
Proof.
  intros file delta Hb. pose proof (parse_ips_fuel file) as Hf. rewrite parse_ips_header in *.
  unfold read_ips, file_read. change ips_magic with magic.
  destruct (list_eqb Z.eqb (firstn 5 file) magic); [|eexists; reflexivity].
  assert (Hsk : byte_file (skipn 5 file)).
  { unfold byte_file. rewrite <- (firstn_skipn 5 file) in Hb. apply Forall_app in Hb. apply Hb. }
  pose proof (skipn_length 5 file) as Hl.
  pose proof (loops_agree delta (S (length (skipn 5 file))) (skipn 5 file) [] (S (length file)) Hsk ltac:(lia)) as H.
  destruct (parse_records (S (length (skipn 5 file))) (skipn 5 file)) as [[rs tl]| |]; [exact H|exact H|apply Hf; reflexivity].
Qed.

Lemma blocks_eqb_refl bl : blocks_eqb bl bl = true.
Proof.
  unfold blocks_eqb. induction bl as [|[a d] r IH]; [reflexivity|]. cbn [list_eqb]. rewrite IH, andb_true_r.
  unfold write_eqb. cbn [fst snd]. rewrite Z.eqb_refl. cbn [andb]. unfold bytes_eqb.
  induction d as [|x d IHd]; [reflexivity|]. cbn [list_eqb]. rewrite Z.eqb_refl. exact IHd.
Qed.

(** The model's own result passes the oracle, for every file of bytes and every delta. *)
Theorem c13_model_passes : forall file delta, byte_file file ->
  spec_ok file delta (obs_of_res (read_ips delta file)) = true.
Proof.
  intros file delta Hb. pose proof (parse_read_agree file delta Hb) as H. unfold spec_ok.
  destruct (parse_ips file) as [[rs [|x tl]]|e|]; try reflexivity.
  - rewrite H. cbn [obs_of_res]. destruct (forallb wf_record_b rs); [|reflexivity]. apply blocks_eqb_refl.
  - destruct H as (e' & ->). reflexivity.
  - contradiction.
Qed.

(** An implementation result that the correspondence check accepts (equal to the model's, error kind
    included) passes the oracle as well. *)
Theorem c13_corr_implies_spec_file : forall file delta impl, byte_file file ->
  agree_strict blocks_eqb (read_ips delta file) impl = true -> spec_ok file delta impl = true.
Proof.
  intros file delta impl Hb Hc. pose proof (c13_model_passes file delta Hb) as Hm.
  destruct (read_ips delta file) as [bl|k|] eqn:E; destruct impl as [bl'|k'|]; cbn [agree_strict] in Hc; try discriminate Hc.
  - apply writes_eqb_true in Hc. subst bl'. exact Hm.
  - cbn [obs_of_res] in Hm. unfold spec_ok in *.
    destruct (parse_ips file) as [[rs [|x tl]]|e|]; try reflexivity; try exact Hm.
Qed.
Theorem c13_corr_implies_spec : forall t rfile delta rimpl, byte_file (expand_runs rfile) ->
  fst (check t (CR rfile delta rimpl)) = true -> snd (check t (CR rfile delta rimpl)) = true.
Proof. intros t rfile delta rimpl Hb Hc. cbn [check fst snd] in *. apply c13_corr_implies_spec_file; assumption. Qed.

(* ------------------------------------------------------------------------------------------ *)
(** * Examples *)

(** a plain record (3 bytes at 0x300) and a run-length record (4 x 9 at 0x400), delta = -0x200 *)
Definition ex_file : bytes := ips_file [Plain 768 [1; 2; 3]; Rle 1024 4 9].
Example c13_example_records :
  ex_file = [80;65;84;67;72;  0;3;0; 0;3; 1;2;3;  0;4;0; 0;0; 0;4; 9;  69;79;70] /\
  read_ips (-512) ex_file = Ok [(256, [1; 2; 3]); (512, [9; 9; 9; 9])] /\
  parse_ips ex_file = Ok ([Plain 768 [1; 2; 3]; Rle 1024 4 9], []) /\
  spec_ok ex_file (-512) (obs_of_res (read_ips (-512) ex_file)) = true /\
  (* the oracle is not vacuous: another offset, a missing block, an error are refused *)
  spec_ok ex_file (-512) (OOk [(257, [1; 2; 3]); (512, [9; 9; 9; 9])]) = false /\
  spec_ok ex_file (-512) (OOk [(256, [1; 2; 3])]) = false /\
  spec_ok ex_file (-512) (OErr ERuntime) = false.
Proof. vm_compute. repeat split; reflexivity. Qed.

(** cut inside the first payload: both reject; an accepting implementation is refused *)
Example c13_example_cut :
  let cut := firstn 12 ex_file in
  parse_ips cut = Err EValue /\ read_ips (-512) cut = Err ERuntime /\
  spec_ok cut (-512) (obs_of_res (read_ips (-512) cut)) = true /\
  spec_ok cut (-512) (OOk []) = false.
Proof. vm_compute. repeat split; reflexivity. Qed.

(** the empty patch "PATCH" ++ "EOF": no block *)
Example c13_example_empty :
  let f := [80;65;84;67;72; 69;79;70] in
  parse_ips f = Ok ([], []) /\ read_ips 5 f = Ok [] /\ spec_ok f 5 (obs_of_res (read_ips 5 f)) = true /\
  spec_ok f 5 (OErr ERuntime) = false.
Proof. vm_compute. repeat split; reflexivity. Qed.

(** shapes on which the oracle makes no claim (and the model is accepted whatever it does): bytes
    after the marker, a run of length 0, the offset "EOF" - here the reader and the parser still agree *)
Example c13_example_no_claim :
  let trailing := ex_file ++ [1; 2] in
  let zero_run := [80;65;84;67;72;  0;0;1; 0;0; 0;0; 7;  69;79;70] in
  read_ips 0 trailing = Ok [(768, [1; 2; 3]); (1024, [9; 9; 9; 9])] /\ spec_ok trailing 0 (OErr ERuntime) = true /\
  read_ips 0 zero_run = Ok [(1, [])] /\ parse_ips zero_run = Ok ([Rle 1 0 7], []) /\ spec_ok zero_run 0 (OErr ERuntime) = true.
Proof. vm_compute. repeat split; reflexivity. Qed.

(** why the side condition: a "file" with an element outside 0..255 - the reader combines the
    offset bytes with [lor]/[shiftl], the parser adds them - the model's result fails the oracle *)
Example c13_non_byte_counterexample :
  let f := [80;65;84;67;72;  1;0;65536; 0;1; 7;  69;79;70] in
  ~ byte_file f /\
  parse_ips f = Ok ([Plain 131072 [7]], []) /\ read_ips 0 f = Ok [(65536, [7])] /\
  spec_ok f 0 (obs_of_res (read_ips 0 f)) = false.
Proof.
  cbv zeta. split; [|vm_compute; repeat split; reflexivity].
  intros H. unfold byte_file in H. rewrite Forall_forall in H. specialize (H 65536 ltac:(cbn; tauto)). unfold is_byte in H. lia.
Qed.

Check loops_agree.
Check parse_read_agree.
Check c13_model_passes.
Check c13_corr_implies_spec_file.
Check c13_corr_implies_spec.
Print Assumptions parse_read_agree.
Print Assumptions c13_model_passes.
Print Assumptions c13_corr_implies_spec.
Print Assumptions c13_example_records.
Print Assumptions c13_non_byte_counterexample.
