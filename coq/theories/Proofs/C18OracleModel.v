(** C18 — the run-time oracle never demands more than the model delivers.

    Oracle/C18o.v: [check c = (corr c, spec_ok c)];  [corr c] = "the implementation's observed value
    equals the model's", [spec_ok c] = the independent clause (longest-match tokenisation, round trip
    on round-trip tables, layout of the assembled block) evaluated on the observed value.

    [c18_corr_implies_spec]: an observation that agrees with the model passes the oracle, for every
    case — every table (duplicate texts, overlapping entries, ignore entries), every string (escapes,
    escapes above 0xFF, unknown characters), every program of tables / texts / nested blocks —
    under ONE side condition, on [CAsm] only: the program's text bytes number fewer than
    2^24 - 0x8000.  Why: the harness reads the label after the text from the three bytes of [.dl end]
    and the oracle compares it with the unwrapped 0x8000 + n, so for n >= 2^24 - 0x8000 the model's
    own block fails the oracle's last conjunct ([label_wraps]).  Such a program does not fit a ROM
    (4 MiB), so the generators can never reach it; no other disagreement between oracle and model
    exists. *)
From Coq Require Import ZArith List Lia Bool Arith.
From A816 Require Import Model.Table Spec.TableSpec Oracle.C18o Proofs.BusProofs Proofs.PackLemmas
     Proofs.TableProofs Proofs.TableEncode Proofs.TableDecode Proofs.TableOracle Proofs.TableScope.
Import ListNotations.
Open Scope Z_scope.

(* ------------------------------------------------------------------------------------------ *)
(** * Encoding and round trip: [CCodec] *)

Lemma forallb_not_joker its : forallb not_joker_b its = true -> Forall not_joker its.
Proof.
  intros H. apply Forall_forall. intros it Hin. rewrite forallb_forall in H. specialize (H it Hin).
  destruct it; [discriminate H|exact I|exact I].
Qed.

Theorem codec_corr_implies_spec es s ib it :
  corr (CCodec es s ib it) = true -> spec_ok (CCodec es s ib it) = true.
Proof.
  cbn [corr spec_ok]. intros H. apply andb_prop in H as [Hb Ht].
  destruct es as [|e es']; [reflexivity|]. set (es := e :: es') in *.
  destruct (tokenise es s) as [its|] eqn:Tk; [|reflexivity]. apply tokenise_iff in Tk.
  destruct (table_of_entries_ok es ltac:(discriminate)) as (t & Et).
  assert (Eb : to_bytes t s = Ok (bytes_of its)).
  { apply (to_bytes_items es t Et). exists its. split; [exact Tk|reflexivity]. }
  apply andb_true_intro. split.
  - unfold model_to_bytes in Hb. rewrite Et in Hb. cbn [bind] in Hb. rewrite Eb in Hb.
    destruct ib as [b| |]; cbn [agree_strict] in Hb; try discriminate Hb. exact Hb.
  - destruct (rt_table_b es && forallb not_joker_b its) eqn:G; [|reflexivity].
    apply andb_prop in G as [Hrt Hnj]. apply rt_table_b_iff in Hrt. apply forallb_not_joker in Hnj.
    destruct (roundtrip_items es t Et Hrt s its Tk Hnj) as [_ Etx].
    unfold model_roundtrip in Ht. rewrite Et in Ht. cbn [bind] in Ht. rewrite Eb in Ht. cbn [bind] in Ht.
    rewrite Etx in Ht. destruct it as [x| |]; cbn [agree_strict] in Ht; try discriminate Ht. exact Ht.
Qed.

(* ------------------------------------------------------------------------------------------ *)
(** * Programs: [CAsm] *)

(** code generation of the mini-language only fails when a table file has no entry *)
Definition gen_total (st : stmt) : Prop :=
  tables_nonempty st = true -> forall chain, exists r, gen_stmt st chain = Ok r.

Lemma gen_body_total body : Forall gen_total body -> forallb tables_nonempty body = true ->
  forall chain, exists r, gen_body body chain = Ok r.
Proof.
  induction 1 as [|x l Hx _ IH]; intros Hne chain; cbn [gen_body]; [eexists; reflexivity|].
  cbn [forallb] in Hne. apply andb_prop in Hne as [H1 H2].
  destruct (Hx H1 chain) as (r1 & ->). cbn [bind].
  destruct (IH H2 (fst r1)) as (r2 & ->). cbn [bind]. eexists. reflexivity.
Qed.

Lemma gen_stmt_total : forall st, gen_total st.
Proof.
  apply stmt_ind2; unfold gen_total.
  - intros es Hne chain. cbn [tables_nonempty] in Hne. cbn [gen_stmt].
    destruct (table_of_entries_ok es ltac:(destruct es; [discriminate Hne|discriminate])) as (t & ->).
    cbn [bind]. eexists. reflexivity.
  - intros s _ chain. eexists. reflexivity.
  - intros body HF Hne chain. cbn [tables_nonempty] in Hne. rewrite gen_block.
    destruct (gen_body_total body HF Hne (None :: chain)) as (r & ->). cbn [bind]. eexists. reflexivity.
Qed.

Lemma gen_prog_total prog : forallb tables_nonempty prog = true -> exists r, gen_body prog [None] = Ok r.
Proof.
  intros H. apply gen_body_total; [|exact H]. apply Forall_forall. intros st _. apply gen_stmt_total.
Qed.

(** the oracle's expected bytes are an instance of the inductive specification *)
Lemma spec_bytes_emit nodes : forall bs, spec_bytes nodes = Some bs -> EmitSpec nodes bs.
Proof.
  induction nodes as [|[[es|] s] r IH]; intros bs H; cbn [spec_bytes] in H.
  - injection H as <-. constructor.
  - destruct (tokenise es s) as [its|] eqn:Tk; [|discriminate].
    destruct (spec_bytes r) as [bs'|]; [|discriminate]. injection H as <-.
    constructor; [|apply IH; reflexivity].
    apply Tok_Toks. exists its. split; [apply tokenise_iff; exact Tk|reflexivity].
  - discriminate.
Qed.

Lemma bytes_eqb_eq (a b : bytes) : bytes_eqb a b = true -> a = b.
Proof. apply list_eqb_Z_eq. Qed.
Lemma bytes_eqb_refl (a : bytes) : bytes_eqb a a = true.
Proof. apply list_eqb_Z_eq. reflexivity. Qed.

(** the only side condition: the text bytes leave room for a three-byte label *)
Definition label_room : Z := 16777216 - start_address.     (* 2^24 - 0x8000 = 16744448 *)

Theorem asm_corr_implies_spec prog impl :
  (forall bs, spec_bytes (spec_texts prog) = Some bs -> Z.of_nat (length bs) < label_room) ->
  corr (CAsm prog impl) = true -> spec_ok (CAsm prog impl) = true.
Proof.
  cbn [corr spec_ok]. intros Hroom H.
  destruct (forallb tables_nonempty prog) eqn:Hne; [|reflexivity].
  destruct (spec_bytes (spec_texts prog)) as [bs|] eqn:SB; [|reflexivity].
  specialize (Hroom bs eq_refl).
  destruct (gen_prog_total prog Hne) as (r & Hg).
  assert (Ea : assemble_texts prog = Ok bs).
  { apply (scope_program prog r Hg). apply spec_bytes_emit. exact SB. }
  unfold model_asm in H. rewrite Ea in H. cbn [bind] in H.
  destruct impl as [l| |]; cbn [agree_strict] in H; try discriminate H.
  unfold expected_blocks, blocks_eqb in H.
  destruct l as [|[off blk] [|? ?]]; cbn [list_eqb] in H; try discriminate H;
    [|rewrite andb_false_r in H; discriminate H].
  rewrite andb_true_r in H. unfold block_eqb in H. cbn [fst snd] in H. apply andb_prop in H as [Ho Hb].
  apply Z.eqb_eq in Ho. apply bytes_eqb_eq in Hb. subst off blk.
  set (v := start_address + Z.of_nat (length bs)).
  assert (L3 : length (le_bytes 3 v) = 3%nat) by reflexivity.
  rewrite app_length, L3, Nat.eqb_refl.
  rewrite firstn_app, firstn_all, Nat.sub_diag. cbn [firstn]. rewrite app_nil_r, bytes_eqb_refl.
  rewrite skipn_app, skipn_all, Nat.sub_diag. cbn [skipn app].
  rewrite le_bytes_in_range; [rewrite !Z.eqb_refl; reflexivity|].
  unfold v, label_room, start_address in *. change (256 ^ Z.of_nat 3) with 16777216. lia.
Qed.

(** the side condition is needed: with 2^24 - 0x8000 text bytes or more, the very block the model
    expects fails the oracle's label conjunct (the label is read back from three bytes) *)
Lemma label_wraps (bs : bytes) : label_room <= Z.of_nat (length bs) ->
  (le_decode (skipn (length bs) (bs ++ le_bytes 3 (start_address + Z.of_nat (length bs))))
   =? start_address + Z.of_nat (length bs)) = false.
Proof.
  intros H. rewrite skipn_app, skipn_all, Nat.sub_diag. cbn [skipn app].
  rewrite le_decode_le_bytes. change (256 ^ Z.of_nat 3) with 16777216.
  apply Z.eqb_neq. unfold label_room, start_address in *.
  pose proof (Z.mod_pos_bound (32768 + Z.of_nat (length bs)) 16777216 ltac:(lia)). lia.
Qed.

(* ------------------------------------------------------------------------------------------ *)
(** * Every case *)

Definition size_ok (c : case) : Prop :=
  match c with
  | CAsm prog _ => forall bs, spec_bytes (spec_texts prog) = Some bs -> Z.of_nat (length bs) < label_room
  | _ => True
  end.

Theorem c18_corr_implies_spec : forall c, size_ok c -> corr c = true -> spec_ok c = true.
Proof.
  intros [es s ib it|es bs it|prog impl] Hs H.
  - apply codec_corr_implies_spec. exact H.
  - reflexivity.
  - apply asm_corr_implies_spec; assumption.
Qed.

(** the two table cases need no side condition at all *)
Corollary c18_corr_implies_spec_codec : forall es s ib it, corr (CCodec es s ib it) = true -> spec_ok (CCodec es s ib it) = true.
Proof. exact codec_corr_implies_spec. Qed.
Corollary c18_corr_implies_spec_text : forall es bs it, corr (CText es bs it) = true -> spec_ok (CText es bs it) = true.
Proof. reflexivity. Qed.

(** in terms of [check]: a case the correspondence bit accepts is never an oracle failure *)
Corollary c18_check_consistent c : size_ok c -> fst (check c) = true -> snd (check c) = true.
Proof. unfold check. cbn [fst snd]. apply c18_corr_implies_spec. Qed.

(* ------------------------------------------------------------------------------------------ *)
(** * Examples (the model's own values as observations) *)

Module C18OracleExamples.
  (** 10=a / 20=ab / 3031=abc / 40=b / 50=b (duplicate text: the last line wins) *)
  Definition es : list entry :=
    [([97], [16], None); ([97; 98], [32], None); ([97; 98; 99], [48; 49], None); ([98], [64], None); ([98], [80], None)].
  Definition as_obs {A} (r : res A) : obs A := match r with Ok a => OOk a | Err k => OErr k | OutOfFuel => OTimeout end.
  Definition self_codec (es : list entry) (s : str) : case :=
    CCodec es s (as_obs (model_to_bytes es s)) (as_obs (model_roundtrip es s)).

  (** "abcab[0x41]zb": abc, ab, escape, unknown 'z' skipped, b -> 30 31 20 41 50; decoded "abcab[0x41]b" *)
  Example overlap_escape_unknown :
    model_to_bytes es [97;98;99;97;98;91;48;120;52;49;93;122;98] = Ok [48; 49; 32; 65; 80] /\
    check (self_codec es [97;98;99;97;98;91;48;120;52;49;93;122;98]) = (true, true).
  Proof. vm_compute. split; reflexivity. Qed.

  (** an escape above 0xFF: the model raises ValueError, the oracle has nothing to say *)
  Example escape_too_big : check (self_codec es [97; 91;48;120;49;50;51;93]) = (true, true) /\
    model_to_bytes es [97; 91;48;120;49;50;51;93] = Err EValue.
  Proof. vm_compute. split; reflexivity. Qed.

  (** a round-trip table (unique, prefix-free codes, no ignore) with multi-byte codes: decoded back *)
  Definition rt : list entry := [([97], [1; 2], None); ([97; 98], [3; 4; 5], None); ([99], [6], None)].
  Example multibyte_roundtrip :
    rt_table_b rt = true /\
    model_roundtrip rt [97; 98; 97; 99; 120; 97] = Ok [97; 98; 97; 99; 97] /\
    check (self_codec rt [97; 98; 97; 99; 120; 97]) = (true, true) /\
    check (CText rt [3; 4; 5; 1; 2; 9; 6] (as_obs (model_to_text rt [3; 4; 5; 1; 2; 9; 6]))) = (true, true) /\
    model_to_text rt [3; 4; 5; 1; 2; 9; 6] = Ok [97; 98; 97; 91; 48; 120; 57; 93; 99].
  Proof. vm_compute. repeat split; reflexivity. Qed.

  (** the oracle does discriminate: a wrong byte, or a longest-match violation ("ab" encoded as a, b) *)
  Example wrong_rejected :
    spec_ok (CCodec es [97; 98] (OOk [16; 80]) (OOk [97; 98])) = false /\
    spec_ok (CCodec es [97; 98] (OOk [32]) (OOk [97; 98])) = true.
  Proof. vm_compute. split; reflexivity. Qed.

  (** a program: table, text, a block with its own table, text after the block *)
  Definition prog : list stmt :=
    [STable es; SText [97; 98]; SBlock [STable rt; SText [97; 98]; SBlock [SText [99]]]; SText [98]].
  Example program_self : check (CAsm prog (as_obs (model_asm prog))) = (true, true) /\
    model_asm prog = Ok [(0, [32; 3; 4; 5; 6; 80; 6; 128; 0])].
  Proof. vm_compute. split; reflexivity. Qed.
  Example program_by_theorem : spec_ok (CAsm prog (as_obs (model_asm prog))) = true.
  Proof.
    apply c18_corr_implies_spec; [|vm_compute; reflexivity].
    intros bs H. vm_compute in H. injection H as <-. vm_compute. reflexivity.
  Qed.
End C18OracleExamples.

Check codec_corr_implies_spec.
Check asm_corr_implies_spec.
Check label_wraps.
Check c18_corr_implies_spec.
Check c18_check_consistent.
Print Assumptions codec_corr_implies_spec.
Print Assumptions asm_corr_implies_spec.
Print Assumptions label_wraps.
Print Assumptions c18_corr_implies_spec.
Print Assumptions c18_check_consistent.
