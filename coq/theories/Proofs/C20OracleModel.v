(** * The C20 run-time oracle against the model

    [Oracle/C20o.v]: a case carries the IMPLEMENTATION's value; [check c] is the pair
    (correspondence: implementation = model, [spec_ok c]: the independent textbook clause on the
    implementation's value).  This file proves that a value that agrees with the MODEL passes the
    textbook clause, i.e. that the oracle never demands more than the model delivers:

      corr c = true -> bus_corr c = true -> spec_ok c = true

    where [corr c] is the first component of [check c] and [bus_corr] is the side condition that
    the single-statement form needs: for [CBus] the correspondence of [check] is the constant
    [true] (the live bus is regenerated from the implementation and tied to the specification bus
    by [C20_live]), so "the case carries the model's value" has to be said separately for it:
    the carried value is what the specification bus ([lorom] for the two LoROM variants, [hirom]
    for HiROM) gives at the model's [rom_to_snes o mode].  [cbus_needs_side_condition] shows that
    without it the statement is false.  For the five other constructors [bus_corr] is [true] and
    the plain statement holds ([c20_corr_implies_spec_nobus]), over ALL arguments: out of the
    ranges of [in_range] the oracle is silent, and the error cases of the model (a long pointer
    that does not pack, a base-relative value of fewer than two bytes) lie where it is silent. *)
From Coq Require Import ZArith Lia Bool ZifyBool List.
From A816 Require Import Model.Legacy Spec.BusLaws Proofs.BitLemmas Proofs.BusProofs Proofs.LegacyProofs
  Oracle.C20o.
Import ListNotations.
Open Scope Z_scope.
Ltac Zify.zify_post_hook ::= Z.to_euclidean_division_equations.

Definition corr (c : case) : bool := fst (check c).

(** the specification bus of a mode, and "the case carries the model's bus value" *)
Definition model_bus (mode : romtype) : bus := match mode with HighRom => hirom | _ => lorom end.
Definition bus_corr (c : case) : bool :=
  match c with
  | CBus o mode impl => agree opt_z_eqb (addr_physical (model_bus mode) (rom_to_snes o mode)) impl
  | _ => true
  end.

(** ** comparisons *)
Lemma bytes_eqb_true a : forall b, bytes_eqb a b = true -> a = b.
Proof.
  unfold bytes_eqb. induction a as [|x a IH]; intros [|y b] H; cbn [list_eqb] in H; try discriminate; [reflexivity|].
  apply andb_true_iff in H as [Hx Hr]. apply Z.eqb_eq in Hx. rewrite Hx, (IH b Hr). reflexivity.
Qed.
Lemma bytes_eqb_same a : bytes_eqb a a = true.
Proof. unfold bytes_eqb. induction a as [|x a IH]; [reflexivity|]. cbn [list_eqb]. rewrite Z.eqb_refl, IH. reflexivity. Qed.

Lemma agree_ok_Z v impl : agree Z.eqb (Ok v) impl = true -> impl = OOk v.
Proof. destruct impl as [b| |]; cbn [agree]; intros H; try discriminate. apply Z.eqb_eq in H. rewrite H. reflexivity. Qed.

(** ** the model's values in textbook form *)
Lemma in_range_bounds o mode : in_range o mode = true ->
  0 <= o /\ match mode with LowRom => o < 3670016 | LowRom2 => o < 2621440 | HighRom => o < 4194304 end.
Proof. unfold in_range. destruct mode; lia. Qed.

Lemma model_textbook o mode : 0 <= o -> rom_to_snes o mode = textbook o mode.
Proof.
  intros Ho. destruct mode; unfold textbook.
  - apply rom_to_snes_low. exact Ho.
  - rewrite rom_to_snes_low2 by exact Ho. lia.
  - unfold rom_to_snes. lia.
Qed.

Lemma model_spec_phys o mode : in_range o mode = true ->
  spec_phys mode (rom_to_snes o mode) = Ok (Some o).
Proof.
  intros H. apply in_range_bounds in H as [Ho Hm]. destruct mode; unfold spec_phys.
  - rewrite <- lorom_closed_form. apply (legacy_low o). lia.
  - rewrite <- lorom_closed_form. apply (legacy_low2 o). lia.
  - rewrite <- hirom_closed_form. apply (legacy_high o). lia.
Qed.

Lemma model_bus_phys o mode : in_range o mode = true ->
  addr_physical (model_bus mode) (rom_to_snes o mode) = Ok (Some o).
Proof.
  intros H. apply in_range_bounds in H as [Ho Hm]. destruct mode; unfold model_bus.
  - apply (legacy_low o). lia.
  - apply (legacy_low2 o). lia.
  - apply (legacy_high o). lia.
Qed.

Lemma model_round o mode : in_range o mode = true ->
  match mode with LowRom2 => o < 2097152 | _ => True end ->
  snes_to_rom (rom_to_snes o mode) = o.
Proof.
  intros H Hlow. apply in_range_bounds in H as [Ho Hm]. destruct mode.
  - apply (legacy_low o). lia.
  - apply (legacy_low2 o); lia.
  - apply (legacy_high o). lia.
Qed.

(** ** one lemma per constructor *)
Lemma cr2s_ok o mode impl : corr (CR2S o mode impl) = true -> spec_ok (CR2S o mode impl) = true.
Proof.
  unfold corr, check. cbn [fst spec_ok]. intros H. apply agree_ok_Z in H. subst impl.
  destruct (in_range o mode) eqn:R; [|reflexivity]. cbn [negb orb].
  rewrite (model_spec_phys o mode R).
  rewrite (model_textbook o mode) by (apply in_range_bounds in R; tauto).
  rewrite !Z.eqb_refl. reflexivity.
Qed.

Lemma cs2r_ok a impl : spec_ok (CS2R a impl) = true.
Proof. reflexivity. Qed.

Lemma cround_ok o mode impl : corr (CRound o mode impl) = true -> spec_ok (CRound o mode impl) = true.
Proof.
  unfold corr, check. cbn [fst spec_ok]. intros H. apply agree_ok_Z in H. subst impl.
  destruct (in_range o mode) eqn:R; [|reflexivity]. cbn [negb orb].
  destruct mode.
  - rewrite (model_round o LowRom R I). apply Z.eqb_refl.
  - destruct (Z.ltb_spec o 2097152) as [Hlt|Hge]; [|reflexivity]. cbn [negb orb].
    rewrite (model_round o LowRom2 R Hlt). apply Z.eqb_refl.
  - rewrite (model_round o HighRom R I). apply Z.eqb_refl.
Qed.

Lemma clong_ok base p impl : corr (CLong base p impl) = true -> spec_ok (CLong base p impl) = true.
Proof.
  unfold corr, check. cbn [fst spec_ok]. intros H.
  destruct ((0 <=? base + p) && (base + p <? 3670016)) eqn:R; [|reflexivity]. cbn [negb orb].
  assert (Hr : 0 <= base + p < 3670016) by lia.
  rewrite (legacy_long_pointer base p) in H by lia.
  destruct impl as [bs| |]; cbn [agree] in H; try discriminate H.
  apply bytes_eqb_true in H. subst bs.
  rewrite (Z.add_comm p base), (model_textbook (base + p) LowRom) by lia.
  cbn [le_bytes]. rewrite Z.div_div by lia. change (256 * 256) with 65536. apply bytes_eqb_same.
Qed.

Lemma crel_ok base v impl : corr (CRel base v impl) = true -> spec_ok (CRel base v impl) = true.
Proof.
  unfold corr, check. cbn [fst spec_ok]. intros H.
  destruct v as [|b0 [|b1 rest]]; try reflexivity.
  rewrite (legacy_base_relative base b0 b1 rest) in H. apply agree_ok_Z in H. subst impl. apply Z.eqb_refl.
Qed.

Lemma cbus_ok o mode impl : bus_corr (CBus o mode impl) = true -> spec_ok (CBus o mode impl) = true.
Proof.
  cbn [bus_corr spec_ok]. intros H.
  destruct (in_range o mode) eqn:R; [|reflexivity]. cbn [negb orb].
  rewrite (model_bus_phys o mode R) in H.
  destruct impl as [[q|]| |]; cbn [agree opt_z_eqb option_eqb] in H; try discriminate H.
  apply Z.eqb_eq in H. subst q. apply Z.eqb_refl.
Qed.

(** the same for a live bus that agrees with the specification bus (the per-run condition of
    [C20_live], checked on the regenerated Gen/Buses) *)
Lemma cbus_live_ok b o mode impl :
  bus_agree_b b (model_bus mode) = true ->
  agree opt_z_eqb (addr_physical b (rom_to_snes o mode)) impl = true ->
  spec_ok (CBus o mode impl) = true.
Proof.
  intros Hb H. apply cbus_ok. cbn [bus_corr]. rewrite <- (bus_agree_physical _ _ Hb). exact H.
Qed.

(** ** the single statement *)
Theorem c20_corr_implies_spec : forall c, corr c = true -> bus_corr c = true -> spec_ok c = true.
Proof.
  intros [o mode impl|a impl|o mode impl|base p impl|base v impl|o mode impl] Hc Hb.
  - exact (cr2s_ok o mode impl Hc).
  - exact (cs2r_ok a impl).
  - exact (cround_ok o mode impl Hc).
  - exact (clong_ok base p impl Hc).
  - exact (crel_ok base v impl Hc).
  - exact (cbus_ok o mode impl Hb).
Qed.

Definition is_cbus (c : case) : bool := match c with CBus _ _ _ => true | _ => false end.
Corollary c20_corr_implies_spec_nobus : forall c, is_cbus c = false -> corr c = true -> spec_ok c = true.
Proof.
  intros c Hk Hc. apply c20_corr_implies_spec; [exact Hc|]. destruct c; try reflexivity. discriminate Hk.
Qed.

(** the case that carries the model's own value *)
Definition obs_of {A} (r : res A) : obs A :=
  match r with Ok a => OOk a | Err k => OErr k | OutOfFuel => OTimeout end.
Definition model_case (c : case) : case :=
  match c with
  | CR2S o mode _ => CR2S o mode (OOk (rom_to_snes o mode))
  | CS2R a _ => CS2R a (OOk (snes_to_rom a))
  | CRound o mode _ => CRound o mode (OOk (snes_to_rom (rom_to_snes o mode)))
  | CLong base p _ => CLong base p (obs_of (long_low_rom_pointer base p))
  | CRel base v _ => CRel base v (obs_of (base_relative_16bits_pointer base v))
  | CBus o mode _ => CBus o mode (obs_of (addr_physical (model_bus mode) (rom_to_snes o mode)))
  end.

Lemma agree_obs_of {A} (eqb : A -> A -> bool) (r : res A) :
  (forall a, eqb a a = true) -> r <> OutOfFuel -> agree eqb r (obs_of r) = true.
Proof. intros Hrefl Hf. destruct r as [a|k|]; cbn [obs_of agree]; [apply Hrefl|reflexivity|contradiction]. Qed.

Theorem c20_model_passes_oracle : forall c, spec_ok (model_case c) = true.
Proof.
  intros c. apply c20_corr_implies_spec.
  - destruct c as [o mode impl|a impl|o mode impl|base p impl|base v impl|o mode impl];
      unfold corr, check, model_case; cbn [fst agree]; try apply Z.eqb_refl; try reflexivity.
    + apply agree_obs_of; [apply bytes_eqb_same|].
      unfold long_low_rom_pointer, pack_HB.
      match goal with |- (if ?c then _ else _) <> _ => destruct c end; discriminate.
    + apply agree_obs_of; [apply Z.eqb_refl|].
      unfold base_relative_16bits_pointer. destruct v as [|b0 [|b1 rest]]; discriminate.
  - destruct c as [o mode impl|a impl|o mode impl|base p impl|base v impl|o mode impl];
      unfold model_case; cbn [bus_corr]; try reflexivity.
    apply agree_obs_of.
    + intros [q|]; cbn [opt_z_eqb option_eqb]; [apply Z.eqb_refl|reflexivity].
    + unfold addr_physical, bus_mapping_for_bank.
      destruct (find_range (b_ranges (model_bus mode)) (Z.shiftr (rom_to_snes o mode) 16)) as [id|];
        [|discriminate].
      destruct (dict_get (b_maps (model_bus mode)) id); cbn [bind]; discriminate.
Qed.

(** * Examples *)

(** the side condition is needed: [check]'s correspondence is [true] for any [CBus] case *)
Example cbus_needs_side_condition :
  corr (CBus 74565 LowRom (OOk None)) = true /\ spec_ok (CBus 74565 LowRom (OOk None)) = false
  /\ bus_corr (CBus 74565 LowRom (OOk None)) = false.
Proof. vm_compute. repeat split. Qed.

(** each of the three modes, offset 0x12345 (LoROM 0x02A345, second variant 0x82A345, HiROM 0xC12345) *)
Example r2s_three_modes :
  check (CR2S 74565 LowRom (OOk 172869)) = (true, true)
  /\ check (CR2S 74565 LowRom2 (OOk 8561477)) = (true, true)
  /\ check (CR2S 74565 HighRom (OOk 12657477)) = (true, true)
  /\ check (CRound 74565 LowRom (OOk 74565)) = (true, true)
  /\ check (CRound 74565 LowRom2 (OOk 74565)) = (true, true)
  /\ check (CRound 74565 HighRom (OOk 74565)) = (true, true).
Proof. vm_compute. repeat split. Qed.

(** the theorem applied: the conclusion from the correspondence alone *)
Example r2s_low2_by_theorem : spec_ok (CR2S 74565 LowRom2 (OOk 8561477)) = true.
Proof. apply c20_corr_implies_spec; reflexivity. Qed.

(** the stated exception of the second LoROM variant: at 0x200000 the model's round trip gives
    0x8000, which agrees with the model and which the oracle does not constrain *)
Example round_low2_exception :
  check (CRound 2097152 LowRom2 (OOk 32768)) = (true, true)
  /\ spec_ok (CRound 2097151 LowRom2 (OOk 32768)) = false.
Proof. vm_compute. repeat split. Qed.

(** a long pointer and a base-relative pointer with base 0x12345 (not a multiple of 0x8000 or
    0x10000): 0x12345 + 0x7D00 = 0x1A045 is LoROM 0x03A045; bytes 0x34 0x12 + base = 0x13579 *)
Example long_and_rel :
  check (CLong 74565 32000 (OOk [69; 160; 3])) = (true, true)
  /\ check (CRel 74565 [52; 18; 255] (OOk 79225)) = (true, true)
  /\ spec_ok (model_case (CLong 74565 32000 OTimeout)) = true
  /\ model_case (CLong 74565 32000 OTimeout) = CLong 74565 32000 (OOk [69; 160; 3]).
Proof. vm_compute. repeat split. Qed.

(** where the model refuses, the oracle is silent: a long pointer beyond bank 0xFF, a one-byte value *)
Example model_errors_pass :
  check (CLong 8388608 0 (OErr EStruct)) = (true, true)
  /\ check (CRel 74565 [52] (OErr EIndex)) = (true, true).
Proof. vm_compute. repeat split. Qed.

(** the bus case with the model's value, each mode *)
Example bus_three_modes :
  model_case (CBus 74565 LowRom OTimeout) = CBus 74565 LowRom (OOk (Some 74565))
  /\ bus_corr (CBus 74565 LowRom2 (OOk (Some 74565))) = true
  /\ spec_ok (CBus 74565 LowRom2 (OOk (Some 74565))) = true
  /\ spec_ok (model_case (CBus 4194303 HighRom OTimeout)) = true
  /\ spec_ok (CBus 74565 HighRom (OOk (Some 74566))) = false.
Proof. vm_compute. repeat split. Qed.

Check c20_corr_implies_spec.
Check c20_corr_implies_spec_nobus.
Check c20_model_passes_oracle.
Check cbus_live_ok.
Print Assumptions c20_corr_implies_spec.
Print Assumptions c20_model_passes_oracle.
Print Assumptions cbus_live_ok.
