(** C16, letter case, end to end on source TEXT: two source texts equal up to ASCII letter case,
    whose differences avoid directive keywords and numeral base markers ([case_safe]) and touch
    nothing but mnemonics, size suffixes, index registers, hex digits and comments
    ([only_zones_recased]), assemble to the same writer blocks and the same labels, or fail alike
    (same error class, site tokens at the same position).

    Composition of the scanner theorem [scan_case_zones] (ScannerCase2.v), the case-blind parser
    ([parse_program_case], CaseTextParse.v) and the generic simulation of code generation and passes
    (CaseTextSim.v / CaseTextGen.v) with expressions related by [ecirel] ([eval_expression_ci]) and
    mnemonics by [mci] ([lower_ascii] folds them). *)
From Coq Require Import ZArith List Lia Bool Arith.
From A816 Require Import Model.Scanner Proofs.ScannerCase1 Proofs.ScannerCase2 Proofs.ScannerCase3.
From A816 Require Import Model.Parser Model.Assemble Proofs.CaseTextSim Proofs.CaseTextGen Proofs.CaseTextParse.
Open Scope Z_scope.

(** what [tci'] leaves open, as conditions on the two token lists *)
Definition same_base_markers (toks toks' : list token) : Prop :=
  Forall2 (fun t t' => t_type t = T_NUMBER -> nth 1 (t_value t') 0 = nth 1 (t_value t) 0) toks toks'.
Definition no_else_mnemonic (toks : list token) : Prop :=
  Forall (fun t => zone_type (t_type t) = true -> lower (t_value t) <> k_else) toks.

Lemma cit_tokens toks toks' :
  Forall2 tci' toks toks' -> same_base_markers toks toks' -> no_else_mnemonic toks -> Forall2 cit toks toks'.
Proof.
  intros H. induction H as [|t t' l l' Ht _ IH]; intros Hb He; [constructor|].
  inversion Hb as [|? ? ? ? Hb1 Hbr]; subst. inversion He as [|? ? He1 Her]; subst.
  constructor; [|apply IH; assumption]. split; [exact Ht|split; assumption].
Qed.

(** the two results are the same up to the case of the tokens they report *)
Definition result_same (r r' : aresult) : Prop :=
  match r, r' with
  | AOk o _, AOk o' _ => o_blocks o = o_blocks o' /\ o_labels o = o_labels o'
  | AParseError t, AParseError t' => goT cit t t'
  | AExc k s, AExc k' s' => k = k' /\ goT cit s s'
  | AFuel, AFuel => True
  | _, _ => False
  end.

Lemma assemble_program_shape w c prog :
  match assemble_program w c prog with AScanError _ _ | AParseError _ => False | _ => True end.
Proof.
  unfold assemble_program. destruct (initial_resolver w c); try exact I.
  destruct (code_gen_fuel w cg_depth _ prog) as [[s ns]| |]; try exact I.
  destruct (assemble_nodes w (cg_r s) ns); exact I.
Qed.

(** from related token lists on *)
Theorem case_insensitive_tokens t fs c toks toks' :
  sf_text fs = [] -> Forall2 cit toks toks' ->
  result_same
    (match parse_program (parse_fuel (length toks)) include_depth (include_tokens t fs) toks with
     | POk prog => assemble_program (world_of t fs) c prog
     | PErr EParse tok => AParseError tok
     | PErr EScan _ => match first_include_scan_error (lv_lex t) (sf_text fs) with
                       | Some (path, e) => AScanError path e | None => AExc EScan None end
     | PErr k _ => AExc k None
     | PUnrep _ => AExc EOther None
     | PFuel => AFuel
     end)
    (match parse_program (parse_fuel (length toks')) include_depth (include_tokens t fs) toks' with
     | POk prog => assemble_program (world_of t fs) c prog
     | PErr EParse tok => AParseError tok
     | PErr EScan _ => match first_include_scan_error (lv_lex t) (sf_text fs) with
                       | Some (path, e) => AScanError path e | None => AExc EScan None end
     | PErr k _ => AExc k None
     | PUnrep _ => AExc EOther None
     | PFuel => AFuel
     end).
Proof.
  intros Hnoinc Hts.
  assert (Hinc : forall name, exists k, include_tokens t fs name = Err k)
    by (intro name; unfold include_tokens; rewrite Hnoinc; cbn [assoc_str]; eauto).
  pose proof (parse_program_case (include_tokens t fs) include_depth toks toks' Hinc Hts) as HP.
  destruct (parse_program (parse_fuel (length toks)) include_depth (include_tokens t fs) toks) as [prog|kd tok|tok|],
           (parse_program (parse_fuel (length toks')) include_depth (include_tokens t fs) toks') as [prog'|kd' tok'|tok'|];
    cbn [prel] in HP; try contradiction.
  - pose proof (assemble_program_rel cit ecirel mci eval_expression_ci mci_lower_ascii (world_of t fs) c prog prog' HP) as HA.
    pose proof (assemble_program_shape (world_of t fs) c prog) as HSh.
    destruct (assemble_program (world_of t fs) c prog) as [o fin|f e|tk|kd s|],
             (assemble_program (world_of t fs) c prog') as [o' fin'|f' e'|tk'|kd' s'|]; cbn [aresrel] in HA; try contradiction;
      cbn [result_same].
    + destruct HA as [(A & B & _) _]. auto.
    + exact HA.
    + exact I.
  - destruct HP as [<- HT].
    destruct kd; try rewrite Hnoinc; cbn [first_include_scan_error]; cbv beta iota; cbn [result_same goT];
      try (split; [reflexivity|exact I]); try exact HT.
  - cbn [result_same goT]. split; [reflexivity|exact I].
  - exact I.
Qed.

(** C16, letter case, on source text. *)
Theorem case_insensitive_source t fs c f s s' toks lines :
  kw_ok (lv_lex t) = true -> ci_text s s' -> case_safe s s' ->
  sf_text fs = [] ->
  scan (lv_lex t) f s = ScanOk toks lines ->
  (forall toks' lines', scan (lv_lex t) f s' = ScanOk toks' lines' ->
     only_zones_recased toks toks' /\ same_base_markers toks toks') ->
  no_else_mnemonic toks ->
  result_same (assemble_source t fs c f s) (assemble_source t fs c f s').
Proof.
  intros Hkw Hci Hsafe Hnoinc Hscan Hzones Helse.
  destruct (scan_case_zones (lv_lex t) f s s' toks lines Hkw Hci Hsafe Hscan) as (toks' & lines' & Hscan' & _ & _ & Htci).
  destruct (Hzones toks' lines' Hscan') as [Hz Hb].
  unfold assemble_source. rewrite Hscan, Hscan'.
  apply case_insensitive_tokens; [exact Hnoinc|]. apply cit_tokens; auto.
Qed.

(** ** Example: ["lda.b #0xab\nnop\n"] and ["LDA.B #0xAB\nNOP\n"] *)
Module CaseExamples.
  Definition t0 : live :=
    {| lv_low := BusProofs.lorom; lv_high := BusProofs.hirom; lv_busmap := [(0, true); (1, true); (2, false)];
       lv_optable := [([108;100;97], [(M_immediate, Single (EmPlain [Some 169; Some 169; None]))]);
                      ([110;111;112], [(M_none, Single (EmNoOperand 234))])];
       lv_prec := []; lv_lex := mk_lexicon [[108;100;97]; [110;111;112]] [[110;111;112]] [[100;98]] |}.
  Definition cfg0 : config := {| cf_rom := None; cf_defines := [] |}.
  Definition fname : str := [109].
  Definition lo : str := [108;100;97;46;98;32;35;48;120;97;98;10] ++ [110;111;112;10].
  Definition up : str := [76;68;65;46;66;32;35;48;120;65;66;10] ++ [78;79;80;10].
  Definition view (r : aresult) := match r with AOk o _ => Some (o_blocks o, o_labels o) | _ => None end.

  Example lo_out : view (assemble_source t0 no_srcfiles cfg0 fname lo) = Some ([([169; 171; 234], 0)], []).
  Proof. vm_compute. reflexivity. Qed.
  Example up_out : view (assemble_source t0 no_srcfiles cfg0 fname up) = Some ([([169; 171; 234], 0)], []).
  Proof. vm_compute. reflexivity. Qed.

  Example texts_ci : ci_text lo up. Proof. reflexivity. Qed.
  Example texts_safe : case_safe lo up.
  Proof.
    split.
    - intros p H0 _. do 16 (destruct p as [|p]; [first [discriminate H0|reflexivity]|]).
      cbn in H0. destruct p; discriminate H0.
    - intros d p Hlt Hd Hall.
      do 3 (destruct d as [|d]; [discriminate Hd|]).
      destruct d as [|d]; [|exfalso; do 12 (destruct d as [|d]; [discriminate Hd|]); cbn in Hd; destruct d; discriminate Hd].
      do 4 (destruct p as [|p]; [exfalso; clear -Hlt; lia|]).
      destruct p as [|p]; [right; repeat split; reflexivity|].
      destruct p as [|p]; [left; reflexivity|].
      assert (H5 : (3 < 5 < S (S (S (S (S (S p))))))%nat) by (clear; lia). specialize (Hall 5%nat H5). discriminate Hall.
  Qed.

  (** the theorem applies *)
  Definition toks_of (r : scan_result) : list token := match r with ScanOk toks _ => toks | _ => [] end.
  Definition lines_of (r : scan_result) : list str := match r with ScanOk _ l => l | _ => [] end.
  Definition tl := Eval vm_compute in toks_of (scan (lv_lex t0) fname lo).
  Definition ll := Eval vm_compute in lines_of (scan (lv_lex t0) fname lo).
  Definition tu := Eval vm_compute in toks_of (scan (lv_lex t0) fname up).
  Definition lu := Eval vm_compute in lines_of (scan (lv_lex t0) fname up).
  Example scan_lo : scan (lv_lex t0) fname lo = ScanOk tl ll. Proof. vm_compute. reflexivity. Qed.
  Example scan_up : scan (lv_lex t0) fname up = ScanOk tu lu. Proof. vm_compute. reflexivity. Qed.
  Example zones_only : only_zones_recased tl tu /\ same_base_markers tl tu.
  Proof. split; repeat constructor; discriminate. Qed.
  Example no_else : no_else_mnemonic tl.
  Proof. repeat constructor; discriminate. Qed.
  Example by_theorem : result_same (assemble_source t0 no_srcfiles cfg0 fname lo) (assemble_source t0 no_srcfiles cfg0 fname up).
  Proof.
    apply (case_insensitive_source t0 no_srcfiles cfg0 fname lo up tl ll eq_refl texts_ci texts_safe eq_refl scan_lo); [|exact no_else].
    intros toks' lines' E'. rewrite scan_up in E'. inversion E'; subst. exact zones_only.
  Qed.
End CaseExamples.

Print Assumptions case_insensitive_source.
Print Assumptions case_insensitive_tokens.
