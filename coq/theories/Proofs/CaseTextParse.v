(** C16 (letter case, end to end), parser part — the parser reads token VALUES only where letter case
    cannot have changed them (keywords, identifiers, operators, strings), through [lower] (size suffix,
    index register), through a case-blind literal evaluation ([.map] numbers), or stores them where
    later stages fold or evaluate them (mnemonics: [lower_ascii] in code generation; numbers in
    expressions: [eval_number]).  Two token lists related by [cit] (the scanner's [tci'] plus what
    [tci'] leaves open) therefore parse to ASTs related by [garel cit ecirel mci], with the same
    errors. *)
From Coq Require Import Arith Lia List Bool ZArith.
From A816 Require Import Model.Scanner Proofs.ScannerPos Proofs.ScannerCase1 Proofs.ScannerCase2 Proofs.ScannerCase3.
From A816 Require Import Model.Parser Model.Assemble Proofs.ParserProofs Proofs.ParserFuelProofs
     Proofs.EvalCongr Proofs.NonInterference Proofs.CaseTextSim.
Open Scope nat_scope.

(** ** Tokens *)

(** [tci'], the same base marker for numbers, and no mnemonic spelled "else" (the parser compares the
    token after an [.if] block with "else" whatever its type) *)
Definition cit (t t' : token) : Prop :=
  tci' t t' /\
  (t_type t = T_NUMBER -> nth 1 (t_value t') 0%Z = nth 1 (t_value t) 0%Z) /\
  (zone_type (t_type t) = true -> lower (t_value t) <> k_else).

Lemma cit_type t t' : cit t t' -> t_type t' = t_type t.
Proof. intros ((H & _) & _). symmetry. exact H. Qed.
Lemma cit_is_ty t t' ty : cit t t' -> is_ty t' ty = is_ty t ty.
Proof. intros H. unfold is_ty. rewrite (cit_type _ _ H). reflexivity. Qed.
Lemma cit_val t t' : cit t t' -> zone_type (t_type t) = false -> t_value t' = t_value t.
Proof. intros (H & _). apply tci'_val. exact H. Qed.
Lemma cit_lower t t' : cit t t' -> lower (t_value t') = lower (t_value t).
Proof. intros (H & _). apply tci'_lower. exact H. Qed.
Lemma cit_lci t t' : cit t t' -> lci (t_value t) (t_value t').
Proof. intros H. unfold lci. symmetry. apply (cit_lower _ _ H). Qed.
Lemma cit_refl t : (zone_type (t_type t) = true -> lower (t_value t) <> k_else) -> cit t t.
Proof. intros H. split; [apply tci'_refl|]. split; [reflexivity|exact H]. Qed.
Lemma cit_eof : cit eof_token eof_token.
Proof. apply cit_refl. discriminate. Qed.

Lemma lower_k_else : lower k_else = k_else. Proof. reflexivity. Qed.

Lemma cit_else t t' : cit t t' -> str_eqb (t_value t') k_else = str_eqb (t_value t) k_else.
Proof.
  intros H. destruct (zone_type (t_type t)) eqn:Z; [|rewrite (cit_val _ _ H Z); reflexivity].
  destruct H as (Hc & _ & He). specialize (He Z).
  assert (Hl : lower (t_value t') = lower (t_value t)) by (apply tci'_lower; exact Hc).
  destruct (str_eqb (t_value t) k_else) eqn:E1.
  { apply str_eqb_true in E1. rewrite E1 in He. contradiction. }
  destruct (str_eqb (t_value t') k_else) eqn:E2; [|reflexivity].
  apply str_eqb_true in E2. rewrite E2 in Hl. rewrite lower_k_else in Hl. symmetry in Hl. contradiction.
Qed.

Lemma cit_eval_number t t' : cit t t' -> t_type t = T_NUMBER -> eval_number (t_value t') = eval_number (t_value t).
Proof. intros H Hn. apply eval_number_ci; [apply cit_lci; exact H|]. apply H. exact Hn. Qed.

(** [ast.literal_eval] on a NUMBER value is blind to the case of hex digits and of the base marker *)
Lemma lit_digit_ci base c c' : Scanner.lower c = Scanner.lower c' -> lit_digit base c' = lit_digit base c.
Proof.
  intros H. destruct (lower_eq_cases c c' H) as [-> | ->]; [reflexivity|].
  unfold lit_digit, swapcase.
  destruct ((65 <=? c) && (c <=? 90))%Z eqn:A; destruct ((97 <=? c) && (c <=? 122))%Z eqn:B;
    destruct ((48 <=? c) && (c <=? 57))%Z eqn:D; destruct ((97 <=? c) && (c <=? 102))%Z eqn:F;
    destruct ((65 <=? c) && (c <=? 70))%Z eqn:G;
    rewrite ?andb_true_iff, ?andb_false_iff, ?Z.leb_le, ?Z.leb_gt in *; try lia;
    repeat match goal with
    | |- context [((?a <=? ?b) && (?c <=? ?d))%Z] =>
        let X := fresh "X" in destruct ((a <=? b) && (c <=? d))%Z eqn:X;
        rewrite ?andb_true_iff, ?andb_false_iff, ?Z.leb_le, ?Z.leb_gt in X
    end; try reflexivity; try lia;
    try (replace (c + 32 - 87)%Z with (c - 55)%Z by lia; reflexivity);
    try (replace (c - 32 - 55)%Z with (c - 87)%Z by lia; reflexivity).
Qed.

Lemma eqb_ci_nonletter k c c' : isletter k = false -> Scanner.lower c = Scanner.lower c' -> ((c' =? k) = (c =? k))%Z.
Proof.
  intros Hk H. destruct (Z.eqb_spec c k) as [->|N].
  - apply (lower_nonletter k c' Hk) in H. subst. apply Z.eqb_refl.
  - destruct (Z.eqb_spec c' k) as [->|]; [|reflexivity]. symmetry in H. apply (lower_nonletter k c Hk) in H. congruence.
Qed.

Lemma lit_digits_ci base : forall s s' acc us, lci s s' -> lit_digits base s' acc us = lit_digits base s acc us.
Proof.
  unfold lci. induction s as [|c r IH]; intros s' acc us H; destruct s' as [|c' r']; cbn in H; try discriminate; [reflexivity|].
  injection H as H1 H2. cbn [lit_digits]. rewrite (eqb_ci_nonletter 95 c c' eq_refl H1), (lit_digit_ci base c c' H1).
  destruct (c =? 95)%Z; [destruct us; [reflexivity|apply IH; exact H2]|].
  destruct (lit_digit base c); [apply IH; exact H2|reflexivity].
Qed.

Lemma eqb_pair_ci lo up c c' : swapcase lo = up -> swapcase up = lo -> Scanner.lower c = Scanner.lower c' ->
  ((c' =? lo) || (c' =? up) = (c =? lo) || (c =? up))%bool%Z.
Proof.
  intros S1 S2 H. destruct (lower_eq_cases c c' H) as [-> | ->]; [reflexivity|].
  destruct (Z.eqb_spec c lo) as [->|N1].
  - rewrite S1, Z.eqb_refl, orb_true_r. reflexivity.
  - destruct (Z.eqb_spec c up) as [->|N2].
    + rewrite S2, Z.eqb_refl. reflexivity.
    + cbn [orb]. destruct (Z.eqb_spec (swapcase c) lo) as [E|_].
      * exfalso. apply N2. rewrite <- S1, <- E. unfold swapcase.
        destruct ((65 <=? c) && (c <=? 90))%Z eqn:A; destruct ((97 <=? c) && (c <=? 122))%Z eqn:B;
          rewrite ?andb_true_iff, ?andb_false_iff, ?Z.leb_le, ?Z.leb_gt in *;
          repeat match goal with |- context [((?a <=? ?b) && (?x <=? ?d))%Z] =>
            let X := fresh "X" in destruct ((a <=? b) && (x <=? d))%Z eqn:X;
            rewrite ?andb_true_iff, ?andb_false_iff, ?Z.leb_le, ?Z.leb_gt in X end; lia.
      * cbn [orb]. destruct (Z.eqb_spec (swapcase c) up) as [E|_]; [|reflexivity].
        exfalso. apply N1. rewrite <- S2, <- E. unfold swapcase.
        destruct ((65 <=? c) && (c <=? 90))%Z eqn:A; destruct ((97 <=? c) && (c <=? 122))%Z eqn:B;
          rewrite ?andb_true_iff, ?andb_false_iff, ?Z.leb_le, ?Z.leb_gt in *;
          repeat match goal with |- context [((?a <=? ?b) && (?x <=? ?d))%Z] =>
            let X := fresh "X" in destruct ((a <=? b) && (x <=? d))%Z eqn:X;
            rewrite ?andb_true_iff, ?andb_false_iff, ?Z.leb_le, ?Z.leb_gt in X end; lia.
Qed.

Lemma py_int_literal_ci v v' : lci v v' -> py_int_literal v' = py_int_literal v.
Proof.
  intros H. pose proof H as H0. unfold lci in H.
  destruct v as [|c r]; destruct v' as [|c' r']; cbn in H; try discriminate; [reflexivity|].
  injection H as Hc Hr. unfold py_int_literal.
  rewrite (eqb_ci_nonletter 48 c c' eq_refl Hc).
  destruct (c =? 48)%Z.
  - destruct r as [|p r2]; destruct r' as [|p' r2']; cbn in Hr; try discriminate; [reflexivity|].
    injection Hr as Hp Hr2.
    assert (Hnil : forall base, match r2' with [] => None | _ => lit_digits base r2' 0%Z false end =
                                match r2 with [] => None | _ => lit_digits base r2 0%Z false end).
    { intros base. destruct r2, r2'; cbn in Hr2; try discriminate; [reflexivity|]. apply lit_digits_ci. exact Hr2. }
    rewrite (eqb_pair_ci 120 88 p p' eq_refl eq_refl Hp), (eqb_pair_ci 98 66 p p' eq_refl eq_refl Hp),
            (eqb_pair_ci 111 79 p p' eq_refl eq_refl Hp), !Hnil.
    rewrite (lit_digits_ci 10 (p :: r2) (p' :: r2') 0%Z false) by (unfold lci; cbn; congruence). reflexivity.
  - rewrite (lit_digit_ci 10 c c' Hc). destruct (lit_digit 10 c); [|reflexivity]. apply lit_digits_ci. exact Hr.
Qed.

(** ** Expressions *)
Definition enci2 (e e' : enode) : Prop :=
  en_kind e = en_kind e' /\ cit (en_tok e) (en_tok e') /\
  match en_type e with
  | T_NUMBER => en_kind e = EK_term /\ eval_number (en_val e') = eval_number (en_val e)
  | _ => en_val e' = en_val e
  end.
Definition ecirel : expr -> expr -> Prop := Forall2 enci2.
Definition mci (o o' : str) : Prop := lower o = lower o'.

Lemma mci_lower_ascii o o' : mci o o' -> lower_ascii o = lower_ascii o'.
Proof. intros H. exact H. Qed.

Lemma enci2_kind e e' : enci2 e e' -> en_kind e' = en_kind e.
Proof. intros (H & _). symmetry. exact H. Qed.
Lemma enci2_type e e' : enci2 e e' -> en_type e' = en_type e.
Proof. intros (_ & H & _). apply cit_type. exact H. Qed.
Lemma enci2_val e e' : enci2 e e' -> en_kind e <> EK_term -> en_val e' = en_val e.
Proof. intros (_ & _ & H) Hk. destruct (en_type e); try exact H. destruct H as [H _]. contradiction. Qed.

Definition nonterm (e : enode) : Prop := en_kind e <> EK_term.
Definition prel3 (x y : list enode * list enode) : Prop :=
  ecirel (fst x) (fst y) /\ ecirel (snd x) (snd y) /\ Forall nonterm (fst x).

Lemma stack_prec_ci p e e' : enci2 e e' -> nonterm e -> stack_prec p e' = stack_prec p e.
Proof. intros H Hn. unfold stack_prec, is_un. rewrite (enci2_kind _ _ H), (enci2_val _ _ H Hn). reflexivity. Qed.

Lemma pop_tighter_ci p cur : forall stack stack' out out', ecirel stack stack' -> ecirel out out' -> Forall nonterm stack ->
  res_rel prel3 (pop_tighter p cur stack out) (pop_tighter p cur stack' out').
Proof.
  induction stack as [|top rest IH]; intros stack' out out' Hs Ho Hn; inversion Hs; subst; cbn [pop_tighter].
  - split; cbn [fst snd]; [constructor|split; [exact Ho|constructor]].
  - inversion Hn as [|? ? Hnt Hnr]; subst.
    match goal with H : enci2 top ?y |- _ => rewrite (stack_prec_ci p _ _ H Hnt), (enci2_val _ _ H Hnt); rename H into Htop end.
    apply res_rel_bind_same; intros tp _.
    destruct ((tp <=? cur)%Z && negb (str_eqb (en_val top) s_lparen)).
    + apply IH; [assumption| |assumption]. apply Forall2_app; [exact Ho|]. constructor; [exact Htop|constructor].
    + split; cbn [fst snd]; [constructor; assumption|split; [exact Ho|exact Hn]].
Qed.

Lemma pop_to_lparen_ci : forall stack stack' out out', ecirel stack stack' -> ecirel out out' -> Forall nonterm stack ->
  res_rel prel3 (pop_to_lparen stack out) (pop_to_lparen stack' out').
Proof.
  induction stack as [|top rest IH]; intros stack' out out' Hs Ho Hn; inversion Hs; subst; cbn [pop_to_lparen]; [reflexivity|].
  inversion Hn as [|? ? Hnt Hnr]; subst.
  match goal with H : enci2 top ?y |- _ => rewrite (enci2_val _ _ H Hnt); rename H into Htop end.
  destruct (str_eqb (en_val top) s_lparen).
  - split; cbn [fst snd]; [assumption|split; assumption].
  - apply IH; [assumption| |assumption]. apply Forall2_app; [exact Ho|]. constructor; [exact Htop|constructor].
Qed.

Lemma sy_loop_ci p : forall nodes nodes' stack stack' out out',
  ecirel nodes nodes' -> ecirel stack stack' -> ecirel out out' -> Forall nonterm stack ->
  res_rel ecirel (sy_loop p nodes stack out) (sy_loop p nodes' stack' out').
Proof.
  induction nodes as [|e r IH]; intros nodes' stack stack' out out' Hn Hs Ho Hnt; inversion Hn; subst; cbn [sy_loop].
  - apply Forall2_app; assumption.
  - match goal with H : enci2 e ?y |- _ => rewrite (enci2_kind _ _ H), (enci2_type _ _ H); rename H into He end.
    destruct (en_kind e) eqn:K.
    + apply IH; auto. apply Forall2_app; [exact Ho|]. constructor; [exact He|constructor].
    + rewrite (enci2_val _ _ He) by (rewrite K; discriminate).
      apply res_rel_bind_same; intros cur _.
      eapply res_rel_bind; [apply pop_tighter_ci; eassumption|].
      intros so so' (G1 & G2 & G3). apply IH; auto; [constructor; assumption|].
      constructor; [unfold nonterm; rewrite K; discriminate|exact G3].
    + apply IH; auto; [constructor; assumption|]. constructor; [unfold nonterm; rewrite K; discriminate|exact Hnt].
    + destruct (en_type e); try (apply IH; auto; fail).
      * apply IH; auto; [constructor; assumption|]. constructor; [unfold nonterm; rewrite K; discriminate|exact Hnt].
      * eapply res_rel_bind; [apply pop_to_lparen_ci; eassumption|].
        intros so so' (G1 & G2 & G3). apply IH; auto.
Qed.

Lemma eval_rpn_ci ev : forall rpn rpn' st, ecirel rpn rpn' -> eval_rpn ev rpn st = eval_rpn ev rpn' st.
Proof.
  induction rpn as [|e r IH]; intros rpn' st H; inversion H; subst; cbn [eval_rpn]; [reflexivity|].
  match goal with H : enci2 e ?y |- _ => rename H into He end.
  rewrite (enci2_kind _ _ He), (enci2_type _ _ He). destruct He as (Hk & Hc & Hv).
  unfold eval_binop, op_is.
  destruct (en_type e); try rewrite Hv;
    try (destruct (en_kind e); try (destruct st as [|v1 [|v2 st']]); try apply bind_ext; auto; fail);
    try (apply bind_ext; auto; fail).
  destruct Hv as [_ Hv]. rewrite Hv. apply bind_ext; auto.
Qed.

Theorem eval_expression_ci p ev e e' : ecirel e e' -> eval_expression p ev e = eval_expression p ev e'.
Proof.
  intros H. unfold eval_expression, shunting_yard.
  pose proof (sy_loop_ci p e e' [] [] [] [] H (Forall2_nil _) (Forall2_nil _) (Forall_nil _)) as HS.
  destruct (sy_loop p e [] []) as [rpn| |], (sy_loop p e' [] []) as [rpn'| |]; cbn [res_rel bind] in *;
    try contradiction; try congruence. apply eval_rpn_ci. exact HS.
Qed.

(** ** Parse results *)
Notation carel := (garel cit ecirel mci).
Notation cmrel := (gmrel cit ecirel mci).
Definition casrel : list ast -> list ast -> Prop := Forall2 carel.
Definition cmsrel : margs -> margs -> Prop := Forall2 cmrel.
Notation coT := (goT cit).
Definition oecirel := goE ecirel.

Definition prel {A} (RA : A -> A -> Prop) (r r' : pres A) : Prop :=
  match r, r' with
  | POk a, POk a' => RA a a'
  | PErr k t, PErr k' t' => k = k' /\ coT t t'
  | PUnrep t, PUnrep t' => coT t t'
  | PFuel, PFuel => True
  | _, _ => False
  end.

Lemma prel_bind {A B} (RA : A -> A -> Prop) (RB : B -> B -> Prop) r r' k k' :
  prel RA r r' -> (forall a a', RA a a' -> prel RB (k a) (k' a')) -> prel RB (pbind r k) (pbind r' k').
Proof. destruct r, r'; cbn [prel pbind]; intros H Hk; auto; contradiction. Qed.

Lemma prel_expect {A} (RA : A -> A -> Prop) t t' ty k k' :
  cit t t' -> (is_ty t ty = true -> prel RA k k') -> prel RA (expect t ty k) (expect t' ty k').
Proof.
  intros Ht Hk. unfold expect. rewrite (cit_is_ty _ _ ty Ht).
  destruct (is_ty t ty); [auto|]. cbn. auto.
Qed.

Definition at_p {A} (RA : A -> A -> Prop) (x x' : A * nat) : Prop := RA (fst x) (fst x') /\ snd x' = snd x.

Lemma is_ty_of_type t ty : t_type t = ty -> is_ty t ty = true.
Proof. intros <-. unfold is_ty, ttype_eqb. apply Z.eqb_refl. Qed.

Section Lists.
  Variables ts ts' : list token.
  Hypothesis Hcur : forall q, cit (cur ts q) (cur ts' q).

  Lemma isty q ty : is_ty (cur ts' q) ty = is_ty (cur ts q) ty.
  Proof. apply cit_is_ty, Hcur. Qed.
  Lemma ttyp q : t_type (cur ts' q) = t_type (cur ts q).
  Proof. apply cit_type, Hcur. Qed.
  Lemma tvalnz q : zone_type (t_type (cur ts q)) = false -> t_value (cur ts' q) = t_value (cur ts q).
  Proof. apply cit_val, Hcur. Qed.
  Lemma tvalty q ty : is_ty (cur ts q) ty = true -> zone_type ty = false -> t_value (cur ts' q) = t_value (cur ts q).
  Proof. intros H Hz. apply tvalnz. rewrite (is_ty_true' _ _ H). exact Hz. Qed.
  Lemma tlower q : lower (t_value (cur ts' q)) = lower (t_value (cur ts q)).
  Proof. apply cit_lower, Hcur. Qed.
  Lemma telse q : str_eqb (t_value (cur ts' q)) k_else = str_eqb (t_value (cur ts q)) k_else.
  Proof. apply cit_else, Hcur. Qed.
  Lemma tlit q : is_ty (cur ts q) T_NUMBER = true -> py_int_literal (t_value (cur ts' q)) = py_int_literal (t_value (cur ts q)).
  Proof. intros _. apply py_int_literal_ci, cit_lci, Hcur. Qed.
  Lemma peek_cur (l : list token) q : peek l q = cur l (S q).
  Proof. reflexivity. Qed.

  Lemma perr_c {A} (RA : A -> A -> Prop) q : prel RA (PErr EParse (Some (cur ts q))) (PErr EParse (Some (cur ts' q))).
  Proof. cbn. split; [reflexivity|apply Hcur]. Qed.

  (** expression nodes *)
  Lemma en_nz k q : zone_type (t_type (cur ts q)) = false -> enci2 (en k (cur ts q)) (en k (cur ts' q)).
  Proof.
    intros Hz. split; [reflexivity|]. split; [apply Hcur|]. unfold en_type, en_val. cbn [en_tok en].
    destruct (t_type (cur ts q)) eqn:Ty; try (apply tvalnz; rewrite Ty; exact Hz). discriminate.
  Qed.
  Lemma en_ty k q ty : is_ty (cur ts q) ty = true -> zone_type ty = false -> enci2 (en k (cur ts q)) (en k (cur ts' q)).
  Proof. intros H Hz. apply en_nz. rewrite (is_ty_true' _ _ H). exact Hz. Qed.
  Lemma en_term q : is_ty (cur ts q) T_NUMBER || is_ty (cur ts q) T_BOOLEAN || is_ty (cur ts q) T_IDENTIFIER = true ->
    enci2 (en EK_term (cur ts q)) (en EK_term (cur ts' q)).
  Proof.
    intros H. destruct (is_ty (cur ts q) T_NUMBER) eqn:Hn.
    - split; [reflexivity|]. split; [apply Hcur|]. unfold en_type, en_val. cbn [en_tok en en_kind].
      rewrite (is_ty_true' _ _ Hn). split; [reflexivity|]. apply cit_eval_number; [apply Hcur|apply (is_ty_true' _ _ Hn)].
    - destruct (is_ty (cur ts q) T_BOOLEAN) eqn:Hb; [apply (en_ty _ _ _ Hb); reflexivity|].
      cbn [orb] in H. apply (en_ty _ _ _ H). reflexivity.
  Qed.

  (** rewrite the values the tests have shown to be case-proof *)
  Ltac vals :=
    repeat match goal with
    | H : is_ty (cur ts ?q) ?ty = true |- context [t_value (cur ts' ?q)] =>
        rewrite (tvalty q ty H eq_refl)
    end.
  Ltac norm := cbv beta iota zeta; rewrite ?peek_cur; cbn [backup]; rewrite ?isty, ?ttyp, ?tlower, ?telse; vals;
               cbv beta iota zeta.

  Ltac pair_in H :=
    match type of H with
    | at_p _ ?x ?x' => destruct x as [? ?], x' as [? ?]; destruct H as [? H]; cbn [fst snd] in *; subst
    end.

  Lemma pexpr_c f : forall pos, prel (at_p ecirel) (pexpr ts f pos) (pexpr ts' f pos).
  Proof.
    induction f as [|f IH]; intro pos; [exact I|].
    rewrite !pexpr_S. norm.
    eapply prel_bind with (RA := at_p ecirel).
    - destruct (is_ty (cur ts pos) T_LPAREN) eqn:H1.
      + eapply prel_bind; [apply IH|]. intros x x' Hx. pair_in Hx. norm.
        apply prel_expect; [apply Hcur|]. intro H2. cbn [prel]. unfold at_p. cbn [fst snd]. split; [|reflexivity].
        constructor; [apply (en_ty _ _ _ H1); reflexivity|]. apply Forall2_app; [assumption|].
        constructor; [apply (en_ty _ _ _ H2); reflexivity|constructor].
      + destruct (is_ty (cur ts pos) T_NUMBER || is_ty (cur ts pos) T_BOOLEAN || is_ty (cur ts pos) T_IDENTIFIER) eqn:H2.
        * cbn [prel]. unfold at_p. cbn [fst snd]. split; [|reflexivity]. constructor; [apply en_term; exact H2|constructor].
        * destruct (is_ty (cur ts pos) T_OPERATOR) eqn:H3; cbn [andb]; [|apply perr_c]. vals.
          destruct (str_eqb (t_value (cur ts pos)) k_minus || str_eqb (t_value (cur ts pos)) k_tilde); [|apply perr_c].
          eapply prel_bind; [apply IH|]. intros x x' Hx. pair_in Hx. cbn [prel]. unfold at_p. cbn [fst snd]. split; [|reflexivity].
          constructor; [apply (en_ty _ _ _ H3); reflexivity|assumption].
    - intros x x' Hx. pair_in Hx.
      match goal with H : ecirel ?l ?l' |- _ => destruct H as [|e0 e0' l0 l0' He0 Hl0] end.
      + cbn [prel]. unfold at_p. cbn [fst snd]. split; [constructor|reflexivity].
      + norm. match goal with |- context [is_ty (cur ts ?p) T_OPERATOR] => destruct (is_ty (cur ts p) T_OPERATOR) eqn:H4 end.
        * eapply prel_bind; [apply IH|]. intros y y' Hy. pair_in Hy. cbn [prel]. unfold at_p. cbn [fst snd]. split; [|reflexivity].
          constructor; [assumption|]. apply Forall2_app; [|assumption]. apply Forall2_app; [assumption|].
          constructor; [apply (en_ty _ _ _ H4); reflexivity|constructor].
        * cbn [prel]. unfold at_p. cbn [fst snd]. split; [constructor; assumption|reflexivity].
  Qed.

  Lemma pexpression_c f pos : prel (at_p ecirel) (pexpression ts f pos) (pexpression ts' f pos).
  Proof.
    unfold pexpression. eapply prel_bind; [apply pexpr_c|]. intros x x' Hx. pair_in Hx.
    match goal with H : ecirel ?l ?l' |- _ => destruct H end; cbn; auto.
    split; cbn [fst snd]; [constructor; assumption|reflexivity].
  Qed.

  Ltac leaf := cbn [prel]; unfold at_p; cbn [fst snd]; repeat split; try reflexivity; try lia;
               try (constructor; eauto); eauto.

  Ltac pstep :=
    match goal with
    | |- prel _ (pbind _ _) (pbind _ _) =>
        eapply prel_bind;
        [solve [eauto with crl]
        |let x := fresh "x" in let x' := fresh "x'" in let Hx := fresh "Hx" in
         intros x x' Hx; try pair_in Hx; norm]
    | |- prel _ (expect _ ?ty _) (expect _ ?ty _) =>
        apply prel_expect; [apply Hcur|let H := fresh "Hty" in intro H; norm]
    | |- prel _ (if ?c then _ else _) (if ?c then _ else _) => destruct c eqn:?; norm
    | |- prel _ (match ?x with _ => _ end) (match ?x with _ => _ end) => destruct x eqn:?; norm
    | |- prel _ (PErr EParse (Some (cur ts _))) _ => apply perr_c
    | |- prel _ (POk _) (POk _) => leaf
    | |- prel _ (PErr _ None) (PErr _ None) => cbn; auto
    | |- prel _ PFuel PFuel => exact I
    end.
  Ltac go := norm; repeat pstep; try solve [leaf].

  Hint Resolve pexpr_c pexpression_c : crl.

  Lemma pmacro_args_loop_c f : forall pos acc,
    prel (at_p eq) (pmacro_args_loop ts f pos acc) (pmacro_args_loop ts' f pos acc).
  Proof. induction f as [|f IH]; intros pos acc; [exact I|]. cbn [pmacro_args_loop]. go; apply IH. Qed.
  Hint Resolve pmacro_args_loop_c : crl.
  Lemma pmacro_args_c f pos : prel (at_p eq) (pmacro_args ts f pos) (pmacro_args ts' f pos).
  Proof. unfold pmacro_args. go. apply pmacro_args_loop_c. Qed.
  Hint Resolve pmacro_args_c : crl.

  Definition psrel (ps ps' : poison) : Prop := coT (fst ps) (fst ps') /\ coT (snd ps) (snd ps').

  Lemma map_assign_c args ps ps' key q v : psrel ps ps' ->
    fst (map_assign args ps key (cur ts q) v) = fst (map_assign args ps' key (cur ts' q) v) /\
    psrel (snd (map_assign args ps key (cur ts q) v)) (snd (map_assign args ps' key (cur ts' q) v)).
  Proof.
    intros [H1 H2]. unfold map_assign. destruct (mapargs_set args key v); cbn [fst snd]; (split; [reflexivity|]);
      destruct key; cbn [poison_upd]; split; cbn [fst snd goT]; auto.
  Qed.

  Lemma pmap_loop_c f : forall pos args ps ps', psrel ps ps' ->
    prel (at_p eq) (pmap_loop ts f pos args ps) (pmap_loop ts' f pos args ps').
  Proof.
    induction f as [|f IH]; intros pos args ps ps' Hps; [exact I|]. cbn [pmap_loop]. norm.
    destruct (is_ty (cur ts pos) T_IDENTIFIER) eqn:Hid.
    - apply prel_expect; [apply Hcur|]. intros _. norm.
      destruct (mapkey_of (t_value (cur ts pos))) as [key|]; [|apply perr_c].
      apply prel_expect; [apply Hcur|]. intros _. apply prel_expect; [apply Hcur|]. intros Hn1.
      unfold lit_eval. norm. rewrite (tlit _ Hn1).
      destruct (is_ty (cur ts (S (S (S pos)))) T_COMMA).
      + apply prel_expect; [apply Hcur|]. intros Hn2. rewrite (tlit _ Hn2).
        destruct (py_int_literal (t_value (cur ts (S (S pos))))) as [v1|]; [|cbn; auto].
        destruct (py_int_literal (t_value (cur ts (S (S (S (S pos))))))) as [v2|]; [|cbn; auto].
        destruct (map_assign_c args ps ps' key pos (v1, Some v2) Hps) as [E P].
        destruct (map_assign args ps key (cur ts pos) (v1, Some v2)) as [a1 p1],
                 (map_assign args ps' key (cur ts' pos) (v1, Some v2)) as [a2 p2].
        cbn [fst snd] in E, P. subst a2. apply IH. exact P.
      + destruct (py_int_literal (t_value (cur ts (S (S pos))))) as [v1|]; [|cbn; auto].
        destruct (map_assign_c args ps ps' key pos (v1, None) Hps) as [E P].
        destruct (map_assign args ps key (cur ts pos) (v1, None)) as [a1 p1],
                 (map_assign args ps' key (cur ts' pos) (v1, None)) as [a2 p2].
        cbn [fst snd] in E, P. subst a2. apply IH. exact P.
    - destruct ps as [[t1|] [t2|]], ps' as [[t1'|] [t2'|]]; destruct Hps as [H1 H2]; cbn [fst snd goT] in H1, H2;
        try contradiction; try solve [leaf]; cbn; auto.
  Qed.

  Lemma pmap_c f pos : prel (at_p carel) (pmap ts f pos) (pmap ts' f pos).
  Proof.
    unfold pmap. norm. apply prel_expect; [apply Hcur|]. intros _.
    eapply prel_bind; [apply pmap_loop_c; split; exact I|]. intros x x' Hx. pair_in Hx. leaf.
  Qed.
  Hint Resolve pmap_c : crl.

  Lemma pstruct_loop_c f : forall pos fields,
    prel (at_p eq) (pstruct_loop ts f pos fields) (pstruct_loop ts' f pos fields).
  Proof. induction f as [|f IH]; intros pos fields; [exact I|]. cbn [pstruct_loop]. go; apply IH. Qed.
  Hint Resolve pstruct_loop_c : crl.
  Lemma pstruct_c f pos : prel (at_p carel) (pstruct ts f pos) (pstruct ts' f pos).
  Proof. unfold pstruct. go. Qed.
  Hint Resolve pstruct_c : crl.

  Lemma pquoted_c pos : prel (at_p eq) (pquoted ts pos) (pquoted ts' pos).
  Proof. unfold pquoted. go. Qed.
  Hint Resolve pquoted_c : crl.
  Lemma pinclude_ips_c f pos : prel (at_p carel) (pinclude_ips ts f pos) (pinclude_ips ts' f pos).
  Proof. unfold pinclude_ips. go. Qed.
  Lemma pcode_lookup_c pos : prel (at_p carel) (pcode_lookup ts pos) (pcode_lookup ts' pos).
  Proof. unfold pcode_lookup. go. Qed.
  Lemma plabel_c pos : is_ty (cur ts pos) T_LABEL = true -> prel (at_p carel) (plabel ts (S pos)) (plabel ts' (S pos)).
  Proof. intros Hl. unfold plabel. go. Qed.
  Lemma psymbol_c f pos : is_ty (cur ts pos) T_IDENTIFIER = true -> prel (at_p carel) (psymbol ts f pos) (psymbol ts' f pos).
  Proof.
    intros Hid. unfold psymbol. norm.
    destruct (is_ty (cur ts (S pos)) T_EQUAL || is_ty (cur ts (S pos)) T_ASSIGN); [|apply perr_c].
    eapply prel_bind; [apply pexpression_c|]. intros x x' Hx. pair_in Hx.
    cbn [prel]. unfold at_p. cbn [fst snd]. split; [|reflexivity].
    destruct (is_ty (cur ts (S pos)) T_EQUAL); constructor; auto.
  Qed.
  Lemma pstar_eq_c f pos : prel (at_p carel) (pstar_eq ts f pos) (pstar_eq ts' f pos).
  Proof. unfold pstar_eq. go. Qed.
  Lemma pat_eq_c f pos : prel (at_p carel) (pat_eq ts f pos) (pat_eq ts' f pos).
  Proof. unfold pat_eq. go. Qed.
  Hint Resolve pinclude_ips_c pcode_lookup_c pstar_eq_c pat_eq_c : crl.

  Definition oprel (x x' : amode * option str * option expr) : Prop :=
    fst (fst x) = fst (fst x') /\ snd (fst x) = snd (fst x') /\ oecirel (snd x) (snd x').

  Lemma poperand_c f mode0 opc opc' pos : cit opc opc' ->
    prel (at_p oprel) (poperand ts f mode0 opc pos) (poperand ts' f mode0 opc' pos).
  Proof.
    intros Hopc. unfold poperand. norm. rewrite (cit_is_ty _ _ T_OPCODE Hopc).
    destruct (is_ty (cur ts pos) T_SHARP).
    { destruct (is_ty (cur ts (S pos)) T_EOF); [apply perr_c|].
      eapply prel_bind; [apply pexpression_c|]. intros x x' Hx. pair_in Hx.
      cbn [prel]; unfold at_p, oprel, oecirel; cbn [fst snd goE]. repeat split; auto. }
    destruct (is_ty (cur ts pos) T_LPAREN).
    { eapply prel_bind; [apply pexpression_c|]. intros x x' Hx. pair_in Hx. norm.
      match goal with |- context [is_ty (cur ts ?q) T_ADDRESSING_MODE_INDEX] =>
        destruct (is_ty (cur ts q) T_ADDRESSING_MODE_INDEX) end; norm.
      - apply prel_expect; [apply Hcur|]. intros _. norm.
        match goal with |- context [is_ty (cur ts ?q) T_OPERATOR] => destruct (is_ty (cur ts q) T_OPERATOR) end.
        + eapply prel_bind; [apply pexpression_c|]. intros y y' Hy. pair_in Hy.
          cbn [prel]; unfold at_p, oprel, oecirel; cbn [fst snd goE]. repeat split; auto.
        + cbn [prel]; unfold at_p, oprel, oecirel; cbn [fst snd goE]. repeat split; auto.
      - apply prel_expect; [apply Hcur|]. intros _. norm.
        match goal with |- context [is_ty (cur ts ?q) T_OPERATOR] => destruct (is_ty (cur ts q) T_OPERATOR) end.
        + eapply prel_bind; [apply pexpression_c|]. intros y y' Hy. pair_in Hy.
          cbn [prel]; unfold at_p, oprel, oecirel; cbn [fst snd goE]. repeat split; auto.
        + cbn [prel]; unfold at_p, oprel, oecirel; cbn [fst snd goE]. repeat split; auto. }
    destruct (is_ty (cur ts pos) T_LBRAKET).
    { eapply prel_bind; [apply pexpression_c|]. intros x x' Hx. pair_in Hx. norm.
      apply prel_expect; [apply Hcur|]. intros _. cbn [prel]; unfold at_p, oprel, oecirel; cbn [fst snd goE]. repeat split; auto. }
    destruct (is_ty opc T_OPCODE).
    - eapply prel_bind; [apply pexpression_c|]. intros x x' Hx. pair_in Hx.
      cbn [prel]; unfold at_p, oprel, oecirel; cbn [fst snd goE]. repeat split; auto.
    - cbn [prel]; unfold at_p, oprel, oecirel; cbn [fst snd goE]. repeat split; auto.
  Qed.

  Lemma mci_cur q : mci (t_value (cur ts q)) (t_value (cur ts' q)).
  Proof. unfold mci. symmetry. apply tlower. Qed.

  Lemma popcode_c f pos : prel (at_p carel) (popcode ts f pos) (popcode ts' f pos).
  Proof.
    unfold popcode. norm.
    destruct (is_ty (cur ts (S pos)) T_OPCODE_SIZE); norm.
    - eapply prel_bind; [apply poperand_c; apply Hcur|].
      intros [[[m i] o] p3] [[[m' i'] o'] p3'] [(E1 & E2 & E3) Ep]. cbn [fst snd] in *. subst. norm.
      destruct (is_ty (cur ts p3) T_ADDRESSING_MODE_INDEX).
      + destruct (match i' with Some i0 => negb (str_eqb i0 k_s && str_eqb (lower (t_value (cur ts p3))) k_y) | None => false end);
          [apply perr_c|].
        destruct (index_map m'); [|cbn; auto].
        cbn [prel]. unfold at_p. cbn [fst snd]. split; [|reflexivity]. constructor; [apply mci_cur|exact E3|apply Hcur].
      + cbn [prel]. unfold at_p. cbn [fst snd]. split; [|reflexivity]. constructor; [apply mci_cur|exact E3|apply Hcur].
    - eapply prel_bind; [apply poperand_c; apply Hcur|].
      intros [[[m i] o] p3] [[[m' i'] o'] p3'] [(E1 & E2 & E3) Ep]. cbn [fst snd] in *. subst. norm.
      destruct (is_ty (cur ts p3) T_ADDRESSING_MODE_INDEX).
      + destruct (match i' with Some i0 => negb (str_eqb i0 k_s && str_eqb (lower (t_value (cur ts p3))) k_y) | None => false end);
          [apply perr_c|].
        destruct (index_map m'); [|cbn; auto].
        cbn [prel]. unfold at_p. cbn [fst snd]. split; [|reflexivity]. constructor; [apply mci_cur|exact E3|apply Hcur].
      + cbn [prel]. unfold at_p. cbn [fst snd]. split; [|reflexivity]. constructor; [apply mci_cur|exact E3|apply Hcur].
  Qed.
  Hint Resolve popcode_c : crl.

  Variables sub sub' : str -> pres (list ast).
  Hypothesis Hsub : forall name, prel casrel (sub name) (sub' name).

  Section OpenRel.
    Variables PB PB' : nat -> R (list ast).
    Variables PEL PEL' : nat -> R margs.
    Variable f : nat.
    Hypothesis HPB : forall q, prel (at_p casrel) (PB q) (PB' q).
    Hypothesis HPEL : forall q, prel (at_p cmsrel) (PEL q) (PEL' q).
    Hint Resolve HPB HPEL : crl.

    Lemma pscope_c q : prel (at_p carel) (pscope ts PB q) (pscope ts' PB' q).
    Proof. unfold pscope. go. Qed.
    Lemma pelist_c q : prel (at_p cmsrel) (pelist ts PEL q) (pelist ts' PEL' q).
    Proof. unfold pelist. go. Qed.
    Hint Resolve pscope_c pelist_c : crl.
    Lemma pmacro_apply_c q : prel (at_p carel) (pmacro_apply ts PEL q) (pmacro_apply ts' PEL' q).
    Proof. unfold pmacro_apply. go. Qed.
    Lemma pmacro_c q : prel (at_p carel) (pmacro ts PB f q) (pmacro ts' PB' f q).
    Proof. unfold pmacro. go. Qed.
    Lemma pif_c q : prel (at_p carel) (pif ts PB f q) (pif ts' PB' f q).
    Proof. unfold pif. go. Qed.
    Lemma pfor_c q : prel (at_p carel) (pfor ts PB f q) (pfor ts' PB' f q).
    Proof. unfold pfor. go. Qed.
    Hint Resolve pmacro_apply_c pmacro_c pif_c pfor_c : crl.

    Lemma all_exprs_c l l' : cmsrel l l' ->
      match all_exprs l, all_exprs l' with
      | Some es, Some es' => Forall2 ecirel es es'
      | None, None => True
      | _, _ => False
      end.
    Proof.
      induction 1 as [|x x' l l' Hx Hl IH]; cbn [all_exprs]; [constructor|].
      destruct Hx as [e e' He|b b' fi fi' Hb Hfi]; [|exact I].
      destruct (all_exprs l), (all_exprs l'); try contradiction; [|exact I]. constructor; assumption.
    Qed.

    Lemma pkeyword_c q : is_ty (cur ts q) T_KEYWORD = true ->
      prel (at_p carel) (pkeyword ts sub PB PEL f q) (pkeyword ts' sub' PB' PEL' f q).
    Proof.
      intros Hkw. unfold pkeyword. norm.
      destruct (str_eqb (t_value (cur ts q)) k_scope); [apply pscope_c|].
      destruct (str_eqb (t_value (cur ts q)) k_ascii); [go|].
      destruct (str_eqb (t_value (cur ts q)) k_text); [go|].
      destruct (dkind_of (t_value (cur ts q))) as [dk|].
      { eapply prel_bind; [apply HPEL|]. intros x x' Hx. pair_in Hx.
        match goal with H : cmsrel ?l ?l' |- _ => pose proof (all_exprs_c _ _ H) as HA end.
        destruct (all_exprs _), (all_exprs _); try contradiction; [|cbn; auto]. leaf. }
      destruct (str_eqb (t_value (cur ts q)) k_include).
      { eapply prel_bind; [apply pquoted_c|]. intros x x' Hx. pair_in Hx.
        eapply prel_bind; [apply Hsub|]. intros b b' Hb. leaf. }
      destruct (str_eqb (t_value (cur ts q)) k_include_ips); [apply pinclude_ips_c|].
      destruct (str_eqb (t_value (cur ts q)) k_incbin); [go|].
      destruct (str_eqb (t_value (cur ts q)) k_table); [go|].
      destruct (str_eqb (t_value (cur ts q)) k_macro); [apply pmacro_c|].
      destruct (str_eqb (t_value (cur ts q)) k_map); [apply pmap_c|].
      destruct (str_eqb (t_value (cur ts q)) k_if); [apply pif_c|].
      destruct (str_eqb (t_value (cur ts q)) k_for); [apply pfor_c|].
      destruct (str_eqb (t_value (cur ts q)) k_struct); [apply pstruct_c|].
      apply perr_c.
    Qed.

    Definition oarel (o o' : option ast) : Prop :=
      match o, o' with Some a, Some a' => carel a a' | None, None => True | _, _ => False end.

    Lemma some_c (r r' : R ast) : prel (at_p carel) r r' ->
      prel (at_p oarel) (dop x <- r; POk (Some (fst x), snd x)) (dop x <- r'; POk (Some (fst x), snd x)).
    Proof.
      intros H. eapply prel_bind; [exact H|]. intros x x' Hx. pair_in Hx. cbn [prel]. unfold at_p. cbn [fst snd oarel]. auto.
    Qed.

    Lemma pdecl_body_c q : prel (at_p oarel) (pdecl_body ts sub PB PEL f q) (pdecl_body ts' sub' PB' PEL' f q).
    Proof.
      unfold pdecl_body. norm.
      destruct (t_type (cur ts q)) eqn:Hty; norm; try apply perr_c;
        pose proof (is_ty_of_type _ _ Hty) as Hq.
      - cbn [prel]. unfold at_p. cbn [fst snd oarel]. auto.
      - apply some_c. apply plabel_c. exact Hq.
      - destruct (is_ty (cur ts (S q)) T_LPAREN); apply some_c; [apply pmacro_apply_c|apply psymbol_c; exact Hq].
      - eapply prel_bind; [apply HPB|]. intros x x' Hx. pair_in Hx. cbn [prel]. unfold at_p. cbn [fst snd oarel].
        split; [|reflexivity]. constructor; [assumption|apply Hcur].
      - apply some_c. apply popcode_c.
      - apply some_c. apply popcode_c.
      - apply some_c. apply pkeyword_c. exact Hq.
      - apply some_c. apply pstar_eq_c.
      - apply some_c. apply pat_eq_c.
      - apply some_c. apply pcode_lookup_c.
    Qed.
  End OpenRel.

  Lemma opt_app_c acc acc' o o' : casrel acc acc' -> oarel o o' -> casrel (opt_app acc o) (opt_app acc' o').
  Proof.
    intros Ha Ho. destruct o, o'; cbn [oarel opt_app] in *; try contradiction; [|exact Ha].
    apply Forall2_app; [exact Ha|]. constructor; [exact Ho|constructor].
  Qed.

  Lemma knot_c f :
    (forall pos, prel (at_p oarel) (pdecl ts sub f pos) (pdecl ts' sub' f pos)) /\
    (forall pos acc acc', casrel acc acc' -> prel (at_p casrel) (pblock ts sub f pos acc) (pblock ts' sub' f pos acc')) /\
    (forall pos acc acc', cmsrel acc acc' -> prel (at_p cmsrel) (pel ts sub f pos acc) (pel ts' sub' f pos acc')).
  Proof.
    induction f as [|f (IHd & IHb & IHe)]; [repeat split; intros; exact I|].
    repeat apply conj.
    - intro pos. rewrite !pdecl_S. apply pdecl_body_c.
      + intro q. apply IHb. constructor.
      + intro q. apply IHe. constructor.
    - intros pos acc acc' Hacc. rewrite !pblock_S. norm.
      destruct (is_ty (cur ts pos) T_EOF || is_ty (cur ts pos) T_RBRACE).
      + apply prel_expect; [apply Hcur|]. intros _. cbn [prel]. unfold at_p. cbn [fst snd]. split; [exact Hacc|reflexivity].
      + eapply prel_bind; [apply IHd|]. intros x x' Hx. pair_in Hx. apply IHb. apply opt_app_c; assumption.
    - intros pos acc acc' Hacc. rewrite !pel_S. norm.
      destruct (is_ty (cur ts pos) T_RPAREN).
      + cbn [prel]. unfold at_p. cbn [fst snd]. auto.
      + eapply prel_bind with (RA := at_p cmrel).
        * destruct (is_ty (cur ts pos) T_LBRACE).
          -- eapply prel_bind; [apply IHb; constructor|]. intros x x' Hx. pair_in Hx.
             cbn [prel]. unfold at_p. cbn [fst snd]. split; [|reflexivity]. constructor; [assumption|apply Hcur].
          -- eapply prel_bind; [apply pexpression_c|]. intros x x' Hx. pair_in Hx.
             cbn [prel]. unfold at_p. cbn [fst snd]. split; [|reflexivity]. constructor. assumption.
        * intros x x' Hx. pair_in Hx. norm.
          match goal with Hm : cmrel ?a ?a0 |- _ =>
            assert (Hacc2 : cmsrel (acc ++ [a]) (acc' ++ [a0])) by (apply Forall2_app; [exact Hacc|constructor; [exact Hm|constructor]]) end.
          match goal with |- context [is_ty (cur ts ?p) T_COMMA] => destruct (is_ty (cur ts p) T_COMMA) end.
          -- apply IHe. exact Hacc2.
          -- cbn [prel]. unfold at_p. cbn [fst snd]. auto.
  Qed.

  Lemma pinitial_c f : forall pos acc acc', casrel acc acc' ->
    prel casrel (pinitial ts sub f pos acc) (pinitial ts' sub' f pos acc').
  Proof.
    induction f as [|f IH]; intros pos acc acc' Hacc; [exact I|]. cbn [pinitial]. norm.
    destruct (is_ty (cur ts pos) T_EOF); [exact Hacc|].
    eapply prel_bind; [apply (proj1 (knot_c f))|]. intros x x' Hx. pair_in Hx. apply IH. apply opt_app_c; assumption.
  Qed.
End Lists.

(** ** Whole programs *)
Lemma cur_cit ts ts' : Forall2 cit ts ts' -> forall q, cit (cur ts q) (cur ts' q).
Proof.
  intros H. induction H as [|t t' l l' Ht _ IH]; intros [|q]; unfold cur; cbn [nth]; try apply cit_eof; auto.
  apply IH.
Qed.

(** L2 for letter case: [cit]-related token lists parse to related ASTs / the same error (includes
    out of the picture: every [.include] fails the same way on both sides). *)
Theorem parse_program_case inc incfuel ts ts' :
  (forall name, exists k, inc name = Err k) -> Forall2 cit ts ts' ->
  prel casrel (parse_program (parse_fuel (length ts)) incfuel inc ts)
              (parse_program (parse_fuel (length ts')) incfuel inc ts').
Proof.
  intros Hinc Hts.
  assert (Hlen : length ts' = length ts) by (clear -Hts; induction Hts; cbn [length]; congruence).
  rewrite Hlen. unfold parse_program. rewrite !parse_file_unfold.
  apply (pinitial_c ts ts' (cur_cit ts ts' Hts)); [|constructor].
  intro name. destruct incfuel; [cbn; auto|]. destruct (Hinc name) as [k ->]. cbn. auto.
Qed.

Print Assumptions parse_program_case.
Print Assumptions eval_expression_ci.
