(** The passes are blind to the CONTENTS of code symbols.

    [cvrel V r1 r2]: the two resolver states are equal except for the statement lists stored in the
    code dictionaries ([Scope.code_symbols]), which have the same keys in the same order and values
    pairwise related by [V].  Every lookup gives the same integer, or a code block on both sides
    (related by [V]); the evaluator turns a code block into the same error whatever it contains.
    So [assemble_nodes] gives the same result from [cvrel]-related states, whatever [V]
    ([assemble_nodes_cv], and [assemble_nodes_code_blind] for V = True).  Code generation reads a
    stored block only at a splice; the lemmas here about what code generation does to the resolver
    are the common part of the program-level simulations (Proofs/CodeValuesNI.v, CodeValuesRen.v). *)
From Coq Require Import ZArith List Lia Bool Arith.
From A816 Require Import Model.Codegen Proofs.BusProofs Proofs.ResolverProofs Proofs.EvalCongr
     Proofs.NonInterference.
Open Scope Z_scope.

Notation cval := (list ast * token)%type.

Section CV.
  Variable w : world.
  Variable V : cval -> cval -> Prop.

  Definition cdict (d1 d2 : dict cval) : Prop :=
    Forall2 (fun kv1 kv2 => fst kv1 = fst kv2 /\ V (snd kv1) (snd kv2)) d1 d2.

  Lemma cdict_get d1 d2 q : cdict d1 d2 ->
    match dict_get d1 q, dict_get d2 q with
    | Some c1, Some c2 => V c1 c2
    | None, None => True
    | _, _ => False
    end.
  Proof.
    induction 1 as [|[k1 c1] [k2 c2] d1 d2 [E Hv] H IH]; cbn [dict_get]; auto.
    cbn [fst snd] in *. subst k2. destruct (str_eqb q k1); auto.
  Qed.
  Lemma cdict_mem d1 d2 q : cdict d1 d2 -> dict_mem d1 q = dict_mem d2 q.
  Proof.
    intros H. unfold dict_mem. pose proof (cdict_get d1 d2 q H) as G.
    destruct (dict_get d1 q), (dict_get d2 q); auto; contradiction.
  Qed.
  Lemma cdict_set d1 d2 q c1 c2 : cdict d1 d2 -> V c1 c2 -> cdict (dict_set d1 q c1) (dict_set d2 q c2).
  Proof.
    intros H Hv. induction H as [|[k1 a1] [k2 a2] d1 d2 [E Ha] H IH]; cbn [dict_set].
    - constructor; [split; auto|constructor].
    - cbn [fst snd] in *. subst k2. destruct (str_eqb q k1); constructor; auto; split; auto.
  Qed.

  Record vscope (a b : scope) : Prop := {
    vs_parent : s_parent a = s_parent b;
    vs_kind : s_kind a = s_kind b;
    vs_sym : s_symbols a = s_symbols b;
    vs_lab : s_labels a = s_labels b;
    vs_table : s_table a = s_table b;
    vs_code : cdict (s_code a) (s_code b)
  }.
  Record cvrel (r1 r2 : rstate) : Prop := {
    cv_scopes : Forall2 vscope (r_scopes r1) (r_scopes r2);
    cv_cur : r_cur r1 = r_cur r2;
    cv_last : r_last r1 = r_last r2;
    cv_pc : r_pc r1 = r_pc r2;
    cv_reloc : r_reloc r1 = r_reloc r2;
    cv_bus : r_bus r1 = r_bus r2;
    cv_rom : r_rom r1 = r_rom r2
  }.

  Lemma vscope_new p k : vscope (new_scope p k) (new_scope p k).
  Proof. constructor; auto. constructor. Qed.

  Lemma cvrel_set_cur r1 r2 c : cvrel r1 r2 -> cvrel (set_cur r1 c) (set_cur r2 c).
  Proof. intros []; constructor; auto. Qed.
  Lemma cvrel_set_cur_last r1 r2 c l : cvrel r1 r2 -> cvrel (set_cur_last r1 c l) (set_cur_last r2 c l).
  Proof. intros []; constructor; auto. Qed.
  Lemma cvrel_set_pc r1 r2 p : cvrel r1 r2 -> cvrel (set_pc r1 p) (set_pc r2 p).
  Proof. intros []; constructor; auto. Qed.
  Lemma cvrel_set_reloc r1 r2 a : cvrel r1 r2 -> cvrel (set_reloc r1 a) (set_reloc r2 a).
  Proof. intros []; constructor; auto. Qed.
  Lemma cvrel_set_bus r1 r2 b : cvrel r1 r2 -> cvrel (set_bus r1 b) (set_bus r2 b).
  Proof. intros []; constructor; auto. Qed.
  Lemma cvrel_reset r1 r2 : cvrel r1 r2 -> cvrel (resolver_reset r1) (resolver_reset r2).
  Proof. intros H. unfold resolver_reset. apply cvrel_set_pc, cvrel_set_cur_last, H. Qed.

  Lemma cvrel_upd r1 r2 i f g :
    (forall a b, vscope a b -> vscope (f a) (g b)) -> cvrel r1 r2 -> cvrel (upd_scope r1 i f) (upd_scope r2 i g).
  Proof.
    intros Hfg []; constructor; auto. cbn [upd_scope set_scopes r_scopes]. apply Forall2_list_update; auto.
  Qed.

  Lemma vscope_add_symbol n v a b : vscope a b -> vscope (scope_add_symbol n v a) (scope_add_symbol n v b).
  Proof. intros []; constructor; cbn [scope_add_symbol s_parent s_kind s_code s_table s_symbols s_labels]; congruence || auto. Qed.
  Lemma vscope_add_label n v a b : vscope a b -> vscope (scope_add_label n v a) (scope_add_label n v b).
  Proof. intros []; constructor; cbn [scope_add_label s_parent s_kind s_code s_table s_symbols s_labels]; congruence || auto. Qed.
  Lemma vscope_set_table t a b : vscope a b -> vscope (scope_set_table t a) (scope_set_table t b).
  Proof. intros []; constructor; cbn [scope_set_table s_parent s_kind s_code s_table s_symbols s_labels]; congruence || auto. Qed.
  Lemma vscope_add_code q c1 c2 a b : V c1 c2 -> vscope a b -> vscope (scope_add_code q c1 a) (scope_add_code q c2 b).
  Proof.
    intros Hv []; constructor; cbn [scope_add_code s_parent s_kind s_code s_table s_symbols s_labels]; auto.
    apply cdict_set; auto.
  Qed.
  Lemma vscope_export name child a b : vscope a b -> vscope (export_into name child a) (export_into name child b).
  Proof.
    intros [].
    destruct (export_into_fields name child a) as (A1 & B1 & C1 & D1 & E1 & F1).
    destruct (export_into_fields name child b) as (A2 & B2 & C2 & D2 & E2 & F2).
    constructor; congruence.
  Qed.

  Lemma cvrel_add_symbol r1 r2 n v : cvrel r1 r2 -> cvrel (add_symbol r1 n v) (add_symbol r2 n v).
  Proof. intros H. unfold add_symbol. rewrite (cv_cur _ _ H). apply cvrel_upd; auto using vscope_add_symbol. Qed.
  Lemma cvrel_add_label r1 r2 n v : cvrel r1 r2 -> cvrel (add_label r1 n v) (add_label r2 n v).
  Proof. intros H. unfold add_label. rewrite (cv_cur _ _ H). apply cvrel_upd; auto using vscope_add_label. Qed.
  Lemma cvrel_add_code r1 r2 q c1 c2 : V c1 c2 -> cvrel r1 r2 -> cvrel (add_code r1 q c1) (add_code r2 q c2).
  Proof. intros Hv H. unfold add_code. rewrite (cv_cur _ _ H). apply cvrel_upd; auto using vscope_add_code. Qed.
  Lemma cvrel_set_table r1 r2 t : cvrel r1 r2 ->
    cvrel (upd_scope r1 (r_cur r1) (scope_set_table t)) (upd_scope r2 (r_cur r2) (scope_set_table t)).
  Proof. intros H. rewrite (cv_cur _ _ H). apply cvrel_upd; auto using vscope_set_table. Qed.

  Lemma cvrel_nth r1 r2 i : cvrel r1 r2 ->
    match nth_error (r_scopes r1) i, nth_error (r_scopes r2) i with
    | Some a, Some b => vscope a b
    | None, None => True
    | _, _ => False
    end.
  Proof. intros H. apply Forall2_nth_error. apply (cv_scopes _ _ H). Qed.

  (** ** Lookups: the same integer, or a code block on both sides *)
  Definition sval_rel (x y : res sval) : Prop :=
    match x, y with
    | Ok (VInt a), Ok (VInt b) => a = b
    | Ok (VCode b1 f1), Ok (VCode b2 f2) => V (b1, f1) (b2, f2)
    | Err j, Err k => j = k
    | OutOfFuel, OutOfFuel => True
    | _, _ => False
    end.

  Lemma scope_getitem_cv a b q : vscope a b -> sval_rel (scope_getitem a q) (scope_getitem b q).
  Proof.
    intros []. unfold scope_getitem. pose proof (cdict_get _ _ q vs_code0) as G. rewrite vs_sym0.
    destruct (dict_get (s_code a) q) as [[b1 f1]|], (dict_get (s_code b) q) as [[b2 f2]|]; try contradiction; cbn; auto.
    destruct (dict_get (s_symbols b) q); cbn; auto.
  Qed.

  Lemma value_for_fuel_cv sc1 sc2 q : Forall2 vscope sc1 sc2 -> forall fuel i,
    sval_rel (value_for_fuel sc1 fuel i q) (value_for_fuel sc2 fuel i q).
  Proof.
    intros H fuel; induction fuel as [|fuel IH]; intros i; [exact I|]. cbn [value_for_fuel].
    pose proof (Forall2_nth_error _ _ _ H i) as Hi.
    destruct (nth_error sc1 i) as [a|], (nth_error sc2 i) as [b|]; try contradiction; [|reflexivity].
    pose proof (scope_getitem_cv a b q Hi) as Hg.
    rewrite (vs_parent _ _ Hi), (vs_sym _ _ Hi), (cdict_mem _ _ q (vs_code _ _ Hi)).
    destruct (s_parent b); [|exact Hg]. destruct (_ || _); [exact Hg|apply IH].
  Qed.
  Lemma value_for_cv r1 r2 q : cvrel r1 r2 -> sval_rel (value_for r1 q) (value_for r2 q).
  Proof. intros H. unfold value_for. rewrite (cv_cur _ _ H). apply value_for_fuel_cv. apply (cv_scopes _ _ H). Qed.

  Lemma env_of_cv r1 r2 q : cvrel r1 r2 -> env_of r1 q = env_of r2 q.
  Proof.
    intros H. unfold env_of. pose proof (value_for_cv r1 r2 q H) as G.
    destruct (value_for r1 q) as [[a|b1 f1]|j|], (value_for r2 q) as [[b|b2 f2]|k|]; cbn in G; try contradiction; congruence.
  Qed.
  Lemma eval_raw_cv r1 r2 e : cvrel r1 r2 -> eval_raw w r1 e = eval_raw w r2 e.
  Proof.
    intros H. unfold eval_raw. apply eval_expression_congr. apply Forall_forall. intros t _ _. apply env_of_cv; auto.
  Qed.
  Lemma get_value_cv r1 r2 e : cvrel r1 r2 -> get_value w r1 e = get_value w r2 e.
  Proof. intros H. unfold get_value. rewrite (eval_raw_cv r1 r2 e H). reflexivity. Qed.
  Lemma get_bus_cv r1 r2 : cvrel r1 r2 -> get_bus w r1 = get_bus w r2.
  Proof. intros H. unfold get_bus. rewrite (cv_bus _ _ H), (cv_rom _ _ H). reflexivity. Qed.
  Lemma if_condition_cv r1 r2 c : cvrel r1 r2 -> if_condition w r1 c = if_condition w r2 c.
  Proof. intros H. unfold if_condition. rewrite (eval_raw_cv r1 r2 c H). reflexivity. Qed.

  Lemma get_table_fuel_cv sc1 sc2 : Forall2 vscope sc1 sc2 -> forall fuel i,
    get_table_fuel sc1 fuel i = get_table_fuel sc2 fuel i.
  Proof.
    intros H fuel; induction fuel as [|fuel IH]; intros i; [reflexivity|]. cbn [get_table_fuel].
    pose proof (Forall2_nth_error _ _ _ H i) as Hi.
    destruct (nth_error sc1 i) as [a|], (nth_error sc2 i) as [b|]; try contradiction; [|reflexivity].
    rewrite (vs_table _ _ Hi), (vs_parent _ _ Hi). destruct (s_table b); [reflexivity|].
    destruct (s_parent b); [apply IH|reflexivity].
  Qed.
  Lemma get_table_cv r1 r2 : cvrel r1 r2 -> get_table r1 = get_table r2.
  Proof. intros H. unfold get_table. rewrite (cv_cur _ _ H). apply get_table_fuel_cv. apply (cv_scopes _ _ H). Qed.

  Lemma generate_map_cv r1 r2 a : cvrel r1 r2 -> res_rel cvrel (generate_map r1 a) (generate_map r2 a).
  Proof.
    intros H. unfold generate_map. rewrite (cv_bus _ _ H).
    destruct (ma_identifier a) as [id|]; [|reflexivity].
    destruct (ma_bank_range a) as [[lo [hi|]]|]; try reflexivity;
    destruct (ma_addr_range a) as [ar|]; try reflexivity;
    destruct (ma_mask a) as [[mask [mh|]]|]; try reflexivity.
    destruct (ma_mirror_bank_range a) as [[m0 [m1|]]|].
    - apply res_rel_bind_same; intros b _. cbn [res_rel]. apply cvrel_set_bus, H.
    - destruct (m0 =? 0); [|reflexivity].
      apply res_rel_bind_same; intros b _. cbn [res_rel]. apply cvrel_set_bus, H.
    - apply res_rel_bind_same; intros b _. cbn [res_rel]. apply cvrel_set_bus, H.
  Qed.

  (** ** Scope moves *)
  Lemma use_next_scope_cv r1 r2 : cvrel r1 r2 -> res_rel cvrel (use_next_scope r1) (use_next_scope r2).
  Proof.
    intros H. unfold use_next_scope. rewrite (cv_last _ _ H).
    pose proof (cvrel_nth r1 r2 (S (r_last r2)) H) as Hi.
    destruct (nth_error (r_scopes r1) _), (nth_error (r_scopes r2) _); try contradiction; cbn [res_rel]; auto.
    apply cvrel_set_cur_last; auto.
  Qed.
  Lemma enter_scope_cv r1 r2 k : cvrel r1 r2 -> res_rel cvrel (enter_scope r1 k) (enter_scope r2 k).
  Proof.
    intros H. unfold enter_scope. apply use_next_scope_cv. unfold append_scope. rewrite (cv_cur _ _ H).
    destruct H; constructor; cbn [set_scopes r_scopes r_cur r_last r_pc r_reloc r_bus r_rom]; auto.
    apply Forall2_app; auto. constructor; [apply vscope_new|constructor].
  Qed.
  Lemma restore_scope_cv r1 r2 e : cvrel r1 r2 -> res_rel cvrel (restore_scope r1 e) (restore_scope r2 e).
  Proof.
    intros H. unfold restore_scope. rewrite (cv_cur _ _ H).
    pose proof (cvrel_nth r1 r2 (r_cur r2) H) as Hi.
    destruct (nth_error (r_scopes r1) _) as [s1|], (nth_error (r_scopes r2) _) as [s2|]; try contradiction;
      cbn [res_rel]; auto.
    rewrite (vs_parent _ _ Hi), (vs_kind _ _ Hi), (vs_sym _ _ Hi).
    destruct (s_parent s2) as [p|]; cbn [res_rel]; auto.
    apply cvrel_set_cur. destruct (s_kind s2); auto. destruct e; auto.
    apply cvrel_upd; auto using vscope_export.
  Qed.
  Lemma set_position_cv r1 r2 v : cvrel r1 r2 -> res_rel cvrel (set_position w r1 v) (set_position w r2 v).
  Proof.
    intros H. unfold set_position. rewrite (get_bus_cv r1 r2 H).
    apply res_rel_bind_same; intros b _. apply res_rel_bind_same; intros a _. apply res_rel_bind_same; intros p _.
    cbn [res_rel]. apply cvrel_set_reloc. destruct p; auto using cvrel_set_pc.
  Qed.
  Lemma eval_scope_cv r1 r2 ip : cvrel r1 r2 -> cvrel (eval_scope r1 ip) (eval_scope r2 ip).
  Proof.
    intros H. unfold eval_scope. destruct ip; auto. rewrite (cv_cur _ _ H).
    pose proof (cvrel_nth r1 r2 (r_cur r2) H) as Hi.
    destruct (nth_error (r_scopes r1) _) as [s1|], (nth_error (r_scopes r2) _) as [s2|]; try contradiction; auto.
    rewrite (vs_parent _ _ Hi). destruct (s_parent s2); auto using cvrel_set_cur.
  Qed.

  (** ** The passes *)
  Definition vsim {T} (x y : rstate * T) : Prop := cvrel (fst x) (fst y) /\ snd x = snd y.

  Lemma operand_value_cv r1 r2 o : cvrel r1 r2 -> operand_value w r1 o = operand_value w r2 o.
  Proof. intros H. destruct o; cbn [operand_value]; [|reflexivity]. rewrite (get_value_cv r1 r2 e H). reflexivity. Qed.

  Lemma pc_after_cv r1 r2 n a : cvrel r1 r2 -> res_rel vsim (pc_after w r1 n a) (pc_after w r2 n a).
  Proof.
    intros H. destruct n.
    - cbn [pc_after res_rel]. split; cbn [fst snd]; auto using cvrel_add_label.
    - change (res_rel vsim (do v <- eval_raw w (eval_scope r1 in_parent) e; Ok (add_symbol r1 name v, a))
                           (do v <- eval_raw w (eval_scope r2 in_parent) e; Ok (add_symbol r2 name v, a))).
      rewrite (eval_raw_cv _ _ e (eval_scope_cv r1 r2 in_parent H)).
      apply res_rel_bind_same; intros v _. split; cbn [fst snd]; auto using cvrel_add_symbol.
    - cbn [pc_after res_rel]. split; cbn [fst snd]; auto using cvrel_add_symbol.
    - cbn [pc_after]. apply res_rel_bind_same; intros a' _. split; cbn [fst snd]; auto using cvrel_add_symbol, cvrel_add_label.
    - cbn [pc_after]. apply res_rel_bind_same; intros a' _. split; cbn [fst snd]; auto.
    - cbn [pc_after]. unfold opcode_length. rewrite (operand_value_cv r1 r2 operand H).
      apply res_rel_bind_same; intros len _. apply res_rel_bind_same; intros a' _. split; cbn [fst snd]; auto.
    - cbn [pc_after]. rewrite (get_value_cv r1 r2 e H), (get_bus_cv r1 r2 H).
      apply res_rel_bind_same; intros v _. apply res_rel_bind_same; intros b _. apply res_rel_bind_same; intros a' _.
      split; cbn [fst snd]; auto.
    - cbn [pc_after]. rewrite (get_value_cv r1 r2 e H), (get_bus_cv r1 r2 H).
      apply res_rel_bind_same; intros v _. apply res_rel_bind_same; intros b _. apply res_rel_bind_same; intros a' _.
      split; cbn [fst snd]; auto.
    - cbn [pc_after res_rel]. split; cbn [fst snd]; auto.
    - cbn [pc_after]. eapply res_rel_bind; [apply use_next_scope_cv; exact H|]. intros ra rb Hab. split; cbn [fst snd]; auto.
    - cbn [pc_after]. eapply res_rel_bind; [apply restore_scope_cv; exact H|]. intros ra rb Hab. split; cbn [fst snd]; auto.
    - cbn [pc_after res_rel]. split; cbn [fst snd]; auto.
    - cbn [pc_after]. apply res_rel_bind_same; intros bs _. apply res_rel_bind_same; intros a' _. split; cbn [fst snd]; auto.
    - cbn [pc_after]. apply res_rel_bind_same; intros a' _. split; cbn [fst snd]; auto.
  Qed.

  Lemma node_emit_cv r1 r2 n : cvrel r1 r2 -> res_rel vsim (node_emit w r1 n) (node_emit w r2 n).
  Proof.
    intros H. destruct n; cbn [node_emit];
      try (cbn [res_rel]; split; cbn [fst snd]; auto; fail).
    - rewrite (get_value_cv r1 r2 e H). apply res_rel_bind_same; intros v _. split; cbn [fst snd]; auto.
    - unfold opcode_emit, rel_emit, dummy_rc.
      rewrite (operand_value_cv r1 r2 operand H), (get_bus_cv r1 r2 H), (cv_reloc _ _ H), (cv_pc _ _ H).
      apply res_rel_bind_same; intros bs _. split; cbn [fst snd]; auto.
    - rewrite (get_value_cv r1 r2 e H). apply res_rel_bind_same; intros v _.
      eapply res_rel_bind; [apply set_position_cv; exact H|]. intros ra rb Hab. split; cbn [fst snd]; auto.
    - rewrite (get_value_cv r1 r2 e H). apply res_rel_bind_same; intros v _.
      eapply res_rel_bind; [apply set_position_cv; exact H|]. intros ra rb Hab. split; cbn [fst snd]; auto.
    - eapply res_rel_bind; [apply use_next_scope_cv; exact H|]. intros ra rb Hab. split; cbn [fst snd]; auto.
    - eapply res_rel_bind; [apply restore_scope_cv; exact H|]. intros ra rb Hab. split; cbn [fst snd]; auto.
    - apply res_rel_bind_same; intros bs _. split; cbn [fst snd]; auto.
  Qed.

  Record vesim (s1 s2 : estate) : Prop := {
    ve_r : cvrel (e_r s1) (e_r s2);
    ve_block : e_block s1 = e_block s2;
    ve_baddr : e_baddr s1 = e_baddr s2;
    ve_out : e_out s1 = e_out s2
  }.

  Lemma emit_step_cv s1 s2 n x : vesim s1 s2 -> res_rel vesim (emit_step w s1 n x) (emit_step w s2 n x).
  Proof.
    intros [Hr Hb Ha Ho]. unfold emit_step. rewrite (cv_reloc _ _ Hr).
    destruct (negb _); [reflexivity|].
    eapply res_rel_bind; [apply node_emit_cv; eauto|].
    intros [ra bs] [rb bs'] [Hs Hbs]. cbn [fst snd] in Hs, Hbs. subst bs'.
    eapply res_rel_bind with (R := cvrel).
    - destruct bs as [|b0 bs0]; [exact Hs|]. rewrite (cv_reloc _ _ Hs), (cv_pc _ _ Hs).
      apply res_rel_bind_same; intros a' _. cbn [res_rel]. apply cvrel_set_reloc, cvrel_set_pc, Hs.
    - intros r2a r2b H2. cbn [res_rel]. rewrite Hb, Ha, Ho, (cv_pc _ _ H2).
      destruct n; cbn [is_codepos]; constructor; cbn [e_r e_block e_baddr e_out]; auto.
  Qed.

  Lemma label_pass_cv ns : forall r1 r2 a acc, cvrel r1 r2 ->
    res_rel (fun x y => cvrel (fst (fst x)) (fst (fst y)) /\ snd (fst x) = snd (fst y) /\ snd x = snd y)
            (label_pass w r1 ns a acc) (label_pass w r2 ns a acc).
  Proof.
    induction ns as [|n ns IH]; intros r1 r2 a acc H; cbn [label_pass].
    - cbn [res_rel fst snd]. auto.
    - destruct (is_symbol_node n); [apply IH; auto|].
      eapply res_rel_bind; [apply pc_after_cv; eauto|].
      intros [ra a1] [rb a2] [Hs Ha]. cbn [fst snd] in *. subst a2. apply IH; auto.
  Qed.
  Lemma symbol_pass_cv ns : forall r1 r2 a, cvrel r1 r2 ->
    res_rel vsim (symbol_pass w r1 ns a) (symbol_pass w r2 ns a).
  Proof.
    induction ns as [|n ns IH]; intros r1 r2 a H; cbn [symbol_pass].
    - split; auto.
    - destruct (is_label_or_binary n); [apply IH; auto|].
      eapply res_rel_bind; [apply pc_after_cv; eauto|].
      intros [ra a1] [rb a2] [Hs Ha]. cbn [fst snd] in *. subst a2. apply IH; auto.
  Qed.
  Lemma emit_loop_cv ns : forall s1 s2 addrs, vesim s1 s2 ->
    res_rel vesim (emit_loop w s1 ns addrs) (emit_loop w s2 ns addrs).
  Proof.
    induction ns as [|n ns IH]; intros s1 s2 addrs H; cbn [emit_loop].
    - destruct addrs as [|x [|y l]]; try reflexivity.
      rewrite (cv_reloc _ _ (ve_r _ _ H)). destruct (negb _); [reflexivity|exact H].
    - destruct addrs as [|x addrs]; [reflexivity|].
      eapply res_rel_bind; [apply emit_step_cv; eauto|]. intros sa sb Hab. apply IH; auto.
  Qed.

  Lemma all_labels_cv sc1 sc2 : Forall2 vscope sc1 sc2 ->
    flat_map (fun s => match s_kind s with SInternal => [] | _ => s_labels s end) sc1 =
    flat_map (fun s => match s_kind s with SInternal => [] | _ => s_labels s end) sc2.
  Proof.
    induction 1 as [|a b l1 l2 Hs H IH]; [reflexivity|].
    cbn [flat_map]. rewrite (vs_kind _ _ Hs), (vs_lab _ _ Hs), IH. reflexivity.
  Qed.

  Definition cv_out (o1 o2 : output) : Prop :=
    o_blocks o1 = o_blocks o2 /\ o_labels o1 = o_labels o2 /\ cvrel (o_final o1) (o_final o2).

  Theorem assemble_nodes_cv ns r1 r2 : cvrel r1 r2 ->
    res_rel cv_out (assemble_nodes w r1 ns) (assemble_nodes w r2 ns).
  Proof.
    intros H. unfold assemble_nodes, resolve_labels, emit.
    assert (H0 : cvrel (set_cur_last r1 (r_cur r1) 0) (set_cur_last r2 (r_cur r2) 0))
      by (rewrite (cv_cur _ _ H); apply cvrel_set_cur_last; exact H).
    rewrite (cv_reloc _ _ H0).
    eapply res_rel_bind; [eapply res_rel_bind; [apply label_pass_cv; eauto|]|].
    - intros [[ra a1] l1] [[rb a2] l2] (Hs & Ha & Hl). cbn [fst snd] in Hs, Ha, Hl. subst a2 l2.
      pose proof (cvrel_reset _ _ Hs) as Hr. rewrite (cv_reloc _ _ Hr).
      eapply res_rel_bind; [apply symbol_pass_cv; eauto|].
      intros [ra' a1'] [rb' a2'] [Hs' _]. cbn [fst snd] in Hs'. cbn [res_rel].
      instantiate (1 := vsim). split; cbn [fst snd]; [apply cvrel_reset; exact Hs'|reflexivity].
    - intros [ra l1] [rb l2] [Hs Hl]. cbn [fst snd] in Hs, Hl |- *. subst l2.
      eapply res_rel_bind; [eapply res_rel_bind; [apply emit_loop_cv; eauto|]|].
      + constructor; cbn [e_r e_block e_baddr e_out]; auto. apply (cv_pc _ _ Hs).
      + intros sa sb [Hr Hb Ha Ho]. cbn [res_rel]. instantiate (1 := vsim). split; cbn [fst snd]; [exact Hr|].
        rewrite Hb, Ha, Ho. reflexivity.
      + intros [ra' b1] [rb' b2] [Hs' Hb]. cbn [fst snd] in Hs', Hb |- *. subst b2. cbn [res_rel].
        unfold cv_out. cbn [o_blocks o_labels o_final]. split; [reflexivity|]. split; [|exact Hs'].
        unfold get_all_labels. apply all_labels_cv. apply (cv_scopes _ _ Hs').
  Qed.
End CV.

(** The passes never look inside a code value: states that agree on everything but the statement
    lists stored under the (same) code keys assemble any node list to the same result. *)
Definition code_blind : rstate -> rstate -> Prop := cvrel (fun _ _ => True).

Theorem assemble_nodes_code_blind w ns r1 r2 : code_blind r1 r2 ->
  match assemble_nodes w r1 ns, assemble_nodes w r2 ns with
  | Ok o1, Ok o2 => o_blocks o1 = o_blocks o2 /\ o_labels o1 = o_labels o2 /\ code_blind (o_final o1) (o_final o2)
  | Err j, Err k => j = k
  | OutOfFuel, OutOfFuel => True
  | _, _ => False
  end.
Proof.
  intros H. pose proof (assemble_nodes_cv w (fun _ _ => True) ns r1 r2 H) as HR.
  destruct (assemble_nodes w r1 ns), (assemble_nodes w r2 ns); cbn [res_rel] in HR; auto.
Qed.

(** a weaker value relation *)
Lemma cvrel_weaken (V V' : cval -> cval -> Prop) r1 r2 :
  (forall a b, V a b -> V' a b) -> cvrel V r1 r2 -> cvrel V' r1 r2.
Proof.
  intros HV []. constructor; auto.
  induction cv_scopes0 as [|a b l1 l2 [] H IH]; constructor; auto.
  constructor; auto. unfold cdict in *. induction vs_code0 as [|x y d1 d2 [E Hv] Hd IHd]; constructor; auto.
Qed.

Print Assumptions assemble_nodes_code_blind.
