(** C08 non-interference for programs, insertions inside code-block arguments included.

    [glins prog1 prog2] extends [lins] of Proofs/NonInterferenceAst.v: the code blocks given as
    macro arguments may contain inserted definitions of [z] as well.  The code blocks stored in the
    two resolvers then differ; the resolver relation is [sim z] composed with [cvrel] (equal states
    up to stored blocks, which are pairwise [glins]-related): code generation uses a stored block
    only at a splice, where the induction hypothesis applies to the two related blocks, and the
    passes are blind to stored blocks ([assemble_nodes_cv]). *)
From Coq Require Import ZArith List Lia Bool Arith.
From A816 Require Import Model.Codegen Proofs.BusProofs Proofs.ResolverProofs Proofs.EvalCongr
     Proofs.CodegenProofs Proofs.NonInterference Proofs.NonInterferenceMulti Proofs.NonInterferenceAst
     Proofs.CodeValues.
Open Scope Z_scope.

Lemma res_rel_trans {A B C} (R : A -> B -> Prop) (S : B -> C -> Prop) x y u :
  res_rel R x y -> res_rel S y u -> res_rel (fun a c => exists b, R a b /\ S b c) x u.
Proof. destruct x, y, u; cbn [res_rel]; intros H1 H2; try contradiction; eauto. congruence. Qed.

Section GNI.
  Variable w : world.
  Variable z : str.

  Inductive gains : ast -> ast -> Prop :=
  | ga_same a : gains a a
  | ga_block b1 b2 fi : glins b1 b2 -> gains (ABlock b1 fi) (ABlock b2 fi)
  | ga_compound b1 b2 fi : glins b1 b2 -> gains (ACompound b1 fi) (ACompound b2 fi)
  | ga_scope name b1 b2 bfi fi : glins b1 b2 -> gains (AScope name b1 bfi fi) (AScope name b2 bfi fi)
  | ga_if c th1 th2 thfi el1 el2 fi :
      glins th1 th2 -> goins el1 el2 -> gains (AIf c th1 thfi el1 fi) (AIf c th2 thfi el2 fi)
  | ga_macro name params b1 b2 bfi fi :
      glins b1 b2 -> gains (AMacro name params b1 bfi fi) (AMacro name params b2 bfi fi)
  | ga_for v lo hi b1 b2 bfi fi : glins b1 b2 -> gains (AFor v lo hi b1 bfi fi) (AFor v lo hi b2 bfi fi)
  | ga_apply name args1 args2 fi : gargs args1 args2 -> gains (AMacroApply name args1 fi) (AMacroApply name args2 fi)
  with glins : list ast -> list ast -> Prop :=
  | gl_nil : glins [] []
  | gl_cons a1 a2 l1 l2 : gains a1 a2 -> glins l1 l2 -> glins (a1 :: l1) (a2 :: l2)
  | gl_ins d l1 l2 : is_defa w z d -> glins l1 l2 -> glins (d :: l1) l2
  with goins : option cval -> option cval -> Prop :=
  | go_none : goins None None
  | go_some b1 b2 fi : glins b1 b2 -> goins (Some (b1, fi)) (Some (b2, fi))
  with gargs : list (expr + cval) -> list (expr + cval) -> Prop :=
  | gr_nil : gargs [] []
  | gr_expr e l1 l2 : gargs l1 l2 -> gargs (inl e :: l1) (inl e :: l2)
  | gr_code b1 b2 fi l1 l2 : glins b1 b2 -> gargs l1 l2 -> gargs (inr (b1, fi) :: l1) (inr (b2, fi) :: l2).

  Lemma glins_refl l : glins l l.
  Proof. induction l; constructor; auto using ga_same. Qed.
  Lemma goins_refl o : goins o o.
  Proof. destruct o as [[b fi]|]; constructor. apply glins_refl. Qed.
  Lemma gargs_refl l : gargs l l.
  Proof. induction l as [|[e|[b fi]] l IH]; constructor; auto using glins_refl. Qed.

  Lemma gains_block a1 b2 fi : gains a1 (ABlock b2 fi) -> exists b1, a1 = ABlock b1 fi /\ glins b1 b2.
  Proof. intros H; inversion H; subst; eauto using glins_refl. Qed.
  Lemma gains_compound a1 b2 fi : gains a1 (ACompound b2 fi) -> exists b1, a1 = ACompound b1 fi /\ glins b1 b2.
  Proof. intros H; inversion H; subst; eauto using glins_refl. Qed.
  Lemma gains_scope a1 name b2 bfi fi : gains a1 (AScope name b2 bfi fi) -> exists b1, a1 = AScope name b1 bfi fi /\ glins b1 b2.
  Proof. intros H; inversion H; subst; eauto using glins_refl. Qed.
  Lemma gains_if a1 c th2 thfi el2 fi : gains a1 (AIf c th2 thfi el2 fi) ->
    exists th1 el1, a1 = AIf c th1 thfi el1 fi /\ glins th1 th2 /\ goins el1 el2.
  Proof. intros H; inversion H; subst; eauto 6 using glins_refl, goins_refl. Qed.
  Lemma gains_macro a1 name params b2 bfi fi : gains a1 (AMacro name params b2 bfi fi) ->
    exists b1, a1 = AMacro name params b1 bfi fi /\ glins b1 b2.
  Proof. intros H; inversion H; subst; eauto using glins_refl. Qed.
  Lemma gains_for a1 v lo hi b2 bfi fi : gains a1 (AFor v lo hi b2 bfi fi) ->
    exists b1, a1 = AFor v lo hi b1 bfi fi /\ glins b1 b2.
  Proof. intros H; inversion H; subst; eauto using glins_refl. Qed.
  Lemma gains_apply a1 name args2 fi : gains a1 (AMacroApply name args2 fi) ->
    exists args1, a1 = AMacroApply name args1 fi /\ gargs args1 args2.
  Proof. intros H; inversion H; subst; eauto using gargs_refl. Qed.

  (** ** Stored code blocks, resolver states *)
  Definition Vins (c1 c2 : cval) : Prop :=
    snd c1 = snd c2 /\ glins (fst c1) (fst c2) /\ forallb (afresh z) (fst c2) = true.
  Definition G (r1 r2 : rstate) : Prop := exists rm, sim z r1 rm /\ cvrel Vins rm r2.

  Lemma G_eval_raw r1 r2 e : expr_fresh z e = true -> G r1 r2 -> eval_raw w r1 e = eval_raw w r2 e.
  Proof. intros He (rm & A & B). rewrite (eval_raw_sim z w r1 rm e He A). apply (eval_raw_cv w Vins); auto. Qed.
  Lemma G_if_condition r1 r2 c : expr_fresh z c = true -> G r1 r2 -> if_condition w r1 c = if_condition w r2 c.
  Proof. intros He H. unfold if_condition. rewrite (G_eval_raw r1 r2 c He H). reflexivity. Qed.
  Lemma G_get_table r1 r2 : G r1 r2 -> get_table r1 = get_table r2.
  Proof. intros (rm & A & B). rewrite (get_table_sim z r1 rm A). apply (get_table_cv Vins); auto. Qed.
  Lemma G_value_for r1 r2 q : inK z q = false -> G r1 r2 -> sval_rel Vins (value_for r1 q) (value_for r2 q).
  Proof. intros Hq (rm & A & B). rewrite (value_for_sim z r1 rm q Hq A). apply value_for_cv; auto. Qed.
  Lemma G_add_symbol r1 r2 n v : G r1 r2 -> G (add_symbol r1 n v) (add_symbol r2 n v).
  Proof. intros (rm & A & B). exists (add_symbol rm n v). split; [apply sim_add_symbol|apply cvrel_add_symbol]; auto. Qed.
  Lemma G_add_symbol_l r1 r2 v : G r1 r2 -> G (add_symbol r1 z v) r2.
  Proof. intros (rm & A & B). exists rm. split; [apply sim_add_symbol_l; auto using inK_self|exact B]. Qed.
  Lemma G_add_code r1 r2 q c1 c2 : Vins c1 c2 -> G r1 r2 -> G (add_code r1 q c1) (add_code r2 q c2).
  Proof. intros Hv (rm & A & B). exists (add_code rm q c1). split; [apply sim_add_code|apply cvrel_add_code]; auto. Qed.
  Lemma G_set_table r1 r2 t : G r1 r2 ->
    G (upd_scope r1 (r_cur r1) (scope_set_table t)) (upd_scope r2 (r_cur r2) (scope_set_table t)).
  Proof.
    intros (rm & A & B). exists (upd_scope rm (r_cur rm) (scope_set_table t)). split; [|apply cvrel_set_table; auto].
    rewrite (sm_cur _ _ _ A). apply sim_upd; auto using ssim_set_table.
  Qed.
  Lemma G_set_bus r1 r2 b : G r1 r2 -> G (set_bus r1 b) (set_bus r2 b).
  Proof. intros (rm & A & B). exists (set_bus rm b). split; [apply sim_set_bus|apply cvrel_set_bus]; auto. Qed.
  Lemma G_bus r1 r2 : G r1 r2 -> r_bus r1 = r_bus r2.
  Proof. intros (rm & A & B). rewrite (sm_bus _ _ _ A). apply (cv_bus _ _ _ B). Qed.

  Lemma G_generate_map r1 r2 a : G r1 r2 -> res_rel G (generate_map r1 a) (generate_map r2 a).
  Proof.
    intros H. unfold generate_map. rewrite (G_bus _ _ H).
    destruct (ma_identifier a) as [id|]; [|reflexivity].
    destruct (ma_bank_range a) as [[lo [hi|]]|]; try reflexivity;
    destruct (ma_addr_range a) as [ar|]; try reflexivity;
    destruct (ma_mask a) as [[mask [mh|]]|]; try reflexivity.
    destruct (ma_mirror_bank_range a) as [[m0 [m1|]]|].
    - apply res_rel_bind_same; intros b _. cbn [res_rel]. apply G_set_bus, H.
    - destruct (m0 =? 0); [|reflexivity].
      apply res_rel_bind_same; intros b _. cbn [res_rel]. apply G_set_bus, H.
    - apply res_rel_bind_same; intros b _. cbn [res_rel]. apply G_set_bus, H.
  Qed.

  Lemma G_compose (f1 fm f2 : res rstate) :
    res_rel (sim z) f1 fm -> res_rel (cvrel Vins) fm f2 -> res_rel G f1 f2.
  Proof. destruct f1, fm, f2; cbn [res_rel]; intros H1 H2; try contradiction; auto; [exists a0; auto|congruence]. Qed.

  Lemma G_enter r1 r2 k : G r1 r2 -> res_rel G (enter_scope r1 k) (enter_scope r2 k).
  Proof.
    intros (rm & A & B). apply (G_compose _ (enter_scope rm k)); [apply enter_scope_sim|apply enter_scope_cv]; auto.
  Qed.
  Lemma G_restore r1 r2 e : G r1 r2 -> res_rel G (restore_scope r1 e) (restore_scope r2 e).
  Proof.
    intros (rm & A & B). apply (G_compose _ (restore_scope rm e)); [apply restore_scope_sim|apply restore_scope_cv]; auto.
  Qed.

  (** ** Macro arguments *)
  Definition argval_rel (v1 v2 : argval) : Prop :=
    match v1, v2 with
    | AVInt x, AVInt y => x = y
    | AVCode b1 f1, AVCode b2 f2 => Vins (b1, f1) (b2, f2)
    | AVDeferred e1, AVDeferred e2 => e1 = e2 /\ expr_fresh z e2 = true
    | _, _ => False
    end.
  Definition bound_rel (bs1 bs2 : list (str * argval)) : Prop :=
    Forall2 (fun pv1 pv2 => fst pv1 = fst pv2 /\ argval_rel (snd pv1) (snd pv2)) bs1 bs2.

  Lemma G_eval_macro_args r1 r2 : G r1 r2 -> forall ps args1 args2, gargs args1 args2 -> args_fresh z args2 = true ->
    res_rel bound_rel (eval_macro_args w r1 ps args1) (eval_macro_args w r2 ps args2).
  Proof.
    intros H. induction ps as [|p ps IH]; intros args1 args2 Ha Hf; cbn [eval_macro_args]; [constructor|].
    destruct Ha as [|e l1 l2 Hl|b1 b2 fi l1 l2 Hb Hl]; [reflexivity| |];
      unfold args_fresh in Hf; cbn [forallb] in Hf; apply andb_prop in Hf as [Hfa Hfl]; specialize (IH l1 l2 Hl Hfl).
    - rewrite (G_eval_raw r1 r2 e Hfa H).
      destruct (eval_raw w r2 e) as [v|[]|]; cbn [bind res_rel]; auto;
        destruct (eval_macro_args w r1 ps l1) as [t1| |], (eval_macro_args w r2 ps l2) as [t2| |];
        cbn [res_rel bind] in *; auto; constructor; auto; split; cbn; auto.
    - cbn [bind].
      destruct (eval_macro_args w r1 ps l1) as [t1| |], (eval_macro_args w r2 ps l2) as [t2| |];
        cbn [res_rel bind] in *; auto. constructor; auto. split; [reflexivity|]. cbn [snd argval_rel]. repeat split; auto.
  Qed.

  Lemma G_bind_macro_args bs1 bs2 : bound_rel bs1 bs2 -> forall r1 r2, G r1 r2 ->
    G (fst (bind_macro_args r1 bs1)) (fst (bind_macro_args r2 bs2)) /\
    snd (bind_macro_args r1 bs1) = snd (bind_macro_args r2 bs2) /\
    nodes_fresh z (snd (bind_macro_args r2 bs2)) = true.
  Proof.
    induction 1 as [|[p1 v1] [p2 v2] bs1 bs2 [Ep Hv] Hbs IH]; intros r1 r2 H; cbn [bind_macro_args]; [auto|].
    cbn [fst snd] in Ep, Hv. subst p2.
    destruct v1 as [x|b1 f1|e1], v2 as [y|b2 f2|e2]; cbn [argval_rel] in Hv; try contradiction.
    - subst y. apply IH. apply G_add_symbol; auto.
    - apply IH. apply G_add_code; auto.
    - destruct Hv as [-> He]. destruct (IH r1 r2 H) as (A & B & C').
      destruct (bind_macro_args r1 bs1) as [ra na], (bind_macro_args r2 bs2) as [rb nb].
      cbn [fst snd] in *. subst nb. refine (conj A (conj eq_refl _)).
      unfold nodes_fresh in *. cbn [forallb node_fresh]. rewrite He, C'. reflexivity.
  Qed.

  (** ** Code generation *)
  Definition gmdrel (m1 m2 : macrodef) : Prop :=
    md_params m1 = md_params m2 /\ glins (md_body m1) (md_body m2) /\ forallb (afresh z) (md_body m2) = true.
  Definition gmrel (t1 t2 : dict macrodef) : Prop :=
    Forall2 (fun kv1 kv2 => fst kv1 = fst kv2 /\ gmdrel (snd kv1) (snd kv2)) t1 t2.
  Lemma gmrel_get t1 t2 k : gmrel t1 t2 ->
    match dict_get t1 k, dict_get t2 k with
    | Some a, Some b => gmdrel a b
    | None, None => True
    | _, _ => False
    end.
  Proof.
    induction 1 as [|[k1 m1] [k2 m2] t1 t2 [E Hm] H IH]; cbn [dict_get]; auto.
    cbn [fst snd] in *. subst k2. destruct (str_eqb k k1); auto.
  Qed.
  Lemma gmrel_set t1 t2 k m1 m2 : gmrel t1 t2 -> gmdrel m1 m2 -> gmrel (dict_set t1 k m1) (dict_set t2 k m2).
  Proof.
    intros H Hm. induction H as [|[k1 a1] [k2 a2] t1 t2 [E Ha] H IH]; cbn [dict_set].
    - constructor; [split; auto|constructor].
    - cbn [fst snd] in *. subst k2. destruct (str_eqb k k1); constructor; auto; split; auto.
  Qed.

  Definition gcgsim (s1 s2 : cgstate) : Prop := G (cg_r s1) (cg_r s2) /\ gmrel (cg_macros s1) (cg_macros s2).
  Definition ggrel (x y : cgstate * list node) : Prop :=
    gcgsim (fst x) (fst y) /\ mins w z (snd x) (snd y) /\ nodes_fresh z (snd y) = true.
  Definition ggen_resp (gen : cgstate -> list ast -> res (cgstate * list node)) : Prop :=
    forall s1 s2 b1 b2, gcgsim s1 s2 -> glins b1 b2 -> forallb (afresh z) b2 = true ->
    res_rel ggrel (gen s1 b1) (gen s2 b2).

  Lemma ggrel_same s1 s2 ns : gcgsim s1 s2 -> nodes_fresh z ns = true -> res_rel ggrel (Ok (s1, ns)) (Ok (s2, ns)).
  Proof. intros H Hn. refine (conj H (conj _ Hn)). apply mins_refl. Qed.
  Lemma gcgsim_set_r s1 s2 ra rb : gcgsim s1 s2 -> G ra rb -> gcgsim (cg_set_r s1 ra) (cg_set_r s2 rb).
  Proof. intros (_ & Hm) Hr. exact (conj Hr Hm). Qed.

  Lemma gseq_rel (A1 A2 : res (cgstate * list node)) (B1 B2 : cgstate -> res (cgstate * list node)) :
    res_rel ggrel A1 A2 -> (forall sa sb, gcgsim sa sb -> res_rel ggrel (B1 sa) (B2 sb)) ->
    res_rel ggrel (do x <- A1; do y <- B1 (fst x); Ok (fst y, snd x ++ snd y))
                  (do x <- A2; do y <- B2 (fst x); Ok (fst y, snd x ++ snd y)).
  Proof.
    intros HA HB. eapply res_rel_bind; [exact HA|].
    intros [sa na] [sb nb] (Hs & Hn & Hf). cbn [fst snd] in *.
    eapply res_rel_bind; [apply HB; exact Hs|].
    intros [sa' na'] [sb' nb'] (Hs' & Hn' & Hf'). cbn [fst snd] in *. cbn [res_rel].
    refine (conj Hs' (conj _ _)); cbn [fst snd]; [apply mins_app; assumption|apply nodes_fresh_app; assumption].
  Qed.

  Lemma gscoped gen k s1 s2 pre1 pre2 b1 b2 :
    ggen_resp gen -> gcgsim s1 s2 -> glins b1 b2 -> forallb (afresh z) b2 = true ->
    (forall ra rb, G ra rb ->
       G (fst (pre1 ra)) (fst (pre2 rb)) /\ snd (pre1 ra) = snd (pre2 rb) /\ nodes_fresh z (snd (pre2 rb)) = true) ->
    res_rel ggrel (scoped gen k s1 pre1 b1) (scoped gen k s2 pre2 b2).
  Proof.
    intros Hgen (Hr & Hm) Hb Hf Hpre. unfold scoped.
    eapply res_rel_bind; [apply G_enter; exact Hr|]. intros ra rb HE.
    destruct (Hpre ra rb HE) as (P1 & P3 & P4).
    destruct (pre1 ra) as [ra2 pn1], (pre2 rb) as [rb2 pn2]. cbn [fst snd] in *. subst pn1.
    eapply res_rel_bind; [apply Hgen; [exact (conj P1 Hm)|exact Hb|exact Hf]|].
    intros [sa na] [sb nb] ((Hr' & Hm') & Hn & Hnf). cbn [fst snd] in *.
    eapply res_rel_bind; [apply G_restore; eauto|].
    intros r3a r3b H3. cbn [res_rel]. refine (conj (conj H3 Hm') (conj _ _)); cbn [fst snd].
    - constructor. apply mins_app; [apply mins_refl|]. apply mins_app; [exact Hn|apply mins_refl].
    - unfold nodes_fresh in *. cbn [forallb node_fresh]. rewrite !forallb_app, P4, Hnf. reflexivity.
  Qed.

  Lemma gscoped_id gen k s1 s2 ns0 b1 b2 :
    ggen_resp gen -> gcgsim s1 s2 -> glins b1 b2 -> forallb (afresh z) b2 = true -> nodes_fresh z ns0 = true ->
    res_rel ggrel (scoped gen k s1 (fun r => (r, ns0)) b1) (scoped gen k s2 (fun r => (r, ns0)) b2).
  Proof.
    intros Hgen H Hb Hf Hn. apply (gscoped gen k s1 s2 (fun r => (r, ns0)) (fun r => (r, ns0)) b1 b2 Hgen H Hb Hf).
    intros ra rb A. cbn [fst snd]. auto.
  Qed.

  Section Step.
    Variable gen : cgstate -> list ast -> res (cgstate * list node).
    Hypothesis Hgen : ggen_resp gen.

    Lemma gfor_loop v b1 b2 : glins b1 b2 -> forallb (afresh z) b2 = true -> forall n k s1 s2, gcgsim s1 s2 ->
      res_rel ggrel (for_loop gen n k v b1 s1) (for_loop gen n k v b2 s2).
    Proof.
      intros Hb Hf. induction n as [|n IH]; intros k s1 s2 H; cbn [for_loop].
      - apply ggrel_same; auto.
      - apply gseq_rel; [apply gscoped_id; auto|]. intros sa sb Hab. apply IH; auto.
    Qed.

    Lemma ggen_one s1 s2 a1 a2 : gcgsim s1 s2 -> gains a1 a2 -> afresh z a2 = true ->
      res_rel ggrel (gen_one w gen s1 a1) (gen_one w gen s2 a2).
    Proof.
      intros H Ha Hf. pose proof H as (Hr & Hm).
      destruct a2; cbn [afresh] in Hf.
      - (* ABlock *) destruct (gains_block _ _ _ Ha) as (b1 & -> & Hb). cbn [gen_one]. apply Hgen; auto.
      - (* ACompound *) destruct (gains_compound _ _ _ Ha) as (b1 & -> & Hb). cbn [gen_one]. apply gscoped_id; auto.
      - (* ALabel *) inversion Ha; subst. apply ggrel_same; auto.
      - (* AText *) inversion Ha; subst. cbn [gen_one]. rewrite (G_get_table _ _ Hr).
        apply res_rel_bind_same; intros t _. apply ggrel_same; auto.
      - (* AAscii *) inversion Ha; subst. apply ggrel_same; auto.
      - (* AScope *) destruct (gains_scope _ _ _ _ _ Ha) as (b1 & -> & Hb). cbn [gen_one]. apply gscoped_id; auto.
      - (* AStarEq *) inversion Ha; subst. apply ggrel_same; auto. unfold nodes_fresh. cbn [forallb node_fresh]. rewrite Hf. reflexivity.
      - (* AAtEq *) inversion Ha; subst. apply ggrel_same; auto. unfold nodes_fresh. cbn [forallb node_fresh]. rewrite Hf. reflexivity.
      - (* AMap *) inversion Ha; subst. cbn [gen_one]. eapply res_rel_bind; [apply G_generate_map; eauto|].
        intros ra rb Hab. apply ggrel_same; auto. apply gcgsim_set_r; auto.
      - (* AIf *) destruct (gains_if _ _ _ _ _ _ Ha) as (th1 & el1 & -> & Hth & Hel). cbn [gen_one].
        apply andb_prop in Hf as [Hf Hfe]. apply andb_prop in Hf as [Hfc Hft].
        rewrite (G_if_condition _ _ c Hfc Hr). apply res_rel_bind_same; intros cond _.
        destruct cond; [apply Hgen; auto|].
        destruct Hel as [|eb1 eb2 efi Heb]; [apply ggrel_same; auto|apply Hgen; auto].
      - (* AMacro *) destruct (gains_macro _ _ _ _ _ _ Ha) as (b1 & -> & Hb). cbn [gen_one res_rel].
        refine (conj _ (conj (mi_nil w z) eq_refl)). cbn [fst].
        refine (conj Hr _). cbn [cg_macros]. apply gmrel_set; auto. repeat split; auto.
      - (* AMacroApply *) destruct (gains_apply _ _ _ _ Ha) as (args1 & -> & Hargs). cbn [gen_one].
        pose proof (gmrel_get _ _ name Hm) as Hg.
        destruct (dict_get (cg_macros s1) name) as [md1|], (dict_get (cg_macros s2) name) as [md2|];
          try contradiction; [|reflexivity].
        destruct Hg as (Hp & Hb & Hbf). rewrite Hp.
        eapply res_rel_bind; [apply (G_eval_macro_args _ _ Hr (md_params md2) args1 args); auto|].
        intros bs1 bs2 Hbs. apply gscoped; auto.
        intros ra rb Hab. apply G_bind_macro_args; auto.
      - (* AData *) inversion Ha; subst. apply ggrel_same; auto. unfold nodes_fresh.
        rewrite forallb_map'. exact Hf.
      - (* ATable *) inversion Ha; subst. cbn [gen_one]. apply res_rel_bind_same; intros t _. apply ggrel_same; auto.
        apply gcgsim_set_r; auto. apply G_set_table; auto.
      - (* AIncludeIps *) inversion Ha; subst. cbn [gen_one]. rewrite (G_eval_raw _ _ e Hf Hr).
        apply res_rel_bind_same; intros delta _. apply res_rel_bind_same; intros blocks _. apply ggrel_same; auto.
      - (* AIncbin *) inversion Ha; subst. cbn [gen_one]. apply res_rel_bind_same; intros c _. apply ggrel_same; auto.
      - (* ASymbol *) inversion Ha; subst. apply ggrel_same; auto. unfold nodes_fresh. cbn [forallb node_fresh]. rewrite Hf. reflexivity.
      - (* AAssign *) inversion Ha; subst. cbn [gen_one]. rewrite (G_eval_raw _ _ e Hf Hr).
        apply res_rel_bind_same; intros v _. apply ggrel_same; auto.
        apply gcgsim_set_r; auto using G_add_symbol.
      - (* ACodeLookup *) inversion Ha; subst. cbn [gen_one].
        assert (Hq : inK z name = false) by (destruct (inK z name); [discriminate|reflexivity]).
        pose proof (G_value_for _ _ name Hq Hr) as Hv.
        destruct (value_for (cg_r s1) name) as [[x|b1 f1]|j|], (value_for (cg_r s2) name) as [[y|b2 f2]|k|];
          cbn [sval_rel] in Hv; try contradiction; cbn [res_rel]; auto.
        destruct Hv as (_ & Hb & Hbf). cbn [fst] in *. apply Hgen; auto.
      - (* AStruct *) inversion Ha; subst. reflexivity.
      - (* AFor *) destruct (gains_for _ _ _ _ _ _ _ Ha) as (b1 & -> & Hb). cbn [gen_one].
        apply andb_prop in Hf as [Hf Hfb]. apply andb_prop in Hf as [Hlo Hhi].
        rewrite (G_eval_raw _ _ lo Hlo Hr), (G_eval_raw _ _ hi Hhi Hr).
        apply res_rel_bind_same; intros from _. apply res_rel_bind_same; intros to _.
        apply gfor_loop; auto.
      - (* AOpcode *) inversion Ha; subst. cbn [gen_one].
        destruct mode; try (apply ggrel_same; auto; fail);
          (destruct operand as [e|]; [apply ggrel_same; auto; unfold nodes_fresh; cbn [forallb node_fresh]; cbn [ofresh] in Hf; rewrite Hf; reflexivity|reflexivity]).
    Qed.

    Lemma ggen_one_def s1 s2 d : is_defa w z d -> gcgsim s1 s2 ->
      exists s1' dn, gen_one w gen s1 d = Ok (s1', dn) /\ gcgsim s1' s2 /\
                     (dn = [] \/ exists n, dn = [n] /\ is_defn w z n).
    Proof.
      intros [(fi & ->)|[(e & fi & k & -> & He)|(e & fi & k & -> & He)]] H; cbn [gen_one].
      - exists s1, [NLabel z]. split; [reflexivity|]. split; [exact H|]. right. eexists; split; [reflexivity|].
        left. left. reflexivity.
      - exists s1, [NSymbol z e false]. split; [reflexivity|]. split; [exact H|]. right. eexists; split; [reflexivity|].
        right. eauto.
      - rewrite (He (cg_r s1)). cbn [bind]. eexists _, []. split; [reflexivity|]. split; [|left; reflexivity].
        destruct H as (Hr & Hm). refine (conj _ Hm). cbn [cg_set_r cg_r]. apply G_add_symbol_l; auto.
    Qed.

    Lemma ggen_list b1 b2 : glins b1 b2 -> forallb (afresh z) b2 = true -> forall s1 s2, gcgsim s1 s2 ->
      res_rel ggrel (gen_list w gen s1 b1) (gen_list w gen s2 b2).
    Proof.
      induction 1 as [|a1 a2 l1 l2 Ha Hl IH|d l1 l2 Hd Hl IH]; intros Hf s1 s2 H; cbn [gen_list].
      - apply ggrel_same; auto.
      - cbn [forallb] in Hf. apply andb_prop in Hf as [Hfa Hfl].
        apply (gseq_rel _ _ (fun s => gen_list w gen s l1) (fun s => gen_list w gen s l2)).
        + apply ggen_one; auto.
        + intros sa sb Hab. apply IH; auto.
      - destruct (ggen_one_def s1 s2 d Hd H) as (s1' & dn & E & Hs & Hdn). rewrite E. cbn [bind fst snd].
        pose proof (IH Hf s1' s2 Hs) as HR.
        destruct (gen_list w gen s1' l1) as [[sa na]| |], (gen_list w gen s2 l2) as [[sb nb]| |];
          cbn [res_rel bind fst snd] in *; auto.
        destruct HR as (A & B & D). cbn [fst snd] in *. refine (conj A (conj _ D)). cbn [fst snd].
        destruct Hdn as [->|(n & -> & Hn)]; [exact B|]. cbn [app]. constructor; assumption.
    Qed.
  End Step.

  Theorem code_gen_gsim fuel : ggen_resp (code_gen_fuel w fuel).
  Proof.
    induction fuel as [|f IH]; intros s1 s2 b1 b2 H Hb Hf; cbn [code_gen_fuel]; [reflexivity|].
    apply ggen_list; auto.
  Qed.

  (** the start state: its own code blocks, related to themselves, must be fresh *)
  Lemma cvrel_self r : code_fresh z r -> cvrel Vins r r.
  Proof.
    intros H. constructor; auto. unfold code_fresh in H.
    induction H as [|s l Hs H IH]; constructor; auto.
    constructor; auto. unfold cdict. induction Hs as [|[k [b fi]] d Hk Hd IHd]; constructor; auto.
    split; [reflexivity|]. unfold Vins. cbn [fst snd]. repeat split; auto using glins_refl.
  Qed.

  Theorem assemble_ast_gins r prog1 prog2 :
    glins prog1 prog2 -> prog_fresh z prog2 = true -> code_fresh z r ->
    res_rel (fun o1 o2 => o_blocks o1 = o_blocks o2 /\ strip z (o_labels o1) = strip z (o_labels o2))
            (assemble_ast w r prog1) (assemble_ast w r prog2).
  Proof.
    intros Hl Hf Hc. unfold assemble_ast.
    eapply res_rel_bind.
    - apply (code_gen_gsim cg_depth); [|exact Hl|exact Hf].
      split; [exists r; split; [apply sim_refl|apply cvrel_self; exact Hc]|constructor].
    - intros [sa na] [sb nb] (((rm & Hr1 & Hr2) & _) & Hn & Hnf). cbn [fst snd] in *.
      pose proof (assemble_nodes_mins w z na nb _ _ Hn Hnf Hr1) as H1.
      pose proof (assemble_nodes_cv w Vins nb _ _ Hr2) as H2.
      pose proof (res_rel_trans _ _ _ _ _ H1 H2) as H3.
      eapply res_rel_impl; [|exact H3].
      intros o1 o3 (o2 & (A1 & B1 & _) & (A2 & B2 & _)). split; congruence.
  Qed.
End GNI.

(** the old relation is an instance *)
Scheme ains_min := Minimality for ains Sort Prop
  with lins_min := Minimality for lins Sort Prop
  with oins_min := Minimality for oins Sort Prop.

Lemma lins_glins w z l1 l2 : lins w z l1 l2 -> glins w z l1 l2.
Proof.
  apply (lins_min w z (gains w z) (glins w z) (goins w z)); intros; constructor; assumption.
Qed.

(** C08, non-interference for programs — definitions of [z] inserted anywhere, code-block arguments
    included. *)
Theorem noninterference_ast_gen w r z prog1 prog2 :
  glins w z prog1 prog2 -> prog_fresh z prog2 = true -> code_fresh z r ->
  match assemble_ast w r prog1, assemble_ast w r prog2 with
  | Ok o1, Ok o2 => o_blocks o1 = o_blocks o2 /\ without z (o_labels o1) = without z (o_labels o2)
  | Err j, Err k => j = k
  | OutOfFuel, OutOfFuel => True
  | _, _ => False
  end.
Proof.
  intros Hl Hf Hc. pose proof (assemble_ast_gins w z r prog1 prog2 Hl Hf Hc) as H.
  destruct (assemble_ast w r prog1), (assemble_ast w r prog2); cbn [res_rel] in H; auto.
Qed.

(** the theorem of Proofs/NonInterferenceAst.v is the instance without insertions in code arguments *)
Corollary noninterference_ast_instance w r z prog1 prog2 :
  lins w z prog1 prog2 -> prog_fresh z prog2 = true -> code_fresh z r ->
  match assemble_ast w r prog1, assemble_ast w r prog2 with
  | Ok o1, Ok o2 => o_blocks o1 = o_blocks o2 /\ without z (o_labels o1) = without z (o_labels o2)
  | Err j, Err k => j = k
  | OutOfFuel, OutOfFuel => True
  | _, _ => False
  end.
Proof. intros H. apply noninterference_ast_gen. apply lins_glins. exact H. Qed.

(** ** Example: an insertion inside a code-block argument *)
Module CVNIExamples.
  Import NonInterference.NIExamples NonInterferenceAst.NIAstExamples.
  Notation p_ := [112].

  (** *=0x8000   .macro m(a, p) { .db a  {{p}} }   m(1, { .db 2 })   c:        and with
      m(1, { z:  z := 1  .db 2 }) *)
  Definition mdef : ast := AMacro m_ [a_; p_] [AData D_db [ident a_] fi; ACodeLookup p_ fi] fi fi.
  Definition prog2 : list ast :=
    [AStarEq num8000 fi; mdef; AMacroApply m_ [inl (num 49); inr ([AData D_db [num 50] fi], fi)] fi; ALabel c_ fi].
  Definition prog1 : list ast :=
    [AStarEq num8000 fi; mdef;
     AMacroApply m_ [inl (num 49); inr ([ALabel z_ fi; AAssign z_ (num 49) fi; AData D_db [num 50] fi], fi)] fi;
     ALabel c_ fi].

  Example prog_gins : glins ex_world z_ prog1 prog2.
  Proof.
    apply gl_cons; [apply ga_same|]. apply gl_cons; [apply ga_same|].
    apply gl_cons; [|apply glins_refl].
    apply ga_apply. apply gr_expr. apply gr_code; [|constructor].
    apply gl_ins; [left; eexists; reflexivity|].
    apply gl_ins; [right; right; exists (num 49), fi, 1; split; [reflexivity|intros r0; reflexivity]|].
    apply glins_refl.
  Qed.

  Example applies :
    match assemble_ast ex_world ex_r0 prog1, assemble_ast ex_world ex_r0 prog2 with
    | Ok o1, Ok o2 => o_blocks o1 = o_blocks o2 /\ without z_ (o_labels o1) = without z_ (o_labels o2)
    | Err j, Err k => j = k
    | OutOfFuel, OutOfFuel => True
    | _, _ => False
    end.
  Proof. apply noninterference_ast_gen; [exact prog_gins|reflexivity|repeat constructor]. Qed.
  Example values :
    view (assemble_ast ex_world ex_r0 prog1) = Ok ([([1; 2], 0)], [(c_, 32770); (z_, 32769)]) /\
    view (assemble_ast ex_world ex_r0 prog2) = Ok ([([1; 2], 0)], [(c_, 32770)]).
  Proof. split; vm_compute; reflexivity. Qed.
End CVNIExamples.

Print Assumptions code_gen_gsim.
Print Assumptions noninterference_ast_gen.
