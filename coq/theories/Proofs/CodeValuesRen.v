(** C08 renaming for programs, without the restriction on code-block arguments.

    The resolver relation is [rsim] (Proofs/Renaming.v) composed with [cvrel]: the renamed run
    stores the RENAMED argument blocks.  Code generation uses a stored block only at a splice, where
    the induction hypothesis applies (the stored block on the right is the renaming of the one on
    the left); the passes are blind to stored blocks. *)
From Coq Require Import ZArith List Lia Bool Arith.
From A816 Require Import Model.Codegen Proofs.BusProofs Proofs.ResolverProofs Proofs.EvalCongr
     Proofs.RenamingExpr Proofs.CodegenProofs Proofs.NonInterference Proofs.Renaming Proofs.RenamingAst
     Proofs.CodeValues Proofs.CodeValuesNI.
Open Scope Z_scope.

Section GRen.
  Variable w : world.
  Variable rho : str -> str.
  Variable D : str -> Prop.
  Hypothesis rho_inj : forall a b, D a -> D b -> rho a = rho b -> a = b.
  Hypothesis D_prefix : forall name k, D k -> D (name ++ dot ++ k).
  Hypothesis rho_prefix : forall name k, rho (name ++ dot ++ k) = name ++ dot ++ rho k.

  Notation re := (rename_expr rho).
  Notation ra := (rename_ast rho).

  (** as [aok] of Proofs/RenamingAst.v, without "code-block arguments are invariant" *)
  Fixpoint aokg (a : ast) : Prop :=
    match a with
    | ABlock b _ | ACompound b _ | AScope _ b _ _ => allP aokg b
    | ALabel name _ | ACodeLookup name _ => D name
    | AStarEq e _ | AAtEq e _ | AIncludeIps _ e _ => expr_ok D e
    | ASymbol name e _ | AAssign name e _ => D name /\ expr_ok D e
    | AIf c th _ el _ =>
        expr_ok D c /\ allP aokg th /\ match el with Some (eb, _) => allP aokg eb | None => True end
    | AMacro _ params b _ _ => allP D params /\ allP aokg b
    | AMacroApply _ args _ =>
        allP (fun x => match x with inl e => expr_ok D e | inr (b, _) => allP aokg b end) args
    | AData _ data _ => allP (expr_ok D) data
    | AFor v lo hi b _ _ => D v /\ expr_ok D lo /\ expr_ok D hi /\ allP aokg b
    | AOpcode _ _ _ operand _ _ => operand_ok D operand
    | AIncbin path _ =>
        D (symbol_base path) /\ D (symbol_base path ++ size_suffix) /\
        rho (symbol_base path) = symbol_base path /\
        rho (symbol_base path ++ size_suffix) = symbol_base path ++ size_suffix
    | _ => True
    end.
  Definition prog_okg (prog : list ast) : Prop := allP aokg prog.
  Definition garg_ok (x : expr + cval) : Prop :=
    match x with inl e => expr_ok D e | inr (b, _) => allP aokg b end.

  (** ** Stored code blocks, resolver states *)
  Definition Vren (c1 c2 : cval) : Prop := c2 = (map ra (fst c1), snd c1) /\ allP aokg (fst c1).
  Definition GR (r1 r2 : rstate) : Prop := exists rm, rsim rho D r1 rm /\ cvrel Vren rm r2.

  Lemma GR_eval_raw r1 r2 e : expr_ok D e -> GR r1 r2 -> eval_raw w r2 (re e) = eval_raw w r1 e.
  Proof.
    intros He (rm & A & B). rewrite <- (eval_raw_cv w Vren rm r2 (re e) B).
    apply (eval_raw_ren rho D rho_inj); auto.
  Qed.
  Lemma GR_if_condition r1 r2 c : expr_ok D c -> GR r1 r2 -> if_condition w r2 (re c) = if_condition w r1 c.
  Proof. intros He H. unfold if_condition. rewrite (GR_eval_raw r1 r2 c He H). reflexivity. Qed.
  Lemma GR_get_table r1 r2 : GR r1 r2 -> get_table r1 = get_table r2.
  Proof. intros (rm & A & B). rewrite (get_table_ren rho D r1 rm A). apply (get_table_cv Vren); auto. Qed.
  Lemma GR_value_for r1 r2 q : D q -> GR r1 r2 -> sval_rel Vren (value_for r1 q) (value_for r2 (rho q)).
  Proof.
    intros Hq (rm & A & B). rewrite <- (value_for_ren rho D rho_inj r1 rm q Hq A). apply value_for_cv; auto.
  Qed.
  Lemma GR_add_symbol r1 r2 n v : D n -> GR r1 r2 -> GR (add_symbol r1 n v) (add_symbol r2 (rho n) v).
  Proof.
    intros Hn (rm & A & B). exists (add_symbol rm (rho n) v).
    split; [apply (rsim_add_symbol rho D rho_inj)|apply cvrel_add_symbol]; auto.
  Qed.
  Lemma GR_add_code r1 r2 q c1 c2 : D q -> Vren c1 c2 -> GR r1 r2 -> GR (add_code r1 q c1) (add_code r2 (rho q) c2).
  Proof.
    intros Hq Hv (rm & A & B). exists (add_code rm (rho q) c1).
    split; [apply (rsim_add_code rho D rho_inj)|apply cvrel_add_code]; auto.
  Qed.
  Lemma GR_set_table r1 r2 t : GR r1 r2 ->
    GR (upd_scope r1 (r_cur r1) (scope_set_table t)) (upd_scope r2 (r_cur r2) (scope_set_table t)).
  Proof.
    intros (rm & A & B). exists (upd_scope rm (r_cur rm) (scope_set_table t)). split; [|apply cvrel_set_table; auto].
    rewrite (rm_cur _ _ _ _ A). apply rsim_upd; auto using rssim_set_table.
  Qed.
  Lemma GR_set_bus r1 r2 b : GR r1 r2 -> GR (set_bus r1 b) (set_bus r2 b).
  Proof. intros (rm & A & B). exists (set_bus rm b). split; [apply rsim_set_bus|apply cvrel_set_bus]; auto. Qed.
  Lemma GR_bus r1 r2 : GR r1 r2 -> r_bus r1 = r_bus r2.
  Proof. intros (rm & A & B). rewrite (rm_bus _ _ _ _ A). apply (cv_bus _ _ _ B). Qed.

  Lemma GR_generate_map r1 r2 a : GR r1 r2 -> res_rel GR (generate_map r1 a) (generate_map r2 a).
  Proof.
    intros H. unfold generate_map. rewrite (GR_bus _ _ H).
    destruct (ma_identifier a) as [id|]; [|reflexivity].
    destruct (ma_bank_range a) as [[lo [hi|]]|]; try reflexivity;
    destruct (ma_addr_range a) as [ar|]; try reflexivity;
    destruct (ma_mask a) as [[mask [mh|]]|]; try reflexivity.
    destruct (ma_mirror_bank_range a) as [[m0 [m1|]]|].
    - apply res_rel_bind_same; intros b _. cbn [res_rel]. apply GR_set_bus, H.
    - destruct (m0 =? 0); [|reflexivity].
      apply res_rel_bind_same; intros b _. cbn [res_rel]. apply GR_set_bus, H.
    - apply res_rel_bind_same; intros b _. cbn [res_rel]. apply GR_set_bus, H.
  Qed.

  Lemma GR_compose (f1 fm f2 : res rstate) :
    res_rel (rsim rho D) f1 fm -> res_rel (cvrel Vren) fm f2 -> res_rel GR f1 f2.
  Proof. destruct f1, fm, f2; cbn [res_rel]; intros H1 H2; try contradiction; auto; [exists a0; auto|congruence]. Qed.
  Lemma GR_enter r1 r2 k : GR r1 r2 -> res_rel GR (enter_scope r1 k) (enter_scope r2 k).
  Proof.
    intros (rm & A & B). apply (GR_compose _ (enter_scope rm k)); [apply enter_scope_ren|apply enter_scope_cv]; auto.
  Qed.
  Lemma GR_restore r1 r2 e : GR r1 r2 -> res_rel GR (restore_scope r1 e) (restore_scope r2 e).
  Proof.
    intros (rm & A & B). apply (GR_compose _ (restore_scope rm e));
      [apply (restore_scope_ren rho D rho_inj D_prefix rho_prefix)|apply restore_scope_cv]; auto.
  Qed.

  (** ** Macro arguments *)
  Definition gargval_rel (v1 v2 : argval) : Prop :=
    match v1, v2 with
    | AVInt x, AVInt y => x = y
    | AVCode b1 f1, AVCode b2 f2 => Vren (b1, f1) (b2, f2)
    | AVDeferred e1, AVDeferred e2 => e2 = re e1 /\ expr_ok D e1
    | _, _ => False
    end.
  Definition gbound_rel (bs1 bs2 : list (str * argval)) : Prop :=
    Forall2 (fun pv1 pv2 => fst pv2 = rho (fst pv1) /\ D (fst pv1) /\ gargval_rel (snd pv1) (snd pv2)) bs1 bs2.

  Lemma GR_eval_macro_args r1 r2 : GR r1 r2 -> forall ps args, allP D ps -> allP garg_ok args ->
    res_rel gbound_rel (eval_macro_args w r1 ps args) (eval_macro_args w r2 (map rho ps) (map (rename_arg rho) args)).
  Proof.
    intros H. induction ps as [|p ps IH]; intros args Hp Ha; cbn [map eval_macro_args]; [constructor|].
    destruct args as [|a rest]; [reflexivity|]. cbn [allP] in Hp, Ha. destruct Hp as [Hp Hps], Ha as [Ha Hr]. cbn [map].
    specialize (IH rest Hps Hr). destruct a as [e|[body fi]]; cbn [rename_arg garg_ok] in *.
    - rewrite (GR_eval_raw r1 r2 e Ha H).
      destruct (eval_raw w r1 e) as [v|[]|]; cbn [bind res_rel]; auto;
        destruct (eval_macro_args w r1 ps rest) as [t1| |], (eval_macro_args w r2 (map rho ps) (map (rename_arg rho) rest)) as [t2| |];
        cbn [res_rel bind] in *; auto; constructor; auto; cbn [fst snd gargval_rel]; auto.
    - cbn [bind].
      destruct (eval_macro_args w r1 ps rest) as [t1| |], (eval_macro_args w r2 (map rho ps) (map (rename_arg rho) rest)) as [t2| |];
        cbn [res_rel bind] in *; auto. constructor; auto. cbn [fst snd gargval_rel]. repeat split; auto.
  Qed.

  Lemma GR_bind_macro_args bs1 bs2 : gbound_rel bs1 bs2 -> forall r1 r2, GR r1 r2 ->
    GR (fst (bind_macro_args r1 bs1)) (fst (bind_macro_args r2 bs2)) /\
    snd (bind_macro_args r2 bs2) = rename_nodes rho (snd (bind_macro_args r1 bs1)) /\
    Forall (node_ok rho D) (snd (bind_macro_args r1 bs1)).
  Proof.
    induction 1 as [|[p1 v1] [p2 v2] bs1 bs2 (Ep & Hp & Hv) Hbs IH]; intros r1 r2 H; cbn [bind_macro_args].
    - split; [exact H|]. split; [reflexivity|constructor].
    - cbn [fst snd] in Ep, Hp, Hv. subst p2.
      destruct v1 as [x|b1 f1|e1], v2 as [y|b2 f2|e2]; cbn [gargval_rel] in Hv; try contradiction.
      + subst y. apply IH. apply GR_add_symbol; auto.
      + apply IH. apply GR_add_code; auto.
      + destruct Hv as [-> He]. destruct (IH r1 r2 H) as (A & B & C').
        destruct (bind_macro_args r1 bs1) as [ra' na], (bind_macro_args r2 bs2) as [rb nb].
        cbn [fst snd] in *. subst nb. refine (conj A (conj eq_refl _)).
        constructor; auto. cbn [node_ok]. auto.
  Qed.

  (** ** Code generation *)
  Definition gmdrel (m1 m2 : macrodef) : Prop :=
    md_params m2 = map rho (md_params m1) /\ md_body m2 = map ra (md_body m1) /\
    allP D (md_params m1) /\ allP aokg (md_body m1).
  Definition gmrel (t1 t2 : dict macrodef) : Prop :=
    Forall2 (fun kv1 kv2 => fst kv1 = fst kv2 /\ gmdrel (snd kv1) (snd kv2)) t1 t2.
  Lemma gmrel_get t1 t2 k : gmrel t1 t2 ->
    match dict_get t1 k, dict_get t2 k with
    | Some a, Some b => gmdrel a b
    | None, None => True
    | _, _ => False
    end.
  Proof.
    induction 1 as [|[k1 m1] [k2 m2] t1 t2 [E Hm] H IH]; cbn [dict_get]; auto.
    cbn [fst snd] in *. subst k2. destruct (str_eqb k k1); auto.
  Qed.
  Lemma gmrel_set t1 t2 k m1 m2 : gmrel t1 t2 -> gmdrel m1 m2 -> gmrel (dict_set t1 k m1) (dict_set t2 k m2).
  Proof.
    intros H Hm. induction H as [|[k1 a1] [k2 a2] t1 t2 [E Ha] H IH]; cbn [dict_set].
    - constructor; [split; auto|constructor].
    - cbn [fst snd] in *. subst k2. destruct (str_eqb k k1); constructor; auto; split; auto.
  Qed.

  Definition gcgren (s1 s2 : cgstate) : Prop := GR (cg_r s1) (cg_r s2) /\ gmrel (cg_macros s1) (cg_macros s2).
  Definition ggrel (x y : cgstate * list node) : Prop :=
    gcgren (fst x) (fst y) /\ snd y = rename_nodes rho (snd x) /\ Forall (node_ok rho D) (snd x).
  Definition ggen_resp (gen : cgstate -> list ast -> res (cgstate * list node)) : Prop :=
    forall s1 s2 b, gcgren s1 s2 -> allP aokg b -> res_rel ggrel (gen s1 b) (gen s2 (map ra b)).

  Lemma ggrel_nodes s1 s2 ns : gcgren s1 s2 -> Forall (node_ok rho D) ns ->
    res_rel ggrel (Ok (s1, ns)) (Ok (s2, rename_nodes rho ns)).
  Proof. intros H Hn. refine (conj H (conj eq_refl Hn)). Qed.
  Lemma gcgren_set_r s1 s2 ra' rb : gcgren s1 s2 -> GR ra' rb -> gcgren (cg_set_r s1 ra') (cg_set_r s2 rb).
  Proof. intros (_ & Hm) Hr. exact (conj Hr Hm). Qed.

  Lemma gseq_rel (A1 A2 : res (cgstate * list node)) (B1 B2 : cgstate -> res (cgstate * list node)) :
    res_rel ggrel A1 A2 -> (forall sa sb, gcgren sa sb -> res_rel ggrel (B1 sa) (B2 sb)) ->
    res_rel ggrel (do x <- A1; do y <- B1 (fst x); Ok (fst y, snd x ++ snd y))
                  (do x <- A2; do y <- B2 (fst x); Ok (fst y, snd x ++ snd y)).
  Proof.
    intros HA HB. eapply res_rel_bind; [exact HA|].
    intros [sa na] [sb nb] (Hs & Hn & Hf). cbn [fst snd] in *. subst nb.
    eapply res_rel_bind; [apply HB; exact Hs|].
    intros [sa' na'] [sb' nb'] (Hs' & Hn' & Hf'). cbn [fst snd] in *. subst nb'. cbn [res_rel].
    refine (conj Hs' (conj _ _)); cbn [fst snd].
    - unfold rename_nodes. rewrite map_app. reflexivity.
    - apply Forall_app. auto.
  Qed.

  Lemma gscoped gen k s1 s2 pre1 pre2 b :
    ggen_resp gen -> gcgren s1 s2 -> allP aokg b ->
    (forall ra' rb, GR ra' rb ->
       GR (fst (pre1 ra')) (fst (pre2 rb)) /\
       snd (pre2 rb) = rename_nodes rho (snd (pre1 ra')) /\ Forall (node_ok rho D) (snd (pre1 ra'))) ->
    res_rel ggrel (scoped gen k s1 pre1 b) (scoped gen k s2 pre2 (map ra b)).
  Proof.
    intros Hgen (Hr & Hm) Hb Hpre. unfold scoped.
    eapply res_rel_bind; [apply GR_enter; exact Hr|]. intros ra' rb HE.
    destruct (Hpre ra' rb HE) as (P1 & P3 & P4).
    destruct (pre1 ra') as [ra2 pn1], (pre2 rb) as [rb2 pn2]. cbn [fst snd] in *. subst pn2.
    eapply res_rel_bind; [apply Hgen; [exact (conj P1 Hm)|exact Hb]|].
    intros [sa na] [sb nb] ((Hr' & Hm') & Hn & Hnf). cbn [fst snd] in *. subst nb.
    eapply res_rel_bind; [apply GR_restore; eauto|].
    intros r3a r3b H3. cbn [res_rel]. refine (conj (conj H3 Hm') (conj _ _)); cbn [fst snd].
    - unfold rename_nodes. cbn [map rename_node]. rewrite !map_app. reflexivity.
    - constructor; [exact I|]. apply Forall_app. split; [exact P4|]. apply Forall_app. split; [exact Hnf|].
      constructor; [exact I|constructor].
  Qed.

  Section Step.
    Variable gen : cgstate -> list ast -> res (cgstate * list node).
    Hypothesis Hgen : ggen_resp gen.

    Lemma gfor_loop v b : D v -> allP aokg b -> forall n k s1 s2, gcgren s1 s2 ->
      res_rel ggrel (for_loop gen n k v b s1) (for_loop gen n k (rho v) (map ra b) s2).
    Proof.
      intros Hv Hb. induction n as [|n IH]; intros k s1 s2 H; cbn [for_loop].
      - apply (ggrel_nodes s1 s2 []); auto.
      - apply gseq_rel; [|intros sa sb Hab; apply IH; exact Hab].
        apply gscoped; auto. intros ra' rb A. cbn [fst snd]. refine (conj A (conj eq_refl _)).
        constructor; [exact Hv|constructor].
    Qed.

    Lemma ggen_one s1 s2 a : gcgren s1 s2 -> aokg a ->
      res_rel ggrel (gen_one w gen s1 a) (gen_one w gen s2 (ra a)).
    Proof.
      intros H Ha. pose proof H as (Hr & Hm).
      destruct a; cbn [aokg] in Ha; cbn [rename_ast gen_one].
      - (* ABlock *) apply Hgen; auto.
      - (* ACompound *) apply gscoped; auto. intros ra' rb A. cbn [fst snd]. refine (conj A (conj eq_refl (Forall_nil _))).
      - (* ALabel *) apply (ggrel_nodes s1 s2 [NLabel name]); auto; try (constructor; [exact Ha|constructor]).
      - (* AText *) rewrite (GR_get_table _ _ Hr). apply res_rel_bind_same; intros t _.
        apply (ggrel_nodes s1 s2 [NText _ fi]); auto; try (constructor; [exact I|constructor]).
      - (* AAscii *) apply (ggrel_nodes s1 s2 [NAscii text]); auto; try (constructor; [exact I|constructor]).
      - (* AScope *) apply gscoped; auto. intros ra' rb A. cbn [fst snd]. refine (conj A (conj eq_refl (Forall_nil _))).
      - (* AStarEq *) apply (ggrel_nodes s1 s2 [NCodePos e fi]); auto; try (constructor; [exact Ha|constructor]).
      - (* AAtEq *) apply (ggrel_nodes s1 s2 [NReloc e fi]); auto; try (constructor; [exact Ha|constructor]).
      - (* AMap *) eapply res_rel_bind; [apply GR_generate_map; eauto|].
        intros ra' rb Hab. apply (ggrel_nodes _ _ []); auto. apply gcgren_set_r; auto.
      - (* AIf *) destruct Ha as (Hcnd & Hth & Hel).
        rewrite (GR_if_condition _ _ c Hcnd Hr). apply res_rel_bind_same; intros cond _.
        destruct cond; [apply Hgen; auto|].
        destruct el as [[eb ebfi]|]; [apply Hgen; auto|apply (ggrel_nodes s1 s2 []); auto].
      - (* AMacro *) destruct Ha as [Hp Hb]. cbn [res_rel].
        refine (conj _ (conj eq_refl (Forall_nil _))). cbn [fst].
        refine (conj Hr _). cbn [cg_macros]. apply gmrel_set; auto. repeat split; auto.
      - (* AMacroApply *)
        pose proof (gmrel_get _ _ name Hm) as Hg.
        destruct (dict_get (cg_macros s1) name) as [md1|], (dict_get (cg_macros s2) name) as [md2|];
          try contradiction; [|reflexivity].
        destruct Hg as (Hp & Hb & Hpd & Hbd). rewrite Hp, Hb.
        change (map (fun x => match x with inl e => inl (re e) | inr (b, bfi) => inr (map ra b, bfi) end) args)
          with (map (rename_arg rho) args).
        eapply res_rel_bind; [apply (GR_eval_macro_args _ _ Hr (md_params md1) args Hpd Ha)|].
        intros bs1 bs2 Hbs. apply gscoped; auto.
        intros ra' rb Hab. apply GR_bind_macro_args; auto.
      - (* AData *) apply (ggrel_nodes s1 s2 (map (fun e => NData k e fi) data)) in H.
        + unfold rename_nodes in H. rewrite map_map in H. rewrite map_map. exact H.
        + apply allP_Forall in Ha. apply Forall_map. eapply Forall_impl; [|exact Ha]. intros e He. exact He.
      - (* ATable *) apply res_rel_bind_same; intros t _. apply (ggrel_nodes _ _ [NTable]); [|constructor; [exact I|constructor]].
        apply gcgren_set_r; auto. apply GR_set_table; auto.
      - (* AIncludeIps *) rewrite (GR_eval_raw _ _ e Ha Hr).
        apply res_rel_bind_same; intros delta _. apply res_rel_bind_same; intros blocks _.
        apply (ggrel_nodes s1 s2 [NIps blocks]); auto; try (constructor; [exact I|constructor]).
      - (* AIncbin *) apply res_rel_bind_same; intros c _.
        apply (ggrel_nodes s1 s2 [NBinary path c]); auto; try (constructor; [exact Ha|constructor]).
      - (* ASymbol *) apply (ggrel_nodes s1 s2 [NSymbol name e false]); auto; try (constructor; [exact Ha|constructor]).
      - (* AAssign *) destruct Ha as [Hn He]. rewrite (GR_eval_raw _ _ e He Hr).
        apply res_rel_bind_same; intros v _. apply (ggrel_nodes _ _ []); auto.
        apply gcgren_set_r; auto using GR_add_symbol.
      - (* ACodeLookup *) pose proof (GR_value_for _ _ name Ha Hr) as Hv.
        destruct (value_for (cg_r s1) name) as [[x|b1 f1]|j|], (value_for (cg_r s2) (rho name)) as [[y|b2 f2]|k|];
          cbn [sval_rel] in Hv; try contradiction; cbn [res_rel]; auto.
        destruct Hv as [E Hb]. cbn [fst snd] in *. inversion E; subst. apply Hgen; auto.
      - (* AStruct *) reflexivity.
      - (* AFor *) destruct Ha as (Hv & Hlo & Hhi & Hb).
        rewrite (GR_eval_raw _ _ lo Hlo Hr), (GR_eval_raw _ _ hi Hhi Hr).
        apply res_rel_bind_same; intros from _. apply res_rel_bind_same; intros to _.
        apply gfor_loop; auto.
      - (* AOpcode *)
        destruct mode;
          try (apply (ggrel_nodes s1 s2 [NOpcode (lower_ascii opcode) _ None None None fi]); auto; try (constructor; [exact I|constructor]));
          (destruct operand as [e|]; cbn [option_map]; [|reflexivity];
           apply (ggrel_nodes s1 s2 [NOpcode (lower_ascii opcode) _ _ (Some e) size fi]); auto; try (constructor; [exact Ha|constructor])).
    Qed.

    Lemma ggen_list b : allP aokg b -> forall s1 s2, gcgren s1 s2 ->
      res_rel ggrel (gen_list w gen s1 b) (gen_list w gen s2 (map ra b)).
    Proof.
      induction b as [|a rest IH]; intros Hb s1 s2 H; cbn [map gen_list].
      - apply (ggrel_nodes s1 s2 []); auto.
      - cbn [allP] in Hb. destruct Hb as [Ha Hr].
        apply (gseq_rel _ _ (fun s => gen_list w gen s rest) (fun s => gen_list w gen s (map ra rest))).
        + apply ggen_one; auto.
        + intros sa sb Hab. apply IH; auto.
    Qed.
  End Step.

  Theorem code_gen_gren fuel : ggen_resp (code_gen_fuel w fuel).
  Proof.
    induction fuel as [|f IH]; intros s1 s2 b H Hb; cbn [code_gen_fuel]; [reflexivity|].
    apply ggen_list; auto.
  Qed.

  (** the code blocks of the START state are not renamed: they must be invariant *)
  Definition start_code_ok (r : rstate) : Prop :=
    Forall (fun s => Forall (fun kv => map ra (fst (snd kv)) = fst (snd kv) /\ allP aokg (fst (snd kv))) (s_code s))
           (r_scopes r).
  Lemma cvrel_start r : start_code_ok r -> cvrel Vren r r.
  Proof.
    intros H. constructor; auto. unfold start_code_ok in H.
    induction H as [|s l Hs H IH]; constructor; auto.
    constructor; auto. unfold cdict. induction Hs as [|[k [b fi]] d [Hk1 Hk2] Hd IHd]; constructor; auto.
    split; [reflexivity|]. unfold Vren. cbn [fst snd] in *. rewrite Hk1. auto.
  Qed.

  Theorem assemble_ast_gren r1 r2 prog :
    prog_okg prog -> rsim rho D r1 r2 -> start_code_ok r2 ->
    res_rel (fun o1 o2 => o_blocks o1 = o_blocks o2 /\ o_labels o2 = map_keys rho (o_labels o1))
            (assemble_ast w r1 prog) (assemble_ast w r2 (rename_prog rho prog)).
  Proof.
    intros Hp Hr Hc. unfold assemble_ast, rename_prog.
    eapply res_rel_bind.
    - apply (code_gen_gren cg_depth); [|exact Hp].
      split; [exists r2; split; [exact Hr|apply cvrel_start; exact Hc]|constructor].
    - intros [sa na] [sb nb] (((rm & Hr1 & Hr2) & _) & Hn & Hnf). cbn [fst snd] in *. subst nb.
      pose proof (assemble_nodes_ren rho D rho_inj D_prefix rho_prefix w na _ _ Hnf Hr1) as H1.
      pose proof (assemble_nodes_cv w Vren (rename_nodes rho na) _ _ Hr2) as H2.
      pose proof (res_rel_trans _ _ _ _ _ H1 H2) as H3.
      eapply res_rel_impl; [|exact H3].
      intros o1 o3 (o2 & (A1 & B1 & _) & (A2 & B2 & _)). split; congruence.
  Qed.
End GRen.

(** C08, renaming for programs — z |-> z' (and p.z |-> p.z') throughout, code-block arguments
    included.  What remains about code blocks: the blocks already bound in the START state are not
    renamed, so they must be invariant ([start_code_ok]; vacuous for a state without code symbols). *)
Theorem renaming_ast_gen w r z z' prog :
  nodot z = true -> nodot z' = true ->
  prog_okg (ren z z') (inD z') prog ->
  state_untouched z z' r = true -> start_code_ok (ren z z') (inD z') r ->
  match assemble_ast w r prog, assemble_ast w r (rename_prog (ren z z') prog) with
  | Ok o1, Ok o2 => o_blocks o2 = o_blocks o1 /\ o_labels o2 = map_keys (ren z z') (o_labels o1)
  | Err j, Err k => j = k
  | OutOfFuel, OutOfFuel => True
  | _, _ => False
  end.
Proof.
  intros Hz Hz' Hp Hr Hc. apply nodot_spec in Hz. apply nodot_spec in Hz'.
  pose proof (assemble_ast_gren w (ren z z') (inD z') (ren_inj z z') (inD_prefix z' Hz') (ren_prefix z z' Hz)
                r r prog Hp (rsim_refl _ _ r (state_untouched_spec z z' r Hr)) Hc) as H.
  destruct (assemble_ast w r prog), (assemble_ast w r (rename_prog (ren z z') prog)); cbn [res_rel] in H; auto.
  destruct H as (A & B). auto.
Qed.

(** ** Example: the renamed name occurs inside a code-block argument *)
Module CVRenExamples.
  Import NonInterference.NIExamples RenamingAst.RenAstExamples.
  Notation a_ := [97]. Notation p_ := [112].

  (** *=0x8000   x := 7   .macro m(a, p) { .db a  {{p}} }   m(1, { .db x })   x: *)
  Definition prog : list ast :=
    [AStarEq num8000 fi; AAssign x (num 55) fi;
     AMacro m_ [a_; p_] [AData D_db [ident a_] fi; ACodeLookup p_ fi] fi fi;
     AMacroApply m_ [inl (num 49); inr ([AData D_db [ident x] fi], fi)] fi].
  Example renamed :
    rename_prog (ren x y) prog =
    [AStarEq num8000 fi; AAssign y (num 55) fi;
     AMacro m_ [a_; p_] [AData D_db [ident a_] fi; ACodeLookup p_ fi] fi fi;
     AMacroApply m_ [inl (num 49); inr ([AData D_db [ident y] fi], fi)] fi].
  Proof. reflexivity. Qed.

  Example prog_is_okg : prog_okg (ren x y) (inD y) prog.
  Proof. unfold prog_okg, prog. cbn [allP aokg]. ok_tac. Qed.
  Example r0_start : start_code_ok (ren x y) (inD y) ex_r0.
  Proof. repeat constructor. Qed.

  Example applies :
    match assemble_ast ex_world ex_r0 prog, assemble_ast ex_world ex_r0 (rename_prog (ren x y) prog) with
    | Ok o1, Ok o2 => o_blocks o2 = o_blocks o1 /\ o_labels o2 = map_keys (ren x y) (o_labels o1)
    | Err j, Err k => j = k
    | OutOfFuel, OutOfFuel => True
    | _, _ => False
    end.
  Proof. apply renaming_ast_gen; [reflexivity|reflexivity|exact prog_is_okg|reflexivity|exact r0_start]. Qed.
  Example values :
    view (assemble_ast ex_world ex_r0 prog) = Ok ([([1; 7], 0)], []) /\
    view (assemble_ast ex_world ex_r0 (rename_prog (ren x y) prog)) = Ok ([([1; 7], 0)], []).
  Proof. split; vm_compute; reflexivity. Qed.
End CVRenExamples.

Print Assumptions code_gen_gren.
Print Assumptions renaming_ast_gen.
