(** C09 / C10 — code generation: conditionals, loops and macro applications equal the
    hand-expanded statements. *)
From Coq Require Import ZArith List Lia Bool Arith.
From A816 Require Import Model.Codegen.
Open Scope Z_scope.

Section G.
  Variable w : world.
  Variable gen : cgstate -> list ast -> res (cgstate * list node).

  Lemma gen_list_app a : forall s b,
    gen_list w gen s (a ++ b) =
    (do x <- gen_list w gen s a; do y <- gen_list w gen (fst x) b; Ok (fst y, snd x ++ snd y)).
  Proof.
    induction a as [|st a IH]; intros s b; cbn [app gen_list].
    - cbn [bind fst snd]. destruct (gen_list w gen s b) as [[s' ns]| |]; reflexivity.
    - destruct (gen_one w gen s st) as [[s1 n1]| |]; cbn [bind fst snd]; try reflexivity.
      rewrite IH.
      destruct (gen_list w gen s1 a) as [[s2 n2]| |]; cbn [bind fst snd]; try reflexivity.
      destruct (gen_list w gen s2 b) as [[s3 n3]| |]; cbn [bind fst snd]; try reflexivity.
      rewrite app_assoc. reflexivity.
  Qed.

  (** *** C10: .if *)
  Theorem if_true s c th thfi el fi fi' :
    if_condition w (cg_r s) c = Ok true ->
    gen_one w gen s (AIf c th thfi el fi) = gen_one w gen s (ABlock th fi').
  Proof. intros H. cbn [gen_one]. rewrite H. reflexivity. Qed.

  Theorem if_false_else s c th thfi eb ebfi fi fi' :
    if_condition w (cg_r s) c = Ok false ->
    gen_one w gen s (AIf c th thfi (Some (eb, ebfi)) fi) = gen_one w gen s (ABlock eb fi').
  Proof. intros H. cbn [gen_one]. rewrite H. reflexivity. Qed.

  Theorem if_false_nothing s c th thfi fi :
    if_condition w (cg_r s) c = Ok false ->
    gen_one w gen s (AIf c th thfi None fi) = Ok (s, []).
  Proof. intros H. cbn [gen_one]. rewrite H. reflexivity. Qed.

  (** The condition is the truth value of the expression; an undefined name (or an operator the
      evaluator does not know) counts as false; any non-zero value, negative included, as true. *)
  Theorem if_condition_spec r c :
    if_condition w r c =
    match eval_raw w r c with
    | Ok v => Ok (negb (v =? 0))
    | Err ESymbol => Ok false
    | Err k => Err k
    | OutOfFuel => OutOfFuel
    end.
  Proof. unfold if_condition. destruct (eval_raw w r c) as [v|k|]; try reflexivity; destruct k; reflexivity. Qed.

  (** *** C10: .for *)
  Theorem for_empty s v lo hi b bfi fi from to :
    eval_raw w (cg_r s) lo = Ok from -> eval_raw w (cg_r s) hi = Ok to -> to <= from ->
    gen_one w gen s (AFor v lo hi b bfi fi) = Ok (s, []).
  Proof.
    intros H1 H2 Hle. cbn [gen_one]. rewrite H1, H2. cbn [bind].
    replace (Z.to_nat (to - from)) with O by lia. reflexivity.
  Qed.

  (** One iteration: the body in its own (internal) scope with the variable bound to [k]. *)
  Definition iteration (s : cgstate) (v : str) (k : Z) (b : list ast) : res (cgstate * list node) :=
    scoped gen SInternal s (fun r => (r, [NSymConst v k])) b.

  (** The iterations for k = from, from+1, ..., in that order. *)
  Fixpoint iterations (s : cgstate) (v : str) (ks : list Z) (b : list ast) : res (cgstate * list node) :=
    match ks with
    | [] => Ok (s, [])
    | k :: rest =>
        do x <- iteration s v k b;
        do y <- iterations (fst x) v rest b;
        Ok (fst y, snd x ++ snd y)
    end.

  Fixpoint zrange (from : Z) (n : nat) : list Z :=
    match n with O => [] | S n' => from :: zrange (from + 1) n' end.

  Lemma for_loop_iterations n : forall k v b s,
    for_loop gen n k v b s = iterations s v (zrange k n) b.
  Proof.
    induction n as [|n IH]; intros k v b s; cbn [for_loop zrange iterations]; [reflexivity|].
    unfold iteration. destruct (scoped _ _ _ _ _) as [[s1 n1]| |]; cbn [bind fst snd]; try reflexivity.
    rewrite IH. reflexivity.
  Qed.

  Theorem for_unrolled s v lo hi b bfi fi from to :
    eval_raw w (cg_r s) lo = Ok from -> eval_raw w (cg_r s) hi = Ok to ->
    gen_one w gen s (AFor v lo hi b bfi fi) = iterations s v (zrange from (Z.to_nat (to - from))) b.
  Proof. intros H1 H2. cbn [gen_one]. rewrite H1, H2. cbn [bind]. apply for_loop_iterations. Qed.

  Lemma zrange_spec from n : zrange from n = map (fun i => from + Z.of_nat i) (seq 0 n).
  Proof.
    revert from; induction n as [|n IH]; intros from; [reflexivity|].
    cbn [zrange seq map]. f_equal; [lia|]. rewrite IH, <- seq_shift, map_map.
    apply map_ext. intros i. lia.
  Qed.

  Lemma zrange_bounds from n k : In k (zrange from n) <-> from <= k < from + Z.of_nat n.
  Proof.
    rewrite zrange_spec, in_map_iff. split.
    - intros (i & <- & Hi). apply in_seq in Hi. lia.
    - intros H. exists (Z.to_nat (k - from)). split; [lia|]. apply in_seq. lia.
  Qed.
End G.

(** *** C09: a macro application is its body in a fresh block with the parameters bound *)

(** All arguments are plain values (no code block, nothing deferred). *)
Fixpoint int_values (bound : list (str * argval)) : option (list (str * Z)) :=
  match bound with
  | [] => Some []
  | (p, AVInt v) :: rest => match int_values rest with Some l => Some ((p, v) :: l) | None => None end
  | _ => None
  end.

Fixpoint assigns (pvs : list (str * Z)) (lits : list expr) (fi : token) : list ast :=
  match pvs, lits with
  | (p, _) :: pvs', e :: lits' => AAssign p e fi :: assigns pvs' lits' fi
  | _, _ => []
  end.

(** [lits] denote the argument values whatever the scope (e.g. numerals). *)
Fixpoint closed_literals (w : world) (pvs : list (str * Z)) (lits : list expr) : Prop :=
  match pvs, lits with
  | [], [] => True
  | (_, v) :: pvs', e :: lits' => (forall r, eval_raw w r e = Ok v) /\ closed_literals w pvs' lits'
  | _, _ => False
  end.

Lemma bind_int_values bound : forall pvs r,
  int_values bound = Some pvs ->
  bind_macro_args r bound = (fold_left (fun r pv => add_symbol r (fst pv) (snd pv)) pvs r, []).
Proof.
  induction bound as [|[p v] bound IH]; intros pvs r H; cbn [int_values] in H.
  - inversion H. reflexivity.
  - destruct v; try discriminate.
    destruct (int_values bound) as [l|] eqn:E; [|discriminate]. inversion H; subst.
    cbn [bind_macro_args fold_left fst snd]. apply IH. reflexivity.
Qed.

Lemma gen_assigns w gen : forall pvs lits fi s,
  closed_literals w pvs lits ->
  gen_list w gen s (assigns pvs lits fi) =
  Ok (cg_set_r s (fold_left (fun r pv => add_symbol r (fst pv) (snd pv)) pvs (cg_r s)), []).
Proof.
  induction pvs as [|[p v] pvs IH]; intros lits fi s H; destruct lits as [|e lits]; cbn [closed_literals] in H; try contradiction.
  - cbn. destruct s; reflexivity.
  - destruct H as [He Hrest]. cbn [assigns gen_list gen_one]. rewrite He. cbn [bind fst snd].
    rewrite IH by assumption. cbn [bind fst snd cg_set_r cg_r fold_left app]. reflexivity.
Qed.

(** Applying a macro whose arguments all evaluate at the call site produces exactly what the block
    [{ p1 := v1 ... pn := vn  body }] produces there (same nodes, same resolver state). *)
Theorem macro_application_inlined w f s name args fi fi' fi'' md bound pvs lits :
  dict_get (cg_macros s) name = Some md ->
  eval_macro_args w (cg_r s) (md_params md) args = Ok bound ->
  int_values bound = Some pvs ->
  closed_literals w pvs lits ->
  gen_one w (code_gen_fuel w (S f)) s (AMacroApply name args fi) =
  gen_one w (code_gen_fuel w (S f)) s (ACompound (assigns pvs lits fi'' ++ md_body md) fi').
Proof.
  intros Hmd Hargs Hint Hlits. cbn [gen_one]. rewrite Hmd, Hargs. cbn [bind].
  unfold scoped. destruct (enter_scope (cg_r s) SPlain) as [r1| |]; cbn [bind]; try reflexivity.
  rewrite (bind_int_values _ _ _ Hint).
  cbn [code_gen_fuel]. rewrite gen_list_app.
  rewrite (gen_assigns w _ pvs lits fi'' (cg_set_r s r1) Hlits). cbn [bind fst snd cg_set_r cg_r].
  destruct (gen_list w (code_gen_fuel w f) _ (md_body md)) as [[s2 n2]| |]; cbn [bind fst snd app]; reflexivity.
Qed.

(** Undefined macro / too few arguments fail. *)
Theorem macro_undefined w gen s name args fi :
  dict_get (cg_macros s) name = None -> gen_one w gen s (AMacroApply name args fi) = Err EKey.
Proof. intros H. cbn [gen_one]. rewrite H. reflexivity. Qed.

Lemma eval_macro_args_too_few w r : forall params args,
  (length args < length params)%nat -> is_ok (eval_macro_args w r params args) = false.
Proof.
  induction params as [|p ps IH]; intros args H; [cbn in H; lia|].
  destruct args as [|a rest]; cbn [eval_macro_args]; [reflexivity|].
  match goal with |- context [bind ?X _] => destruct X; cbn [bind]; try reflexivity end.
  cbn in H. specialize (IH rest ltac:(lia)).
  destruct (eval_macro_args w r ps rest); cbn [bind is_ok] in *; congruence.
Qed.

Theorem macro_too_few_arguments w gen s name args fi md :
  dict_get (cg_macros s) name = Some md -> (length args < length (md_params md))%nat ->
  is_ok (gen_one w gen s (AMacroApply name args fi)) = false.
Proof.
  intros Hmd Hlen. cbn [gen_one]. rewrite Hmd.
  pose proof (eval_macro_args_too_few w (cg_r s) _ _ Hlen) as H.
  destruct (eval_macro_args w (cg_r s) (md_params md) args); cbn [bind is_ok] in *; congruence.
Qed.
