(** C04 on bank SUB-INTERVALS — the advance laws without the hypothesis that a mapping owns every
    bank of its range.

    [covers b m] (Proofs/BusProofs.v) asks that EVERY bank of [m]'s range is looked up as [m].  On
    the built-in HiROM bus the ROM mapping "1" has the range 0x40-0x7F but the banks 0x7E/0x7F were
    assigned afterwards to the RAM mapping "2", so [covers hirom m1] is false ([hirom_not_covers])
    and [bus_advance] / [bus_add_0] / [bus_add_add] say nothing about HiROM banks 0x40-0x7D.

    Here: [covers_sub b m lo hi] = the banks lo..hi are owned by [m]; the same three laws for
    advances that start and end inside lo..hi (the old theorems are the instance lo, hi = the whole
    range: [bus_advance_of_sub] ...); what the code does when an advance LEAVES the owned banks
    ([bus_advance_any]: the arithmetic is done with the source mapping, the result is accepted iff
    its bank is mapped by anything); a boolean test with soundness, evaluated on the spec HiROM bus
    and transferable to the live bus through [bus_agree_b]; HiROM examples. *)
From Coq Require Import ZArith Lia Bool ZifyBool List.
From A816 Require Import Spec.BusLaws Proofs.BitLemmas Proofs.BusProofs.
Open Scope Z_scope.
Ltac Zify.zify_post_hook ::= Z.to_euclidean_division_equations.

(** the banks lo..hi are looked up as [m] *)
Definition covers_sub (b : bus) (m : mapping) (lo hi : Z) : Prop :=
  forall bank, lo <= bank <= hi -> bus_mapping_for_bank b bank = Ok m.

Lemma covers_is_sub b m : covers b m <-> covers_sub b m (m_first m) (m_last m).
Proof. split; intros H; exact H. Qed.

Lemma covers_sub_narrow b m lo hi lo' hi' : covers_sub b m lo hi -> lo <= lo' -> hi' <= hi -> covers_sub b m lo' hi'.
Proof. intros H H1 H2 bank Hb. apply H. lia. Qed.

(** Advancing by n inside the owned banks: the address whose offset is n larger, in-window, still
    inside lo..hi.  The range condition says exactly that the bank of the new offset,
    [(offset + n) / mask + first], lies in lo..hi. *)
Theorem bus_advance_sub b a n m lo hi :
  covers_sub b m lo hi -> mask_ok m -> m_writable m = false -> in_window m a ->
  lo <= bank_of a <= hi ->
  (lo - m_first m) * m_mask m <= spec_offset m a + n < (hi - m_first m + 1) * m_mask m ->
  let a' := spec_address m (spec_offset m a + n) in
  addr_add b a n = Ok a' /\
  addr_physical b a' = Ok (Some (spec_offset m a + n)) /\
  in_window m a' /\ lo <= bank_of a' <= hi.
Proof.
  intros Hc Hm Hw Hin Hb Hr a'.
  destruct (spec_address_props m (spec_offset m a + n) Hm) as (Hbank & Hwin & Hoff).
  fold a' in Hbank, Hwin, Hoff.
  assert (Hb' : lo <= bank_of a' <= hi).
  { rewrite Hbank. destruct Hm as [E|E]; rewrite E in *; lia. }
  repeat split; try assumption; try lia.
  - unfold addr_add. rewrite bank_shiftr, (Hc _ Hb). cbn [bind].
    rewrite physical_rom by assumption. rewrite logical_spec by assumption. cbn [bind].
    fold a'. unfold get_address. rewrite bank_shiftr, (Hc _ Hb'). reflexivity.
  - rewrite (bus_physical b a' m); [rewrite Hoff; reflexivity|apply Hc; assumption|assumption..].
Qed.

Lemma sub_offset_range m a lo hi : mask_ok m -> in_window m a -> lo <= bank_of a <= hi ->
  (lo - m_first m) * m_mask m <= spec_offset m a < (hi - m_first m + 1) * m_mask m.
Proof.
  intros Hm Hin Hb. pose proof (spec_offset_range m a Hm Hin). destruct Hm as [E|E]; rewrite E in *; lia.
Qed.

Theorem bus_add_0_sub b a m lo hi :
  covers_sub b m lo hi -> mask_ok m -> m_writable m = false -> in_window m a ->
  lo <= bank_of a <= hi -> addr_add b a 0 = Ok a.
Proof.
  intros Hc Hm Hw Hin Hb.
  assert (Hr : (lo - m_first m) * m_mask m <= spec_offset m a + 0 < (hi - m_first m + 1) * m_mask m)
    by (rewrite Z.add_0_r; apply sub_offset_range; assumption).
  destruct (bus_advance_sub b a 0 m lo hi Hc Hm Hw Hin Hb Hr) as (H & _).
  rewrite H, Z.add_0_r, spec_address_offset by assumption. reflexivity.
Qed.

Theorem bus_add_add_sub b a n1 n2 m lo hi a1 :
  covers_sub b m lo hi -> mask_ok m -> m_writable m = false -> in_window m a ->
  lo <= bank_of a <= hi ->
  (lo - m_first m) * m_mask m <= spec_offset m a + n1 < (hi - m_first m + 1) * m_mask m ->
  (lo - m_first m) * m_mask m <= spec_offset m a + (n1 + n2) < (hi - m_first m + 1) * m_mask m ->
  addr_add b a n1 = Ok a1 -> addr_add b a1 n2 = addr_add b a (n1 + n2).
Proof.
  intros Hc Hm Hw Hin Hb Hr1 Hr12 H1.
  destruct (bus_advance_sub b a n1 m lo hi Hc Hm Hw Hin Hb Hr1) as (E1 & P1 & W1 & B1).
  rewrite E1 in H1. injection H1 as <-.
  destruct (spec_address_props m (spec_offset m a + n1) Hm) as (_ & _ & Hoff).
  set (a1 := spec_address m (spec_offset m a + n1)) in *.
  assert (Hr2 : (lo - m_first m) * m_mask m <= spec_offset m a1 + n2 < (hi - m_first m + 1) * m_mask m)
    by (rewrite Hoff; lia).
  destruct (bus_advance_sub b a1 n2 m lo hi Hc Hm Hw W1 B1 Hr2) as (E2 & _).
  destruct (bus_advance_sub b a (n1 + n2) m lo hi Hc Hm Hw Hin Hb Hr12) as (E12 & _).
  rewrite E2, E12, Hoff. f_equal. f_equal. lia.
Qed.

(** the old statements are the instance "the whole range" *)
Corollary bus_advance_of_sub b a n m :
  covers b m -> mask_ok m -> m_writable m = false -> in_window m a ->
  m_first m <= bank_of a <= m_last m ->
  0 <= spec_offset m a + n < (m_last m - m_first m + 1) * m_mask m ->
  let a' := spec_address m (spec_offset m a + n) in
  addr_add b a n = Ok a' /\ addr_physical b a' = Ok (Some (spec_offset m a + n)) /\
  in_window m a' /\ m_first m <= bank_of a' <= m_last m.
Proof.
  intros Hc Hm Hw Hin Hb Hr.
  apply (bus_advance_sub b a n m (m_first m) (m_last m)); try assumption. lia.
Qed.

(** What [Address.__add__] does in general: the offset arithmetic uses the mapping of the SOURCE
    address only; the new address is accepted as soon as its bank is mapped by anything. *)
Theorem bus_advance_any b a n m :
  bus_mapping_for_bank b (bank_of a) = Ok m -> mask_ok m -> m_writable m = false -> in_window m a ->
  addr_add b a n = get_address b (spec_address m (spec_offset m a + n)).
Proof.
  intros Hl Hm Hw Hin. unfold addr_add. rewrite bank_shiftr, Hl. cbn [bind].
  rewrite physical_rom by assumption. rewrite logical_spec by assumption. reflexivity.
Qed.

(** ... so an advance that ends in a bank owned by ANOTHER mapping succeeds, and the result has
    the offset that other mapping gives it (none, if it is RAM) — not "offset + n". *)
Theorem bus_advance_leaves b a n m m' :
  bus_mapping_for_bank b (bank_of a) = Ok m -> mask_ok m -> m_writable m = false -> in_window m a ->
  let a' := spec_address m (spec_offset m a + n) in
  bus_mapping_for_bank b (bank_of a') = Ok m' ->
  addr_add b a n = Ok a' /\ (m_writable m' = true -> addr_physical b a' = Ok None).
Proof.
  intros Hl Hm Hw Hin a' Hl'. split.
  - rewrite (bus_advance_any b a n m Hl Hm Hw Hin). fold a'. unfold get_address. rewrite bank_shiftr, Hl'. reflexivity.
  - intros Hw'. apply (bus_ram b a' m' Hl' Hw').
Qed.

(** ** A boolean test *)
Definition covers_sub_b (b : bus) (m : mapping) (lo hi : Z) : bool :=
  forallb (fun k => res_mapping_eqb (bus_mapping_for_bank b (lo + Z.of_nat k)) (Ok m))
          (seq 0 (Z.to_nat (hi - lo + 1))).

Theorem covers_sub_b_sound b m lo hi : covers_sub_b b m lo hi = true -> covers_sub b m lo hi.
Proof.
  unfold covers_sub_b. intros H bank Hb. rewrite forallb_forall in H.
  specialize (H (Z.to_nat (bank - lo))). replace (lo + Z.of_nat (Z.to_nat (bank - lo))) with bank in H by lia.
  apply res_mapping_eqb_eq. apply H. apply in_seq. lia.
Qed.

(** transfer to a bus that agrees bank by bank (the live bus of a run) *)
Theorem agree_covers_sub b b0 m lo hi : bus_agree_b b b0 = true -> covers_sub b0 m lo hi -> covers_sub b m lo hi.
Proof. intros Hag H bank Hb. rewrite (bus_agree_sound _ _ Hag). apply H. exact Hb. Qed.

(** ** The built-in HiROM bus *)
Definition m_hi : mapping := {| m_first := 64; m_last := 127; m_mask := 65536; m_writable := false |}.
Definition m_hi_mirror : mapping := {| m_first := 192; m_last := 255; m_mask := 65536; m_writable := false |}.
Definition m_ram : mapping := {| m_first := 126; m_last := 127; m_mask := 65536; m_writable := true |}.

(** banks 0x40-0x7D are ROM "1"; the mirror 0xC0-0xFF is owned entirely; 0x7E/0x7F are RAM *)
Theorem hirom_covers_sub : covers_sub hirom m_hi 64 125.
Proof. apply covers_sub_b_sound. vm_compute. reflexivity. Qed.
Theorem hirom_covers_mirror : covers hirom m_hi_mirror.
Proof. apply covers_is_sub. apply covers_sub_b_sound. vm_compute. reflexivity. Qed.
Theorem hirom_covers_ram : covers hirom m_ram.
Proof. apply covers_is_sub. apply covers_sub_b_sound. vm_compute. reflexivity. Qed.
(** the hypothesis of the old theorems fails for the HiROM ROM mapping *)
Theorem hirom_not_covers : ~ covers hirom m_hi.
Proof.
  intros H. assert (Hb : m_first m_hi <= 126 <= m_last m_hi) by (vm_compute; split; discriminate).
  specialize (H 126 Hb). vm_compute in H. discriminate.
Qed.
(** (on LoROM the RAM banks lie outside both ROM ranges: nothing is shadowed) *)
Theorem lorom_covers_sub_whole :
  covers lorom {| m_first := 0; m_last := 111; m_mask := 32768; m_writable := false |} /\
  covers lorom {| m_first := 128; m_last := 207; m_mask := 32768; m_writable := false |}.
Proof. split; apply covers_is_sub; apply covers_sub_b_sound; vm_compute; reflexivity. Qed.

(** the live HiROM bus of a run: [bus_agree_b live hirom = true] is evaluated per run *)
Theorem live_hirom_covers_sub b : bus_agree_b b hirom = true ->
  covers_sub b m_hi 64 125 /\ covers_sub b m_hi_mirror 192 255.
Proof.
  intros H. split; [exact (agree_covers_sub _ _ _ _ _ H hirom_covers_sub)|].
  exact (agree_covers_sub _ _ _ _ _ H (proj1 (covers_is_sub _ _) hirom_covers_mirror)).
Qed.

(** the advance law on HiROM, hypotheses discharged: any advance from a bank 0x40-0x7D that stays
    in 0x40-0x7D, and any advance inside the mirror 0xC0-0xFF *)
Lemma in_window_64k m a : m_mask m = 65536 -> in_window m a.
Proof. intros E. unfold in_window, window_start. rewrite E. lia. Qed.

Theorem hirom_advance a n :
  64 <= bank_of a <= 125 -> 0 <= spec_offset m_hi a + n < 62 * 65536 ->
  let a' := spec_address m_hi (spec_offset m_hi a + n) in
  addr_add hirom a n = Ok a' /\ addr_physical hirom a' = Ok (Some (spec_offset m_hi a + n)) /\
  64 <= bank_of a' <= 125.
Proof.
  intros Hb Hr.
  assert (Hr' : (64 - m_first m_hi) * m_mask m_hi <= spec_offset m_hi a + n < (125 - m_first m_hi + 1) * m_mask m_hi).
  { change (m_mask m_hi) with 65536. change (m_first m_hi) with 64.
    revert Hr. generalize (spec_offset m_hi a). intros z Hr. lia. }
  destruct (bus_advance_sub hirom a n m_hi 64 125 hirom_covers_sub (or_intror eq_refl) eq_refl
              (in_window_64k m_hi a eq_refl) Hb Hr') as (H1 & H2 & _ & H4).
  exact (conj H1 (conj H2 H4)).
Qed.
Theorem hirom_advance_mirror a n :
  192 <= bank_of a <= 255 -> 0 <= spec_offset m_hi_mirror a + n < 64 * 65536 ->
  let a' := spec_address m_hi_mirror (spec_offset m_hi_mirror a + n) in
  addr_add hirom a n = Ok a' /\ addr_physical hirom a' = Ok (Some (spec_offset m_hi_mirror a + n)) /\
  192 <= bank_of a' <= 255.
Proof.
  intros Hb Hr.
  destruct (bus_advance hirom a n m_hi_mirror hirom_covers_mirror (or_intror eq_refl) eq_refl
              (in_window_64k m_hi_mirror a eq_refl) Hb Hr) as (H1 & H2 & _ & H4).
  exact (conj H1 (conj H2 H4)).
Qed.

(** ** Non-vacuity on HiROM *)
(** inside bank 0x41: 0x410010 + 0x20 = 0x410030 (offset 0x10010 -> 0x10030) *)
Example hirom_inside_bank :
  64 <= bank_of 4259856 <= 125 /\ 0 <= spec_offset m_hi 4259856 + 32 < 62 * 65536 /\
  spec_offset m_hi 4259856 = 65552 /\
  addr_add hirom 4259856 32 = Ok 4259888 /\ addr_physical hirom 4259888 = Ok (Some 65584).
Proof. vm_compute. repeat split; congruence. Qed.
(** crossing 0x41 -> 0x42: 0x41FFF0 + 0x20 = 0x420010 (offset 0x1FFF0 -> 0x20010) *)
Example hirom_crossing_bank :
  64 <= bank_of 4325360 <= 125 /\ 0 <= spec_offset m_hi 4325360 + 32 < 62 * 65536 /\
  addr_add hirom 4325360 32 = Ok 4325392 /\ addr_physical hirom 4325392 = Ok (Some 131088) /\
  spec_address m_hi (spec_offset m_hi 4325360 + 32) = 4325392.
Proof. vm_compute. repeat split; congruence. Qed.
(** 0x7DFFFF + 1: the last ROM byte below the RAM banks.  The range condition of the law FAILS
    (offset 0x3DFFFF + 1 = 62 * 65536), and the code does not reject: it returns 0x7E0000, a RAM
    address without file offset — although the ROM byte with offset 0x3E0000 exists (at 0xFE0000,
    where the same advance through the mirror arrives). *)
Example hirom_into_ram :
  spec_offset m_hi 8257535 + 1 = 62 * 65536 /\
  bus_mapping_for_bank hirom (bank_of 8257536) = Ok m_ram /\
  addr_add hirom 8257535 1 = Ok 8257536 /\ addr_physical hirom 8257536 = Ok None /\
  addr_add hirom 16646143 1 = Ok 16646144 /\ addr_physical hirom 16646144 = Ok (Some 4063232).
Proof. vm_compute. repeat split; reflexivity. Qed.
(** the general theorem behind the first half of that example *)
Example hirom_into_ram_by_theorem :
  addr_add hirom 8257535 1 = Ok 8257536 /\ (addr_physical hirom 8257536 = Ok None).
Proof.
  destruct (bus_advance_leaves hirom 8257535 1 m_hi m_ram) as [H1 H2]; try reflexivity.
  - right. reflexivity.
  - unfold in_window. vm_compute. discriminate.
  - split; [exact H1|apply H2; reflexivity].
Qed.

Print Assumptions bus_advance_sub.
Print Assumptions bus_add_0_sub.
Print Assumptions bus_add_add_sub.
Print Assumptions bus_advance_of_sub.
Print Assumptions bus_advance_any.
Print Assumptions bus_advance_leaves.
Print Assumptions covers_sub_b_sound.
Print Assumptions agree_covers_sub.
Print Assumptions hirom_covers_sub.
Print Assumptions hirom_covers_mirror.
Print Assumptions hirom_not_covers.
Print Assumptions live_hirom_covers_sub.
Print Assumptions hirom_advance.
Print Assumptions hirom_advance_mirror.
Print Assumptions hirom_inside_bank.
Print Assumptions hirom_crossing_bank.
Print Assumptions hirom_into_ram.
Print Assumptions hirom_into_ram_by_theorem.
