(** C03 / C05 on bank SUB-INTERVALS: the emission invariant [synced] and its step theorems with
    [covers_sub] (Proofs/CoversSub.v) in place of [covers], so that they apply to the built-in
    HiROM bus (banks 0x40-0x7D, and the mirror 0xC0-0xFF), where [covers] is false for the ROM
    mapping.  Same proofs as Proofs/ProgramProofs.v ([emit_step_synced], [codepos_synced],
    [emit_prefix_synced], [branch_in_step]) with the bank bounds lo..hi carried along. *)
From Coq Require Import ZArith List Lia Bool Arith.
From A816 Require Import Model.Program Spec.BusLaws Spec.EnvSem Proofs.BusProofs Proofs.ResolverProofs
     Proofs.NodeProofs Proofs.BranchProofs Proofs.ProgramProofs Proofs.CoversSub.
Open Scope Z_scope.

(** [synced_sub m lo hi st]: as [synced], but [m] is only required to own the banks lo..hi, and
    the run address lies in them. *)
Record synced_sub (m : mapping) (lo hi : Z) (st : estate) : Prop := {
  ss_cov : covers_sub (a_bus (r_reloc (e_r st))) m lo hi;
  ss_mask : mask_ok m;
  ss_rom : m_writable m = false;
  ss_win : in_window m (a_val (r_reloc (e_r st)));
  ss_bank : lo <= bank_of (a_val (r_reloc (e_r st))) <= hi;
  ss_off : e_baddr st + Z.of_nat (length (e_block st)) = spec_offset m (a_val (r_reloc (e_r st)));
  ss_pc : r_pc (e_r st) = spec_offset m (a_val (r_reloc (e_r st)))
}.

(** the old invariant is the instance "the whole range" *)
Lemma synced_is_sub m st : synced m st <-> synced_sub m (m_first m) (m_last m) st.
Proof. split; intros [H1 H2 H3 H4 H5 H6 H7]; constructor; assumption. Qed.

(** Every node other than a position move keeps the state in step, as long as the new run address
    stays in the owned banks (the bound is now the end of bank [hi], not of the mapping's range). *)
Theorem emit_step_synced_sub w m lo hi st n x st' :
  synced_sub m lo hi st -> is_position n = false -> emit_step w st n x = Ok st' ->
  (spec_offset m (a_val (r_reloc (e_r st'))) < (hi - m_first m + 1) * m_mask m) ->
  synced_sub m lo hi st' /\
  exists r1 bs, node_emit w (e_r st) n = Ok (r1, bs) /\
    spec_offset m (a_val (r_reloc (e_r st'))) = spec_offset m (a_val (r_reloc (e_r st))) + Z.of_nat (length bs) /\
    e_baddr st' = e_baddr st.
Proof.
  intros [Hcov Hmask Hrom Hwin Hbank Hoff Hpc] Hpos. unfold emit_step.
  destruct (negb _); [discriminate|].
  destruct (node_emit w (e_r st) n) as [[r1 bs]| |] eqn:NE; cbn [bind]; try discriminate.
  destruct (node_emit_keeps_position _ _ _ _ _ Hpos NE) as [Hrel Hpc1].
  assert (Hcp : is_codepos n = false) by (destruct n; try reflexivity; discriminate).
  rewrite Hcp.
  destruct bs as [|b0 bs0].
  - cbn [bind]. intros H Hrange.
    assert (st' = {| e_r := r1; e_block := e_block st ++ []; e_baddr := e_baddr st; e_out :=
              match n with NIps blocks => e_out st ++ map (fun ab => (snd ab, fst ab)) blocks | _ => e_out st end |}).
    { destruct n; inversion H; reflexivity. }
    subst st'. cbn [e_r e_block e_baddr] in *. rewrite Hrel in *. rewrite app_nil_r.
    split; [constructor; cbn [e_r e_block e_baddr]; rewrite ?Hrel, ?Hpc1; auto|].
    exists r1, []. cbn [length]. repeat split; auto. lia.
  - set (bs := b0 :: bs0) in *.
    unfold addr_plus. rewrite Hrel.
    set (a := a_val (r_reloc (e_r st))) in *. set (bus := a_bus (r_reloc (e_r st))) in *.
    set (len := Z.of_nat (length bs)).
    destruct (addr_add bus a len) as [a'| |] eqn:AD; cbn [bind]; try discriminate.
    intros H Hrange.
    assert (st' = {| e_r := set_reloc (set_pc r1 (r_pc r1 + len)) {| a_bus := bus; a_val := a' |};
                     e_block := e_block st ++ bs; e_baddr := e_baddr st; e_out :=
              match n with NIps blocks => e_out st ++ map (fun ab => (snd ab, fst ab)) blocks | _ => e_out st end |}).
    { destruct n; inversion H; reflexivity. }
    subst st'. cbn [e_r e_block e_baddr set_reloc set_pc r_reloc r_pc a_val a_bus] in *.
    assert (Hlen : 0 <= len) by (unfold len; lia).
    pose proof (sub_offset_range m a lo hi Hmask Hwin Hbank) as Hlow.
    assert (Hr : (lo - m_first m) * m_mask m <= spec_offset m a + len < (hi - m_first m + 1) * m_mask m).
    { split; [lia|].
      destruct (Z_lt_ge_dec (spec_offset m a + len) ((hi - m_first m + 1) * m_mask m)) as [L|G]; [exact L|].
      exfalso.
      revert Hrange. unfold addr_add in AD. rewrite bank_shiftr, (Hcov _ Hbank) in AD. cbn [bind] in AD.
      rewrite physical_rom in AD by assumption. rewrite logical_spec in AD by assumption. cbn [bind] in AD.
      unfold get_address in AD. destruct (bus_mapping_for_bank bus _); cbn [bind] in AD; try discriminate.
      inversion AD; subst a'.
      destruct (spec_address_props m (spec_offset m a + len) Hmask) as (Hb' & Hw' & Ho').
      rewrite Ho'. lia. }
    destruct (bus_advance_sub bus a len m lo hi Hcov Hmask Hrom Hwin Hbank Hr) as (Hadd & Hphys & Hwin' & Hbank').
    rewrite AD in Hadd. inversion Hadd; subst a'.
    destruct (spec_address_props m (spec_offset m a + len) Hmask) as (_ & _ & Ho').
    split.
    + constructor; cbn [e_r e_block e_baddr set_reloc set_pc r_reloc r_pc a_val a_bus]; auto.
      * rewrite app_length, Nat2Z.inj_add, Ho'. fold len. lia.
      * rewrite Ho', Hpc1, Hpc. reflexivity.
    + exists r1, bs. repeat split; auto.
Qed.

(** [*= v] with [v] in an owned bank re-establishes the invariant. *)
Theorem codepos_synced_sub w st e fi x st' v bus m lo hi :
  emit_step w st (NCodePos e fi) x = Ok st' ->
  get_value w (e_r st) e = Ok v -> get_bus w (e_r st) = Ok bus ->
  covers_sub bus m lo hi -> mask_ok m -> m_writable m = false -> in_window m v ->
  lo <= bank_of v <= hi ->
  synced_sub m lo hi st' /\ a_val (r_reloc (e_r st')) = v /\ e_block st' = [] /\
  e_baddr st' = spec_offset m v /\
  e_out st' = match e_block st with [] => e_out st | b => e_out st ++ [(b, e_baddr st)] end.
Proof.
  intros H Hv Hb Hcov Hmask Hrom Hwin Hbank. unfold emit_step in H.
  destruct (negb _); [discriminate|].
  cbn [node_emit] in H. rewrite Hv in H. cbn [bind] in H.
  unfold set_position in H. rewrite Hb in H. cbn [bind] in H.
  rewrite (mk_addr_ok bus v m (Hcov _ Hbank)) in H. cbn [bind] in H.
  unfold addr_phys in H. cbn [a_bus a_val] in H.
  rewrite (bus_physical bus v m (Hcov _ Hbank) Hmask Hrom Hwin) in H. cbn [bind is_codepos] in H.
  rewrite app_nil_r in H. inversion H; subst; clear H.
  cbn [e_r e_block e_baddr e_out set_reloc set_pc r_reloc r_pc a_val a_bus].
  refine (conj _ (conj _ (conj _ (conj _ _)))); auto.
  - constructor; cbn [e_r e_block e_baddr set_reloc set_pc r_reloc r_pc a_val a_bus length]; auto. lia.
  - destruct (e_block st); reflexivity.
Qed.

Lemma emit_step_offset_sub w m lo hi st n x st1 :
  synced_sub m lo hi st -> is_position n = false -> emit_step w st n x = Ok st1 ->
  exists r1 bs, node_emit w (e_r st) n = Ok (r1, bs) /\
    spec_offset m (a_val (r_reloc (e_r st1))) = spec_offset m (a_val (r_reloc (e_r st))) + Z.of_nat (length bs).
Proof.
  intros [Hcov Hmask Hrom Hwin Hbank Hoff Hpc] Hpos. unfold emit_step.
  destruct (negb _); [discriminate|].
  destruct (node_emit w (e_r st) n) as [[r1 bs]| |] eqn:NE; cbn [bind]; try discriminate.
  destruct (node_emit_keeps_position _ _ _ _ _ Hpos NE) as [Hrel Hpc1].
  assert (Hcp : is_codepos n = false) by (destruct n; try reflexivity; discriminate). rewrite Hcp.
  exists r1, bs. split; [reflexivity|].
  destruct bs as [|b0 bs0]; cbn [bind] in *.
  - assert (e_r st1 = r1) by (destruct n; inversion H; reflexivity). subst r1. rewrite Hrel. cbn. lia.
  - revert H. unfold addr_plus. rewrite Hrel. unfold addr_add. rewrite bank_shiftr, (Hcov _ Hbank). cbn [bind].
    rewrite physical_rom by assumption. rewrite logical_spec by assumption. cbn [bind].
    set (p' := spec_offset m (a_val (r_reloc (e_r st))) + Z.of_nat (length (b0 :: bs0))).
    destruct (spec_address_props m p' Hmask) as (Hb' & Hw' & Ho').
    unfold get_address. destruct (bus_mapping_for_bank _ _) as [m'| |]; cbn [bind]; try discriminate.
    intros E.
    assert (Ha : a_val (r_reloc (e_r st1)) = spec_address m p') by (destruct n; inversion E; reflexivity).
    rewrite Ha, Ho'. reflexivity.
Qed.

(** Whole runs: from an in-step state a run of non-position nodes whose bytes end before the end of
    bank [hi] stays in step, across any number of bank ends. *)
Theorem emit_prefix_synced_sub w m lo hi ns : forallb (fun n => negb (is_position n)) ns = true -> forall st addrs st' bss,
  synced_sub m lo hi st -> emit_prefix w st ns addrs = Ok st' -> emit_trace w st ns addrs = Ok bss ->
  spec_offset m (a_val (r_reloc (e_r st))) + Z.of_nat (length (concat bss)) < (hi - m_first m + 1) * m_mask m ->
  synced_sub m lo hi st' /\ e_baddr st' = e_baddr st /\
  spec_offset m (a_val (r_reloc (e_r st'))) = spec_offset m (a_val (r_reloc (e_r st))) + Z.of_nat (length (concat bss)).
Proof.
  induction ns as [|n ns IH]; intros Hpos st addrs st' bss Hs H T Hr; cbn [emit_prefix emit_trace] in *.
  - inversion H; inversion T; subst. cbn. split; [exact Hs|]. split; [reflexivity|lia].
  - cbn [forallb] in Hpos. apply andb_prop in Hpos as [Hn Hrest].
    assert (Hn' : is_position n = false) by (destruct (is_position n); [discriminate|reflexivity]).
    destruct addrs as [|x addrs]; [discriminate|].
    destruct (emit_step w st n x) as [st1| |] eqn:ES; cbn [bind] in H; try discriminate.
    destruct (emit_step_offset_sub w m lo hi st n x st1 Hs Hn' ES) as (r1 & bs & NE & Hgrow).
    rewrite NE in T. cbn [bind snd] in T.
    destruct (emit_trace w st1 ns addrs) as [bss1| |] eqn:T1; cbn [bind] in T; try discriminate.
    inversion T; subst bss. cbn [concat] in Hr. rewrite app_length, Nat2Z.inj_add in Hr.
    assert (Hmid : spec_offset m (a_val (r_reloc (e_r st1))) < (hi - m_first m + 1) * m_mask m) by lia.
    destruct (emit_step_synced_sub w m lo hi st n x st1 Hs Hn' ES Hmid) as (Hs1 & _ & _ & _ & _ & Hb1).
    destruct (IH Hrest st1 addrs st' bss1 Hs1 H T1 ltac:(lia)) as (Hs' & Hb' & Hoff).
    split; [exact Hs'|]. split; [congruence|]. cbn [concat]. rewrite app_length, Nat2Z.inj_add. lia.
Qed.

(** C05: in an in-step state a branch to an in-window target of the same bank gets its true
    displacement (the branch only consults the bank of the run address, which is owned). *)
Theorem branch_in_step_sub w m lo hi st op t :
  synced_sub m lo hi st -> get_bus w (e_r st) = Ok (a_bus (r_reloc (e_r st))) ->
  let p := a_val (r_reloc (e_r st)) in
  in_window m t -> bank_of t = bank_of p -> byte_ok op = true ->
  rel_emit w (e_r st) op (Some (Ok t)) = branch_bytes op (t - (p + 2)).
Proof.
  intros [Hcov Hmask Hrom Hwin Hbank Hoff Hpc] Hbus p Hwt Hb Hop.
  apply (rel_branch_encode w (e_r st) op t (a_bus (r_reloc (e_r st))) m); auto.
Qed.

(** On the built-in HiROM bus the hypotheses about the bus are met: [*=] to any address of the
    banks 0x40-0x7D (resp. the mirror 0xC0-0xFF) establishes [synced_sub]. *)
Theorem hirom_star_eq w st e fi x st' v bus :
  bus_agree_b bus hirom = true ->
  emit_step w st (NCodePos e fi) x = Ok st' ->
  get_value w (e_r st) e = Ok v -> get_bus w (e_r st) = Ok bus ->
  64 <= bank_of v <= 125 ->
  synced_sub m_hi 64 125 st' /\ a_val (r_reloc (e_r st')) = v /\ e_baddr st' = spec_offset m_hi v.
Proof.
  intros Hag H Hv Hb Hbank.
  destruct (codepos_synced_sub w st e fi x st' v bus m_hi 64 125 H Hv Hb
              (proj1 (live_hirom_covers_sub bus Hag)) (or_intror eq_refl) eq_refl
              (in_window_64k m_hi v eq_refl) Hbank) as (H1 & H2 & _ & H4 & _).
  exact (conj H1 (conj H2 H4)).
Qed.

Print Assumptions emit_step_synced_sub.
Print Assumptions codepos_synced_sub.
Print Assumptions emit_prefix_synced_sub.
Print Assumptions branch_in_step_sub.
Print Assumptions synced_is_sub.
Print Assumptions hirom_star_eq.
