(** The C07 run-time oracle (Oracle/Coreo.v, clause [SData]) never demands more than the model
    delivers: the bytes it expects for data items are the bytes the model's nodes emit, their number
    is the advance of the model's address layout, and the end-label clause (file offset + length, same
    bank range) follows from the closed forms of the built-in mappings. *)
From Coq Require Import ZArith List Bool Lia.
From A816 Require Import Spec.BusLaws Model.Nodes Model.Program Proofs.BitLemmas Proofs.PackLemmas Proofs.NodeProofs
  Oracle.Coreo.
Import ListNotations.
Open Scope Z_scope.

(* ------------------------------------------------------------------------------------------ *)
(** * (a) one item *)

Lemma le_spec_le_bytes n : forall v, le_spec n v = le_bytes n v.
Proof. induction n as [|n IH]; intros v; [reflexivity|]. cbn [le_spec]. rewrite IH, le_bytes_S. reflexivity. Qed.

Lemma kbytes_dkind k : kbytes k = dkind_nat k.
Proof. destruct k; reflexivity. Qed.

(** the oracle's bytes of one value = the model's [data_bytes], for every kind and every integer *)
Lemma data_oracle_value_bytes k v : le_spec (kbytes k) (v mod 256 ^ Z.of_nat (kbytes k)) = data_bytes k v.
Proof. rewrite le_spec_le_bytes, kbytes_dkind. symmetry. apply data_bytes_spec. Qed.

(** the bytes the model emits for an item (Model/Nodes.v [node_emit]: NData / NAscii / NBinary) *)
Definition model_item_bytes (i : item) : bytes :=
  match i with
  | IData k vals => flat_map (data_bytes k) vals
  | IAscii s => ascii_bytes s
  | IBin c => c
  end.

Theorem data_oracle_item_bytes : forall i, item_bytes i = model_item_bytes i.
Proof.
  intros [k vals|s|c]; try reflexivity. cbn [item_bytes model_item_bytes].
  induction vals as [|v r IH]; [reflexivity|]. cbn [flat_map]. rewrite IH, data_oracle_value_bytes. reflexivity.
Qed.

(* ------------------------------------------------------------------------------------------ *)
(** * (b) a list of items, as nodes *)

(** [lit v]: any expression the resolver evaluates to [v] (a literal); [fi], [path]: the token and
    file name the nodes carry (irrelevant to the bytes) *)
Definition nodes_of_item (lit : Z -> expr) (fi : token) (path : str) (i : item) : list node :=
  match i with
  | IData k vals => map (fun v => NData k (lit v) fi) vals
  | IAscii s => [NAscii s]
  | IBin c => [NBinary path c]
  end.

(** emission of a node list in one resolver state, bytes concatenated *)
Fixpoint emit_all (w : world) (r : rstate) (ns : list node) : res (rstate * bytes) :=
  match ns with
  | [] => Ok (r, [])
  | n :: rest => do x <- node_emit w r n; do y <- emit_all w (fst x) rest; Ok (fst y, snd x ++ snd y)
  end.
(** the address layout of a node list: [pc_after] node after node *)
Fixpoint layout (w : world) (r : rstate) (ns : list node) (a : addr) : res (rstate * addr) :=
  match ns with
  | [] => Ok (r, a)
  | n :: rest => do x <- pc_after w r n a; layout w (fst x) rest (snd x)
  end.
(** bytes a data node occupies *)
Definition node_len (n : node) : Z :=
  match n with
  | NData k _ _ => dkind_len k
  | NAscii s => Z.of_nat (length (ascii_bytes s))
  | NBinary _ c => Z.of_nat (length c)
  | _ => 0
  end.
Fixpoint plus_all (a : addr) (lens : list Z) : res addr :=
  match lens with
  | [] => Ok a
  | l :: rest => do a1 <- addr_plus a l; plus_all a1 rest
  end.

Lemma emit_item w r lit fi path i : (forall v, get_value w r (lit v) = Ok v) ->
  forall rest br, emit_all w r rest = Ok (r, br) ->
  emit_all w r (nodes_of_item lit fi path i ++ rest) = Ok (r, item_bytes i ++ br).
Proof.
  intros Hl rest br Hr. rewrite data_oracle_item_bytes. destruct i as [k vals|s|c]; cbn [nodes_of_item model_item_bytes].
  - induction vals as [|v vs IH]; [exact Hr|].
    cbn [map app emit_all node_emit flat_map]. rewrite Hl. cbn [bind fst snd]. rewrite IH. cbn [bind fst snd].
    rewrite app_assoc. reflexivity.
  - cbn [app emit_all node_emit bind fst snd]. rewrite Hr. reflexivity.
  - cbn [app emit_all node_emit bind fst snd]. rewrite Hr. reflexivity.
Qed.

(** the layout of data nodes only adds their lengths to the address (whatever the resolver state) *)
Definition data_node (n : node) : bool :=
  match n with NData _ _ _ | NAscii _ | NBinary _ _ => true | _ => false end.
Lemma layout_data w ns : forallb data_node ns = true -> forall r a,
  (do x <- layout w r ns a; Ok (snd x)) = plus_all a (map node_len ns).
Proof.
  induction ns as [|n ns IH]; intros Hd r a; [reflexivity|].
  cbn [forallb] in Hd. apply andb_prop in Hd as [Hn Hd]. cbn [layout map plus_all].
  destruct n; try discriminate Hn; cbn [pc_after node_len];
    (destruct (addr_plus a _) as [a1| |]; cbn [bind fst snd]; [apply (IH Hd)|reflexivity|reflexivity]).
Qed.
Lemma nodes_of_item_data lit fi path i : forallb data_node (nodes_of_item lit fi path i) = true.
Proof. destruct i as [k vals|s|c]; try reflexivity. cbn. induction vals; [reflexivity|exact IHvals]. Qed.

Lemma sum_item_len lit fi path i :
  fold_right Z.add 0 (map node_len (nodes_of_item lit fi path i)) = Z.of_nat (length (item_bytes i)).
Proof.
  rewrite data_oracle_item_bytes. destruct i as [k vals|s|c]; cbn [nodes_of_item model_item_bytes map fold_right node_len]; try lia.
  induction vals as [|v vs IH]; [reflexivity|]. cbn [map fold_right node_len flat_map]. rewrite app_length, Nat2Z.inj_add, IH.
  rewrite (proj2 (data_bytes_spec k v)). reflexivity.
Qed.

(** (b) For the node list of a list of items ([lit v] evaluating to [v] in the state [r]):
    the model emits exactly the oracle's expected bytes and leaves the state alone; the model's layout
    pass advances the address by the node lengths, one [addr_plus] per node; and those lengths add up
    to the number of expected bytes. *)
Theorem data_oracle_items_bytes : forall w r lit fi path items,
  (forall v, get_value w r (lit v) = Ok v) ->
  let ns := flat_map (nodes_of_item lit fi path) items in
  emit_all w r ns = Ok (r, flat_map item_bytes items) /\
  (forall r0 a, (do x <- layout w r0 ns a; Ok (snd x)) = plus_all a (map node_len ns)) /\
  fold_right Z.add 0 (map node_len ns) = Z.of_nat (length (flat_map item_bytes items)).
Proof.
  intros w r lit fi path items Hl ns. subst ns. split; [|split].
  - induction items as [|i items IH]; [reflexivity|]. cbn [flat_map]. apply emit_item; assumption.
  - intros r0 a. apply layout_data. induction items as [|i items IH]; [reflexivity|].
    cbn [flat_map]. rewrite forallb_app, nodes_of_item_data, IH. reflexivity.
  - induction items as [|i items IH]; [reflexivity|]. cbn [flat_map].
    rewrite map_app, fold_right_app, app_length, Nat2Z.inj_add, <- IH, <- (sum_item_len lit fi path i).
    generalize (map node_len (nodes_of_item lit fi path i)). intros l. induction l as [|x l IHl]; cbn [fold_right]; lia.
Qed.

(* ------------------------------------------------------------------------------------------ *)
(** * (c) the end-label clause *)

Ltac Zify.zify_post_hook ::= Z.to_euclidean_division_equations.

(** [org] a ROM address of the built-in mapping with file offset [off]; [len] bytes that stay inside
    the bank ([org mod 0x10000 + len < 0x10000]: for LoROM that is the 0x8000..0xFFFF window, for
    HiROM the whole bank): the address after them has file offset [off + len] and lies in the same
    range (mirror) as [org] - exactly what [spec_ok (SData ...)] demands of the end label. *)
Theorem data_oracle_end_label : forall high org off len,
  rom_offset high org = Some off -> 0 <= len -> org mod 65536 + len < 65536 ->
  rom_offset high (org + len) = Some (off + len) /\ same_range high org (org + len) = true.
Proof.
  intros high org off len Ho Hl Hw.
  assert (Hb : bank_of (org + len) = bank_of org) by (unfold bank_of; lia).
  assert (Hm : (org + len) mod 65536 = org mod 65536 + len) by lia.
  unfold rom_offset, same_range in *. fold (bank_of org). fold (bank_of (org + len)). rewrite Hb.
  destruct high.
  - split; [|apply Bool.eqb_reflx].
    unfold hirom_spec in *. rewrite Hb, Hm.
    destruct ((126 <=? bank_of org) && (bank_of org <=? 127)); [discriminate Ho|].
    destruct ((64 <=? bank_of org) && (bank_of org <=? 125)).
    + injection Ho as <-. f_equal. lia.
    + destruct ((192 <=? bank_of org) && (bank_of org <=? 255)); [|discriminate Ho]. injection Ho as <-. f_equal. lia.
  - split; [|apply Bool.eqb_reflx].
    destruct (32768 <=? org mod 65536) eqn:Ew; [|discriminate Ho]. rewrite Hm.
    replace (32768 <=? org mod 65536 + len) with true by lia.
    assert (Hm2 : (org + len) mod 32768 = org mod 32768 + len) by lia.
    unfold lorom_spec in *. rewrite Hb, Hm2.
    destruct ((0 <=? bank_of org) && (bank_of org <=? 111)).
    + injection Ho as <-. f_equal. lia.
    + destruct ((128 <=? bank_of org) && (bank_of org <=? 207)).
      * injection Ho as <-. f_equal. lia.
      * destruct ((126 <=? bank_of org) && (bank_of org <=? 127)); discriminate Ho.
Qed.

(** with the number of expected bytes as the length: the clause of the oracle, literally *)
Corollary data_oracle_end_label_items : forall high org off items,
  rom_offset high org = Some off ->
  let len := Z.of_nat (length (flat_map item_bytes items)) in
  org mod 65536 + len < 65536 ->
  match rom_offset high (org + len) with
  | Some p => (p =? off + len) && same_range high org (org + len)
  | None => false
  end = true.
Proof.
  intros high org off items Ho len Hw.
  destruct (data_oracle_end_label high org off len Ho ltac:(unfold len; lia) Hw) as [-> ->].
  rewrite Z.eqb_refl. reflexivity.
Qed.

(* ------------------------------------------------------------------------------------------ *)
(** * Example *)

(** ".db 0x12, -1, 0x1ff / .dw -2, 0x12345 / .dl 0x123456, -3 / .pointer 0x1c0ffee / .ascii 'Aé' / 2 raw bytes":
    a negative and an over-wide value in every width *)
Definition ex_items : list item :=
  [IData D_db [18; -1; 511]; IData D_dw [-2; 74565]; IData D_dl [1193046; -3]; IData D_pointer [29425646];
   IAscii [65; 233]; IBin [0; 255]].
Example data_oracle_example :
  flat_map item_bytes ex_items =
    [18; 255; 255;  254; 255; 69; 35;  86; 52; 18; 253; 255; 255;  238; 255; 192;  65;  0; 255] /\
  flat_map model_item_bytes ex_items = flat_map item_bytes ex_items /\
  flat_map item_bytes ex_items <> [] /\
  (* at *=0x808000 (LoROM mirror, file offset 0): the end label 0x808013 has offset 19, same range *)
  rom_offset false 8421376 = Some 0 /\ rom_offset false (8421376 + 19) = Some 19 /\
  same_range false 8421376 (8421376 + 19) = true /\
  (* HiROM 0xC08000: offset 0x8000 *)
  rom_offset true 12615680 = Some 32768 /\ rom_offset true (12615680 + 19) = Some (32768 + 19).
Proof. vm_compute. repeat split; try reflexivity. discriminate. Qed.

Check data_oracle_item_bytes.
Check data_oracle_value_bytes.
Check data_oracle_items_bytes.
Check data_oracle_end_label.
Check data_oracle_end_label_items.
Print Assumptions data_oracle_item_bytes.
Print Assumptions data_oracle_items_bytes.
Print Assumptions data_oracle_end_label.
Print Assumptions data_oracle_end_label_items.
Print Assumptions data_oracle_example.
