(** C07 at the level of source TEXT, part 4: the whole pipeline.

    For the two-line source text

        *=<origin>
        .<db|dw|dl|pointer><item>,<item>,...,<item>

    ([data_src], Proofs/DataTextScan.v; every expression written by [text_of] with arbitrary
    spacing, literals in any base / letter case) [assemble_source] = Scanner(lex_initial).scan ->
    parse_initial -> code generation -> label pass / symbol pass / emission succeeds and the writer
    receives exactly ONE block: the little-endian truncations of the item values (1, 2, 3, 3 bytes
    each: [data_bytes], = [le_bytes] of the value by C07_data_bytes), in order, at the file offset
    of the origin address; there are no labels.

    [data_text] is generic in the bus range; [data_text_lorom] / [data_text_lorom_mirror]
    instantiate it on the built-in LoROM bus under the per-run side condition "the live low-ROM bus
    agrees with the specification bus" ([bus_agree_b], as in C04_live_lorom). *)
From Coq Require Import ZArith NArith List Bool Lia ZifyBool Arith.
From A816 Require Import Spec.ExprSem Spec.BusLaws Model.Assemble Proofs.BusProofs Proofs.NodeProofs
  Proofs.ExprProofs Proofs.ExprLex Proofs.ExprLexParse
  Proofs.DataTextScan Proofs.DataTextParse Proofs.DataTextGen.
Import ListNotations.
Open Scope Z_scope.
Ltac Zify.zify_post_hook ::= Z.to_euclidean_division_equations.

(** the expressions of statement context are closed: their value needs no symbol table *)
Definition noenv : env := fun _ => Err ESymbol.

Lemma dlex_closed ev1 ev2 e : dlex e -> eval ev1 e = eval ev2 e.
Proof.
  induction e as [f n|s|o a IH|o a IHa b IHb|a IH]; cbn [dlex eval]; try reflexivity.
  - contradiction.
  - destruct o; [|contradiction]. intros H. rewrite (IH H). reflexivity.
  - intros (_ & A & B). rewrite (IHa A), (IHb B). reflexivity.
  - exact IH.
Qed.

(** a parsed expression evaluates, in any resolver state, to the value of its tree *)
Lemma eval_raw_tree t fs r x e v :
  prec_compatible (lv_prec t) = true -> map en_strip x = flat e -> wf e -> dlex e ->
  eval noenv e = Ok v -> eval_raw (world_of t fs) r x = Ok v.
Proof.
  intros Hc S W D E. unfold eval_raw. cbn [world_of w_prec].
  rewrite <- eval_expression_strip, S, (eval_expression_correct _ _ _ Hc W).
  rewrite (dlex_closed _ noenv e D). exact E.
Qed.

Definition item_ok (se : item) : Prop := dlex (snd se) /\ wf (snd se).

(** S4 *)
Theorem data_text t fs c fname low m p sp0 eorg org kw dk it1 rest vs :
  (* the live tables *)
  live_builtin t LowRom = Ok low -> addr_physical low 0 = Ok p ->
  match cf_rom c with Some rt => live_builtin t rt = Ok low | None => True end ->
  prec_compatible (lv_prec t) = true ->
  all_in kw_chars kw -> mem_str kw (lx_keywords (lv_lex t)) = true -> dkind_of kw = Some dk ->
  (* the ROM range the origin lies in *)
  covers low m -> mask_ok m -> m_writable m = false ->
  in_window m org -> m_first m <= bank_of org <= m_last m ->
  (* the source *)
  dlex eorg -> wf eorg -> eval noenv eorg = Ok org ->
  Forall item_ok (it1 :: rest) ->
  Forall2 (fun se v => eval noenv (snd se) = Ok v) (it1 :: rest) vs ->
  spec_offset m org + dkind_len dk * Z.of_nat (length (it1 :: rest)) < rsize m ->
  exists o fin,
    assemble_source t fs c fname (data_src sp0 eorg kw it1 rest) = AOk o fin /\
    o_blocks o = [(flat_map (data_bytes dk) vs, spec_offset m org)] /\
    o_labels o = [].
Proof.
  intros Hlow Hphys Hrt Hc Akw Kkw Hdk Hcov Hmask Hrom Hw Hb Do Wo Eo Hit Hvs Hfit.
  inversion Hit as [|? ? [D1 W1] Hrest]; subst.
  assert (Dr : Forall (fun se => dlex (snd se)) rest).
  { eapply Forall_impl; [|exact Hrest]. intros se [H _]. exact H. }
  destruct (scan_data_src (lv_lex t) fname sp0 eorg kw it1 rest Do D1 Dr Akw Kkw)
    as (toks & eof & lines & Escan & Etv & Eeof).
  destruct (parse_data_toks eorg kw dk it1 rest toks eof include_depth (include_tokens t fs) Etv
              (tv_type _ _ _ Eeof) Hdk) as (rorg & r1 & rrest & fi & kwt & Eparse & Sorg & S1 & Srest).
  destruct (initial_resolver_ok (world_of t fs) c low p Hlow Hphys Hrt) as (ri & Einit & Hstart).
  inversion Hvs as [|? v1 ? vs' Ev1 Hvs']; subst.
  assert (F : Forall2 (fun x v => eval_raw (world_of t fs) ri x = Ok v) (r1 :: rrest) (v1 :: vs')).
  { constructor; [eapply eval_raw_tree; eassumption|].
    clear - Srest Hrest Hvs' Hc. revert vs' Hvs'.
    induction Srest as [|r se rrest' rest' Sr _ IH]; intros vs' Hvs'; inversion Hvs'; subst; constructor.
    - inversion Hrest as [|? ? [D W] _]; subst. eapply eval_raw_tree; eassumption.
    - apply IH; [inversion Hrest; assumption|assumption]. }
  assert (Len : length (r1 :: rrest) = length (it1 :: rest)).
  { cbn [length]. f_equal. clear - Srest. induction Srest; cbn [length]; congruence. }
  destruct (assemble_program_data (world_of t fs) c low m ri rorg fi org dk r1 rrest kwt (v1 :: vs')
              Hcov Hmask Hrom Hw Hb Einit Hstart
              (eval_raw_tree t fs ri rorg eorg org Hc Sorg Wo Do Eo) F ltac:(rewrite Len; exact Hfit))
    as (o & Easm & Bo & Lo).
  exists o, (o_final o). split; [|split; assumption].
  unfold assemble_source. rewrite Escan, Eparse. exact Easm.
Qed.

(* ------------------------------------------------------------------------------------------ *)
(** * The built-in LoROM bus *)

Definition m_lo : mapping := {| m_first := 0; m_last := 111; m_mask := 32768; m_writable := false |}.
Definition m_lo_mirror : mapping := {| m_first := 128; m_last := 207; m_mask := 32768; m_writable := false |}.

Lemma lorom_covers_lo : covers lorom m_lo.
Proof.
  intros bank Hb. cbn [m_first m_last m_lo] in Hb. unfold bus_mapping_for_bank, lorom.
  cbn [b_ranges b_maps find_range].
  repeat match goal with |- context [Z.leb ?x ?y] => destruct (Z.leb_spec x y) end;
    cbn [andb]; try lia; reflexivity.
Qed.

Lemma lorom_covers_mirror : covers lorom m_lo_mirror.
Proof.
  intros bank Hb. cbn [m_first m_last m_lo_mirror] in Hb. unfold bus_mapping_for_bank, lorom.
  cbn [b_ranges b_maps find_range].
  repeat match goal with |- context [Z.leb ?x ?y] => destruct (Z.leb_spec x y) end;
    cbn [andb]; try lia; reflexivity.
Qed.

Lemma agree_covers b m : bus_agree_b b lorom = true -> covers lorom m -> covers b m.
Proof. intros H C bank Hb. rewrite (bus_agree_sound _ _ H). apply C. exact Hb. Qed.

(** the file offset of a LoROM address (the closed form of Spec/BusLaws.lorom_spec) *)
Definition lorom_offset (a : Z) : Z := (bank_of a mod 128) * 32768 + a mod 32768.

Definition low_rom_config (t : live) (c : config) : Prop :=
  assoc_z (lv_busmap t) 0 = Some true /\
  match cf_rom c with Some rt => assoc_z (lv_busmap t) (romtype_code rt) = Some true | None => True end.

Theorem data_text_lorom t fs c fname sp0 eorg org kw dk it1 rest vs :
  bus_agree_b (lv_low t) lorom = true -> low_rom_config t c ->
  prec_compatible (lv_prec t) = true ->
  all_in kw_chars kw -> mem_str kw (lx_keywords (lv_lex t)) = true -> dkind_of kw = Some dk ->
  (0 <= bank_of org <= 111 \/ 128 <= bank_of org <= 207) -> 32768 <= org mod 65536 ->
  dlex eorg -> wf eorg -> eval noenv eorg = Ok org ->
  Forall item_ok (it1 :: rest) ->
  Forall2 (fun se v => eval noenv (snd se) = Ok v) (it1 :: rest) vs ->
  lorom_offset org + dkind_len dk * Z.of_nat (length (it1 :: rest)) < (if bank_of org <? 128 then 112 else 80) * 32768 ->
  exists o fin,
    assemble_source t fs c fname (data_src sp0 eorg kw it1 rest) = AOk o fin /\
    o_blocks o = [(flat_map (data_bytes dk) vs, lorom_offset org)] /\
    o_labels o = [].
Proof.
  intros Hag (Hm0 & Hmc) Hc Akw Kkw Hdk Hbank Hwin Do Wo Eo Hit Hvs Hfit.
  assert (Hlow : live_builtin t LowRom = Ok (lv_low t)).
  { unfold live_builtin. cbn [romtype_code]. rewrite Hm0. reflexivity. }
  assert (Hphys : addr_physical (lv_low t) 0 = Ok (Some 0)).
  { rewrite (bus_agree_physical _ _ Hag). reflexivity. }
  assert (Hrt : match cf_rom c with Some rt => live_builtin t rt = Ok (lv_low t) | None => True end).
  { destruct (cf_rom c) as [rt|]; [|exact I]. unfold live_builtin. rewrite Hmc. reflexivity. }
  assert (Hlo15 : org mod 32768 = org mod 65536 - 32768).
  { rewrite (Znumtheory.Zmod_div_mod 32768 65536 org) by (try lia; exists 2; reflexivity).
    pose proof (Z.mod_pos_bound org 65536 ltac:(lia)) as Hr.
    generalize dependent (org mod 65536). intros r. intros. lia. }
  destruct Hbank as [Hb|Hb].
  - assert (Eoff : spec_offset m_lo org = lorom_offset org).
    { unfold spec_offset, lorom_offset, window_start. cbn [m_first m_mask m_lo]. rewrite Hlo15.
      rewrite (Z.mod_small (bank_of org) 128) by lia. lia. }
    rewrite <- Eoff in *.
    apply (data_text t fs c fname (lv_low t) m_lo (Some 0) sp0 eorg org kw dk it1 rest vs); try assumption.
    + apply (agree_covers _ _ Hag lorom_covers_lo).
    + left; reflexivity.
    + reflexivity.
    + replace (bank_of org <? 128) with true in Hfit by lia. exact Hfit.
  - assert (Eoff : spec_offset m_lo_mirror org = lorom_offset org).
    { unfold spec_offset, lorom_offset, window_start. cbn [m_first m_mask m_lo_mirror]. rewrite Hlo15.
      replace (bank_of org mod 128) with (bank_of org - 128)
        by (apply (Z.mod_unique _ _ 1); lia). lia. }
    rewrite <- Eoff in *.
    apply (data_text t fs c fname (lv_low t) m_lo_mirror (Some 0) sp0 eorg org kw dk it1 rest vs); try assumption.
    + apply (agree_covers _ _ Hag lorom_covers_mirror).
    + left; reflexivity.
    + reflexivity.
    + replace (bank_of org <? 128) with false in Hfit by lia. exact Hfit.
Qed.

Print Assumptions data_text.
Print Assumptions data_text_lorom.

(* ------------------------------------------------------------------------------------------ *)
(** * Layout independence: spacing and the base / padding / letter case of the literals *)

Lemma eval_same_unfmt e e' : unfmt e = unfmt e' -> eval noenv e' = eval noenv e.
Proof. intros U. rewrite <- (eval_unfmt noenv e'), <- U, eval_unfmt. reflexivity. Qed.

Definition same_items (a b : list item) : Prop := Forall2 (fun x y => unfmt (snd x) = unfmt (snd y)) a b.

Theorem data_text_lorom_layout t fs c fname kw dk org vs sp0 eorg it1 rest sp0' eorg' it1' rest' :
  bus_agree_b (lv_low t) lorom = true -> low_rom_config t c ->
  prec_compatible (lv_prec t) = true ->
  all_in kw_chars kw -> mem_str kw (lx_keywords (lv_lex t)) = true -> dkind_of kw = Some dk ->
  (0 <= bank_of org <= 111 \/ 128 <= bank_of org <= 207) -> 32768 <= org mod 65536 ->
  dlex eorg -> wf eorg -> eval noenv eorg = Ok org ->
  Forall item_ok (it1 :: rest) ->
  Forall2 (fun se v => eval noenv (snd se) = Ok v) (it1 :: rest) vs ->
  lorom_offset org + dkind_len dk * Z.of_nat (length (it1 :: rest)) < (if bank_of org <? 128 then 112 else 80) * 32768 ->
  (* the same program laid out differently *)
  dlex eorg' -> wf eorg' -> unfmt eorg = unfmt eorg' ->
  Forall item_ok (it1' :: rest') -> same_items (it1 :: rest) (it1' :: rest') ->
  exists o fin o' fin',
    assemble_source t fs c fname (data_src sp0 eorg kw it1 rest) = AOk o fin /\
    assemble_source t fs c fname (data_src sp0' eorg' kw it1' rest') = AOk o' fin' /\
    o_blocks o' = o_blocks o /\ o_labels o' = o_labels o /\
    o_blocks o = [(flat_map (data_bytes dk) vs, lorom_offset org)].
Proof.
  intros Hag Hcfg Hc Akw Kkw Hdk Hbank Hwin Do Wo Eo Hit Hvs Hfit Do' Wo' Uo Hit' Same.
  destruct (data_text_lorom t fs c fname sp0 eorg org kw dk it1 rest vs Hag Hcfg Hc Akw Kkw Hdk Hbank Hwin
              Do Wo Eo Hit Hvs Hfit) as (o & fin & E & B & L).
  assert (Hvs' : Forall2 (fun se v => eval noenv (snd se) = Ok v) (it1' :: rest') vs).
  { clear - Same Hvs. revert vs Hvs. unfold same_items in Same.
    induction Same as [|a b la lb U _ IH]; intros vs Hvs; inversion Hvs; subst; constructor.
    - rewrite (eval_same_unfmt _ _ U). assumption.
    - apply IH. assumption. }
  assert (Len : length (it1' :: rest') = length (it1 :: rest)).
  { clear - Same. unfold same_items in Same. induction Same; cbn [length]; congruence. }
  destruct (data_text_lorom t fs c fname sp0' eorg' org kw dk it1' rest' vs Hag Hcfg Hc Akw Kkw Hdk Hbank Hwin
              Do' Wo' ltac:(rewrite (eval_same_unfmt _ _ Uo); exact Eo) Hit' Hvs' ltac:(rewrite Len; exact Hfit))
    as (o' & fin' & E' & B' & L').
  exists o, fin, o', fin'. repeat split; try assumption; congruence.
Qed.

(* ------------------------------------------------------------------------------------------ *)
(** * Non-vacuity: a concrete record of live-like tables and a concrete source *)

Definition demo_live : live :=
  {| lv_low := lorom; lv_high := hirom; lv_busmap := [(0, true); (1, true); (2, false)];
     lv_optable := []; lv_prec := reference_prec;
     lv_lex := mk_lexicon [] [] [k_db; k_dw; k_dl; k_pointer] |}.
Definition demo_cfg : config := {| cf_rom := None; cf_defines := [] |}.

(** "*= 0x018000\n.dw0x12Ab , -2,( 69999+0b01)<<1 \n" *)
Definition demo_org : sexpr := Num (FHex 2 []) 98304.
Definition demo_it1 : item := (fun _ => 0%nat, Num (FHex 0 [false; false; true; false]) 4779).
Definition demo_rest : list item :=
  [ (fun i => match i with 0 => 1 | _ => 0 end%nat, Un ONeg (Num FDec 2));
    (fun i => match i with 1 | 7 => 1 | _ => 0 end%nat,
     Bin OShl (Par (Bin OAdd (Num FDec 69999) (Num (FBin 1) 1))) (Num FDec 1)) ].
Definition demo_src : str := data_src (fun i => match i with 0 => 1 | _ => 0 end%nat) demo_org k_dw demo_it1 demo_rest.

Example demo_src_text : demo_src =
  [42;61;32;48;120;48;48;49;56;48;48;48;10;
   46;100;119;48;120;49;50;65;98;44;32;45;50;44;40;32;54;57;57;57;57;43;48;98;48;49;41;60;60;49;32;10].
Proof. vm_compute. reflexivity. Qed.

(** the model pipeline, computed *)
Example demo_computed :
  match assemble_source demo_live no_srcfiles demo_cfg [109] demo_src with
  | AOk o _ => (o_blocks o, o_labels o)
  | _ => ([], [([], 0)])
  end = ([([171; 18; 254; 255; 224; 34], 32768)], []).
Proof. vm_compute. reflexivity. Qed.

(** the same, obtained from the theorem (all side conditions discharged) *)
Example demo_proved : exists o fin,
  assemble_source demo_live no_srcfiles demo_cfg [109] demo_src = AOk o fin /\
  o_blocks o = [([171; 18; 254; 255; 224; 34], 32768)] /\ o_labels o = [].
Proof.
  destruct (data_text_lorom demo_live no_srcfiles demo_cfg [109]
              (fun i => match i with 0 => 1 | _ => 0 end%nat) demo_org 98304 k_dw D_dw demo_it1 demo_rest
              [4779; -2; 140000]) as (o & fin & E & B & L).
  - reflexivity.
  - split; [reflexivity|exact I].
  - reflexivity.
  - repeat constructor.
  - reflexivity.
  - reflexivity.
  - left. vm_compute. split; discriminate.
  - vm_compute. discriminate.
  - exact I.
  - exact I.
  - reflexivity.
  - repeat constructor; cbn; intuition (try discriminate; try lia).
  - repeat constructor.
  - vm_compute. reflexivity.
  - exists o, fin. split; [exact E|]. split; [|exact L]. rewrite B. reflexivity.
Qed.

Print Assumptions data_text_lorom_layout.
Print Assumptions demo_proved.
