(** C07 at the level of source TEXT, part 3 (code generation and the passes): the program
    [AStarEq origin; AData kind items] is generated into CodePositionNode + one data node per item,
    the label pass / symbol pass / emission give ONE block: the little-endian truncations of the item
    values, in order, at the file offset of the origin address.

    Generic in the bus: the origin lies in a ROM range [m] of the bus the resolver consults
    ([covers low m], 32K or 64K window, not writable), inside its bank window, and the block (and the
    address after it) stays inside the range.  Instantiated on the built-in LoROM bus in
    Proofs/DataText.v. *)
From Coq Require Import ZArith List Bool Lia ZifyBool.
From A816 Require Import Spec.BusLaws Model.Assemble Proofs.BusProofs Proofs.NodeProofs.
Import ListNotations.
Open Scope Z_scope.
Ltac Zify.zify_post_hook ::= Z.to_euclidean_division_equations.

Lemma data_bytes_cons k v : exists b bs, data_bytes k v = b :: bs /\ Z.of_nat (length (b :: bs)) = dkind_len k.
Proof. destruct k; cbn [data_bytes le_bytes app]; eexists _, _; split; reflexivity. Qed.

Section Gen.
  Variable w : world.
  Variable low : bus.
  Variable m : mapping.
  Hypothesis Hcov : covers low m.
  Hypothesis Hmask : mask_ok m.
  Hypothesis Hrom : m_writable m = false.

  Definition rsize : Z := (m_last m - m_first m + 1) * m_mask m.
  Definition A (p : Z) : Z := spec_address m p.
  Definition at_ (v : Z) : addr := {| a_bus := low; a_val := v |}.

  Lemma A_props p : 0 <= p < rsize ->
    in_window m (A p) /\ m_first m <= bank_of (A p) <= m_last m /\ spec_offset m (A p) = p.
  Proof.
    intros Hp. destruct (spec_address_props m p Hmask) as (Hb & Hw & Ho). unfold A.
    split; [exact Hw|]. split; [|exact Ho]. rewrite Hb. unfold rsize in Hp.
    destruct Hmask as [E|E]; rewrite E in *; lia.
  Qed.

  Lemma adv p n : 0 <= p < rsize -> 0 <= p + n < rsize -> addr_plus (at_ (A p)) n = Ok (at_ (A (p + n))).
  Proof.
    intros Hp Hn. destruct (A_props p Hp) as (Hw & Hb & Ho).
    unfold addr_plus, at_. cbn [a_bus a_val].
    destruct (bus_advance low (A p) n m Hcov Hmask Hrom Hw Hb) as (Hadd & _).
    { rewrite Ho. exact Hn. }
    rewrite Hadd, Ho. reflexivity.
  Qed.

  Lemma mk_at p : 0 <= p < rsize -> mk_addr low (A p) = Ok (at_ (A p)).
  Proof.
    intros Hp. destruct (A_props p Hp) as (_ & Hb & _).
    unfold mk_addr, get_address. rewrite bank_shiftr, (Hcov _ Hb). reflexivity.
  Qed.

  Lemma phys_at p : 0 <= p < rsize -> addr_phys (at_ (A p)) = Ok (Some p).
  Proof.
    intros Hp. destruct (A_props p Hp) as (Hw & Hb & Ho).
    unfold addr_phys, at_. cbn [a_bus a_val].
    rewrite (bus_physical low (A p) m (Hcov _ Hb) Hmask Hrom Hw), Ho. reflexivity.
  Qed.

  (** ** the data nodes *)
  Variable k : dkind.
  Variable fi' : token.
  Local Notation len := (dkind_len k).
  Definition dnodes (xs : list expr) : list node := map (fun e => NData k e fi') xs.

  Lemma len_pos : 1 <= len. Proof. generalize k. intros []; cbn [dkind_len]; lia. Qed.

  Fixpoint chain (p : Z) (n : nat) : list Z :=
    match n with O => [A p] | S n' => A p :: chain (p + len) n' end.

  Lemma label_pass_data : forall xs p acc r,
    0 <= p -> p + len * Z.of_nat (length xs) < rsize ->
    label_pass w r (dnodes xs) (at_ (A p)) acc
    = Ok (r, at_ (A (p + len * Z.of_nat (length xs))), acc ++ chain p (length xs)).
  Proof.
    pose proof len_pos as Hl.
    induction xs as [|x xs IH]; intros p acc r Hp Hfit; cbn [dnodes map label_pass length chain].
    - rewrite Z.mul_0_r, Z.add_0_r. reflexivity.
    - cbn [is_symbol_node pc_after].  cbn [length] in *. rewrite Nat2Z.inj_succ in *.
      assert (0 <= len * Z.of_nat (length xs)) by (apply Z.mul_nonneg_nonneg; lia).
      rewrite (adv p len) by lia. cbn [bind fst snd]. fold (dnodes xs).
      rewrite (IH (p + len) (acc ++ [a_val (at_ (A p))]) r) by lia.
      replace (p + len + len * Z.of_nat (length xs)) with (p + len * Z.succ (Z.of_nat (length xs))) by lia.
      rewrite <- app_assoc. reflexivity.
  Qed.

  Lemma symbol_pass_data : forall xs p r,
    0 <= p -> p + len * Z.of_nat (length xs) < rsize ->
    symbol_pass w r (dnodes xs) (at_ (A p)) = Ok (r, at_ (A (p + len * Z.of_nat (length xs)))).
  Proof.
    pose proof len_pos as Hl.
    induction xs as [|x xs IH]; intros p r Hp Hfit; cbn [dnodes map symbol_pass length].
    - rewrite Z.mul_0_r, Z.add_0_r. reflexivity.
    - cbn [is_label_or_binary pc_after].  cbn [length] in *. rewrite Nat2Z.inj_succ in *.
      assert (0 <= len * Z.of_nat (length xs)) by (apply Z.mul_nonneg_nonneg; lia).
      rewrite (adv p len) by lia. cbn [bind fst snd]. fold (dnodes xs).
      rewrite (IH (p + len) r) by lia.
      replace (p + len + len * Z.of_nat (length xs)) with (p + len * Z.succ (Z.of_nat (length xs))) by lia.
      reflexivity.
  Qed.

  (** ** resolver states of one assembly: only pc and reloc move *)
  Variable ri : rstate.
  Hypothesis Hri_bus : r_bus ri = empty_bus.
  Hypothesis Hri_cur : r_cur ri = 0%nat.
  Hypothesis Hget : w_builtin w (r_rom ri) = Ok low.

  Definition Inv (r : rstate) : Prop :=
    r_bus r = empty_bus /\ r_rom r = r_rom ri /\ r_scopes r = r_scopes ri /\ r_cur r = 0%nat.

  Lemma Inv_ri : Inv ri. Proof. unfold Inv. auto. Qed.
  Lemma Inv_set_pc r pc : Inv r -> Inv (set_pc r pc). Proof. exact (fun H => H). Qed.
  Lemma Inv_set_reloc r a : Inv r -> Inv (set_reloc r a). Proof. exact (fun H => H). Qed.
  Lemma Inv_reset r : Inv r -> Inv (resolver_reset r).
  Proof. intros (H1 & H2 & H3 & _). unfold Inv, resolver_reset. cbn. auto. Qed.
  Lemma Inv_cur_last r : Inv r -> Inv (set_cur_last r (r_cur r) 0).
  Proof. intros (H1 & H2 & H3 & H4). unfold Inv. cbn. auto. Qed.

  Lemma get_bus_inv r : Inv r -> get_bus w r = Ok low.
  Proof. intros (H1 & H2 & _). unfold get_bus. rewrite H1, H2. exact Hget. Qed.

  Lemma eval_raw_inv r x : Inv r -> eval_raw w r x = eval_raw w ri x.
  Proof.
    intros (_ & _ & H3 & H4). unfold eval_raw, env_of, value_for. rewrite H3, H4, Hri_cur. reflexivity.
  Qed.

  Lemma get_value_inv r x v : Inv r -> eval_raw w ri x = Ok v -> get_value w r x = Ok v.
  Proof. intros I E. unfold get_value. rewrite (eval_raw_inv r x I), E. reflexivity. Qed.

  (** emission of the data nodes *)
  Lemma emit_loop_data : forall xs vs p r pc blk baddr out,
    Forall2 (fun x v => eval_raw w ri x = Ok v) xs vs ->
    Inv r -> r_reloc r = at_ (A p) -> r_pc r = pc ->
    0 <= p -> p + len * Z.of_nat (length xs) < rsize ->
    exists r', Inv r' /\ r_reloc r' = at_ (A (p + len * Z.of_nat (length xs))) /\
      emit_loop w {| e_r := r; e_block := blk; e_baddr := baddr; e_out := out |}
                (dnodes xs) (chain p (length xs))
      = Ok {| e_r := r'; e_block := blk ++ flat_map (data_bytes k) vs; e_baddr := baddr; e_out := out |}.
  Proof.
    pose proof len_pos as Hl.
    induction xs as [|x xs IH]; intros vs p r pc blk baddr out F I Hre Hpc Hp Hfit;
      inversion F as [|? v ? vs' Ev F']; subst; cbn [dnodes map emit_loop length chain flat_map].
    - exists r. rewrite Z.mul_0_r, Z.add_0_r, app_nil_r. split; [exact I|]. split; [exact Hre|].
      cbn [e_r]. rewrite Hre. cbn [at_ a_val]. rewrite Z.eqb_refl. reflexivity.
    - cbn [length] in *. rewrite Nat2Z.inj_succ in *. fold (dnodes xs).
      assert (0 <= len * Z.of_nat (length xs)) by (apply Z.mul_nonneg_nonneg; lia).
      unfold emit_step at 1. cbn [e_r e_block e_baddr e_out]. rewrite Hre. cbn [at_ a_val].
      rewrite Z.eqb_refl. cbn [negb node_emit]. rewrite (get_value_inv r x v I Ev). cbn [bind].
      destruct (data_bytes_cons k v) as (b & bs & Eb & Lb). rewrite Eb. rewrite Lb. 
      rewrite Hre. fold (at_ (A p)). rewrite (adv p len) by lia. cbn [bind is_codepos].
      destruct (IH vs' (p + len) (set_reloc (set_pc r (r_pc r + len)) (at_ (A (p + len))))
                  (r_pc r + len) (blk ++ b :: bs) baddr out F')
        as (r' & I' & Hre' & E'); try reflexivity; try lia.
      { apply Inv_set_reloc, Inv_set_pc, I. }
      exists r'. split; [exact I'|]. split; [rewrite Hre'; f_equal; f_equal; lia|].
      cbn [bind]. rewrite E'. rewrite <- Eb, <- app_assoc. reflexivity.
  Qed.

  (** ** the whole node list: CodePositionNode, then the data nodes *)
  Variable xo : expr.
  Variable fi : token.
  Variable org : Z.
  Hypothesis Horg_w : in_window m org.
  Hypothesis Horg_b : m_first m <= bank_of org <= m_last m.
  Hypothesis Hri_reloc : r_reloc ri = at_ 0.
  Hypothesis Hxo : eval_raw w ri xo = Ok org.
  Local Notation p0 := (spec_offset m org).

  Lemma p0_nonneg : 0 <= p0.
  Proof.
    pose proof (spec_offset_range m org Hmask Horg_w) as [H _].
    destruct Hmask as [E|E]; rewrite E in *; lia.
  Qed.
  Lemma A_p0 : A p0 = org. Proof. apply spec_address_offset; assumption. Qed.

  Lemma at_org : at_ org = at_ (A p0). Proof. rewrite A_p0. reflexivity. Qed.
  Lemma mk_org : 0 <= p0 < rsize -> mk_addr low org = Ok (at_ org).
  Proof. intros H. pose proof (mk_at p0 H) as E. rewrite A_p0 in E. exact E. Qed.
  Lemma phys_org : 0 <= p0 < rsize -> addr_phys (at_ org) = Ok (Some p0).
  Proof. intros H. pose proof (phys_at p0 H) as E. rewrite A_p0 in E. exact E. Qed.

  Lemma assemble_nodes_data x1 xs' vs :
    Forall2 (fun x v => eval_raw w ri x = Ok v) (x1 :: xs') vs ->
    p0 + len * Z.of_nat (length (x1 :: xs')) < rsize ->
    exists o, assemble_nodes w ri (NCodePos xo fi :: dnodes (x1 :: xs')) = Ok o /\
              o_blocks o = [(flat_map (data_bytes k) vs, p0)] /\
              o_labels o = get_all_labels (o_final o) /\
              r_scopes (o_final o) = r_scopes ri.
  Proof.
    intros F Hfit. set (xs := x1 :: xs') in *. pose proof p0_nonneg as Hp0. pose proof len_pos as Hl.
    assert (Hn : 0 <= len * Z.of_nat (length xs)) by (apply Z.mul_nonneg_nonneg; lia).
    assert (Hp0r : 0 <= p0 < rsize) by lia.
    unfold assemble_nodes, resolve_labels.
    set (r0 := set_cur_last ri (r_cur ri) 0).
    assert (I0 : Inv r0) by (apply Inv_cur_last, Inv_ri).
    assert (Hre0 : r_reloc r0 = at_ 0) by exact Hri_reloc.
    (* label pass *)
    rewrite Hre0. cbn [label_pass is_symbol_node pc_after].
    rewrite (get_value_inv r0 xo org I0 Hxo), (get_bus_inv r0 I0). cbn [bind].
    rewrite (mk_org Hp0r). cbn [bind fst snd app]. rewrite at_org.
    rewrite (label_pass_data xs p0 _ r0 Hp0 Hfit). cbn [bind].
    (* symbol pass *)
    set (r2 := resolver_reset r0).
    assert (I2 : Inv r2) by (apply Inv_reset, I0).
    assert (Hre2 : r_reloc r2 = at_ 0) by exact Hri_reloc.
    rewrite Hre2. cbn [symbol_pass is_label_or_binary pc_after].
    rewrite (get_value_inv r2 xo org I2 Hxo), (get_bus_inv r2 I2). cbn [bind].
    rewrite (mk_org Hp0r). cbn [bind fst snd]. rewrite at_org.
    rewrite (symbol_pass_data xs p0 r2 Hp0 Hfit). cbn [bind fst snd].
    (* emission *)
    set (r3 := resolver_reset r2).
    assert (I3 : Inv r3) by (apply Inv_reset, I2).
    assert (Hre3 : r_reloc r3 = at_ 0) by exact Hri_reloc.
    unfold emit. cbn [emit_loop].
    unfold emit_step at 1. cbn [e_r e_block e_baddr e_out]. rewrite Hre3. cbn [at_ a_val].
    change (0 =? 0) with true. cbn [negb node_emit].
    rewrite (get_value_inv r3 xo org I3 Hxo). cbn [bind]. unfold set_position.
    rewrite (get_bus_inv r3 I3). cbn [bind].
    rewrite (mk_org Hp0r). cbn [bind]. rewrite (phys_org Hp0r). cbn [bind app is_codepos].
    set (r4 := set_reloc (set_pc r3 p0) (at_ org)).
    assert (I4 : Inv r4) by (apply Inv_set_reloc, Inv_set_pc, I3).
    destruct (emit_loop_data xs vs p0 r4 p0 [] (r_pc r4) [] F I4 at_org eq_refl Hp0 Hfit)
      as (r5 & I5 & Hre5 & E5).
    change (0 =? 0) with true. cbn [negb bind].
    rewrite E5. cbn [bind e_r e_block e_baddr e_out app].
    eexists. split; [reflexivity|]. cbn [o_blocks o_final fst snd]. split.
    - inversion F as [|? v1 ? vs' Ev1 F']; subst. cbn [flat_map].
      destruct (data_bytes_cons k v1) as (b & bs & Eb & _). rewrite Eb. cbn [app]. reflexivity.
    - cbn [o_labels]. split; [reflexivity|]. destruct I5 as (_ & _ & H & _). exact H.
  Qed.
End Gen.

(* ------------------------------------------------------------------------------------------ *)
(** * initial_resolver, code generation, assemble_program *)

Lemma flat_map_update {A B} (g : A -> list B) (f : A -> A) : (forall x, g (f x) = g x) ->
  forall l i, flat_map g (list_update l i f) = flat_map g l.
Proof.
  intros H. induction l as [|x l IH]; intros i; [reflexivity|].
  destruct i; cbn [list_update flat_map]; [rewrite H; reflexivity|rewrite IH; reflexivity].
Qed.

Lemma labels_add_symbol r n v : get_all_labels (add_symbol r n v) = get_all_labels r.
Proof.
  unfold get_all_labels, add_symbol, upd_scope. cbn [r_scopes set_scopes].
  apply flat_map_update. intros s. reflexivity.
Qed.

(** the resolver the assembly starts from *)
Definition start_ok (w : world) (low : bus) (ri : rstate) : Prop :=
  r_bus ri = empty_bus /\ r_cur ri = 0%nat /\ r_reloc ri = {| a_bus := low; a_val := 0 |} /\
  w_builtin w (r_rom ri) = Ok low /\ get_all_labels ri = [].

Lemma fold_defs_ok w low : forall defs r, start_ok w low r ->
  start_ok w low (fold_left (fun r kv => add_symbol r (fst kv) (snd kv)) defs r).
Proof.
  induction defs as [|[n v] defs IH]; intros r H; cbn [fold_left]; [exact H|].
  apply IH. destruct H as (H1 & H2 & H3 & H4 & H5). unfold start_ok.
  rewrite labels_add_symbol. cbn [fst snd]. auto.
Qed.

Lemma initial_resolver_ok w c low p :
  w_builtin w LowRom = Ok low -> addr_physical low 0 = Ok p ->
  match cf_rom c with Some rt => w_builtin w rt = Ok low | None => True end ->
  exists ri, initial_resolver w c = Ok ri /\ start_ok w low ri.
Proof.
  intros Hlow Hphys Hrt. unfold initial_resolver, resolver_init. rewrite Hlow.
  unfold set_position, get_bus. cbn [r_bus empty_bus bus_has_mappings b_maps r_rom]. rewrite Hlow.
  cbn [bind]. unfold mk_addr, get_address, addr_phys. cbn [a_bus a_val].
  pose proof Hphys as Hm. unfold addr_physical in Hm.
  destruct (bus_mapping_for_bank low (Z.shiftr 0 16)) as [m0| |]; try discriminate Hm. cbn [bind].
  cbn [a_bus a_val]. rewrite Hphys. cbn [bind].
  match goal with |- context [fold_left ?f ?l ?r] => set (r1 := r); set (rf := fold_left f l r) end.
  assert (S1 : start_ok w low r1).
  { unfold start_ok, r1. destruct p; cbn; rewrite Hlow; auto. }
  pose proof (fold_defs_ok w low (cf_defines c) r1 S1) as Sf. fold rf in Sf.
  eexists. split; [reflexivity|].
  destruct (cf_rom c) as [rt|]; [|exact Sf].
  destruct Sf as (H1 & H2 & H3 & H4 & H5). unfold start_ok. cbn. auto.
Qed.

Lemma cg_depth_S : cg_depth = S 299. Proof. reflexivity. Qed.
Lemma code_gen_S w f s body : code_gen_fuel w (S f) s body = gen_list w (code_gen_fuel w f) s body.
Proof. reflexivity. Qed.

Lemma code_gen_data w s xo fi k xs fi' :
  code_gen_fuel w cg_depth s [AStarEq xo fi; AData k xs fi']
  = Ok (s, NCodePos xo fi :: map (fun e => NData k e fi') xs).
Proof.
  rewrite cg_depth_S, code_gen_S. generalize (code_gen_fuel w 299). intros gen.
  cbn [gen_list gen_one bind fst snd app]. rewrite app_nil_r. reflexivity.
Qed.

(** S3 *)
Theorem assemble_program_data w c low m ri xo fi org k x1 xs' fi' vs :
  covers low m -> mask_ok m -> m_writable m = false ->
  in_window m org -> m_first m <= bank_of org <= m_last m ->
  initial_resolver w c = Ok ri -> start_ok w low ri ->
  eval_raw w ri xo = Ok org ->
  Forall2 (fun x v => eval_raw w ri x = Ok v) (x1 :: xs') vs ->
  spec_offset m org + dkind_len k * Z.of_nat (length (x1 :: xs')) < rsize m ->
  exists o, assemble_program w c [AStarEq xo fi; AData k (x1 :: xs') fi'] = AOk o (o_final o) /\
            o_blocks o = [(flat_map (data_bytes k) vs, spec_offset m org)] /\
            o_labels o = [].
Proof.
  intros Hcov Hmask Hrom Hw Hb Hinit (S1 & S2 & S3 & S4 & S5) Hxo F Hfit.
  destruct (assemble_nodes_data w low m Hcov Hmask Hrom k fi' ri S1 S2 S4 xo fi org Hw Hb S3 Hxo x1 xs' vs F Hfit)
    as (o & E & B & L & Sc).
  exists o. split; [|split; [exact B|]].
  - unfold assemble_program. rewrite Hinit, code_gen_data. cbn [cg_r].
    unfold dnodes in E. rewrite E. reflexivity.
  - rewrite L. unfold get_all_labels in *. rewrite Sc. exact S5.
Qed.

Print Assumptions assemble_program_data.
