(** C07 at the level of source TEXT, part 2 (parser): the token stream of the two-line source
    (Proofs/DataTextScan.v: STAR_EQ, origin tokens, KEYWORD, item tokens separated by COMMAs, EOF)
    is parsed by parse_initial into  [AStarEq origin fi; AData kind [item1; ...; itemN] keyword]
    where every expression is the flat node list of its tree (up to token positions). *)
From Coq Require Import ZArith NArith List Bool Lia Arith.
From A816 Require Import Spec.ExprSem Model.Scanner Model.Parser Proofs.ParserProofs
  Proofs.ExprLex Proofs.ExprLexParse Proofs.DataTextScan.
Import ListNotations.
Open Scope Z_scope.

Lemma str_eqb_true' (a : str) : forall b, str_eqb a b = true -> a = b.
Proof.
  induction a as [|x a IH]; destruct b as [|y b]; cbn; try discriminate; [reflexivity|].
  intros H. apply andb_true_iff in H as [H1 H2]. apply Z.eqb_eq in H1. subst. f_equal. apply IH. exact H2.
Qed.

(** a data keyword is none of the keywords tested before it *)
Lemma dkind_of_tests v dk : dkind_of v = Some dk ->
  str_eqb v k_scope = false /\ str_eqb v k_ascii = false /\ str_eqb v k_text = false.
Proof.
  unfold dkind_of.
  destruct (str_eqb v k_dw) eqn:E1; [apply str_eqb_true' in E1; subst; intros _; repeat split|].
  destruct (str_eqb v k_dl) eqn:E2; [apply str_eqb_true' in E2; subst; intros _; repeat split|].
  destruct (str_eqb v k_db) eqn:E3; [apply str_eqb_true' in E3; subst; intros _; repeat split|].
  destruct (str_eqb v k_pointer) eqn:E4; [apply str_eqb_true' in E4; subst; intros _; repeat split|].
  discriminate.
Qed.

(** the first token of an expression *)
Lemma PE_first l : PE l -> exists x l', l = x :: l' /\
  is_ty (en_tok x) T_RPAREN = false /\ is_ty (en_tok x) T_LBRACE = false.
Proof.
  destruct 1 as [t Ht|t o s Ht Ho Hs|lp s r Hl Hr Hs|lp s r o s' Hl Hr Ho Hs Hs'|u s Hu Hs];
    eexists _, _; (split; [reflexivity|]); cbn [en_tok en]; unfold is_ty.
  - destruct Ht as [H|H]; rewrite H; split; reflexivity.
  - destruct Ht as [H|H]; rewrite H; split; reflexivity.
  - rewrite Hl; split; reflexivity.
  - rewrite Hl; split; reflexivity.
  - destruct Hu as [H _]; rewrite H; split; reflexivity.
Qed.

Lemma seg_mid (pre mid post : list token) : seg (pre ++ mid ++ post) (length pre) mid.
Proof.
  intros j Hj. unfold cur. rewrite app_nth2_plus. apply app_nth1. exact Hj.
Qed.

Lemma cur_mid (pre : list token) t post : cur (pre ++ t :: post) (length pre) = t.
Proof. unfold cur. rewrite <- (Nat.add_0_r (length pre)), app_nth2_plus. reflexivity. Qed.

Ltac lens := repeat progress (rewrite ?app_length, ?map_length in *; cbn [length] in *).

Section Items.
  Variable ts : list token.
  Variable sub : str -> pres (list ast).

  Lemma pexpression_PE l : PE l -> forall pos f,
    seg ts pos (map en_tok l) -> is_ty (cur ts (pos + length l)) T_OPERATOR = false -> (length l < f)%nat ->
    pexpression ts f pos = POk (l, (pos + length l)%nat).
  Proof.
    intros P pos f G St HF. unfold pexpression. rewrite (pexpr_PE l P ts pos f G St HF).
    cbn [pbind fst]. destruct l; [inversion P|reflexivity].
  Qed.

  (** ", expression" repeated: (COMMA token, nodes of the expression) *)
  Definition ctail := list (token * list enode).
  Definition ctail_toks (c : ctail) : list token := flat_map (fun cl => fst cl :: map en_tok (snd cl)) c.
  Definition ctail_ok (c : ctail) : Prop := Forall (fun cl => t_type (fst cl) = T_COMMA /\ PE (snd cl)) c.

  Lemma pel_items : forall (c : ctail) l pos f acc,
    PE l -> ctail_ok c -> seg ts pos (map en_tok l ++ ctail_toks c) ->
    let p' := (pos + length (map en_tok l ++ ctail_toks c))%nat in
    is_ty (cur ts p') T_OPERATOR = false -> is_ty (cur ts p') T_COMMA = false ->
    (length (map en_tok l ++ ctail_toks c) + 1 < f)%nat ->
    pel ts sub f pos acc = POk (acc ++ inl l :: map (fun cl => inl (snd cl)) c, p').
  Proof.
    induction c as [|[ct l2] c' IH]; intros l pos f acc P C G p' St Sc HF;
      (destruct f as [|f]; [lia|]); rewrite pel_S; cbv zeta.
    - subst p'. cbn [ctail_toks flat_map] in *. rewrite app_nil_r in *. rewrite map_length in *.
      destruct (PE_first l P) as (x & l' & El & T1 & T2).
      assert (C0 : cur ts pos = en_tok x).
      { specialize (G 0%nat). rewrite Nat.add_0_r, El in G. apply G. cbn [map length]. lia. }
      rewrite C0, T1, T2.
      rewrite (pexpression_PE l P pos f G St ltac:(lia)). cbn [pbind fst snd].
      rewrite Sc. reflexivity.
    - subst p'. cbn [ctail_toks flat_map fst snd] in *. fold (ctail_toks c') in *.
      inversion C as [|? ? [Hct P2] C']; subst. cbn [fst snd] in *.
      apply seg_app in G as [G1 G2]. apply seg_cons in G2 as [Cc G2].
      rewrite map_length in *.
      destruct (PE_first l P) as (x & l' & El & T1 & T2).
      assert (C0 : cur ts pos = en_tok x).
      { specialize (G1 0%nat). rewrite Nat.add_0_r, El in G1. apply G1. cbn [map length]. lia. }
      rewrite C0, T1, T2.
      assert (Lt : (length l + S (length (map en_tok l2 ++ ctail_toks c')) + 1 < S f)%nat).
      { rewrite app_length in HF. cbn [length] in HF. rewrite map_length in HF. exact HF. }
      rewrite (pexpression_PE l P pos f G1).
      + cbn [pbind fst snd]. rewrite Cc. unfold is_ty at 1. rewrite Hct.
        cbn [ttype_eqb ttype_code Z.eqb Pos.eqb].
        rewrite (IH l2 _ f _ P2 C' G2).
        * f_equal. f_equal.
          -- rewrite <- app_assoc. reflexivity.
          -- lens. lia.
        * lens. replace (S (pos + length l) + (length l2 + length (ctail_toks c')))%nat
            with (pos + (length l + S (length l2 + length (ctail_toks c'))))%nat by lia. exact St.
        * lens. replace (S (pos + length l) + (length l2 + length (ctail_toks c')))%nat
            with (pos + (length l + S (length l2 + length (ctail_toks c'))))%nat by lia. exact Sc.
        * lens. lia.
      + rewrite Cc. unfold is_ty. rewrite Hct. reflexivity.
      + lia.
  Qed.
End Items.

Lemma all_exprs_inl (ls : list (list enode)) :
  all_exprs (map (fun l => inl l : expr + (list ast * token)) ls) = Some ls.
Proof. induction ls as [|l r IH]; cbn [map all_exprs]; [reflexivity|]. rewrite IH. reflexivity. Qed.

(* ------------------------------------------------------------------------------------------ *)
(** * From (type, value) sequences to the parser's structures *)

Lemma build_tail : forall (rest : list item) (ttail : list token),
  map tv ttail = tail_toks rest ->
  exists c : ctail, ctail_ok c /\ ctail_toks c = ttail /\
    Forall2 (fun cl se => map en_strip (snd cl) = flat (snd se)) c rest.
Proof.
  induction rest as [|[sp e] rest' IH]; intros ttail E.
  - destruct ttail; [|discriminate E]. exists []. repeat split; constructor.
  - cbn [tail_toks flat_map fst snd] in E. fold (tail_toks rest') in E.
    apply map_eq_cons in E as (ct & tt & -> & Ec & E).
    apply map_eq_app in E as (te & tr & -> & Ee & Er).
    destruct (build_PE e te Ee) as (l & P & T & S).
    destruct (IH tr Er) as (c & C & Tc & F2).
    exists ((ct, l) :: c). split; [|split].
    + constructor; [|exact C]. cbn [fst snd]. split; [eapply tv_type; exact Ec|exact P].
    + cbn [ctail_toks flat_map fst snd]. fold (ctail_toks c). rewrite T, Tc. reflexivity.
    + constructor; [exact S|exact F2].
Qed.

Section Top.
  Variable ts : list token.
  Variable sub : str -> pres (list ast).

  Lemma pinitial_S f pos acc :
    pinitial ts sub (S f) pos acc =
    (if is_ty (cur ts pos) T_EOF then POk acc
     else dop r <- pdecl ts sub f pos; pinitial ts sub f (snd r) (opt_app acc (fst r))).
  Proof. reflexivity. Qed.

  (** *= expression *)
  Lemma pdecl_star_eq f pos l :
    t_type (cur ts pos) = T_STAR_EQ -> PE l -> seg ts (S pos) (map en_tok l) ->
    is_ty (cur ts (S pos + length l)) T_OPERATOR = false -> (length l < f)%nat ->
    pdecl ts sub (S f) pos = POk (Some (AStarEq l (cur ts (S pos))), (S pos + length l)%nat).
  Proof.
    intros Ht P G St HF. rewrite pdecl_S. unfold pdecl_body. cbv zeta. rewrite Ht.
    unfold pstar_eq. cbv zeta. rewrite (pexpression_PE ts l P (S pos) f G St HF). reflexivity.
  Qed.

  (** .db/.dw/.dl/.pointer item, item, ... *)
  Lemma pdecl_data f pos dk l (c : ctail) :
    t_type (cur ts pos) = T_KEYWORD -> dkind_of (t_value (cur ts pos)) = Some dk ->
    PE l -> ctail_ok c -> seg ts (S pos) (map en_tok l ++ ctail_toks c) ->
    let p' := (S pos + length (map en_tok l ++ ctail_toks c))%nat in
    is_ty (cur ts p') T_OPERATOR = false -> is_ty (cur ts p') T_COMMA = false ->
    (length (map en_tok l ++ ctail_toks c) + 1 < f)%nat ->
    pdecl ts sub (S f) pos = POk (Some (AData dk (l :: map snd c) (cur ts pos)), p').
  Proof.
    intros Ht Hk P C G p' St Sc HF. rewrite pdecl_S. unfold pdecl_body. cbv zeta. rewrite Ht.
    cbn [backup]. unfold pkeyword. cbv zeta.
    destruct (dkind_of_tests _ _ Hk) as (T1 & T2 & T3). rewrite T1, T2, T3, Hk.
    rewrite (pel_items ts sub c l (S pos) f [] P C G St Sc HF). cbn [pbind fst snd app].
    change (inl l :: map (fun cl : token * list enode => inl (snd cl)) c)
      with (map (fun cl : token * list enode => inl (snd cl) : expr + (list ast * token)) ((cur ts pos, l) :: c)).
    rewrite <- (map_map snd (fun l0 => inl l0 : expr + (list ast * token))).
    rewrite all_exprs_inl. reflexivity.
  Qed.
End Top.

(** S2 *)
Theorem parse_data_toks eorg kw dk it1 rest toks eof incd inc :
  map tv toks = data_toks eorg kw it1 rest -> t_type eof = T_EOF -> dkind_of kw = Some dk ->
  exists rorg r1 rrest fi kwt,
    parse_program (parse_fuel (length (toks ++ [eof]))) incd inc (toks ++ [eof])
      = POk [AStarEq rorg fi; AData dk (r1 :: rrest) kwt] /\
    map en_strip rorg = flat eorg /\ map en_strip r1 = flat (snd it1) /\
    Forall2 (fun r se => map en_strip r = flat (snd se)) rrest rest.
Proof.
  intros E Heof Hk. unfold data_toks in E.
  apply map_eq_cons in E as (st & toks1 & -> & Est & E).
  apply map_eq_app in E as (torg & toks2 & -> & Eorg & E).
  apply map_eq_cons in E as (kwt & toks3 & -> & Ekw & E).
  apply map_eq_app in E as (t1 & ttail & -> & E1 & Etail).
  destruct (build_PE eorg torg Eorg) as (lorg & Porg & Torg & Sorg).
  destruct (build_PE (snd it1) t1 E1) as (l1 & P1 & T1 & S1).
  destruct (build_tail rest ttail Etail) as (c & C & Tc & F2).
  subst torg t1 ttail.
  exists lorg, l1, (map snd c), (hd eof_token (map en_tok lorg ++ [kwt])), kwt.
  split; [|split; [exact Sorg|split; [exact S1|]]].
  2:{ clear - F2. induction F2; cbn [map]; constructor; assumption. }
  set (ts := (st :: map en_tok lorg ++ kwt :: map en_tok l1 ++ ctail_toks c) ++ [eof]).
  unfold parse_program. rewrite parse_file_unfold.
  set (sub := fun name : str => _).
  set (items := map en_tok l1 ++ ctail_toks c).
  assert (Ets1 : ts = [st] ++ map en_tok lorg ++ (kwt :: items ++ [eof])).
  { unfold ts, items. cbn [app]. rewrite <- !app_assoc. cbn [app]. rewrite <- !app_assoc. reflexivity. }
  assert (Ets2 : ts = (st :: map en_tok lorg) ++ kwt :: items ++ [eof]).
  { rewrite Ets1. cbn [app]. reflexivity. }
  assert (Ets3 : ts = (st :: map en_tok lorg ++ [kwt]) ++ items ++ [eof]).
  { rewrite Ets1. cbn [app]. rewrite <- !app_assoc. reflexivity. }
  assert (Ets4 : ts = (st :: map en_tok lorg ++ [kwt] ++ items) ++ eof :: []).
  { rewrite Ets1. cbn [app]. rewrite <- !app_assoc. reflexivity. }
  assert (C0 : cur ts 0 = st) by reflexivity.
  assert (G1 : seg ts 1 (map en_tok lorg)) by (rewrite Ets1; apply (seg_mid [st])).
  assert (C1 : cur ts (1 + length lorg) = kwt).
  { rewrite Ets2. replace (1 + length lorg)%nat with (length (st :: map en_tok lorg)) by (lens; lia).
    apply cur_mid. }
  assert (G2 : seg ts (S (1 + length lorg)) items).
  { rewrite Ets3. replace (S (1 + length lorg)) with (length (st :: map en_tok lorg ++ [kwt])) by (lens; lia).
    apply seg_mid. }
  assert (C2 : cur ts (S (1 + length lorg) + length items) = eof).
  { rewrite Ets4.
    replace (S (1 + length lorg) + length items)%nat
      with (length (st :: map en_tok lorg ++ [kwt] ++ items)) by (lens; lia).
    apply cur_mid. }
  assert (N : (length lorg + length items + 3 = length ts)%nat) by (rewrite Ets1; lens; lia).
  clearbody ts sub.
  replace (parse_fuel (length ts)) with (S (S (S (S (2 * length ts))))) by (unfold parse_fuel; lia).
  (* statement 1 *)
  rewrite pinitial_S, C0. unfold is_ty at 1. rewrite (tv_type _ _ _ Est).
  cbn [ttype_eqb ttype_code Z.eqb Pos.eqb].
  rewrite (pdecl_star_eq ts sub _ 0 lorg).
  2:{ rewrite C0. eapply tv_type; exact Est. }
  2:{ exact Porg. }
  2:{ exact G1. }
  2:{ rewrite C1. unfold is_ty. rewrite (tv_type _ _ _ Ekw). reflexivity. }
  2:{ lia. }
  cbn [pbind fst snd opt_app app].
  (* statement 2 *)
  rewrite pinitial_S, C1. unfold is_ty at 1. rewrite (tv_type _ _ _ Ekw).
  cbn [ttype_eqb ttype_code Z.eqb Pos.eqb].
  rewrite (pdecl_data ts sub _ (1 + length lorg) dk l1 c).
  2:{ rewrite C1. eapply tv_type; exact Ekw. }
  2:{ rewrite C1, (tv_value _ _ _ Ekw). exact Hk. }
  2:{ exact P1. }
  2:{ exact C. }
  2:{ exact G2. }
  2:{ fold items. rewrite C2. unfold is_ty. rewrite Heof. reflexivity. }
  2:{ fold items. rewrite C2. unfold is_ty. rewrite Heof. reflexivity. }
  2:{ fold items. lia. }
  cbn [pbind fst snd opt_app app]. fold items.
  (* end *)
  rewrite pinitial_S, C2. unfold is_ty at 1. rewrite Heof. cbn [ttype_eqb ttype_code Z.eqb Pos.eqb].
  rewrite C1. f_equal. f_equal. f_equal.
  specialize (G1 0%nat). destruct lorg as [|x lorg']; [inversion Porg|].
  cbn [map app hd]. exact (G1 ltac:(cbn [map length]; lia)).
Qed.

Print Assumptions parse_data_toks.
