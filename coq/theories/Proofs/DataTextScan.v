(** C07 at the level of source TEXT, part 1 (scanner): the statement scanner
    ([scan lx file] = Scanner(lex_initial)) on the two-line source

        *=<origin expression>
        .<keyword><item>,<item>,...,<item>

    yields STAR_EQ, the tokens of the origin expression, KEYWORD, and the tokens of the items
    separated by COMMA tokens, then EOF -- whatever the spacing inside the expressions.

    Expressions are written with [text_of] (Proofs/ExprLex.v).  In statement context the scanner
    state [lex_initial] lexes expression tokens itself (it never hands over to lex_expression) and
    knows fewer of them: no '|', no '~', no '/'; identifiers go through the mnemonic test.  The
    class here ([dlex]) is: literals in any base / letter case, unary '-', binary + - * & << >>,
    parentheses; no identifiers (so no hypothesis on the mnemonic table is needed).
    The only table hypothesis: the directive name is in the lexicon's keyword list. *)
From Coq Require Import ZArith NArith List Bool Lia Arith.
From A816 Require Import Spec.ExprSem Model.Scanner Proofs.ScannerFuel Proofs.ScannerMono
  Proofs.ExprProofs Proofs.ExprLex.
Import ListNotations.
Open Scope Z_scope.

(* ------------------------------------------------------------------------------------------ *)
(** * The expression class of statement context *)

Fixpoint dlex (e : sexpr) : Prop :=
  match e with
  | Num _ _ => True
  | Id _ => False
  | Un ONeg a => dlex a
  | Un ONot _ => False
  | Bin o a b => o <> OOr /\ dlex a /\ dlex b
  | Par a => dlex a
  end.

Inductive dtk : tk -> Prop :=
| d_num f n : dtk (T_NUMBER, render f n)
| d_neg : dtk (T_OPERATOR, [45])
| d_bin o : o <> OOr -> dtk (T_OPERATOR, bop_text o)
| d_lp : dtk (T_LPAREN, [40])
| d_rp : dtk (T_RPAREN, [41]).

Lemma dlex_lexable e : dlex e -> lexable e.
Proof.
  induction e as [f n|s|o a IH|o a IHa b IHb|a IH]; cbn [dlex lexable].
  - auto.
  - contradiction.
  - destruct o; [exact IH|contradiction].
  - intros (_ & A & B). auto.
  - exact IH.
Qed.

Lemma dlex_toks e : dlex e -> Forall dtk (toks_of e).
Proof.
  induction e as [f n|s|o a IH|o a IHa b IHb|a IH]; cbn [dlex toks_of].
  - intros _. repeat constructor.
  - contradiction.
  - destruct o; [|contradiction]. intros H. constructor; [apply d_neg|apply IH; exact H].
  - intros (O & A & B). apply Forall_app. split; [apply IHa; exact A|].
    constructor; [apply d_bin; exact O|apply IHb; exact B].
  - intros H. constructor; [apply d_lp|]. apply Forall_app. split; [apply IH; exact H|].
    repeat constructor.
Qed.

Lemma dtk_tk_ok t : dtk t -> tk_ok t.
Proof. destruct 1; try constructor. apply (ok_un ONeg). Qed.

(** the first character of a [dtk] token *)
Definition dfirst (c : Z) : Prop :=
  mem_z c digits = true \/ mem_z c [45; 43; 38; 42; 60; 62; 40; 41] = true.

Lemma dtk_first ty v : dtk (ty, v) -> exists c v', v = c :: v' /\ dfirst c.
Proof.
  inversion 1 as [f n| |o O| | ]; subst.
  - destruct (render_num_ok f n) as (d & tl & -> & N). exists d, tl. split; [reflexivity|].
    left. eapply num_ok_digit; eassumption.
  - eexists _, _. split; [reflexivity|]. right; reflexivity.
  - destruct o; try congruence; eexists _, _; (split; [reflexivity|]); right; reflexivity.
  - eexists _, _. split; [reflexivity|]. right; reflexivity.
  - eexists _, _. split; [reflexivity|]. right; reflexivity.
Qed.

Lemma dfirst_props c : dfirst c ->
  c <> 61 /\ mem_z c kw_chars = false /\ mem_z c blanks = false.
Proof.
  intros [H|H].
  - split; [intros ->; discriminate H|]. split; revert c H; apply mem_z_disj; reflexivity.
  - split; [intros ->; discriminate H|]. split; revert c H; apply mem_z_disj; reflexivity.
Qed.

(** a non-term [dtk] token starts with a delimiter *)
Lemma dtk_nonterm_delim ty v : dtk (ty, v) -> is_termtk (ty, v) = false -> delim (hd 0 v) = true.
Proof.
  inversion 1 as [f n| |o O| | ]; subst; intros T; try discriminate T; try reflexivity.
  destruct o; try congruence; reflexivity.
Qed.

(** what the text after a token can start with *)
Lemma hd_join_cases sp j l r (P : Z -> Prop) : Forall dtk l ->
  P 32 -> P (hd 0 r) -> (forall c, dfirst c -> P c) -> P (hd 0 (join sp j l ++ r)).
Proof.
  intros D P32 Pr Pd. destruct l as [|[ty v] l']; cbn [join snd].
  - destruct (sp j); [exact Pr|exact P32].
  - destruct (sp j); [|exact P32]. cbn [spaces repeat_z app].
    inversion D as [|? ? Dt _]; subst. destruct (dtk_first _ _ Dt) as (c & v' & -> & Hc).
    cbn [app hd]. apply Pd. exact Hc.
Qed.

Lemma follow_delim sp j l r : Forall dtk l -> seq_ok true l -> delim (hd 0 r) = true ->
  delim (hd 0 (join sp j l ++ r)) = true.
Proof.
  intros D S Dr. destruct l as [|[ty v] l']; cbn [join snd].
  - destruct (sp j); [exact Dr|reflexivity].
  - destruct (sp j); [|reflexivity]. cbn [spaces repeat_z app].
    inversion D as [|? ? Dt _]; subst. cbn [seq_ok] in S. destruct S as (_ & NT & _).
    specialize (NT eq_refl). pose proof (dtk_nonterm_delim _ _ Dt NT) as Hd.
    destruct (dtk_first _ _ Dt) as (c & v' & -> & _). exact Hd.
Qed.

(* ------------------------------------------------------------------------------------------ *)
(** * One call of lex_initial = one token *)

(** type, value and text of the tokens used here (the text of a keyword has the leading '.') *)
Inductive itk (lx : lexicon) : ttype -> str -> str -> Prop :=
| i_num f n : itk lx T_NUMBER (render f n) (render f n)
| i_op1 c : mem_z c [43; 45; 38] = true -> itk lx T_OPERATOR [c] [c]
| i_mul : itk lx T_OPERATOR [42] [42]
| i_shl : itk lx T_OPERATOR [60; 60] [60; 60]
| i_shr : itk lx T_OPERATOR [62; 62] [62; 62]
| i_lp : itk lx T_LPAREN [40] [40]
| i_rp : itk lx T_RPAREN [41] [41]
| i_comma : itk lx T_COMMA [44] [44]
| i_stareq : itk lx T_STAR_EQ [42; 61] [42; 61]
| i_kw kw : all_in kw_chars kw -> mem_str kw (lx_keywords lx) = true -> itk lx T_KEYWORD kw (46 :: kw).

(** what must follow: a delimiter after a number, no '=' after '*', no letter after a keyword *)
Definition follow_ok (ty : ttype) (v : str) (c : Z) : Prop :=
  match ty with
  | T_NUMBER => delim c = true
  | T_KEYWORD => mem_z c kw_chars = false
  | T_OPERATOR => v = [42] -> c <> 61
  | _ => True
  end.

Lemma dtk_itk lx ty v : dtk (ty, v) -> itk lx ty v v.
Proof.
  inversion 1 as [f n| |o O| | ]; subst; try constructor.
  - reflexivity.
  - destruct o; try congruence; try constructor; reflexivity.
Qed.

Lemma itk_first lx ty v text : itk lx ty v text ->
  exists c t', text = c :: t' /\ mem_z c blanks = false.
Proof.
  inversion 1 as [f n|c M| | | | | | | |kw A K]; subst;
    try (eexists _, _; split; reflexivity).
  - destruct (render_num_ok f n) as (d & tl & -> & N). exists d, tl. split; [reflexivity|].
    exact (mem_z_disj digits blanks eq_refl _ (num_ok_digit _ _ N)).
  - exists c, []. split; [reflexivity|]. exact (mem_z_disj [43; 45; 38] blanks eq_refl _ M).
Qed.

Ltac nop H cands := rewrite (accept_Zv_false _ _ _ _ _ cands H eq_refl); cbv beta iota.
Ltac nopr H p :=
  rewrite (accept_prefix_Zv_false _ _ _ _ _ p H eq_refl); cbn [accept_or fst snd]; cbv beta iota.

Lemma blanks_spaces k : all_in blanks (spaces k).
Proof. induction k; [constructor|]. rewrite spaces_S. constructor; [reflexivity|assumption]. Qed.

Lemma digit_not_semicolon c : mem_z c digits = true -> mem_z c [59] = false.
Proof. apply mem_z_disj. reflexivity. Qed.

Lemma init_step lx F s a ws ty v text r out :
  Zv s a [] (ws ++ text ++ r) out -> all_in blanks ws -> itk lx ty v text ->
  follow_ok ty v (hd 0 r) -> (length (inp s) + 1 < F)%nat ->
  exists s', lex_initial lx F s = LOk s' /\ Zv s' (a ++ ws ++ text) [] r ((ty, v) :: out).
Proof.
  intros H B K D HF. pose proof (Zv_len _ _ _ _ _ H) as L. rewrite !app_length in L.
  cbn [length] in L. destruct (itk_first _ _ _ _ K) as (c0 & t0 & Et & Hc0).
  unfold lex_initial, ignore_run.
  destruct (accept_run_Zv blanks ws F s a [] (text ++ r) out H B
              ltac:(rewrite Et; exact Hc0) ltac:(lia)) as (s1 & R & H1).
  rewrite R. cbn [lbind]. apply ignore_Zv in H1. cbn [app] in H1.
  set (s0 := ignore s1) in *. clearbody s0. clear R s1.
  assert (L' : (length text + 1 < F)%nat) by lia. clear Et Hc0 c0 t0 L.
  assert (Fin : forall s' x, Zv s' ((a ++ ws) ++ x) [] r ((ty, v) :: out) ->
                             Zv s' (a ++ ws ++ x) [] r ((ty, v) :: out)).
  { intros s' x Hx. rewrite <- app_assoc in Hx. exact Hx. }
  inversion K as [f n|c M| | | | | | | |kw A Kw]; subst.
  - (* NUMBER *)
    destruct (render_num_ok f n) as (d & tl & E & N). rewrite E in *. cbn [app] in H1.
    rewrite (accept_Zv_false _ _ _ _ _ [59] H1 (digit_not_semicolon _ (num_ok_digit _ _ N))). cbv beta iota.
    destruct (accept_Zv_true s0 _ [] d (tl ++ r) out digits H1 (num_ok_digit _ _ N)) as (s2 & A & H2).
    rewrite A. cbv beta iota. cbn [app] in H2.
    destruct (lex_number_Zv F s2 _ d tl r out H2 N D ltac:(cbn [length] in L'; lia)) as (s3 & LN & H3).
    rewrite LN. exists s3. split; [reflexivity|]. apply Fin. exact H3.
  - (* + - & *)
    assert (C : c = 43 \/ c = 45 \/ c = 38).
    { unfold mem_z in M. cbn [existsb] in M.
      destruct (c =? 43) eqn:E1; [left; apply Z.eqb_eq; exact E1|].
      destruct (c =? 45) eqn:E2; [right; left; apply Z.eqb_eq; exact E2|].
      destruct (c =? 38) eqn:E3; [right; right; apply Z.eqb_eq; exact E3|discriminate M]. }
    clear M D. cbn [app] in H1.
    destruct C as [->|[->| ->]]; nop H1 [59]; nop H1 digits;
      (destruct (accept_Zv_true s0 _ [] _ r out [43; 45; 38] H1 eq_refl) as (s2 & A & H2));
      rewrite A; cbv beta iota; (exists (emit s2 T_OPERATOR)); (split; [reflexivity|]); apply Fin;
      apply (emit_Zv _ _ _ _ _ T_OPERATOR H2).
  - (* * *)
    cbn [app] in H1. cbn [follow_ok] in D. specialize (D eq_refl).
    nop H1 [59]. nop H1 digits. nop H1 [43; 45; 38].
    nopr H1 [61; 61]. nopr H1 [33; 61]. nopr H1 [62; 62]. nopr H1 [60; 60].
    nopr H1 [62]. nopr H1 [60]. nopr H1 [62; 61]. nopr H1 [60; 61].
    nop H1 ident_start. nop H1 [46]. nop H1 [44]. nopr H1 [58; 61]. nopr H1 [64; 61].
    destruct (accept_Zv_true s0 _ [] _ r out [42] H1 eq_refl) as (s2 & A & H2).
    rewrite A. cbv beta iota.
    assert (M : mem_z (hd 0 r) [61] = false).
    { unfold mem_z. cbn [existsb]. destruct (hd 0 r =? 61) eqn:E; [apply Z.eqb_eq in E; contradiction|reflexivity]. }
    rewrite (accept_Zv_false _ _ _ _ _ [61] H2 M). cbv beta iota.
    exists (emit s2 T_OPERATOR). split; [reflexivity|]. apply Fin. apply (emit_Zv _ _ _ _ _ T_OPERATOR H2).
  - (* << *)
    cbn [app] in H1. clear D.
    nop H1 [59]. nop H1 digits. nop H1 [43; 45; 38].
    nopr H1 [61; 61]. nopr H1 [33; 61]. nopr H1 [62; 62].
    destruct (accept_prefix_Zv_true s0 _ [] [60; 60] r out H1) as (s2 & A & H2).
    rewrite A. cbv beta iota.
    exists (emit s2 T_OPERATOR). split; [reflexivity|]. apply Fin. apply (emit_Zv _ _ _ _ _ T_OPERATOR H2).
  - (* >> *)
    cbn [app] in H1. clear D.
    nop H1 [59]. nop H1 digits. nop H1 [43; 45; 38].
    nopr H1 [61; 61]. nopr H1 [33; 61].
    destruct (accept_prefix_Zv_true s0 _ [] [62; 62] r out H1) as (s2 & A & H2).
    rewrite A. cbv beta iota.
    exists (emit s2 T_OPERATOR). split; [reflexivity|]. apply Fin. apply (emit_Zv _ _ _ _ _ T_OPERATOR H2).
  - (* ( *)
    cbn [app] in H1. clear D.
    nop H1 [59]. nop H1 digits. nop H1 [43; 45; 38].
    nopr H1 [61; 61]. nopr H1 [33; 61]. nopr H1 [62; 62]. nopr H1 [60; 60].
    nopr H1 [62]. nopr H1 [60]. nopr H1 [62; 61]. nopr H1 [60; 61].
    nop H1 ident_start. nop H1 [46]. nop H1 [44]. nopr H1 [58; 61]. nopr H1 [64; 61].
    nop H1 [42]. nop H1 [39].
    destruct (accept_Zv_true s0 _ [] _ r out [40] H1 eq_refl) as (s2 & A & H2).
    rewrite A. cbv beta iota.
    exists (emit s2 T_LPAREN). split; [reflexivity|]. apply Fin. apply (emit_Zv _ _ _ _ _ T_LPAREN H2).
  - (* ) *)
    cbn [app] in H1. clear D.
    nop H1 [59]. nop H1 digits. nop H1 [43; 45; 38].
    nopr H1 [61; 61]. nopr H1 [33; 61]. nopr H1 [62; 62]. nopr H1 [60; 60].
    nopr H1 [62]. nopr H1 [60]. nopr H1 [62; 61]. nopr H1 [60; 61].
    nop H1 ident_start. nop H1 [46]. nop H1 [44]. nopr H1 [58; 61]. nopr H1 [64; 61].
    nop H1 [42]. nop H1 [39]. nop H1 [40].
    destruct (accept_Zv_true s0 _ [] _ r out [41] H1 eq_refl) as (s2 & A & H2).
    rewrite A. cbv beta iota.
    exists (emit s2 T_RPAREN). split; [reflexivity|]. apply Fin. apply (emit_Zv _ _ _ _ _ T_RPAREN H2).
  - (* , *)
    cbn [app] in H1. clear D.
    nop H1 [59]. nop H1 digits. nop H1 [43; 45; 38].
    nopr H1 [61; 61]. nopr H1 [33; 61]. nopr H1 [62; 62]. nopr H1 [60; 60].
    nopr H1 [62]. nopr H1 [60]. nopr H1 [62; 61]. nopr H1 [60; 61].
    nop H1 ident_start. nop H1 [46].
    destruct (accept_Zv_true s0 _ [] _ r out [44] H1 eq_refl) as (s2 & A & H2).
    rewrite A. cbv beta iota.
    exists (emit s2 T_COMMA). split; [reflexivity|]. apply Fin. apply (emit_Zv _ _ _ _ _ T_COMMA H2).
  - (* *= *)
    cbn [app] in H1. clear D.
    nop H1 [59]. nop H1 digits. nop H1 [43; 45; 38].
    nopr H1 [61; 61]. nopr H1 [33; 61]. nopr H1 [62; 62]. nopr H1 [60; 60].
    nopr H1 [62]. nopr H1 [60]. nopr H1 [62; 61]. nopr H1 [60; 61].
    nop H1 ident_start. nop H1 [46]. nop H1 [44]. nopr H1 [58; 61]. nopr H1 [64; 61].
    destruct (accept_Zv_true s0 _ [] _ (61 :: r) out [42] H1 eq_refl) as (s2 & A & H2).
    rewrite A. cbv beta iota.
    destruct (accept_Zv_true s2 _ _ _ r out [61] H2 eq_refl) as (s3 & A3 & H3).
    rewrite A3. cbv beta iota.
    exists (emit s3 T_STAR_EQ). split; [reflexivity|]. apply Fin. apply (emit_Zv _ _ _ _ _ T_STAR_EQ H3).
  - (* .keyword *)
    cbn [app] in H1. cbn [follow_ok] in D.
    nop H1 [59]. nop H1 digits. nop H1 [43; 45; 38].
    nopr H1 [61; 61]. nopr H1 [33; 61]. nopr H1 [62; 62]. nopr H1 [60; 60].
    nopr H1 [62]. nopr H1 [60]. nopr H1 [62; 61]. nopr H1 [60; 61].
    nop H1 ident_start.
    destruct (accept_Zv_true s0 _ [] _ (v ++ r) out [46] H1 eq_refl) as (s2 & A2 & H2).
    rewrite A2. cbv beta iota. unfold lex_keyword.
    apply ignore_Zv in H2. cbn [app] in H2.
    destruct (accept_run_Zv kw_chars v F (ignore s2) _ [] r out H2 A D
                ltac:(cbn [length] in L'; lia)) as (s3 & R3 & H3).
    rewrite R3. cbn [lbind]. cbn [app] in H3.
    rewrite (token_text_Zv _ _ _ _ _ H3), Kw.
    exists (emit s3 T_KEYWORD). split; [reflexivity|].
    pose proof (emit_Zv _ _ _ _ _ T_KEYWORD H3) as H4.
    rewrite <- !app_assoc in H4. cbn [app] in H4. exact H4.
Qed.

(** at the end of the text: the remaining blanks are skipped, nothing is emitted *)
Lemma init_eof lx F s a ws out :
  Zv s a [] ws out -> all_in blanks ws -> (length (inp s) + 1 < F)%nat ->
  exists s', lex_initial lx F s = LOk s' /\ Zv s' (a ++ ws) [] [] out.
Proof.
  intros H B HF. pose proof (Zv_len _ _ _ _ _ H) as L. cbn [length] in L.
  unfold lex_initial, ignore_run. rewrite <- (app_nil_r ws) in H.
  destruct (accept_run_Zv blanks ws F s a [] [] out H B eq_refl ltac:(lia)) as (s1 & R & H1).
  rewrite R. cbn [lbind]. apply ignore_Zv in H1. cbn [app] in H1.
  set (s0 := ignore s1) in *. clearbody s0. clear R s1.
  nop H1 [59]. nop H1 digits. nop H1 [43; 45; 38].
  nopr H1 [61; 61]. nopr H1 [33; 61]. nopr H1 [62; 62]. nopr H1 [60; 60].
  nopr H1 [62]. nopr H1 [60]. nopr H1 [62; 61]. nopr H1 [60; 61].
  nop H1 ident_start. nop H1 [46]. nop H1 [44]. nopr H1 [58; 61]. nopr H1 [64; 61].
  nop H1 [42]. nop H1 [39]. nop H1 [40]. nop H1 [41]. nop H1 [91]. nop H1 [93].
  nop H1 [123]. nop H1 [125]. nop H1 [61]. nopr H1 [47; 42].
  rewrite (next_Zv_end _ _ _ _ H1). cbv beta iota.
  exists s0. split; [reflexivity|exact H1].
Qed.

(* ------------------------------------------------------------------------------------------ *)
(** * The driver: one iteration of Scanner.scan's loop per token *)

Lemma scan_tok lx n F s a ws ty v text r out :
  Zv s a [] (ws ++ text ++ r) out -> all_in blanks ws -> itk lx ty v text ->
  follow_ok ty v (hd 0 r) -> (length (inp s) + 1 < F)%nat ->
  exists s', scan_loop (S n) F (lex_initial lx) s = scan_loop n F (lex_initial lx) s' /\
             Zv s' (a ++ ws ++ text) [] r ((ty, v) :: out) /\ length (inp s') = length (inp s).
Proof.
  intros H B K D HF. destruct (init_step lx F s a ws ty v text r out H B K D HF) as (s' & E & H').
  pose proof (Zv_len _ _ _ _ _ H) as L. pose proof (Zv_len _ _ _ _ _ H') as L'.
  destruct (itk_first _ _ _ _ K) as (c0 & t0 & -> & _).
  rewrite !app_length in L, L'. cbn [length] in L, L'.
  exists s'. split; [|split; [exact H'|lia]].
  cbn [scan_loop]. destruct H as (_ & _ & P & _). destruct H' as (_ & _ & P' & _).
  rewrite !app_length in P'. cbn [length] in P, P'.
  replace (pos s <? length (inp s))%nat with true by (symmetry; apply Nat.ltb_lt; lia).
  rewrite E. replace (pos s' =? pos s)%nat with false by (symmetry; apply Nat.eqb_neq; lia).
  reflexivity.
Qed.

(** the tokens of one expression; [r] is what follows it (a comma or a newline) *)
Lemma scan_segment lx sp F r : delim (hd 0 r) = true -> hd 0 r <> 61 ->
  forall l b i n s a out,
  Zv s a [] (join sp i l ++ r) out -> seq_ok b l -> Forall dtk l -> (length (inp s) + 1 < F)%nat ->
  exists s' a', scan_loop (length l + n) F (lex_initial lx) s = scan_loop n F (lex_initial lx) s' /\
                Zv s' a' [] (spaces (sp (i + length l)%nat) ++ r) (rev l ++ out) /\
                length (inp s') = length (inp s).
Proof.
  intros Dr Er. induction l as [|[ty v] l' IH]; intros b i n s a out H S D HF.
  - cbn [length join Nat.add] in *. rewrite Nat.add_0_r. exists s, a. auto.
  - cbn [join snd] in H. rewrite <- !app_assoc in H.
    inversion D as [|? ? Dt D']; subst. cbn [seq_ok] in S. destruct S as (_ & _ & S').
    destruct (scan_tok lx (length l' + n) F s a (spaces (sp i)) ty v v
                (join sp (S i) l' ++ r) out H (blanks_spaces _) (dtk_itk lx _ _ Dt)) as (s1 & E1 & H1 & L1).
    { destruct ty; cbn [follow_ok]; try exact I.
      - intros _. apply hd_join_cases; [exact D'|discriminate|exact Er|].
        intros c Hc. apply (dfirst_props c Hc).
      - inversion Dt.
      - apply follow_delim; [exact D'| |exact Dr].
        assert (T : is_termtk (T_NUMBER, v) = true) by reflexivity. rewrite <- T. exact S'. }
    { exact HF. }
    destruct (IH _ (S i) n s1 _ _ H1 S' D' ltac:(lia)) as (s' & a' & E' & H' & L').
    exists s', a'. split; [|split].
    + cbn [length Nat.add]. rewrite E1. exact E'.
    + cbn [length rev]. rewrite <- app_assoc. cbn [app].
      replace (i + S (length l'))%nat with (S i + length l')%nat by lia. exact H'.
    + lia.
Qed.

(** ", item" repeated *)
Definition item := (spacing * sexpr)%type.
Definition tail_text (rest : list item) : str := flat_map (fun se => 44 :: text_of (fst se) (snd se)) rest.
Definition tail_toks (rest : list item) : list tk := flat_map (fun se => (T_COMMA, [44]) :: toks_of (snd se)) rest.

Lemma hd_tail rest r (P : Z -> Prop) : P 44 -> P (hd 0 r) -> P (hd 0 (tail_text rest ++ r)).
Proof. intros P44 Pr. destruct rest as [|se rest']; [exact Pr|exact P44]. Qed.

Lemma scan_tail lx F r : delim (hd 0 r) = true -> hd 0 r <> 61 ->
  forall rest k n s a out,
  Zv s a [] (spaces k ++ tail_text rest ++ r) out -> Forall (fun se => dlex (snd se)) rest ->
  (length (inp s) + 1 < F)%nat ->
  exists s' a' k', scan_loop (length (tail_toks rest) + n) F (lex_initial lx) s
                   = scan_loop n F (lex_initial lx) s' /\
                   Zv s' a' [] (spaces k' ++ r) (rev (tail_toks rest) ++ out) /\
                   length (inp s') = length (inp s).
Proof.
  intros Dr Er. induction rest as [|[sp e] rest' IH]; intros k n s a out H D HF.
  - cbn [tail_text tail_toks flat_map app length Nat.add rev] in *. exists s, a, k. auto.
  - inversion D as [|? ? De D']; subst. cbn [snd] in De.
    cbn [tail_text tail_toks flat_map fst snd] in *. fold (tail_text rest') in H. fold (tail_toks rest').
    rewrite <- app_assoc in H. cbn [app] in H. rewrite text_of_join in H.
    change (44 :: join sp 0 (toks_of e) ++ tail_text rest' ++ r)
      with ([44] ++ join sp 0 (toks_of e) ++ tail_text rest' ++ r) in H.
    rewrite app_length. cbn [length]. rewrite <- Nat.add_assoc. cbn [Nat.add].
    destruct (scan_tok lx (length (toks_of e) + (length (tail_toks rest') + n)) F s a (spaces k) T_COMMA [44] [44]
                _ out H (blanks_spaces _) (i_comma lx) I HF) as (s1 & E1 & H1 & L1).
    assert (Dr' : delim (hd 0 (tail_text rest' ++ r)) = true) by (apply hd_tail; [reflexivity|exact Dr]).
    assert (Er' : hd 0 (tail_text rest' ++ r) <> 61) by (apply hd_tail; [discriminate|exact Er]).
    pose proof (seq_toks e (dlex_lexable e De) [] I) as Sq. rewrite app_nil_r in Sq.
    destruct (scan_segment lx sp F _ Dr' Er' (toks_of e) false 0%nat (length (tail_toks rest') + n)%nat
                s1 _ _ H1 Sq (dlex_toks e De) ltac:(lia)) as (s2 & a2 & E2 & H2 & L2).
    destruct (IH _ n s2 a2 _ H2 D' ltac:(lia)) as (s' & a' & k' & E' & H' & L').
    exists s', a', k'. split; [|split].
    + exact (eq_trans E1 (eq_trans E2 E')).
    + rewrite rev_app_distr. cbn [rev]. rewrite <- !app_assoc. cbn [app]. exact H'.
    + lia.
Qed.

(** the end of the input *)
Lemma scan_finish lx n F s a ws out :
  Zv s a [] ws out -> all_in blanks ws -> (length (inp s) + 1 < F)%nat ->
  exists toks eof lines,
    scan_loop (S (S n)) F (lex_initial lx) s = ScanOk (toks ++ [eof]) lines /\
    map tv toks = rev out /\ tv eof = (T_EOF, []).
Proof.
  intros H B HF.
  assert (Fin : forall m s1 a1, Zv s1 a1 [] [] out ->
            exists toks eof lines, scan_loop (S m) F (lex_initial lx) s1 = ScanOk (toks ++ [eof]) lines /\
              map tv toks = rev out /\ tv eof = (T_EOF, [])).
  { intros m s1 a1 H1. pose proof (Zv_len _ _ _ _ _ H1) as L1. cbn [length] in L1.
    pose proof (token_text_Zv _ _ _ _ _ H1) as TT. destruct H1 as (_ & _ & P & I4). cbn [length] in P.
    cbn [scan_loop].
    replace (pos s1 <? length (inp s1))%nat with false by (symmetry; apply Nat.ltb_ge; lia).
    exists (rev (toks_rev s1)), (get_token s1 T_EOF), (rev (lines_rev (handle_line (emit s1 T_EOF)))).
    split; [|split].
    - rewrite handle_line_toks. reflexivity.
    - rewrite map_rev, I4. reflexivity.
    - unfold tv, get_token. cbn [t_type t_value]. f_equal. exact TT. }
  destruct ws as [|w ws'].
  - apply (Fin (S n) s a). exact H.
  - destruct (init_eof lx F s a (w :: ws') out H B HF) as (s' & E & H').
    pose proof (Zv_len _ _ _ _ _ H) as L. pose proof (Zv_len _ _ _ _ _ H') as L'.
    rewrite ?app_length in L, L'. cbn [length] in L, L'.
    destruct (Fin n s' _ H') as (toks & eof & lines & E' & T & Eo).
    exists toks, eof, lines. split; [|split; assumption].
    rewrite <- E'. clear E'.
    destruct H as (_ & _ & P & _). destruct H' as (_ & _ & P' & _).
    rewrite !app_length in P'. cbn [length] in P, P'.
    change (scan_loop (S (S n)) F (lex_initial lx) s) with
      (if (pos s <? length (inp s))%nat then
         match lex_initial lx F s with
         | LOk s' =>
             if (pos s' =? pos s)%nat then
               let s1 := ignore s' in
               scan_handler F (M_InvalidInput (skipn (pos s1) (inp s1))) (fst (get_position s1)) (snd (get_position s1)) s1
             else scan_loop (S n) F (lex_initial lx) s'
         | LRaise m line col s' => scan_handler F m line col s'
         | LStuck => ScanStuck
         | LOutOfFuel => ScanOutOfFuel
         end
       else
         let s1 := emit s T_EOF in
         let s2 := handle_line s1 in
         ScanOk (rev (toks_rev s2)) (rev (lines_rev s2))).
    replace (pos s <? length (inp s))%nat with true by (symmetry; apply Nat.ltb_lt; lia).
    rewrite E. replace (pos s' =? pos s)%nat with false by (symmetry; apply Nat.eqb_neq; lia).
    reflexivity.
Qed.

(* ------------------------------------------------------------------------------------------ *)
(** * S1: the two-line source *)

(** "*=" origin "\n" "." keyword item { "," item } "\n" *)
Definition data_src (sp0 : spacing) (eorg : sexpr) (kw : str) (it1 : item) (rest : list item) : str :=
  [42; 61] ++ text_of sp0 eorg ++ [10] ++ 46 :: kw ++ text_of (fst it1) (snd it1) ++ tail_text rest ++ [10].

Definition data_toks (eorg : sexpr) (kw : str) (it1 : item) (rest : list item) : list tk :=
  (T_STAR_EQ, [42; 61]) :: toks_of eorg ++ (T_KEYWORD, kw) :: toks_of (snd it1) ++ tail_toks rest.

Theorem scan_data_src lx file sp0 eorg kw it1 rest :
  dlex eorg -> dlex (snd it1) -> Forall (fun se => dlex (snd se)) rest ->
  all_in kw_chars kw -> mem_str kw (lx_keywords lx) = true ->
  exists toks eof lines,
    scan lx file (data_src sp0 eorg kw it1 rest) = ScanOk (toks ++ [eof]) lines /\
    map tv toks = data_toks eorg kw it1 rest /\ tv eof = (T_EOF, []).
Proof.
  intros Do D1 Dr Akw Kkw. destruct it1 as [sp1 e1]. cbn [fst snd] in *.
  set (src := data_src sp0 eorg kw (sp1, e1) rest).
  set (n3 := (length (tail_toks rest) + (length src + 2))%nat).
  set (n2 := (length (toks_of e1) + n3)%nat).
  set (n1 := (length (toks_of eorg) + S n2)%nat).
  set (F := S n1).
  rewrite <- (scan_fuel_irrelevant lx file src F) by (unfold scan_fuel, F, n1, n2, n3; lia).
  unfold scan_with_fuel, scan_gen.
  assert (HF : forall s, length (inp s) = length src -> (length (inp s) + 1 < F)%nat)
    by (intros s E; rewrite E; unfold F, n1, n2, n3; lia).
  assert (H0 : Zv (init_sc file src) [] [] src []) by (unfold Zv, init_sc; cbn; auto).
  unfold src at 2 in H0. unfold data_src in H0. cbn [fst snd] in H0.
  (* *= *)
  unfold F at 1.
  destruct (scan_tok lx n1 F (init_sc file src) [] [] T_STAR_EQ [42; 61] [42; 61] _ [] H0 (Forall_nil _)
              (i_stareq lx) I (HF (init_sc file src) eq_refl)) as (s1 & E1 & H1 & L1).
  rewrite E1. clear E1. cbn [app] in H1. unfold n1.
  (* origin *)
  rewrite text_of_join in H1.
  pose proof (seq_toks eorg (dlex_lexable _ Do) [] I) as Sq0. rewrite app_nil_r in Sq0.
  destruct (scan_segment lx sp0 F _ (eq_refl : delim (hd 0 (10 :: _)) = true) ltac:(discriminate)
              (toks_of eorg) false 0%nat (S n2) s1 _ _ H1 Sq0 (dlex_toks _ Do) (HF _ L1))
    as (s2 & a2 & E2 & H2 & L2).
  rewrite E2. clear E2. rewrite L1 in L2.
  (* keyword *)
  rewrite text_of_join in H2.
  assert (B2 : all_in blanks (spaces (sp0 (0 + length (toks_of eorg))%nat) ++ [10])).
  { apply Forall_app. split; [apply blanks_spaces|repeat constructor]. }
  assert (H2' : Zv s2 a2 [] ((spaces (sp0 (0 + length (toks_of eorg))%nat) ++ [10]) ++ (46 :: kw) ++
                              (join sp1 0 (toks_of e1) ++ tail_text rest ++ [10]))
                   (rev (toks_of eorg) ++ [(T_STAR_EQ, [42; 61])]))
    by (rewrite <- app_assoc; exact H2).
  destruct (scan_tok lx n2 F s2 a2 _ T_KEYWORD kw (46 :: kw) _ _ H2' B2 (i_kw lx kw Akw Kkw)) as (s3 & E3 & H3 & L3).
  { cbn [follow_ok]. apply hd_join_cases; [exact (dlex_toks _ D1)|reflexivity| |].
    - apply hd_tail; reflexivity.
    - intros c Hc. apply (dfirst_props c Hc). }
  { exact (HF _ L2). }
  rewrite E3. clear E3. rewrite L2 in L3. unfold n2.
  (* first item *)
  pose proof (seq_toks e1 (dlex_lexable _ D1) [] I) as Sq1. rewrite app_nil_r in Sq1.
  assert (Dn : delim (hd 0 (tail_text rest ++ [10])) = true) by (apply hd_tail; reflexivity).
  assert (En : hd 0 (tail_text rest ++ [10]) <> 61) by (apply hd_tail; discriminate).
  destruct (scan_segment lx sp1 F _ Dn En (toks_of e1) false 0%nat n3 s3 _ _ H3 Sq1 (dlex_toks _ D1) (HF _ L3))
    as (s4 & a4 & E4 & H4 & L4).
  rewrite E4. clear E4. rewrite L3 in L4. unfold n3.
  (* the other items *)
  destruct (scan_tail lx F [10] eq_refl ltac:(discriminate) rest _ (length src + 2)%nat s4 a4 _ H4 Dr (HF _ L4))
    as (s5 & a5 & k5 & E5 & H5 & L5).
  rewrite E5. clear E5. rewrite L4 in L5.
  (* end *)
  assert (B5 : all_in blanks (spaces k5 ++ [10])).
  { apply Forall_app. split; [apply blanks_spaces|repeat constructor]. }
  replace (length src + 2)%nat with (S (S (length src))) by lia.
  destruct (scan_finish lx (length src) F s5 a5 _ _ H5 B5 (HF _ L5)) as (toks & eof & lines & E & T & Eo).
  exists toks, eof, lines. split; [exact E|]. split; [|exact Eo].
  rewrite T. unfold data_toks. cbn [snd].
  rewrite !rev_app_distr. cbn [rev app]. rewrite !rev_app_distr, !rev_involutive. cbn [rev app].
  rewrite <- !app_assoc. cbn [app]. reflexivity.
Qed.

Print Assumptions scan_data_src.
