(** C09 — deferred macro arguments.

    An argument that cannot be evaluated at expansion ([Err ESymbol]) becomes [AVDeferred e] and is
    bound during the passes by a node [NSymbol p e true]: evaluated from the PARENT of the
    application scope, so it is never captured by anything the application scope holds.  The
    inlined twin [{ p = e  body }] produces [NSymbol p e false], evaluated from the block scope
    itself.  The two agree exactly when no identifier of [e] is bound (symbol, label or code) in
    the block scope's own dictionaries at that moment.

    What the application scope holds when the symbol pass reaches the node of the i-th deferred
    parameter (see [symbol_pass_defs] and the examples): every evaluated (int / code) parameter —
    the LATER ones too, they were bound at expansion —, every [name := expr] of the body's own
    level (bound at expansion), every label of the body's own level and every [inner.k] exported
    by a named scope of the body (bound by the label pass, which runs first), and the deferred
    parameters p_1..p_{i-1}.  So "application = inlining" needs the deferred expressions to avoid
    all of those, not only the earlier parameters. *)
From Coq Require Import ZArith List Lia Bool Arith.
From A816 Require Import Model.Codegen Spec.EnvSem Proofs.BusProofs Proofs.ResolverProofs Proofs.EvalCongr
     Proofs.CodegenProofs Proofs.NonInterference.
Open Scope Z_scope.

(** ** (1) One node: the flag is irrelevant when the scope itself binds no identifier of [e] *)

(** with a well-formed scope tree any fuel above the index gives the same lookup *)
Lemma value_for_fuel_irrel scopes : wf_scopes scopes -> forall f1 f2 i q,
  (i < f1)%nat -> (i < f2)%nat -> value_for_fuel scopes f1 i q = value_for_fuel scopes f2 i q.
Proof.
  intros Hwf f1 f2 i q H1 H2. destruct (Nat.lt_ge_cases i (length scopes)) as [L|G].
  - eapply Resolves_fun; apply value_for_resolves; auto.
  - destruct f1 as [|f1]; [lia|]. destruct f2 as [|f2]; [lia|]. cbn [value_for_fuel].
    rewrite (proj2 (nth_error_None scopes i) G). reflexivity.
Qed.

(** "name not in the current scope's own dictionaries" is [defines s q = false] (Spec/EnvSem):
    [dict_mem (s_symbols s) q || dict_mem (s_code s) q]; labels are symbols too. *)
Lemma value_for_skip scopes i s p q :
  wf_scopes scopes -> nth_error scopes i = Some s -> s_parent s = Some p -> defines s q = false ->
  value_for_fuel scopes (S i) i q = value_for_fuel scopes (S p) p q.
Proof.
  intros Hwf Hn Hp Hd. pose proof (Hwf _ _ _ Hn Hp). unfold defines in Hd.
  transitivity (value_for_fuel scopes i p q).
  - cbn [value_for_fuel]. rewrite Hn, Hp, Hd. reflexivity.
  - apply value_for_fuel_irrel; auto; lia.
Qed.

(** no identifier of [e] is bound in the current scope itself *)
Definition own_free (r : rstate) (e : expr) : Prop :=
  forall s, nth_error (r_scopes r) (r_cur r) = Some s ->
  forall t, In t e -> en_type t = T_IDENTIFIER -> defines s (en_val t) = false.

Definition own_of (r : rstate) (q : str) : bool :=
  match nth_error (r_scopes r) (r_cur r) with Some s => defines s q | None => false end.
Definition own_freeb (r : rstate) (e : expr) : bool :=
  forallb (fun t => match en_type t with T_IDENTIFIER => negb (own_of r (en_val t)) | _ => true end) e.
Lemma own_freeb_spec r e : own_freeb r e = true -> own_free r e.
Proof.
  unfold own_freeb, own_free, own_of. intros H s Hs t Ht Hty. rewrite forallb_forall in H.
  specialize (H t Ht). rewrite Hty, Hs in H. destruct (defines s (en_val t)); [discriminate|reflexivity].
Qed.

Theorem eval_from_parent w r e :
  wf_scopes (r_scopes r) -> own_free r e -> eval_raw w (eval_scope r true) e = eval_raw w r e.
Proof.
  intros Hwf Hfree. unfold eval_scope.
  destruct (nth_error (r_scopes r) (r_cur r)) as [s|] eqn:Hn; [|reflexivity].
  destruct (s_parent s) as [p|] eqn:Hp; [|reflexivity].
  unfold eval_raw. apply eval_expression_congr. apply Forall_forall. intros t Ht Hty.
  unfold env_of, value_for. cbn [set_cur r_scopes r_cur].
  rewrite (value_for_skip _ _ _ _ (en_val t) Hwf Hn Hp (Hfree s Hn t Ht Hty)). reflexivity.
Qed.

Theorem deferred_flag_irrelevant w r p e a :
  wf_scopes (r_scopes r) -> own_free r e ->
  pc_after w r (NSymbol p e true) a = pc_after w r (NSymbol p e false) a.
Proof.
  intros Hwf Hfree.
  change (bind (eval_raw w (eval_scope r true) e) (fun v => Ok (add_symbol r p v, a)) =
          bind (eval_raw w r e) (fun v => Ok (add_symbol r p v, a))).
  rewrite (eval_from_parent w r e Hwf Hfree). reflexivity.
Qed.

(** ** (2) Code generation: application with evaluated and deferred arguments = the inlined block,
    up to the flag of the parameter nodes *)

(** a parameter binding: an evaluated argument (with a literal [lit] denoting its value in the
    inlined twin) or a deferred one *)
Inductive pbind := PInt (v : Z) (lit : expr) | PDef (e : expr).

Definition bound_of (pbs : list (str * pbind)) : list (str * argval) :=
  map (fun pb => (fst pb, match snd pb with PInt v _ => AVInt v | PDef e => AVDeferred e end)) pbs.
(** the twin's parameter statements, in parameter order: [p := lit] / [p = e] *)
Definition stmts_of (pbs : list (str * pbind)) (fi : token) : list ast :=
  map (fun pb => match snd pb with PInt _ lit => AAssign (fst pb) lit fi | PDef e => ASymbol (fst pb) e fi end) pbs.
Definition def_nodes (flag : bool) (pbs : list (str * pbind)) : list node :=
  flat_map (fun pb => match snd pb with PDef e => [NSymbol (fst pb) e flag] | PInt _ _ => [] end) pbs.
Definition lits_closed (w : world) (pbs : list (str * pbind)) : Prop :=
  Forall (fun pb => match snd pb with PInt v lit => forall r, eval_raw w r lit = Ok v | PDef _ => True end) pbs.
Definition int_fold (r : rstate) (pbs : list (str * pbind)) : rstate :=
  fold_left (fun r pb => match snd pb with PInt v _ => add_symbol r (fst pb) v | PDef _ => r end) pbs r.

Lemma bind_macro_args_pb pbs : forall r,
  bind_macro_args r (bound_of pbs) = (int_fold r pbs, def_nodes true pbs).
Proof.
  induction pbs as [|[p b] pbs IH]; intros r; [reflexivity|].
  destruct b as [v lit|e]; cbn [bound_of map fst snd bind_macro_args].
  - fold (bound_of pbs). rewrite IH. reflexivity.
  - fold (bound_of pbs). rewrite IH. reflexivity.
Qed.

Lemma gen_stmts w gen fi pbs : forall s, lits_closed w pbs ->
  gen_list w gen s (stmts_of pbs fi) = Ok (cg_set_r s (int_fold (cg_r s) pbs), def_nodes false pbs).
Proof.
  induction pbs as [|[p b] pbs IH]; intros s H.
  - cbn. destruct s; reflexivity.
  - inversion H as [|? ? Hb Hrest]; subst. cbn [fst snd] in Hb.
    destruct b as [v lit|e]; cbn [stmts_of map fst snd gen_list gen_one].
    + rewrite Hb. cbn [bind fst snd]. fold (stmts_of pbs fi). rewrite IH by assumption. reflexivity.
    + cbn [bind fst snd]. fold (stmts_of pbs fi). rewrite IH by assumption. reflexivity.
Qed.

(** Same final code-generation state; node lists equal except for the flag of the nodes of the
    deferred parameters; same error otherwise. *)
Theorem macro_application_inlined_deferred w f s name args fi fi' fi'' md pbs :
  dict_get (cg_macros s) name = Some md ->
  eval_macro_args w (cg_r s) (md_params md) args = Ok (bound_of pbs) ->
  lits_closed w pbs ->
  match gen_one w (code_gen_fuel w (S f)) s (ACompound (stmts_of pbs fi'' ++ md_body md) fi') with
  | Ok x => exists body_ns,
      snd x = NScope :: def_nodes false pbs ++ body_ns ++ [NPop] /\
      gen_one w (code_gen_fuel w (S f)) s (AMacroApply name args fi) =
      Ok (fst x, NScope :: def_nodes true pbs ++ body_ns ++ [NPop])
  | Err k => gen_one w (code_gen_fuel w (S f)) s (AMacroApply name args fi) = Err k
  | OutOfFuel => gen_one w (code_gen_fuel w (S f)) s (AMacroApply name args fi) = OutOfFuel
  end.
Proof.
  intros Hmd Hargs Hlits. cbn [gen_one]. rewrite Hmd, Hargs. cbn [bind].
  unfold scoped. destruct (enter_scope (cg_r s) SPlain) as [r1| |]; cbn [bind]; try reflexivity.
  rewrite bind_macro_args_pb.
  cbn [code_gen_fuel]. rewrite gen_list_app.
  rewrite (gen_stmts w _ fi'' pbs (cg_set_r s r1) Hlits). cbn [bind fst snd cg_set_r cg_r cg_macros].
  destruct (gen_list w (code_gen_fuel w f) _ (md_body md)) as [[s2 n2]| |]; cbn [bind fst snd app]; try reflexivity.
  destruct (restore_scope (cg_r s2) false) as [r3| |]; cbn [bind fst snd]; try reflexivity.
  exists n2. rewrite <- app_assoc. split; reflexivity.
Qed.

(** when do the arguments evaluate to [bound_of pbs]: argument i is an expression that evaluates
    to v_i at the call site, or fails there with SymbolNotDefined and is deferred as it stands *)
Lemma eval_macro_args_pb w r : forall pbs (es : list expr),
  Forall2 (fun pb e => match snd pb with
                       | PInt v _ => eval_raw w r e = Ok v
                       | PDef e' => e' = e /\ eval_raw w r e = Err ESymbol
                       end) pbs es ->
  eval_macro_args w r (map fst pbs) (map inl es) = Ok (bound_of pbs).
Proof.
  induction 1 as [|[p b] e pbs es Hb H IH]; [reflexivity|].
  cbn [map fst snd eval_macro_args bound_of] in *. fold (bound_of pbs). rewrite IH.
  destruct b as [v lit|e']; [rewrite Hb|destruct Hb as [-> ->]]; reflexivity.
Qed.

(** ** (3) The passes *)

(** two node lists that differ at most in the flag of SymbolNodes *)
Definition frel (n1 n2 : node) : Prop :=
  n1 = n2 \/ exists p e b1 b2, n1 = NSymbol p e b1 /\ n2 = NSymbol p e b2.

Lemma frel_refl_list ns : Forall2 frel ns ns.
Proof. induction ns; constructor; auto. left. reflexivity. Qed.
Lemma frel_defs pbs b1 b2 : Forall2 frel (def_nodes b1 pbs) (def_nodes b2 pbs).
Proof.
  induction pbs as [|[p b] pbs IH]; [constructor|]. unfold def_nodes in *. cbn [flat_map fst snd].
  destruct b as [v lit|e]; cbn [app]; auto. constructor; auto. right. exists p, e, b1, b2. split; reflexivity.
Qed.

(** the label pass skips SymbolNodes, emission ignores them *)
Lemma label_pass_frel w ns1 ns2 : Forall2 frel ns1 ns2 -> forall r a acc,
  label_pass w r ns1 a acc = label_pass w r ns2 a acc.
Proof.
  induction 1 as [|n1 n2 l1 l2 Hn H IH]; intros r a acc; cbn [label_pass]; [reflexivity|].
  destruct Hn as [<-|(p & e & b1 & b2 & -> & ->)].
  - destruct (is_symbol_node n1); [apply IH|].
    destruct (pc_after w r n1 a) as [[r1 a1]| |]; cbn [bind fst snd]; auto.
  - cbn [is_symbol_node]. apply IH.
Qed.

Lemma emit_step_frel w st n1 n2 x : frel n1 n2 -> emit_step w st n1 x = emit_step w st n2 x.
Proof. intros [<-|(p & e & b1 & b2 & -> & ->)]; reflexivity. Qed.

Lemma emit_loop_frel w ns1 ns2 : Forall2 frel ns1 ns2 -> forall st l,
  emit_loop w st ns1 l = emit_loop w st ns2 l.
Proof.
  induction 1 as [|n1 n2 l1 l2 Hn H IH]; intros st l; cbn [emit_loop]; [reflexivity|].
  destruct l as [|x l]; [reflexivity|]. rewrite (emit_step_frel w st n1 n2 x Hn).
  destruct (emit_step w st n2 x); cbn [bind]; auto.
Qed.

(** well-formedness of the scope tree along the passes *)
Lemma wf_pc_after w r n a r' a' :
  wf_scopes (r_scopes r) -> pc_after w r n a = Ok (r', a') -> wf_scopes (r_scopes r').
Proof.
  intros Hwf. destruct n; cbn [pc_after];
    repeat match goal with
           | |- bind ?x _ = Ok _ -> _ => let E := fresh "E" in destruct x eqn:E; cbn [bind]; try discriminate
           end;
    intros X; inversion X; subst; clear X; auto;
    try (unfold add_symbol, add_label, upd_scope; cbn [set_scopes r_scopes]; repeat apply wf_update; auto; fail).
  - unfold use_next_scope in E. destruct (nth_error _ _); [|discriminate]. inversion E; subst. exact Hwf.
  - unfold restore_scope in E. destruct (nth_error _ _) as [s|]; [|discriminate].
    destruct (s_parent s); [|discriminate]. inversion E; subst; clear E. cbn [set_cur r_scopes].
    destruct (s_kind s); auto. unfold upd_scope. cbn [set_scopes r_scopes].
    apply wf_update; auto. intros s0. apply export_into_parent.
Qed.

Lemma wf_label_pass w ns : forall r a acc r' a' l,
  wf_scopes (r_scopes r) -> label_pass w r ns a acc = Ok (r', a', l) -> wf_scopes (r_scopes r').
Proof.
  induction ns as [|n ns IH]; intros r a acc r' a' l Hwf; cbn [label_pass].
  - intros X; inversion X; subst; auto.
  - destruct (is_symbol_node n); [apply IH; auto|].
    destruct (pc_after w r n a) as [[r1 a1]| |] eqn:E; cbn [bind fst snd]; try discriminate.
    apply IH. eapply wf_pc_after; eauto.
Qed.

Lemma wf_symbol_pass w ns : forall r a r' a',
  wf_scopes (r_scopes r) -> symbol_pass w r ns a = Ok (r', a') -> wf_scopes (r_scopes r').
Proof.
  induction ns as [|n ns IH]; intros r a r' a' Hwf; cbn [symbol_pass].
  - intros X; inversion X; subst; auto.
  - destruct (is_label_or_binary n); [apply IH; auto|].
    destruct (pc_after w r n a) as [[r1 a1]| |] eqn:E; cbn [bind fst snd]; try discriminate.
    apply IH. eapply wf_pc_after; eauto.
Qed.

Lemma symbol_pass_app w pre : forall post r a,
  symbol_pass w r (pre ++ post) a = (do x <- symbol_pass w r pre a; symbol_pass w (fst x) post (snd x)).
Proof.
  induction pre as [|n pre IH]; intros post r a; cbn [app symbol_pass]; [reflexivity|].
  destruct (is_label_or_binary n); [apply IH|].
  destruct (pc_after w r n a) as [[r1 a1]| |]; cbn [bind fst snd]; auto.
Qed.

(** the condition on the deferred expressions, relative to what the application scope itself
    binds ([own]) when it is entered in the symbol pass: e_i mentions nothing the scope binds and
    none of the deferred parameters before it *)
Fixpoint def_cond (own : str -> bool) (earlier : list str) (pbs : list (str * pbind)) : Prop :=
  match pbs with
  | [] => True
  | (p, PInt _ _) :: rest => def_cond own earlier rest
  | (p, PDef e) :: rest =>
      (forall t, In t e -> en_type t = T_IDENTIFIER -> own (en_val t) = false /\ ~ In (en_val t) earlier) /\
      def_cond own (p :: earlier) rest
  end.

Lemma defines_add_symbol p v s q : defines (scope_add_symbol p v s) q = true -> defines s q = true \/ q = p.
Proof.
  unfold defines, dict_mem. cbn [scope_add_symbol s_symbols s_code].
  destruct (str_eqb q p) eqn:E; [right; apply str_eqb_eq; exact E|].
  rewrite (dict_get_set_other _ _ _ _ E). auto.
Qed.

Lemma symbol_pass_defs_gen w rest a pbs : forall r earlier (own : str -> bool),
  wf_scopes (r_scopes r) ->
  (forall q, own_of r q = true -> own q = true \/ In q earlier) ->
  def_cond own earlier pbs ->
  symbol_pass w r (def_nodes true pbs ++ rest) a = symbol_pass w r (def_nodes false pbs ++ rest) a.
Proof.
  unfold def_nodes. induction pbs as [|[p b] pbs IH]; intros r earlier own Hwf Hinv Hc; [reflexivity|].
  cbn [flat_map fst snd]. destruct b as [v lit|e]; cbn [def_cond] in Hc.
  - cbn [app]. apply (IH r earlier own); auto.
  - destruct Hc as [He Hrest]. cbn [app symbol_pass is_label_or_binary].
    assert (Hfree : own_free r e).
    { intros s Hs t Ht Hty. destruct (He t Ht Hty) as [Ho Hnin].
      destruct (defines s (en_val t)) eqn:Hd; [|reflexivity]. exfalso.
      destruct (Hinv (en_val t)) as [A|B]; [unfold own_of; rewrite Hs; exact Hd|congruence|contradiction]. }
    rewrite (deferred_flag_irrelevant w r p e a Hwf Hfree).
    destruct (pc_after w r (NSymbol p e false) a) as [[r1 a1]| |] eqn:E; cbn [bind fst snd]; auto.
    pose proof (wf_pc_after _ _ _ _ _ _ Hwf E) as Hwf1.
    cbn [pc_after] in E. destruct (eval_raw w r e) as [v| |]; cbn [bind] in E; try discriminate.
    inversion E; subst; clear E.
    apply (IH (add_symbol r p v) (p :: earlier) own Hwf1); [|exact Hrest].
    intros q Hq. unfold own_of, add_symbol, upd_scope in Hq. cbn [set_scopes r_scopes r_cur] in Hq.
    rewrite nth_list_update, Nat.eqb_refl in Hq.
    destruct (nth_error (r_scopes r) (r_cur r)) as [s|] eqn:Hs; cbn [option_map] in Hq; [|discriminate].
    apply defines_add_symbol in Hq. destruct Hq as [Hq | ->]; [|right; left; reflexivity].
    destruct (Hinv q) as [A|B]; [unfold own_of; rewrite Hs; exact Hq|auto|right; right; exact B].
Qed.

Theorem symbol_pass_defs w rest a pbs r :
  wf_scopes (r_scopes r) -> def_cond (own_of r) [] pbs ->
  symbol_pass w r (def_nodes true pbs ++ rest) a = symbol_pass w r (def_nodes false pbs ++ rest) a.
Proof. intros Hwf Hc. eapply symbol_pass_defs_gen; eauto. Qed.

(** The whole assembly.  [pre] is everything before the application (or block), [rest] its body,
    its PopScopeNode and everything after.  The condition is on the resolver state in which the
    symbol pass enters the scope. *)
Theorem assemble_nodes_deferred_inlined w r pre pbs rest :
  wf_scopes (r_scopes r) ->
  (forall r1 a1 l r2 a2 r3,
     label_pass w (set_cur_last r (r_cur r) 0) (pre ++ NScope :: def_nodes true pbs ++ rest) (r_reloc r) [] = Ok (r1, a1, l) ->
     symbol_pass w (resolver_reset r1) pre (r_reloc r1) = Ok (r2, a2) ->
     use_next_scope r2 = Ok r3 ->
     def_cond (own_of r3) [] pbs) ->
  assemble_nodes w r (pre ++ NScope :: def_nodes true pbs ++ rest) =
  assemble_nodes w r (pre ++ NScope :: def_nodes false pbs ++ rest).
Proof.
  intros Hwf Hcond.
  assert (HF : Forall2 frel (pre ++ NScope :: def_nodes true pbs ++ rest) (pre ++ NScope :: def_nodes false pbs ++ rest)).
  { apply Forall2_app; [apply frel_refl_list|]. constructor; [left; reflexivity|].
    apply Forall2_app; [apply frel_defs|apply frel_refl_list]. }
  unfold assemble_nodes, resolve_labels.
  rewrite <- (label_pass_frel w _ _ HF).
  cbn [r_reloc set_cur_last] in *.
  destruct (label_pass w (set_cur_last r (r_cur r) 0) _ (r_reloc r) []) as [[[r1 a1] l]| |] eqn:EL; cbn [bind fst snd]; auto.
  pose proof (wf_label_pass w _ (set_cur_last r (r_cur r) 0) _ _ _ _ _ Hwf EL) as Hwf1.
  assert (ES : symbol_pass w (resolver_reset r1) (pre ++ NScope :: def_nodes true pbs ++ rest) (r_reloc (resolver_reset r1)) =
               symbol_pass w (resolver_reset r1) (pre ++ NScope :: def_nodes false pbs ++ rest) (r_reloc (resolver_reset r1))).
  { rewrite !symbol_pass_app. cbn [resolver_reset r_reloc set_pc set_cur_last].
    destruct (symbol_pass w (resolver_reset r1) pre (r_reloc r1)) as [[r2 a2]| |] eqn:E2; cbn [bind fst snd]; auto.
    pose proof (wf_symbol_pass w _ (resolver_reset r1) _ _ _ Hwf1 E2) as Hwf2.
    cbn [symbol_pass is_label_or_binary pc_after].
    destruct (use_next_scope r2) as [r3| |] eqn:E3; cbn [bind fst snd]; auto.
    apply symbol_pass_defs.
    - unfold use_next_scope in E3. destruct (nth_error _ _); [|discriminate]. inversion E3; subst. exact Hwf2.
    - eapply Hcond; eauto. }
  rewrite ES.
  destruct (symbol_pass w (resolver_reset r1) (pre ++ NScope :: def_nodes false pbs ++ rest) (r_reloc (resolver_reset r1)))
    as [[r2 a2]| |]; cbn [bind fst snd]; auto.
  unfold emit. rewrite (emit_loop_frel w _ _ HF). reflexivity.
Qed.

(** ** Examples (the world of [NIExamples]): what the model does with a deferred argument *)
Module DeferredExamples.
  Import NIExamples.
  Notation a_ := [97]. Notation b_ := [98]. Notation c_ := [99]. Notation m_ := [109].
  Definition num5 : expr := [{| en_kind := EK_term; en_tok := mk_token T_NUMBER [53] |}].
  Definition ex_r0 : rstate :=
    {| r_scopes := [new_scope None SPlain]; r_cur := 0; r_last := 0; r_pc := 0;
       r_reloc := {| a_bus := lorom; a_val := 0 |}; r_bus := empty_bus; r_rom := LowRom |}.

  (** .macro m(a, b) { .dw a }   *=0x8000   m(arg, 5)   lbl:     -- [arg] is a label defined later *)
  Definition body := [AData D_dw [ident a_] fi].
  Definition prog (arg lbl : str) : list ast :=
    [AMacro m_ [a_; b_] body fi fi; AStarEq num8000 fi; AMacroApply m_ [inl (ident arg); inl num5] fi; ALabel lbl fi].
  (** the inlined twin:  *=0x8000   { a = arg   b := 5   .dw a }   lbl: *)
  Definition pbs (arg : str) : list (str * pbind) := [(a_, PDef (ident arg)); (b_, PInt 5 num5)].
  Definition twin (arg lbl : str) : list ast :=
    [AStarEq num8000 fi; ACompound (stmts_of (pbs arg) fi ++ body) fi; ALabel lbl fi].

  (** the first argument is deferred, the second evaluated *)
  Example args_deferred : eval_macro_args ex_world ex_r0 [a_; b_] [inl (ident b_); inl num5] = Ok (bound_of (pbs b_)).
  Proof. reflexivity. Qed.
  Example lits_ok arg : lits_closed ex_world (pbs arg).
  Proof. repeat constructor. Qed.

  (** the argument names a label [c] the macro knows nothing about: application = inlining *)
  Example free_application : view (assemble_ast ex_world ex_r0 (prog c_ c_)) = Ok ([([2; 128], 0)], [(c_, 32770)]).
  Proof. vm_compute. reflexivity. Qed.
  Example free_twin : view (assemble_ast ex_world ex_r0 (twin c_ c_)) = Ok ([([2; 128], 0)], [(c_, 32770)]).
  Proof. vm_compute. reflexivity. Qed.

  (** the argument names a label [b], also the name of a LATER, evaluated parameter: the
      application is capture-free (the caller's label, 0x8002); the inlined block is captured by
      its own [b := 5].  So the condition is not only about earlier parameters. *)
  Example application_not_captured : view (assemble_ast ex_world ex_r0 (prog b_ b_)) = Ok ([([2; 128], 0)], [(b_, 32770)]).
  Proof. vm_compute. reflexivity. Qed.
  Example twin_captured : view (assemble_ast ex_world ex_r0 (twin b_ b_)) = Ok ([([5; 0], 0)], [(b_, 32770)]).
  Proof. vm_compute. reflexivity. Qed.

  (** node level: scope 1 binds b = 5, its parent binds b = 7 *)
  Definition ex_r1 : rstate :=
    {| r_scopes := [scope_add_symbol b_ 7 (new_scope None SPlain); scope_add_symbol b_ 5 (new_scope (Some 0%nat) SPlain)];
       r_cur := 1; r_last := 1; r_pc := 0;
       r_reloc := {| a_bus := lorom; a_val := 0 |}; r_bus := empty_bus; r_rom := LowRom |}.
  Example not_own_free : own_freeb ex_r1 (ident b_) = false. Proof. reflexivity. Qed.
  Example flag_matters :
    pc_after ex_world ex_r1 (NSymbol a_ (ident b_) true) (r_reloc ex_r1) = Ok (add_symbol ex_r1 a_ 7, r_reloc ex_r1) /\
    pc_after ex_world ex_r1 (NSymbol a_ (ident b_) false) (r_reloc ex_r1) = Ok (add_symbol ex_r1 a_ 5, r_reloc ex_r1).
  Proof. split; reflexivity. Qed.
End DeferredExamples.

Print Assumptions deferred_flag_irrelevant.
Print Assumptions macro_application_inlined_deferred.
Print Assumptions symbol_pass_defs.
Print Assumptions assemble_nodes_deferred_inlined.
