(** C12 — [-D NAME=VALUE] acts as a constant definition visible to the whole program.

    (1) [define_is_assign]: assembling a program with the defines pre-bound in the root scope
    ([initial_resolver]: [add_symbol] in the scope current after [resolver_init]) gives EXACTLY the
    same [aresult] — blocks, labels, final resolver state (hence the symbol-file lines), exception
    class and site — as assembling [NAME_1 := lit_1 ... NAME_n := lit_n] followed by the program with
    no defines.  No side condition on the names: [:=] is evaluated at code generation and binds with
    the same [add_symbol] in the same (root) scope, so duplicates among the defines, or a later
    [NAME := other] / [NAME = other] / [NAME:] in the program, behave identically in both runs.
    The only hypothesis: each literal denotes its value ([closed_literals]); [lit_of_Z] gives such a
    literal for every integer.

    (3) [eval_defines_fold]: the command line's evaluation of the -D texts is the fold of
    [eval_expression_str] over the list with a growing root scope. *)
From Coq Require Import ZArith List Lia Bool Arith.
From A816 Require Import Model.Assemble Proofs.BusProofs Proofs.ResolverProofs Proofs.EvalCongr
     Proofs.CodegenProofs Proofs.NonInterference Proofs.UnrollSim Proofs.Unroll Proofs.RenamingExpr.
Open Scope Z_scope.

(** ** (1) defines = leading [:=] statements *)
Lemma add_symbol_set_rom r t k v : add_symbol (set_rom r t) k v = set_rom (add_symbol r k v) t.
Proof. reflexivity. Qed.

Lemma fold_defines_set_rom ds : forall r t,
  fold_left (fun r pv => add_symbol r (fst pv) (snd pv)) ds (set_rom r t) =
  set_rom (fold_left (fun r pv => add_symbol r (fst pv) (snd pv)) ds r) t.
Proof. induction ds as [|[k v] ds IH]; intros r t; cbn [fold_left fst snd]; [reflexivity|]. rewrite add_symbol_set_rom. apply IH. Qed.

(** where code generation stops in [a ++ b]: in [a], or — when [a] is generated — in [b] *)
Lemma gen_list_site_app w gen gsite a : forall s b,
  gen_list_site w gen gsite s (a ++ b) =
  match gen_list w gen s a with
  | Ok x => gen_list_site w gen gsite (fst x) b
  | Err _ => gen_list_site w gen gsite s a
  | OutOfFuel => None
  end.
Proof.
  induction a as [|st a IH]; intros s b; cbn [app gen_list gen_list_site]; [reflexivity|].
  destruct (gen_one w gen s st) as [[s1 n1]| |]; cbn [bind fst snd]; try reflexivity.
  rewrite IH. destruct (gen_list w gen s1 a) as [[s2 n2]| |]; cbn [bind fst snd]; reflexivity.
Qed.

Theorem define_is_assign w rom ds lits fi prog :
  closed_literals w ds lits ->
  assemble_program w {| cf_rom := rom; cf_defines := ds |} prog =
  assemble_program w {| cf_rom := rom; cf_defines := [] |} (assigns ds lits fi ++ prog).
Proof.
  intros Hl. unfold assemble_program, initial_resolver. cbn [cf_rom cf_defines fold_left].
  destruct (resolver_init w) as [r0| |]; cbn [bind]; try reflexivity.
  change (code_gen_fuel w cg_depth) with (gen_list w (code_gen_fuel w 299)).
  change (code_gen_site w cg_depth) with (gen_list_site w (code_gen_fuel w 299) (code_gen_site w 299)).
  rewrite gen_list_app, gen_list_site_app.
  rewrite (gen_assigns w _ ds lits fi _ Hl). cbn [bind fst snd cg_set_r cg_r cg_macros app].
  assert (E : fold_left (fun r pv => add_symbol r (fst pv) (snd pv)) ds
                (match rom with Some t => set_rom r0 t | None => r0 end) =
              match rom with
              | Some t => set_rom (fold_left (fun r kv => add_symbol r (fst kv) (snd kv)) ds r0) t
              | None => fold_left (fun r kv => add_symbol r (fst kv) (snd kv)) ds r0
              end).
  { destruct rom; [apply fold_defines_set_rom|reflexivity]. }
  rewrite E.
  destruct (gen_list w (code_gen_fuel w 299) _ prog) as [[s ns]| |]; cbn [bind fst snd]; reflexivity.
Qed.

(** a literal for every integer: binary digits ("0b..."), a leading minus for negative values *)
Fixpoint bits (p : positive) (acc : str) : str :=
  match p with
  | xH => 49 :: acc
  | xO p' => bits p' (48 :: acc)
  | xI p' => bits p' (49 :: acc)
  end.
Definition nat_text (n : Z) : str := match n with Zpos p => 48 :: 98 :: bits p [] | _ => [48] end.
Definition lit_of_Z (v : Z) : expr := if v <? 0 then neg_expr (nat_text (- v)) else num_expr (nat_text v).

Lemma digits_bits p : forall acc a,
  digits_val 2 (bits p acc) a = digits_val 2 acc (a * 2 ^ Z.of_nat (Pos.size_nat p) + Zpos p).
Proof.
  induction p as [p IH|p IH|]; intros acc a; cbn [bits Pos.size_nat].
  - rewrite IH. change (digits_val 2 (49 :: acc) ?x) with (digits_val 2 acc (x * 2 + 1)).
    f_equal. rewrite Nat2Z.inj_succ, Z.pow_succ_r, Pos2Z.inj_xI by lia. generalize (2 ^ Z.of_nat (Pos.size_nat p)). intros P. lia.
  - rewrite IH. change (digits_val 2 (48 :: acc) ?x) with (digits_val 2 acc (x * 2 + 0)).
    f_equal. rewrite Nat2Z.inj_succ, Z.pow_succ_r, Pos2Z.inj_xO by lia. generalize (2 ^ Z.of_nat (Pos.size_nat p)). intros P. lia.
  - change (digits_val 2 (49 :: acc) a) with (digits_val 2 acc (a * 2 + 1)). f_equal.
Qed.
Lemma bits_nonempty p acc : bits p acc <> [].
Proof. revert acc; induction p; intros acc; cbn [bits]; auto; discriminate. Qed.

Lemma nat_text_value n : 0 <= n -> eval_number (nat_text n) = Ok n.
Proof.
  intros Hn. destruct n as [|p|p]; [reflexivity| |lia].
  unfold nat_text, eval_number. destruct (bits p []) eqn:E; [exfalso; eapply bits_nonempty; eauto|].
  rewrite <- E, digits_bits. cbn [digits_val]. f_equal.
Qed.

Lemma lit_of_Z_closed w v : forall r, eval_raw w r (lit_of_Z v) = Ok v.
Proof.
  unfold lit_of_Z. destruct (v <? 0) eqn:E.
  - apply Z.ltb_lt in E. intros r.
    pose proof (neg_expr_literal w (nat_text (- v)) (- v) (nat_text_value (- v) ltac:(lia)) r) as H.
    rewrite Z.opp_involutive in H. exact H.
  - apply Z.ltb_ge in E. intros r. exact (num_expr_literal w (nat_text v) v (nat_text_value v E) r).
Qed.

Lemma lits_closed w ds : closed_literals w ds (map (fun kv => lit_of_Z (snd kv)) ds).
Proof. induction ds as [|[k v] ds IH]; cbn [map closed_literals snd]; auto. split; [apply lit_of_Z_closed|exact IH]. Qed.

(** the statements [NAME := literal] for a list of defines *)
Definition define_stmts (ds : list (str * Z)) (fi : token) : list ast :=
  assigns ds (map (fun kv => lit_of_Z (snd kv)) ds) fi.

(** C12 on the model, AST level: unconditional *)
Theorem defines_are_constants w rom ds fi prog :
  assemble_program w {| cf_rom := rom; cf_defines := ds |} prog =
  assemble_program w {| cf_rom := rom; cf_defines := [] |} (define_stmts ds fi ++ prog).
Proof. apply define_is_assign. apply lits_closed. Qed.

(** ... through [assemble_source] on the parsed program: the defines of the configuration are the
    leading [:=] statements of the AST that is assembled *)
Corollary defines_are_constants_parsed (t : live) (fs : srcfiles) rom ds fi prog :
  assemble_program (world_of t fs) {| cf_rom := rom; cf_defines := ds |} prog =
  assemble_program (world_of t fs) {| cf_rom := rom; cf_defines := [] |} (define_stmts ds fi ++ prog).
Proof. apply defines_are_constants. Qed.

(** ** (3) the command line's evaluation of the -D texts *)

(** the environment [eval_defines] uses: the last binding of a name among those accumulated *)
Definition acc_env (acc : list (str * Z)) : env :=
  fun n => match assoc_str (rev acc) n with Some x => Ok x | None => Err ESymbol end.

(** the fold over a resolver whose root scope grows *)
Fixpoint eval_defines_r (prec : prectab) (r : rstate) (defs : list (str * str)) (acc : list (str * Z))
  : res (list (str * Z)) :=
  match defs with
  | [] => Ok acc
  | (name, text) :: rest =>
      do v <- eval_expression_str prec (env_of r) text;
      eval_defines_r prec (add_symbol r name v) rest (acc ++ [(name, v)])
  end.

Lemma eval_expression_str_ext prec ev1 ev2 text : (forall n, ev1 n = ev2 n) ->
  eval_expression_str prec ev1 text = eval_expression_str prec ev2 text.
Proof.
  intros H. unfold eval_expression_str. destruct (scan_expression memory_name text); try reflexivity.
  destruct (parse_expression_ep _ _); try reflexivity.
  apply eval_expression_congr. apply Forall_forall. intros t _ _. apply H.
Qed.

(** a resolver that is just a root scope without code symbols *)
Definition rootish (r : rstate) : Prop :=
  r_cur r = 0%nat /\ exists s, r_scopes r = [s] /\ s_parent s = None /\ s_code s = [].

Lemma rootish_env r : rootish r -> forall s, r_scopes r = [s] ->
  forall n, env_of r n = match dict_get (s_symbols s) n with Some v => Ok v | None => Err ESymbol end.
Proof.
  intros (Hc & s0 & Hs & Hp & Hcd) s Hs' n. rewrite Hs in Hs'. inversion Hs'; subst s0.
  unfold env_of, value_for. rewrite Hc, Hs. cbn [value_for_fuel nth_error]. rewrite Hp.
  unfold scope_getitem. rewrite Hcd. cbn [dict_get]. destruct (dict_get (s_symbols s) n); reflexivity.
Qed.

Lemma rootish_add r name v : rootish r -> rootish (add_symbol r name v).
Proof.
  intros (Hc & s & Hs & Hp & Hcd). split; [exact Hc|].
  exists (scope_add_symbol name v s). unfold add_symbol, upd_scope. cbn [set_scopes r_scopes]. rewrite Hc, Hs. auto.
Qed.

Definition agrees (r : rstate) (acc : list (str * Z)) : Prop := forall n, env_of r n = acc_env acc n.

Lemma agrees_add r acc name v : rootish r -> agrees r acc -> agrees (add_symbol r name v) (acc ++ [(name, v)]).
Proof.
  intros Hr Ha n. pose proof Hr as (Hc & s & Hs & Hp & Hcd).
  assert (Hs' : r_scopes (add_symbol r name v) = [scope_add_symbol name v s])
    by (unfold add_symbol, upd_scope; cbn [set_scopes r_scopes]; rewrite Hc, Hs; reflexivity).
  rewrite (rootish_env _ (rootish_add r name v Hr) _ Hs' n).
  unfold acc_env. rewrite rev_app_distr. cbn [rev app assoc_str scope_add_symbol s_symbols].
  destruct (str_eqb n name) eqn:E.
  - apply str_eqb_eq in E. subst. rewrite dict_get_set_same. reflexivity.
  - rewrite (dict_get_set_other _ _ _ _ E). rewrite <- (rootish_env r Hr s Hs n). apply Ha.
Qed.

Theorem eval_defines_fold prec defs : forall r acc, rootish r -> agrees r acc ->
  eval_defines prec defs acc = eval_defines_r prec r defs acc.
Proof.
  induction defs as [|[name text] defs IH]; intros r acc Hr Ha; cbn [eval_defines eval_defines_r]; [reflexivity|].
  change (fun n => match assoc_str (rev acc) n with Some x => Ok x | None => Err ESymbol end) with (acc_env acc).
  rewrite (eval_expression_str_ext prec (acc_env acc) (env_of r) text) by (intros n; symmetry; apply Ha).
  destruct (eval_expression_str prec (env_of r) text) as [v| |]; cbn [bind]; try reflexivity.
  apply IH; [apply rootish_add; exact Hr|apply agrees_add; assumption].
Qed.

(** the resolver the command line starts from *)
Lemma resolver_init_rootish w r : resolver_init w = Ok r -> rootish r /\ agrees r [].
Proof.
  unfold resolver_init. destruct (w_builtin w LowRom) as [b| |]; try discriminate.
  unfold set_position. destruct (get_bus w _); cbn [bind]; try discriminate.
  destruct (mk_addr _ _); cbn [bind]; try discriminate.
  destruct (addr_phys _) as [[p|]| |]; cbn [bind]; try discriminate; intros H; inversion H; subst;
    (split; [split; [reflexivity|exists (new_scope None SPlain); auto]|intros n; reflexivity]).
Qed.

Corollary eval_defines_cli w prec defs r : resolver_init w = Ok r ->
  eval_defines prec defs [] = eval_defines_r prec r defs [].
Proof. intros H. destruct (resolver_init_rootish w r H). apply eval_defines_fold; assumption. Qed.

(** and the scope the fold ends with is the scope [initial_resolver] builds from the resulting
    values: the program starts exactly where the last -D text was evaluated *)
Fixpoint eval_defines_rs (prec : prectab) (r : rstate) (defs : list (str * str)) (acc : list (str * Z))
  : res (rstate * list (str * Z)) :=
  match defs with
  | [] => Ok (r, acc)
  | (name, text) :: rest =>
      do v <- eval_expression_str prec (env_of r) text;
      eval_defines_rs prec (add_symbol r name v) rest (acc ++ [(name, v)])
  end.

Lemma eval_defines_rs_spec prec defs : forall r acc,
  eval_defines_r prec r defs acc = rmap snd (eval_defines_rs prec r defs acc) /\
  forall r' out, eval_defines_rs prec r defs acc = Ok (r', out) ->
    exists tail, out = acc ++ tail /\ r' = fold_left (fun r kv => add_symbol r (fst kv) (snd kv)) tail r.
Proof.
  induction defs as [|[name text] defs IH]; intros r acc; cbn [eval_defines_r eval_defines_rs].
  - split; [reflexivity|]. intros r' out H; inversion H; subst. exists []. rewrite app_nil_r. auto.
  - destruct (eval_expression_str prec (env_of r) text) as [v| |]; cbn [bind]; try (split; [reflexivity|intros; discriminate]).
    destruct (IH (add_symbol r name v) (acc ++ [(name, v)])) as [A B]. split; [exact A|].
    intros r' out H. destruct (B _ _ H) as (tail & E1 & E2). exists ((name, v) :: tail).
    rewrite E1, <- app_assoc. auto.
Qed.

(** ** Examples *)
Module DefineExamples.
  Import NonInterference.NIExamples.
  Notation A_ := [65]. Notation B_ := [66]. Notation A1 := [65; 49]. Notation B2 := [66; 50].
  Definition prog : list ast := [AStarEq num8000 fi; AData D_db [ident A_] fi; AData D_db [ident B_] fi].
  Definition view_a (x : aresult) : res (list wblock) :=
    match x with AOk o _ => Ok (o_blocks o) | AExc k _ => Err k | _ => OutOfFuel end.

  (** two defines; a duplicated name (the later one wins, in both forms); a later [:=] in the program *)
  Example two_defines :
    view_a (assemble_program ex_world {| cf_rom := None; cf_defines := [(A_, 16); (B_, 18)] |} prog) = Ok [([16; 18], 0)] /\
    view_a (assemble_program ex_world {| cf_rom := None; cf_defines := [] |} (define_stmts [(A_, 16); (B_, 18)] fi ++ prog))
      = Ok [([16; 18], 0)].
  Proof. split; vm_compute; reflexivity. Qed.
  Example duplicate_define :
    view_a (assemble_program ex_world {| cf_rom := None; cf_defines := [(A_, 1); (B_, 3); (A_, 2)] |} prog) = Ok [([2; 3], 0)] /\
    view_a (assemble_program ex_world {| cf_rom := None; cf_defines := [] |} (define_stmts [(A_, 1); (B_, 3); (A_, 2)] fi ++ prog))
      = Ok [([2; 3], 0)].
  Proof. split; vm_compute; reflexivity. Qed.
  Example negative_define :
    view_a (assemble_program ex_world {| cf_rom := None; cf_defines := [(A_, -2); (B_, 0)] |} prog) = Ok [([254; 0], 0)] /\
    define_stmts [(A_, -2)] fi = [AAssign A_ (neg_expr [48; 98; 49; 48]) fi].
  Proof. split; vm_compute; reflexivity. Qed.

  (** -D A1=0x10 -D B2="A1 + 2" *)
  Definition prec_plus : prectab := [([43], 4)].
  Example cli_defines :
    eval_defines prec_plus [(A1, [48; 120; 49; 48]); (B2, [65; 49; 32; 43; 32; 50])] [] = Ok [(A1, 16); (B2, 18)].
  Proof. vm_compute. reflexivity. Qed.
End DefineExamples.

Print Assumptions define_is_assign.
Print Assumptions defines_are_constants.
Print Assumptions eval_defines_cli.
Print Assumptions eval_defines_rs_spec.
