(** The EOF token made by the scanner (C17, message text of Token.trace()).
    A successful scan ends with exactly one token of type EOF: it is the last one, its value is
    empty and its Position is the end of the text — line = index of the last line, column =
    length of the last line.  Hence [file.lines[line]] (what trace() prints for every other token)
    and [file.lines[-1]] (the special case trace() has for EOF) are the same line.

    Two passes over the state functions:
    - [QF]: every state function returns with [start = pos] (each OK path ends in emit / ignore),
      and never emits a token of type EOF;
    - the position invariant [Good] of ScannerPos.v (needs [lexicon_ok] for Scanner(lex_initial)). *)
From A816 Require Model.Messages.
From A816 Require Import Model.Scanner Proofs.ScannerSpec Proofs.ScannerFuel Proofs.ScannerPos
  Proofs.ScannerPrefix Proofs.ScannerLayout.
From Coq Require Import Arith Lia.
Open Scope nat_scope.

(* ------------------------------------------------------------------------------------------ *)
(** * Pass: no EOF token emitted, and [start = pos] on return *)

Definition nE (s : sc) : Prop := Forall (fun t => t_type t <> T_EOF) (toks_rev s).
Definition QF (s : sc) : Prop := nE s /\ start s = pos s.
Definition p3 (Q : sc -> Prop) (r : lres sc) : Prop := match r with LOk a => Q a | _ => True end.

Lemma p3_bind (Q Q' : sc -> Prop) r k : p3 Q r -> (forall a, Q a -> p3 Q' (k a)) -> p3 Q' (lbind r k).
Proof. destruct r; cbn; auto. Qed.
Lemma p3_weaken (Q Q' : sc -> Prop) r : p3 Q r -> (forall a, Q a -> Q' a) -> p3 Q' r.
Proof. destruct r; cbn; auto. Qed.

Lemma nE_same s s' : toks_rev s' = toks_rev s -> nE s -> nE s'.
Proof. unfold nE. intros ->. auto. Qed.
Lemma nE_next s : nE s -> nE (snd (next s)).
Proof. apply nE_same, next_fields. Qed.
Lemma nE_accept s c n : nE s -> nE (snd (accept s c n)).
Proof. apply nE_same, accept_fields. Qed.
Lemma nE_accept_prefix s p : nE s -> nE (snd (accept_prefix s p)).
Proof. unfold accept_prefix. destruct (str_eqb _ _); auto. Qed.
Lemma nE_emit s ty : ty <> T_EOF -> nE s -> nE (emit s ty).
Proof. intros Hty H. constructor; [exact Hty|exact H]. Qed.
Lemma QF_emit s ty : ty <> T_EOF -> nE s -> QF (emit s ty).
Proof. intros Hty H. split; [apply nE_emit; assumption|reflexivity]. Qed.
Lemma QF_ignore s : nE s -> QF (ignore s).
Proof. intros H. split; [exact H|reflexivity]. Qed.
Lemma QF_nE s : QF s -> nE s.
Proof. intros [H _]; exact H. Qed.

Lemma nE_accept_run c n : forall F s, nE s -> p3 nE (accept_run F s c n).
Proof.
  induction F as [|F IH]; intros s H; cbn [accept_run]; [exact I|].
  pose proof (nE_accept s c n H) as H1. destruct (accept s c n) as [b t]. cbn [snd] in H1.
  destruct b; [apply IH; assumption|exact H1].
Qed.

Lemma QF_ignore_run c F s : nE s -> p3 QF (ignore_run F s c).
Proof.
  intros H. unfold ignore_run. eapply p3_bind; [apply nE_accept_run; exact H|].
  intros a Ha. apply QF_ignore. exact Ha.
Qed.

Ltac ne := discriminate.

Lemma QF_lex_identifier F s : nE s -> p3 QF (lex_identifier F s).
Proof.
  intros H. unfold lex_identifier. eapply p3_bind; [apply nE_accept_run; exact H|]. intros a Ha.
  destruct (_ && _).
  - apply QF_ignore, nE_next, nE_emit; [ne|exact Ha].
  - eapply p3_bind with (Q := nE).
    + destruct (peek a =? 46)%Z; [apply nE_accept_run, nE_next, Ha|exact Ha].
    + intros b Hb. apply QF_emit; [ne|exact Hb].
Qed.

Lemma QF_quoted_loop p : forall F c s, nE s -> p3 QF (quoted_loop F p c s).
Proof.
  induction F as [|F IH]; intros c s H; cbn [quoted_loop]; [exact I|].
  destruct (oz_is c 39); [apply QF_emit; [ne|exact H]|].
  destruct (_ || _); [exact I|].
  set (s1 := if oz_is c 92 && (peek s =? 39)%Z then snd (next s) else s).
  assert (H1 : nE s1) by (subst s1; destruct (_ && _); [apply nE_next|]; exact H).
  pose proof (nE_next s1 H1) as H2. destruct (next s1) as [c' s2]. apply IH. exact H2.
Qed.

Lemma QF_lex_quoted_string F s : nE s -> p3 QF (lex_quoted_string F s).
Proof.
  intros H. unfold lex_quoted_string. pose proof (nE_next s H) as H1. destruct (next s) as [c s1].
  apply QF_quoted_loop. exact H1.
Qed.

Lemma nE_backup s : nE s -> p3 nE (backup s).
Proof. intros H. unfold backup. destruct (pos s); [exact I|exact H]. Qed.

Lemma QF_lex_number F s : nE s -> p3 QF (lex_number F s).
Proof.
  intros H. unfold lex_number. eapply p3_bind; [apply nE_backup; exact H|]. intros s0 H0.
  pose proof (nE_next s0 H0) as H1. destruct (next s0) as [ch s1]. cbn [snd] in H1.
  destruct (_ || _); [apply QF_emit; [ne|exact H1]|].
  eapply p3_bind with (Q := nE); [|intros b Hb; apply QF_emit; [ne|exact Hb]].
  destruct (oz_is ch 48); [|apply nE_accept_run; exact H1].
  pose proof (nE_next s1 H1) as H2. destruct (next s1) as [bp s2]. cbn [snd] in H2.
  destruct (oz_is bp 98); [apply nE_accept_run; exact H2|].
  destruct (oz_is bp 111); [apply nE_accept_run; exact H2|].
  destruct (oz_is bp 120); [apply nE_accept_run; exact H2|apply nE_backup; exact H2].
Qed.

Ltac chain_q HN A t H :=
  match goal with
  | |- p3 _ (let '(b, s1) := accept ?s ?c false in _) =>
      destruct (accept s c false) as [[|] t] eqn:A;
      [ assert (H : nE t) by (let X := fresh in pose proof (nE_accept s c false HN) as X; rewrite A in X; exact X)
      | apply accept_false in A; subst t ]
  | |- p3 _ (let '(b, s1) := accept_prefix ?s ?c in _) =>
      destruct (accept_prefix s c) as [[|] t] eqn:A;
      [ assert (H : nE t) by (let X := fresh in pose proof (nE_accept_prefix s c HN) as X; rewrite A in X; exact X)
      | apply accept_prefix_false in A; subst t ]
  end.

Lemma QF_lex_expression_loop F : forall fuel s, QF s -> p3 QF (lex_expression_loop fuel F s).
Proof.
  induction fuel as [|fuel IH]; intros s HQ; cbn [lex_expression_loop]; [exact I|].
  destruct (pos s <? length (inp s)); [|exact HQ].
  eapply p3_bind; [apply QF_ignore_run, QF_nE, HQ|]. clear s HQ. intros s HQ. pose proof (QF_nE s HQ) as HN.
  chain_q HN A t H; [eapply p3_bind; [apply QF_lex_number; exact H|apply IH]|].
  chain_q HN A t H; [eapply p3_bind; [apply QF_lex_identifier; exact H|apply IH]|].
  match goal with |- context [accept_or (accept_or ?a ?f) ?g] => set (r := accept_or (accept_or a f) g) end.
  assert (Hr : nE (snd r) /\ (fst r = false -> snd r = s)).
  { subst r. unfold accept_or.
    pose proof (nE_accept s expr_ops false HN) as X1.
    destruct (accept s expr_ops false) as [b1 t1] eqn:B1. cbn [fst snd] in *.
    destruct b1; cbn [fst snd]; [split; [exact X1|discriminate]|]. apply accept_false in B1; subst t1.
    pose proof (nE_accept_prefix s [60;60]%Z HN) as X2.
    destruct (accept_prefix s [60;60]%Z) as [b2 t2] eqn:B2. cbn [fst snd] in *.
    destruct b2; cbn [fst snd]; [split; [exact X2|discriminate]|]. apply accept_prefix_false in B2; subst t2.
    pose proof (nE_accept_prefix s [62;62]%Z HN) as X3.
    destruct (accept_prefix s [62;62]%Z) as [b3 t3] eqn:B3. cbn [fst snd] in *.
    destruct b3; cbn [fst snd]; [split; [exact X3|discriminate]|]. apply accept_prefix_false in B3; subst t3.
    split; [exact HN|reflexivity]. }
  destruct r as [b8 s8]. cbn [fst snd] in Hr. destruct Hr as [Hr1 Hr2].
  destruct b8; [apply IH, QF_emit; [ne|exact Hr1]|]. specialize (Hr2 eq_refl). subst s8.
  chain_q HN A t H; [apply IH, QF_emit; [ne|exact H]|].
  chain_q HN A t H; [apply IH, QF_emit; [ne|exact H]|].
  exact HQ.
Qed.

Lemma QF_lex_opcode_index F s : nE s -> p3 QF (lex_opcode_index F s).
Proof.
  intros H. unfold lex_opcode_index. eapply p3_bind; [apply QF_ignore_run; exact H|]. intros s2 H2.
  pose proof (nE_accept s2 index_chars false (QF_nE _ H2)) as H3. destruct (accept s2 index_chars false) as [b s3].
  destruct b; [apply QF_emit; [ne|exact H3]|exact I].
Qed.

Lemma QF_lex_operand F s : nE s -> p3 QF (lex_operand F s).
Proof.
  intros H. unfold lex_operand. cbv zeta.
  set (s1 := if (peek s =? 35)%Z then emit (snd (next s)) T_SHARP
             else if (peek s =? 40)%Z then emit (snd (next s)) T_LPAREN
             else if (peek s =? 91)%Z then emit (snd (next s)) T_LBRAKET else s).
  assert (H1 : nE s1).
  { subst s1. destruct (peek s =? 35)%Z; [apply nE_emit; [ne|apply nE_next, H]|].
    destruct (peek s =? 40)%Z; [apply nE_emit; [ne|apply nE_next, H]|].
    destruct (peek s =? 91)%Z; [apply nE_emit; [ne|apply nE_next, H]|exact H]. }
  eapply p3_bind; [apply QF_ignore_run; exact H1|]. intros s2 H2.
  eapply p3_bind; [apply QF_lex_expression_loop; exact H2|]. intros s3 H3.
  eapply p3_bind; [apply QF_ignore_run, QF_nE, H3|]. intros s4 H4.
  pose proof (nE_accept s4 [44%Z] false (QF_nE _ H4)) as H5. destruct (accept s4 [44%Z] false) as [b s5].
  cbn [snd] in H5.
  eapply p3_bind with (Q := nE).
  { destruct b; [eapply p3_weaken; [apply QF_lex_opcode_index; exact H5|apply QF_nE]|exact H5]. }
  intros s6 H6.
  set (s7 := if (peek s6 =? 41)%Z then emit (snd (next s6)) T_RPAREN
             else if (peek s6 =? 93)%Z then emit (snd (next s6)) T_RBRAKET else s6).
  assert (H7 : nE s7).
  { subst s7. destruct (peek s6 =? 41)%Z; [apply nE_emit; [ne|apply nE_next, H6]|].
    destruct (peek s6 =? 93)%Z; [apply nE_emit; [ne|apply nE_next, H6]|exact H6]. }
  eapply p3_bind; [apply QF_ignore_run; exact H7|]. intros s8 H8.
  destruct (accept s8 [44%Z] false) as [[|] s9] eqn:A.
  - apply QF_lex_opcode_index. pose proof (nE_accept s8 [44%Z] false (QF_nE _ H8)) as X. rewrite A in X. exact X.
  - apply accept_false in A. subst s9. exact H8.
Qed.

Lemma QF_lex_opcode_size F s : nE s -> p3 QF (lex_opcode_size F s).
Proof.
  intros H. unfold lex_opcode_size.
  pose proof (nE_accept (ignore s) size_chars false H) as H2. destruct (accept (ignore s) size_chars false) as [b s2].
  cbn [snd] in H2. destruct b; [|exact I].
  eapply p3_bind; [apply QF_ignore_run, nE_emit; [ne|exact H2]|]. intros s4 H4. apply QF_lex_operand, QF_nE, H4.
Qed.

Lemma QF_lex_opcode_tail F s : nE s -> p3 QF (lex_opcode_tail F s).
Proof.
  intros H. unfold lex_opcode_tail.
  pose proof (nE_accept s [46%Z] false H) as H1. destruct (accept s [46%Z] false) as [b s1]. cbn [snd] in H1.
  eapply p3_bind with (Q := nE).
  { destruct b; [eapply p3_weaken; [apply QF_lex_opcode_size; exact H1|apply QF_nE]|exact H1]. }
  intros s2 H2. eapply p3_bind; [apply QF_ignore_run; exact H2|]. intros s3 H3. apply QF_lex_operand, QF_nE, H3.
Qed.

Lemma QF_lex_opcode F lx s : nE s -> p3 QF (lex_opcode F lx s).
Proof.
  intros H. unfold lex_opcode. destruct (_ && _); [|apply QF_lex_opcode_tail, nE_emit; [ne|exact H]].
  eapply p3_bind; [apply nE_accept_run; exact H|]. intros s1 H1.
  pose proof (nE_accept s1 [59%Z] false H1) as H2. destruct (accept s1 [59%Z] false) as [b s2]. cbn [snd] in H2.
  eapply p3_bind with (Q := nE); [destruct b; [apply nE_accept_run; exact H2|exact H2]|]. intros s3 H3.
  destruct (_ || _); [apply QF_emit; [ne|exact H3]|apply QF_lex_opcode_tail, nE_emit; [ne|exact H3]].
Qed.

Lemma QF_lex_keyword F lx s : nE s -> p3 QF (lex_keyword F lx s).
Proof.
  intros H. unfold lex_keyword. eapply p3_bind; [apply (nE_accept_run kw_chars false F (ignore s)); exact H|].
  intros s2 H2. destruct (mem_str _ _); [apply QF_emit; [ne|exact H2]|exact I].
Qed.

Lemma nE_line_comment_loop : forall F s, nE s -> p3 nE (line_comment_loop F s).
Proof.
  induction F as [|F IH]; intros s H; cbn [line_comment_loop]; [exact I|].
  pose proof (nE_next s H) as H1. destruct (next s) as [c s1]. cbn [snd] in H1.
  destruct c as [x|]; [|exact H1]. destruct (x =? 10)%Z; [exact H1|apply IH; exact H1].
Qed.

Lemma nE_block_comment_loop p : forall F s, nE s -> p3 nE (block_comment_loop F p s).
Proof.
  induction F as [|F IH]; intros s H; cbn [block_comment_loop]; [exact I|].
  pose proof (nE_accept_prefix s [42;47]%Z H) as H1. destruct (accept_prefix s [42;47]%Z) as [b s1]. cbn [snd] in H1.
  destruct b; [exact H1|].
  pose proof (nE_next s1 H1) as H2. destruct (next s1) as [c s2]. cbn [snd] in H2.
  destruct c; [apply IH; exact H2|exact I].
Qed.

Lemma QF_two s c ty1 ty2 : ty1 <> T_EOF -> ty2 <> T_EOF -> nE s ->
  p3 QF (let '(b, s2) := accept s c false in if b then LOk (emit s2 ty1) else LOk (emit s2 ty2)).
Proof.
  intros T1 T2 H. pose proof (nE_accept s c false H) as H1. destruct (accept s c false) as [b s2]. cbn [snd] in H1.
  destruct b; apply QF_emit; assumption.
Qed.

Lemma QF_lex_initial_rest lx F s : QF s -> p3 QF (lex_initial_rest lx F s).
Proof.
  intros HQ. pose proof (QF_nE s HQ) as HN. unfold lex_initial_rest.
  chain_q HN A t H.
  { eapply p3_bind; [apply nE_line_comment_loop; exact H|]. intros a Ha. apply QF_emit; [ne|exact Ha]. }
  chain_q HN A t H; [apply QF_lex_number; exact H|].
  chain_q HN A t H; [apply QF_emit; [ne|exact H]|].
  chain_q HN A t H; [apply QF_emit; [ne|exact H]|].
  chain_q HN A t H; [apply QF_emit; [ne|exact H]|].
  chain_q HN A t H; [apply QF_emit; [ne|exact H]|].
  chain_q HN A t H; [apply QF_emit; [ne|exact H]|].
  match goal with |- context [accept_or (accept_or (accept_or ?a ?f) ?g) ?h] =>
    set (r := accept_or (accept_or (accept_or a f) g) h) end.
  assert (Hr : nE (snd r) /\ (fst r = false -> snd r = s)).
  { subst r. unfold accept_or.
    pose proof (nE_accept_prefix s [62%Z] HN) as X1.
    destruct (accept_prefix s [62%Z]) as [b1 t1] eqn:B1. cbn [fst snd] in *.
    destruct b1; cbn [fst snd]; [split; [exact X1|discriminate]|]. apply accept_prefix_false in B1; subst t1.
    pose proof (nE_accept_prefix s [60%Z] HN) as X2.
    destruct (accept_prefix s [60%Z]) as [b2 t2] eqn:B2. cbn [fst snd] in *.
    destruct b2; cbn [fst snd]; [split; [exact X2|discriminate]|]. apply accept_prefix_false in B2; subst t2.
    pose proof (nE_accept_prefix s [62;61]%Z HN) as X3.
    destruct (accept_prefix s [62;61]%Z) as [b3 t3] eqn:B3. cbn [fst snd] in *.
    destruct b3; cbn [fst snd]; [split; [exact X3|discriminate]|]. apply accept_prefix_false in B3; subst t3.
    pose proof (nE_accept_prefix s [60;61]%Z HN) as X4.
    destruct (accept_prefix s [60;61]%Z) as [b4 t4] eqn:B4. cbn [fst snd] in *.
    destruct b4; cbn [fst snd]; [split; [exact X4|discriminate]|]. apply accept_prefix_false in B4; subst t4.
    split; [exact HN|reflexivity]. }
  destruct r as [b8 s8]. cbn [fst snd] in Hr. destruct Hr as [Hr1 Hr2].
  destruct b8; [apply QF_emit; [ne|exact Hr1]|]. specialize (Hr2 eq_refl). subst s8.
  chain_q HN A t H.
  { eapply p3_bind; [apply nE_backup; exact H|]. intros s2 H2.
    assert (H3 : nE (snd (accept_opcode lx s2))) by (unfold accept_opcode; destruct (_ && _); exact H2).
    destruct (accept_opcode lx s2) as [b s3]. cbn [snd] in H3.
    destruct b; [apply QF_lex_opcode|apply QF_lex_identifier]; exact H3. }
  chain_q HN A t H; [apply QF_lex_keyword; exact H|].
  chain_q HN A t H; [apply QF_emit; [ne|exact H]|].
  chain_q HN A t H; [apply QF_emit; [ne|exact H]|].
  chain_q HN A t H; [apply QF_emit; [ne|exact H]|].
  chain_q HN A t H; [apply QF_two; [ne|ne|exact H]|].
  chain_q HN A t H; [apply QF_lex_quoted_string; exact H|].
  chain_q HN A t H; [apply QF_emit; [ne|exact H]|].
  chain_q HN A t H; [apply QF_emit; [ne|exact H]|].
  chain_q HN A t H; [apply QF_emit; [ne|exact H]|].
  chain_q HN A t H; [apply QF_emit; [ne|exact H]|].
  chain_q HN A t H; [apply QF_two; [ne|ne|exact H]|].
  chain_q HN A t H; [apply QF_two; [ne|ne|exact H]|].
  chain_q HN A t H; [apply QF_emit; [ne|exact H]|].
  chain_q HN A t H.
  { eapply p3_bind; [apply nE_block_comment_loop; exact H|]. intros a Ha. apply QF_emit; [ne|exact Ha]. }
  destruct (next s) as [[x|] t2] eqn:N; [exact I|].
  apply next_none in N as [-> _]. exact HQ.
Qed.

Lemma QF_lex_initial lx F s : nE s -> p3 QF (lex_initial lx F s).
Proof.
  intros H. rewrite lex_initial_split. eapply p3_bind; [apply QF_ignore_run; exact H|].
  intros a Ha. apply QF_lex_initial_rest. exact Ha.
Qed.

(* ------------------------------------------------------------------------------------------ *)
(** * The driver *)

Lemma scan_loop_eof s0 file F state :
  (forall s, Good s0 file s -> post2 s0 file (Good s0 file) (state F s)) ->
  (forall s, QF s -> p3 QF (state F s)) ->
  forall n s T L, Good s0 file s -> QF s -> scan_loop n F state s = ScanOk T L ->
  exists a, Good s0 file a /\ QF a /\ pos a = length s0 /\
            T = rev (toks_rev a) ++ [get_token a T_EOF] /\
            L = rev (lines_rev a) ++ [slice s0 (loff a) (pos a)].
Proof.
  intros Hg Hq. induction n as [|n IH]; intros s T L HG HQ R; [discriminate|].
  cbn [scan_loop] in R. destruct (pos s <? length (inp s)) eqn:Lt.
  - specialize (Hg s HG). specialize (Hq s HQ).
    destruct (state F s) as [s'|m l c s'| |]; cbn [post2 p3] in Hg, Hq; try discriminate.
    + destruct (pos s' =? pos s); [exfalso; eapply scan_handler_not_ok; exact R|].
      exact (IH s' T L Hg Hq R).
    + exfalso. eapply scan_handler_not_ok. exact R.
  - apply Nat.ltb_ge in Lt. exists s.
    pose proof HG as [(Hi & Hf & HI & HT) HC].
    pose proof (Inv_loff_le _ HI) as Hle. destruct HI as (Hpl & _).
    split; [assumption|]. split; [assumption|]. rewrite Hi in *. split; [lia|].
    unfold handle_line in R. cbn [emit loff pos] in R.
    destruct (Nat.leb_spec (loff s) (pos s)); [|lia].
    cbn [toks_rev lines_rev emit inp] in R. injection R as <- <-. cbn [rev]. rewrite Hi. auto.
Qed.

Lemma nth_error_last {A} (l : list A) d : l <> [] -> nth_error l (length l - 1) = Some (last l d).
Proof.
  intros H. destruct (exists_last H) as (l' & x & ->).
  rewrite app_length, last_last. cbn [length]. rewrite nth_error_app2 by lia.
  replace (length l' + 1 - 1 - length l') with 0 by lia. reflexivity.
Qed.

(** what a successful scan says about its EOF token *)
Definition eof_spec (file s : str) (toks : list token) (lines : list str) : Prop :=
  exists body eof p,
    toks = body ++ [eof] /\ t_type eof = T_EOF /\ t_value eof = [] /\
    Forall (fun t => t_type t <> T_EOF) body /\
    t_pos eof = Some p /\ tp_file p = file /\
    tp_line p = Z.of_nat (count_nl s) /\ tp_line p = Z.of_nat (length lines - 1) /\
    tp_col p = col_of s (length s) /\ tp_col p = Z.of_nat (length (last lines [])) /\
    py_index lines (tp_line p) = Messages.last_line lines.

Lemma scan_loop_eof_spec s0 file F state :
  (forall s, Good s0 file s -> post2 s0 file (Good s0 file) (state F s)) ->
  (forall s, QF s -> p3 QF (state F s)) ->
  forall n T L, scan_loop n F state (init_sc file s0) = ScanOk T L -> eof_spec file s0 T L.
Proof.
  intros Hg Hq n T L R.
  destruct (scan_loop_eof s0 file F state Hg Hq n (init_sc file s0) T L) as (a & HG & [HN HS] & Hp & -> & ->); auto.
  { apply Good_init. }
  { split; [constructor|reflexivity]. }
  pose proof HG as [(Hi & Hf & HI & HT) HC].
  pose proof (get_position_ok a HI HC) as GP. rewrite Hi, HS, Hp in GP.
  pose proof (Inv_loff_le _ HI) as Hle.
  destruct HI as (_ & Hcl & Hlo & Hlen & _). rewrite Hi, Hp, firstn_all in Hcl, Hlo.
  exists (rev (toks_rev a)), (get_token a T_EOF),
         {| tp_line := fst (get_position a); tp_col := snd (get_position a); tp_file := fname a |}.
  assert (EL : length (rev (lines_rev a) ++ [slice s0 (loff a) (pos a)]) - 1 = count_nl s0).
  { rewrite app_length, rev_length, Hlen, Hcl. cbn. lia. }
  unfold get_token. cbn [t_type t_value t_pos tp_line tp_col tp_file]. rewrite GP. cbn [fst snd].
  assert (EQL : line_of s0 (length s0) = count_nl s0) by (unfold line_of; rewrite firstn_all; reflexivity).
  rewrite EQL.
  split; [reflexivity|]. split; [reflexivity|]. split.
  { unfold current_token_text. rewrite HS. unfold slice. rewrite Nat.sub_diag. reflexivity. }
  split; [apply Forall_rev; exact HN|]. split; [reflexivity|]. split; [exact Hf|]. split; [reflexivity|].
  split; [rewrite EL; reflexivity|]. split; [reflexivity|]. split.
  - rewrite last_last, slice_length by lia. unfold col_of. rewrite firstn_all, <- Hlo, Hp. lia.
  - rewrite py_index_nat. rewrite <- EL. unfold Messages.last_line.
    destruct (rev (lines_rev a) ++ [slice s0 (loff a) (pos a)]) eqn:E; [destruct (rev (lines_rev a)); discriminate|].
    rewrite <- E. apply nth_error_last. rewrite E. discriminate.
Qed.

(** Scanner(lex_initial).scan *)
Theorem scan_eof_token : forall lx file s toks lines,
  lexicon_ok lx = true -> scan lx file s = ScanOk toks lines -> eof_spec file s toks lines.
Proof.
  intros lx file s toks lines Hlx R. unfold scan, scan_with_fuel, scan_gen in R.
  eapply scan_loop_eof_spec; [| |exact R].
  - intros t Gt. apply lex_initial_ok; [assumption|apply Gt].
  - intros t Ht. apply QF_lex_initial, QF_nE, Ht.
Qed.

(** Scanner(lex_expression).scan *)
Theorem scan_expression_eof_token : forall file s toks lines,
  scan_expression file s = ScanOk toks lines -> eof_spec file s toks lines.
Proof.
  intros file s toks lines R. unfold scan_expression, scan_expression_with_fuel, scan_gen in R.
  eapply scan_loop_eof_spec; [| |exact R].
  - intros t Gt. apply lex_expression_loop_ok, Gt.
  - intros t Ht. apply QF_lex_expression_loop, Ht.
Qed.

(** Token.trace(): the special case for EOF ([file.lines[-1]]) quotes the line [file.lines[line]]
    the general case would quote *)
Definition token_trace_plain (lines : list str) (t : token) : res (option str) :=
  match t_pos t with
  | None => Ok None
  | Some p =>
      match py_index lines (tp_line p) with
      | Some q => Ok (Some (Messages.trace_report (tp_file p) (tp_line p) (tp_col p) (t_type t) q (length (t_value t))))
      | None => Err EIndex
      end
  end.

Theorem eof_trace_special_case_redundant : forall lx file s toks lines,
  lexicon_ok lx = true -> scan lx file s = ScanOk toks lines ->
  Forall (fun t => Messages.token_trace lines t = token_trace_plain lines t) toks.
Proof.
  intros lx file s toks lines Hlx R.
  destruct (scan_eof_token lx file s toks lines Hlx R) as (body & eof & p & -> & Ht & _ & Hb & Hp & _ & _ & _ & _ & _ & Hq).
  apply Forall_app. split.
  - eapply Forall_impl; [|exact Hb]. intros t Hne. cbv beta in Hne. unfold Messages.token_trace, token_trace_plain.
    destruct (t_pos t); [|reflexivity].
    assert (E : ttype_eqb (t_type t) T_EOF = false) by (revert Hne; destruct (t_type t); intros Hne; try reflexivity; exfalso; apply Hne; reflexivity).
    rewrite E. reflexivity.
  - constructor; [|constructor]. unfold Messages.token_trace, token_trace_plain. rewrite Hp, Ht. cbn [ttype_eqb ttype_code Z.eqb Pos.eqb].
    rewrite Hq. reflexivity.
Qed.

(** the quoted line of the EOF token and the caret line: the last line, then as many blanks *)
Example eof_example :
  match scan demo_lexicon [102%Z] [108;100;97;32;35;49;10;110;111;112]%Z with
  | ScanOk toks lines => option_map (fun t => (t_type t, t_value t, t_pos t)) (nth_error toks (length toks - 1))
  | _ => None
  end = Some (T_EOF, [], Some {| tp_line := 1; tp_col := 3; tp_file := [102%Z] |}).
Proof. vm_compute. reflexivity. Qed.

Print Assumptions scan_eof_token.
Print Assumptions scan_expression_eof_token.
Print Assumptions eof_trace_special_case_redundant.
