(** Expression evaluation only depends on the environment at the identifiers the expression
    mentions.  [shunting_yard] only moves (or drops) the nodes it is given, so every node of its
    output is a node of its input; [eval_rpn] consults the environment only at the values of the
    T_IDENTIFIER tokens it walks over. *)
From Coq Require Import ZArith List Bool.
From A816 Require Import Model.Expr.
Open Scope Z_scope.

Lemma bind_ext {A B} (x : res A) (f g : A -> res B) :
  (forall a, f a = g a) -> bind x f = bind x g.
Proof. intros H. destruct x; cbn [bind]; auto. Qed.

(** ** shunting_yard preserves any property of the individual nodes *)
Section SyForall.
  Variable Q : enode -> Prop.

  Lemma pop_tighter_Forall p cur : forall stack out so,
    Forall Q stack -> Forall Q out -> pop_tighter p cur stack out = Ok so ->
    Forall Q (fst so) /\ Forall Q (snd so).
  Proof.
    induction stack as [|top rest IH]; intros out so Hs Ho; cbn [pop_tighter].
    - intros H; inversion H; subst; cbn [fst snd]; auto.
    - destruct (stack_prec p top) as [tp| |]; cbn [bind]; try discriminate.
      inversion Hs as [|? ? Ht Hr]; subst.
      destruct ((tp <=? cur) && negb (str_eqb (en_val top) s_lparen)).
      + apply IH; auto. apply Forall_app; auto.
      + intros H; inversion H; subst; cbn [fst snd]; auto.
  Qed.

  Lemma pop_to_lparen_Forall : forall stack out so,
    Forall Q stack -> Forall Q out -> pop_to_lparen stack out = Ok so ->
    Forall Q (fst so) /\ Forall Q (snd so).
  Proof.
    induction stack as [|top rest IH]; intros out so Hs Ho; cbn [pop_to_lparen]; [discriminate|].
    inversion Hs as [|? ? Ht Hr]; subst.
    destruct (str_eqb (en_val top) s_lparen).
    - intros H; inversion H; subst; cbn [fst snd]; auto.
    - apply IH; auto. apply Forall_app; auto.
  Qed.

  Lemma sy_loop_Forall p : forall nodes stack out rpn,
    Forall Q nodes -> Forall Q stack -> Forall Q out -> sy_loop p nodes stack out = Ok rpn ->
    Forall Q rpn.
  Proof.
    induction nodes as [|e r IH]; intros stack out rpn Hn Hs Ho; cbn [sy_loop].
    - intros H; inversion H; subst. apply Forall_app; auto.
    - inversion Hn as [|? ? He Hr]; subst.
      destruct (en_kind e).
      + apply IH; auto. apply Forall_app; auto.
      + destruct (prec_get p (en_val e)) as [cur| |]; cbn [bind]; try discriminate.
        destruct (pop_tighter p cur stack out) as [so| |] eqn:E; cbn [bind]; try discriminate.
        destruct (pop_tighter_Forall _ _ _ _ _ Hs Ho E) as [A B].
        apply IH; auto.
      + apply IH; auto.
      + destruct (en_type e); try (apply IH; auto; fail).
        destruct (pop_to_lparen stack out) as [so| |] eqn:E; cbn [bind]; try discriminate.
        destruct (pop_to_lparen_Forall _ _ _ Hs Ho E) as [A B].
        apply IH; auto.
  Qed.

  Lemma shunting_yard_Forall p e rpn : Forall Q e -> shunting_yard p e = Ok rpn -> Forall Q rpn.
  Proof. intros H. unfold shunting_yard. apply sy_loop_Forall; auto. Qed.
End SyForall.

(** ** Evaluation *)

(** Two environments agree on a node: when it is an identifier, both give its name the same answer. *)
Definition agree_on (ev1 ev2 : env) (e : enode) : Prop :=
  en_type e = T_IDENTIFIER -> ev1 (en_val e) = ev2 (en_val e).

Lemma eval_rpn_congr (ev1 ev2 : env) : forall rpn stack,
  Forall (agree_on ev1 ev2) rpn -> eval_rpn ev1 rpn stack = eval_rpn ev2 rpn stack.
Proof.
  induction rpn as [|e r IH]; intros stack H; cbn [eval_rpn]; [reflexivity|].
  inversion H as [|? ? He Hr]; subst. unfold agree_on in He.
  destruct (en_type e) eqn:T;
    try (destruct (en_kind e); auto;
         repeat match goal with |- context [match ?s with [] => _ | _ :: _ => _ end] => destruct s end;
         auto; apply bind_ext; auto; fail).
  rewrite (He eq_refl). apply bind_ext; auto.
Qed.

(** The congruence: [eval_expression] gives the same result (value or error) under two
    environments that agree on every identifier token of the expression. *)
Theorem eval_expression_congr p (ev1 ev2 : env) (e : expr) :
  Forall (agree_on ev1 ev2) e -> eval_expression p ev1 e = eval_expression p ev2 e.
Proof.
  intros H. unfold eval_expression.
  destruct (shunting_yard p e) as [rpn| |] eqn:E; cbn [bind]; auto.
  apply eval_rpn_congr. eapply shunting_yard_Forall; eauto.
Qed.

(** The form used for non-interference: the environments agree outside a set of names, and no
    identifier of the expression is in the set. *)
Corollary eval_expression_outside (K : str -> Prop) p (ev1 ev2 : env) (e : expr) :
  (forall n, ~ K n -> ev1 n = ev2 n) ->
  Forall (fun t => en_type t = T_IDENTIFIER -> ~ K (en_val t)) e ->
  eval_expression p ev1 e = eval_expression p ev2 e.
Proof.
  intros Hag Hf. apply eval_expression_congr.
  eapply Forall_impl; [|exact Hf]. intros t Ht Hty. apply Hag. auto.
Qed.

(** Non-vacuity: the environment IS consulted at an identifier (so the hypothesis cannot be dropped). *)
Example eval_expression_reads_identifier :
  let e := [{| en_kind := EK_term; en_tok := mk_token T_IDENTIFIER [120] |}] in
  eval_expression [] (fun _ => Ok 1) e = Ok 1 /\ eval_expression [] (fun _ => Ok 2) e = Ok 2.
Proof. split; reflexivity. Qed.
