(** C06, text level — "Literals are decimal, 0x hexadecimal in either letter case and 0b binary,
    identifiers denote their symbol's value, and spacing does not change the result".

    This file: the printer [text_of] (tree -> text with arbitrary spacing) and the scanner half:
    [scan_expression file (text_of sp e)] yields exactly the token sequence [toks_of e]
    (type and value of every token), followed by EOF, whatever the spacing [sp].
    The parser / evaluator half is in Proofs/ExprLexParse.v.

    The class of trees ([lexable]): any [sexpr] whose identifiers are [ident_ok], i.e.
      letter-or-underscore, then letters/digits/underscores, optionally followed by ONE '.' and
      more letters/digits/underscores (what lex_identifier emits as one IDENTIFIER token).
    Numerals are [render f n] for every format [f] (decimal, 0x with any padding and any mix of
    letter cases, 0b with any padding) and every [n].  Operators: unary - ~, binary + - * & | << >>.

    The spacing [sp : nat -> nat] gives the number of ' ' characters written before the i-th token
    (i counted from 0 in the left-to-right token order); [sp (number of tokens)] is the number of
    trailing spaces.  Only ' ' is used: lex_expression skips nothing else. *)
From Coq Require Import ZArith NArith List Bool Lia Arith.
From A816 Require Import Spec.ExprSem Model.Scanner Proofs.ScannerFuel Proofs.ExprProofs.
Import ListNotations.
Open Scope Z_scope.

(* ------------------------------------------------------------------------------------------ *)
(** * The printer *)

Definition spacing := nat -> nat.

Definition spaces (k : nat) : str := repeat_z 32 k.

(** number of tokens of a tree *)
Fixpoint size (e : sexpr) : nat :=
  match e with
  | Num _ _ | Id _ => 1
  | Un _ a => S (size a)
  | Bin _ a b => (size a + S (size b))%nat
  | Par a => S (S (size a))
  end.

(** [print sp i e]: the text of [e] whose first token is the [i]-th token of the whole text;
    every token is preceded by [sp (its index)] spaces. *)
Fixpoint print (sp : spacing) (i : nat) (e : sexpr) : str :=
  match e with
  | Num f n => spaces (sp i) ++ render f n
  | Id s => spaces (sp i) ++ s
  | Un o a => spaces (sp i) ++ uop_text o ++ print sp (S i) a
  | Bin o a b => print sp i a ++ spaces (sp (i + size a)%nat) ++ bop_text o ++ print sp (i + S (size a))%nat b
  | Par a => spaces (sp i) ++ [40] ++ print sp (S i) a ++ spaces (sp (S (i + size a))) ++ [41]
  end.

Definition text_of (sp : spacing) (e : sexpr) : str := print sp 0 e ++ spaces (sp (size e)).

(** The token sequence of a tree: (type, value) of each token, left to right. *)
Definition tk := (ttype * str)%type.
Fixpoint toks_of (e : sexpr) : list tk :=
  match e with
  | Num f n => [(T_NUMBER, render f n)]
  | Id s => [(T_IDENTIFIER, s)]
  | Un o a => (T_OPERATOR, uop_text o) :: toks_of a
  | Bin o a b => toks_of a ++ (T_OPERATOR, bop_text o) :: toks_of b
  | Par a => (T_LPAREN, [40]) :: toks_of a ++ [(T_RPAREN, [41])]
  end.

Definition tv (t : token) : tk := (t_type t, t_value t).

(** Identifiers lex_identifier emits as one IDENTIFIER token *)
Definition idc (c : Z) : Prop := mem_z c ident_chars = true.
Inductive ident_ok : str -> Prop :=
| ident_plain c0 t : mem_z c0 ident_start = true -> Forall idc t -> ident_ok (c0 :: t)
| ident_dot c0 t1 t2 : mem_z c0 ident_start = true -> Forall idc t1 -> Forall idc t2 ->
                       ident_ok (c0 :: t1 ++ 46 :: t2).

Fixpoint lexable (e : sexpr) : Prop :=
  match e with
  | Num _ _ => True
  | Id s => ident_ok s
  | Un _ a => lexable a
  | Bin _ a b => lexable a /\ lexable b
  | Par a => lexable a
  end.

(** ** Sanity: what the real lexer model does on a few texts (computed) *)
Definition scan_tv (text : str) : option (list tk) :=
  match scan_expression [109] text with
  | ScanOk toks _ => Some (map tv toks)
  | _ => None
  end.

Definition ex1 : sexpr :=      (* ~-1 + (a.b1 << 0x1F) - 0b101 * _x & 0 | 10 >> (0) *)
  Bin OOr
    (Bin OAnd
       (Bin OSub (Bin OAdd (Un ONot (Un ONeg (Num FDec 1)))
                           (Par (Bin OShl (Id [97;46;98;49]) (Num (FHex 0 [false;true]) 31))))
                 (Bin OMul (Num (FBin 0) 5) (Id [95;120])))
       (Num FDec 0))
    (Bin OShr (Num FDec 10) (Par (Num FDec 0))).

Example ex1_tight : scan_tv (text_of (fun _ => 0%nat) ex1) = Some (toks_of ex1 ++ [(T_EOF, [])]).
Proof. vm_compute. reflexivity. Qed.
Example ex1_spaced : scan_tv (text_of (fun i => (i * 7 mod 4)%nat) ex1) = Some (toks_of ex1 ++ [(T_EOF, [])]).
Proof. vm_compute. reflexivity. Qed.
Example ex1_text : text_of (fun _ => 0%nat) ex1 =
  [126;45;49;43;40;97;46;98;49;60;60;48;120;49;70;41;45;48;98;49;48;49;42;95;120;38;48;124;49;48;62;62;40;48;41].
Proof. vm_compute. reflexivity. Qed.
(** outside the class: "1 2" is two NUMBER tokens, "05" too, "a:" is a LABEL, "0b" + "2" splits *)
Example quirks :
  scan_tv [49;32;50] = Some [(T_NUMBER,[49]); (T_NUMBER,[50]); (T_EOF,[])] /\
  scan_tv [48;53] = Some [(T_NUMBER,[48]); (T_NUMBER,[53]); (T_EOF,[])] /\
  scan_tv [97;58] = Some [(T_LABEL,[97]); (T_EOF,[])] /\
  scan_tv [48;98;50] = Some [(T_NUMBER,[48;98]); (T_NUMBER,[50]); (T_EOF,[])] /\
  scan_tv [49;10] = None.
Proof. vm_compute. repeat split. Qed.

(* ------------------------------------------------------------------------------------------ *)
(** * A view of the scanner state: consumed text [a], current token text [v], remaining text [r],
      (type, value) of the tokens emitted so far (newest first).  Line bookkeeping is not tracked:
      none of it influences types and values. *)

Definition Zv (s : sc) (a v r : str) (out : list tk) : Prop :=
  inp s = a ++ v ++ r /\ start s = length a /\ pos s = (length a + length v)%nat /\
  map tv (toks_rev s) = out.

Lemma Zv_len s a v r out : Zv s a v r out -> length (inp s) = (length a + length v + length r)%nat.
Proof. intros (H & _). rewrite H, !app_length. lia. Qed.

Lemma Zv_nth_error s a v r out : Zv s a v r out -> nth_error (inp s) (pos s) = nth_error r 0.
Proof.
  intros (H1 & _ & H3 & _). rewrite H1, H3, app_assoc, nth_error_app2 by (rewrite app_length; lia).
  rewrite app_length. f_equal. lia.
Qed.

Lemma Zv_peek_k s a v r out k : Zv s a v r out -> peek_k s k = nth k r 0.
Proof.
  intros (H1 & _ & H3 & _). unfold peek_k. rewrite H1, H3, app_assoc, <- app_length. apply app_nth2_plus.
Qed.

Lemma Zv_peek s a v r out : Zv s a v r out -> peek s = hd 0 r.
Proof. intros H. unfold peek. rewrite (Zv_peek_k _ _ _ _ _ 0%nat H). destruct r; reflexivity. Qed.

Lemma next_Zv s a v c r out : Zv s a v (c :: r) out ->
  exists s', next s = (Some c, s') /\ Zv s' a (v ++ [c]) r out.
Proof.
  intros H. pose proof (Zv_nth_error _ _ _ _ _ H) as E. cbn [nth_error] in E.
  destruct (next s) as [o s'] eqn:N.
  assert (o = Some c) by (unfold next in N; rewrite E in N; injection N; auto). subst o.
  exists s'. split; [reflexivity|]. apply next_some in N. destruct N as (_ & _ & N1 & N2 & N3 & N4 & _).
  destruct H as (H1 & H2 & H3 & H4). unfold Zv. rewrite N1, N2, N3, N4, H1, H2, H3, H4, app_length. cbn [length].
  split; [rewrite <- !app_assoc; reflexivity|]. split; [reflexivity|]. split; [lia|reflexivity].
Qed.

Lemma next_Zv_end s a v out : Zv s a v [] out -> next s = (None, s).
Proof.
  intros H. pose proof (Zv_nth_error _ _ _ _ _ H) as E. cbn [nth_error] in E.
  unfold next. rewrite E. reflexivity.
Qed.

Lemma accept_Zv_true s a v c r out cands : Zv s a v (c :: r) out -> mem_z c cands = true ->
  exists s', accept s cands false = (true, s') /\ Zv s' a (v ++ [c]) r out.
Proof.
  intros H M. destruct (next_Zv _ _ _ _ _ _ H) as (s' & N & H').
  exists s'. split; [|exact H']. unfold accept. rewrite (Zv_peek _ _ _ _ _ H). cbn [hd]. rewrite M.
  cbn [xorb]. rewrite N. reflexivity.
Qed.

Lemma accept_Zv_false s a v r out cands : Zv s a v r out -> mem_z (hd 0 r) cands = false ->
  accept s cands false = (false, s).
Proof. intros H M. unfold accept. rewrite (Zv_peek _ _ _ _ _ H), M. reflexivity. Qed.

Lemma accept_run_Zv cands : forall run F s a v r out,
  Zv s a v (run ++ r) out -> Forall (fun c => mem_z c cands = true) run ->
  mem_z (hd 0 r) cands = false -> (length run < F)%nat ->
  exists s', accept_run F s cands false = LOk s' /\ Zv s' a (v ++ run) r out.
Proof.
  induction run as [|c run IH]; intros F s a v r out H Hf Hn HF.
  - destruct F; [lia|]. cbn [accept_run]. cbn [app] in H. rewrite (accept_Zv_false _ _ _ _ _ _ H Hn).
    cbv beta iota. exists s. rewrite app_nil_r. split; [reflexivity|exact H].
  - destruct F; [cbn in HF; lia|]. inversion Hf as [|? ? H2 H3]; subst. cbn [accept_run].
    cbn [app] in H. destruct (accept_Zv_true _ _ _ _ _ _ _ H H2) as (s1 & A & H1). rewrite A. cbv beta iota.
    destruct (IH F s1 a (v ++ [c]) r out H1 H3 Hn ltac:(cbn in HF; lia)) as (s' & R & H').
    exists s'. split; [exact R|]. rewrite <- app_assoc in H'. exact H'.
Qed.

Lemma ignore_Zv s a v r out : Zv s a v r out -> Zv (ignore s) (a ++ v) [] r out.
Proof.
  intros (H1 & H2 & H3 & H4). unfold Zv, ignore; cbn [inp start pos toks_rev].
  rewrite H1, H3, app_length. cbn [length app]. rewrite <- app_assoc.
  split; [reflexivity|]. split; [reflexivity|]. split; [lia|exact H4].
Qed.

Lemma token_text_Zv s a v r out : Zv s a v r out -> current_token_text s = v.
Proof.
  intros (H1 & H2 & H3 & _). unfold current_token_text, slice. rewrite H1, H2, H3.
  replace (length a + length v - length a)%nat with (length v) by lia.
  rewrite skipn_app, skipn_all, Nat.sub_diag. cbn [skipn app].
  rewrite firstn_app, firstn_all, Nat.sub_diag. cbn [firstn]. apply app_nil_r.
Qed.

Lemma emit_Zv s a v r out ty : Zv s a v r out -> Zv (emit s ty) (a ++ v) [] r ((ty, v) :: out).
Proof.
  intros H. pose proof (token_text_Zv _ _ _ _ _ H) as T. destruct H as (H1 & H2 & H3 & H4).
  unfold Zv, emit; cbn [inp start pos toks_rev map]. unfold tv at 1, get_token. cbn [t_type t_value].
  rewrite T, H1, H3, H4, app_length. cbn [length app]. rewrite <- app_assoc.
  split; [reflexivity|]. split; [reflexivity|]. split; [lia|reflexivity].
Qed.

Lemma backup_Zv s a v c r out : Zv s a (v ++ [c]) r out ->
  exists s', backup s = LOk s' /\ Zv s' a v (c :: r) out.
Proof.
  intros (H1 & H2 & H3 & H4). unfold backup. rewrite H3, app_length. cbn [length].
  replace (length a + (length v + 1))%nat with (S (length a + length v)) by lia.
  eexists. split; [reflexivity|]. unfold Zv, set_pos; cbn [inp start pos toks_rev].
  rewrite H1, <- app_assoc. cbn [app]. auto.
Qed.

Lemma slice_pos_Zv s a v r out n : Zv s a v r out -> slice (inp s) (pos s) (pos s + n) = firstn n r.
Proof.
  intros (H1 & _ & H3 & _). unfold slice. rewrite H1, H3.
  replace (length a + length v + n - (length a + length v))%nat with n by lia.
  rewrite app_assoc, <- app_length, skipn_app, skipn_all, Nat.sub_diag. reflexivity.
Qed.

Lemma str_eqb_refl' (s : str) : str_eqb s s = true.
Proof. induction s as [|c s IH]; [reflexivity|]. cbn. rewrite Z.eqb_refl. exact IH. Qed.

Lemma accept_prefix_Zv_true s a v p r out : Zv s a v (p ++ r) out ->
  exists s', accept_prefix s p = (true, s') /\ Zv s' a (v ++ p) r out.
Proof.
  intros H. unfold accept_prefix. rewrite (slice_pos_Zv _ _ _ _ _ _ H).
  rewrite firstn_app, firstn_all, Nat.sub_diag. cbn [firstn]. rewrite app_nil_r, str_eqb_refl'.
  eexists. split; [reflexivity|]. destruct H as (H1 & H2 & H3 & H4).
  unfold Zv, set_pos; cbn [inp start pos toks_rev]. rewrite H1, H3, app_length, <- app_assoc.
  split; [reflexivity|]. split; [exact H2|]. split; [lia|exact H4].
Qed.

Lemma accept_prefix_Zv_false s a v r out p : Zv s a v r out ->
  str_eqb (firstn (length p) r) p = false -> accept_prefix s p = (false, s).
Proof. intros H E. unfold accept_prefix. rewrite (slice_pos_Zv _ _ _ _ _ _ H), E. reflexivity. Qed.

(* ------------------------------------------------------------------------------------------ *)
(** * Character classes *)

Ltac zeq :=
  repeat match goal with
    | |- context [?a =? ?b] =>
        let v := eval vm_compute in (a =? b) in
        match v with
        | true => change (a =? b) with true
        | false => change (a =? b) with false
        end
    end.

(** a character that ends a NUMBER or an IDENTIFIER: not a letter/digit/underscore, not ':' or '.' *)
Definition delim (c : Z) : bool := negb (mem_z c ident_chars) && negb (c =? 58) && negb (c =? 46).

Lemma mem_z_incl l1 l2 : forallb (fun x => mem_z x l2) l1 = true ->
  forall c, mem_z c l1 = true -> mem_z c l2 = true.
Proof.
  intros H c M. unfold mem_z in M. apply existsb_exists in M as (x & Hin & E).
  apply Z.eqb_eq in E. subst x. rewrite forallb_forall in H. exact (H _ Hin).
Qed.

Lemma mem_z_disj l1 l2 : forallb (fun x => negb (mem_z x l2)) l1 = true ->
  forall c, mem_z c l1 = true -> mem_z c l2 = false.
Proof.
  intros H c M. unfold mem_z in M. apply existsb_exists in M as (x & Hin & E).
  apply Z.eqb_eq in E. subst x. rewrite forallb_forall in H. apply negb_true_iff. exact (H _ Hin).
Qed.

Lemma digits_ident c : mem_z c digits = true -> mem_z c ident_chars = true.
Proof. apply mem_z_incl. reflexivity. Qed.
Lemma hex_ident c : mem_z c hex_digits = true -> mem_z c ident_chars = true.
Proof. apply mem_z_incl. reflexivity. Qed.
Lemma bin_ident c : mem_z c bin_digits = true -> mem_z c ident_chars = true.
Proof. apply mem_z_incl. reflexivity. Qed.
Lemma start_not_digit c : mem_z c ident_start = true -> mem_z c digits = false.
Proof. apply mem_z_disj. reflexivity. Qed.
Lemma start_not_space c : mem_z c ident_start = true -> mem_z c [32] = false.
Proof. apply mem_z_disj. reflexivity. Qed.
Lemma digit_not_space c : mem_z c digits = true -> mem_z c [32] = false.
Proof. apply mem_z_disj. reflexivity. Qed.
Lemma digit_not_eol c : mem_z c digits = true -> (c =? 10) || (c =? 0) = false.
Proof.
  intros M. destruct (c =? 10) eqn:E1; [apply Z.eqb_eq in E1; subst; discriminate M|].
  destruct (c =? 0) eqn:E2; [apply Z.eqb_eq in E2; subst; discriminate M|]. reflexivity.
Qed.

Lemma delim_ident c : delim c = true -> mem_z c ident_chars = false.
Proof. unfold delim. destruct (mem_z c ident_chars); [discriminate|reflexivity]. Qed.
Lemma delim_digits c : delim c = true -> mem_z c digits = false.
Proof.
  intros D. apply delim_ident in D. destruct (mem_z c digits) eqn:E; [|reflexivity].
  apply digits_ident in E. congruence.
Qed.
Lemma delim_hex c : delim c = true -> mem_z c hex_digits = false.
Proof.
  intros D. apply delim_ident in D. destruct (mem_z c hex_digits) eqn:E; [|reflexivity].
  apply hex_ident in E. congruence.
Qed.
Lemma delim_bin c : delim c = true -> mem_z c bin_digits = false.
Proof.
  intros D. apply delim_ident in D. destruct (mem_z c bin_digits) eqn:E; [|reflexivity].
  apply bin_ident in E. congruence.
Qed.
Lemma delim_ne c x : delim x = false -> delim c = true -> (c =? x) = false.
Proof. intros Hx D. destruct (c =? x) eqn:E; [|reflexivity]. apply Z.eqb_eq in E. subst. congruence. Qed.

(* ------------------------------------------------------------------------------------------ *)
(** * Numerals: the shapes lex_number takes as ONE token when a delimiter follows *)

Definition all_in (cands : str) (l : str) : Prop := Forall (fun c => mem_z c cands = true) l.

Inductive num_ok : Z -> str -> Prop :=
| num_zero : num_ok 48 []
| num_dec d tl : mem_z d digits = true -> d <> 48 -> all_in digits tl -> num_ok d tl
| num_hex tl : all_in hex_digits tl -> num_ok 48 (120 :: tl)
| num_bin tl : all_in bin_digits tl -> num_ok 48 (98 :: tl).

Lemma digits_fuel_head base : 2 <= base -> forall f n acc, 1 <= n ->
  exists h t, digits_fuel base f n acc = h :: t /\ 1 <= h.
Proof.
  intros Hb. induction f as [|f IH]; intros n acc Hn; cbn [digits_fuel].
  - eauto.
  - destruct (n <? base) eqn:E; [eauto|]. apply IH.
    apply Z.ltb_ge in E. pose proof (Z.div_str_pos n base ltac:(lia)). lia.
Qed.

Lemma dec_char_digit c : 48 <= c <= 57 -> mem_z c digits = true.
Proof.
  intros H. destruct (dec_char_cases c H) as [E|E];
    repeat (destruct E as [E|E]; [subst c; reflexivity|]); subst c; reflexivity.
Qed.

Lemma dchar_hex u d : 0 <= d < 16 -> mem_z (dchar u d) hex_digits = true.
Proof.
  intros H.
  assert (E : d = 0 \/ d = 1 \/ d = 2 \/ d = 3 \/ d = 4 \/ d = 5 \/ d = 6 \/ d = 7 \/ d = 8 \/ d = 9 \/
              d = 10 \/ d = 11 \/ d = 12 \/ d = 13 \/ d = 14 \/ d = 15) by lia.
  destruct u; repeat (destruct E as [E|E]; [subst d; reflexivity|]); subst d; reflexivity.
Qed.

Lemma dchars_hex : forall ds us, Forall (fun d => 0 <= d < 16) ds -> all_in hex_digits (dchars us ds).
Proof.
  induction ds as [|d r IH]; intros us H; [constructor|].
  inversion H; subst. cbn [dchars]. constructor; [apply dchar_hex; assumption|apply IH; assumption].
Qed.

Lemma dchars_bin : forall ds us, Forall (fun d => 0 <= d < 2) ds -> all_in bin_digits (dchars us ds).
Proof.
  induction ds as [|d r IH]; intros us H; [constructor|].
  inversion H as [|? ? Hd Hr]; subst. cbn [dchars]. constructor; [|apply IH; assumption].
  assert (E : d = 0 \/ d = 1) by lia. destruct E; subst d; destruct (hd false us); reflexivity.
Qed.

Lemma zeros_in cands pad : mem_z 48 cands = true -> all_in cands (repeat_z 48 pad).
Proof. intros M. induction pad; cbn [repeat_z]; constructor; assumption. Qed.

Lemma render_num_ok f n : exists d tl, render f n = d :: tl /\ num_ok d tl.
Proof.
  pose proof (N2Z.is_nonneg n) as Hn. set (z := Z.of_N n) in *.
  destruct f as [|pad us|pad]; cbn [render]; fold z.
  - destruct (Z.eq_dec z 0) as [->|Hz].
    + exists 48, []. split; [reflexivity|constructor].
    + pose proof (digits_valid 10 z ltac:(lia) Hn) as V. unfold ExprSem.digits in *.
      destruct (digits_fuel_head 10 ltac:(lia) (Z.to_nat (Z.log2 z)) z [] ltac:(lia)) as (h & t & E & Hh).
      rewrite E in *. inversion V as [|? ? Vh Vt]; subst.
      pose proof (dchars_decimal _ V) as W. cbn [dchars hd tl] in *. inversion W as [|? ? Wh Wt]; subst.
      eexists _, _. split; [reflexivity|]. apply num_dec.
      * apply dec_char_digit. assumption.
      * unfold dchar. destruct (h <? 10) eqn:L; lia.
      * eapply Forall_impl; [|exact Wt]. intros c Hc. apply dec_char_digit. exact Hc.
  - eexists _, _. split; [reflexivity|]. apply num_hex. apply Forall_app. split.
    + apply zeros_in. reflexivity.
    + apply dchars_hex. apply digits_valid; lia.
  - eexists _, _. split; [reflexivity|]. apply num_bin. apply Forall_app. split.
    + apply zeros_in. reflexivity.
    + apply dchars_bin. apply digits_valid; lia.
Qed.

Lemma num_ok_digit d tl : num_ok d tl -> mem_z d digits = true.
Proof. destruct 1; try reflexivity; assumption. Qed.

(* ------------------------------------------------------------------------------------------ *)
(** * lex_number and lex_identifier on one token followed by a delimiter *)

Lemma early_nil tl r : all_in digits tl -> (hd 0 (tl ++ r) =? 10) || (hd 0 (tl ++ r) =? 0) = true -> tl = [].
Proof.
  intros A E. destruct tl as [|t tl']; [reflexivity|]. inversion A as [|? ? Ht _]; subst.
  cbn [app hd] in E. rewrite (digit_not_eol _ Ht) in E. discriminate.
Qed.

Lemma lex_number_Zv F s a d tl r out :
  Zv s a [d] (tl ++ r) out -> num_ok d tl -> delim (hd 0 r) = true -> (length tl + 2 < F)%nat ->
  exists s', lex_number F s = LOk s' /\ Zv s' (a ++ d :: tl) [] r ((T_NUMBER, d :: tl) :: out).
Proof.
  intros H N D HF. unfold lex_number.
  destruct (backup_Zv s a [] d (tl ++ r) out H) as (s0 & B & H0). rewrite B. cbn [lbind].
  destruct (next_Zv _ _ _ _ _ _ H0) as (s1 & N1 & H1). rewrite N1. cbv beta iota.
  cbn [app] in H1. rewrite (Zv_peek _ _ _ _ _ H1).
  inversion N as [|d' tl' Md Nd At|hs Ah|bs Ab]; subst.
  - (* "0" *)
    cbn [app] in *. destruct ((hd 0 r =? 10) || (hd 0 r =? 0)) eqn:E.
    + eexists; split; [reflexivity|]. apply (emit_Zv _ _ _ _ _ T_NUMBER H1).
    + destruct r as [|c r']; [discriminate E|]. cbn [hd] in *.
      cbn [oz_is]. zeq. cbv iota.
      destruct (next_Zv _ _ _ _ _ _ H1) as (s2 & N2 & H2). rewrite N2. cbv beta iota. cbn [oz_is].
      rewrite (delim_ne c 98), (delim_ne c 111), (delim_ne c 120) by (reflexivity || assumption).
      destruct (backup_Zv s2 a [48] c r' out H2) as (s3 & B3 & H3). rewrite B3. cbn [lbind].
      eexists; split; [reflexivity|]. apply (emit_Zv _ _ _ _ _ T_NUMBER H3).
  - (* decimal *)
    destruct ((hd 0 (tl ++ r) =? 10) || (hd 0 (tl ++ r) =? 0)) eqn:E.
    + apply early_nil in E; [|assumption]. subst tl. cbn [app] in *.
      eexists; split; [reflexivity|]. apply (emit_Zv _ _ _ _ _ T_NUMBER H1).
    + cbn [oz_is]. assert (Ed : (d =? 48) = false) by (apply Z.eqb_neq; assumption). rewrite Ed.
      destruct (accept_run_Zv digits tl F s1 a [d] r out H1 At (delim_digits _ D) ltac:(lia)) as (s2 & R & H2).
      rewrite R. cbn [lbind].
      eexists; split; [reflexivity|]. apply (emit_Zv _ _ _ _ _ T_NUMBER H2).
  - (* 0x *)
    cbn [app hd] in *. zeq. cbn [orb]. cbv iota. cbn [oz_is]. zeq. cbv iota.
    destruct (next_Zv _ _ _ _ _ _ H1) as (s2 & N2 & H2). rewrite N2. cbv beta iota. cbn [oz_is]. zeq. cbv iota.
    destruct (accept_run_Zv hex_digits hs F s2 a _ r out H2 Ah (delim_hex _ D) ltac:(cbn [length] in HF; lia))
      as (s3 & R & H3).
    rewrite R. cbn [lbind].
    eexists; split; [reflexivity|]. apply (emit_Zv _ _ _ _ _ T_NUMBER H3).
  - (* 0b *)
    cbn [app hd] in *. zeq. cbn [orb]. cbv iota. cbn [oz_is]. zeq. cbv iota.
    destruct (next_Zv _ _ _ _ _ _ H1) as (s2 & N2 & H2). rewrite N2. cbv beta iota. cbn [oz_is]. zeq. cbv iota.
    destruct (accept_run_Zv bin_digits bs F s2 a _ r out H2 Ab (delim_bin _ D) ltac:(cbn [length] in HF; lia))
      as (s3 & R & H3).
    rewrite R. cbn [lbind].
    eexists; split; [reflexivity|]. apply (emit_Zv _ _ _ _ _ T_NUMBER H3).
Qed.

Lemma lex_identifier_Zv F s a c0 t r out :
  Zv s a [c0] (t ++ r) out -> ident_ok (c0 :: t) -> delim (hd 0 r) = true -> (length t + 1 < F)%nat ->
  exists s', lex_identifier F s = LOk s' /\ Zv s' (a ++ c0 :: t) [] r ((T_IDENTIFIER, c0 :: t) :: out).
Proof.
  intros H I D HF. unfold lex_identifier.
  inversion I as [c0' t' M0 At|c0' t1 t2 M0 A1 A2]; subst.
  - destruct (accept_run_Zv ident_chars t F s a [c0] r out H At (delim_ident _ D) ltac:(lia)) as (s1 & R & H1).
    rewrite R. cbn [lbind]. rewrite (Zv_peek _ _ _ _ _ H1).
    assert (E1 : (hd 0 r =? 58) = false) by (apply delim_ne; [reflexivity|assumption]).
    assert (E2 : (hd 0 r =? 46) = false) by (apply delim_ne; [reflexivity|assumption]).
    rewrite E1, E2. cbn [andb lbind].
    eexists; split; [reflexivity|]. apply (emit_Zv _ _ _ _ _ T_IDENTIFIER H1).
  - rewrite <- app_assoc in H. cbn [app] in H.
    destruct (accept_run_Zv ident_chars t1 F s a [c0] (46 :: t2 ++ r) out H A1 eq_refl
                ltac:(rewrite app_length in HF; lia)) as (s1 & R & H1).
    rewrite R. cbn [lbind]. rewrite (Zv_peek _ _ _ _ _ H1). cbn [hd]. zeq. cbn [andb]. cbv iota.
    destruct (next_Zv _ _ _ _ _ _ H1) as (s2 & N2 & H2). rewrite N2. cbn [snd].
    destruct (accept_run_Zv ident_chars t2 F s2 a _ r out H2 A2 (delim_ident _ D)
                ltac:(rewrite app_length in HF; cbn [length] in HF; lia)) as (s3 & R3 & H3).
    rewrite R3. cbn [lbind].
    eexists; split; [reflexivity|]. pose proof (emit_Zv _ _ _ _ _ T_IDENTIFIER H3) as H4.
    cbn [app] in H4. rewrite <- !app_assoc in H4. cbn [app] in H4. exact H4.
Qed.

(* ------------------------------------------------------------------------------------------ *)
(** * Token sequences and their texts *)

Inductive tk_ok : tk -> Prop :=
| ok_num f n : tk_ok (T_NUMBER, render f n)
| ok_id s : ident_ok s -> tk_ok (T_IDENTIFIER, s)
| ok_un o : tk_ok (T_OPERATOR, uop_text o)
| ok_bin o : tk_ok (T_OPERATOR, bop_text o)
| ok_lp : tk_ok (T_LPAREN, [40])
| ok_rp : tk_ok (T_RPAREN, [41]).

Definition is_termtk (t : tk) : bool :=
  match fst t with T_NUMBER | T_IDENTIFIER => true | _ => false end.

(** every token is well formed and no NUMBER/IDENTIFIER directly follows a NUMBER/IDENTIFIER
    ([prev] : the token before the list is one of those) *)
Fixpoint seq_ok (prev : bool) (l : list tk) : Prop :=
  match l with
  | [] => True
  | t :: l' => tk_ok t /\ (prev = true -> is_termtk t = false) /\ seq_ok (is_termtk t) l'
  end.

Fixpoint join (sp : spacing) (i : nat) (l : list tk) : str :=
  match l with
  | [] => spaces (sp i)
  | t :: l' => spaces (sp i) ++ snd t ++ join sp (S i) l'
  end.

Lemma seq_ok_weaken l : seq_ok true l -> seq_ok false l.
Proof. destruct l as [|t l']; cbn [seq_ok]; [auto|]. intros (A & _ & C). split; [exact A|]. split; [discriminate|exact C]. Qed.

Lemma seq_toks e : lexable e -> forall r, seq_ok true r -> seq_ok false (toks_of e ++ r).
Proof.
  induction e as [f n|s|o a IH|o a IHa b IHb|a IH]; cbn [lexable toks_of]; intros L r Hr.
  - cbn [app seq_ok]. split; [constructor|]. split; [discriminate|exact Hr].
  - cbn [app seq_ok]. split; [constructor; exact L|]. split; [discriminate|exact Hr].
  - cbn [app seq_ok]. split; [constructor|]. split; [discriminate|]. apply IH; assumption.
  - destruct L as [La Lb]. rewrite <- app_assoc. cbn [app]. apply IHa; [assumption|].
    cbn [seq_ok]. split; [constructor|]. split; [reflexivity|]. apply IHb; assumption.
  - cbn [app seq_ok]. split; [constructor|]. split; [discriminate|]. rewrite <- app_assoc. cbn [app].
    apply IH; [assumption|]. cbn [seq_ok]. split; [constructor|]. split; [reflexivity|].
    apply seq_ok_weaken in Hr. exact Hr.
Qed.

Lemma toks_of_length e : length (toks_of e) = size e.
Proof.
  induction e as [f n|s|o a IH|o a IHa b IHb|a IH]; cbn [toks_of size length]; try reflexivity.
  - rewrite IH. reflexivity.
  - rewrite app_length. cbn [length]. rewrite IHa, IHb. reflexivity.
  - rewrite app_length. cbn [length]. rewrite IH. lia.
Qed.

Lemma print_join sp e : forall i rest,
  print sp i e ++ join sp (i + size e) rest = join sp i (toks_of e ++ rest).
Proof.
  induction e as [f n|s|o a IH|o a IHa b IHb|a IH]; intros i rest; cbn [print toks_of size app join snd].
  - rewrite <- app_assoc, Nat.add_1_r. reflexivity.
  - rewrite <- app_assoc, Nat.add_1_r. reflexivity.
  - rewrite <- !app_assoc. rewrite <- (IH (S i) rest). rewrite Nat.add_succ_r. reflexivity.
  - rewrite <- !app_assoc. cbn [app].
    rewrite <- (IHa i). cbn [join snd]. f_equal. f_equal. f_equal.
    rewrite <- (IHb (S (i + size a)) rest).
    replace (i + S (size a))%nat with (S (i + size a)) by lia.
    replace (i + (size a + S (size b)))%nat with (S (i + size a) + size b)%nat by lia. reflexivity.
  - repeat (rewrite <- app_assoc; cbn [app]).
    rewrite <- (IH (S i)). cbn [join snd app].
    replace (S i + size a)%nat with (S (i + size a)) by lia.
    replace (i + S (S (size a)))%nat with (S (S (i + size a))) by lia. reflexivity.
Qed.

Lemma text_of_join sp e : text_of sp e = join sp 0 (toks_of e).
Proof.
  unfold text_of. pose proof (print_join sp e 0%nat []) as H. cbn [join] in H.
  rewrite Nat.add_0_l, app_nil_r in H. exact H.
Qed.

(** the first character of a well-formed token, and of what can follow a NUMBER/IDENTIFIER *)
Lemma spaces_S k : spaces (S k) = 32 :: spaces k. Proof. reflexivity. Qed.

Lemma spaces_all k : all_in [32] (spaces k).
Proof. induction k; [constructor|]. rewrite spaces_S. constructor; [reflexivity|assumption]. Qed.

Lemma spaces_length k : length (spaces k) = k.
Proof. induction k; [reflexivity|]. rewrite spaces_S. cbn [length]. congruence. Qed.

Lemma tk_ok_nonempty ty v : tk_ok (ty, v) -> exists c v', v = c :: v' /\ mem_z c [32] = false.
Proof.
  inversion 1 as [f n| s I |o|o| | ]; subst.
  - destruct (render_num_ok f n) as (d & tl & -> & N). exists d, tl. split; [reflexivity|].
    apply digit_not_space. eapply num_ok_digit; eassumption.
  - inversion I; subst; eexists _, _; (split; [reflexivity|]); apply start_not_space; assumption.
  - destruct o; eexists _, _; split; reflexivity.
  - destruct o; eexists _, _; split; reflexivity.
  - eexists _, _; split; reflexivity.
  - eexists _, _; split; reflexivity.
Qed.

Lemma join_follow sp j l : seq_ok true l -> delim (hd 0 (join sp j l)) = true.
Proof.
  destruct l as [|[ty v] l']; cbn [seq_ok join snd].
  - intros _. destruct (sp j); reflexivity.
  - intros (K & NT & _). destruct (sp j) as [|k]; [|reflexivity]. cbn [spaces repeat_z app].
    specialize (NT eq_refl). unfold is_termtk in NT. cbn [fst] in NT.
    inversion K as [f n| s I |o|o| | ]; subst; try discriminate NT.
    + destruct o; reflexivity.
    + destruct o; reflexivity.
    + reflexivity.
    + reflexivity.
Qed.

Lemma join_length sp l : forall b i, seq_ok b l -> (length l <= length (join sp i l))%nat.
Proof.
  induction l as [|[ty v] l' IH]; intros b i H; cbn [length join snd]; [lia|].
  destruct H as (K & _ & H'). destruct (tk_ok_nonempty _ _ K) as (c & v' & -> & _).
  rewrite !app_length. cbn [length]. specialize (IH _ (S i) H'). lia.
Qed.

(* ------------------------------------------------------------------------------------------ *)
(** * One iteration of lex_expression's loop = one token *)

Ltac nope H cands := rewrite (accept_Zv_false _ _ _ _ _ cands H eq_refl); cbv beta iota.
Ltac nopre H p := rewrite (accept_prefix_Zv_false _ _ _ _ _ p H eq_refl); cbn [accept_or fst snd].

Lemma lex_step f F s a k ty v r out :
  Zv s a [] (spaces k ++ v ++ r) out -> tk_ok (ty, v) ->
  (is_termtk (ty, v) = true -> delim (hd 0 r) = true) ->
  (length (inp s) + 1 < F)%nat ->
  exists s', lex_expression_loop (S f) F s = lex_expression_loop f F s' /\
             Zv s' (a ++ spaces k ++ v) [] r ((ty, v) :: out).
Proof.
  intros H K D HF. pose proof (Zv_len _ _ _ _ _ H) as L. rewrite !app_length, spaces_length in L.
  cbn [length] in L. destruct (tk_ok_nonempty _ _ K) as (c & v' & Ev & Hc).
  cbn [lex_expression_loop].
  assert (P : (pos s <? length (inp s))%nat = true).
  { destruct H as (_ & _ & H3 & _). apply Nat.ltb_lt. rewrite H3, L, Ev. cbn [length]. lia. }
  rewrite P. unfold ignore_run.
  destruct (accept_run_Zv [32] (spaces k) F s a [] (v ++ r) out H (spaces_all k)
              ltac:(rewrite Ev; exact Hc) ltac:(rewrite spaces_length; lia)) as (s1 & R & H1).
  rewrite R. cbn [lbind]. apply ignore_Zv in H1. cbn [app] in H1.
  set (s0 := ignore s1) in *. clearbody s0. clear R s1 P.
  assert (L' : (length v + 1 < F)%nat) by lia. clear Ev Hc c v' L.
  assert (Fin : forall s' x, Zv s' ((a ++ spaces k) ++ x) [] r ((ty, x) :: out) ->
                             Zv s' (a ++ spaces k ++ x) [] r ((ty, x) :: out)).
  { intros s' x Hx. rewrite <- app_assoc in Hx. exact Hx. }
  inversion K as [fm n| idn I |o|o| | ]; subst.
  - (* NUMBER *)
    destruct (render_num_ok fm n) as (d & tl & E & N). rewrite E in *.
    cbn [app] in H1.
    destruct (accept_Zv_true s0 _ [] d (tl ++ r) out digits H1 (num_ok_digit _ _ N)) as (s2 & A & H2).
    rewrite A. cbv beta iota. cbn [app] in H2.
    destruct (lex_number_Zv F s2 _ d tl r out H2 N (D eq_refl) ltac:(cbn [length] in L'; lia)) as (s3 & LN & H3).
    rewrite LN. cbn [lbind]. exists s3. split; [reflexivity|]. apply Fin. exact H3.
  - (* IDENTIFIER *)
    destruct (tk_ok_nonempty _ _ K) as (c & v' & -> & _).
    assert (M0 : mem_z c ident_start = true) by (inversion I; subst; assumption).
    cbn [app] in H1.
    rewrite (accept_Zv_false _ _ _ _ _ digits H1 (start_not_digit _ M0)). cbv beta iota.
    destruct (accept_Zv_true s0 _ [] c (v' ++ r) out ident_start H1 M0) as (s2 & A & H2).
    rewrite A. cbv beta iota. cbn [app] in H2.
    destruct (lex_identifier_Zv F s2 _ c v' r out H2 I (D eq_refl) ltac:(cbn [length] in L'; lia)) as (s3 & LI & H3).
    rewrite LI. cbn [lbind]. exists s3. split; [reflexivity|]. apply Fin. exact H3.
  - (* unary operator *)
    clear D L'.
    destruct o; cbn [uop_text app] in *; nope H1 digits; nope H1 ident_start;
      (destruct (accept_Zv_true s0 _ [] _ r out expr_ops H1 eq_refl) as (s2 & A & H2));
      rewrite A; cbn [accept_or fst snd]; cbv beta iota;
      (exists (emit s2 T_OPERATOR)); (split; [reflexivity|]); apply Fin;
      apply (emit_Zv _ _ _ _ _ T_OPERATOR H2).
  - (* binary operator *)
    clear D L'.
    destruct o; cbn [bop_text app] in *; nope H1 digits; nope H1 ident_start.
    1-3,6-7:
      (destruct (accept_Zv_true s0 _ [] _ r out expr_ops H1 eq_refl) as (s2 & A & H2));
      rewrite A; cbn [accept_or fst snd]; cbv beta iota;
      (exists (emit s2 T_OPERATOR)); (split; [reflexivity|]); apply Fin;
      apply (emit_Zv _ _ _ _ _ T_OPERATOR H2).
    + (* << *)
      nope H1 expr_ops. cbn [accept_or fst snd].
      destruct (accept_prefix_Zv_true s0 _ [] [60; 60] r out H1) as (s2 & A & H2).
      rewrite A. cbn [accept_or fst snd]. cbv beta iota.
      exists (emit s2 T_OPERATOR). split; [reflexivity|]. apply Fin.
      apply (emit_Zv _ _ _ _ _ T_OPERATOR H2).
    + (* >> *)
      nope H1 expr_ops. cbn [accept_or fst snd]. nopre H1 [60; 60].
      destruct (accept_prefix_Zv_true s0 _ [] [62; 62] r out H1) as (s2 & A & H2).
      rewrite A. cbn [accept_or fst snd]. cbv beta iota.
      exists (emit s2 T_OPERATOR). split; [reflexivity|]. apply Fin.
      apply (emit_Zv _ _ _ _ _ T_OPERATOR H2).
  - (* ( *)
    clear D L'. cbn [app] in *.
    nope H1 digits. nope H1 ident_start. nope H1 expr_ops. cbn [accept_or fst snd].
    nopre H1 [60; 60]. nopre H1 [62; 62]. cbv beta iota.
    destruct (accept_Zv_true s0 _ [] _ r out [40] H1 eq_refl) as (s2 & A & H2).
    rewrite A. cbv beta iota.
    exists (emit s2 T_LPAREN). split; [reflexivity|]. apply Fin. apply (emit_Zv _ _ _ _ _ T_LPAREN H2).
  - (* ) *)
    clear D L'. cbn [app] in *.
    nope H1 digits. nope H1 ident_start. nope H1 expr_ops. cbn [accept_or fst snd].
    nopre H1 [60; 60]. nopre H1 [62; 62]. cbv beta iota. nope H1 [40].
    destruct (accept_Zv_true s0 _ [] _ r out [41] H1 eq_refl) as (s2 & A & H2).
    rewrite A. cbv beta iota.
    exists (emit s2 T_RPAREN). split; [reflexivity|]. apply Fin. apply (emit_Zv _ _ _ _ _ T_RPAREN H2).
Qed.

(** after the last token: the trailing spaces are skipped and the loop ends *)
Lemma lex_end f F s a k out : Zv s a [] (spaces k) out -> (k < F)%nat ->
  exists s', lex_expression_loop (S f) F s = LOk s' /\ Zv s' (a ++ spaces k) [] [] out.
Proof.
  intros H HF. pose proof (Zv_len _ _ _ _ _ H) as L. rewrite spaces_length in L. cbn [length] in L.
  cbn [lex_expression_loop]. destruct k as [|k].
  - assert (P : (pos s <? length (inp s))%nat = false).
    { destruct H as (_ & _ & H3 & _). apply Nat.ltb_ge. rewrite H3, L. cbn [length]. lia. }
    rewrite P. exists s. split; [reflexivity|]. cbn [spaces repeat_z] in *. rewrite app_nil_r. exact H.
  - assert (P : (pos s <? length (inp s))%nat = true).
    { destruct H as (_ & _ & H3 & _). apply Nat.ltb_lt. rewrite H3, L. cbn [length]. lia. }
    rewrite P. unfold ignore_run. rewrite <- (app_nil_r (spaces (S k))) in H.
    destruct (accept_run_Zv [32] (spaces (S k)) F s a [] [] out H (spaces_all _) eq_refl
                ltac:(rewrite spaces_length; lia)) as (s1 & R & H1).
    rewrite R. cbn [lbind]. apply ignore_Zv in H1. cbn [app] in H1.
    set (s0 := ignore s1) in *. clearbody s0.
    nope H1 digits. nope H1 ident_start. nope H1 expr_ops. cbn [accept_or fst snd].
    nopre H1 [60; 60]. nopre H1 [62; 62]. cbv beta iota. nope H1 [40]. nope H1 [41].
    exists s0. split; [reflexivity|exact H1].
Qed.

(* ------------------------------------------------------------------------------------------ *)
(** * The whole loop, the driver *)

Lemma lex_loop sp F : forall l b i fuel s a out,
  Zv s a [] (join sp i l) out -> seq_ok b l -> (length l < fuel)%nat -> (length (inp s) + 1 < F)%nat ->
  exists s', lex_expression_loop fuel F s = LOk s' /\ Zv s' (a ++ join sp i l) [] [] (rev l ++ out).
Proof.
  induction l as [|[ty v] l' IH]; intros b i fuel s a out H S HL HF;
    (destruct fuel as [|f]; [cbn [length] in HL; lia|]); cbn [join snd] in *.
  - apply lex_end; [exact H|]. pose proof (Zv_len _ _ _ _ _ H) as L. rewrite spaces_length in L. lia.
  - cbn [seq_ok] in S. destruct S as (K & _ & S').
    destruct (lex_step f F s a (sp i) ty v (join sp (Datatypes.S i) l') out H K) as (s1 & E & H1).
    { intros T. apply join_follow. rewrite <- T. exact S'. }
    { exact HF. }
    rewrite E.
    destruct (IH _ (Datatypes.S i) f s1 _ _ H1 S' ltac:(cbn [length] in HL; lia)) as (s' & E' & H').
    { pose proof (Zv_len _ _ _ _ _ H) as L. pose proof (Zv_len _ _ _ _ _ H1) as L1.
      rewrite !app_length in *. cbn [length] in *. lia. }
    exists s'. split; [exact E'|]. cbn [rev]. rewrite <- !app_assoc in *. cbn [app]. exact H'.
Qed.

(** Token-sequence level: any sequence of well-formed tokens in which no NUMBER/IDENTIFIER directly
    follows a NUMBER/IDENTIFIER is lexed back from its text, whatever the spacing. *)
Theorem lex_join file sp l : seq_ok false l -> l <> [] ->
  exists toks eof lines,
    scan_expression file (join sp 0 l) = ScanOk (toks ++ [eof]) lines /\
    map tv toks = l /\ tv eof = (T_EOF, []).
Proof.
  intros S NE. set (text := join sp 0 l).
  assert (Ln : (length l <= length text)%nat) by (eapply join_length; exact S).
  assert (Lp : (0 < length text)%nat) by (destruct l; [congruence|cbn [length] in Ln; lia]).
  unfold scan_expression, scan_expression_with_fuel, scan_gen, scan_fuel.
  replace (length text + 2)%nat with (Datatypes.S (Datatypes.S (length text))) by lia.
  set (F := Datatypes.S (Datatypes.S (length text))).
  assert (H0 : Zv (init_sc file text) [] [] text []).
  { unfold Zv, init_sc; cbn. auto. }
  destruct (lex_loop sp F l false 0%nat F (init_sc file text) [] [] H0 S ltac:(unfold F; lia)
              ltac:(unfold F; cbn [init_sc inp]; lia)) as (s' & E & H').
  fold text in H'. cbn [app] in H'. rewrite app_nil_r in H'.
  pose proof (Zv_len _ _ _ _ _ H') as L'. cbn [length] in L'.
  pose proof (token_text_Zv _ _ _ _ _ H') as TT.
  destruct H' as (I1 & I2 & I3 & I4). cbn [length] in I3.
  unfold F at 1. cbn [scan_loop]. fold F.
  replace (pos (init_sc file text) <? length (inp (init_sc file text)))%nat with true
    by (symmetry; apply Nat.ltb_lt; cbn [init_sc pos inp]; lia).
  unfold lex_expression. rewrite E.
  replace (pos s' =? pos (init_sc file text))%nat with false
    by (symmetry; apply Nat.eqb_neq; cbn [init_sc pos]; lia).
  replace (pos s' <? length (inp s'))%nat with false by (symmetry; apply Nat.ltb_ge; lia).
  exists (rev (toks_rev s')), (get_token s' T_EOF), (rev (lines_rev (handle_line (emit s' T_EOF)))).
  split; [|split].
  - rewrite handle_line_toks. reflexivity.
  - rewrite map_rev, I4. apply rev_involutive.
  - unfold tv, get_token. cbn [t_type t_value]. f_equal. exact TT.
Qed.

(** C06_lex_tokens *)
Theorem lex_tokens file sp e : lexable e ->
  exists toks eof lines,
    scan_expression file (text_of sp e) = ScanOk (toks ++ [eof]) lines /\
    map tv toks = toks_of e /\ tv eof = (T_EOF, []).
Proof.
  intros L. rewrite text_of_join. apply lex_join.
  - pose proof (seq_toks e L [] I) as H. rewrite app_nil_r in H. exact H.
  - intros E. pose proof (toks_of_length e) as H. rewrite E in H. destruct e; cbn in H; lia.
Qed.

Print Assumptions lex_tokens.
