(** C06, text level (second half): the tokens lexed from [text_of sp e] are parsed by
    _parse_expression into the flat node list [flat e] (up to token positions), and the value
    computed from the text is the value of the tree — whatever the spacing and whatever the base /
    letter case the numerals are written in.  First half (printer, scanner): Proofs/ExprLex.v. *)
From Coq Require Import ZArith NArith List Bool Lia Arith.
From A816 Require Import Spec.ExprSem Model.Expr Model.Assemble Proofs.ExprProofs Proofs.ExprLex.
Import ListNotations.
Open Scope Z_scope.

(* ------------------------------------------------------------------------------------------ *)
(** * The shape of a token list as _parse_expression reads it (right-recursive, greedy):
      PE ::= term | term op PE | ( PE ) | ( PE ) op PE | unary PE                              *)

Definition term_ty (t : token) : Prop := t_type t = T_NUMBER \/ t_type t = T_IDENTIFIER.
Definition un_tok (t : token) : Prop :=
  t_type t = T_OPERATOR /\ (t_value t = [45] \/ t_value t = [126]).

Inductive PE : list enode -> Prop :=
| PE_term t : term_ty t -> PE [en EK_term t]
| PE_term_op t o s : term_ty t -> t_type o = T_OPERATOR -> PE s -> PE (en EK_term t :: en EK_bin o :: s)
| PE_par l s r : t_type l = T_LPAREN -> t_type r = T_RPAREN -> PE s ->
                 PE (en EK_par l :: s ++ [en EK_par r])
| PE_par_op l s r o s' : t_type l = T_LPAREN -> t_type r = T_RPAREN -> t_type o = T_OPERATOR ->
                 PE s -> PE s' -> PE (en EK_par l :: s ++ en EK_par r :: en EK_bin o :: s')
| PE_un u s : un_tok u -> PE s -> PE (en EK_un u :: s).

Lemma PE_app x : PE x -> forall o y, t_type o = T_OPERATOR -> PE y -> PE (x ++ en EK_bin o :: y).
Proof.
  induction 1 as [t Ht|t o' s Ht Ho' Hs IH|l s r Hl Hr Hs IH|l s r o' s' Hl Hr Ho' Hs IHs Hs' IHs'|u s Hu Hs IH];
    intros o y Ho Hy; cbn [app].
  - apply PE_term_op; assumption.
  - apply PE_term_op; [assumption|assumption|]. apply IH; assumption.
  - rewrite <- app_assoc. cbn [app]. apply PE_par_op; assumption.
  - rewrite <- app_assoc. cbn [app]. apply PE_par_op; try assumption. apply IHs'; assumption.
  - apply PE_un; [assumption|]. apply IH; assumption.
Qed.

(** the tokens of [m] are at positions [pos ..] of [ts] *)
Definition seg (ts : list token) (pos : nat) (m : list token) : Prop :=
  forall j, (j < length m)%nat -> cur ts (pos + j) = nth j m eof_token.

Lemma seg_cons ts pos t m : seg ts pos (t :: m) -> cur ts pos = t /\ seg ts (S pos) m.
Proof.
  intros H. split.
  - specialize (H 0%nat ltac:(cbn [length]; lia)). rewrite Nat.add_0_r in H. exact H.
  - intros j Hj. specialize (H (S j) ltac:(cbn [length]; lia)). rewrite Nat.add_succ_r in H. exact H.
Qed.

Lemma seg_app ts pos a b : seg ts pos (a ++ b) -> seg ts pos a /\ seg ts (pos + length a) b.
Proof.
  intros H. split.
  - intros j Hj. rewrite (H j ltac:(rewrite app_length; lia)). apply app_nth1. exact Hj.
  - intros j Hj. rewrite <- Nat.add_assoc, (H (length a + j)%nat ltac:(rewrite app_length; lia)).
    apply app_nth2_plus.
Qed.

Lemma is_ty_of t ty ty' : t_type t = ty -> is_ty t ty' = ttype_eqb ty ty'.
Proof. intros <-. reflexivity. Qed.

Lemma pexpr_S' ts f pos :
  pexpr ts (S f) pos =
  (let t := cur ts pos in
   let p1 := S pos in
   dop hd <- (if is_ty t T_LPAREN then
                dop r <- pexpr ts f p1;
                let '(e, p2) := r in
                expect (cur ts p2) T_RPAREN (POk ((en EK_par t :: e) ++ [en EK_par (cur ts p2)], S p2))
              else if is_ty t T_NUMBER || is_ty t T_BOOLEAN || is_ty t T_IDENTIFIER then
                POk ([en EK_term t], p1)
              else if is_ty t T_OPERATOR
                      && (str_eqb (t_value t) k_minus || str_eqb (t_value t) k_tilde) then
                dop r <- pexpr ts f p1;
                let '(e, p2) := r in POk (en EK_un t :: e, p2)
              else PErr EParse (Some t));
   let '(toks, p3) := hd in
   match toks with
   | [] => POk (toks, p3)
   | _ =>
       let op := cur ts p3 in
       if is_ty op T_OPERATOR then
         dop r <- pexpr ts f (S p3);
         let '(e, p4) := r in POk ((toks ++ [en EK_bin op]) ++ e, p4)
       else POk (toks, p3)
   end).
Proof. reflexivity. Qed.

Lemma term_ty_tests t : term_ty t ->
  is_ty t T_LPAREN = false /\ (is_ty t T_NUMBER || is_ty t T_BOOLEAN || is_ty t T_IDENTIFIER) = true.
Proof. intros [H|H]; unfold is_ty; rewrite H; split; reflexivity. Qed.

Lemma un_tok_tests u : un_tok u ->
  is_ty u T_LPAREN = false /\ (is_ty u T_NUMBER || is_ty u T_BOOLEAN || is_ty u T_IDENTIFIER) = false /\
  (is_ty u T_OPERATOR && (str_eqb (t_value u) k_minus || str_eqb (t_value u) k_tilde)) = true.
Proof.
  intros [H [V|V]]; unfold is_ty; rewrite H, V; repeat split; reflexivity.
Qed.

Lemma pexpr_PE l : PE l -> forall ts pos f,
  seg ts pos (map en_tok l) -> is_ty (cur ts (pos + length l)) T_OPERATOR = false -> (length l < f)%nat ->
  pexpr ts f pos = POk (l, (pos + length l)%nat).
Proof.
  induction 1 as [t Ht|t o s Ht Ho Hs IH|l s r Hl Hr Hs IH|l s r o s' Hl Hr Ho Hs IHs Hs' IHs'|u s Hu Hs IH];
    intros ts pos f G St HF; (destruct f as [|f]; [lia|]); rewrite pexpr_S'; cbv zeta;
    cbn [map en_tok en] in G.
  - apply seg_cons in G as [C _]. rewrite C. destruct (term_ty_tests t Ht) as [T1 T2].
    rewrite T1, T2. cbn [pbind]. cbn [length] in St.
    replace (S pos) with (pos + 1)%nat by lia. rewrite St. reflexivity.
  - apply seg_cons in G as [C G]. apply seg_cons in G as [Co G].
    rewrite C. destruct (term_ty_tests t Ht) as [T1 T2].
    rewrite T1, T2. cbn [pbind]. rewrite Co. unfold is_ty at 1. rewrite Ho. cbn [ttype_eqb ttype_code Z.eqb Pos.eqb].
    rewrite (IH ts (S (S pos)) f G).
    + cbn [pbind app length]. f_equal. f_equal. lia.
    + cbn [length] in St. replace (S (S pos) + length s)%nat with (pos + S (S (length s)))%nat by lia. exact St.
    + cbn [length] in HF. lia.
  - apply seg_cons in G as [C G]. rewrite map_app in G. apply seg_app in G as [G Gr].
    cbn [map en_tok en] in Gr. apply seg_cons in Gr as [Cr _]. rewrite map_length in Cr.
    rewrite C. unfold is_ty at 1. rewrite Hl. cbn [ttype_eqb ttype_code Z.eqb Pos.eqb].
    rewrite (IH ts (S pos) f G).
    + cbn [pbind]. rewrite Cr. unfold expect, is_ty at 1. rewrite Hr. cbn [ttype_eqb ttype_code Z.eqb Pos.eqb].
      cbn [pbind app]. cbn [length] in St. rewrite app_length in St. cbn [length] in St.
      replace (S (S pos + length s)) with (pos + S (length s + 1))%nat by lia. rewrite St.
      f_equal. f_equal. cbn [length]. rewrite app_length. cbn [length]. lia.
    + rewrite Cr. unfold is_ty. rewrite Hr. reflexivity.
    + cbn [length] in HF. rewrite app_length in HF. lia.
  - apply seg_cons in G as [C G]. rewrite map_app in G. apply seg_app in G as [G Gr].
    cbn [map en_tok en] in Gr. apply seg_cons in Gr as [Cr Gr]. apply seg_cons in Gr as [Co Gr].
    rewrite map_length in Cr, Co, Gr.
    rewrite C. unfold is_ty at 1. rewrite Hl. cbn [ttype_eqb ttype_code Z.eqb Pos.eqb].
    rewrite (IHs ts (S pos) f G).
    + cbn [pbind]. rewrite Cr. unfold expect, is_ty at 1. rewrite Hr. cbn [ttype_eqb ttype_code Z.eqb Pos.eqb].
      cbn [pbind app]. rewrite Co. unfold is_ty at 1. rewrite Ho. cbn [ttype_eqb ttype_code Z.eqb Pos.eqb].
      rewrite (IHs' ts (S (S (S pos + length s))) f Gr).
      * cbn [pbind]. f_equal. f_equal.
        -- cbn [app]. rewrite <- !app_assoc. reflexivity.
        -- cbn [length]. rewrite app_length. cbn [length]. lia.
      * cbn [length] in St. rewrite app_length in St. cbn [length] in St.
        replace (S (S (S pos + length s)) + length s')%nat
          with (pos + S (length s + S (S (length s'))))%nat by lia. exact St.
      * cbn [length] in HF. rewrite app_length in HF. cbn [length] in HF. lia.
    + rewrite Cr. unfold is_ty. rewrite Hr. reflexivity.
    + cbn [length] in HF. rewrite app_length in HF. lia.
  - apply seg_cons in G as [C G]. rewrite C. destruct (un_tok_tests u Hu) as (T1 & T2 & T3).
    rewrite T1, T2, T3.
    rewrite (IH ts (S pos) f G).
    + cbn [pbind]. cbn [length] in St.
      replace (S pos + length s)%nat with (pos + S (length s))%nat by lia. rewrite St.
      reflexivity || (f_equal; f_equal; cbn [length]; lia).
    + cbn [length] in St. replace (S pos + length s)%nat with (pos + S (length s))%nat by lia. exact St.
    + cbn [length] in HF. lia.
Qed.

(* ------------------------------------------------------------------------------------------ *)
(** * From a tree and its (position-carrying) tokens to the parser's node list *)

(** a node without its token position: [flat] builds such nodes *)
Definition en_strip (n : enode) : enode :=
  {| en_kind := en_kind n; en_tok := mk_token (t_type (en_tok n)) (t_value (en_tok n)) |}.

Lemma strip_en k t ty v : tv t = (ty, v) -> en_strip (en k t) = mk_en k ty v.
Proof. unfold tv. intros E. injection E as <- <-. reflexivity. Qed.

Lemma tv_type t ty v : tv t = (ty, v) -> t_type t = ty.
Proof. unfold tv. congruence. Qed.
Lemma tv_value t ty v : tv t = (ty, v) -> t_value t = v.
Proof. unfold tv. congruence. Qed.

Lemma build_PE e : forall toks, map tv toks = toks_of e ->
  exists l, PE l /\ map en_tok l = toks /\ map en_strip l = flat e.
Proof.
  induction e as [f n|s|o a IH|o a IHa b IHb|a IH]; intros toks E; cbn [toks_of flat] in *.
  - destruct toks as [|t [|? ?]]; try discriminate E.
    cbn [map] in E. assert (Et : tv t = hd (T_EOF, []) (toks_of (Num f n))) by (cbn [toks_of hd]; congruence).
    cbn [toks_of hd] in Et. clear E. rename Et into E.
    exists [en EK_term t]. split; [apply PE_term; left; eapply tv_type; exact E|]. split; [reflexivity|].
    cbn [map]. rewrite (strip_en _ _ _ _ E). reflexivity.
  - destruct toks as [|t [|? ?]]; try discriminate E.
    cbn [map] in E. assert (Et : tv t = hd (T_EOF, []) (toks_of (Id s))) by (cbn [toks_of hd]; congruence).
    cbn [toks_of hd] in Et. clear E. rename Et into E.
    exists [en EK_term t]. split; [apply PE_term; right; eapply tv_type; exact E|]. split; [reflexivity|].
    cbn [map]. rewrite (strip_en _ _ _ _ E). reflexivity.
  - apply map_eq_cons in E as (u & toks' & -> & Eu & E').
    destruct (IH _ E') as (l & P & T & S).
    exists (en EK_un u :: l). split; [|split].
    + apply PE_un; [|exact P]. split; [eapply tv_type; exact Eu|].
      apply tv_value in Eu. rewrite Eu. destruct o; [left|right]; reflexivity.
    + cbn [map en_tok en]. rewrite T. reflexivity.
    + cbn [map]. rewrite (strip_en _ _ _ _ Eu), S. reflexivity.
  - apply map_eq_app in E as (t1 & t2' & -> & E1 & E2).
    apply map_eq_cons in E2 as (o' & t2 & -> & Eo & E2).
    destruct (IHa _ E1) as (l1 & P1 & T1 & S1). destruct (IHb _ E2) as (l2 & P2 & T2 & S2).
    exists (l1 ++ en EK_bin o' :: l2). split; [|split].
    + apply PE_app; [exact P1| |exact P2]. eapply tv_type; exact Eo.
    + rewrite map_app. cbn [map en_tok en]. rewrite T1, T2. reflexivity.
    + rewrite map_app. cbn [map]. rewrite (strip_en _ _ _ _ Eo), S1, S2. reflexivity.
  - apply map_eq_cons in E as (lp & rest & -> & El & E').
    apply map_eq_app in E' as (t1 & t2 & -> & E1 & E2).
    destruct t2 as [|rp [|? ?]]; try discriminate E2.
    cbn [map] in E2. assert (Er : tv rp = (T_RPAREN, [41])) by congruence. clear E2.
    destruct (IH _ E1) as (l & P & T & S).
    exists (en EK_par lp :: l ++ [en EK_par rp]). split; [|split].
    + apply PE_par; [eapply tv_type; exact El|eapply tv_type; exact Er|exact P].
    + cbn [map en_tok en]. rewrite map_app. cbn [map en_tok en]. rewrite T. reflexivity.
    + cbn [map]. rewrite map_app. cbn [map]. rewrite (strip_en _ _ _ _ El), (strip_en _ _ _ _ Er), S. reflexivity.
Qed.

(** C06_lex_parse *)
Theorem lex_parse e toks eof : map tv toks = toks_of e -> t_type eof = T_EOF ->
  exists r, parse_expression_ep (parse_fuel (length toks + 1)) (toks ++ [eof]) = POk r /\
            map en_tok r = toks /\            (* the nodes wrap exactly the scanned tokens, in order *)
            map en_strip r = flat e.          (* and are [flat e] once the positions are dropped *)
Proof.
  intros E Heof. destruct (build_PE e toks E) as (l & P & T & S).
  exists l. split; [|split; assumption].
  assert (Len : length l = length toks) by (rewrite <- T, map_length; reflexivity).
  unfold parse_expression_ep, pexpression.
  rewrite (pexpr_PE l P (toks ++ [eof]) 0%nat).
  - cbn [pbind fst]. destruct l as [|x l']; [inversion P|]. reflexivity.
  - rewrite T. intros j Hj. cbn [Nat.add]. unfold cur. apply app_nth1. exact Hj.
  - cbn [Nat.add]. rewrite Len. unfold cur. rewrite nth_middle. unfold is_ty. rewrite Heof. reflexivity.
  - unfold parse_fuel. lia.
Qed.

(* ------------------------------------------------------------------------------------------ *)
(** * eval_expression never looks at token positions *)

Definition rmap {A B} (f : A -> B) (r : res A) : res B :=
  match r with Ok a => Ok (f a) | Err k => Err k | OutOfFuel => OutOfFuel end.

Lemma strip_kind e : en_kind (en_strip e) = en_kind e. Proof. reflexivity. Qed.
Lemma strip_val e : en_val (en_strip e) = en_val e. Proof. reflexivity. Qed.
Lemma strip_type e : en_type (en_strip e) = en_type e. Proof. reflexivity. Qed.
Lemma strip_prec p e : stack_prec p (en_strip e) = stack_prec p e. Proof. reflexivity. Qed.

Definition map2 (so : list enode * list enode) := (map en_strip (fst so), map en_strip (snd so)).

Lemma pop_tighter_strip p c : forall st out,
  pop_tighter p c (map en_strip st) (map en_strip out) = rmap map2 (pop_tighter p c st out).
Proof.
  induction st as [|top rest IH]; intros out; cbn [pop_tighter map]; [reflexivity|].
  rewrite strip_prec, strip_val. destruct (stack_prec p top) as [tp| |]; cbn [bind rmap]; try reflexivity.
  destruct ((tp <=? c) && negb (str_eqb (en_val top) s_lparen)).
  - rewrite <- IH, map_app. reflexivity.
  - reflexivity.
Qed.

Lemma pop_to_lparen_strip : forall st out,
  pop_to_lparen (map en_strip st) (map en_strip out) = rmap map2 (pop_to_lparen st out).
Proof.
  induction st as [|top rest IH]; intros out; cbn [pop_to_lparen map]; [reflexivity|].
  rewrite strip_val. destruct (str_eqb (en_val top) s_lparen); [reflexivity|].
  rewrite <- IH, map_app. reflexivity.
Qed.

Lemma sy_loop_strip p : forall nodes st out,
  sy_loop p (map en_strip nodes) (map en_strip st) (map en_strip out)
  = rmap (map en_strip) (sy_loop p nodes st out).
Proof.
  induction nodes as [|e r IH]; intros st out; cbn [sy_loop map].
  - cbn [rmap]. rewrite map_app. reflexivity.
  - rewrite strip_kind, strip_val, strip_type. destruct (en_kind e).
    + rewrite <- IH, map_app. reflexivity.
    + destruct (prec_get p (en_val e)) as [c| |]; cbn [bind rmap]; try reflexivity.
      rewrite pop_tighter_strip. destruct (pop_tighter p c st out) as [so| |]; cbn [bind rmap]; try reflexivity.
      unfold map2. cbn [fst snd]. rewrite <- IH. reflexivity.
    + rewrite <- IH. reflexivity.
    + destruct (en_type e); try (rewrite <- IH; reflexivity).
      rewrite pop_to_lparen_strip. destruct (pop_to_lparen st out) as [so| |]; cbn [bind rmap]; try reflexivity.
      unfold map2. cbn [fst snd]. rewrite <- IH. reflexivity.
Qed.

Lemma eval_rpn_strip ev : forall rpn st, eval_rpn ev (map en_strip rpn) st = eval_rpn ev rpn st.
Proof.
  induction rpn as [|e r IH]; intros st; cbn [eval_rpn map]; [reflexivity|].
  rewrite strip_type, strip_kind, strip_val. unfold op_is, eval_binop, op_is. rewrite !strip_val.
  destruct (en_type e);
    try (destruct (eval_number (en_val e)); cbn [bind]; [apply IH|reflexivity|reflexivity]);
    try (destruct (ev (en_val e)); cbn [bind]; [apply IH|reflexivity|reflexivity]);
    (destruct (en_kind e); [apply IH| | |apply IH]);
    try (destruct st as [|v2 [|v1 st']]; try reflexivity;
         match goal with |- bind ?x _ = bind ?x _ => destruct x; cbn [bind]; [apply IH|reflexivity|reflexivity] end);
    try (destruct st as [|v1 st']; try reflexivity;
         match goal with |- bind ?x _ = bind ?x _ => destruct x; cbn [bind]; [apply IH|reflexivity|reflexivity] end).
Qed.

Lemma eval_expression_strip p ev l : eval_expression p ev (map en_strip l) = eval_expression p ev l.
Proof.
  unfold eval_expression, shunting_yard.
  change (@nil enode) with (map en_strip []) at 1 2. rewrite sy_loop_strip.
  destruct (sy_loop p l [] []) as [rpn| |]; cbn [rmap bind]; try reflexivity. apply eval_rpn_strip.
Qed.

(* ------------------------------------------------------------------------------------------ *)
(** * The value of the text *)

(** C06_lex_value *)
Theorem lex_value prec ev sp e : prec_compatible prec = true -> wf e -> lexable e ->
  eval_expression_str prec ev (text_of sp e) = eval ev e.
Proof.
  intros Hc Hwf L. unfold eval_expression_str.
  destruct (lex_tokens memory_name sp e L) as (toks & eof & lines & E & T & Eo). rewrite E.
  destruct (lex_parse e toks eof T (tv_type _ _ _ Eo)) as (r & P & _ & S).
  rewrite app_length. cbn [length]. rewrite P, <- (eval_expression_strip prec ev r), S.
  apply eval_expression_correct; assumption.
Qed.

(** Any tree shape: the text of an arbitrary (not necessarily stratified) tree [t] is read as the
    conventional reading of its token list, i.e. as any [wf] tree [e] with the same tokens
    (one exists: ExprUnique.reading_exists; all of them have the same value: unique_value). *)
Theorem lex_value_reading prec ev sp t e : prec_compatible prec = true -> lexable t ->
  wf e -> flat e = flat t ->
  eval_expression_str prec ev (text_of sp t) = eval ev e.
Proof.
  intros Hc L Hwf Fl. unfold eval_expression_str.
  destruct (lex_tokens memory_name sp t L) as (toks & eof & lines & E & T & Eo). rewrite E.
  destruct (lex_parse t toks eof T (tv_type _ _ _ Eo)) as (r & P & _ & S).
  rewrite app_length. cbn [length]. rewrite P, <- (eval_expression_strip prec ev r), S, <- Fl.
  apply eval_expression_correct; assumption.
Qed.

(** the tree with every literal rewritten in decimal: what is left when base, padding and letter
    case of the numerals are forgotten *)
Fixpoint unfmt (e : sexpr) : sexpr :=
  match e with
  | Num _ n => Num FDec n
  | Id s => Id s
  | Un o a => Un o (unfmt a)
  | Bin o a b => Bin o (unfmt a) (unfmt b)
  | Par a => Par (unfmt a)
  end.

Lemma eval_unfmt ev e : eval ev (unfmt e) = eval ev e.
Proof.
  induction e as [f n|s|o a IH|o a IHa b IHb|a IH]; cbn [unfmt eval]; try reflexivity.
  - rewrite IH. reflexivity.
  - rewrite IHa, IHb. reflexivity.
  - exact IH.
Qed.

(** spacing does not change the result *)
Corollary lex_value_spacing prec ev sp1 sp2 e : prec_compatible prec = true -> wf e -> lexable e ->
  eval_expression_str prec ev (text_of sp1 e) = eval_expression_str prec ev (text_of sp2 e).
Proof. intros. rewrite !lex_value by assumption. reflexivity. Qed.

(** nor do the base, the padding and the letter case in which the literals are written *)
Corollary lex_value_numfmt prec ev sp1 sp2 e1 e2 : prec_compatible prec = true ->
  wf e1 -> lexable e1 -> wf e2 -> lexable e2 -> unfmt e1 = unfmt e2 ->
  eval_expression_str prec ev (text_of sp1 e1) = eval_expression_str prec ev (text_of sp2 e2).
Proof.
  intros Hc W1 L1 W2 L2 U. rewrite !lex_value by assumption.
  rewrite <- (eval_unfmt ev e1), <- (eval_unfmt ev e2), U. reflexivity.
Qed.

Print Assumptions lex_parse.
Print Assumptions lex_value.
Print Assumptions lex_value_reading.
Print Assumptions lex_value_spacing.
Print Assumptions lex_value_numfmt.
