(** C06 — proofs about Model/Expr.v against Spec/ExprSem.v.

    1. numerals: [eval_number (render f n) = Ok n]            (induction on the digit list)
    2. operators: the model's [eval_binop]/[eval_not] compute [bin_sem]/[un_sem]
    3. postfix evaluation = tree semantics                      (induction on the tree)
    4. shunting-yard correctness, generic in the precedence table (port of spikes/SY_spike.v)
    5. a token list has at most one conventional reading ([flat] is injective on [wf] trees) *)
From Coq Require Import ZArith NArith List Bool Lia ZifyBool.
From A816 Require Import Spec.ExprSem Model.Expr.
Import ListNotations.
Open Scope Z_scope.
Ltac Zify.zify_post_hook ::= Z.to_euclidean_division_equations.

(* ------------------------------------------------------------------------------------------ *)
(** * 1. Numerals *)

Definition horner (base : Z) (ds : list Z) (acc : Z) : Z := fold_left (fun a d => a * base + d) ds acc.

Lemma digit_val_dchar u d : 0 <= d < 16 -> digit_val (dchar u d) = Some d.
Proof.
  intros H.
  assert (E : d = 0 \/ d = 1 \/ d = 2 \/ d = 3 \/ d = 4 \/ d = 5 \/ d = 6 \/ d = 7 \/ d = 8 \/ d = 9 \/
              d = 10 \/ d = 11 \/ d = 12 \/ d = 13 \/ d = 14 \/ d = 15) by lia.
  destruct u; repeat (destruct E as [E|E]; [subst d; reflexivity|]); subst d; reflexivity.
Qed.

Lemma digits_val_dchars base : 2 <= base <= 16 -> forall ds us acc,
  Forall (fun d => 0 <= d < base) ds ->
  digits_val base (dchars us ds) acc = Ok (horner base ds acc).
Proof.
  intros Hb. induction ds as [|d r IH]; intros us acc Hf; [reflexivity|].
  inversion Hf as [|? ? Hd Hr]; subst.
  cbn [dchars digits_val horner fold_left]. rewrite digit_val_dchar by lia.
  destruct (d <? base) eqn:E; [|lia]. apply IH. assumption.
Qed.

Lemma horner_digits_fuel base : 2 <= base -> forall f n acc,
  horner base (digits_fuel base f n acc) 0 = horner base acc n.
Proof.
  intros Hb. induction f as [|f IH]; intros n acc; cbn [digits_fuel].
  - unfold horner. cbn [fold_left]. f_equal.
  - destruct (n <? base) eqn:E.
    + unfold horner. cbn [fold_left]. f_equal.
    + rewrite IH. unfold horner. cbn [fold_left]. f_equal. lia.
Qed.

Lemma digits_fuel_valid base : 2 <= base -> forall f n acc,
  0 <= n < base * 2 ^ Z.of_nat f -> Forall (fun d => 0 <= d < base) acc ->
  Forall (fun d => 0 <= d < base) (digits_fuel base f n acc).
Proof.
  intros Hb. induction f as [|f IH]; intros n acc Hn Ha; cbn [digits_fuel].
  - constructor; [|assumption]. change (2 ^ Z.of_nat 0) with 1 in Hn. lia.
  - destruct (n <? base) eqn:E.
    + constructor; [lia|assumption].
    + apply IH.
      * rewrite Nat2Z.inj_succ, Z.pow_succ_r in Hn by lia.
        assert (0 < 2 ^ Z.of_nat f) by (apply Z.pow_pos_nonneg; lia).
        split; [apply Z.div_pos; lia|].
        apply Z.lt_le_trans with (2 * 2 ^ Z.of_nat f).
        -- apply Z.div_lt_upper_bound; [lia|]. lia.
        -- apply Z.mul_le_mono_nonneg_r; lia.
      * constructor; [|assumption]. pose proof (Z.mod_pos_bound n base). lia.
Qed.

Lemma digits_valid base n : 2 <= base -> 0 <= n -> Forall (fun d => 0 <= d < base) (digits base n).
Proof.
  intros Hb Hn. unfold digits. apply digits_fuel_valid; [assumption| |constructor].
  rewrite Z2Nat.id by apply Z.log2_nonneg.
  destruct (Z.eq_dec n 0) as [->|Hz].
  - change (Z.log2 0) with 0. change (2 ^ 0) with 1. lia.
  - pose proof (Z.log2_spec n ltac:(lia)) as [_ Hs].
    rewrite Z.pow_succ_r in Hs by apply Z.log2_nonneg.
    assert (0 < 2 ^ Z.log2 n) by (apply Z.pow_pos_nonneg; [lia|apply Z.log2_nonneg]).
    split; [lia|]. apply Z.lt_le_trans with (2 * 2 ^ Z.log2 n); [assumption|].
    apply Z.mul_le_mono_nonneg_r; lia.
Qed.

Lemma horner_digits base n : 2 <= base -> horner base (digits base n) 0 = n.
Proof. intros Hb. unfold digits. rewrite horner_digits_fuel by assumption. reflexivity. Qed.

Lemma digits_fuel_nonempty base f n acc : digits_fuel base f n acc <> [].
Proof.
  revert n acc. induction f as [|f IH]; intros n acc; cbn [digits_fuel]; [discriminate|].
  destruct (n <? base); [discriminate|apply IH].
Qed.

Lemma dchars_nonempty us ds : ds <> [] -> dchars us ds <> [].
Proof. destruct ds; [congruence|discriminate]. Qed.

Lemma digits_val_zeros base pad s : 2 <= base ->
  digits_val base (repeat_z 48 pad ++ s) 0 = digits_val base s 0.
Proof.
  intros Hb. induction pad as [|pad IH]; [reflexivity|].
  cbn [repeat_z app digits_val]. change (digit_val 48) with (Some 0). cbv beta iota.
  destruct (0 <? base) eqn:E; [|lia]. change (0 * base + 0) with 0. exact IH.
Qed.

(** A string of decimal digits is read in base ten (it cannot start with [0x] or [0b]). *)
Lemma dec_char_cases c : 48 <= c <= 57 ->
  c = 48 \/ c = 49 \/ c = 50 \/ c = 51 \/ c = 52 \/ c = 53 \/ c = 54 \/ c = 55 \/ c = 56 \/ c = 57.
Proof. lia. Qed.

Lemma eval_number_decimal s : s <> [] -> Forall (fun c => 48 <= c <= 57) s ->
  eval_number s = digits_val 10 s 0.
Proof.
  intros Hne Hf. destruct s as [|c1 r]; [congruence|].
  inversion Hf as [|? ? H1 Hr]; subst.
  destruct (dec_char_cases c1 H1) as [E|E];
    [|repeat (destruct E as [E|E]; [subst c1; reflexivity|]); subst c1; reflexivity].
  subst c1. destruct r as [|c2 r2]; [reflexivity|].
  inversion Hr as [|? ? H2 _]; subst.
  destruct (dec_char_cases c2 H2) as [E|E];
    repeat (destruct E as [E|E]; [subst c2; reflexivity|]); subst c2; reflexivity.
Qed.

Lemma dchars_decimal ds : Forall (fun d => 0 <= d < 10) ds -> Forall (fun c => 48 <= c <= 57) (dchars [] ds).
Proof.
  induction 1 as [|d r Hd _ IH]; [constructor|].
  cbn [dchars hd tl]. constructor; [|exact IH].
  unfold dchar. destruct (d <? 10) eqn:E; lia.
Qed.

Theorem eval_number_render f n : eval_number (render f n) = Ok (Z.of_N n).
Proof.
  pose proof (N2Z.is_nonneg n) as Hn. set (z := Z.of_N n) in *.
  destruct f as [|pad us|pad]; cbn [render]; fold z.
  - rewrite eval_number_decimal.
    + rewrite digits_val_dchars by (try lia; apply digits_valid; lia).
      rewrite horner_digits by lia. reflexivity.
    + apply dchars_nonempty. apply digits_fuel_nonempty.
    + apply dchars_decimal. apply digits_valid; lia.
  - cbn [eval_number].
    destruct (repeat_z 48 pad ++ dchars us (digits 16 z)) eqn:E.
    + exfalso. destruct pad; [|discriminate E]. cbn [repeat_z app] in E.
      revert E. apply dchars_nonempty. apply digits_fuel_nonempty.
    + rewrite <- E. rewrite digits_val_zeros by lia.
      rewrite digits_val_dchars by (try lia; apply digits_valid; lia).
      rewrite horner_digits by lia. reflexivity.
  - cbn [eval_number].
    destruct (repeat_z 48 pad ++ dchars [] (digits 2 z)) eqn:E.
    + exfalso. destruct pad; [|discriminate E]. cbn [repeat_z app] in E.
      revert E. apply dchars_nonempty. apply digits_fuel_nonempty.
    + rewrite <- E. rewrite digits_val_zeros by lia.
      rewrite digits_val_dchars by (try lia; apply digits_valid; lia).
      rewrite horner_digits by lia. reflexivity.
Qed.

Corollary eval_number_render_Z f z : 0 <= z -> eval_number (render f (Z.to_N z)) = Ok z.
Proof. intros H. rewrite eval_number_render, Z2N.id by assumption. reflexivity. Qed.

(* ------------------------------------------------------------------------------------------ *)
(** * 2. Operators *)

Lemma eval_not_spec v : eval_not v = un_sem ONot v.
Proof.
  unfold eval_not, un_sem, not_width.
  change (2 ^ 8) with 256. change (2 ^ 16) with 65536. change (2 ^ 32) with 4294967296.
  assert (L : Z.lnot v = - v - 1) by (unfold Z.lnot; lia).
  destruct (Z.abs v <? 256); [rewrite Z.land_ones, L by lia; reflexivity|].
  destruct (Z.abs v <? 65536); [rewrite Z.land_ones, L by lia; reflexivity|].
  destruct (Z.abs v <? 4294967296); [rewrite Z.land_ones, L by lia; reflexivity|reflexivity].
Qed.

Lemma eval_binop_spec o x y : eval_binop (n_bin o) x y = bin_sem o x y.
Proof.
  destruct o; try reflexivity.
  - (* << *) change (eval_binop (n_bin OShl) x y) with (if y <? 0 then Err EValue else Ok (Z.shiftl x y)).
    cbn [bin_sem]. destruct (y <? 0) eqn:E; [reflexivity|]. rewrite Z.shiftl_mul_pow2 by lia. reflexivity.
  - (* >> *) change (eval_binop (n_bin OShr) x y) with (if y <? 0 then Err EValue else Ok (Z.shiftr x y)).
    cbn [bin_sem]. destruct (y <? 0) eqn:E; [reflexivity|]. rewrite Z.shiftr_div_pow2 by lia. reflexivity.
Qed.

(* ------------------------------------------------------------------------------------------ *)
(** * 3. Postfix evaluation = tree semantics *)

Lemma rpn_step_num ev f n r st :
  eval_rpn ev (n_num f n :: r) st = eval_rpn ev r (Z.of_N n :: st).
Proof.
  change (eval_rpn ev (n_num f n :: r) st)
    with (do v <- eval_number (render f n); eval_rpn ev r (v :: st)).
  rewrite eval_number_render. reflexivity.
Qed.

Lemma rpn_step_id ev s r st :
  eval_rpn ev (n_id s :: r) st = do v <- ev s; eval_rpn ev r (v :: st).
Proof. reflexivity. Qed.

Lemma rpn_step_un ev o r v st :
  eval_rpn ev (n_un o :: r) (v :: st) = do x <- un_sem o v; eval_rpn ev r (x :: st).
Proof.
  destruct o.
  - reflexivity.
  - change (eval_rpn ev (n_un ONot :: r) (v :: st)) with (do x <- eval_not v; eval_rpn ev r (x :: st)).
    rewrite eval_not_spec. reflexivity.
Qed.

Lemma rpn_step_bin ev o r x y st :
  eval_rpn ev (n_bin o :: r) (y :: x :: st) = do v <- bin_sem o x y; eval_rpn ev r (v :: st).
Proof.
  rewrite <- eval_binop_spec. destruct o; reflexivity.
Qed.

Lemma rpn_expr ev e : forall rest st,
  eval_rpn ev (postfix e ++ rest) st = do v <- eval ev e; eval_rpn ev rest (v :: st).
Proof.
  induction e as [f n|s|o a IHa|o a IHa b IHb|a IHa]; intros rest st; cbn [postfix eval].
  - cbn [app]. rewrite rpn_step_num. reflexivity.
  - cbn [app]. rewrite rpn_step_id. reflexivity.
  - rewrite <- app_assoc, IHa. destruct (eval ev a) as [v|k|]; cbn [bind app]; try reflexivity.
    apply rpn_step_un.
  - rewrite <- !app_assoc, IHa. destruct (eval ev a) as [x|k|]; cbn [bind]; try reflexivity.
    rewrite IHb. destruct (eval ev b) as [y|k|]; cbn [bind app]; try reflexivity.
    apply rpn_step_bin.
  - apply IHa.
Qed.

Theorem eval_rpn_postfix ev e : eval_rpn ev (postfix e) [] = eval ev e.
Proof.
  rewrite <- (app_nil_r (postfix e)), rpn_expr.
  destruct (eval ev e); reflexivity.
Qed.

(* ------------------------------------------------------------------------------------------ *)
(** * 4. Shunting-yard *)

(** The decidable condition on the precedence table: "(" has an entry (its value is irrelevant:
    the text test stops the pop loop), every binary operator has an entry that is at least the
    stack precedence 2 of a prefix operator, and the entries order the binary operators exactly
    as the specification levels do. *)
Definition all_bops : list bop := [OMul; OAdd; OSub; OShl; OShr; OAnd; OOr].
Definition prec_of (p : prectab) (o : bop) : res Z := prec_get p (bop_text o).

Definition prec_compatible (p : prectab) : bool :=
  is_ok (prec_get p s_lparen)
  && forallb (fun o => match prec_of p o with Ok v => 2 <=? v | _ => false end) all_bops
  && forallb (fun o1 => forallb (fun o2 =>
        match prec_of p o1, prec_of p o2 with
        | Ok v1, Ok v2 => Bool.eqb (v1 <=? v2) (blevel o1 <=? blevel o2)
        | _, _ => false
        end) all_bops) all_bops.

Record compat (p : prectab) : Prop := {
  c_lp : exists v, prec_get p s_lparen = Ok v;
  c_bin : forall o, exists v, prec_of p o = Ok v /\ 2 <= v;
  c_ord : forall o1 o2 v1 v2, prec_of p o1 = Ok v1 -> prec_of p o2 = Ok v2 ->
          (v1 <= v2 <-> blevel o1 <= blevel o2)
}.

Lemma in_all_bops o : In o all_bops.
Proof. destruct o; cbn; tauto. Qed.

Lemma prec_compatible_compat p : prec_compatible p = true -> compat p.
Proof.
  unfold prec_compatible. rewrite !andb_true_iff, !forallb_forall. intros [[Hl Hb] Ho]. split.
  - destruct (prec_get p s_lparen) as [v| |]; try discriminate. eauto.
  - intros o. specialize (Hb o (in_all_bops o)). destruct (prec_of p o) as [v| |]; try discriminate.
    exists v. split; [reflexivity|lia].
  - intros o1 o2 v1 v2 H1 H2. specialize (Ho o1 (in_all_bops o1)). rewrite forallb_forall in Ho.
    specialize (Ho o2 (in_all_bops o2)). rewrite H1, H2 in Ho. apply eqb_prop in Ho. lia.
Qed.

(** Stack entries as the specification sees them. *)
Inductive sent := SBin (o : bop) | SUn (o : uop) | SLP.
Definition snode (s : sent) : enode :=
  match s with SBin o => n_bin o | SUn o => n_un o | SLP => n_lp end.
Definition slevel (s : sent) : Z := match s with SBin o => blevel o | _ => 0 end.

(** pending operators (above the context): no parenthesis, each at most as loose as [l] *)
Definition pend_ok (l : Z) (s : list sent) : Prop := Forall (fun x => x <> SLP /\ slevel x <= l) s.
(** context stack: nothing below can be popped while an expression of level [l] is read *)
Definition top_ok (l : Z) (stk : list sent) : Prop :=
  l = 0 \/ match stk with [] => True | SLP :: _ => True | x :: _ => l < slevel x end.

Lemma blevel_pos o : 1 <= blevel o. Proof. destruct o; cbn; lia. Qed.
Lemma level_nonneg e : 0 <= level e. Proof. destruct e; cbn; try lia. pose proof (blevel_pos o); lia. Qed.

Lemma not_lparen x : x <> SLP -> str_eqb (en_val (snode x)) s_lparen = false.
Proof. destruct x as [o|o|]; [destruct o; reflexivity|destruct o; reflexivity|congruence]. Qed.

Lemma pend_weaken l l' s : l <= l' -> pend_ok l s -> pend_ok l' s.
Proof. intros H. unfold pend_ok. apply Forall_impl. intros a [? ?]; split; [assumption|lia]. Qed.

Lemma pop_tighter_pend p (C : compat p) o cur : prec_of p o = Ok cur -> forall s stk out,
  pend_ok (blevel o) s -> top_ok (blevel o) stk ->
  pop_tighter p cur (map snode (s ++ stk)) out = Ok (map snode stk, out ++ map snode s).
Proof.
  intros Hcur. pose proof (blevel_pos o) as Hpos.
  destruct (c_bin p C o) as (cur' & Hc' & Hge). rewrite Hcur in Hc'. injection Hc' as <-.
  induction s as [|x s IH]; intros stk out Hp Ht.
  - cbn [app map]. rewrite app_nil_r. destruct Ht as [Ht|Ht]; [lia|].
    destruct stk as [|y stk]; [reflexivity|].
    destruct y as [o'|u|]; cbn [map snode pop_tighter].
    + cbn [slevel] in Ht. destruct (c_bin p C o') as (v' & Hv' & _).
      change (stack_prec p (n_bin o')) with (prec_of p o'). rewrite Hv'. cbn [bind].
      pose proof (c_ord p C o' o v' cur Hv' Hcur) as Ho.
      destruct (v' <=? cur) eqn:E; [lia|reflexivity].
    + cbn [slevel] in Ht. lia.
    + destruct (c_lp p C) as (v & Hv). change (stack_prec p n_lp) with (prec_get p s_lparen).
      rewrite Hv. cbn [bind]. change (str_eqb (en_val n_lp) s_lparen) with true.
      rewrite andb_false_r. reflexivity.
  - inversion Hp as [|? ? [Hx1 Hx2] Hp']; subst. cbn [app map pop_tighter].
    rewrite (not_lparen x Hx1).
    assert (Hsp : exists v, stack_prec p (snode x) = Ok v /\ v <= cur).
    { destruct x as [o'|u|]; [| |congruence].
      - cbn [slevel] in Hx2. destruct (c_bin p C o') as (v' & Hv' & _). exists v'. split; [exact Hv'|].
        apply (c_ord p C o' o v' cur Hv' Hcur). assumption.
      - exists 2. split; [reflexivity|assumption]. }
    destruct Hsp as (v & Hv & Hle). rewrite Hv. cbn [bind negb]. rewrite andb_true_r.
    destruct (v <=? cur) eqn:E; [|lia].
    rewrite IH by assumption. rewrite <- app_assoc. reflexivity.
Qed.

Lemma pop_to_lparen_pend l s stk out : pend_ok l s ->
  pop_to_lparen (map snode (s ++ SLP :: stk)) out = Ok (map snode stk, out ++ map snode s).
Proof.
  revert out. induction s as [|x s IH]; intros out Hp; cbn [app map pop_to_lparen].
  - change (str_eqb (en_val (snode SLP)) s_lparen) with true. rewrite app_nil_r. reflexivity.
  - inversion Hp as [|? ? [Hx1 Hx2] Hp']; subst. rewrite (not_lparen x Hx1).
    rewrite IH by assumption. rewrite <- app_assoc. reflexivity.
Qed.

Lemma sy_step_term p k r st out : en_kind k = EK_term -> sy_loop p (k :: r) st out = sy_loop p r st (out ++ [k]).
Proof. intros H. cbn [sy_loop]. rewrite H. reflexivity. Qed.

Lemma sy_expr p (C : compat p) e : wf e -> forall rest out stk, top_ok (level e) stk ->
  exists o' s', pend_ok (level e) s' /\ o' ++ map snode s' = postfix e /\
    sy_loop p (flat e ++ rest) (map snode stk) out = sy_loop p rest (map snode (s' ++ stk)) (out ++ o').
Proof.
  induction e as [f n|s|o a IHa|o a IHa b IHb|a IHa]; intros Hwf rest out stk Htop.
  - exists [n_num f n], []. repeat split; constructor.
  - exists [n_id s], []. repeat split; constructor.
  - destruct Hwf as [Hl Hw]. cbn [flat app].
    change (sy_loop p (n_un o :: flat a ++ rest) (map snode stk) out)
      with (sy_loop p (flat a ++ rest) (map snode (SUn o :: stk)) out).
    destruct (IHa Hw rest out (SUn o :: stk)) as (oa & sa & Hp & Hpost & Hsy); [left; assumption|].
    exists oa, (sa ++ [SUn o]). cbn [level]. repeat split.
    + apply Forall_app; split; [apply (pend_weaken (level a)); [lia|assumption]|].
      constructor; [split; [congruence|cbn; lia]|constructor].
    + rewrite map_app, app_assoc, Hpost. reflexivity.
    + rewrite Hsy, <- app_assoc. reflexivity.
  - destruct Hwf as (Hla & Hlb & Hwa & Hwb). cbn [flat level] in *.
    pose proof (blevel_pos o) as Hpos. rewrite <- app_assoc. cbn [app].
    destruct (IHa Hwa (n_bin o :: flat b ++ rest) out stk) as (oa & sa & Hpa & Hposta & Hsya).
    { destruct Htop as [?|Htop]; [lia|]. destruct (Z.eq_dec (level a) 0) as [?|?]; [left; assumption|right].
      destruct stk as [|[]]; cbn [slevel] in *; try exact I; lia. }
    rewrite Hsya. destruct (c_bin p C o) as (cur & Hcur & _).
    change (sy_loop p (n_bin o :: flat b ++ rest) (map snode (sa ++ stk)) (out ++ oa))
      with (do cur <- prec_of p o; do so <- pop_tighter p cur (map snode (sa ++ stk)) (out ++ oa);
            sy_loop p (flat b ++ rest) (n_bin o :: fst so) (snd so)).
    rewrite Hcur. cbn [bind].
    rewrite (pop_tighter_pend p C o cur Hcur sa stk);
      [| apply (pend_weaken (level a)); assumption | destruct Htop as [?|?]; [lia|right; assumption]].
    cbn [bind fst snd].
    destruct (IHb Hwb rest ((out ++ oa) ++ map snode sa) (SBin o :: stk)) as (ob & sb & Hpb & Hpostb & Hsyb).
    { right. cbn [slevel]. lia. }
    change (n_bin o :: map snode stk) with (map snode (SBin o :: stk)). rewrite Hsyb.
    exists (oa ++ map snode sa ++ ob), (sb ++ [SBin o]). repeat split.
    + apply Forall_app; split; [apply (pend_weaken (level b)); [lia|assumption]|].
      constructor; [split; [congruence|cbn; lia]|constructor].
    + cbn [postfix]. rewrite <- Hposta, <- Hpostb, map_app, <- !app_assoc. reflexivity.
    + rewrite <- !app_assoc. reflexivity.
  - cbn [flat wf level] in *. cbn [app]. rewrite <- app_assoc.
    change (sy_loop p (n_lp :: flat a ++ [n_rp] ++ rest) (map snode stk) out)
      with (sy_loop p (flat a ++ [n_rp] ++ rest) (map snode (SLP :: stk)) out).
    destruct (IHa Hwf ([n_rp] ++ rest) out (SLP :: stk)) as (oa & sa & Hpa & Hposta & Hsya); [right; exact I|].
    rewrite Hsya. cbn [app].
    change (sy_loop p (n_rp :: rest) (map snode (sa ++ SLP :: stk)) (out ++ oa))
      with (do so <- pop_to_lparen (map snode (sa ++ SLP :: stk)) (out ++ oa); sy_loop p rest (fst so) (snd so)).
    rewrite (pop_to_lparen_pend _ sa stk _ Hpa). cbn [bind fst snd].
    exists (oa ++ map snode sa), []. repeat split; try constructor.
    + cbn [map]. rewrite app_nil_r. exact Hposta.
    + rewrite app_assoc. reflexivity.
Qed.

Theorem shunting_yard_correct p e : prec_compatible p = true -> wf e ->
  shunting_yard p (flat e) = Ok (postfix e).
Proof.
  intros Hc Hwf. apply prec_compatible_compat in Hc.
  destruct (sy_expr p Hc e Hwf [] [] []) as (o & s & _ & Hpost & Hsy); [right; exact I|].
  unfold shunting_yard. rewrite app_nil_r in Hsy. change (@nil enode) with (map snode []) at 1.
  rewrite Hsy. cbn [sy_loop app]. rewrite app_nil_r, Hpost. reflexivity.
Qed.

Theorem eval_expression_correct p ev e : prec_compatible p = true -> wf e ->
  eval_expression p ev (flat e) = eval ev e.
Proof.
  intros Hc Hwf. unfold eval_expression. rewrite shunting_yard_correct by assumption.
  cbn [bind]. apply eval_rpn_postfix.
Qed.

Lemma wfb_wf e : wfb e = true <-> wf e.
Proof.
  induction e as [f n|s|o a IHa|o a IHa b IHb|a IHa]; cbn [wfb wf]; try tauto.
  - rewrite andb_true_iff, IHa, Z.eqb_eq. tauto.
  - rewrite !andb_true_iff, IHa, IHb, Z.leb_le, Z.ltb_lt. tauto.
Qed.

(** The condition is satisfiable, and by the specification levels themselves. *)
Definition reference_prec : prectab :=
  [([40], 1); ([41], 1); ([126], 2); ([42], 3); ([43], 4); ([45], 4); ([60; 60], 5); ([62; 62], 5);
   ([38], 8); ([124], 10)].
Lemma reference_prec_compatible : prec_compatible reference_prec = true.
Proof. reflexivity. Qed.
