(** C06 — a token list has at most one conventional reading.

    [skel e] is the tree [e] with every leaf replaced by its token (so two literals that are
    written with the same characters are the same leaf: [render] is not injective in the format,
    e.g. the letter case chosen for a decimal digit is invisible).  An operator-precedence parser
    [opp] over the *specification* levels (a proof device; it is not the implementation's
    algorithm, which produces postfix, and it does not consult any precedence table) rebuilds
    [skel e] from [flat e] for every [wf] tree; hence [flat] determines [skel] on [wf] trees, and
    therefore also the value. *)
From Coq Require Import ZArith NArith List Bool Lia.
From A816 Require Import Spec.ExprSem Model.Expr Proofs.ExprProofs.
Import ListNotations.
Open Scope Z_scope.

Inductive tok := KLeaf (ty : ttype) (v : str) | KBin (o : bop) | KUn (o : uop) | KLP | KRP.
Inductive texpr :=
| TLeaf (ty : ttype) (v : str) | TUn (o : uop) (a : texpr) | TBin (o : bop) (a b : texpr) | TPar (a : texpr).

Fixpoint skel (e : sexpr) : texpr :=
  match e with
  | Num f n => TLeaf T_NUMBER (render f n)
  | Id s => TLeaf T_IDENTIFIER s
  | Un o a => TUn o (skel a)
  | Bin o a b => TBin o (skel a) (skel b)
  | Par a => TPar (skel a)
  end.

Fixpoint toks (e : sexpr) : list tok :=
  match e with
  | Num f n => [KLeaf T_NUMBER (render f n)]
  | Id s => [KLeaf T_IDENTIFIER s]
  | Un o a => KUn o :: toks a
  | Bin o a b => toks a ++ KBin o :: toks b
  | Par a => KLP :: toks a ++ [KRP]
  end.

Definition tnode (k : tok) : enode :=
  match k with
  | KLeaf ty v => mk_en EK_term ty v | KBin o => n_bin o | KUn o => n_un o | KLP => n_lp | KRP => n_rp
  end.

Lemma flat_toks e : flat e = map tnode (toks e).
Proof.
  induction e as [f n|s|o a IHa|o a IHa b IHb|a IHa]; cbn [flat toks map]; try reflexivity.
  - rewrite IHa. reflexivity.
  - rewrite map_app, IHa, IHb. reflexivity.
  - rewrite map_app, IHa. reflexivity.
Qed.

Lemma tnode_inj a b : tnode a = tnode b -> a = b.
Proof.
  destruct a as [ty v|o|o| |], b as [ty' v'|o'|o'| |]; intros H; try reflexivity; try discriminate H.
  - injection H as -> ->. reflexivity.
  - destruct o, o'; try reflexivity; discriminate H.
  - destruct o, o'; try reflexivity; discriminate H.
Qed.

Lemma map_tnode_inj l1 : forall l2, map tnode l1 = map tnode l2 -> l1 = l2.
Proof.
  induction l1 as [|a l1 IH]; intros [|b l2] H; try reflexivity; try discriminate H.
  cbn [map] in H. injection H as Ha Hl. f_equal; [apply tnode_inj; assumption|apply IH; assumption].
Qed.

(** ** The parser *)
Definition reduce (s : sent) (vs : list texpr) : option (list texpr) :=
  match s, vs with
  | SBin o, b :: a :: r => Some (TBin o a b :: r)
  | SUn o, a :: r => Some (TUn o a :: r)
  | _, _ => None
  end.

Fixpoint flushv (s : list sent) (vs : list texpr) : option (list texpr) :=
  match s with
  | [] => Some vs
  | x :: r => match reduce x vs with Some vs' => flushv r vs' | None => None end
  end.

Fixpoint pop_le (l : Z) (stk : list sent) (vs : list texpr) : option (list sent * list texpr) :=
  match stk with
  | [] => Some ([], vs)
  | SLP :: _ => Some (stk, vs)
  | x :: r =>
      if slevel x <=? l
      then match reduce x vs with Some vs' => pop_le l r vs' | None => None end
      else Some (stk, vs)
  end.

Fixpoint pop_par (stk : list sent) (vs : list texpr) : option (list sent * list texpr) :=
  match stk with
  | [] => None
  | SLP :: r => match vs with a :: vr => Some (r, TPar a :: vr) | [] => None end
  | x :: r => match reduce x vs with Some vs' => pop_par r vs' | None => None end
  end.

Fixpoint opp (ts : list tok) (stk : list sent) (vs : list texpr) : option texpr :=
  match ts with
  | [] => match flushv stk vs with Some [v] => Some v | _ => None end
  | KLeaf ty v :: r => opp r stk (TLeaf ty v :: vs)
  | KUn o :: r => opp r (SUn o :: stk) vs
  | KBin o :: r =>
      match pop_le (blevel o) stk vs with
      | Some (stk', vs') => opp r (SBin o :: stk') vs'
      | None => None
      end
  | KLP :: r => opp r (SLP :: stk) vs
  | KRP :: r =>
      match pop_par stk vs with
      | Some (stk', vs') => opp r stk' vs'
      | None => None
      end
  end.

Lemma flushv_app a : forall b vs,
  flushv (a ++ b) vs = match flushv a vs with Some v => flushv b v | None => None end.
Proof.
  induction a as [|x a IH]; intros b vs; cbn [app flushv]; [reflexivity|].
  destruct (reduce x vs); [apply IH|reflexivity].
Qed.

Lemma pop_le_pend l : 1 <= l -> forall s stk vs vs', pend_ok l s -> top_ok l stk ->
  flushv s vs = Some vs' -> pop_le l (s ++ stk) vs = Some (stk, vs').
Proof.
  intros Hl. induction s as [|x s IH]; intros stk vs vs' Hp Ht Hf.
  - cbn [flushv] in Hf. injection Hf as <-. cbn [app]. destruct Ht as [Ht|Ht]; [lia|].
    destruct stk as [|y stk]; [reflexivity|]. destruct y; cbn [pop_le]; try reflexivity.
    + cbn [slevel] in *. destruct (blevel o <=? l) eqn:E; [lia|reflexivity].
    + cbn [slevel] in Ht. lia.
  - inversion Hp as [|? ? [Hx1 Hx2] Hp']; subst. cbn [flushv] in Hf. cbn [app].
    destruct x as [o|o|]; [| |congruence]; cbn [pop_le].
    + destruct (slevel (SBin o) <=? l) eqn:E; [|lia].
      destruct (reduce (SBin o) vs) as [v1|]; [|discriminate]. apply IH; assumption.
    + destruct (slevel (SUn o) <=? l) eqn:E; [|cbn [slevel] in *; lia].
      destruct (reduce (SUn o) vs) as [v1|]; [|discriminate]. apply IH; assumption.
Qed.

Lemma pop_par_pend l : forall s stk vs a vr, pend_ok l s ->
  flushv s vs = Some (a :: vr) -> pop_par (s ++ SLP :: stk) vs = Some (stk, TPar a :: vr).
Proof.
  induction s as [|x s IH]; intros stk vs a vr Hp Hf.
  - cbn [flushv] in Hf. injection Hf as ->. reflexivity.
  - inversion Hp as [|? ? [Hx1 Hx2] Hp']; subst. cbn [flushv] in Hf. cbn [app].
    destruct x as [o|o|]; [| |congruence]; cbn [pop_par].
    + destruct (reduce (SBin o) vs) as [v1|]; [|discriminate]. apply IH; assumption.
    + destruct (reduce (SUn o) vs) as [v1|]; [|discriminate]. apply IH; assumption.
Qed.

Lemma opp_expr e : wf e -> forall rest stk vs, top_ok (level e) stk ->
  exists s' vs', pend_ok (level e) s' /\ flushv s' vs' = Some (skel e :: vs) /\
    opp (toks e ++ rest) stk vs = opp rest (s' ++ stk) vs'.
Proof.
  induction e as [f n|s|o a IHa|o a IHa b IHb|a IHa]; intros Hwf rest stk vs Htop.
  - exists [], (TLeaf T_NUMBER (render f n) :: vs). repeat split; constructor.
  - exists [], (TLeaf T_IDENTIFIER s :: vs). repeat split; constructor.
  - destruct Hwf as [Hl Hw]. cbn [toks app opp].
    destruct (IHa Hw rest (SUn o :: stk) vs) as (sa & va & Hp & Hf & Ho); [left; assumption|].
    exists (sa ++ [SUn o]), va. cbn [level]. repeat split.
    + apply Forall_app; split; [apply (pend_weaken (level a)); [lia|assumption]|].
      constructor; [split; [congruence|cbn; lia]|constructor].
    + rewrite flushv_app, Hf. reflexivity.
    + rewrite Ho, <- app_assoc. reflexivity.
  - destruct Hwf as (Hla & Hlb & Hwa & Hwb). cbn [toks level skel] in *.
    pose proof (blevel_pos o) as Hpos. rewrite <- app_assoc. cbn [app].
    destruct (IHa Hwa (KBin o :: toks b ++ rest) stk vs) as (sa & va & Hpa & Hfa & Hoa).
    { destruct Htop as [?|Htop]; [lia|]. destruct (Z.eq_dec (level a) 0) as [?|?]; [left; assumption|right].
      destruct stk as [|[]]; cbn [slevel] in *; try exact I; lia. }
    rewrite Hoa. cbn [opp].
    rewrite (pop_le_pend (blevel o) Hpos sa stk va (skel a :: vs));
      [| apply (pend_weaken (level a)); assumption
       | destruct Htop as [?|?]; [lia|right; assumption] | assumption].
    destruct (IHb Hwb rest (SBin o :: stk) (skel a :: vs)) as (sb & vb & Hpb & Hfb & Hob).
    { right. cbn [slevel]. lia. }
    rewrite Hob. exists (sb ++ [SBin o]), vb. repeat split.
    + apply Forall_app; split; [apply (pend_weaken (level b)); [lia|assumption]|].
      constructor; [split; [congruence|cbn; lia]|constructor].
    + rewrite flushv_app, Hfb. reflexivity.
    + rewrite <- app_assoc. reflexivity.
  - cbn [toks wf level skel] in *. cbn [app opp]. rewrite <- app_assoc.
    destruct (IHa Hwf ([KRP] ++ rest) (SLP :: stk) vs) as (sa & va & Hpa & Hfa & Hoa); [right; exact I|].
    rewrite Hoa. cbn [app opp]. rewrite (pop_par_pend _ sa stk va _ _ Hpa Hfa).
    exists [], (TPar (skel a) :: vs). repeat split; constructor.
Qed.

Theorem opp_flat e : wf e -> opp (toks e) [] [] = Some (skel e).
Proof.
  intros Hwf. destruct (opp_expr e Hwf [] [] []) as (s & v & _ & Hf & Ho); [right; exact I|].
  rewrite app_nil_r in Ho. rewrite Ho. cbn [opp]. rewrite app_nil_r, Hf. reflexivity.
Qed.

Theorem flat_inj e1 e2 : wf e1 -> wf e2 -> flat e1 = flat e2 -> skel e1 = skel e2.
Proof.
  intros H1 H2 H. rewrite !flat_toks in H. apply map_tnode_inj in H.
  pose proof (opp_flat e1 H1) as P1. rewrite H, (opp_flat e2 H2) in P1. congruence.
Qed.

(** The value of a token list under its conventional reading does not depend on the reading
    chosen (there is only one, up to how equal literal texts are described).  Note that this one
    needs no parser: it already follows from the correctness of the evaluator. *)
Theorem unique_value ev e1 e2 : wf e1 -> wf e2 -> flat e1 = flat e2 -> eval ev e1 = eval ev e2.
Proof.
  intros H1 H2 H.
  rewrite <- (eval_expression_correct reference_prec ev e1 reference_prec_compatible H1), H.
  apply (eval_expression_correct reference_prec ev e2 reference_prec_compatible H2).
Qed.

(** Trees with the same skeleton have the same token list. *)
Lemma skel_flat e1 : forall e2, skel e1 = skel e2 -> flat e1 = flat e2.
Proof.
  induction e1 as [f n|s|o a IHa|o a IHa b IHb|a IHa]; intros e2 H; destruct e2; cbn [skel] in H;
    try discriminate H; cbn [flat]; unfold n_num, n_id; injection H; intros;
    try (match goal with Ha : skel a = skel _ |- _ => apply IHa in Ha end);
    try (match goal with Hb : skel b = skel _ |- _ => apply IHb in Hb end); congruence.
Qed.

(* ------------------------------------------------------------------------------------------ *)
(** * Existence: every infix token list has a conventional reading.

    The token lists the parser can produce are those of the ambiguous grammar
    [E ::= atom | u E | E o E | ( E )], i.e. [flat t] for an ARBITRARY tree [t] (the recursive
    descent of [_parse_expression] builds the right-nested one).  [norm t] re-associates [t] into
    the conventional reading without touching the token list. *)

(** append "o r" to a conventionally-read tree *)
Fixpoint snoc (e : sexpr) (o : bop) (r : sexpr) : sexpr :=
  match e with
  | Bin o' l r' => if blevel o' <=? blevel o then Bin o e r else Bin o' l (snoc r' o r)
  | _ => Bin o e r
  end.

(** a prefix operator applies to the first operand only *)
Fixpoint attach_un (u : uop) (e : sexpr) : sexpr :=
  match e with
  | Bin o l r => Bin o (attach_un u l) r
  | _ => Un u e
  end.

Fixpoint join (o : bop) (e1 e2 : sexpr) : sexpr :=
  match e2 with
  | Bin o2 l2 r2 => snoc (join o e1 l2) o2 r2
  | _ => snoc e1 o e2
  end.

Fixpoint norm (t : sexpr) : sexpr :=
  match t with
  | Num _ _ | Id _ => t
  | Un u a => attach_un u (norm a)
  | Bin o a b => join o (norm a) (norm b)
  | Par a => Par (norm a)
  end.

Lemma snoc_flat e o r : flat (snoc e o r) = flat e ++ n_bin o :: flat r.
Proof.
  induction e as [f n|s|u a IHa|o' l IHl r' IHr|a IHa]; cbn [snoc flat]; try reflexivity.
  destruct (blevel o' <=? blevel o); cbn [flat]; [reflexivity|].
  rewrite IHr, <- app_assoc. reflexivity.
Qed.

Lemma snoc_level e o r :
  level (snoc e o r) = if level e <=? blevel o then blevel o else level e.
Proof.
  pose proof (blevel_pos o) as Hpos.
  destruct e as [f n|s|u a|o' l r'|a]; cbn [snoc level];
    try (destruct (0 <=? blevel o) eqn:E; [reflexivity|lia]).
  destruct (blevel o' <=? blevel o); reflexivity.
Qed.

Lemma wf_bin o a b : level a <= blevel o -> level b < blevel o -> wf a -> wf b -> wf (Bin o a b).
Proof. cbn [wf]. auto. Qed.

Lemma snoc_wf e o r : wf e -> wf r -> level r < blevel o -> wf (snoc e o r).
Proof.
  pose proof (blevel_pos o) as Hpos. intros He Hr Hl.
  induction e as [f n|s|u a IHa|o' l IHl r' IHr|a IHa]; cbn [snoc];
    try (apply wf_bin; [cbn [level]; lia|assumption|assumption|assumption]).
  destruct (blevel o' <=? blevel o) eqn:E.
  - apply wf_bin; [cbn [level]; lia|assumption|assumption|assumption].
  - cbn [wf] in He. destruct He as (H1 & H2 & H3 & H4). apply wf_bin; [assumption| |assumption|apply IHr; assumption].
    rewrite snoc_level. destruct (level r' <=? blevel o); lia.
Qed.

Lemma attach_un_flat u e : flat (attach_un u e) = n_un u :: flat e.
Proof.
  induction e as [f n|s|u' a IHa|o l IHl r IHr|a IHa]; cbn [attach_un flat]; try reflexivity.
  rewrite IHl. reflexivity.
Qed.

Lemma attach_un_level u e : level (attach_un u e) = level e.
Proof. destruct e; reflexivity. Qed.

Lemma attach_un_wf u e : wf e -> wf (attach_un u e).
Proof.
  induction e as [f n|s|u' a IHa|o l IHl r IHr|a IHa]; intros H; cbn [attach_un];
    try (cbn [wf level]; split; [reflexivity|exact H]).
  cbn [wf] in *. destruct H as (H1 & H2 & H3 & H4). rewrite attach_un_level. repeat split; auto.
Qed.

Lemma join_flat o e1 e2 : flat (join o e1 e2) = flat e1 ++ n_bin o :: flat e2.
Proof.
  induction e2 as [f n|s|u a IHa|o2 l2 IHl r2 IHr|a IHa]; cbn [join]; try apply snoc_flat.
  rewrite snoc_flat, IHl. cbn [flat]. rewrite <- app_assoc. reflexivity.
Qed.

Lemma join_wf o e1 e2 : wf e1 -> wf e2 -> wf (join o e1 e2).
Proof.
  pose proof (blevel_pos o) as Hpos. intros H1.
  induction e2 as [f n|s|u a IHa|o2 l2 IHl r2 IHr|a IHa]; intros H2; cbn [join];
    try (apply snoc_wf; [assumption|assumption|cbn [level]; lia]).
  cbn [wf] in H2. destruct H2 as (Ha & Hb & Hc & Hd). apply snoc_wf; [apply IHl; assumption|assumption|assumption].
Qed.

Lemma norm_flat t : flat (norm t) = flat t.
Proof.
  induction t as [f n|s|u a IHa|o a IHa b IHb|a IHa]; cbn [norm flat]; try reflexivity.
  - rewrite attach_un_flat, IHa. reflexivity.
  - rewrite join_flat, IHa, IHb. reflexivity.
  - rewrite IHa. reflexivity.
Qed.

Lemma norm_wf t : wf (norm t).
Proof.
  induction t as [f n|s|u a IHa|o a IHa b IHb|a IHa]; cbn [norm]; try exact I.
  - apply attach_un_wf. assumption.
  - apply join_wf; assumption.
  - exact IHa.
Qed.

Theorem reading_exists t : exists e, wf e /\ flat e = flat t.
Proof. exists (norm t). split; [apply norm_wf|apply norm_flat]. Qed.

(** On a tree that already is the conventional reading, [norm] changes nothing visible. *)
Corollary norm_wf_id e : wf e -> skel (norm e) = skel e.
Proof. intros H. apply flat_inj; [apply norm_wf|assumption|apply norm_flat]. Qed.
