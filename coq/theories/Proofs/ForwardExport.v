(** C02 / C08 — per-scope statements about what the label pass and the symbol pass leave in the
    scopes' dictionaries.

    (F2) [label_final_value_scoped]: the value listed for a label in the scope where it is defined
    is the run address at its LabelNode provided no OTHER LabelNode of that name is passed while
    the same scope (same index) is current; the name may be reused freely in other scopes, before
    or after.

    (F1) [label_exported_after_label_pass] / [label_exported_at_emission]: a label [x] of a named
    scope [s] is available in the enclosing scope as [s.x], with the label's address, from the
    moment the label pass has passed the scope's PopScopeNode — hence during the whole symbol pass
    and the whole emission, before and after the scope alike.  The passes that export are the label
    pass and the symbol pass ([pc_after] of a PopScopeNode calls [restore_scope] with exports on);
    emission never changes a symbol ([emit_keeps_symbols]). *)
From Coq Require Import ZArith List Lia Bool Arith.
From A816 Require Import Model.Program Spec.EnvSem Proofs.BusProofs Proofs.ResolverProofs Proofs.ProgramProofs
     Proofs.ReplayProofs Proofs.LabelProofs Proofs.NonInterference.
From A816 Require Proofs.DeferredArgs.
From A816 Require Import Model.Codegen.
Open Scope Z_scope.

(** ** The shape of the scope tree is fixed during the passes *)
Definition shape (s : scope) : option nat * skind := (s_parent s, s_kind s).
Definition shapes (sc : list scope) : list (option nat * skind) := map shape sc.

Lemma shapes_update sc k f : (forall s, shape (f s) = shape s) -> shapes (list_update sc k f) = shapes sc.
Proof. intros H. unfold shapes. rewrite (map_list_update shape f (fun x => x)) by exact H. apply list_update_id. Qed.

Lemma replay_shape sc sc' : shapes sc = shapes sc' -> forall ns c l, replay sc ns c l = replay sc' ns c l.
Proof.
  intros H. assert (L : length sc = length sc') by (rewrite <- (map_length shape sc), <- (map_length shape sc'); unfold shapes in H; congruence).
  assert (P : forall i, option_map s_parent (nth_error sc i) = option_map s_parent (nth_error sc' i)).
  { intros i. pose proof (f_equal (fun l => nth_error l i) H) as E. cbn beta in E. unfold shapes in E. rewrite !nth_error_map in E.
    destruct (nth_error sc i), (nth_error sc' i); cbn [option_map] in *; try discriminate; [inversion E; reflexivity|reflexivity]. }
  induction ns as [|n ns IH]; intros c l; [reflexivity|].
  destruct n; cbn [replay]; try apply IH.
  - rewrite L. destruct (Nat.ltb _ _); [apply IH|reflexivity].
  - specialize (P c). destruct (nth_error sc c) as [s|], (nth_error sc' c) as [s'|]; cbn [option_map] in P; try discriminate; [|reflexivity].
    inversion P as [E]. rewrite E. destruct (s_parent s'); [apply IH|reflexivity].
Qed.

Lemma export_into_shape name child parent : shape (export_into name child parent) = shape parent.
Proof. unfold shape. destruct (export_into_fields name child parent) as (A & B & _). rewrite A, B. reflexivity. Qed.

Lemma pc_after_shape w r n a r' a' : pc_after w r n a = Ok (r', a') -> shapes (r_scopes r') = shapes (r_scopes r).
Proof.
  destruct n; cbn [pc_after];
    repeat match goal with |- context [bind ?X _] => destruct X eqn:?; cbn [bind]; try discriminate end;
    intros H; inversion H; subst; clear H; try reflexivity;
    try (unfold add_label, add_symbol, upd_scope; cbn [set_scopes r_scopes]; rewrite ?shapes_update; reflexivity || (intros; reflexivity)).
  - unfold use_next_scope in *. destruct (nth_error _ _); [|discriminate].
    match goal with E : Ok _ = Ok _ |- _ => inversion E; reflexivity end.
  - unfold restore_scope in *. destruct (nth_error _ _) as [s|]; [|discriminate]. destruct (s_parent s); [|discriminate].
    match goal with E : Ok _ = Ok _ |- _ => inversion E; subst; clear E end.
    cbn [set_cur r_scopes]. destruct (s_kind s); try reflexivity.
    unfold upd_scope. cbn [set_scopes r_scopes]. apply shapes_update. intros s0. apply export_into_shape.
Qed.

Lemma replay_one sc n ns c l :
  replay sc (n :: ns) c l = match replay sc [n] c l with Some (c', l') => replay sc ns c' l' | None => None end.
Proof. apply (replay_app sc [n] ns c l). Qed.

(** where a pass is after a node, in terms of [replay] on the scopes it started with *)
Lemma pc_after_replay w r n a r' a' sc : shapes sc = shapes (r_scopes r) -> pc_after w r n a = Ok (r', a') ->
  replay sc [n] (r_cur r) (r_last r) = Some (r_cur r', r_last r') /\ shapes sc = shapes (r_scopes r').
Proof.
  intros Hs H. destruct (pass_scope_moves _ _ _ _ _ _ H) as [A _].
  rewrite (replay_shape _ _ Hs). split; [exact A|]. rewrite (pc_after_shape _ _ _ _ _ _ H). exact Hs.
Qed.

(** ** What a node does to one entry of one scope *)
Definition lab_at (r : rstate) (i : nat) (x : str) : option (option Z) :=
  option_map (fun s => dict_get (s_labels s) x) (nth_error (r_scopes r) i).
Definition sym_at (r : rstate) (i : nat) (q : str) : option (option Z) :=
  option_map (fun s => dict_get (s_symbols s) q) (nth_error (r_scopes r) i).

Lemma at_upd_other {X} (g : scope -> X) r k f i : k <> i ->
  option_map g (nth_error (r_scopes (upd_scope r k f)) i) = option_map g (nth_error (r_scopes r) i).
Proof. intros N. unfold upd_scope. cbn [set_scopes r_scopes]. rewrite nth_list_update_other by exact N. reflexivity. Qed.
Lemma at_upd_same {X} (g : scope -> X) r k f i : (forall s, g (f s) = g s) ->
  option_map g (nth_error (r_scopes (upd_scope r k f)) i) = option_map g (nth_error (r_scopes r) i).
Proof.
  intros H. unfold upd_scope. cbn [set_scopes r_scopes]. rewrite nth_list_update.
  destruct (Nat.eqb k i); [|reflexivity]. destruct (nth_error (r_scopes r) i); cbn [option_map]; [rewrite H|]; reflexivity.
Qed.

Lemma neq_eqb q name : q <> name -> str_eqb q name = false.
Proof. intros N. destruct (str_eqb q name) eqn:E; [|reflexivity]. apply str_eqb_eq in E. contradiction. Qed.

Lemma node_label_dec n x : node_label n = Some x \/ node_label n <> Some x.
Proof.
  destruct (node_label n) as [y|]; [|right; discriminate].
  destruct (str_eqb y x) eqn:E; [left; apply str_eqb_eq in E; congruence|right].
  intros H. inversion H; subst. rewrite str_eqb_refl in E. discriminate.
Qed.

(** labels: only a LabelNode / [.incbin] of that name, in the current scope *)
Lemma pc_after_lab_at w r n a r' a' i x :
  pc_after w r n a = Ok (r', a') -> (node_label n = Some x -> r_cur r <> i) -> lab_at r' i x = lab_at r i x.
Proof.
  intros H Hq. destruct (node_label_dec n x) as [E|N].
  - specialize (Hq E). unfold lab_at.
    destruct n; cbn [node_label] in E; try discriminate; cbn [pc_after] in H.
    + inversion H; subst. apply at_upd_other. exact Hq.
    + destruct (addr_plus _ _); cbn [bind] in H; try discriminate. inversion H; subst.
      unfold add_symbol, add_label. rewrite (at_upd_other _ _ _ _ _ Hq). apply at_upd_other. exact Hq.
  - unfold lab_at.
    destruct (nth_error (r_scopes r) i) as [s|] eqn:Hn.
    + destruct (pc_after_labels_keep x w r n a r' a' N H i s Hn) as (s' & A & B). rewrite A. cbn [option_map]. rewrite B. reflexivity.
    + pose proof (pc_after_shape _ _ _ _ _ _ H) as Hs. apply (f_equal (fun l => nth_error l i)) in Hs. unfold shapes in Hs.
      rewrite !nth_error_map, Hn in Hs. destruct (nth_error (r_scopes r') i); [discriminate|reflexivity].
Qed.

(** ** The label pass, positionally *)
Lemma symbol_node_replay sc n c l : is_symbol_node n = true -> replay sc [n] c l = Some (c, l).
Proof. destruct n; try discriminate; reflexivity. Qed.
Lemma label_node_replay sc n c l : is_label_or_binary n = true -> replay sc [n] c l = Some (c, l).
Proof. destruct n; try discriminate; reflexivity. Qed.

Lemma label_run_pos w sc ns : forall r a r' a' l, shapes sc = shapes (r_scopes r) ->
  label_run w r ns a = Ok (r', a', l) ->
  shapes sc = shapes (r_scopes r') /\ replay sc ns (r_cur r) (r_last r) = Some (r_cur r', r_last r').
Proof.
  induction ns as [|n ns IH]; intros r a r' a' l Hs; cbn [label_run].
  - intros H; inversion H; subst. auto.
  - rewrite replay_one. destruct (is_symbol_node n) eqn:Sy.
    + cbn [bind fst snd]. destruct (label_run w r ns a) as [[[r2 a2] l2]| |] eqn:E; cbn [bind fst snd]; try discriminate.
      intros H; inversion H; subst. rewrite (symbol_node_replay sc n _ _ Sy). eapply IH; eauto.
    + destruct (pc_after w r n a) as [[r1 a1]| |] eqn:P; cbn [bind fst snd]; try discriminate.
      destruct (label_run w r1 ns a1) as [[[r2 a2] l2]| |] eqn:E; cbn [bind fst snd]; try discriminate.
      intros H; inversion H; subst. destruct (pc_after_replay _ _ _ _ _ _ sc Hs P) as [A B]. rewrite A. eapply IH; eauto.
Qed.

(** no LabelNode / [.incbin] named [x] is passed while scope [i] is current *)
Fixpoint qlab (sc : list scope) (x : str) (i : nat) (ns : list node) (cur last : nat) : Prop :=
  match ns with
  | [] => True
  | n :: rest =>
      (node_label n = Some x -> cur <> i) /\
      match replay sc [n] cur last with Some (c', l') => qlab sc x i rest c' l' | None => True end
  end.

Lemma label_run_lab w x i sc ns : forall r a r' a' l, shapes sc = shapes (r_scopes r) ->
  qlab sc x i ns (r_cur r) (r_last r) -> label_run w r ns a = Ok (r', a', l) -> lab_at r' i x = lab_at r i x.
Proof.
  induction ns as [|n ns IH]; intros r a r' a' l Hs Hq; cbn [label_run].
  - intros H; inversion H; subst. reflexivity.
  - cbn [qlab] in Hq. destruct Hq as [Hn Hq]. destruct (is_symbol_node n) eqn:Sy.
    + cbn [bind fst snd]. destruct (label_run w r ns a) as [[[r2 a2] l2]| |] eqn:E; cbn [bind fst snd]; try discriminate.
      intros H; inversion H; subst. rewrite (symbol_node_replay sc n _ _ Sy) in Hq. eapply IH; eauto.
    + destruct (pc_after w r n a) as [[r1 a1]| |] eqn:P; cbn [bind fst snd]; try discriminate.
      destruct (label_run w r1 ns a1) as [[[r2 a2] l2]| |] eqn:E; cbn [bind fst snd]; try discriminate.
      intros H; inversion H; subst. destruct (pc_after_replay _ _ _ _ _ _ sc Hs P) as [A B]. rewrite A in Hq.
      rewrite (IH _ _ _ _ _ B Hq E). eapply pc_after_lab_at; eauto.
Qed.

(** labels are not touched by the symbol pass nor by emission *)
Lemma keep_lab_at x r r' i : labels_keep x r r' -> shapes (r_scopes r') = shapes (r_scopes r) -> lab_at r' i x = lab_at r i x.
Proof.
  intros K Hs. unfold lab_at. destruct (nth_error (r_scopes r) i) as [s|] eqn:Hn.
  - destruct (K i s Hn) as (s' & A & B). rewrite A. cbn [option_map]. rewrite B. reflexivity.
  - apply (f_equal (fun l => nth_error l i)) in Hs. unfold shapes in Hs. rewrite !nth_error_map, Hn in Hs.
    destruct (nth_error (r_scopes r') i); [discriminate|reflexivity].
Qed.
Lemma keep_lab_some x r r' i v : labels_keep x r r' -> lab_at r i x = Some v -> lab_at r' i x = Some v.
Proof.
  intros K. unfold lab_at. destruct (nth_error (r_scopes r) i) as [s|] eqn:Hn; cbn [option_map]; [|discriminate].
  destruct (K i s Hn) as (s' & A & B). rewrite A. cbn [option_map]. rewrite B. auto.
Qed.

(** (F2) C02, per scope: the label table of the scope current at the LabelNode ends up holding
    the address the label pass had there, provided no other LabelNode / [.incbin] of that name is
    passed later WHILE THAT SAME SCOPE IS CURRENT.  Earlier definitions in that scope, and any
    definition of the name in any other scope, are irrelevant. *)
Theorem label_final_value_scoped w r pre name post out c l :
  replay (r_scopes r) pre (r_cur r) 0 = Some (c, l) ->
  qlab (r_scopes r) name c post c l ->
  assemble_nodes w r (pre ++ NLabel name :: post) = Ok out ->
  exists r1 a1 l1,
    label_run w (set_cur_last r (r_cur r) 0) pre (r_reloc r) = Ok (r1, a1, l1) /\ r_cur r1 = c /\
    forall s1, nth_error (r_scopes r1) c = Some s1 ->
      exists s, nth_error (r_scopes (o_final out)) c = Some s /\ dict_get (s_labels s) name = Some (a_val a1).
Proof.
  intros Hrep Hq H. unfold assemble_nodes, resolve_labels in H. rewrite label_pass_run in H.
  cbn [r_reloc set_cur_last] in H.
  destruct (label_run w (set_cur_last r (r_cur r) 0) (pre ++ NLabel name :: post) (r_reloc r)) as [[[rA aA] lA]| |] eqn:LR;
    cbn [bind fst snd] in H; try discriminate.
  destruct (label_run_app _ _ _ _ _ _ _ _ LR) as (r1 & a1 & l1 & l2 & A & B & C).
  cbn [label_run is_symbol_node pc_after bind fst snd] in B.
  destruct (label_run w (add_label r1 name (a_val a1)) post a1) as [[[r3 a3] l3]| |] eqn:LP; cbn [bind fst snd] in B; try discriminate.
  inversion B; subst rA aA l2; clear B.
  destruct (symbol_pass w (resolver_reset r3) _ _) as [[r4 a4]| |] eqn:SP; cbn [bind fst snd] in H; try discriminate.
  unfold Program.emit in H.
  destruct (emit_loop w _ _ _) as [stF| |] eqn:EL; cbn [bind] in H; try discriminate.
  inversion H; subst out; clear H. cbn [o_final fst].
  destruct (label_run_pos w (r_scopes r) pre (set_cur_last r (r_cur r) 0) _ _ _ _ eq_refl A) as [Hs1 Hp1].
  cbn [set_cur_last r_cur r_last] in Hp1. rewrite Hrep in Hp1. assert (Hc : r_cur r1 = c) by congruence. assert (Hl : r_last r1 = l) by congruence.
  exists r1, a1, l1. split; [exact A|]. split; [exact Hc|]. intros s1 N.
  assert (L0 : lab_at (add_label r1 name (a_val a1)) c name = Some (Some (a_val a1))).
  { unfold lab_at, add_label, upd_scope. cbn [set_scopes r_scopes]. rewrite Hc, (nth_list_update_same _ _ _ _ N).
    cbn [option_map scope_add_label s_labels]. rewrite dict_get_set_same. reflexivity. }
  assert (L1 : lab_at r3 c name = Some (Some (a_val a1))).
  { rewrite <- L0. apply (label_run_lab w name c (r_scopes r) post (add_label r1 name (a_val a1)) a1 r3 a3 l3); [| |exact LP].
    - unfold add_label, upd_scope. cbn [set_scopes r_scopes]. rewrite shapes_update by reflexivity. exact Hs1.
    - cbn [add_label upd_scope set_scopes r_cur r_last]. rewrite Hc, Hl. exact Hq. }
  assert (K : labels_keep name r3 (e_r stF)).
  { eapply labels_keep_trans; [apply labels_keep_reset|].
    eapply labels_keep_trans; [eapply symbol_pass_labels_keep; eauto|].
    eapply labels_keep_trans; [apply labels_keep_reset|].
    apply (emit_loop_labels_keep name w _ _ _ _ EL). }
  pose proof (keep_lab_some _ _ _ _ _ K L1) as LF. unfold lab_at in LF.
  destruct (nth_error (r_scopes (e_r stF)) c) as [sF|]; cbn [option_map] in LF; [|discriminate].
  exists sF. split; [reflexivity|]. inversion LF. reflexivity.
Qed.

(** ** Symbols: what can change entry [q] of scope [i] *)
Definition node_syms (n : node) : list str :=
  match n with
  | NLabel name | NSymbol name _ _ | NSymConst name _ => [name]
  | NBinary path _ => [symbol_base path; symbol_base path ++ size_suffix]
  | _ => []
  end.
(** a definition of [q] while [i] is current, or a PopScopeNode leaving a named child of [i] whose
    exported names include [q] *)
Definition touches (sh : list (option nat * skind)) (n : node) (cur i : nat) (q : str) : Prop :=
  (cur = i /\ In q (node_syms n)) \/
  (n = NPop /\ exists nm k, nth_error sh cur = Some (Some i, SNamed nm) /\ q = nm ++ dot ++ k).

Lemma sym_at_upd r k f i q :
  (k = i -> forall s, dict_get (s_symbols (f s)) q = dict_get (s_symbols s) q) ->
  sym_at (upd_scope r k f) i q = sym_at r i q.
Proof.
  intros H. unfold sym_at. destruct (Nat.eq_dec k i) as [E|N].
  - apply (at_upd_same (fun s => dict_get (s_symbols s) q)). auto.
  - apply at_upd_other. exact N.
Qed.

Lemma pc_after_sym_at w r n a r' a' i q :
  pc_after w r n a = Ok (r', a') -> ~ touches (shapes (r_scopes r)) n (r_cur r) i q -> sym_at r' i q = sym_at r i q.
Proof.
  intros H Ht.
  assert (Hdef : forall name, In name (node_syms n) -> r_cur r = i -> str_eqb q name = false).
  { intros name Hin Hc. apply neq_eqb. intros ->. apply Ht. left. auto. }
  destruct n; cbn [pc_after node_syms] in *;
    repeat match type of H with context [bind ?X _] => destruct X eqn:?; cbn [bind] in H; try discriminate end;
    inversion H; subst; clear H; try reflexivity.
  - unfold add_label. apply sym_at_upd. intros E s. cbn [scope_add_label s_symbols]. apply dict_get_set_other. apply Hdef; cbn; auto.
  - unfold add_symbol. apply sym_at_upd. intros E s. cbn [scope_add_symbol s_symbols]. apply dict_get_set_other. apply Hdef; cbn; auto.
  - unfold add_symbol. apply sym_at_upd. intros E s. cbn [scope_add_symbol s_symbols]. apply dict_get_set_other. apply Hdef; cbn; auto.
  - unfold add_symbol, add_label. rewrite sym_at_upd.
    + apply sym_at_upd. intros E s. cbn [scope_add_label s_symbols]. apply dict_get_set_other. apply Hdef; cbn; auto.
    + intros E s. cbn [scope_add_symbol s_symbols]. apply dict_get_set_other. apply Hdef; cbn; auto.
  - unfold use_next_scope in *. destruct (nth_error _ _); [|discriminate].
    match goal with E : Ok _ = Ok _ |- _ => inversion E; reflexivity end.
  - unfold restore_scope in *. destruct (nth_error (r_scopes r) (r_cur r)) as [s|] eqn:Hn; [|discriminate].
    destruct (s_parent s) as [p|] eqn:Hp; [|discriminate].
    match goal with E : Ok _ = Ok _ |- _ => inversion E; subst; clear E end.
    change (sym_at (set_cur ?x p) i q) with (sym_at x i q).
    destruct (s_kind s) as [|nm|] eqn:Hk; try reflexivity.
    apply sym_at_upd. intros E s0. subst p. apply export_into_symbols_other.
    intros k v _ Eq. apply Ht. right. split; [reflexivity|]. exists nm, k. split; [|symmetry; exact Eq].
    unfold shapes. rewrite nth_error_map, Hn. cbn [option_map]. unfold shape. rewrite Hp, Hk. reflexivity.
Qed.

(** which nodes a pass runs *)
Definition run_label (n : node) : bool := negb (is_symbol_node n).
Definition run_symbol (n : node) : bool := negb (is_label_or_binary n).

Fixpoint qsym (run : node -> bool) (sc : list scope) (q : str) (i : nat) (ns : list node) (cur last : nat) : Prop :=
  match ns with
  | [] => True
  | n :: rest =>
      (run n = true -> ~ touches (shapes sc) n cur i q) /\
      match replay sc [n] cur last with Some (c', l') => qsym run sc q i rest c' l' | None => True end
  end.

Lemma qsym_app run sc q i ns1 : forall ns2 cur last c' l',
  replay sc ns1 cur last = Some (c', l') ->
  qsym run sc q i (ns1 ++ ns2) cur last <-> qsym run sc q i ns1 cur last /\ qsym run sc q i ns2 c' l'.
Proof.
  induction ns1 as [|n ns1 IH]; intros ns2 cur last c' l' Hr.
  - cbn in Hr. inversion Hr; subst. cbn [app qsym]. tauto.
  - rewrite replay_one in Hr. cbn [app qsym].
    destruct (replay sc [n] cur last) as [[c1 l1]|]; [|discriminate].
    rewrite (IH ns2 c1 l1 c' l' Hr). tauto.
Qed.

Lemma label_run_sym w q i sc ns : forall r a r' a' l, shapes sc = shapes (r_scopes r) ->
  qsym run_label sc q i ns (r_cur r) (r_last r) -> label_run w r ns a = Ok (r', a', l) -> sym_at r' i q = sym_at r i q.
Proof.
  induction ns as [|n ns IH]; intros r a r' a' l Hs Hq; cbn [label_run].
  - intros H; inversion H; subst. reflexivity.
  - cbn [qsym] in Hq. destruct Hq as [Hn Hq]. unfold run_label in Hn. destruct (is_symbol_node n) eqn:Sy.
    + cbn [bind fst snd]. destruct (label_run w r ns a) as [[[r2 a2] l2]| |] eqn:E; cbn [bind fst snd]; try discriminate.
      intros H; inversion H; subst. rewrite (symbol_node_replay sc n _ _ Sy) in Hq. eapply IH; eauto.
    + destruct (pc_after w r n a) as [[r1 a1]| |] eqn:P; cbn [bind fst snd]; try discriminate.
      destruct (label_run w r1 ns a1) as [[[r2 a2] l2]| |] eqn:E; cbn [bind fst snd]; try discriminate.
      intros H; inversion H; subst. destruct (pc_after_replay _ _ _ _ _ _ sc Hs P) as [A B]. rewrite A in Hq.
      rewrite (IH _ _ _ _ _ B Hq E). eapply pc_after_sym_at; eauto. rewrite <- Hs. apply Hn. reflexivity.
Qed.

Lemma symbol_pass_pos w sc ns : forall r a r' a', shapes sc = shapes (r_scopes r) ->
  symbol_pass w r ns a = Ok (r', a') ->
  shapes sc = shapes (r_scopes r') /\ replay sc ns (r_cur r) (r_last r) = Some (r_cur r', r_last r').
Proof.
  induction ns as [|n ns IH]; intros r a r' a' Hs; cbn [symbol_pass].
  - intros H; inversion H; subst. auto.
  - rewrite replay_one. destruct (is_label_or_binary n) eqn:L.
    + rewrite (label_node_replay sc n _ _ L). apply IH; auto.
    + destruct (pc_after w r n a) as [[r1 a1]| |] eqn:P; cbn [bind fst snd]; try discriminate.
      intros H. destruct (pc_after_replay _ _ _ _ _ _ sc Hs P) as [A B]. rewrite A. eapply IH; eauto.
Qed.
Lemma symbol_pass_sym w q i sc ns : forall r a r' a', shapes sc = shapes (r_scopes r) ->
  qsym run_symbol sc q i ns (r_cur r) (r_last r) -> symbol_pass w r ns a = Ok (r', a') -> sym_at r' i q = sym_at r i q.
Proof.
  induction ns as [|n ns IH]; intros r a r' a' Hs Hq; cbn [symbol_pass].
  - intros H; inversion H; subst. reflexivity.
  - cbn [qsym] in Hq. destruct Hq as [Hn Hq]. unfold run_symbol in Hn. destruct (is_label_or_binary n) eqn:L.
    + rewrite (label_node_replay sc n _ _ L) in Hq. apply IH; auto.
    + destruct (pc_after w r n a) as [[r1 a1]| |] eqn:P; cbn [bind fst snd]; try discriminate.
      intros H. destruct (pc_after_replay _ _ _ _ _ _ sc Hs P) as [A B]. rewrite A in Hq.
      rewrite (IH _ _ _ _ B Hq H). eapply pc_after_sym_at; eauto. rewrite <- Hs. apply Hn. reflexivity.
Qed.

(** ** Symbol dictionaries stay well formed *)
Definition syms_wf (r : rstate) : Prop := Forall (fun s => dict_wf (s_symbols s)) (r_scopes r).

Lemma syms_wf_upd r k f : (forall s, dict_wf (s_symbols s) -> dict_wf (s_symbols (f s))) -> syms_wf r -> syms_wf (upd_scope r k f).
Proof. intros Hf H. unfold syms_wf, upd_scope in *. cbn [set_scopes r_scopes]. apply Forall_list_update; auto. Qed.
Lemma export_into_wf name child : forall parent, dict_wf (s_symbols parent) -> dict_wf (s_symbols (export_into name child parent)).
Proof.
  unfold export_into. induction child as [|[k v] child IH]; intros parent H; [exact H|].
  cbn [fold_left fst snd]. apply IH. cbn [scope_add_symbol s_symbols]. apply dict_set_wf. exact H.
Qed.
Lemma pc_after_wf w r n a r' a' : pc_after w r n a = Ok (r', a') -> syms_wf r -> syms_wf r'.
Proof.
  intros H Hw. destruct n; cbn [pc_after] in *;
    repeat match type of H with context [bind ?X _] => destruct X eqn:?; cbn [bind] in H; try discriminate end;
    inversion H; subst; clear H; auto;
    try (unfold add_label, add_symbol; repeat apply syms_wf_upd; auto; intros s Hs; apply dict_set_wf; exact Hs).
  - unfold use_next_scope in *. destruct (nth_error _ _); [|discriminate].
    match goal with E : Ok _ = Ok _ |- _ => inversion E; subst; exact Hw end.
  - unfold restore_scope in *. destruct (nth_error (r_scopes r) (r_cur r)) as [s|]; [|discriminate].
    destruct (s_parent s) as [p|]; [|discriminate].
    match goal with E : Ok _ = Ok _ |- _ => inversion E; subst; clear E end.
    change (syms_wf (set_cur ?x p)) with (syms_wf x). destruct (s_kind s); auto.
    apply syms_wf_upd; auto. intros s0. apply export_into_wf.
Qed.
Lemma label_run_wf w ns : forall r a r' a' l, label_run w r ns a = Ok (r', a', l) -> syms_wf r -> syms_wf r'.
Proof.
  induction ns as [|n ns IH]; intros r a r' a' l; cbn [label_run].
  - intros H; inversion H; subst; auto.
  - destruct (is_symbol_node n).
    + cbn [bind fst snd]. destruct (label_run w r ns a) as [[[r2 a2] l2]| |] eqn:E; cbn [bind fst snd]; try discriminate.
      intros H; inversion H; subst. eapply IH; eauto.
    + destruct (pc_after w r n a) as [[r1 a1]| |] eqn:P; cbn [bind fst snd]; try discriminate.
      destruct (label_run w r1 ns a1) as [[[r2 a2] l2]| |] eqn:E; cbn [bind fst snd]; try discriminate.
      intros H Hw; inversion H; subst. eapply IH; eauto. eapply pc_after_wf; eauto.
Qed.
Lemma symbol_pass_wf w ns : forall r a r' a', symbol_pass w r ns a = Ok (r', a') -> syms_wf r -> syms_wf r'.
Proof.
  induction ns as [|n ns IH]; intros r a r' a'; cbn [symbol_pass].
  - intros H; inversion H; subst; auto.
  - destruct (is_label_or_binary n); [apply IH|].
    destruct (pc_after w r n a) as [[r1 a1]| |] eqn:P; cbn [bind fst snd]; try discriminate.
    intros H Hw. eapply IH; eauto. eapply pc_after_wf; eauto.
Qed.

(** ** The export step *)
Lemma pop_exports w r a r' a' c scp p s x v :
  r_cur r = c -> nth_error (r_scopes r) c = Some scp -> s_parent scp = Some p -> s_kind scp = SNamed s ->
  (p < c)%nat -> syms_wf r -> sym_at r c x = Some (Some v) ->
  pc_after w r NPop a = Ok (r', a') ->
  r_cur r' = p /\ sym_at r' p (s ++ dot ++ x) = Some (Some v).
Proof.
  intros Hc Hn Hp Hk Hlt Hw Hx. cbn [pc_after].
  destruct (restore_scope r true) as [r1| |] eqn:E; cbn [bind]; try discriminate. intros H; inversion H; subst r1 a'; clear H.
  unfold sym_at in Hx. rewrite Hn in Hx. cbn [option_map] in Hx.
  assert (Hg : dict_get (s_symbols scp) x = Some v) by congruence. clear Hx.
  apply dict_get_in in Hg as (k' & Ek & Hin). apply str_eqb_eq in Ek. subst k'.
  assert (Hwf : dict_wf (s_symbols scp)).
  { unfold syms_wf in Hw. rewrite Forall_forall in Hw. apply Hw. eapply nth_error_In; eauto. }
  subst c. destruct (restore_scope_exports r r' scp p s x v Hn Hp Hk Hlt Hwf Hin E) as (A & ps & B & D).
  split; [exact A|]. unfold sym_at. rewrite B. cbn [option_map]. rewrite D. reflexivity.
Qed.

Lemma shape_nth sc sc' i a : shapes sc = shapes sc' -> nth_error sc i = Some a ->
  exists b, nth_error sc' i = Some b /\ s_parent b = s_parent a /\ s_kind b = s_kind a.
Proof.
  intros H Hn. apply (f_equal (fun l => nth_error l i)) in H. unfold shapes in H. rewrite !nth_error_map, Hn in H.
  destruct (nth_error sc' i) as [b|]; cbn [option_map] in H; [|discriminate]. inversion H. eauto.
Qed.

(** ** (F1) the label of a named scope, seen from the enclosing scope *)
Section Export.
  Variable w : world.
  Variable r : rstate.
  Variables (pre b1 b2 post : list node) (x s : str) (c p l l1 l2 : nat) (scp : scope).
  Let sc := r_scopes r.
  Let r0 := set_cur_last r (r_cur r) 0.
  Let q := s ++ dot ++ x.

  (** the shape code generation produces: [pre] ends in scope [p]; the ScopeNode enters the named
      scope [c] (child of [p], named [s]); the label is at the scope's own level; the scope is current
      again at its PopScopeNode *)
  Hypothesis Hwf : syms_wf r.
  Hypothesis Hpre : replay sc pre (r_cur r) 0 = Some (p, l).
  Hypothesis Hc : c = S l.
  Hypothesis Hscp : nth_error sc c = Some scp.
  Hypothesis Hpar : s_parent scp = Some p.
  Hypothesis Hkind : s_kind scp = SNamed s.
  Hypothesis Hlt : (p < c)%nat.
  Hypothesis Hb1 : replay sc b1 c c = Some (c, l1).
  Hypothesis Hb2 : replay sc b2 c l1 = Some (c, l2).
  (** the label pass: [x] is not redefined in the scope before its end *)
  Hypothesis Q1 : qsym run_label sc x c b2 c l1.

  Lemma replay_enter : replay sc (pre ++ NScope :: b1) (r_cur r) 0 = Some (c, l1).
  Proof.
    rewrite replay_app, Hpre. cbn [replay].
    assert (L : (S l < length sc)%nat) by (rewrite <- Hc; apply nth_error_Some; congruence).
    apply Nat.ltb_lt in L. rewrite L, <- Hc. exact Hb1.
  Qed.

  (** the label pass up to the PopScopeNode *)
  Lemma label_pass_to_pop rest r1 a1 la :
    label_run w r0 (pre ++ NScope :: b1 ++ NLabel x :: b2 ++ rest) (r_reloc r) = Ok (r1, a1, la) ->
    exists rB aB lB rC aC lC,
      label_run w r0 (pre ++ NScope :: b1) (r_reloc r) = Ok (rB, aB, lB) /\
      label_run w rC rest aC = Ok (r1, a1, lC) /\
      r_cur rC = c /\ r_last rC = l2 /\ shapes sc = shapes (r_scopes rC) /\ syms_wf rC /\
      sym_at rC c x = Some (Some (a_val aB)).
  Proof.
    intros LR.
    replace (pre ++ NScope :: b1 ++ NLabel x :: b2 ++ rest) with ((pre ++ NScope :: b1) ++ NLabel x :: b2 ++ rest) in LR
      by (rewrite <- app_assoc; reflexivity).
    destruct (label_run_app _ _ _ _ _ _ _ _ LR) as (rB & aB & lB & lR & A & B & _).
    cbn [label_run is_symbol_node pc_after bind fst snd] in B.
    destruct (label_run w (add_label rB x (a_val aB)) (b2 ++ rest) aB) as [[[rE aE] lE]| |] eqn:E; cbn [bind fst snd] in B; try discriminate.
    inversion B; subst rE aE; clear B.
    destruct (label_run_app _ _ _ _ _ _ _ _ E) as (rC & aC & lC' & lC & C1 & C2 & _).
    destruct (label_run_pos w sc (pre ++ NScope :: b1) r0 (r_reloc r) rB aB lB eq_refl A) as [SB PB].
    cbn [r0 set_cur_last r_cur r_last] in PB. rewrite replay_enter in PB.
    assert (HcB : r_cur rB = c) by congruence. assert (HlB : r_last rB = l1) by congruence.
    assert (SB' : shapes sc = shapes (r_scopes (add_label rB x (a_val aB)))).
    { unfold add_label, upd_scope. cbn [set_scopes r_scopes]. rewrite shapes_update by reflexivity. exact SB. }
    destruct (label_run_pos w sc _ _ _ _ _ _ SB' C1) as [SC PC].
    cbn [add_label upd_scope set_scopes r_cur r_last] in PC. rewrite HcB, HlB, Hb2 in PC.
    exists rB, aB, lB, rC, aC, lC. split; [exact A|]. split; [exact C2|].
    split; [congruence|]. split; [congruence|]. split; [exact SC|]. split.
    - eapply label_run_wf; [exact C1|]. unfold add_label. apply syms_wf_upd; [intros s0 Hs; apply dict_set_wf; exact Hs|].
      eapply label_run_wf; [exact A|]. exact Hwf.
    - rewrite (label_run_sym w x c sc b2 (add_label rB x (a_val aB)) aB rC aC lC' SB'); [| |exact C1].
      + destruct (shape_nth _ _ _ _ SB Hscp) as (sB & NB & _).
        unfold sym_at, add_label, upd_scope. cbn [set_scopes r_scopes]. rewrite HcB, (nth_list_update_same _ _ _ _ NB).
        cbn [option_map scope_add_label s_symbols]. rewrite dict_get_set_same. reflexivity.
      + cbn [add_label upd_scope set_scopes r_cur r_last]. rewrite HcB, HlB. exact Q1.
  Qed.

  (** [s.x] is not touched in the enclosing scope during the rest of the label pass *)
  Hypothesis Q2 : qsym run_label sc q p post p l2.

  (** after the label pass — hence during the whole symbol pass — the enclosing scope has
      [s.x] = the label's address *)
  Theorem label_exported_after_label_pass r1 a1 la :
    label_run w r0 (pre ++ NScope :: b1 ++ NLabel x :: b2 ++ NPop :: post) (r_reloc r) = Ok (r1, a1, la) ->
    exists rB aB lB, label_run w r0 (pre ++ NScope :: b1) (r_reloc r) = Ok (rB, aB, lB) /\
                     sym_at r1 p q = Some (Some (a_val aB)).
  Proof.
    intros LR. destruct (label_pass_to_pop _ _ _ _ LR) as (rB & aB & lB & rC & aC & lC & A & B & HcC & HlC & SC & WC & VC).
    exists rB, aB, lB. split; [exact A|].
    cbn [label_run is_symbol_node] in B.
    destruct (pc_after w rC NPop aC) as [[rD aD]| |] eqn:P; cbn [bind fst snd] in B; try discriminate.
    destruct (label_run w rD post aD) as [[[rE aE] lE]| |] eqn:E; cbn [bind fst snd] in B; try discriminate.
    inversion B; subst rE aE; clear B.
    destruct (shape_nth _ _ _ _ SC Hscp) as (sC & NC & PC & KC).
    destruct (pop_exports w rC aC rD aD c sC p s x _ HcC NC (eq_trans PC Hpar) (eq_trans KC Hkind) Hlt WC VC P) as [HcD VD].
    destruct (pc_after_replay _ _ _ _ _ _ sc SC P) as [RD SD].
    rewrite (label_run_sym w q p sc post rD aD r1 a1 lE SD); [exact VD| |exact E].
    rewrite HcC, HlC in RD. cbn [replay] in RD. rewrite Hscp, Hpar in RD. inversion RD as [[E1 E2]]. rewrite <- E1, <- E2. exact Q2.
  Qed.

  (** ** ... and at emission *)
  Hypothesis Hroot : r_cur r = 0%nat.      (* both passes and emission start in scope 0 *)
  (** the rest of the label pass and the symbol pass up to the scope's end leave [x] alone in the
      scope; the rest of the symbol pass leaves [s.x] alone in the enclosing scope *)
  Hypothesis Q3 : qsym run_label sc x c post p l2.
  Hypothesis Q4 : qsym run_symbol sc x c (pre ++ NScope :: b1 ++ NLabel x :: b2) 0 0.
  Hypothesis Q5 : qsym run_symbol sc q p post p l2.

  Lemma replay_prefix : replay sc (pre ++ NScope :: b1 ++ NLabel x :: b2) 0 0 = Some (c, l2).
  Proof.
    replace (pre ++ NScope :: b1 ++ NLabel x :: b2) with ((pre ++ NScope :: b1) ++ NLabel x :: b2)
      by (rewrite <- app_assoc; reflexivity).
    rewrite replay_app. rewrite <- Hroot at 1. rewrite replay_enter. cbn [replay]. exact Hb2.
  Qed.

  Theorem label_exported_resolved r' addrs :
    resolve_labels w r (pre ++ NScope :: b1 ++ NLabel x :: b2 ++ NPop :: post) = Ok (r', addrs) ->
    exists rB aB lB, label_run w r0 (pre ++ NScope :: b1) (r_reloc r) = Ok (rB, aB, lB) /\
                     sym_at r' p q = Some (Some (a_val aB)).
  Proof.
    unfold resolve_labels. rewrite label_pass_run. fold r0. cbn [r_reloc set_cur_last].
    change (r_reloc r0) with (r_reloc r).
    destruct (label_run w r0 _ (r_reloc r)) as [[[r1 a1] la]| |] eqn:LR; cbn [bind fst snd]; try discriminate.
    destruct (symbol_pass w (resolver_reset r1) _ _) as [[r2 a2]| |] eqn:SP; cbn [bind fst snd]; try discriminate.
    intros H; inversion H; subst r' addrs; clear H.
    destruct (label_pass_to_pop _ _ _ _ LR) as (rB & aB & lB & rC & aC & lC & A & B & HcC & HlC & SC & WC & VC).
    exists rB, aB, lB. split; [exact A|].
    (* the rest of the label pass keeps x in scope c *)
    cbn [label_run is_symbol_node] in B.
    destruct (pc_after w rC NPop aC) as [[rD aD]| |] eqn:P; cbn [bind fst snd] in B; try discriminate.
    destruct (label_run w rD post aD) as [[[rE aE] lE]| |] eqn:E; cbn [bind fst snd] in B; try discriminate.
    inversion B; subst rE aE; clear B.
    destruct (shape_nth _ _ _ _ SC Hscp) as (sC & NC & PC & KC).
    destruct (pc_after_replay _ _ _ _ _ _ sc SC P) as [RD SD].
    rewrite HcC, HlC in RD. cbn [replay] in RD. rewrite Hscp, Hpar in RD. inversion RD as [[E1 E2]].
    assert (VD : sym_at rD c x = Some (Some (a_val aB))).
    { rewrite <- VC. eapply pc_after_sym_at; [exact P|]. intros [[_ []]|[_ (nm & k & Hn & _)]].
      rewrite <- SC, HcC in Hn. unfold shapes in Hn. rewrite nth_error_map, Hscp in Hn. cbn [option_map] in Hn. unfold shape in Hn.
      rewrite Hpar in Hn. inversion Hn. lia. }
    assert (V1 : sym_at r1 c x = Some (Some (a_val aB))).
    { rewrite <- VD. apply (label_run_sym w x c sc post rD aD r1 a1 lE SD); [|exact E]. rewrite <- E1, <- E2. exact Q3. }
    assert (W1 : syms_wf r1) by (eapply label_run_wf; [exact E|]; eapply pc_after_wf; eauto).
    destruct (label_run_pos w sc _ _ _ _ _ _ SD E) as [S1 _].
    (* the symbol pass *)
    replace (pre ++ NScope :: b1 ++ NLabel x :: b2 ++ NPop :: post)
      with ((pre ++ NScope :: b1 ++ NLabel x :: b2) ++ NPop :: post) in SP by (rewrite <- !app_assoc; cbn [app]; rewrite <- !app_assoc; reflexivity).
    rewrite DeferredArgs.symbol_pass_app in SP.
    destruct (symbol_pass w (resolver_reset r1) (pre ++ NScope :: b1 ++ NLabel x :: b2) _) as [[rF aF]| |] eqn:F; cbn [bind fst snd] in SP; try discriminate.
    assert (S1' : shapes sc = shapes (r_scopes (resolver_reset r1))) by exact S1.
    destruct (symbol_pass_pos w sc _ _ _ _ _ S1' F) as [SF PF].
    cbn [resolver_reset set_pc set_cur_last r_cur r_last] in PF. rewrite replay_prefix in PF.
    assert (HcF : r_cur rF = c) by congruence. assert (HlF : r_last rF = l2) by congruence.
    assert (VF : sym_at rF c x = Some (Some (a_val aB))).
    { rewrite <- V1. change (sym_at r1 c x) with (sym_at (resolver_reset r1) c x).
      eapply (symbol_pass_sym w x c sc); [exact S1'| |exact F]. exact Q4. }
    assert (WF : syms_wf rF) by (eapply symbol_pass_wf; [exact F|exact W1]).
    cbn [symbol_pass is_label_or_binary] in SP.
    destruct (pc_after w rF NPop aF) as [[rG aG]| |] eqn:PG; cbn [bind fst snd] in SP; try discriminate.
    destruct (shape_nth _ _ _ _ SF Hscp) as (sF & NF & PF' & KF).
    destruct (pop_exports w rF aF rG aG c sF p s x _ HcF NF (eq_trans PF' Hpar) (eq_trans KF Hkind) Hlt WF VF PG) as [HcG VG].
    destruct (pc_after_replay _ _ _ _ _ _ sc SF PG) as [RG SG].
    rewrite HcF, HlF in RG. cbn [replay] in RG. rewrite Hscp, Hpar in RG. inversion RG as [[G1 G2]].
    assert (V2 : sym_at r2 p q = Some (Some (a_val aB))).
    { rewrite (symbol_pass_sym w q p sc post rG aG r2 a2 SG); [exact VG| |exact SP].
      rewrite <- G1, <- G2. exact Q5. }
    rewrite <- ?E1. exact V2.
  Qed.
End Export.

(** emission never changes a symbol *)
Lemma node_emit_syms w r n r' bs : node_emit w r n = Ok (r', bs) -> forall i q, sym_at r' i q = sym_at r i q.
Proof.
  intros H i q. destruct n; cbn [node_emit] in H;
    repeat match type of H with context [bind ?X _] => destruct X eqn:?; cbn [bind] in H; try discriminate end;
    inversion H; subst; clear H; try reflexivity.
  - unfold set_position in *. destruct (get_bus w r); cbn [bind] in *; try discriminate.
    destruct (mk_addr _ _); cbn [bind] in *; try discriminate.
    destruct (addr_phys _) as [[o|]| |]; cbn [bind] in *; try discriminate;
      match goal with E : Ok _ = Ok _ |- _ => inversion E; reflexivity end.
  - unfold set_position in *. destruct (get_bus w r); cbn [bind] in *; try discriminate.
    destruct (mk_addr _ _); cbn [bind] in *; try discriminate.
    destruct (addr_phys _) as [[o|]| |]; cbn [bind] in *; try discriminate;
      match goal with E : Ok _ = Ok _ |- _ => inversion E; reflexivity end.
  - unfold use_next_scope in *. destruct (nth_error _ _); [|discriminate].
    match goal with E : Ok _ = Ok _ |- _ => inversion E; reflexivity end.
  - unfold restore_scope in *. destruct (nth_error _ _) as [s|]; [|discriminate]. destruct (s_parent s); [|discriminate].
    match goal with E : Ok _ = Ok _ |- _ => inversion E; subst; clear E end. destruct (s_kind s); reflexivity.
Qed.
Lemma emit_step_syms w st n e st' : emit_step w st n e = Ok st' -> forall i q, sym_at (e_r st') i q = sym_at (e_r st) i q.
Proof.
  unfold emit_step. destruct (negb _); [discriminate|].
  destruct (node_emit w (e_r st) n) as [[r1 bs]| |] eqn:NE; cbn [bind]; try discriminate.
  intros H i q. rewrite <- (node_emit_syms _ _ _ _ _ NE i q).
  destruct bs as [|b0 bs0]; cbn [bind] in H.
  - assert (E1 : e_r st' = r1) by (destruct n; destruct (is_codepos _); inversion H; reflexivity). rewrite E1. reflexivity.
  - destruct (addr_plus _ _) as [a'| |]; cbn [bind] in H; try discriminate.
    assert (E1 : r_scopes (e_r st') = r_scopes r1) by (destruct n; destruct (is_codepos _); inversion H; reflexivity).
    unfold sym_at. rewrite E1. reflexivity.
Qed.
Lemma emit_prefix_syms w ns : forall st addrs st', emit_prefix w st ns addrs = Ok st' ->
  forall i q, sym_at (e_r st') i q = sym_at (e_r st) i q.
Proof.
  induction ns as [|n ns IH]; intros st addrs st'; cbn [emit_prefix].
  - intros H; inversion H; subst. reflexivity.
  - destruct addrs as [|e addrs]; [discriminate|].
    destruct (emit_step w st n e) as [st1| |] eqn:ES; cbn [bind]; try discriminate.
    intros H i q. rewrite (IH _ _ _ H i q). eapply emit_step_syms; eauto.
Qed.
Theorem emit_keeps_symbols w ns : forall st addrs st', emit_loop w st ns addrs = Ok st' ->
  forall i q, sym_at (e_r st') i q = sym_at (e_r st) i q.
Proof.
  induction ns as [|n ns IH]; intros st addrs st'; cbn [emit_loop].
  - destruct addrs as [|e [|? ?]]; try discriminate. destruct (negb _); [discriminate|]. intros H; inversion H; subst. reflexivity.
  - destruct addrs as [|e addrs]; [discriminate|].
    destruct (emit_step w st n e) as [st1| |] eqn:ES; cbn [bind]; try discriminate.
    intros H i q. rewrite (IH _ _ _ H i q). eapply emit_step_syms; eauto.
Qed.

(** the whole assembly: at the start of emission, during it (emit_keeps_symbols) and in the final
    state, the enclosing scope has [s.x] = the address the label pass held at the LabelNode — the
    address at which the label is emitted (C02) — whatever the position of a reference *)
Theorem label_exported_at_emission w r pre b1 b2 post x s c p l l1 l2 scp out :
  let sc := r_scopes r in
  let ns := pre ++ NScope :: b1 ++ NLabel x :: b2 ++ NPop :: post in
  let q := s ++ dot ++ x in
  syms_wf r -> r_cur r = 0%nat ->
  replay sc pre (r_cur r) 0 = Some (p, l) -> c = S l ->
  nth_error sc c = Some scp -> s_parent scp = Some p -> s_kind scp = SNamed s -> (p < c)%nat ->
  replay sc b1 c c = Some (c, l1) -> replay sc b2 c l1 = Some (c, l2) ->
  qsym run_label sc x c b2 c l1 -> qsym run_label sc x c post p l2 ->
  qsym run_symbol sc x c (pre ++ NScope :: b1 ++ NLabel x :: b2) 0 0 ->
  qsym run_symbol sc q p post p l2 ->
  assemble_nodes w r ns = Ok out ->
  exists rB aB lB r' addrs,
    label_run w (set_cur_last r (r_cur r) 0) (pre ++ NScope :: b1) (r_reloc r) = Ok (rB, aB, lB) /\
    resolve_labels w r ns = Ok (r', addrs) /\
    sym_at r' p q = Some (Some (a_val aB)) /\ sym_at (o_final out) p q = Some (Some (a_val aB)).
Proof.
  intros sc ns q Hwf Hroot Hpre Hc Hscp Hpar Hkind Hlt Hb1 Hb2 Q1 Q3 Q4 Q5 H.
  unfold assemble_nodes in H.
  destruct (resolve_labels w r ns) as [[r' addrs]| |] eqn:RL; cbn [bind fst snd] in H; try discriminate.
  destruct (label_exported_resolved w r pre b1 b2 post x s c p l l1 l2 scp Hwf Hpre Hc Hscp Hpar Hkind Hlt Hb1 Hb2 Q1
              Hroot Q3 Q4 Q5 r' addrs RL) as (rB & aB & lB & A & V).
  unfold Program.emit in H. destruct (emit_loop w _ ns addrs) as [stF| |] eqn:EL; cbn [bind] in H; try discriminate.
  inversion H; subst out; clear H. cbn [o_final fst].
  exists rB, aB, lB, r', addrs. split; [exact A|]. split; [reflexivity|]. split; [exact V|].
  rewrite (emit_keeps_symbols w ns _ _ _ EL p q). exact V.
Qed.

(** what a reference evaluates to *)
Definition ident_expr (q : str) : expr := [{| en_kind := EK_term; en_tok := mk_token T_IDENTIFIER q |}].

Lemma eval_ident w r q v : env_of r q = Ok v -> eval_raw w r (ident_expr q) = Ok v.
Proof. intros H. unfold eval_raw, eval_expression, shunting_yard, ident_expr. cbn. unfold en_val. cbn. rewrite H. reflexivity. Qed.

Lemma sym_value r i q v sp : nth_error (r_scopes r) i = Some sp -> dict_get (s_code sp) q = None ->
  sym_at r i q = Some (Some v) -> env_of (set_cur r i) q = Ok v.
Proof.
  intros Hn Hc Hs. unfold sym_at in Hs. rewrite Hn in Hs. cbn [option_map] in Hs. inversion Hs as [Hg].
  unfold env_of, value_for. cbn [set_cur r_scopes r_cur value_for_fuel]. rewrite Hn.
  unfold scope_getitem, dict_mem. rewrite Hc, Hg. destruct (s_parent sp); reflexivity.
Qed.

(** a [.db s.x] / operand [s.x] evaluated in the enclosing scope with these symbols gives the address *)
Corollary reference_value w r i q v sp : nth_error (r_scopes r) i = Some sp -> dict_get (s_code sp) q = None ->
  sym_at r i q = Some (Some v) -> get_value w (set_cur r i) (ident_expr q) = Ok v.
Proof. intros Hn Hc Hs. unfold get_value. rewrite (eval_ident w _ q v (sym_value r i q v sp Hn Hc Hs)). reflexivity. Qed.

(** ** Examples (world of [NIExamples]): the exact extent of "before" *)
Module ForwardExamples.
  Import NonInterference.NIExamples.
  Notation x_ := [120]. Notation y_ := [121]. Notation e_ := [101]. Notation s_ := [115].
  Notation s_x := [115; 46; 120]. Notation s_e := [115; 46; 101].
  Definition num (c : Z) : expr := [{| en_kind := EK_term; en_tok := mk_token T_NUMBER [c] |}].
  Definition ex_r0 : rstate :=
    {| r_scopes := [new_scope None SPlain]; r_cur := 0; r_last := 0; r_pc := 0;
       r_reloc := {| a_bus := lorom; a_val := 0 |}; r_bus := empty_bus; r_rom := LowRom |}.

  (** .scope s { x:  .db 1  e = 5 } *)
  Definition scope_s : ast := AScope s_ [ALabel x_ fi; AData D_db [num 49] fi; ASymbol e_ (num 53) fi] fi fi.

  (** [.dw s.x] before and after the scope: both are the label's address 0x8002 *)
  Definition p1 := [AStarEq num8000 fi; AData D_dw [ident s_x] fi; scope_s; AData D_dw [ident s_x] fi].
  Example data_before_and_after : view (assemble_ast ex_world ex_r0 p1) = Ok ([([2; 128; 1; 2; 128], 0)], [(x_, 32770)]).
  Proof. vm_compute. reflexivity. Qed.

  (** [y = s.x] BEFORE the scope, x a label: evaluated in the symbol pass, after the label pass has
      exported the label — works *)
  Definition p2 := [AStarEq num8000 fi; ASymbol y_ (ident s_x) fi; scope_s; AData D_dw [ident y_] fi].
  Example symbol_of_label_before : view (assemble_ast ex_world ex_r0 p2) = Ok ([([1; 0; 128], 0)], [(x_, 32768)]).
  Proof. vm_compute. reflexivity. Qed.

  (** [y = s.e] BEFORE the scope, e an [=] symbol of the scope: the symbol pass has not reached the
      scope yet — SymbolNotDefined; [.db s.e] before the scope (emission) works; [y = s.e] AFTER works *)
  Definition p3 := [AStarEq num8000 fi; ASymbol y_ (ident s_e) fi; scope_s; AData D_dw [ident y_] fi].
  Example symbol_of_symbol_before_fails : view (assemble_ast ex_world ex_r0 p3) = Err ESymbol.
  Proof. vm_compute. reflexivity. Qed.
  Definition p3b := [AStarEq num8000 fi; AData D_db [ident s_e] fi; scope_s].
  Example data_of_symbol_before : view (assemble_ast ex_world ex_r0 p3b) = Ok ([([5; 1], 0)], [(x_, 32769)]).
  Proof. vm_compute. reflexivity. Qed.
  Definition p5 := [AStarEq num8000 fi; scope_s; ASymbol y_ (ident s_e) fi; AData D_db [ident y_] fi].
  Example symbol_of_symbol_after : view (assemble_ast ex_world ex_r0 p5) = Ok ([([1; 5], 0)], [(x_, 32768)]).
  Proof. vm_compute. reflexivity. Qed.

  (** [y := s.x] before the scope: evaluated at code generation — SymbolNotDefined *)
  Definition p4 := [AStarEq num8000 fi; AAssign y_ (ident s_x) fi; scope_s].
  Example assign_before_fails : view (assemble_ast ex_world ex_r0 p4) = Err ESymbol.
  Proof. vm_compute. reflexivity. Qed.

  (** the theorem instantiated on what code generation produces for [p1] *)
  Definition r_gen : rstate :=
    {| r_scopes := [new_scope None SPlain; new_scope (Some 0%nat) (SNamed s_)]; r_cur := 0; r_last := 1; r_pc := 0;
       r_reloc := {| a_bus := lorom; a_val := 0 |}; r_bus := empty_bus; r_rom := LowRom |}.
  Definition pre_ := [NCodePos num8000 fi; NData D_dw (ident s_x) fi].
  Definition b2_ := [NData D_db (num 49) fi; NSymbol e_ (num 53) false].
  Definition post_ := [NData D_dw (ident s_x) fi].
  Example gen_p1 :
    code_gen_fuel ex_world cg_depth {| cg_r := ex_r0; cg_macros := [] |} p1
    = Ok ({| cg_r := r_gen; cg_macros := [] |}, pre_ ++ NScope :: [] ++ NLabel x_ :: b2_ ++ NPop :: post_).
  Proof. vm_compute. reflexivity. Qed.

  Ltac no_touch :=
    repeat match goal with
           | |- _ /\ _ => split
           | |- True => exact I
           | |- _ -> ~ touches _ _ _ _ _ =>
               let H := fresh in let Hrun := fresh in
               intros Hrun H;
               first [ discriminate Hrun
                     | destruct H as [[? H]|[H ?]];
                       [cbn in H; repeat (destruct H as [H|H]; [try discriminate H|]); try contradiction; try lia
                       |try discriminate H] ]
           end.

  Example applies out :
    assemble_nodes ex_world r_gen (pre_ ++ NScope :: [] ++ NLabel x_ :: b2_ ++ NPop :: post_) = Ok out ->
    sym_at (o_final out) 0 s_x = Some (Some 32770).
  Proof.
    intros H.
    destruct (label_exported_at_emission ex_world r_gen pre_ [] b2_ post_ x_ s_ 1 0 0 1 1
                (new_scope (Some 0%nat) (SNamed s_)) out) as (rB & aB & lB & r' & addrs & A & _ & _ & V);
      try reflexivity; try exact H.
    - repeat constructor.
    - lia.
    - cbn -[touches]. no_touch.
    - cbn -[touches]. no_touch.
    - cbn -[touches]. no_touch.
    - cbn -[touches]. no_touch.
    - vm_compute in A. inversion A; subst. exact V.
  Qed.
End ForwardExamples.

Print Assumptions label_final_value_scoped.
Print Assumptions label_exported_after_label_pass.
Print Assumptions label_exported_at_emission.
Print Assumptions emit_keeps_symbols.
