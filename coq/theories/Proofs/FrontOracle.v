(** C12 / C14 — the front-end oracles ([Oracle/E2Eo.v]: [c14_ok], [c12_ok]) cannot raise a false alarm
    on an implementation whose observations are the model's.

    "Observations are the model's" is [corr t c = true] (the correspondence check of the same file)
    plus two facts [corr] does not look at:
    - [cli_consistent]: the [-D] texts given to the command line evaluate to the constants the other
      entry points were given (otherwise the command line assembles a different program);
    - [labeldefs_model]: the observed label definitions are the model's label listing ([corr] never
      reads [ec_labeldefs]).
    and one genuine side condition, [writer_ok]: when the in-memory assembly succeeds, the file writer
    accepts every block.  Without it the string API reports success while the file APIs fail (an IPS
    record at offset 0x454F46 or >= 2^24, a negative seek of the SFC writer), and both oracles flag
    that disagreement — see [c14_alarm_when_writer_refuses]. *)
From Coq Require Import ZArith List Lia Bool Arith.
From A816 Require Import Model.Assemble Oracle.E2Eo Spec.IpsFormat Proofs.BusProofs Proofs.IpsProofs
     Proofs.AssembleProofs.
Open Scope Z_scope.

(** ** Boolean equalities *)
Lemma list_eqb_eq {A} (eqb : A -> A -> bool) : (forall x y, eqb x y = true -> x = y) ->
  forall a b, list_eqb eqb a b = true -> a = b.
Proof.
  intros Heq. induction a as [|x a IH]; intros [|y b] H; cbn [list_eqb] in H; try discriminate; [reflexivity|].
  apply andb_prop in H as [H1 H2]. f_equal; auto.
Qed.
Lemma list_eqb_refl {A} (eqb : A -> A -> bool) : (forall x, eqb x x = true) -> forall a, list_eqb eqb a a = true.
Proof. intros Hr. induction a as [|x a IH]; cbn [list_eqb]; [reflexivity|]. rewrite Hr, IH. reflexivity. Qed.

Lemma bytes_eqb_eq a b : bytes_eqb a b = true -> a = b.
Proof. apply list_eqb_eq. intros x y H. apply Z.eqb_eq. exact H. Qed.
Lemma bytes_eqb_refl a : bytes_eqb a a = true.
Proof. apply list_eqb_refl. apply Z.eqb_refl. Qed.
Lemma wblock_eqb_eq a b : wblock_eqb a b = true -> a = b.
Proof.
  destruct a, b. unfold wblock_eqb. cbn [fst snd]. intros H. apply andb_prop in H as [H1 H2].
  apply bytes_eqb_eq in H1. apply Z.eqb_eq in H2. congruence.
Qed.
Lemma label_eqb_eq a b : label_eqb a b = true -> a = b.
Proof.
  destruct a, b. unfold label_eqb. cbn [fst snd]. intros H. apply andb_prop in H as [H1 H2].
  apply str_eqb_eq in H1. apply Z.eqb_eq in H2. congruence.
Qed.
Lemma asmobs_eqb_eq a b : asmobs_eqb a b = true -> a = b.
Proof.
  destruct a, b. unfold asmobs_eqb. cbn [fst snd]. intros H. apply andb_prop in H as [H1 H2].
  apply (list_eqb_eq _ wblock_eqb_eq) in H1. apply (list_eqb_eq _ label_eqb_eq) in H2. congruence.
Qed.
Lemma sym_eqb_eq a b : sym_eqb a b = true -> a = b.
Proof.
  destruct a as [[a1 a2] a3], b as [[b1 b2] b3]. unfold sym_eqb. cbn [fst snd]. intros H.
  apply andb_prop in H as [H H3]. apply andb_prop in H as [H1 H2].
  apply Z.eqb_eq in H1, H2. apply str_eqb_eq in H3. congruence.
Qed.
Lemma sym_eqb_refl a : sym_eqb a a = true.
Proof. destruct a as [[a1 a2] a3]. unfold sym_eqb. cbn [fst snd]. rewrite !Z.eqb_refl, str_eqb_refl. reflexivity. Qed.

(** ** The independent decoders of [c12_ok] agree with the writers *)
Lemma repeat_z_repeat n : repeat_z 0 n = repeat 0 n.
Proof. induction n; cbn [repeat_z repeat]; congruence. Qed.

Lemma spec_write_write_at img a d : d <> [] -> spec_write img (Z.to_nat a) d = write_at img a d.
Proof.
  intros Hd. unfold spec_write, write_at. destruct d as [|x d']; [contradiction|].
  set (d := x :: d'). set (o := Z.to_nat a). rewrite repeat_z_repeat.
  destruct (Nat.le_gt_cases o (length img)) as [L|G].
  - replace (o - length img)%nat with 0%nat by lia. cbn [repeat]. rewrite app_nil_r. reflexivity.
  - rewrite firstn_all2 by (rewrite app_length, repeat_length; lia).
    rewrite (firstn_all2 img) by lia. rewrite <- app_assoc. reflexivity.
Qed.

Lemma spec_image_writes delta : forall blocks img,
  fold_left (fun img b => match fst b with [] => img | _ => spec_write img (Z.to_nat (snd b + delta)) (fst b) end) blocks img =
  apply_writes (map (fun b => (snd b + delta, fst b)) blocks) img.
Proof.
  induction blocks as [|[d a] blocks IH]; intros img; [reflexivity|].
  cbn [fold_left map fst snd]. unfold apply_writes in *. cbn [fold_left fst snd]. rewrite IH. f_equal.
  destruct d as [|x d']; [reflexivity|]. apply spec_write_write_at. discriminate.
Qed.

Lemma output_file_matches f o bs :
  output_file f o = Ok bs -> file_matches (fc_format f) (fc_copier f) (o_blocks o, o_labels o) bs = true.
Proof.
  unfold output_file, file_matches. destruct (fc_format f); intros H; cbn [fst].
  - pose proof (ips_write_apply _ _ _ empty_image H) as HA. unfold empty_image in HA. rewrite HA. unfold spec_image. rewrite spec_image_writes.
    unfold shift_blocks, writer_blocks. rewrite map_map. cbn [fst snd].
    replace (if fc_copier f then 512 else 0) with (shift (fc_copier f)) by reflexivity. apply bytes_eqb_refl.
  - unfold sfc_image in H. apply sfc_write_blocks_ok in H. subst bs.
    unfold spec_image. rewrite spec_image_writes. unfold writer_blocks.
    rewrite (map_ext (fun b : bytes * Z => (snd b + 0, fst b)) (fun b => (snd b, fst b)))
      by (intros b; rewrite Z.add_0_r; reflexivity).
    apply bytes_eqb_refl.
Qed.

Lemma symbol_lines_fields r :
  symbol_lines r = map (fun nv => ((snd nv / 65536) mod 256, snd nv mod 65536, fst nv)) (get_all_labels r).
Proof.
  unfold symbol_lines. apply map_ext. intros [n v]. cbn [fst snd]. f_equal. f_equal.
  - rewrite Z.shiftr_div_pow2 by lia. change 255 with (Z.ones 8). rewrite Z.land_ones by lia. reflexivity.
  - change 65535 with (Z.ones 16). rewrite Z.land_ones by lia. reflexivity.
Qed.

(** ** A successful model result carries its own final state and label listing *)
Lemma assemble_program_ok w c prog o fin :
  assemble_program w c prog = AOk o fin -> fin = o_final o /\ o_labels o = get_all_labels fin.
Proof.
  unfold assemble_program. destruct (initial_resolver w c) as [r| |]; try discriminate.
  destruct (code_gen_fuel w cg_depth _ prog) as [[s ns]| |]; try discriminate.
  destruct (assemble_nodes w (cg_r s) ns) as [o'| |] eqn:E; try discriminate.
  intros H; inversion H; subst. split; [reflexivity|].
  unfold assemble_nodes in E. destruct (resolve_labels w (cg_r s) ns) as [ra| |]; cbn [bind] in E; try discriminate.
  destruct (emit w (fst ra) ns (snd ra)) as [rb| |]; cbn [bind] in E; try discriminate.
  inversion E; reflexivity.
Qed.

Lemma assemble_source_ok t fs c fname src o fin :
  assemble_source t fs c fname src = AOk o fin -> fin = o_final o /\ o_labels o = get_all_labels fin.
Proof.
  unfold assemble_source. destruct (scan (lv_lex t) fname src) as [toks lines|e| |]; try discriminate.
  - destruct (parse_program _ _ _ toks) as [prog|k tok|x|]; try discriminate.
    + apply assemble_program_ok.
    + destruct k; try discriminate. destruct (first_include_scan_error _ _) as [[p e]|]; discriminate.
  - destruct (se_quoted e); discriminate.
Qed.

(** ** "The observations are the model's" *)
Definition fcfg (c : e2ecase) : frontcfg :=
  {| fc_format := ec_format c; fc_copier := ec_copier c; fc_config := ec_config c |}.
Definition mfront (t : live) (c : e2ecase) : status * option bytes := file_api (fcfg c) (model_result t c).

(** the command line was given, as [-D] texts, the constants the other entry points were given *)
Definition cli_consistent (t : live) (c : e2ecase) : Prop :=
  match ec_cli_defines c with
  | None => True
  | Some texts => eval_defines (lv_prec t) texts [] = Ok (cf_defines (ec_config c))
  end.

(** the observed label definitions are the model's listing (not part of [corr]) *)
Definition labeldefs_model (t : live) (c : e2ecase) : Prop :=
  match ec_labeldefs c, model_result t c with
  | Some defs, AOk _ fin => list_eqb sym_eqb (symbol_lines fin) defs = true
  | _, _ => True
  end.

(** the writer accepts what the in-memory assembly produced *)
Definition writer_ok (t : live) (c : e2ecase) : Prop :=
  forall o fin, model_result t c = AOk o fin -> exists bs, output_file (fcfg c) o = Ok bs.

Lemma config_eta c : {| cf_rom := cf_rom c; cf_defines := cf_defines c |} = c.
Proof. destruct c; reflexivity. Qed.

(** what [corr] says, piece by piece *)
Lemma corr_parts t c : corr t c = true -> cli_consistent t c ->
  corr_core t c = true /\ front_eqb (mfront t c) (ec_api c) = true /\ front_eqb (mfront t c) (ec_cli c) = true /\
  match ec_symfile c, model_result t c with
  | Some lines, AOk _ final => list_eqb sym_eqb (symbol_lines final) lines = true
  | Some _, _ => False
  | None, _ => True
  end.
Proof.
  unfold corr, cli_consistent, mfront, fcfg. intros H Hcli.
  apply andb_prop in H as [H Hsym]. apply andb_prop in H as [Hcore H]. apply andb_prop in H as [Hapi Hc].
  refine (conj Hcore (conj Hapi (conj _ _))).
  - destruct (ec_cli_defines c) as [texts|]; [|exact Hc].
    rewrite Hcli in Hc. unfold model_result. rewrite config_eta in Hc. exact Hc.
  - destruct (ec_symfile c) as [lines|]; [|exact I].
    destruct (model_result t c); try discriminate. exact Hsym.
Qed.

Lemma corr_core_ok t c : corr_core t c = true ->
  match model_result t c with
  | AOk o _ => ec_impl c = EOk (o_blocks o, o_labels o)
  | _ => obs_failed (ec_impl c) = true
  end.
Proof.
  unfold corr_core. destruct (model_result t c) as [o fin|f e|tk|k site|]; destruct (ec_impl c); try discriminate;
    try reflexivity.
  - intros H. apply asmobs_eqb_eq in H. rewrite H. reflexivity.
  - destruct tk; discriminate.
Qed.

(** ** What the front-end observations look like *)
Lemma front_failed_of m o : front_eqb m o = true ->
  (fst m = SReturn (-1) false \/ exists k, fst m = SRaise k) -> front_failed o = true.
Proof.
  destruct m as [s file]. cbn [fst]. intros H [->|(k & ->)]; destruct o as [code ann f|k'|code ann f|];
    cbn [front_eqb front_failed fst snd cli_exit] in *; try reflexivity; try discriminate.
  - apply andb_prop in H as [H _]. apply andb_prop in H as [H1 H2].
    apply Z.eqb_eq in H1. apply eqb_prop in H2. subst. reflexivity.
  - apply andb_prop in H as [H _]. apply andb_prop in H as [H1 H2].
    apply Z.eqb_eq in H1. apply eqb_prop in H2. subst. reflexivity.
  - apply andb_prop in H as [H _]. apply andb_prop in H as [H1 H2].
    apply Z.eqb_eq in H1. subst. destruct ann; [discriminate|reflexivity].
Qed.

Lemma front_succeeded_of bs o : front_eqb (SReturn 0 true, Some bs) o = true ->
  front_succeeded o = true /\ (forall f, front_file o = Some f -> f = bs).
Proof.
  destruct o as [code ann f|k'|code ann f|]; cbn [front_eqb front_succeeded front_file fst snd cli_exit];
    intros H; try discriminate.
  - apply andb_prop in H as [H H3]. apply andb_prop in H as [H1 H2].
    apply Z.eqb_eq in H1. apply eqb_prop in H2. subst. split; [reflexivity|].
    intros f' E. subst f. apply bytes_eqb_eq in H3. auto.
  - apply andb_prop in H as [H H3]. apply andb_prop in H as [H1 H2].
    apply Z.eqb_eq in H1. apply eqb_prop in H2. subst. split; [reflexivity|].
    intros f' E. subst f. apply bytes_eqb_eq in H3. auto.
  - split; [reflexivity|]. intros f E. discriminate.
Qed.

Lemma file_api_failure f r : (forall o fin, r <> AOk o fin) ->
  (fst (file_api f r) = SReturn (-1) false \/ exists k, fst (file_api f r) = SRaise k).
Proof.
  intros H. destruct (failure_classes f r H) as [A _].
  destruct (fst (file_api f r)) as [code ann|k]; [left|right; eauto].
  destruct A as [-> ->]. reflexivity.
Qed.

(** ** C14: no false alarm *)
Theorem c14_no_false_alarm t c must_fail :
  corr t c = true -> cli_consistent t c -> writer_ok t c ->
  (must_fail = false \/ forall o fin, model_result t c <> AOk o fin) ->
  c14_ok must_fail c = true.
Proof.
  intros Hcorr Hcli Hw Hmf. destruct (corr_parts t c Hcorr Hcli) as (Hcore & Hapi & Hcl & _).
  pose proof (corr_core_ok t c Hcore) as Himpl. unfold c14_ok, mfront in *.
  destruct (model_result t c) as [o fin|f e|tk|k site|] eqn:R.
  - (* the model succeeds *)
    rewrite Himpl. cbn [obs_failed]. destruct Hmf as [->|Hne]; [|exfalso; eapply Hne; first [reflexivity|exact R]].
    cbn [negb orb andb]. destruct (Hw o fin R) as (bs & Hbs).
    cbn [file_api] in Hapi, Hcl. rewrite Hbs in Hapi, Hcl.
    rewrite (proj1 (front_succeeded_of bs _ Hapi)), (proj1 (front_succeeded_of bs _ Hcl)). reflexivity.
  - rewrite Himpl, orb_true_r. cbn [andb].
    assert (F : forall o fin, AScanError f e <> AOk o fin) by (intros; discriminate).
    rewrite (front_failed_of _ _ Hapi (file_api_failure _ _ F)), (front_failed_of _ _ Hcl (file_api_failure _ _ F)). reflexivity.
  - rewrite Himpl, orb_true_r. cbn [andb].
    assert (F : forall o fin, AParseError tk <> AOk o fin) by (intros; discriminate).
    rewrite (front_failed_of _ _ Hapi (file_api_failure _ _ F)), (front_failed_of _ _ Hcl (file_api_failure _ _ F)). reflexivity.
  - rewrite Himpl, orb_true_r. cbn [andb].
    assert (F : forall o fin, AExc k site <> AOk o fin) by (intros; discriminate).
    rewrite (front_failed_of _ _ Hapi (file_api_failure _ _ F)), (front_failed_of _ _ Hcl (file_api_failure _ _ F)). reflexivity.
  - rewrite Himpl, orb_true_r. cbn [andb].
    assert (F : forall o fin, AFuel <> AOk o fin) by (intros; discriminate).
    rewrite (front_failed_of _ _ Hapi (file_api_failure _ _ F)), (front_failed_of _ _ Hcl (file_api_failure _ _ F)). reflexivity.
Qed.

(** ** C12: no false alarm *)
Theorem c12_no_false_alarm t c :
  corr t c = true -> cli_consistent t c -> writer_ok t c -> labeldefs_model t c ->
  c12_ok c = true.
Proof.
  intros Hcorr Hcli Hw Hld. destruct (corr_parts t c Hcorr Hcli) as (Hcore & Hapi & Hcl & Hsym).
  pose proof (corr_core_ok t c Hcore) as Himpl. unfold c12_ok, mfront, labeldefs_model in *.
  destruct (model_result t c) as [o fin|f e|tk|k site|] eqn:R;
    try (destruct (ec_impl c); try discriminate; reflexivity).
  rewrite Himpl. destruct (Hw o fin R) as (bs & Hbs).
  cbn [file_api] in Hapi, Hcl. rewrite Hbs in Hapi, Hcl.
  destruct (front_succeeded_of bs _ Hapi) as [Sa Fa]. destruct (front_succeeded_of bs _ Hcl) as [Sc Fc].
  pose proof (output_file_matches (fcfg c) o bs Hbs) as Hm. cbn [fcfg fc_format fc_copier] in Hm.
  rewrite Sa, Sc.
  assert (Ha : match front_file (ec_api c) with Some f => file_matches (ec_format c) (ec_copier c) (o_blocks o, o_labels o) f | None => true end = true).
  { destruct (front_file (ec_api c)) as [f|] eqn:E; [|reflexivity]. rewrite (Fa f eq_refl). exact Hm. }
  assert (Hc : match front_file (ec_cli c) with Some f => file_matches (ec_format c) (ec_copier c) (o_blocks o, o_labels o) f | None => true end = true).
  { destruct (front_file (ec_cli c)) as [f|] eqn:E; [|reflexivity]. rewrite (Fc f eq_refl). exact Hm. }
  rewrite Ha, Hc. cbn [andb snd].
  destruct (ec_symfile c) as [lines|]; [|reflexivity].
  apply (list_eqb_eq _ sym_eqb_eq) in Hsym. subst lines.
  unfold model_result in R. destruct (assemble_source_ok _ _ _ _ _ _ _ R) as [_ Hlab].
  rewrite Hlab, <- symbol_lines_fields, (list_eqb_refl _ sym_eqb_refl). cbn [andb].
  destruct (ec_labeldefs c) as [defs|]; [exact Hld|reflexivity].
Qed.

(** ** The side condition [writer_ok] is needed: the oracles flag a refused block *)
Theorem c14_alarm_when_writer_refuses t c must_fail o fin :
  corr t c = true -> cli_consistent t c ->
  model_result t c = AOk o fin -> (forall bs, output_file (fcfg c) o <> Ok bs) ->
  ec_api c <> FNone ->
  c14_ok must_fail c = false /\ c12_ok c = false.
Proof.
  intros Hcorr Hcli R Hno Hobs. destruct (corr_parts t c Hcorr Hcli) as (Hcore & Hapi & _ & _).
  pose proof (corr_core_ok t c Hcore) as Himpl. rewrite R in Himpl.
  assert (Hfail : front_succeeded (ec_api c) = false).
  { unfold mfront in Hapi. rewrite R in Hapi. cbn [file_api] in Hapi.
    destruct (output_file (fcfg c) o) as [bs|k|] eqn:E; [exfalso; eapply Hno; reflexivity| |].
    - assert (Hs : fst (match k with ERuntime => (SReturn (-1) false, @None bytes) | _ => (SRaise k, None) end) = SReturn (-1) false \/
                   exists k', fst (match k with ERuntime => (SReturn (-1) false, @None bytes) | _ => (SRaise k, None) end) = SRaise k')
        by (destruct k; cbn [fst]; eauto).
      pose proof (front_failed_of _ _ Hapi Hs) as Hf.
      destruct (ec_api c) as [code ann f|k'|code ann f|]; cbn [front_failed front_succeeded] in *; try reflexivity; try contradiction;
        destruct (code =? 0); cbn [negb andb] in *; try discriminate; reflexivity.
    - destruct (ec_api c) as [code ann f|k'|code ann f|]; cbn [front_eqb fst snd front_succeeded cli_exit] in *;
        try discriminate; try reflexivity; try contradiction.
      apply andb_prop in Hapi as [Hapi _]. apply andb_prop in Hapi as [H1 H2]. apply Z.eqb_eq in H1. subst code.
      destruct ann; [discriminate|reflexivity]. }
  unfold c14_ok, c12_ok. rewrite Himpl. cbn [obs_failed]. rewrite Hfail.
  split; repeat (progress (rewrite ?andb_false_r; cbn [andb])); reflexivity.
Qed.

(** ** Non-vacuity: the case built from the model's own results *)
Definition obs_of_result (r : aresult) : e2eobs :=
  match r with AOk o _ => EOk (o_blocks o, o_labels o) | _ => EErrOther end.
Definition api_of (m : status * option bytes) : frontobs :=
  match fst m with SReturn code ann => FReturn code ann (snd m) | SRaise k => FRaise k end.
Definition cli_of (m : status * option bytes) : frontobs :=
  FExit (cli_exit (fst m)) (match fst m with SReturn _ ann => ann | SRaise _ => false end) (snd m).

Definition model_case (t : live) (fs : srcfiles) (cfg : config) (name src : str) (fmt : format) (copier : bool) : e2ecase :=
  let r := assemble_source t fs cfg name src in
  let m := file_api {| fc_format := fmt; fc_copier := copier; fc_config := cfg |} r in
  {| ec_files := fs; ec_config := cfg; ec_name := name; ec_src := src;
     ec_impl := obs_of_result r; ec_format := fmt; ec_copier := copier;
     ec_api := api_of m; ec_cli := cli_of m;
     ec_symfile := match r with AOk _ fin => Some (symbol_lines fin) | _ => None end;
     ec_cli_defines := None;
     ec_labeldefs := match r with AOk _ fin => Some (symbol_lines fin) | _ => None end |}.

Lemma wblock_eqb_refl a : wblock_eqb a a = true.
Proof. unfold wblock_eqb. rewrite bytes_eqb_refl, Z.eqb_refl. reflexivity. Qed.
Lemma label_eqb_refl a : label_eqb a a = true.
Proof. unfold label_eqb. rewrite str_eqb_refl, Z.eqb_refl. reflexivity. Qed.
Lemma asmobs_eqb_refl a : asmobs_eqb a a = true.
Proof. unfold asmobs_eqb. rewrite (list_eqb_refl _ wblock_eqb_refl), (list_eqb_refl _ label_eqb_refl). reflexivity. Qed.

Lemma front_eqb_api m : front_eqb m (api_of m) = true.
Proof.
  destruct m as [[code ann|k] file]; unfold api_of; cbn [fst snd front_eqb]; [|reflexivity].
  rewrite Z.eqb_refl, eqb_reflx. destruct file; [apply bytes_eqb_refl|reflexivity].
Qed.
Lemma front_eqb_cli m : front_eqb m (cli_of m) = true.
Proof.
  destruct m as [[code ann|k] file]; unfold cli_of; cbn [fst snd front_eqb cli_exit]; rewrite Z.eqb_refl.
  - rewrite eqb_reflx. destruct code; try reflexivity. destruct file; [apply bytes_eqb_refl|reflexivity].
  - reflexivity.
Qed.

(** whenever the model assembles, the case built from its results passes [corr], and the two
    facts [corr] does not cover hold by construction *)
Lemma model_case_corr t fs cfg name src fmt copier o fin :
  assemble_source t fs cfg name src = AOk o fin ->
  let c := model_case t fs cfg name src fmt copier in
  corr t c = true /\ cli_consistent t c /\ labeldefs_model t c.
Proof.
  intros R c. subst c. unfold corr, cli_consistent, labeldefs_model, corr_core, model_result, model_case.
  cbn [ec_files ec_config ec_name ec_src ec_impl ec_format ec_copier ec_api ec_cli ec_symfile ec_cli_defines ec_labeldefs].
  rewrite R. cbn [obs_of_result]. rewrite asmobs_eqb_refl, front_eqb_api, front_eqb_cli.
  rewrite (list_eqb_refl _ sym_eqb_refl). auto.
Qed.

Corollary model_case_oracles t fs cfg name src fmt copier o fin bs :
  assemble_source t fs cfg name src = AOk o fin ->
  output_file {| fc_format := fmt; fc_copier := copier; fc_config := cfg |} o = Ok bs ->
  let c := model_case t fs cfg name src fmt copier in
  c14_ok false c = true /\ c12_ok c = true.
Proof.
  intros R Hbs c. destruct (model_case_corr t fs cfg name src fmt copier o fin R) as (A & B & C). fold c in A, B, C.
  assert (Hw : writer_ok t c).
  { intros o' fin' R'. unfold model_result in R'. cbn [c model_case ec_files ec_config ec_name ec_src] in R'.
    rewrite R in R'. inversion R'; subst. exists bs. exact Hbs. }
  split; [apply (c14_no_false_alarm t c false A B Hw); left; reflexivity|apply (c12_no_false_alarm t c A B Hw C)].
Qed.

(** ** A concrete run through the whole pipeline (scanner, parser, code generation, passes, writers) *)
Module FrontExamples.
  Definition t0 : live :=
    {| lv_low := lorom; lv_high := hirom; lv_busmap := [(0, true); (1, true); (2, false)];
       lv_optable := []; lv_prec := [];
       lv_lex := mk_lexicon [] [] [[100; 98]; [105; 110; 99; 108; 117; 100; 101; 95; 105; 112; 115]] |}.
  Definition cfg0 : config := {| cf_rom := None; cf_defines := [] |}.
  Definition fname : str := [109].
  (** ["l: .db 1\n"] *)
  Definition src1 : str := [108; 58; 32; 46; 100; 98; 32; 49; 10].
  Definition c1 : e2ecase := model_case t0 no_srcfiles cfg0 fname src1 FIps true.
  Example c1_impl : ec_impl c1 = EOk ([([1], 0)], [([108], 0)]).
  Proof. vm_compute. reflexivity. Qed.
  Example c1_api : ec_api c1 = FReturn 0 true (Some [80; 65; 84; 67; 72; 0; 2; 0; 0; 1; 1; 69; 79; 70]).
  Proof. vm_compute. reflexivity. Qed.
  Example c1_corr : corr t0 c1 = true. Proof. vm_compute. reflexivity. Qed.
  Example c1_oracles : c14_ok false c1 = true /\ c12_ok c1 = true.
  Proof. split; vm_compute; reflexivity. Qed.

  (** the writer refuses: [.include_ips 'p', 1] where the patch has a record at 0xFFFFFF; the string
      API succeeds, [assemble_as_patch] raises struct.error — [corr] holds, both oracles object *)
  Definition patch : bytes := [80; 65; 84; 67; 72; 255; 255; 255; 0; 1; 7; 69; 79; 70].
  Definition files2 : srcfiles := {| sf_text := []; sf_bin := [([112], patch)]; sf_tbl := [] |}.
  (** [".include_ips 'p', 1\n"] *)
  Definition src2 : str := [46; 105; 110; 99; 108; 117; 100; 101; 95; 105; 112; 115; 32; 39; 112; 39; 44; 32; 49; 10].
  Definition c2 : e2ecase := model_case t0 files2 cfg0 fname src2 FIps false.
  Example c2_impl : ec_impl c2 = EOk ([([7], 16777216)], []).
  Proof. vm_compute. reflexivity. Qed.
  Example c2_api : ec_api c2 = FRaise EStruct. Proof. vm_compute. reflexivity. Qed.
  Example c2_corr : corr t0 c2 = true. Proof. vm_compute. reflexivity. Qed.
  Example c2_oracles : c14_ok false c2 = false /\ c12_ok c2 = false.
  Proof. split; vm_compute; reflexivity. Qed.
End FrontExamples.

Print Assumptions c14_no_false_alarm.
Print Assumptions c12_no_false_alarm.
Print Assumptions c14_alarm_when_writer_refuses.
Print Assumptions model_case_oracles.
