(** C10 (.if half), end to end — a program containing [.if c { th } else { eb }] assembles to exactly
    what the program with the selected branch written in place assembles to (same [res output]: no
    simulation is needed, the generated node lists and resolver states are equal).

    The only difference between the two programs is nesting depth: the branch of the [.if] is
    generated one fuel level further down than the same statements standing in place.  More fuel
    never changes a result other than [Err ERecursion] ([code_gen_stable], a strengthening of
    [code_gen_fuel_mono] that also covers failures), so the two programs differ only if one of them
    dies of Python's RecursionError exactly at the depth limit. *)
From Coq Require Import ZArith List Lia Bool Arith.
From A816 Require Import Model.Codegen Proofs.CodegenProofs Proofs.IncludeProofs.
Open Scope Z_scope.

(** ** Results that more fuel does not change *)
Definition stable_res {A} (x y : res A) : Prop := x <> Err ERecursion -> y = x.

Lemma stable_refl {A} (x : res A) : stable_res x x.
Proof. intros _. reflexivity. Qed.

Lemma stable_bind {A B} (x y : res A) (f g : A -> res B) :
  stable_res x y -> (forall a, x = Ok a -> stable_res (f a) (g a)) -> stable_res (bind x f) (bind y g).
Proof.
  intros Hx Hf Hne. destruct x as [a|k|].
  - rewrite (Hx ltac:(discriminate)). cbn [bind] in *. apply (Hf a eq_refl). exact Hne.
  - cbn [bind] in Hne. assert (Hk : @Err A k <> Err ERecursion) by (intros E; apply Hne; inversion E; reflexivity).
    rewrite (Hx Hk). reflexivity.
  - rewrite (Hx ltac:(discriminate)). reflexivity.
Qed.

Lemma stable_bind_same {A B} (x : res A) (f g : A -> res B) :
  (forall a, x = Ok a -> stable_res (f a) (g a)) -> stable_res (bind x f) (bind x g).
Proof. apply stable_bind. apply stable_refl. Qed.

Definition stable (g1 g2 : cgstate -> list ast -> res (cgstate * list node)) : Prop :=
  forall s b, stable_res (g1 s b) (g2 s b).

Section Stable.
  Variable w : world.
  Variables g1 g2 : cgstate -> list ast -> res (cgstate * list node).
  Hypothesis Hst : stable g1 g2.

  Lemma scoped_stable k s pre b : stable_res (scoped g1 k s pre b) (scoped g2 k s pre b).
  Proof.
    unfold scoped. apply stable_bind_same; intros r1 _.
    destruct (pre r1) as [r2 prens].
    apply stable_bind; [apply Hst|]. intros x _. apply stable_refl.
  Qed.

  Lemma for_loop_stable n : forall k v b s, stable_res (for_loop g1 n k v b s) (for_loop g2 n k v b s).
  Proof.
    induction n as [|n IH]; intros k v b s; cbn [for_loop]; [apply stable_refl|].
    apply stable_bind; [apply scoped_stable|]. intros x _.
    apply stable_bind; [apply IH|]. intros y _. apply stable_refl.
  Qed.

  Lemma gen_one_stable s a : stable_res (gen_one w g1 s a) (gen_one w g2 s a).
  Proof.
    destruct a; cbn [gen_one]; try apply stable_refl.
    - (* ABlock *) apply Hst.
    - (* ACompound *) apply scoped_stable.
    - (* AScope *) apply scoped_stable.
    - (* AIf *) apply stable_bind_same; intros cond _.
      destruct cond; [apply Hst|]. destruct el as [[eb ebfi]|]; [apply Hst|apply stable_refl].
    - (* AMacroApply *) destruct (dict_get (cg_macros s) name) as [md|]; [|apply stable_refl].
      apply stable_bind_same; intros bound _. apply scoped_stable.
    - (* ACodeLookup *) destruct (value_for (cg_r s) name) as [[x|body bfi]|k|]; try apply stable_refl. apply Hst.
    - (* AFor *) apply stable_bind_same; intros from _. apply stable_bind_same; intros to _. apply for_loop_stable.
  Qed.

  Lemma gen_list_stable body : forall s, stable_res (gen_list w g1 s body) (gen_list w g2 s body).
  Proof.
    induction body as [|a rest IH]; intros s; cbn [gen_list]; [apply stable_refl|].
    apply stable_bind; [apply gen_one_stable|]. intros x _.
    apply stable_bind; [apply IH|]. intros y _. apply stable_refl.
  Qed.
End Stable.

(** One more level of nesting fuel changes nothing unless the result was a RecursionError. *)
Theorem code_gen_stable w f : stable (code_gen_fuel w f) (code_gen_fuel w (S f)).
Proof.
  induction f as [|f IH]; intros s b; [intros H; exfalso; apply H; reflexivity|].
  rewrite (cgf_S w (S f)), (cgf_S w f). apply gen_list_stable. exact IH.
Qed.

(** ** The selected branch *)
Definition selected (b : bool) (th : list ast) (el : option (list ast * token)) : list ast :=
  if b then th else match el with Some (eb, _) => eb | None => [] end.

(** what [.if] generates once its condition is known *)
Definition branch (gen : cgstate -> list ast -> res (cgstate * list node)) (s : cgstate) (b : bool)
           (th : list ast) (el : option (list ast * token)) : res (cgstate * list node) :=
  if b then gen s th else match el with Some (eb, _) => gen s eb | None => Ok (s, []) end.

Lemma gen_one_if w gen s c th thfi el fi b :
  if_condition w (cg_r s) c = Ok b -> gen_one w gen s (AIf c th thfi el fi) = branch gen s b th el.
Proof. intros H. cbn [gen_one]. rewrite H. reflexivity. Qed.

(** the branch, generated one level down, against the same statements generated in place *)
Lemma branch_in_place w f s b th el :
  branch (code_gen_fuel w (S f)) s b th el = gen_list w (code_gen_fuel w f) s (selected b th el).
Proof. unfold branch, selected. destruct b; [reflexivity|]. destruct el as [[eb ebfi]|]; reflexivity. Qed.

Lemma branch_stable w f s b th el :
  stable_res (branch (code_gen_fuel w f) s b th el) (gen_list w (code_gen_fuel w f) s (selected b th el)).
Proof.
  unfold branch, selected. destruct b; [apply (code_gen_stable w f)|].
  destruct el as [[eb ebfi]|]; [apply (code_gen_stable w f)|apply stable_refl].
Qed.

(** ** Three-part statement lists *)
Section Three.
  Variable w : world.
  Variable gen : cgstate -> list ast -> res (cgstate * list node).

  Definition seq3 (A : res (cgstate * list node)) (B C : cgstate -> res (cgstate * list node)) :=
    do x <- A; do y <- B (fst x); do z <- C (fst y); Ok (fst z, snd x ++ snd y ++ snd z).

  Lemma gen_list_3 s pre mid post :
    gen_list w gen s (pre ++ mid ++ post) =
    seq3 (gen_list w gen s pre) (fun s => gen_list w gen s mid) (fun s => gen_list w gen s post).
  Proof.
    unfold seq3. rewrite gen_list_app.
    destruct (gen_list w gen s pre) as [x| |]; cbn [bind]; try reflexivity.
    rewrite gen_list_app.
    destruct (gen_list w gen (fst x) mid) as [y| |]; cbn [bind]; try reflexivity.
    destruct (gen_list w gen (fst y) post) as [z| |]; cbn [bind fst snd]; reflexivity.
  Qed.

  Lemma gen_list_stmt s pre a post :
    gen_list w gen s (pre ++ a :: post) =
    seq3 (gen_list w gen s pre) (fun s => gen_one w gen s a) (fun s => gen_list w gen s post).
  Proof.
    unfold seq3. rewrite gen_list_app.
    destruct (gen_list w gen s pre) as [x| |]; cbn [bind]; try reflexivity.
    cbn [gen_list].
    destruct (gen_one w gen (fst x) a) as [y| |]; cbn [bind]; try reflexivity.
    destruct (gen_list w gen (fst y) post) as [z| |]; cbn [bind fst snd]; reflexivity.
  Qed.

  (** with the condition known in the state after [pre] *)
  Lemma gen_list_if s pre post c th thfi el fi b :
    (forall x, gen_list w gen s pre = Ok x -> if_condition w (cg_r (fst x)) c = Ok b) ->
    gen_list w gen s (pre ++ AIf c th thfi el fi :: post) =
    seq3 (gen_list w gen s pre) (fun s => branch gen s b th el) (fun s => gen_list w gen s post).
  Proof.
    intros Hc. rewrite gen_list_stmt. unfold seq3.
    destruct (gen_list w gen s pre) as [x| |] eqn:E; cbn [bind]; try reflexivity.
    rewrite (gen_one_if w gen (fst x) c th thfi el fi b (Hc x eq_refl)). reflexivity.
  Qed.
End Three.

Lemma seq3_stable A A' B B' C C' :
  stable_res A A' -> (forall s, stable_res (B s) (B' s)) -> (forall s, stable_res (C s) (C' s)) ->
  stable_res (seq3 A B C) (seq3 A' B' C').
Proof.
  intros HA HB HC. unfold seq3.
  apply stable_bind; [exact HA|]. intros x _.
  apply stable_bind; [apply HB|]. intros y _.
  apply stable_bind; [apply HC|]. intros z _. apply stable_refl.
Qed.

(** ** Code generation of the two programs *)

(** Same fuel: unless the [.if] program dies of RecursionError, the program with the branch in place
    generates exactly the same thing (nodes, state, or error). *)
Theorem if_codegen_inlined w f s pre post c th thfi el fi b :
  (forall x, code_gen_fuel w (S f) s pre = Ok x -> if_condition w (cg_r (fst x)) c = Ok b) ->
  stable_res (code_gen_fuel w (S f) s (pre ++ AIf c th thfi el fi :: post))
             (code_gen_fuel w (S f) s (pre ++ selected b th el ++ post)).
Proof.
  intros Hc. rewrite !cgf_S in *. rewrite (gen_list_if w _ s pre post c th thfi el fi b Hc), gen_list_3.
  apply seq3_stable; intros; try apply stable_refl. apply branch_stable.
Qed.

(** Conversely: unless the program with the branch in place dies of RecursionError at fuel [f], the
    [.if] program generates exactly the same thing with one more level. *)
Theorem if_codegen_wrapped w f s pre post c th thfi el fi b :
  (forall x, code_gen_fuel w (S f) s pre = Ok x -> if_condition w (cg_r (fst x)) c = Ok b) ->
  stable_res (code_gen_fuel w f s (pre ++ selected b th el ++ post))
             (code_gen_fuel w (S f) s (pre ++ AIf c th thfi el fi :: post)).
Proof.
  intros Hc. destruct f as [|f]; [intros H; exfalso; apply H; reflexivity|].
  rewrite (cgf_S w (S f)) in *. rewrite (gen_list_if w _ s pre post c th thfi el fi b Hc).
  rewrite (cgf_S w f), gen_list_3.
  apply seq3_stable.
  - apply gen_list_stable. apply code_gen_stable.
  - intros s'. rewrite branch_in_place. apply stable_refl.
  - intros s'. apply gen_list_stable. apply code_gen_stable.
Qed.

(** The success-only readings. *)
Corollary if_codegen_inlined_ok w f s pre post c th thfi el fi b r :
  (forall x, code_gen_fuel w (S f) s pre = Ok x -> if_condition w (cg_r (fst x)) c = Ok b) ->
  code_gen_fuel w (S f) s (pre ++ AIf c th thfi el fi :: post) = Ok r ->
  code_gen_fuel w (S f) s (pre ++ selected b th el ++ post) = Ok r.
Proof.
  intros Hc H. rewrite <- H. apply (if_codegen_inlined w f s pre post c th thfi el fi b Hc).
  rewrite H. discriminate.
Qed.
Corollary if_codegen_wrapped_ok w f s pre post c th thfi el fi b r :
  (forall x, code_gen_fuel w (S f) s pre = Ok x -> if_condition w (cg_r (fst x)) c = Ok b) ->
  code_gen_fuel w f s (pre ++ selected b th el ++ post) = Ok r ->
  code_gen_fuel w (S f) s (pre ++ AIf c th thfi el fi :: post) = Ok r.
Proof.
  intros Hc H. rewrite <- H. apply (if_codegen_wrapped w f s pre post c th thfi el fi b Hc).
  rewrite H. discriminate.
Qed.

(** ** The whole assembly *)
Definition cg0 (r : rstate) : cgstate := {| cg_r := r; cg_macros := [] |}.

Lemma cg_depth_S : cg_depth = S (pred cg_depth).
Proof. reflexivity. Qed.

Lemma assemble_ast_cg w r p q :
  code_gen_fuel w cg_depth (cg0 r) q = code_gen_fuel w cg_depth (cg0 r) p ->
  assemble_ast w r q = assemble_ast w r p.
Proof. intros H. unfold assemble_ast. fold (cg0 r). rewrite H. reflexivity. Qed.

(** C10, conditionals: with the condition evaluating to [b] in the state reached after [pre], the
    program with [.if] and the program with the selected branch in place give the same [res output]
    — blocks, labels, final state, or error — provided one of them stays clear of the nesting limit:
    the [.if] program does not die of RecursionError, or the in-place program does not with one
    level less. *)
Theorem if_equals_selected w r pre post c th thfi el fi b :
  (forall x, code_gen_fuel w cg_depth (cg0 r) pre = Ok x -> if_condition w (cg_r (fst x)) c = Ok b) ->
  code_gen_fuel w cg_depth (cg0 r) (pre ++ AIf c th thfi el fi :: post) <> Err ERecursion \/
  code_gen_fuel w (pred cg_depth) (cg0 r) (pre ++ selected b th el ++ post) <> Err ERecursion ->
  assemble_ast w r (pre ++ AIf c th thfi el fi :: post) = assemble_ast w r (pre ++ selected b th el ++ post).
Proof.
  intros Hc [H|H].
  - symmetry. apply assemble_ast_cg. rewrite cg_depth_S in *.
    apply (if_codegen_inlined w _ (cg0 r) pre post c th thfi el fi b Hc H).
  - apply assemble_ast_cg. rewrite cg_depth_S in *.
    rewrite (if_codegen_wrapped w _ (cg0 r) pre post c th thfi el fi b Hc H).
    symmetry. apply (code_gen_stable w _ (cg0 r) _ H).
Qed.

(** In particular when the [.if] program assembles. *)
Corollary if_equals_selected_ok w r pre post c th thfi el fi b o :
  (forall x, code_gen_fuel w cg_depth (cg0 r) pre = Ok x -> if_condition w (cg_r (fst x)) c = Ok b) ->
  assemble_ast w r (pre ++ AIf c th thfi el fi :: post) = Ok o ->
  assemble_ast w r (pre ++ selected b th el ++ post) = Ok o.
Proof.
  intros Hc H. rewrite <- H. symmetry. apply if_equals_selected; [exact Hc|]. left.
  unfold assemble_ast in H. fold (cg0 r) in H. intros E. rewrite E in H. discriminate.
Qed.

(** ** The condition: non-zero (negative included) selects the first block; zero, an undefined name
    (or an operator the evaluator does not know) selects the else block / nothing *)
Lemma if_condition_nonzero w r c v : eval_raw w r c = Ok v -> v <> 0 -> if_condition w r c = Ok true.
Proof. intros H Hv. rewrite if_condition_spec, H. destruct (Z.eqb_spec v 0); [contradiction|reflexivity]. Qed.
Lemma if_condition_zero w r c : eval_raw w r c = Ok 0 -> if_condition w r c = Ok false.
Proof. intros H. rewrite if_condition_spec, H. reflexivity. Qed.
Lemma if_condition_undefined w r c : eval_raw w r c = Err ESymbol -> if_condition w r c = Ok false.
Proof. intros H. rewrite if_condition_spec, H. reflexivity. Qed.

Corollary if_true_equals_then w r pre post c th thfi el fi v :
  (forall x, code_gen_fuel w cg_depth (cg0 r) pre = Ok x -> eval_raw w (cg_r (fst x)) c = Ok v) -> v <> 0 ->
  code_gen_fuel w cg_depth (cg0 r) (pre ++ AIf c th thfi el fi :: post) <> Err ERecursion ->
  assemble_ast w r (pre ++ AIf c th thfi el fi :: post) = assemble_ast w r (pre ++ th ++ post).
Proof.
  intros Hc Hv H. apply (if_equals_selected w r pre post c th thfi el fi true); [|left; exact H].
  intros x Hx. eapply if_condition_nonzero; eauto.
Qed.
Corollary if_undefined_equals_else w r pre post c th thfi eb ebfi fi :
  (forall x, code_gen_fuel w cg_depth (cg0 r) pre = Ok x -> eval_raw w (cg_r (fst x)) c = Err ESymbol) ->
  code_gen_fuel w cg_depth (cg0 r) (pre ++ AIf c th thfi (Some (eb, ebfi)) fi :: post) <> Err ERecursion ->
  assemble_ast w r (pre ++ AIf c th thfi (Some (eb, ebfi)) fi :: post) = assemble_ast w r (pre ++ eb ++ post).
Proof.
  intros Hc H. apply (if_equals_selected w r pre post c th thfi (Some (eb, ebfi)) fi false); [|left; exact H].
  intros x Hx. apply if_condition_undefined; auto.
Qed.
(** An [.if] without else whose condition is false adds no nesting at all: no side condition. *)
Lemma if_false_nothing_codegen w f s pre post c th thfi fi :
  (forall x, code_gen_fuel w (S f) s pre = Ok x -> if_condition w (cg_r (fst x)) c = Ok false) ->
  code_gen_fuel w (S f) s (pre ++ AIf c th thfi None fi :: post) = code_gen_fuel w (S f) s (pre ++ post).
Proof.
  intros Hc. rewrite !cgf_S in *. rewrite (gen_list_if w _ s pre post c th thfi None fi false Hc).
  change (pre ++ post) with (pre ++ [] ++ post). rewrite gen_list_3. reflexivity.
Qed.

Corollary if_false_equals_nothing w r pre post c th thfi fi :
  (forall x, code_gen_fuel w cg_depth (cg0 r) pre = Ok x -> if_condition w (cg_r (fst x)) c = Ok false) ->
  assemble_ast w r (pre ++ AIf c th thfi None fi :: post) = assemble_ast w r (pre ++ post).
Proof.
  intros Hc. apply assemble_ast_cg. rewrite cg_depth_S in *.
  apply (if_false_nothing_codegen w _ (cg0 r) pre post c th thfi fi Hc).
Qed.

(** ** Non-vacuity, and necessity of the nesting side condition *)
From A816 Require Import Proofs.NonInterference Proofs.Unroll.
Module IfExamples.
  Import NIExamples UnrollExamples.
  Notation x := [120]. Notation y := [121].
  Definition n3 := num_expr [51].
  Definition db (e : expr) : ast := AData D_db [e] fi.

  (** [*= 0x8000   x := -1   .if x { .db 1 } else { .db 2 }   .db 3]: negative is true *)
  Definition pre := [AStarEq num8000 fi; AAssign x neg1 fi].
  Definition post := [db n3].
  Definition ifx := AIf (ident x) [db n1] fi (Some ([db n2], fi)) fi.
  Example cond_x : forall s, code_gen_fuel ex_world cg_depth (cg0 r0) pre = Ok s ->
    if_condition ex_world (cg_r (fst s)) (ident x) = Ok true.
  Proof. intros s H. vm_compute in H. inversion H; subst. vm_compute. reflexivity. Qed.
  Example if_x_out : view (assemble_ast ex_world r0 (pre ++ ifx :: post)) = Ok ([([1; 3], 0)], []).
  Proof. vm_compute. reflexivity. Qed.
  Example if_x_inlined :
    assemble_ast ex_world r0 (pre ++ ifx :: post) = assemble_ast ex_world r0 (pre ++ [db n1] ++ post).
  Proof.
    apply (if_equals_selected ex_world r0 pre post (ident x) [db n1] fi (Some ([db n2], fi)) fi true cond_x).
    left. vm_compute. discriminate.
  Qed.

  (** [.if y { .db 1 } else { .db 2 }] with [y] undefined: the else block *)
  Definition ify := AIf (ident y) [db n1] fi (Some ([db n2], fi)) fi.
  Example cond_y : forall s, code_gen_fuel ex_world cg_depth (cg0 r0) pre = Ok s ->
    eval_raw ex_world (cg_r (fst s)) (ident y) = Err ESymbol.
  Proof. intros s H. vm_compute in H. inversion H; subst. vm_compute. reflexivity. Qed.
  Example if_y_out : view (assemble_ast ex_world r0 (pre ++ ify :: post)) = Ok ([([2; 3], 0)], []).
  Proof. vm_compute. reflexivity. Qed.
  Example if_y_inlined :
    assemble_ast ex_world r0 (pre ++ ify :: post) = assemble_ast ex_world r0 (pre ++ [db n2] ++ post).
  Proof.
    apply (if_undefined_equals_else ex_world r0 pre post (ident y) [db n1] fi [db n2] fi fi cond_y).
    vm_compute. discriminate.
  Qed.

  (** the side condition is needed: at the nesting limit (here fuel 1) the [.if] program dies of
      RecursionError where the same statements in place are generated *)
  Example limit_if : is_ok (code_gen_fuel ex_world 1 (cg0 r0) (pre ++ ifx :: post)) = false.
  Proof. vm_compute. reflexivity. Qed.
  Example limit_if_kind : match code_gen_fuel ex_world 1 (cg0 r0) (pre ++ ifx :: post) with Err ERecursion => True | _ => False end.
  Proof. vm_compute. exact I. Qed.
  Example limit_flat : is_ok (code_gen_fuel ex_world 1 (cg0 r0) (pre ++ [db n1] ++ post)) = true.
  Proof. vm_compute. reflexivity. Qed.
End IfExamples.

Print Assumptions if_equals_selected.
Print Assumptions if_equals_selected_ok.
Print Assumptions if_true_equals_then.
Print Assumptions if_undefined_equals_else.
Print Assumptions if_false_equals_nothing.
Print Assumptions if_codegen_inlined.
Print Assumptions if_codegen_wrapped.
Print Assumptions code_gen_stable.
