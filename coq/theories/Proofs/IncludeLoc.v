(** C17 with [.include]: the results of Proofs/LocationText.v without the restriction
    [sf_text fs = []].  The tokens of included files are not moved by lines put in front of the MAIN
    text, so the token relation shifts only tokens whose position names the main file; included
    files parse to self-related ASTs because their tokens are self-related (the parser relation
    theorem is applied to the nested parses, by induction on the include depth — no reflexivity of the
    AST relation is needed).  Needs: no included path is the main file's name. *)
From Coq Require Import ZArith List Lia Bool Arith.
From A816 Require Import Model.Assemble Proofs.BusProofs Proofs.ScannerSpec Proofs.ScannerProofs Proofs.ScannerShift
     Proofs.ScannerLayout Proofs.ParserProofs Proofs.ParserFuelProofs Proofs.LocationProofs Proofs.LocationTextParse
     Proofs.LocationTextSim Proofs.LocationTextGen Proofs.LocationText.
Open Scope Z_scope.

(** ** The parser relation through nested includes *)
Section Inc.
  Variable T : token -> token -> Prop.
  Hypothesis T_type : forall t t', T t t' -> t_type t' = t_type t.
  Hypothesis T_value : forall t t', T t t' -> t_value t' = t_value t.
  Hypothesis T_eof : T eof_token eof_token.
  Variable inc : str -> res (list token).
  (** the tokens of every included file are related to themselves *)
  Hypothesis Hself : forall name toks, inc name = Ok toks -> Forall2 T toks toks.

  Lemma sub_related i :
    (forall ts ts2 F, Forall2 T ts ts2 -> prel T (asrel T) (parse_file i inc F ts) (parse_file i inc F ts2)) ->
    forall name,
      prel T (asrel T)
        (match inc name with Ok toks => parse_file i inc (parse_fuel (length toks)) toks | Err k => PErr k None | OutOfFuel => PFuel end)
        (match inc name with Ok toks => parse_file i inc (parse_fuel (length toks)) toks | Err k => PErr k None | OutOfFuel => PFuel end).
  Proof.
    intros IH name. destruct (inc name) as [toks|k|] eqn:E; [|cbn; auto|exact I].
    apply IH. apply (Hself name). exact E.
  Qed.

  Lemma parse_file_related : forall i ts ts2 F, Forall2 T ts ts2 ->
    prel T (asrel T) (parse_file i inc F ts) (parse_file i inc F ts2).
  Proof.
    induction i as [|i IH]; intros ts ts2 F Hts; rewrite !parse_file_unfold.
    - apply (pinitial_rel T T_type T_value ts ts2 0 (cur_related T T_eof [] ts ts2 Hts)); [|constructor].
      intro name. cbn. auto.
    - apply (pinitial_rel T T_type T_value ts ts2 0 (cur_related T T_eof [] ts ts2 Hts)); [|constructor].
      apply sub_related. exact IH.
  Qed.

  Theorem parse_program_related_inc incfuel cs ts ts2 :
    (forall name, inc name <> OutOfFuel) ->
    Forall (fun t => t_type t = T_COMMENT) cs -> Forall2 T ts ts2 ->
    prel T (asrel T)
      (parse_program (parse_fuel (length ts)) incfuel inc ts)
      (parse_program (parse_fuel (length (cs ++ ts2))) incfuel inc (cs ++ ts2)).
  Proof.
    intros Hnf Hcs Hts.
    assert (Hlen : length ts2 = length ts) by (clear -Hts; induction Hts; cbn [length]; congruence).
    set (F := (length cs + 2 * length ts + 3)%nat).
    assert (E1 : parse_program (parse_fuel (length ts)) incfuel inc ts = parse_program (S F) incfuel inc ts).
    { symmetry. apply parse_fuel_irrelevant; [exact Hnf|]. unfold parse_fuel, F. lia. }
    rewrite E1. unfold parse_program. rewrite !parse_file_unfold.
    replace (parse_fuel (length (cs ++ ts2))) with (length cs + S F)%nat
      by (unfold parse_fuel, F; rewrite app_length, Hlen; lia).
    rewrite skip_comments by (apply cur_comment; exact Hcs). cbn [plus].
    match goal with |- LocationTextParse.prel _ _ (pinitial ?l ?s _ _ _) (pinitial _ ?s' _ _ _) =>
      assert (Hs : forall name, prel T (asrel T) (s name) (s' name))
        by (intro name; destruct incfuel; [cbn; auto|apply sub_related; apply parse_file_related]);
      pose proof (pinitial_rel T T_type T_value ts (cs ++ ts2) (length cs) (cur_related T T_eof cs ts ts2 Hts) s s' Hs (S F) 0%nat [] []
                   (Forall2_nil _)) as HP
    end.
    rewrite Nat.add_0_r in HP. exact HP.
  Qed.
End Inc.

(** ** Tokens of the main file and of included files *)
Definition file_is (f : str) (t : token) : bool :=
  match t_pos t with Some p => str_eqb (tp_file p) f | None => false end.
(** shift a token only if its position names file [f] *)
Definition fshift (f : str) (k : nat) (t : token) : token := if file_is f t then shift_tok k t else t.

(** comment tokens are never reported; their position is left open *)
Definition T1 (f : str) (k : nat) (t t' : token) : Prop :=
  (t_type t = T_COMMENT /\ (t' = t \/ t' = shift_tok k t)) \/ (t_type t <> T_COMMENT /\ t' = fshift f k t).

Lemma T1_type f k t t' : T1 f k t t' -> t_type t' = t_type t.
Proof. intros [[_ [->| ->]]|[_ ->]]; try reflexivity; unfold fshift; destruct (file_is f t); reflexivity. Qed.
Lemma T1_value f k t t' : T1 f k t t' -> t_value t' = t_value t.
Proof. intros [[_ [->| ->]]|[_ ->]]; try reflexivity; unfold fshift; destruct (file_is f t); reflexivity. Qed.
Lemma T1_eof f k : T1 f k eof_token eof_token.
Proof. right. split; [discriminate|reflexivity]. Qed.

Lemma ttype_comment_dec t : {t_type t = T_COMMENT} + {t_type t <> T_COMMENT}.
Proof. destruct (t_type t); (left; reflexivity) || (right; discriminate). Qed.

Lemma main_tokens_T1 lx f src toks lines k :
  lexicon_ok lx = true -> scan lx f src = ScanOk toks lines -> Forall2 (T1 f k) toks (map (shift_tok k) toks).
Proof.
  intros Hlx Hs. pose proof (token_pos_correct lx f src toks lines Hlx Hs) as HT. clear Hs.
  induction HT as [|t l Ht _ IH]; cbn [map]; constructor; [|exact IH].
  destruct (ttype_comment_dec t) as [Hc|Hc]; [left; auto|right]. split; [exact Hc|].
  destruct Ht as [Ht|(off & (Hpos & _) & _)]; [contradiction|].
  unfold fshift, file_is. rewrite Hpos. cbn [tp_file]. rewrite str_eqb_refl. reflexivity.
Qed.

Lemma included_tokens_T1 lx f k path text toks lines :
  lexicon_ok lx = true -> str_eqb path f = false -> scan lx path text = ScanOk toks lines -> Forall2 (T1 f k) toks toks.
Proof.
  intros Hlx Hne Hs. pose proof (token_pos_correct lx path text toks lines Hlx Hs) as HT. clear Hs.
  induction HT as [|t l Ht _ IH]; constructor; [|exact IH].
  destruct (ttype_comment_dec t) as [Hc|Hc]; [left; auto|right]. split; [exact Hc|].
  destruct Ht as [Ht|(off & (Hpos & _) & _)]; [contradiction|].
  unfold fshift, file_is. rewrite Hpos. cbn [tp_file]. rewrite Hne. reflexivity.
Qed.

Lemma assoc_str_in {V} (l : list (str * V)) k v : assoc_str l k = Some v -> exists k', In (k', v) l /\ str_eqb k k' = true.
Proof.
  induction l as [|[k1 v1] l IH]; cbn [assoc_str]; [discriminate|].
  destruct (str_eqb k k1) eqn:E.
  - intros H; inversion H; subst. exists k1. split; [left; reflexivity|exact E].
  - intros H. destruct (IH H) as (k' & A & B). exists k'. split; [right; exact A|exact B].
Qed.

(** results equal up to [T1] on the reported tokens; a lexical error of the main file is [k] lines
    further, one of an included file is where it was *)
Definition result_shifted_inc (f : str) (k : nat) (r r' : aresult) : Prop :=
  match r, r' with
  | AOk o _, AOk o' _ => o_blocks o = o_blocks o' /\ o_labels o = o_labels o'
  | AScanError p e, AScanError p' e' =>
      p = p' /\ se_msg e' = se_msg e /\ se_col e' = se_col e /\ se_quoted e' = se_quoted e /\
      se_line e' = se_line e + (if str_eqb p f then Z.of_nat k else 0)
  | AParseError t, AParseError t' => oT (T1 f k) t t'
  | AExc kd s, AExc kd' s' => kd = kd' /\ oT (T1 f k) s s'
  | AFuel, AFuel => True
  | _, _ => False
  end.

Section FrontInc.
  Variable t : live.
  Variable fs : srcfiles.
  Variable c : config.
  Variable fname : str.
  Variables pad : str.
  Variables (cp : list token) (eofp : token) (lp : list str).
  Hypothesis Hlx : lexicon_ok (lv_lex t) = true.
  Hypothesis Hend : ends_nl pad.
  Hypothesis Hpad : scan (lv_lex t) fname pad = ScanOk (cp ++ [eofp]) lp.
  Hypothesis Hcomments : Forall (fun x => t_type x = T_COMMENT) cp.
  (** no included file goes by the main file's name *)
  Hypothesis Hnames : Forall (fun pt => str_eqb (fst pt) fname = false) (sf_text fs).

  Let k := count_nl pad.

  Lemma inc_self name toks : include_tokens t fs name = Ok toks -> Forall2 (T1 fname k) toks toks.
  Proof.
    unfold include_tokens. destruct (assoc_str (sf_text fs) name) as [text|] eqn:A; [|discriminate].
    unfold scan_res. destruct (scan (lv_lex t) name text) as [tk ln|e| |] eqn:S; cbn [scan_to_res bind]; try discriminate.
    - intros H; inversion H; subst; clear H. cbn [fst].
      destruct (assoc_str_in _ _ _ A) as (k' & Hin & Hk'). apply str_eqb_eq in Hk'. subst k'.
      rewrite Forall_forall in Hnames. specialize (Hnames _ Hin). cbn [fst] in Hnames.
      eapply included_tokens_T1; eauto.
    - destruct (se_quoted e); discriminate.
  Qed.

  Lemma inc_no_fuel name : include_tokens t fs name <> OutOfFuel.
  Proof.
    unfold include_tokens. destruct (assoc_str (sf_text fs) name) as [text|]; [|discriminate].
    unfold scan_res. pose proof (scan_fuel_sufficient (lv_lex t) name text) as HF.
    unfold scan, scan_fuel. destruct (scan_with_fuel (length text + 2) (lv_lex t) name text) as [tk ln|e| |];
      cbn [scan_to_res bind]; try discriminate; [destruct (se_quoted e); discriminate|contradiction].
  Qed.

  Lemma first_include_error_path files : forall path e,
    Forall (fun pt => str_eqb (fst pt) fname = false) files ->
    first_include_scan_error (lv_lex t) files = Some (path, e) -> str_eqb path fname = false.
  Proof.
    induction files as [|[p tx] files IH]; intros path e HF; cbn [first_include_scan_error]; [discriminate|].
    inversion HF as [|? ? Hp Hrest]; subst. cbn [fst] in Hp.
    destruct (scan (lv_lex t) p tx); try (apply IH; exact Hrest).
    intros H; inversion H; subst. exact Hp.
  Qed.

  (** C17, composed, with includes *)
  Theorem leading_lines_shift_inc src :
    result_shifted_inc fname k (assemble_source t fs c fname src) (assemble_source t fs c fname (pad ++ src)).
  Proof.
    unfold assemble_source.
    rewrite (scan_line_compositional (lv_lex t) fname pad src cp eofp lp Hlx Hend Hpad). fold k.
    destruct (scan (lv_lex t) fname src) as [toks lines|e| |] eqn:Ssrc; cbn [shift_result].
    - pose proof (parse_program_related_inc (T1 fname k) (T1_type fname k) (T1_value fname k) (T1_eof fname k)
                    (include_tokens t fs) inc_self include_depth cp toks (map (shift_tok k) toks)
                    inc_no_fuel Hcomments (main_tokens_T1 _ _ _ _ _ k Hlx Ssrc)) as HP.
      destruct (parse_program (parse_fuel (length toks)) include_depth (include_tokens t fs) toks) as [prog|kd tok|tok|],
               (parse_program (parse_fuel (length (cp ++ map (shift_tok k) toks))) include_depth (include_tokens t fs)
                              (cp ++ map (shift_tok k) toks)) as [prog'|kd' tok'|tok'|];
        cbn [prel] in HP; try contradiction.
      + pose proof (assemble_program_rel (T1 fname k) (T1_type fname k) (T1_value fname k) (world_of t fs) c prog prog' HP) as HA.
        pose proof (assemble_program_shape (world_of t fs) c prog) as HSh.
        destruct (assemble_program (world_of t fs) c prog) as [o fin|f e|tk|kd s|],
                 (assemble_program (world_of t fs) c prog') as [o' fin'|f' e'|tk'|kd' s'|]; cbn [aresrel] in HA; try contradiction;
          cbn [result_shifted_inc].
        * destruct HA as [(A & B & _) _]. auto.
        * exact HA.
        * exact I.
      + destruct HP as [<- HT].
        destruct kd; cbv beta iota; cbn [result_shifted_inc oT]; try (split; [reflexivity|exact I]); try exact HT.
        destruct (first_include_scan_error (lv_lex t) (sf_text fs)) as [[path e]|] eqn:FE; cbn [result_shifted_inc oT];
          [|split; [reflexivity|exact I]].
        rewrite (first_include_error_path _ _ _ Hnames FE). repeat split; try reflexivity. lia.
      + cbn [result_shifted_inc oT]. split; [reflexivity|exact I].
      + exact I.
    - cbn [se_quoted]. destruct (se_quoted e) as [q|] eqn:Eq; cbn [result_shifted_inc se_msg se_line se_col se_quoted oT].
      + rewrite str_eqb_refl. repeat split; auto.
      + split; [reflexivity|exact I].
    - cbn [result_shifted_inc oT]. split; [reflexivity|exact I].
    - exact I.
  Qed.

  (** what it says about a reported site: a token of the main file is reported [k] lines further,
      a token of an included file where it was *)
  Corollary leading_lines_site_inc src kd s :
    assemble_source t fs c fname src = AExc kd (Some s) -> t_type s <> T_COMMENT ->
    assemble_source t fs c fname (pad ++ src) = AExc kd (Some (fshift fname k s)).
  Proof.
    intros E Hnc. pose proof (leading_lines_shift_inc src) as H. rewrite E in H.
    destruct (assemble_source t fs c fname (pad ++ src)) as [| | |kd' [s'|]|]; cbn [result_shifted_inc oT] in H; try contradiction;
      destruct H as [<- H]; try contradiction.
    destruct H as [[Hc _]|[_ ->]]; [contradiction|reflexivity].
  Qed.
End FrontInc.

(** ** Two layouts of the same prefix, with includes *)
Definition beyond_in (f : str) (k1 : nat) (t : token) : Prop :=
  exists p, t_pos t = Some p /\ str_eqb (tp_file p) f = true /\ Z.of_nat k1 <= tp_line p.
Definition relined_in (f : str) (k1 : nat) (d : Z) (t t' : token) : Prop :=
  t_type t' = t_type t /\ t_value t' = t_value t /\
  (t_type t <> T_COMMENT ->
     (beyond_in f k1 t -> t_pos t' = option_map (reline d) (t_pos t)) /\ (file_is f t = false -> t' = t)).

Definition result_relined_inc (f : str) (k1 : nat) (d : Z) (r r' : aresult) : Prop :=
  match r, r' with
  | AOk o _, AOk o' _ => o_blocks o = o_blocks o' /\ o_labels o = o_labels o'
  | AScanError p e, AScanError p' e' =>
      p = p' /\ se_msg e' = se_msg e /\ se_col e' = se_col e /\ se_quoted e' = se_quoted e /\
      se_line e' = se_line e + (if str_eqb p f then d else 0)
  | AParseError t, AParseError t' => oT (relined_in f k1 d) t t'
  | AExc kd s, AExc kd' s' => kd = kd' /\ oT (relined_in f k1 d) s s'
  | AFuel, AFuel => True
  | _, _ => False
  end.

Lemma relined_in_prefix f k1 d a b :
  Forall2 (fun x y => t_type y = t_type x /\ t_value y = t_value x) a b ->
  Forall (fun x => forall p, t_pos x = Some p -> tp_line p < Z.of_nat k1) a ->
  Forall (fun x => t_type x = T_COMMENT \/ file_is f x = true) a ->
  Forall2 (relined_in f k1 d) a b.
Proof.
  induction 1 as [|x y a b [Hty Hv] _ IH]; intros Hl HT; [constructor|].
  inversion Hl as [|? ? Hx Hrest]; subst. inversion HT as [|? ? Htx HTr]; subst.
  constructor; [|apply IH; assumption].
  split; [exact Hty|split; [exact Hv|]]. intros Hnc. split.
  - intros (p & Hp & _ & Hge). specialize (Hx p Hp). lia.
  - intros Hf. destruct Htx as [Hc|Hm]; [contradiction|congruence].
Qed.

Section TwoPrefixesInc.
  Variable t : live.
  Variable fs : srcfiles.
  Variable c : config.
  Variable fname : str.
  Variables pre1 pre2 : str.
  Variables (tp1 tp2 : list token) (e1 e2 : token) (l1 l2 : list str).
  Hypothesis Hlx : lexicon_ok (lv_lex t) = true.
  Hypothesis Hend1 : ends_nl pre1.
  Hypothesis Hend2 : ends_nl pre2.
  Hypothesis Hs1 : scan (lv_lex t) fname pre1 = ScanOk (tp1 ++ [e1]) l1.
  Hypothesis Hs2 : scan (lv_lex t) fname pre2 = ScanOk (tp2 ++ [e2]) l2.
  Hypothesis Hsame : Forall2 (fun x y => t_type y = t_type x /\ t_value y = t_value x) tp1 tp2.
  Hypothesis Hlines : Forall (fun x => forall p, t_pos x = Some p -> tp_line p < Z.of_nat (count_nl pre1)) tp1.
  Hypothesis Hnames : Forall (fun pt => str_eqb (fst pt) fname = false) (sf_text fs).

  Let k1 := count_nl pre1.
  Let k2 := count_nl pre2.
  Let d := Z.of_nat k2 - Z.of_nat k1.
  Notation RT := (relined_in fname k1 d).

  Lemma RT_type x y : RT x y -> t_type y = t_type x. Proof. intros H; apply H. Qed.
  Lemma RT_value x y : RT x y -> t_value y = t_value x. Proof. intros H; apply H. Qed.
  Lemma RT_eof : RT eof_token eof_token.
  Proof.
    split; [reflexivity|split; [reflexivity|]]. intros _. split; [|reflexivity]. intros (p & Hp & _). discriminate.
  Qed.

  (** tokens of the first prefix: main file, own lines *)
  Lemma RT_prefix : Forall2 RT tp1 tp2.
  Proof.
    pose proof (token_pos_correct _ _ _ _ _ Hlx Hs1) as HT. apply Forall_app in HT as [HT _].
    apply (relined_in_prefix fname k1 d tp1 tp2 Hsame Hlines).
    eapply Forall_impl; [|exact HT]. intros x [Hc|(off & (Hpos & _) & _)]; [left; exact Hc|right].
    unfold file_is. rewrite Hpos. cbn [tp_file]. apply str_eqb_refl.
  Qed.

  Lemma RT_rest rest toks lines : scan (lv_lex t) fname rest = ScanOk toks lines ->
    Forall2 RT (map (shift_tok k1) toks) (map (shift_tok k2) toks).
  Proof.
    intros Hr. pose proof (token_pos_correct _ _ _ _ _ Hlx Hr) as HT. clear Hr.
    induction HT as [|x l Hx _ IH]; cbn [map]; constructor; [|exact IH].
    split; [reflexivity|split; [reflexivity|]]. intros Hnc. cbn [shift_tok t_type] in Hnc.
    destruct Hx as [Hc|(off & (Hpos & _) & _)]; [contradiction|]. split.
    - intros _. unfold shift_tok. cbn [t_pos]. rewrite Hpos. cbn [option_map]. unfold reline. cbn [tp_line tp_col tp_file].
      do 2 f_equal. unfold d. lia.
    - intros Hf. unfold file_is, shift_tok in Hf. cbn [t_pos] in Hf. rewrite Hpos in Hf. cbn [option_map tp_file] in Hf.
      rewrite str_eqb_refl in Hf. discriminate.
  Qed.

  Lemma RT_included name toks : include_tokens t fs name = Ok toks -> Forall2 RT toks toks.
  Proof.
    unfold include_tokens. destruct (assoc_str (sf_text fs) name) as [text|] eqn:A; [|discriminate].
    unfold scan_res. destruct (scan (lv_lex t) name text) as [tk ln|e| |] eqn:S; cbn [scan_to_res bind]; try discriminate;
      [|destruct (se_quoted e); discriminate].
    intros H; inversion H; subst; clear H. cbn [fst].
    destruct (assoc_str_in _ _ _ A) as (k' & Hin & Hk'). apply str_eqb_eq in Hk'. subst k'.
    rewrite Forall_forall in Hnames. specialize (Hnames _ Hin). cbn [fst] in Hnames.
    pose proof (token_pos_correct _ _ _ _ _ Hlx S) as HT. clear S.
    induction HT as [|x l Hx _ IH]; constructor; [|exact IH].
    split; [reflexivity|split; [reflexivity|]]. intros Hnc.
    destruct Hx as [Hc|(off & (Hpos & _) & _)]; [contradiction|]. split; [|reflexivity].
    intros (p & Hp & Hf & _). rewrite Hpos in Hp. inversion Hp; subst p. cbn [tp_file] in Hf. congruence.
  Qed.

  Theorem prefix_only_counts_inc rest :
    result_relined_inc fname k1 d (assemble_source t fs c fname (pre1 ++ rest)) (assemble_source t fs c fname (pre2 ++ rest)).
  Proof.
    unfold assemble_source.
    rewrite (scan_line_compositional (lv_lex t) fname pre1 rest tp1 e1 l1 Hlx Hend1 Hs1).
    rewrite (scan_line_compositional (lv_lex t) fname pre2 rest tp2 e2 l2 Hlx Hend2 Hs2). fold k1 k2.
    destruct (scan (lv_lex t) fname rest) as [toks lines|e| |] eqn:Sr; cbn [shift_result].
    - pose proof (parse_program_related_inc RT RT_type RT_value RT_eof (include_tokens t fs) RT_included include_depth []
                    _ _ (inc_no_fuel t fs) (Forall_nil _) (Forall2_app RT_prefix (RT_rest rest toks lines Sr))) as HP.
      cbn [app] in HP.
      destruct (parse_program (parse_fuel (length (tp1 ++ map (shift_tok k1) toks))) include_depth (include_tokens t fs) _) as [prog|kd tok|tok|],
               (parse_program (parse_fuel (length (tp2 ++ map (shift_tok k2) toks))) include_depth (include_tokens t fs) _) as [prog'|kd' tok'|tok'|];
        cbn [prel] in HP; try contradiction.
      + pose proof (assemble_program_rel RT RT_type RT_value (world_of t fs) c prog prog' HP) as HA.
        pose proof (assemble_program_shape (world_of t fs) c prog) as HSh.
        destruct (assemble_program (world_of t fs) c prog) as [o fin|f e|tk|kd s|],
                 (assemble_program (world_of t fs) c prog') as [o' fin'|f' e'|tk'|kd' s'|]; cbn [aresrel] in HA; try contradiction;
          cbn [result_relined_inc].
        * destruct HA as [(A & B & _) _]. auto.
        * exact HA.
        * exact I.
      + destruct HP as [<- HT].
        destruct kd; cbv beta iota; cbn [result_relined_inc oT]; try (split; [reflexivity|exact I]); try exact HT.
        destruct (first_include_scan_error (lv_lex t) (sf_text fs)) as [[path e]|] eqn:FE; cbn [result_relined_inc oT];
          [|split; [reflexivity|exact I]].
        rewrite (first_include_error_path t fname _ _ _ Hnames FE). repeat split; try reflexivity. lia.
      + cbn [result_relined_inc oT]. split; [reflexivity|exact I].
      + exact I.
    - cbn [se_quoted]. destruct (se_quoted e) as [q|] eqn:Eq; cbn [result_relined_inc se_msg se_line se_col se_quoted oT].
      + rewrite str_eqb_refl. repeat split; auto. unfold d. lia.
      + split; [reflexivity|exact I].
    - cbn [result_relined_inc oT]. split; [reflexivity|exact I].
    - exact I.
  Qed.
End TwoPrefixesInc.

(** ** Examples: an error inside an included file stays put, one in the main file moves *)
Module IncludeExamples.
  Definition t0 : live :=
    {| lv_low := lorom; lv_high := hirom; lv_busmap := [(0, true); (1, true); (2, false)];
       lv_optable := []; lv_prec := [];
       lv_lex := mk_lexicon [] [] [[100; 98]; [105;110;99;108;117;100;101]] |}.
  Definition cfg0 : config := {| cf_rom := None; cf_defines := [] |}.
  Definition fname : str := [109].
  Definition pad : str := [59;32;99;10;10].                                   (* "; c\n\n" *)
  (** file "i" = ".db nope\n"; file "j" = ".db 1\n" *)
  Definition files : srcfiles :=
    {| sf_text := [([105], [46;100;98;32;110;111;112;101;10]); ([106], [46;100;98;32;49;10])]; sf_bin := []; sf_tbl := [] |}.
  Definition src_i : str := [46;105;110;99;108;117;100;101;32;39;105;39;10].  (* ".include 'i'\n" *)
  Definition src_j : str := [46;105;110;99;108;117;100;101;32;39;106;39;10] ++ [46;100;98;32;110;111;112;101;10].
  Definition where_ (r : aresult) : option (errk * option (str * Z * Z)) :=
    match r with
    | AExc k (Some tk) => Some (k, match t_pos tk with Some p => Some (tp_file p, tp_line p, tp_col p) | None => None end)
    | AExc k None => Some (k, None)
    | _ => None
    end.
  Example in_included_plain : where_ (assemble_source t0 files cfg0 fname src_i) = Some (ENode, Some ([105], 0, 1)).
  Proof. vm_compute. reflexivity. Qed.
  Example in_included_padded : where_ (assemble_source t0 files cfg0 fname (pad ++ src_i)) = Some (ENode, Some ([105], 0, 1)).
  Proof. vm_compute. reflexivity. Qed.
  Example in_main_plain : where_ (assemble_source t0 files cfg0 fname src_j) = Some (ENode, Some ([109], 1, 1)).
  Proof. vm_compute. reflexivity. Qed.
  Example in_main_padded : where_ (assemble_source t0 files cfg0 fname (pad ++ src_j)) = Some (ENode, Some ([109], 3, 1)).
  Proof. vm_compute. reflexivity. Qed.

  Example names_differ : Forall (fun pt => str_eqb (fst pt) fname = false) (sf_text files).
  Proof. repeat constructor. Qed.
  Example by_theorem src :
    result_shifted_inc fname 2 (assemble_source t0 files cfg0 fname src) (assemble_source t0 files cfg0 fname (pad ++ src)).
  Proof.
    destruct (scan (lv_lex t0) fname pad) as [[|c0 [|e0 [|x y]]] l| | |] eqn:E; try (vm_compute in E; discriminate).
    change 2%nat with (count_nl pad).
    apply (leading_lines_shift_inc t0 files cfg0 fname pad [c0] e0 l eq_refl); auto using names_differ.
    - exists [59;32;99;10]%Z. reflexivity.
    - vm_compute in E. inversion E; subst. repeat constructor.
  Qed.
End IncludeExamples.

Print Assumptions leading_lines_shift_inc.
Print Assumptions leading_lines_site_inc.
Print Assumptions parse_program_related_inc.
Print Assumptions prefix_only_counts_inc.
