(** C16 (.include, source level), part 1 — the parser's look-ahead at a statement boundary.
    A state function that succeeds ending at position [p] may have looked at the token at [p]
    (is an expression continued by an operator? is there an index register? an "else"?).
    [SL]: if that token is "inert" (none of the continuation tests fires on it) then the function
    gives the same result on every list with the same first [p] tokens whose token at [p] is inert
    too — up to the places where the AST stores the look-ahead token itself (the file_info of the
    body of .if / .for and of .incbin / .table: [relook]); a .map statement in addition requires
    that the next token is no IDENTIFIER (it would be taken for a further attribute). *)
From Coq Require Import Arith Lia List Bool ZArith.
From A816 Require Import Model.Parser Proofs.ParserProofs Proofs.ParseFail.
From A816 Require Proofs.ParserFuelProofs.
Open Scope nat_scope.

(** a token on which no continuation test of the parser fires *)
Definition inert (h : token) : Prop :=
  is_ty h T_OPERATOR = false /\ is_ty h T_ADDRESSING_MODE_INDEX = false /\ is_ty h T_OPCODE_SIZE = false /\
  is_ty h T_SHARP = false /\ is_ty h T_LPAREN = false /\ is_ty h T_LBRAKET = false /\
  is_ty h T_COMMA = false /\ is_ty h T_RPAREN = false /\ is_ty h T_RBRACE = false /\
  str_eqb (t_value h) k_else = false.

(** the look-ahead token as stored in a statement *)
Definition relook (h : token) (a : ast) : ast :=
  match a with
  | AIf c th _ None fi => AIf c th h None fi
  | AIf c th thfi (Some (eb, _)) fi => AIf c th thfi (Some (eb, h)) fi
  | AFor v lo hi b _ fi => AFor v lo hi b h fi
  | ATable p _ => ATable p h
  | AIncbin p _ => AIncbin p h
  | _ => a
  end.
Definition is_map (a : ast) : bool := match a with AMap _ _ => true | _ => false end.
Definition omap (o : option ast) : bool := match o with Some a => is_map a | None => false end.
Definition nomap {A} (_ : A) : bool := false.
Definition keep {A} (_ : token) (a : A) : A := a.
Definition allmap {A} (_ : A) : bool := true.

Section Look.
  Variable ts : list token.
  Variable sub : str -> pres (list ast).
  Notation Det := (Det ts).
  Notation SP := (SP ts sub).

  Definition SL {A} (rl : token -> A -> A) (mp : A -> bool) (run : list token -> R A) : Prop :=
    forall a p, run ts = POk (a, p) ->
    forall l', agree p ts l' -> inert (cur ts p) -> inert (cur l' p) ->
               (mp a = true -> is_ty (cur l' p) T_IDENTIFIER = false) ->
               run l' = POk (rl (cur l' p) a, p).

  (** an expression consumes at least one token *)
  Lemma pexpr_strict f : forall pos e p, pexpr ts f pos = POk (e, p) -> pos < p.
  Proof.
    induction f as [|f IH]; intros pos e p E; [discriminate E|]. rewrite pexpr_S in E. cbv zeta in E.
    assert (HD : forall r, (match r with POk (e1, p3) => pos < p3 | _ => True end) ->
                 (dop hd <- r; let '(toks, p3) := hd in
                  match toks with [] => POk (toks, p3) | _ => if is_ty (cur ts p3) T_OPERATOR then
                     dop r2 <- pexpr ts f (S p3); let '(e2, p4) := r2 in POk ((toks ++ [en EK_bin (cur ts p3)]) ++ e2, p4)
                     else POk (toks, p3) end) = POk (e, p) -> pos < p).
    { intros r Hr E'. destruct r as [[e1 p3]| | |]; cbn [pbind] in E'; try discriminate.
      destruct e1; [injection E' as <- <-; exact Hr|].
      destruct (is_ty (cur ts p3) T_OPERATOR); [|injection E' as <- <-; exact Hr].
      destruct (pexpr ts f (S p3)) as [[e2 p4]| | |] eqn:E2; cbn [pbind] in E'; try discriminate.
      injection E' as <- <-. apply IH in E2. lia. }
    revert E. apply HD. clear HD.
    destruct (is_ty (cur ts pos) T_LPAREN).
    - destruct (pexpr ts f (S pos)) as [[e1 p2]| | |] eqn:E1; cbn [pbind]; auto. apply IH in E1.
      unfold expect. destruct (is_ty (cur ts p2) T_RPAREN); auto. lia.
    - destruct (_ || _); [lia|]. destruct (_ && _); [|exact I].
      destruct (pexpr ts f (S pos)) as [[e1 p2]| | |] eqn:E1; cbn [pbind]; auto. apply IH in E1. lia.
  Qed.
  Lemma pexpression_strict f pos e p : pexpression ts f pos = POk (e, p) -> pos < p.
  Proof.
    unfold pexpression. destruct (pexpr ts f pos) as [[e1 p1]| | |] eqn:E1; cbn [pbind fst]; try discriminate.
    destruct e1; [discriminate|]. intros H. injection H as <- <-. eapply pexpr_strict; eauto.
  Qed.

  (* ---------------------------------------------------------------------------------------- *)
  (** ** tactics (as in ParseFail.v) *)
  Ltac scrut t :=
    lazymatch t with
    | pbind ?r _ => scrut r
    | (if ?c then _ else _) => c
    | match ?x with _ => _ end => scrut x
    | _ => t
    end.

  Ltac boolcontra :=
    exfalso; match goal with H1 : ?x = true, H2 : ?x = false |- _ => rewrite H1 in H2; discriminate H2 end.

  Ltac sx E :=
    repeat (unfold expect in E; rewrite ?peek_cur in E; cbn [pbind fst snd app] in E;
      lazymatch type of E with
      | ?LHS = _ =>
        let s := scrut LHS in
        lazymatch s with
        | sub _ => let H := fresh "Hsub" in destruct s as [?|?k ?o|?o|] eqn:H
        | _ =>
        lazymatch type of s with
        | pres _ => fail
        | R _ => fail
        | _ => tryif is_var s then destruct s else
               (let H := fresh "Hc" in
                first [ match s with context [is_ty ?x ?y] => destruct (is_ty x y) eqn:H end
                      | match s with context [str_eqb ?x ?y] => destruct (str_eqb x y) eqn:H end
                      | destruct s eqn:H ]; cbn [orb andb negb] in E)
        end end
      end; try discriminate E).

  Create HintDb spdb.
  Create HintDb sldb.

  (** destruct the call at the head of [E]; bring its [SP] facts (end position, dependence) and
      its [SL] fact when there are any *)
  Ltac acall E :=
    repeat (lazymatch type of E with
            | ?LHS = _ => let s := scrut LHS in
                          match s with context [cur ts ?i] => let tk := fresh "tk" in set (tk := cur ts i) in * end
            end);
    lazymatch type of E with
    | ?LHS = _ =>
      let s := scrut LHS in
      lazymatch eval pattern ts in s with
      | ?F _ =>
        let HP := fresh "HP" in let HL := fresh "HL" in
        first [ eassert (HP : SP _ _ F) by (solve [eauto with spdb]);
                try (eassert (HL : SL _ _ F) by (solve [eauto with sldb]))
              | eassert (HL : SL _ _ F) by (solve [eauto with sldb]) ];
        try (destruct HP as [HP _]; cbv beta in HP);
        try (unfold SL in HL; cbv beta in HL);
        let Ec := fresh "Ec" in
        destruct s as [[?a ?p]|?k ?o|?o|] eqn:Ec; cbn [pbind fst snd app] in E; try discriminate E;
        try (specialize (HP _ _ eq_refl); destruct HP as [?Hle ?HD]);
        try (specialize (HL _ _ eq_refl));
        try match type of Ec with
            | pexpression ts _ _ = POk _ => pose proof (pexpression_strict _ _ _ _ Ec)
            | pexpr ts _ _ = POk _ => pose proof (pexpr_strict _ _ _ _ Ec)
            end
      end
    end;
    repeat match goal with tk := cur ts _ |- _ => subst tk end.

  Ltac ex E := repeat (sx E; try acall E).

  Ltac rp l' Hag :=
    repeat (unfold expect; try unfold keep; rewrite ?peek_cur; cbn [pbind fst snd app];
      lazymatch goal with
      | |- ?LHS = _ =>
        let s := scrut LHS in
        first
        [ match s with context [cur l' ?i] => rewrite (Hag i) by lia end
        | match s with context [is_ty ?x ?y] => match goal with E : is_ty x y = _ |- _ => rewrite E; cbn [orb andb negb] end end
        | match s with context [str_eqb ?x ?y] => match goal with E : str_eqb x y = _ |- _ => rewrite E; cbn [orb andb negb] end end
        | match goal with E : s = _ |- _ => rewrite E end
        | match s with context [l'] =>
            match eval pattern l' in s with
            | ?F _ =>
              first
              [ match goal with D : Det ?hD F |- _ =>
                  let Hag' := fresh in let X := fresh in
                  assert (Hag' : agree hD ts l') by (apply (agree_mono _ _ _ _ Hag); lia);
                  pose proof (D l' Hag') as X; cbv beta in X; rewrite X; clear X Hag' end
              | match goal with
                | HL : forall l0, agree _ ts l0 -> _ -> _ -> _ -> _ = _, Hi : inert (cur ts _), Hi' : inert (cur l' _) |- _ =>
                    rewrite (HL l' Hag Hi Hi' ltac:(first [intros X; discriminate X | assumption | intros _; auto]))
                end ]
            end end
        | (* a read at an index that may be the final position *)
          match s with context [cur l' ?i] =>
            lazymatch type of Hag with
            | agree ?pf _ _ =>
                tryif constr_eq i pf then fail else
                (let Heq := fresh "Heq" in
                 destruct (Nat.eq_dec i pf) as [Heq|Heq];
                 [first [ solve [exfalso; lia]
                        | repeat (apply eq_add_S in Heq); first [subst pf | progress subst | rewrite Heq];
                          try solve [boolcontra] ]
                 |rewrite (Hag i) by lia])
            end
          end ]
      end).

  Ltac fin l' Hag :=
    repeat match goal with |- context [cur l' ?i] => rewrite (Hag i) by lia end;
    try unfold keep; cbn [relook option_map]; reflexivity.

  (** the leaf of a success path: [E0] the run on [ts], [unf] unfolds the function in the goal *)
  Ltac slleaf E E0 unf :=
    cbn [pbind fst snd app] in E; injection E as <- <-;
    let l' := fresh "l'" in let Hag := fresh "Hag" in let Hi := fresh "Hi" in let Hi' := fresh "Hi'" in
    let Hm := fresh "Hm" in
    intros l' Hag Hi Hi' Hm; cbv beta; cbn [allmap is_map omap nomap] in Hm; try (specialize (Hm eq_refl));
    pose proof Hi as (?I1 & ?I2 & ?I3 & ?I4 & ?I5 & ?I6 & ?I7 & ?I8 & ?I9 & ?I10);
    pose proof Hi' as (?J1 & ?J2 & ?J3 & ?J4 & ?J5 & ?J6 & ?J7 & ?J8 & ?J9 & ?J10);
    try solve [boolcontra];
    unf; cbv zeta; rp l' Hag; fin l' Hag.

  Ltac sl_auto uE uG :=
    let a := fresh "a" in let p := fresh "p" in let E0 := fresh "E0" in
    intros a p E0; pose proof E0 as E; uE; cbv zeta in E; ex E; slleaf E E0 uG.

  Hint Resolve pexpr_SP pexpression_SP pmacro_args_loop_SP pmacro_args_SP pmap_loop_SP pmap_SP pstruct_loop_SP
       pstruct_SP pquoted_SP pinclude_ips_SP pcode_lookup_SP psymbol_SP pstar_eq_SP pat_eq_SP plabel_SP
       poperand_SP popcode_SP : spdb.

  Lemma pexpr_SL f : forall pos, SL keep nomap (fun l => pexpr l f pos).
  Proof.
    induction f as [|f IH]; intro pos; [intros a p E; discriminate E|].
    sl_auto ltac:(rewrite pexpr_S in E) ltac:(rewrite pexpr_S).
  Qed.
  Hint Resolve pexpr_SL : sldb.

  Lemma pexpression_SL f pos : SL keep nomap (fun l => pexpression l f pos).
  Proof. sl_auto ltac:(unfold pexpression in E) ltac:(unfold pexpression). Qed.
  Hint Resolve pexpression_SL : sldb.

  Lemma pmap_loop_SL f : forall pos args ps, SL keep allmap (fun l => pmap_loop l f pos args ps).
  Proof.
    induction f as [|f IH]; intros pos args ps; [intros a p E; discriminate E|].
    sl_auto ltac:(cbn [pmap_loop] in E; unfold lit_eval in E) ltac:(cbn [pmap_loop]; unfold lit_eval).
  Qed.
  Hint Resolve pmap_loop_SL : sldb.
  Lemma pmap_loop_strict f pos args ps a p : pmap_loop ts f pos args ps = POk (a, p) ->
    is_ty (cur ts pos) T_IDENTIFIER = true -> pos < p.
  Proof.
    intros E Hc. destruct f as [|f]; [discriminate E|]. cbn [pmap_loop] in E. unfold lit_eval in E. cbv zeta in E.
    rewrite Hc in E. ex E; cbn [pbind fst snd] in E; injection E as <- <-; lia.
  Qed.
  Lemma pmap_SL f pos : SL relook is_map (fun l => pmap l f pos).
  Proof.
    intros a p E0; pose proof E0 as E; unfold pmap in E; cbv zeta in E; ex E.
    pose proof (pmap_loop_strict _ _ _ _ _ _ Ec Hc) as STR.
    slleaf E E0 ltac:(unfold pmap).
  Qed.
  Lemma pstruct_SL f pos : SL relook is_map (fun l => pstruct l f pos).
  Proof. sl_auto ltac:(unfold pstruct in E) ltac:(unfold pstruct). Qed.
  Lemma pquoted_SL pos : SL keep nomap (fun l => pquoted l pos).
  Proof. sl_auto ltac:(unfold pquoted in E) ltac:(unfold pquoted). Qed.
  Hint Resolve pquoted_SL : sldb.
  Lemma pinclude_ips_SL f pos : SL relook is_map (fun l => pinclude_ips l f pos).
  Proof. sl_auto ltac:(unfold pinclude_ips in E) ltac:(unfold pinclude_ips). Qed.
  Lemma pcode_lookup_SL pos : SL relook is_map (fun l => pcode_lookup l pos).
  Proof. sl_auto ltac:(unfold pcode_lookup in E) ltac:(unfold pcode_lookup). Qed.
  Lemma plabel_SL pos : SL relook is_map (fun l => plabel l pos).
  Proof. sl_auto ltac:(unfold plabel, backup in E) ltac:(unfold plabel, backup). Qed.
  Lemma psymbol_SL f pos : SL relook is_map (fun l => psymbol l f pos).
  Proof. sl_auto ltac:(unfold psymbol in E) ltac:(unfold psymbol). Qed.
  Lemma pstar_eq_SL f pos : SL relook is_map (fun l => pstar_eq l f pos).
  Proof. sl_auto ltac:(unfold pstar_eq in E) ltac:(unfold pstar_eq). Qed.
  Lemma pat_eq_SL f pos : SL relook is_map (fun l => pat_eq l f pos).
  Proof. sl_auto ltac:(unfold pat_eq in E) ltac:(unfold pat_eq). Qed.
  Hint Resolve pmap_SL pstruct_SL pinclude_ips_SL pcode_lookup_SL plabel_SL psymbol_SL pstar_eq_SL pat_eq_SL : sldb.

  Lemma poperand_SL f mode0 opc pos : SL keep nomap (fun l => poperand l f mode0 opc pos).
  Proof.
    intros a p E0; pose proof E0 as E; unfold poperand in E; cbv zeta in E; ex E.
    all: try (match goal with
              | HLP : is_ty (cur ts ?q) T_LPAREN = true, E1 : pexpression ts ?g (S ?q) = POk _,
                E2 : pexpression ts ?g ?q = POk _ |- _ =>
                  destruct (proj1 (reparse ts sub g q _ _ HLP E1) _ _ E2) as [RP RO]
              end;
              first [ exfalso; match goal with HI : is_ty ?t T_ADDRESSING_MODE_INDEX = true |- _ =>
                                 pose proof (is_ty_excl _ _ _ HI RP) as X; discriminate X end
                    | match goal with HO : is_ty _ T_OPERATOR = true |- _ => specialize (RO HO) end ]).
    all: slleaf E E0 ltac:(unfold poperand).
  Qed.
  Hint Resolve poperand_SL : sldb.

  Lemma popcode_SL f pos : SL relook is_map (fun l => popcode l f pos).
  Proof. sl_auto ltac:(unfold popcode in E) ltac:(unfold popcode). Qed.
  Hint Resolve popcode_SL : sldb.
  Lemma popcode_strict f pos a p : popcode ts f pos = POk (a, p) -> pos < p.
  Proof.
    intros E. unfold popcode in E. cbv zeta in E. ex E; cbn [pbind fst snd] in E; injection E as <- <-; lia.
  Qed.

  Section OpenSL.
    Variable PB : list token -> nat -> R (list ast).
    Variable PEL : list token -> nat -> R margs.
    Hypothesis HPB : forall p, SP true p (fun l => PB l p).
    Hypothesis HPEL : forall p, SP true p (fun l => PEL l p).
    Hypothesis LPB : forall p, SL keep nomap (fun l => PB l p).
    Hypothesis LPEL : forall p, SL keep nomap (fun l => PEL l p).
    Hypothesis PBstrict : forall q b p, PB ts q = POk (b, p) -> q < p.
    Variable f : nat.
    Hint Resolve pscope_SP pelist_SP pmacro_apply_SP pmacro_SP pif_SP pfor_SP pkeyword_SP is_ty_of_type : spdb.

    Ltac sl_auto' uE uG :=
      let a := fresh "a" in let p := fresh "p" in let E0 := fresh "E0" in
      intros a p E0; pose proof E0 as E; uE; cbv zeta in E; ex E;
      repeat match goal with
             | Ec : PB ts ?q = POk (_, ?p) |- _ =>
                 lazymatch goal with
                 | _ : q < p |- _ => fail
                 | _ => pose proof (PBstrict _ _ _ Ec)
                 end
             end;
      slleaf E E0 uG.

    Lemma pscope_SL pos : SL relook is_map (fun l => pscope l (PB l) pos).
    Proof. sl_auto' ltac:(unfold pscope in E) ltac:(unfold pscope). Qed.
    Lemma pelist_SL pos : SL keep nomap (fun l => pelist l (PEL l) pos).
    Proof. sl_auto' ltac:(unfold pelist in E) ltac:(unfold pelist). Qed.
    Hint Resolve pscope_SL pelist_SL : sldb.
    Lemma pmacro_apply_SL pos : SL relook is_map (fun l => pmacro_apply l (PEL l) pos).
    Proof. sl_auto' ltac:(unfold pmacro_apply in E) ltac:(unfold pmacro_apply). Qed.
    Lemma pmacro_SL pos : SL relook is_map (fun l => pmacro l (PB l) f pos).
    Proof. sl_auto' ltac:(unfold pmacro in E) ltac:(unfold pmacro). Qed.
    Lemma pif_SL pos : SL relook is_map (fun l => pif l (PB l) f pos).
    Proof. sl_auto' ltac:(unfold pif in E) ltac:(unfold pif). Qed.
    Lemma pfor_SL pos : SL relook is_map (fun l => pfor l (PB l) f pos).
    Proof. sl_auto' ltac:(unfold pfor in E) ltac:(unfold pfor). Qed.
    Hint Resolve pmacro_apply_SL pmacro_SL pif_SL pfor_SL : sldb.
    Lemma pkeyword_SL pos : SL relook is_map (fun l => pkeyword l sub (PB l) (PEL l) f pos).
    Proof. sl_auto' ltac:(unfold pkeyword in E) ltac:(unfold pkeyword). Qed.
    Hint Resolve pkeyword_SL : sldb.
    Lemma pkeyword_strict pos a p : pkeyword ts sub (PB ts) (PEL ts) f pos = POk (a, p) -> pos < p.
    Proof.
      intros E. unfold pkeyword in E. cbv zeta in E. ex E; cbn [pbind fst snd] in E; injection E as <- <-;
        repeat match goal with Ec : PB ts _ = POk _ |- _ => apply PBstrict in Ec end; lia.
    Qed.
    Lemma pdecl_body_SL pos : SL (fun h => option_map (relook h)) omap (fun l => pdecl_body l sub (PB l) (PEL l) f pos).
    Proof.
      intros a p E0; pose proof E0 as E; unfold pdecl_body, backup in E; cbv zeta in E; ex E;
      repeat match goal with
             | Ec : PB ts ?q = POk (_, ?p) |- _ =>
                 lazymatch goal with _ : q < p |- _ => fail | _ => pose proof (PBstrict _ _ _ Ec) end
             | Ec : popcode ts _ ?q = POk (_, ?p) |- _ =>
                 lazymatch goal with _ : q < p |- _ => fail | _ => pose proof (popcode_strict _ _ _ _ Ec) end
             | Ec : pkeyword ts sub _ _ _ ?q = POk (_, ?p) |- _ =>
                 lazymatch goal with _ : q < p |- _ => fail | _ => pose proof (pkeyword_strict _ _ _ Ec) end
             end;
      slleaf E E0 ltac:(unfold pdecl_body, backup).
    Qed.
  End OpenSL.

  Lemma pblock_strict f : forall pos acc b p, pblock ts sub f pos acc = POk (b, p) -> pos < p.
  Proof.
    induction f as [|f IH]; intros pos acc b p E; [discriminate E|]. rewrite pblock_S in E. cbv zeta in E.
    destruct (knot_SP ts sub f) as (K1 & _).
    destruct (_ || _).
    - unfold expect in E. destruct (is_ty _ _); [|discriminate]. injection E as <- <-. lia.
    - destruct (K1 pos) as [Kok _]. cbv beta in Kok.
      destruct (pdecl ts sub f pos) as [[d q]| | |] eqn:Ed; cbn [pbind fst snd] in E; try discriminate.
      destruct (Kok _ _ eq_refl) as [Hq _]. apply IH in E. lia.
  Qed.

  Lemma knot_SL fuel :
    (forall pos, SL (fun h => option_map (relook h)) omap (fun l => pdecl l sub fuel pos)) /\
    (forall pos acc, SL keep nomap (fun l => pblock l sub fuel pos acc)) /\
    (forall pos acc, SL keep nomap (fun l => pel l sub fuel pos acc)).
  Proof.
    induction fuel as [|f (IH1 & IH2 & IH3)].
    { repeat split; intros; intros a p E; discriminate E. }
    destruct (knot_SP ts sub f) as (K1 & K2 & K3).
    split; [|split].
    - intros pos.
      apply (pdecl_body_SL (fun l p => pblock l sub f p []) (fun l p => pel l sub f p [])
                           (fun p => K2 p []) (fun p => K3 p []) (fun p => IH2 p []) (fun p => IH3 p [])
                           (fun q b p => pblock_strict f q [] b p) f pos).
    - intros pos acc.
      intros a p E0; pose proof E0 as E; rewrite pblock_S in E; cbv zeta in E; ex E;
        repeat match goal with
               | Ec : pblock ts sub f ?q ?ac = POk (_, ?p) |- _ =>
                   lazymatch goal with
                   | _ : q < p |- _ => fail
                   | _ => pose proof (pblock_strict f q ac _ _ Ec)
                   end
               end;
        slleaf E E0 ltac:(rewrite pblock_S).
    - intros pos acc.
      intros a p E0; pose proof E0 as E; rewrite pel_S in E; cbv zeta in E; ex E;
        repeat match goal with
               | Ec : pblock ts sub f ?q ?ac = POk (_, ?p) |- _ =>
                   lazymatch goal with
                   | _ : q < p |- _ => fail
                   | _ => pose proof (pblock_strict f q ac _ _ Ec)
                   end
               end;
        slleaf E E0 ltac:(rewrite pel_S).
  Qed.
End Look.
