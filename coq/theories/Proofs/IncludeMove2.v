(** C16 (.include, source level), part 2 — the top-level statement loop, segment by segment.
    [reach l sub pos acc pos' acc']: parse_initial, started on the token list [l] at [pos] with the
    statements [acc], comes to [pos'] with [acc'] after some complete statements.
    - A segment that parses on its own (followed by its EOF token) is parsed the same way inside a
      longer list, where it is followed by an inert token ([transport]: ParseFail.v for the
      statements that end before the end of the segment, IncludeMove1.v for the last one).
    - The parse of a suffix does not depend on what stands before it ([shift]). *)
From Coq Require Import Arith Lia List Bool ZArith.
From A816 Require Import Model.Parser Proofs.ParserProofs Proofs.ParseFail Proofs.IncludeMove1.
From A816 Require Proofs.ParserFuelProofs.
Open Scope nat_scope.

(** parse_initial returning also where it stopped *)
Fixpoint pinit_pos (ts : list token) (sub : str -> pres (list ast)) (fuel pos : nat) (acc : list ast)
  : pres (list ast * nat) :=
  match fuel with
  | O => PFuel
  | S f =>
      if is_ty (cur ts pos) T_EOF then POk (acc, pos)
      else dop r <- pdecl ts sub f pos; pinit_pos ts sub f (snd r) (opt_app acc (fst r))
  end.

Lemma pinitial_of_pos ts sub : forall f pos acc,
  pinitial ts sub f pos acc = (dop r <- pinit_pos ts sub f pos acc; POk (fst r)).
Proof.
  induction f as [|f IH]; intros pos acc; [reflexivity|]. cbn [pinitial pinit_pos].
  destruct (is_ty (cur ts pos) T_EOF); [reflexivity|].
  destruct (pdecl ts sub f pos) as [[d p]| | |]; cbn [pbind fst snd]; auto.
Qed.

(** the last statement, when it is a .map *)
Definition last_is_map (prog : list ast) : bool :=
  match rev prog with a :: _ => is_map a | [] => false end.
(** [prog'] is [prog] with the look-ahead token stored in its last statement replaced by [h] *)
Definition lookrel (h : token) (prog prog' : list ast) : Prop :=
  prog' = prog \/ exists pre d, prog = pre ++ [d] /\ prog' = pre ++ [relook h d].

Section Top.
  Variable sub : str -> pres (list ast).

  (** the statement parsed at [pos], for every sufficient fuel *)
  Definition stable (l : list token) (pos : nat) (d : option ast) (p : nat) : Prop :=
    exists f0, forall g, f0 <= g -> pdecl l sub g pos = POk (d, p).

  Inductive reach (l : list token) : nat -> list ast -> nat -> list ast -> Prop :=
  | reach_refl pos acc : reach l pos acc pos acc
  | reach_step pos acc d p pos' acc' :
      is_ty (cur l pos) T_EOF = false -> stable l pos d p -> reach l p (opt_app acc d) pos' acc' ->
      reach l pos acc pos' acc'.

  Lemma reach_trans l p1 a1 p2 a2 p3 a3 : reach l p1 a1 p2 a2 -> reach l p2 a2 p3 a3 -> reach l p1 a1 p3 a3.
  Proof. induction 1; intros H2; [exact H2|]. eapply reach_step; eauto. Qed.

  Lemma reach_pinitial l pos acc pos' acc' : reach l pos acc pos' acc' ->
    exists k f0, forall G, f0 <= G -> pinitial l sub (k + G) pos acc = pinitial l sub G pos' acc'.
  Proof.
    induction 1 as [pos acc|pos acc d p pos' acc' He (f1 & Hst) _ (k & f0 & IH)].
    - exists 0, 0. reflexivity.
    - exists (S k), (Nat.max f0 f1). intros G HG. cbn [Nat.add pinitial]. rewrite He.
      rewrite (Hst (k + G)) by lia. cbn [pbind fst snd]. apply IH. lia.
  Qed.

  Lemma pdecl_stable l f pos d p : pdecl l sub f pos = POk (d, p) -> stable l pos d p.
  Proof.
    intros E. exists f. intros g Hg.
    destruct (ParserFuelProofs.knot_mono l sub f g Hg) as (Hd & _). destruct (Hd pos) as [X|X]; rewrite E in X; [discriminate|].
    symmetry. exact X.
  Qed.

  Lemma pinit_pos_reach l : forall f pos acc prog n,
    pinit_pos l sub f pos acc = POk (prog, n) -> reach l pos acc n prog /\ is_ty (cur l n) T_EOF = true.
  Proof.
    induction f as [|f IH]; intros pos acc prog n E; [discriminate|]. cbn [pinit_pos] in E.
    destruct (is_ty (cur l pos) T_EOF) eqn:He.
    - injection E as <- <-. split; [constructor|exact He].
    - destruct (pdecl l sub f pos) as [[d p]| | |] eqn:Ed; cbn [pbind fst snd] in E; try discriminate.
      destruct (IH _ _ _ _ E) as [R Hn]. split; [|exact Hn].
      eapply reach_step; [exact He|eapply pdecl_stable; exact Ed|exact R].
  Qed.

  Lemma stable_le l pos d p : stable l pos d p -> pos <= p.
  Proof.
    intros (f0 & H). specialize (H f0 (le_n _)).
    destruct (knot_SP l sub f0) as (K & _). destruct (K pos) as [Kok _]. cbv beta in Kok.
    destruct (Kok _ _ H). assumption.
  Qed.

  Lemma reach_le l pos acc pos' acc' : reach l pos acc pos' acc' -> pos <= pos'.
  Proof. induction 1; [lia|]. pose proof (stable_le _ _ _ _ H0). lia. Qed.

  (** ** a segment in a context, same offsets *)
  Lemma transport S C n : agree n S C -> is_ty (cur S n) T_EOF = true -> inert (cur S n) -> inert (cur C n) ->
    forall pos acc prog, reach S pos acc n prog -> pos <= n ->
    (last_is_map prog = true -> is_ty (cur C n) T_IDENTIFIER = false) ->
    exists prog', reach C pos acc n prog' /\ (pos = n \/ lookrel (cur C n) prog prog') /\ (pos = n -> prog' = prog).
  Proof.
    intros Hag He Hi Hi'. intros pos acc prog R. remember n as m eqn:Em in R at 1.
    induction R as [pos acc|pos acc d p pos' acc' Hne Hst R IH]; intros Hle Hm.
    - subst pos. exists acc. split; [constructor|]. split; [left; reflexivity|reflexivity].
    - subst pos'. pose proof (stable_le _ _ _ _ Hst) as Hp. pose proof (reach_le _ _ _ _ _ R) as Hpn.
      assert (Hlt : pos < n).
      { destruct (Nat.eq_dec pos n) as [->|]; [rewrite He in Hne; discriminate|lia]. }
      assert (HneC : is_ty (cur C pos) T_EOF = false) by (rewrite (Hag pos Hlt); exact Hne).
      destruct (Nat.eq_dec p n) as [->|Hpn'].
      + (* the last statement of the segment: it may look at the token after it *)
        assert (R' : acc' = opt_app acc d).
        { inversion R; subst; [reflexivity|]. match goal with H : is_ty (cur S n) T_EOF = false |- _ => rewrite He in H; discriminate end. }
        subst acc'.
        assert (HstC : stable C pos (option_map (relook (cur C n)) d) n).
        { destruct Hst as (f0 & Hf). exists f0. intros g Hg.
          destruct (knot_SL S sub g) as (L1 & _).
          apply (L1 pos _ _ (Hf g Hg) C Hag Hi Hi').
          intros Hd. apply Hm. destruct d as [a|]; [|discriminate]. cbn [opt_app]. unfold last_is_map.
          rewrite rev_app_distr. cbn. exact Hd. }
        exists (opt_app acc (option_map (relook (cur C n)) d)). split.
        * eapply reach_step; [exact HneC|exact HstC|constructor].
        * split; [|lia]. right. destruct d as [a|]; cbn [opt_app option_map]; [|left; reflexivity].
          right. exists acc, a. auto.
      + assert (Hlt' : p < n) by lia.
        assert (HstC : stable C pos d p).
        { destruct Hst as (f0 & Hf). exists f0. intros g Hg.
          destruct (knot_SP S sub g) as (K & _). destruct (K pos) as [Kok _]. cbv beta in Kok.
          destruct (Kok _ _ (Hf g Hg)) as [_ D]. rewrite (D C); [apply Hf; exact Hg|].
          eapply agree_mono; [exact Hag|lia]. }
        destruct (IH eq_refl Hpn Hm) as (prog' & R' & HL & _).
        exists prog'. split; [eapply reach_step; eauto|]. split; [|lia].
        destruct HL as [->|HL]; [lia|right; exact HL].
  Qed.
End Top.

(* ------------------------------------------------------------------------------------------ *)
(** * Shift: the parse of a suffix does not depend on what stands before it *)
From A816 Require Proofs.LocationTextParse Proofs.IncludeLoc Proofs.RoundTripParse.

Module LP := LocationTextParse.

Lemma enrel_eq e e' : LP.enrel eq e e' -> e' = e.
Proof. destruct e, e'. intros [H1 H2]. cbn in *. subst. reflexivity. Qed.
Lemma erel_eq e e' : LP.erel eq e e' -> e' = e.
Proof. induction 1 as [|x y l l' Hxy _ IH]; [reflexivity|]. rewrite (enrel_eq _ _ Hxy), IH. reflexivity. Qed.
Lemma oerel_eq o o' : LP.oerel eq o o' -> o' = o.
Proof. destruct o, o'; cbn; intros H; try contradiction; [rewrite (erel_eq _ _ H)|]; reflexivity. Qed.
Lemma erels_eq es es' : Forall2 (LP.erel eq) es es' -> es' = es.
Proof. induction 1 as [|x y l l' Hxy _ IH]; [reflexivity|]. rewrite (erel_eq _ _ Hxy), IH. reflexivity. Qed.

Lemma asrel_eq_of b : Forall (fun a => forall a', LP.arel eq a a' -> a' = a) b ->
  forall b', Forall2 (LP.arel eq) b b' -> b' = b.
Proof.
  induction 1 as [|x l Hx _ IH]; intros b' H2; inversion H2; subst; [reflexivity|].
  f_equal; [apply Hx; assumption|apply IH; assumption].
Qed.

Lemma arel_eq : forall a a', LP.arel eq a a' -> a' = a.
Proof.
  apply (RoundTripParse.ast_ind' (fun a => forall a', LP.arel eq a a' -> a' = a)); intros;
    match goal with H : LP.arel eq _ _ |- _ => inversion H; subst; clear H end;
    repeat match goal with
           | H : LP.erel eq _ _ |- _ => apply erel_eq in H; subst
           | H : LP.oerel eq _ _ |- _ => apply oerel_eq in H; subst
           | H : Forall2 (LP.erel eq) _ _ |- _ => apply erels_eq in H; subst
           | HF : Forall _ ?b, H : Forall2 (LP.arel eq) ?b _ |- _ => apply (asrel_eq_of _ HF) in H; subst
           end; try reflexivity.
  - (* AIf with else *) cbn [RoundTripParse.Pel] in *.
    match goal with HF : Forall _ ?b, H : Forall2 (LP.arel eq) ?b _ |- _ => apply (asrel_eq_of _ HF) in H; subst end.
    reflexivity.
  - (* AMacroApply *)
    f_equal.
    match goal with HF : Forall _ ?l, H : Forall2 (LP.mrel eq) ?l ?l' |- _ =>
      revert HF; induction H as [|x y r r' Hxy _ IH]; intros HF; [reflexivity|]; inversion HF; subst;
      f_equal; [|apply IH; assumption] end.
    inversion Hxy; subst.
    + match goal with H : LP.erel eq _ _ |- _ => apply erel_eq in H; subst end. reflexivity.
    + match goal with HP : RoundTripParse.Pm _ (inr (?b, _)), H : Forall2 (LP.arel eq) ?b _ |- _ =>
        cbn [RoundTripParse.Pm] in HP; apply (asrel_eq_of _ HP) in H; subst end. reflexivity.
Qed.

Lemma asrel_eq b b' : LP.asrel eq b b' -> b' = b.
Proof. apply asrel_eq_of. apply Forall_forall. intros a _. apply arel_eq. Qed.

Lemma cur_skipn (l : list token) d q : cur (skipn d l) q = cur l (d + q).
Proof.
  unfold cur. revert l. induction d as [|d IH]; intros l; [reflexivity|].
  destruct l as [|x r]; cbn [skipn Nat.add nth]; [destruct q; reflexivity|apply IH].
Qed.

(** a result, [d] tokens further *)
Definition shiftR {A} (d : nat) (r : R A) : R A :=
  match r with POk (a, p) => POk (a, d + p) | PErr k t => PErr k t | PUnrep t => PUnrep t | PFuel => PFuel end.

Section Shift.
  Variable inc : str -> res (list token).
  Variable i : nat.
  Notation sub := (inc_sub i inc).

  Lemma sub_self name : LP.prel eq (LP.asrel eq) (sub name) (sub name).
  Proof.
    unfold inc_sub. destruct i as [|j]; [cbn; auto|].
    destruct (inc name) as [toks|k|]; [|cbn; auto|exact I].
    apply (IncludeLoc.parse_file_related eq); try congruence.
    - intros name' toks' _. clear. induction toks'; constructor; auto.
    - clear. induction toks; constructor; auto.
  Qed.

  Lemma pdecl_shift C d f pos : pdecl C sub f (d + pos) = shiftR d (pdecl (skipn d C) sub f pos).
  Proof.
    destruct (LP.knot_rel eq ltac:(congruence) ltac:(congruence) (skipn d C) C d (cur_skipn C d) sub sub sub_self f) as (H & _).
    specialize (H pos).
    destruct (pdecl (skipn d C) sub f pos) as [[a p]|k t|t|], (pdecl C sub f (d + pos)) as [[a' p']|k' t'|t'|];
      cbn [LP.prel] in H; try contradiction; cbn [shiftR].
    - destruct H as [Ha Hp]. cbn [fst snd] in *. subst p'. f_equal. f_equal.
      destruct a, a'; cbn [LP.oarel] in Ha; try contradiction; [rewrite (arel_eq _ _ Ha)|]; reflexivity.
    - destruct H as [-> Ht]. destruct t, t'; cbn [LP.oT] in Ht; try contradiction; subst; reflexivity.
    - destruct t, t'; cbn [LP.oT] in H; try contradiction; subst; reflexivity.
    - reflexivity.
  Qed.

  Lemma pinitial_shift0 C d f pos : pinitial C sub f (d + pos) [] = pinitial (skipn d C) sub f pos [].
  Proof.
    pose proof (LP.pinitial_rel eq ltac:(congruence) ltac:(congruence) (skipn d C) C d (cur_skipn C d) sub sub sub_self
                  f pos [] [] (Forall2_nil _)) as H.
    destruct (pinitial (skipn d C) sub f pos []) as [a|k t|t|], (pinitial C sub f (d + pos) []) as [a'|k' t'|t'|];
      cbn [LP.prel] in H; try contradiction.
    - rewrite (asrel_eq _ _ H). reflexivity.
    - destruct H as [-> Ht]. destruct t, t'; cbn [LP.oT] in Ht; try contradiction; subst; reflexivity.
    - destruct t, t'; cbn [LP.oT] in H; try contradiction; subst; reflexivity.
    - reflexivity.
  Qed.
End Shift.

Lemma opt_app_app (acc x : list ast) o : opt_app (acc ++ x) o = acc ++ opt_app x o.
Proof. destruct o; cbn [opt_app]; [rewrite app_assoc|]; reflexivity. Qed.

Lemma pinitial_acc l sub : forall f pos acc,
  pinitial l sub f pos acc = (dop r <- pinitial l sub f pos []; POk (acc ++ r)).
Proof.
  induction f as [|f IH]; intros pos acc; [reflexivity|]. cbn [pinitial].
  destruct (is_ty (cur l pos) T_EOF); [cbn [pbind]; rewrite app_nil_r; reflexivity|].
  destruct (pdecl l sub f pos) as [[d p]| | |]; cbn [pbind fst snd]; try reflexivity.
  rewrite (IH p (opt_app acc d)), (IH p (opt_app [] d)).
  destruct (pinitial l sub f p []) as [r| | |]; cbn [pbind]; try reflexivity.
  rewrite <- (app_nil_r acc) at 1. rewrite opt_app_app, <- app_assoc. reflexivity.
Qed.

Lemma pinitial_shift inc i C d f pos acc :
  pinitial C (inc_sub i inc) f (d + pos) acc = pinitial (skipn d C) (inc_sub i inc) f pos acc.
Proof. rewrite (pinitial_acc C), (pinitial_acc (skipn d C)), pinitial_shift0. reflexivity. Qed.

(* ------------------------------------------------------------------------------------------ *)
(** * More include depth never turns a successful parse into something else *)
Definition sle {A} (r r' : pres A) : Prop := forall a, r = POk a -> r' = POk a.
Lemma sle_refl {A} (r : pres A) : sle r r.
Proof. intros a H; exact H. Qed.
Lemma sle_bind {A B} (r r' : pres A) (k k' : A -> pres B) :
  sle r r' -> (forall a, sle (k a) (k' a)) -> sle (pbind r k) (pbind r' k').
Proof.
  intros H Hk b E. destruct r as [a| | |]; cbn [pbind] in E; try discriminate.
  rewrite (H a eq_refl). cbn [pbind]. apply Hk. exact E.
Qed.
Lemma sle_expect {A} t ty (k k' : pres A) : sle k k' -> sle (expect t ty k) (expect t ty k').
Proof. intros H. unfold expect. destruct (is_ty t ty); [exact H|apply sle_refl]. Qed.

Create HintDb smono.
Ltac sstep :=
  match goal with
  | |- sle ?x ?x => apply sle_refl
  | |- sle (pbind _ _) (pbind _ _) => apply sle_bind; [|intros ?]
  | |- sle (expect ?t ?ty _) (expect ?t ?ty _) => apply sle_expect
  | |- sle (backup (S _) _) _ => cbn [backup]
  | |- sle (if ?c then _ else _) (if ?c then _ else _) => destruct c
  | |- sle (match ?x with _ => _ end) (match ?x with _ => _ end) => destruct x
  | |- sle _ _ => solve [eauto 3 with smono]
  end.
Ltac sgo := cbv zeta; repeat sstep.

Section SubMono.
  Variable ts : list token.
  Variables sub sub' : str -> pres (list ast).
  Hypothesis Hsub : forall name, sle (sub name) (sub' name).
  Hint Resolve Hsub : smono.

  Section OpenM.
    Variables PB PB' : nat -> R (list ast).
    Variables PEL PEL' : nat -> R margs.
    Hypothesis HPB : forall q, sle (PB q) (PB' q).
    Hypothesis HPEL : forall q, sle (PEL q) (PEL' q).
    Variable f : nat.
    Hint Resolve HPB HPEL : smono.
    Lemma pscope_sle q : sle (pscope ts PB q) (pscope ts PB' q).
    Proof. unfold pscope. sgo. Qed.
    Lemma pelist_sle q : sle (pelist ts PEL q) (pelist ts PEL' q).
    Proof. unfold pelist. sgo. Qed.
    Hint Resolve pscope_sle pelist_sle : smono.
    Lemma pmacro_apply_sle q : sle (pmacro_apply ts PEL q) (pmacro_apply ts PEL' q).
    Proof. unfold pmacro_apply. sgo. Qed.
    Lemma pmacro_sle q : sle (pmacro ts PB f q) (pmacro ts PB' f q).
    Proof. unfold pmacro. sgo. Qed.
    Lemma pif_sle q : sle (pif ts PB f q) (pif ts PB' f q).
    Proof. unfold pif. sgo. Qed.
    Lemma pfor_sle q : sle (pfor ts PB f q) (pfor ts PB' f q).
    Proof. unfold pfor. sgo. Qed.
    Hint Resolve pmacro_apply_sle pmacro_sle pif_sle pfor_sle : smono.
    Lemma pkeyword_sle q : sle (pkeyword ts sub PB PEL f q) (pkeyword ts sub' PB' PEL' f q).
    Proof. unfold pkeyword. sgo. Qed.
    Hint Resolve pkeyword_sle : smono.
    Lemma pdecl_body_sle q : sle (pdecl_body ts sub PB PEL f q) (pdecl_body ts sub' PB' PEL' f q).
    Proof. unfold pdecl_body. sgo. Qed.
  End OpenM.

  Lemma knot_sle f :
    (forall pos, sle (pdecl ts sub f pos) (pdecl ts sub' f pos)) /\
    (forall pos acc, sle (pblock ts sub f pos acc) (pblock ts sub' f pos acc)) /\
    (forall pos acc, sle (pel ts sub f pos acc) (pel ts sub' f pos acc)).
  Proof.
    induction f as [|f (IHd & IHb & IHe)]; [repeat split; intros; apply sle_refl|].
    repeat apply conj.
    - intro pos. rewrite !pdecl_S. apply pdecl_body_sle; intro; [apply IHb|apply IHe].
    - intros pos acc. rewrite !pblock_S. sgo; auto.
    - intros pos acc. rewrite !pel_S. sgo; auto.
  Qed.

  Lemma pinitial_sle : forall f pos acc, sle (pinitial ts sub f pos acc) (pinitial ts sub' f pos acc).
  Proof.
    induction f as [|f IH]; intros pos acc; [apply sle_refl|]. cbn [pinitial].
    destruct (is_ty (cur ts pos) T_EOF); [apply sle_refl|].
    apply sle_bind; [apply (proj1 (knot_sle f))|]. intros r. apply IH.
  Qed.
  Lemma pinit_pos_sle : forall f pos acc, sle (pinit_pos ts sub f pos acc) (pinit_pos ts sub' f pos acc).
  Proof.
    induction f as [|f IH]; intros pos acc; [apply sle_refl|]. cbn [pinit_pos].
    destruct (is_ty (cur ts pos) T_EOF); [apply sle_refl|].
    apply sle_bind; [apply (proj1 (knot_sle f))|]. intros r. apply IH.
  Qed.
End SubMono.

Lemma inc_sub_sle inc : forall i name, sle (inc_sub i inc name) (inc_sub (S i) inc name).
Proof.
  induction i as [|i IH]; intros name; [intros a H; discriminate H|].
  unfold inc_sub at 1 2. destruct (inc name) as [toks|k|]; [|apply sle_refl|apply sle_refl].
  rewrite !parse_file_sub. apply pinitial_sle. exact IH.
Qed.

(** ** reach under a shift and under more include depth *)
Lemma reach_shift inc i C d pos acc pos' acc' :
  reach (inc_sub i inc) (skipn d C) pos acc pos' acc' -> reach (inc_sub i inc) C (d + pos) acc (d + pos') acc'.
Proof.
  induction 1 as [pos acc|pos acc dd p pos' acc' He (f0 & Hst) _ IH]; [constructor|].
  eapply reach_step; [rewrite <- cur_skipn; exact He| |exact IH].
  exists f0. intros g Hg. rewrite pdecl_shift, (Hst g Hg). reflexivity.
Qed.

Lemma reach_sle l sub sub' : (forall name, sle (sub name) (sub' name)) ->
  forall pos acc pos' acc', reach sub l pos acc pos' acc' -> reach sub' l pos acc pos' acc'.
Proof.
  intros Hs pos acc pos' acc'. induction 1 as [pos acc|pos acc dd p pos' acc' He (f0 & Hst) _ IH]; [constructor|].
  eapply reach_step; [exact He| |exact IH].
  exists f0. intros g Hg. apply (proj1 (knot_sle l sub sub' Hs g) pos). apply Hst. exact Hg.
Qed.

Lemma reach_acc sub l pos acc pos' acc' : reach sub l pos acc pos' acc' ->
  forall x, reach sub l pos (x ++ acc) pos' (x ++ acc').
Proof.
  induction 1 as [pos acc|pos acc dd p pos' acc' He Hst _ IH]; intros x; [constructor|].
  eapply reach_step; [exact He|exact Hst|]. rewrite opt_app_app. apply IH.
Qed.

(** the .include statement *)
Lemma include_decl l sub pos p pr :
  t_type (cur l pos) = T_KEYWORD -> t_value (cur l pos) = k_include ->
  is_ty (cur l (S pos)) T_QUOTED_STRING = true -> strip_quotes (t_value (cur l (S pos))) = p ->
  sub p = POk pr ->
  stable sub l pos (Some (ABlock pr (cur l pos))) (S (S pos)).
Proof.
  intros Kt Kv Qt Qv Hs. exists 2. intros g Hg. destruct g as [|[|g]]; try lia.
  rewrite pdecl_S. unfold pdecl_body. rewrite Kt. cbn [backup]. unfold pkeyword. cbv zeta. rewrite Kv.
  change (str_eqb k_include k_scope) with false. change (str_eqb k_include k_ascii) with false.
  change (str_eqb k_include k_text) with false. change (dkind_of k_include) with (@None dkind).
  change (str_eqb k_include k_include) with true. cbv iota.
  unfold pquoted, expect. rewrite Qt. cbn [pbind fst snd]. rewrite Qv, Hs. reflexivity.
Qed.

Lemma agree_app (Ta X Y : list token) : agree (length Ta) (Ta ++ X) (Ta ++ Y).
Proof. intros i Hi. unfold cur. rewrite !app_nth1 by assumption. reflexivity. Qed.
Lemma cur_app_r (Ta X : list token) q : cur (Ta ++ X) (length Ta + q) = cur X q.
Proof. unfold cur. rewrite app_nth2 by lia. f_equal. lia. Qed.
Lemma cur_app_len (Ta X : list token) : cur (Ta ++ X) (length Ta) = cur X 0.
Proof. rewrite <- (Nat.add_0_r (length Ta)) at 1. apply cur_app_r. Qed.
Lemma skipn_app_len {A} (a b : list A) : skipn (length a) (a ++ b) = b.
Proof. induction a; cbn; auto. Qed.

Lemma inert_keyword t : t_type t = T_KEYWORD -> t_value t = k_include -> inert t.
Proof. intros Ht Hv. unfold inert, is_ty. rewrite Ht, Hv. repeat split. Qed.

(* ------------------------------------------------------------------------------------------ *)
(** * The two parses *)
Section Core.
  Variable inc : str -> res (list token).
  Hypothesis Hnf : forall name, inc name <> OutOfFuel.
  Variable j : nat.
  Notation sub := (inc_sub (S j) inc).
  Notation subj := (inc_sub j inc).
  Variables Ta Tr Sb : list token.
  Variables ea ep kw q : token.
  Variable p : str.
  Variables pa pr : list ast.
  Notation L1 := (Ta ++ kw :: q :: Sb).
  Notation L2 := (Ta ++ Tr ++ Sb).
  Notation r0 := (cur (Tr ++ Sb) 0).
  Notation h := (cur Sb 0).

  Hypothesis HA : exists F, pinit_pos (Ta ++ [ea]) sub F 0 [] = POk (pa, length Ta).
  Hypothesis HR : exists F, pinit_pos (Tr ++ [ep]) subj F 0 [] = POk (pr, length Tr).
  Hypothesis Iea : inert ea.
  Hypothesis Iep : inert ep.
  Hypothesis Kt : t_type kw = T_KEYWORD.
  Hypothesis Kv : t_value kw = k_include.
  Hypothesis Qt : is_ty q T_QUOTED_STRING = true.
  Hypothesis Qv : strip_quotes (t_value q) = p.
  Hypothesis Hinc : inc p = Ok (Tr ++ [ep]).
  Hypothesis Ir0 : inert r0.
  Hypothesis Ih : inert h.
  Hypothesis Mr0 : last_is_map pa = true -> is_ty r0 T_IDENTIFIER = false.
  Hypothesis Mh : last_is_map pr = true -> is_ty h T_IDENTIFIER = false.

  Lemma sub_p : sub p = POk pr.
  Proof.
    destruct HR as (F & HF). unfold inc_sub. rewrite Hinc. fold (inc_sub j inc).
    set (Rp := Tr ++ [ep]) in *.
    assert (E : pinitial Rp subj F 0 [] = POk pr) by (rewrite pinitial_of_pos, HF; reflexivity).
    set (F' := Nat.max F (parse_fuel (length Rp))).
    assert (E' : pinitial Rp subj F' 0 [] = POk pr).
    { destruct (ParserFuelProofs.pinitial_mono Rp subj F F' 0 [] ltac:(unfold F'; lia)) as [X|X]; rewrite E in X; [discriminate|].
      symmetry. exact X. }
    pose proof (ParserFuelProofs.parse_fuel_irrelevant inc Rp j F' Hnf ltac:(unfold F'; lia)) as IR.
    unfold parse_program in IR. rewrite <- IR, parse_file_sub. exact E'.
  Qed.

  Lemma cur_A_end : cur (Ta ++ [ea]) (length Ta) = ea.
  Proof. rewrite cur_app_len. reflexivity. Qed.
  Lemma cur_R_end : cur (Tr ++ [ep]) (length Tr) = ep.
  Proof. rewrite cur_app_len. reflexivity. Qed.

  Theorem two_parses :
    exists pa1 pa2 pr2 k1 k2 f0,
      lookrel kw pa pa1 /\ lookrel r0 pa pa2 /\ lookrel h pr pr2 /\
      forall G, f0 <= G ->
        pinitial L1 sub (k1 + G) 0 [] = pinitial Sb sub G 0 (pa1 ++ [ABlock pr kw]) /\
        pinitial L2 sub (k2 + G) 0 [] = pinitial Sb sub G 0 (pa2 ++ pr2).
  Proof.
    destruct HA as (FA & HFA). destruct HR as (FR & HFR).
    destruct (pinit_pos_reach sub _ _ _ _ _ _ HFA) as [RA EA]. rewrite cur_A_end in EA.
    destruct (pinit_pos_reach subj _ _ _ _ _ _ HFR) as [RR ER]. rewrite cur_R_end in ER.
    apply (reach_sle _ subj sub (inc_sub_sle inc j)) in RR.
    assert (Ikw : inert kw) by (apply inert_keyword; assumption).
    (* the included program *)
    assert (C1 : cur L1 (length Ta) = kw) by (rewrite cur_app_len; reflexivity).
    assert (C1' : cur L1 (S (length Ta)) = q).
    { replace (S (length Ta)) with (length Ta + 1) by lia. rewrite cur_app_r. reflexivity. }
    destruct (transport sub (Ta ++ [ea]) L1 (length Ta) (agree_app Ta _ _)) with (pos := 0) (acc := @nil ast) (prog := pa)
      as (pa1 & R1 & L1r & Z1); try (rewrite ?cur_A_end, ?C1; assumption); [lia| |].
    { intros _. rewrite C1. unfold is_ty. rewrite Kt. reflexivity. }
    assert (LK1 : lookrel kw pa pa1).
    { destruct L1r as [E0|X]; [left; apply Z1; exact E0|rewrite C1 in X; exact X]. }
    assert (ST : stable sub L1 (length Ta) (Some (ABlock pr kw)) (S (S (length Ta)))).
    { pose proof (include_decl L1 sub (length Ta) p pr) as X. rewrite C1, C1' in X. apply X; auto. apply sub_p. }
    assert (R1' : reach sub L1 0 [] (S (S (length Ta))) (pa1 ++ [ABlock pr kw])).
    { eapply reach_trans; [exact R1|]. eapply reach_step; [rewrite C1; unfold is_ty; rewrite Kt; reflexivity|exact ST|constructor]. }
    destruct (reach_pinitial sub _ _ _ _ _ R1') as (k1 & f1 & P1).
    (* the program with the run in place *)
    assert (C2 : cur L2 (length Ta) = r0) by (rewrite cur_app_len; reflexivity).
    destruct (transport sub (Ta ++ [ea]) L2 (length Ta) (agree_app Ta _ _)) with (pos := 0) (acc := @nil ast) (prog := pa)
      as (pa2 & R2 & L2r & Z2); try (rewrite ?cur_A_end, ?C2; assumption); [lia|].
    assert (LK2 : lookrel r0 pa pa2).
    { destruct L2r as [E0|X]; [left; apply Z2; exact E0|rewrite C2 in X; exact X]. }
    assert (C3 : cur (Tr ++ Sb) (length Tr) = h) by (rewrite cur_app_len; reflexivity).
    destruct (transport sub (Tr ++ [ep]) (Tr ++ Sb) (length Tr) (agree_app Tr _ _)) with (pos := 0) (acc := @nil ast) (prog := pr)
      as (pr2 & R3 & L3r & Z3); try (rewrite ?cur_R_end, ?C3; assumption); [lia|].
    assert (LK3 : lookrel h pr pr2).
    { destruct L3r as [E0|X]; [left; apply Z3; exact E0|rewrite C3 in X; exact X]. }
    assert (R3' : reach sub L2 (length Ta) pa2 (length Ta + length Tr) (pa2 ++ pr2)).
    { pose proof (reach_acc sub _ _ _ _ _ R3 pa2) as X. rewrite app_nil_r in X.
      pose proof (reach_shift inc (S j) L2 (length Ta) 0 pa2 (length Tr) (pa2 ++ pr2)) as Y.
      rewrite skipn_app_len, Nat.add_0_r in Y. apply Y. exact X. }
    destruct (reach_pinitial sub _ _ _ _ _ (reach_trans sub _ _ _ _ _ _ _ R2 R3')) as (k2 & f2 & P2).
    exists pa1, pa2, pr2, k1, k2, (Nat.max f1 f2). repeat split; auto.
    - rewrite P1 by lia.
      pose proof (pinitial_shift inc (S j) L1 (S (S (length Ta))) G 0 (pa1 ++ [ABlock pr kw])) as X.
      rewrite Nat.add_0_r in X. rewrite X. f_equal.
      change (kw :: q :: Sb) with ([kw; q] ++ Sb). rewrite app_assoc.
      replace (S (S (length Ta))) with (length (Ta ++ [kw; q])) by (rewrite app_length; cbn; lia).
      apply skipn_app_len.
    - rewrite P2 by lia.
      pose proof (pinitial_shift inc (S j) L2 (length Ta + length Tr) G 0 (pa2 ++ pr2)) as X.
      rewrite Nat.add_0_r in X. rewrite X. f_equal.
      rewrite app_assoc, <- app_length. apply skipn_app_len.
  Qed.
End Core.
