(** C16 (.include, source level), part 3 — the scanner does not look at the file name: the tokens of
    a text scanned under another name are the same tokens with that name in their positions. *)
From A816 Require Import Model.Scanner Proofs.ScannerSpec Proofs.ScannerFuel.
From Coq Require Import Arith Lia.
Open Scope nat_scope.

Definition refile (f : str) (t : token) : token :=
  {| t_type := t_type t; t_value := t_value t;
     t_pos := option_map (fun p => {| tp_line := tp_line p; tp_col := tp_col p; tp_file := f |}) (t_pos t) |}.

Definition refile_result (f : str) (r : scan_result) : scan_result :=
  match r with
  | ScanOk toks lines => ScanOk (map (refile f) toks) lines
  | ScanErr e => ScanErr (mk_scan_error (se_msg e) (se_line e) (se_col e) (se_quoted e) (se_lines e)
                                         (map (refile f) (se_toks e)))
  | ScanStuck => ScanStuck
  | ScanOutOfFuel => ScanOutOfFuel
  end.

Section Refile.
  Variable f' : str.

  Definition rf (t : sc) : sc :=
    mk_sc (inp t) (pos t) (start t) (loff t) (cline t) (lines_rev t) (map (refile f') (toks_rev t)) f'.

  Lemma rf_set_pos t p : set_pos (rf t) p = rf (set_pos t p). Proof. reflexivity. Qed.
  Lemma rf_ignore t : ignore (rf t) = rf (ignore t). Proof. reflexivity. Qed.
  Lemma rf_pos t : pos (rf t) = pos t. Proof. reflexivity. Qed.
  Lemma rf_handle_line t : handle_line (rf t) = rf (handle_line t).
  Proof. unfold handle_line. cbn [rf loff pos]. destruct (loff t <=? pos t); reflexivity. Qed.
  Lemma rf_next t : next (rf t) = (fst (next t), rf (snd (next t))).
  Proof.
    unfold next. cbn [rf inp pos]. destruct (nth_error (inp t) (pos t)) as [c|]; [|reflexivity]. cbn [fst snd].
    f_equal. fold (rf t). destruct (Z.eqb c 10); [rewrite rf_handle_line|]; reflexivity.
  Qed.
  Lemma rf_peek_k t j : peek_k (rf t) j = peek_k t j. Proof. reflexivity. Qed.
  Lemma rf_peek t : peek (rf t) = peek t. Proof. reflexivity. Qed.
  Lemma rf_accept t c neg : accept (rf t) c neg = (fst (accept t c neg), rf (snd (accept t c neg))).
  Proof. unfold accept. rewrite rf_peek. destruct (xorb _ _); cbn [fst snd]; [rewrite rf_next|]; reflexivity. Qed.
  Lemma rf_accept_prefix t p : accept_prefix (rf t) p = (fst (accept_prefix t p), rf (snd (accept_prefix t p))).
  Proof. unfold accept_prefix. cbn [rf inp pos]. destruct (str_eqb _ _); reflexivity. Qed.
  Lemma rf_get_position t : get_position (rf t) = get_position t. Proof. reflexivity. Qed.
  Lemma rf_current_token_text t : current_token_text (rf t) = current_token_text t. Proof. reflexivity. Qed.
  Lemma rf_cand t : slice (inp (rf t)) (start (rf t)) (pos (rf t)) = slice (inp t) (start t) (pos t). Proof. reflexivity. Qed.
  Lemma rf_cand3 t : slice (inp (rf t)) (start (rf t)) (pos (rf t) + 3) = slice (inp t) (start t) (pos t + 3). Proof. reflexivity. Qed.
  Lemma rf_rest t : skipn (start (rf t)) (inp (rf t)) = skipn (start t) (inp t). Proof. reflexivity. Qed.
  Lemma rf_not_at_end t : (pos (rf t) <? length (inp (rf t))) = (pos t <? length (inp t)). Proof. reflexivity. Qed.
  Lemma rf_get_token t ty : get_token (rf t) ty = refile f' (get_token t ty). Proof. reflexivity. Qed.
  Lemma rf_emit t ty : emit (rf t) ty = rf (emit t ty). Proof. reflexivity. Qed.
  Lemma rf_accept_opcode lx t : accept_opcode lx (rf t) = (fst (accept_opcode lx t), rf (snd (accept_opcode lx t))).
  Proof. unfold accept_opcode. rewrite rf_cand3, rf_peek_k. destruct (_ && _); reflexivity. Qed.
  Lemma rf_or_prefix r p :
    accept_or (fst r, rf (snd r)) (fun s => accept_prefix s p) =
    (fst (accept_or r (fun s => accept_prefix s p)), rf (snd (accept_or r (fun s => accept_prefix s p)))).
  Proof. unfold accept_or. destruct r as [b y]. cbn [fst snd]. destruct b; [reflexivity|apply rf_accept_prefix]. Qed.

  Definition lsim (r r' : lres sc) : Prop :=
    match r with
    | LOk a => r' = LOk (rf a)
    | LRaise m l c a => r' = LRaise m l c (rf a)
    | LStuck => r' = LStuck
    | LOutOfFuel => r' = LOutOfFuel
    end.
  Lemma lsim_bind r r' (h h' : sc -> lres sc) :
    lsim r r' -> (forall a, lsim (h a) (h' (rf a))) -> lsim (lbind r h) (lbind r' h').
  Proof. destruct r as [a|m l c a| |]; cbn [lsim lbind]; intros -> H2; cbn [lbind]; auto. Qed.
  Lemma lsim_ok a : lsim (LOk a) (LOk (rf a)). Proof. reflexivity. Qed.
  Lemma lsim_raise m x a : lsim (raise m (get_position x) a) (raise m (get_position (rf x)) (rf a)).
  Proof. reflexivity. Qed.
  Lemma rf_backup t : lsim (backup t) (backup (rf t)).
  Proof. unfold backup. rewrite rf_pos. destruct (pos t); reflexivity. Qed.
  Lemma rf_accept_run c neg : forall F t, lsim (accept_run F t c neg) (accept_run F (rf t) c neg).
  Proof.
    induction F as [|F IH]; intros t; cbn [accept_run]; [reflexivity|].
    rewrite rf_accept. destruct (accept t c neg) as [b x]. cbn [fst snd]. destruct b; [apply IH|reflexivity].
  Qed.
  Lemma rf_ignore_run c F t : lsim (ignore_run F t c) (ignore_run F (rf t) c).
  Proof. unfold ignore_run. apply lsim_bind; [apply rf_accept_run|]. intros a. reflexivity. Qed.

  Create HintDb rfdb.
  Hint Resolve lsim_ok lsim_raise rf_backup rf_accept_run rf_ignore_run : rfdb.

  Ltac rf_simpl :=
    repeat (rewrite ?rf_or_prefix, ?rf_peek, ?rf_peek_k, ?rf_next, ?rf_accept, ?rf_accept_prefix, ?rf_emit, ?rf_ignore,
                    ?rf_current_token_text, ?rf_cand, ?rf_cand3, ?rf_rest, ?rf_not_at_end, ?rf_accept_opcode;
            cbn [fst snd]).
  Ltac rf_step :=
    rf_simpl;
    match goal with
    | |- lsim (lbind _ _) (lbind _ _) => apply lsim_bind; [|intros ?]
    | |- lsim (LOk _) _ => cbn [lsim]; reflexivity
    | |- lsim (raise _ _ _) _ => apply lsim_raise
    | |- lsim (match ?x with _ => _ end) _ => destruct x
    | |- lsim _ _ => solve [eauto with rfdb]
    | |- context [if ?c then _ else _] => destruct c
    end.
  Ltac rf_auto := repeat rf_step.

  Lemma rf_line_comment_loop : forall F t, lsim (line_comment_loop F t) (line_comment_loop F (rf t)).
  Proof.
    induction F as [|F IH]; intros t; cbn [line_comment_loop]; [reflexivity|].
    rewrite rf_next. destruct (next t) as [[x|] a]; cbn [fst snd]; [|reflexivity].
    destruct (Z.eqb x 10); [reflexivity|apply IH].
  Qed.
  Lemma rf_block_comment_loop x : forall F t,
    lsim (block_comment_loop F (get_position x) t) (block_comment_loop F (get_position (rf x)) (rf t)).
  Proof.
    induction F as [|F IH]; intros t; cbn [block_comment_loop]; [reflexivity|].
    rewrite rf_accept_prefix. destruct (accept_prefix t [42%Z; 47%Z]) as [b a]. cbn [fst snd].
    destruct b; [reflexivity|].
    rewrite rf_next. destruct (next a) as [[y|] a2]; cbn [fst snd]; [apply IH|apply lsim_raise].
  Qed.
  Lemma rf_quoted_loop x : forall F c t,
    lsim (quoted_loop F (get_position x) c t) (quoted_loop F (get_position (rf x)) c (rf t)).
  Proof.
    induction F as [|F IH]; intros c t; cbn [quoted_loop]; [reflexivity|].
    destruct (oz_is c 39); [rewrite rf_emit; reflexivity|].
    destruct (_ || _); [apply lsim_raise|].
    rewrite rf_peek.
    destruct (oz_is c 92 && (peek t =? 39)%Z).
    - rewrite rf_next. cbn [fst snd]. rewrite rf_next. destruct (next (snd (next t))) as [c' a]. cbn [fst snd]. apply IH.
    - rewrite rf_next. destruct (next t) as [c' a]. cbn [fst snd]. apply IH.
  Qed.
  Lemma rf_lex_quoted_string F t : lsim (lex_quoted_string F t) (lex_quoted_string F (rf t)).
  Proof. unfold lex_quoted_string. rewrite rf_next. destruct (next t) as [c a]. cbn [fst snd]. apply rf_quoted_loop. Qed.
  Hint Resolve rf_line_comment_loop rf_block_comment_loop rf_lex_quoted_string : rfdb.

  Lemma rf_lex_identifier F t : lsim (lex_identifier F t) (lex_identifier F (rf t)).
  Proof. unfold lex_identifier. rf_auto. Qed.
  Hint Resolve rf_lex_identifier : rfdb.
  Lemma rf_lex_number F t : lsim (lex_number F t) (lex_number F (rf t)).
  Proof. unfold lex_number. rf_auto. Qed.
  Hint Resolve rf_lex_number : rfdb.
  Lemma rf_lex_expression_loop F : forall fuel t, lsim (lex_expression_loop fuel F t) (lex_expression_loop fuel F (rf t)).
  Proof.
    induction fuel as [|fuel IH]; intros t; cbn [lex_expression_loop]; [reflexivity|].
    rf_auto; rewrite <- ?rf_emit; apply IH.
  Qed.
  Lemma rf_lex_expression F t : lsim (lex_expression F t) (lex_expression F (rf t)).
  Proof. apply rf_lex_expression_loop. Qed.
  Hint Resolve rf_lex_expression : rfdb.
  Lemma rf_lex_opcode_index F t : lsim (lex_opcode_index F t) (lex_opcode_index F (rf t)).
  Proof. unfold lex_opcode_index. rf_auto. Qed.
  Hint Resolve rf_lex_opcode_index : rfdb.
  Lemma rf_lex_operand F t : lsim (lex_operand F t) (lex_operand F (rf t)).
  Proof. unfold lex_operand. rf_auto. Qed.
  Hint Resolve rf_lex_operand : rfdb.
  Lemma rf_lex_opcode_size F t : lsim (lex_opcode_size F t) (lex_opcode_size F (rf t)).
  Proof. unfold lex_opcode_size. rf_auto. Qed.
  Hint Resolve rf_lex_opcode_size : rfdb.
  Lemma rf_lex_opcode_tail F t : lsim (lex_opcode_tail F t) (lex_opcode_tail F (rf t)).
  Proof. unfold lex_opcode_tail. rf_auto. Qed.
  Hint Resolve rf_lex_opcode_tail : rfdb.
  Lemma rf_lex_opcode F lx t : lsim (lex_opcode F lx t) (lex_opcode F lx (rf t)).
  Proof. unfold lex_opcode. rewrite rf_pos. rf_auto; rewrite ?rf_set_pos, <- ?rf_emit; rf_auto. Qed.
  Hint Resolve rf_lex_opcode : rfdb.
  Lemma rf_lex_keyword F lx t : lsim (lex_keyword F lx t) (lex_keyword F lx (rf t)).
  Proof. unfold lex_keyword. rf_auto. Qed.
  Hint Resolve rf_lex_keyword : rfdb.
  Lemma rf_lex_initial lx F t : lsim (lex_initial lx F t) (lex_initial lx F (rf t)).
  Proof. unfold lex_initial. rf_auto. Qed.

  Lemma rf_scan_handler F m l c t : scan_handler F m l c (rf t) = refile_result f' (scan_handler F m l c t).
  Proof.
    unfold scan_handler. pose proof (rf_accept_run eol_or_eof true F t) as H.
    destruct (accept_run F t eol_or_eof true) as [a|m' l' c' a| |]; cbn [lsim] in H; rewrite H; try reflexivity.
    rewrite rf_handle_line. cbn [refile_result se_msg se_line se_col se_quoted se_lines se_toks rf lines_rev toks_rev].
    rewrite map_rev. reflexivity.
  Qed.

  Lemma rf_scan_loop (state : nat -> sc -> lres sc) F :
    (forall t, lsim (state F t) (state F (rf t))) ->
    forall j t, scan_loop j F state (rf t) = refile_result f' (scan_loop j F state t).
  Proof.
    intros Hst. induction j as [|j IH]; intros t; cbn [scan_loop]; [reflexivity|].
    rewrite rf_not_at_end. destruct (pos t <? length (inp t)).
    - specialize (Hst t). destruct (state F t) as [a|m l c a| |]; cbn [lsim] in Hst; rewrite Hst; try reflexivity.
      + rewrite !rf_pos. destruct (pos a =? pos t); [|apply IH].
        rewrite rf_ignore. apply rf_scan_handler.
      + apply rf_scan_handler.
    - rewrite rf_emit, rf_handle_line. cbn [refile_result rf lines_rev toks_rev]. rewrite map_rev. reflexivity.
  Qed.
End Refile.

(** C16: the scanner output depends on the file name only through the positions' file field *)
Theorem scan_refile lx f f' s : scan lx f' s = refile_result f' (scan lx f s).
Proof.
  unfold scan, scan_with_fuel, scan_gen.
  change (init_sc f' s) with (rf f' (init_sc f s)).
  apply rf_scan_loop. intros t. apply rf_lex_initial.
Qed.
