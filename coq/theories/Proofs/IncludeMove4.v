(** C16 (.include, source level), part 4 — moving a run of statements into an included file:
    the whole pipeline from source text.

    Texts [a], [run], [b]; file name [p] with [sf_text fs] mapping [p] to [run]; include line [L].
    [assemble_source t fs c fname (a ++ L ++ b)] (the run included) against
    [assemble_source t fs c fname (a ++ run ++ b)] (the run in place):
    when the first succeeds the second succeeds with the same blocks, the same labels and the
    same symbol tables ([include_moved_source]).

    Conditions (see [move_ok]):
    - [a] and [run] end with a newline; [a], [run] (under the name [p]) and [b] scan;
    - [a] and [run] are runs of complete statements: their token lists parse on their own up to
      their end ([parses_alone]);
    - the first token after [a] in the moved text (the first token of [run ++ b]) and the first token
      of [b] are inert: no parser function that has just completed a statement continues on them
      (not an operator, index register, size suffix, "#", "(", "[", ",", ")", "}", nor "else");
      and when the statement before is a [.map], not an identifier either.  Counterexamples when
      this fails are at the end of the file. *)
From Coq Require Import ZArith List Lia Bool Arith.
From A816 Require Import Model.Assemble Proofs.BusProofs Proofs.ScannerSpec Proofs.ScannerProofs Proofs.ScannerShift
     Proofs.ScannerLayout Proofs.ParserProofs Proofs.LocationTextParse Proofs.LocationTextSim Proofs.LocationTextGen
     Proofs.LocationText Proofs.IncludeLoc Proofs.LayoutLink Proofs.CodegenProofs Proofs.IncludeProofs
     Proofs.ParseFail Proofs.IncludeMove1 Proofs.IncludeMove2 Proofs.IncludeMove3.
From A816 Require Proofs.EofToken Proofs.ParserFuelProofs.
Open Scope nat_scope.

(* ------------------------------------------------------------------------------------------ *)
(** * Code generation *)

Lemma gen_one_relook w gen s h a : gen_one w gen s (relook h a) = gen_one w gen s a.
Proof. destruct a; try reflexivity. destruct el as [[eb ef]|]; reflexivity. Qed.

Lemma gen_list_lookrel w gen s h prog prog' : lookrel h prog prog' ->
  gen_list w gen s prog' = gen_list w gen s prog.
Proof.
  intros [->|(pre & d & -> & ->)]; [reflexivity|].
  rewrite !gen_list_app. destruct (gen_list w gen s pre) as [x| |]; cbn [bind]; try reflexivity.
  cbn [gen_list]. rewrite gen_one_relook. reflexivity.
Qed.

(** the included run is generated one nesting level further down; more nesting fuel never hurts *)
Lemma code_gen_flat w F s h1 h2 h3 pa pa1 pa2 pr pr2 kw Y r :
  lookrel h1 pa pa1 -> lookrel h2 pa pa2 -> lookrel h3 pr pr2 ->
  code_gen_fuel w F s ((pa1 ++ [ABlock pr kw]) ++ Y) = Ok r ->
  code_gen_fuel w F s ((pa2 ++ pr2) ++ Y) = Ok r.
Proof.
  intros L1 L2 L3. destruct F as [|f]; [discriminate|]. rewrite !cgf_S, !gen_list_app.
  rewrite (gen_list_lookrel _ _ _ _ _ _ L1), (gen_list_lookrel _ _ _ _ _ _ L2).
  destruct (gen_list w (code_gen_fuel w f) s pa) as [x| |]; cbn [bind]; try discriminate.
  rewrite (gen_list_lookrel _ _ _ _ _ _ L3). cbn [gen_list gen_one].
  destruct (code_gen_fuel w f (fst x) pr) as [y| |] eqn:E; cbn [bind]; try discriminate.
  assert (E' : gen_list w (code_gen_fuel w f) (fst x) pr = Ok y).
  { destruct f as [|f']; [discriminate E|]. rewrite cgf_S in E.
    apply (gen_list_mono w _ _ (code_gen_fuel_mono w f') _ _ _ E). }
  rewrite E'. cbn [bind fst snd]. rewrite app_nil_r. auto.
Qed.

Lemma assemble_flat w c h1 h2 h3 pa pa1 pa2 pr pr2 kw Y o fin :
  lookrel h1 pa pa1 -> lookrel h2 pa pa2 -> lookrel h3 pr pr2 ->
  assemble_program w c ((pa1 ++ [ABlock pr kw]) ++ Y) = AOk o fin ->
  assemble_program w c ((pa2 ++ pr2) ++ Y) = AOk o fin.
Proof.
  intros L1 L2 L3. unfold assemble_program.
  destruct (initial_resolver w c) as [r| |]; try discriminate.
  destruct (code_gen_fuel w cg_depth _ ((pa1 ++ [ABlock pr kw]) ++ Y)) as [[s ns]| |] eqn:E; try discriminate.
  rewrite (code_gen_flat _ _ _ _ _ _ _ _ _ _ _ _ _ _ L1 L2 L3 E). auto.
Qed.

(* ------------------------------------------------------------------------------------------ *)
(** * Token lists *)

Lemma after_scan_pinitial t fs c toks G :
  parse_fuel (length toks) <= G ->
  after_scan t fs c toks =
  match pinitial toks (inc_sub include_depth (include_tokens t fs)) G 0 [] with
  | POk prog => assemble_program (world_of t fs) c prog
  | PErr EParse tok => AParseError tok
  | PErr EScan _ =>
      match first_include_scan_error (lv_lex t) (sf_text fs) with
      | Some (path, e) => AScanError path e
      | None => AExc EScan None
      end
  | PErr k _ => AExc k None
  | PUnrep _ => AExc EOther None
  | PFuel => AFuel
  end.
Proof.
  intros HG. unfold after_scan.
  rewrite <- (ParserFuelProofs.parse_fuel_irrelevant (include_tokens t fs) toks include_depth G (inc_no_fuel t fs) HG).
  unfold parse_program. rewrite parse_file_sub. reflexivity.
Qed.

Section Tokens.
  Variables (t : live) (fs : srcfiles) (c : config).
  Notation inc := (include_tokens t fs).
  Variables Ta Tr Tb : list token.
  Variables ea ep eb kw q : token.
  Variable p : str.
  Variables pa pr : list ast.
  Notation Sb := (Tb ++ [eb]).

  Hypothesis HA : exists F, pinit_pos (Ta ++ [ea]) (inc_sub include_depth inc) F 0 [] = POk (pa, length Ta).
  Hypothesis HR : exists F, pinit_pos (Tr ++ [ep]) (inc_sub (pred include_depth) inc) F 0 [] = POk (pr, length Tr).
  Hypothesis Iea : inert ea.
  Hypothesis Iep : inert ep.
  Hypothesis Kt : t_type kw = T_KEYWORD.
  Hypothesis Kv : t_value kw = k_include.
  Hypothesis Qt : is_ty q T_QUOTED_STRING = true.
  Hypothesis Qv : strip_quotes (t_value q) = p.
  Hypothesis Hinc : inc p = Ok (Tr ++ [ep]).
  Hypothesis Ir0 : inert (cur (Tr ++ Sb) 0).
  Hypothesis Ih : inert (cur Sb 0).
  Hypothesis Mr0 : last_is_map pa = true -> is_ty (cur (Tr ++ Sb) 0) T_IDENTIFIER = false.
  Hypothesis Mh : last_is_map pr = true -> is_ty (cur Sb 0) T_IDENTIFIER = false.

  Theorem include_moved_tokens o fin :
    after_scan t fs c (Ta ++ kw :: q :: Sb) = AOk o fin ->
    after_scan t fs c (Ta ++ Tr ++ Sb) = AOk o fin.
  Proof.
    intros H.
    destruct (two_parses inc (inc_no_fuel t fs) (pred include_depth) Ta Tr Sb ea ep kw q p pa pr
                HA HR Iea Iep Kt Kv Qt Qv Hinc Ir0 Ih Mr0 Mh)
      as (pa1 & pa2 & pr2 & k1 & k2 & f0 & LK1 & LK2 & LK3 & HP).
    set (G := Nat.max f0 (Nat.max (parse_fuel (length (Ta ++ kw :: q :: Sb))) (parse_fuel (length (Ta ++ Tr ++ Sb))))).
    destruct (HP G ltac:(unfold G; lia)) as [P1 P2].
    change (S (pred include_depth)) with include_depth in P1, P2.
    rewrite (after_scan_pinitial t fs c _ (k1 + G)) in H by (unfold G; lia).
    rewrite (after_scan_pinitial t fs c _ (k2 + G)) by (unfold G; lia).
    rewrite P1 in H. rewrite P2. rewrite pinitial_acc in H. rewrite pinitial_acc.
    destruct (pinitial Sb (inc_sub include_depth inc) G 0 []) as [Y|k tok|tok|]; cbn [pbind] in *.
    - exact (assemble_flat _ c _ _ _ pa pa1 pa2 pr pr2 kw Y o fin LK1 LK2 LK3 H).
    - destruct k; try discriminate H. destruct (first_include_scan_error _ _) as [[? ?]|]; discriminate H.
    - discriminate H.
    - discriminate H.
  Qed.
End Tokens.

(* ------------------------------------------------------------------------------------------ *)
(** * Source text *)

Lemma sameTV_map_shift k l : Forall2 sameTV l (map (shift_tok k) l).
Proof. induction l; constructor; [apply sameTV_shift|assumption]. Qed.
Lemma sameTV_sym t t' : sameTV t t' -> sameTV t' t.
Proof. intros [H1 H2]. split; congruence. Qed.
Lemma Forall2_sameTV_sym l l' : Forall2 sameTV l l' -> Forall2 sameTV l' l.
Proof. induction 1; constructor; auto using sameTV_sym. Qed.
Lemma sameTV_trans t1 t2 t3 : sameTV t1 t2 -> sameTV t2 t3 -> sameTV t1 t3.
Proof. intros [A1 A2] [B1 B2]. split; congruence. Qed.
Lemma Forall2_sameTV_trans l1 : forall l2 l3, Forall2 sameTV l1 l2 -> Forall2 sameTV l2 l3 -> Forall2 sameTV l1 l3.
Proof.
  induction l1; intros l2 l3 H1 H2; inversion H1; subst; inversion H2; subst; constructor;
    eauto using sameTV_trans.
Qed.
Lemma sameTV_refile f l : Forall2 sameTV l (map (refile f) l).
Proof. induction l; constructor; [split; reflexivity|assumption]. Qed.

(** the EOF token of a scan is inert *)
Lemma scan_eof_inert lx f s body e lines : lexicon_ok lx = true ->
  scan lx f s = ScanOk (body ++ [e]) lines -> inert e.
Proof.
  intros Hlx H. destruct (EofToken.scan_eof_token lx f s _ _ Hlx H) as (body' & eof & p0 & E & Ht & Hv & _).
  apply app_inj_tail in E as [_ ->].
  unfold inert, is_ty. rewrite Ht, Hv. repeat split.
Qed.

(** [L] is a line that includes the file [p] *)
Definition include_line (lx : lexicon) (fname L p : str) : Prop :=
  ends_nl L /\
  exists kw q eL lL, scan lx fname L = ScanOk ([kw; q] ++ [eL]) lL /\
    t_type kw = T_KEYWORD /\ t_value kw = k_include /\
    is_ty q T_QUOTED_STRING = true /\ strip_quotes (t_value q) = p.

(** the token list parses on its own, up to its last token (the EOF), with include depth [d] *)
Definition parses_alone (t : live) (fs : srcfiles) (d : nat) (toks : list token) (prog : list ast) : Prop :=
  exists F, pinit_pos toks (inc_sub d (include_tokens t fs)) F 0 [] = POk (prog, length toks - 1).

(** the symbol tables of two final states are the same *)
Definition same_symbols (r r' : rstate) : Prop :=
  map s_symbols (r_scopes r) = map s_symbols (r_scopes r') /\
  map s_labels (r_scopes r) = map s_labels (r_scopes r') /\
  map s_parent (r_scopes r) = map s_parent (r_scopes r') /\
  r_pc r = r_pc r' /\ r_reloc r = r_reloc r'.

Theorem include_moved_source : forall t fs c fname a run b L p Ta ea la Tr ep lr Tb eb lb pa pr o fin,
  lexicon_ok (lv_lex t) = true ->
  ends_nl a -> ends_nl run ->
  scan (lv_lex t) fname a = ScanOk (Ta ++ [ea]) la ->
  scan (lv_lex t) p run = ScanOk (Tr ++ [ep]) lr ->
  scan (lv_lex t) fname b = ScanOk (Tb ++ [eb]) lb ->
  include_line (lv_lex t) fname L p ->
  assoc_str (sf_text fs) p = Some run ->
  parses_alone t fs include_depth (Ta ++ [ea]) pa ->
  parses_alone t fs (pred include_depth) (Tr ++ [ep]) pr ->
  inert (cur (Tr ++ Tb ++ [eb]) 0) -> inert (cur (Tb ++ [eb]) 0) ->
  (last_is_map pa = true -> is_ty (cur (Tr ++ Tb ++ [eb]) 0) T_IDENTIFIER = false) ->
  (last_is_map pr = true -> is_ty (cur (Tb ++ [eb]) 0) T_IDENTIFIER = false) ->
  assemble_source t fs c fname (a ++ L ++ b) = AOk o fin ->
  exists o' fin',
    assemble_source t fs c fname (a ++ run ++ b) = AOk o' fin' /\
    o_blocks o' = o_blocks o /\ o_labels o' = o_labels o /\ same_symbols fin fin'.
Proof.
  intros t fs c fname a run b L p Ta ea la Tr ep lr Tb eb lb pa pr o fin
         Hlx Ha Hrun Sa Sr Sb (HLe & kw & q & eL & lL & SL_ & Kt & Kv & Qt & Qv) Hp PA PR Ir0 Ih Mr0 Mh H.
  set (lx := lv_lex t) in *.
  (* the scan of the text with the include line *)
  pose proof (scan_line_compositional lx fname L b [kw; q] eL lL Hlx HLe SL_) as S1. rewrite Sb in S1.
  cbn [shift_result] in S1.
  pose proof (scan_line_compositional lx fname a (L ++ b) Ta ea la Hlx Ha Sa) as S1'. rewrite S1 in S1'.
  cbn [shift_result] in S1'.
  (* the scan of the text with the run in place *)
  pose proof (scan_refile lx p fname run) as Sf. rewrite Sr in Sf. cbn [refile_result] in Sf. rewrite map_app in Sf.
  cbn [map] in Sf.
  pose proof (scan_line_compositional lx fname run b _ _ lr Hlx Hrun Sf) as S2. rewrite Sb in S2.
  cbn [shift_result] in S2.
  pose proof (scan_line_compositional lx fname a (run ++ b) Ta ea la Hlx Ha Sa) as S2'. rewrite S2 in S2'.
  cbn [shift_result] in S2'.
  rewrite (assemble_source_ok _ _ _ _ _ _ _ S1') in H. rewrite (assemble_source_ok _ _ _ _ _ _ _ S2').
  (* canonical token lists *)
  set (A1 := Ta ++ map (shift_tok (count_nl a)) ([kw; q] ++ map (shift_tok (count_nl L)) (Tb ++ [eb]))) in *.
  set (A2 := Ta ++ map (shift_tok (count_nl a)) (map (refile fname) Tr ++ map (shift_tok (count_nl run)) (Tb ++ [eb]))) in *.
  assert (R1 : Forall2 sameTV A1 (Ta ++ kw :: q :: Tb ++ [eb])).
  { subst A1. apply Forall2_app; [apply sameTV_refl_list|]. apply Forall2_sameTV_sym.
    eapply Forall2_sameTV_trans; [|apply sameTV_map_shift].
    change (kw :: q :: Tb ++ [eb]) with ([kw; q] ++ (Tb ++ [eb])).
    apply Forall2_app; [apply sameTV_refl_list|apply sameTV_map_shift]. }
  assert (R2 : Forall2 sameTV (Ta ++ Tr ++ Tb ++ [eb]) A2).
  { subst A2. apply Forall2_app; [apply sameTV_refl_list|].
    eapply Forall2_sameTV_trans; [|apply sameTV_map_shift].
    apply Forall2_app; [apply sameTV_refile|apply sameTV_map_shift]. }
  pose proof (layout_link_tokens t fs c [] _ _ (Forall_nil _) R1) as LK1. cbn [app] in LK1.
  pose proof (layout_link_tokens t fs c [] _ _ (Forall_nil _) R2) as LK2. cbn [app] in LK2.
  rewrite H in LK1.
  destruct (after_scan t fs c (Ta ++ kw :: q :: Tb ++ [eb])) as [o1 fin1| | | |] eqn:E1;
    cbn [result_same_up_to_positions] in LK1; try contradiction.
  destruct LK1 as (B1 & Lb1 & Sr1).
  (* the token-level theorem *)
  assert (Hinc : include_tokens t fs p = Ok (Tr ++ [ep])).
  { unfold include_tokens. rewrite Hp. unfold scan_res. fold lx. rewrite Sr. reflexivity. }
  destruct PA as (FA & PA). destruct PR as (FR & PR).
  rewrite app_length in PA, PR. cbn [length] in PA, PR. rewrite Nat.add_sub in PA, PR.
  pose proof (include_moved_tokens t fs c Ta Tr Tb ea ep eb kw q p pa pr
                (ex_intro _ FA PA) (ex_intro _ FR PR)
                (scan_eof_inert _ _ _ _ _ _ Hlx Sa) (scan_eof_inert _ _ _ _ _ _ Hlx Sr)
                Kt Kv Qt Qv Hinc Ir0 Ih Mr0 Mh o1 fin1 E1) as E2.
  rewrite E2 in LK2.
  destruct (after_scan t fs c A2) as [o2 fin2| | | |]; cbn [result_same_up_to_positions] in LK2; try contradiction.
  destruct LK2 as (B2 & Lb2 & Sr2).
  exists o2, fin2. split; [reflexivity|]. split; [congruence|]. split; [congruence|].
  destruct (srel_symbols _ _ Sr1) as (X1 & X2 & X3 & X4 & X5).
  destruct (srel_symbols _ _ Sr2) as (Y1 & Y2 & Y3 & Y4 & Y5).
  unfold same_symbols. repeat split; congruence.
Qed.

Print Assumptions include_moved_tokens.
Print Assumptions include_moved_source.

(* ------------------------------------------------------------------------------------------ *)
(** * Examples *)
Module MoveExamples.
  Definition t0 : live :=
    {| lv_low := BusProofs.lorom; lv_high := BusProofs.hirom; lv_busmap := [(0, true); (1, true); (2, false)]%Z;
       lv_optable := [([108;100;97], [(M_immediate, Single (EmPlain [Some 169; Some 169; None]))]);
                      ([110;111;112], [(M_none, Single (EmNoOperand 234))])]%Z;
       lv_prec := [];
       lv_lex := mk_lexicon [[108;100;97]; [110;111;112]]%Z [[110;111;112]]%Z
                            [[100;98]; [105;110;99;108;117;100;101]; [109;97;99;114;111]; [105;102]]%Z |}.
  Definition cfg0 : config := {| cf_rom := None; cf_defines := [] |}.
  Definition fname : str := [109]%Z.
  Definition pr_ : str := [114]%Z.                                   (* the file "r" *)
  Definition view (r : aresult) := match r with AOk o _ => Some (o_blocks o, o_labels o) | _ => None end.
  Definition incl : str := [46;105;110;99;108;117;100;101;32;39;114;39;10]%Z.      (* ".include 'r'\n" *)

  (** a label, an instruction and a macro definition moved into "r"; the macro is used after *)
  Definition a1 : str := [115;116;97;114;116;58;10]%Z.                  (* "start:\n" *)
  Definition run1 : str := [108;50;58;32;108;100;97;46;98;32;35;48;120;49;50;10;46;109;97;99;114;111;32;109;40;120;41;32;123;10;46;100;98;32;120;10;125;10]%Z.
                                                   (* "l2: lda.b #0x12\n.macro m(x) {\n.db x\n}\n" *)
  Definition b1 : str := [109;40;51;41;10;110;111;112;10]%Z.                  (* "m(3)\nnop\n" *)
  Definition fs1 : srcfiles := {| sf_text := [(pr_, run1)]; sf_bin := []; sf_tbl := [] |}.

  Example included1 : view (assemble_source t0 fs1 cfg0 fname (a1 ++ incl ++ b1)) =
                      Some ([([169; 18; 3; 234], 0)], [([115;116;97;114;116], 0); ([108; 50], 0)])%Z.
  Proof. vm_compute. reflexivity. Qed.
  Example inplace1 : view (assemble_source t0 fs1 cfg0 fname (a1 ++ run1 ++ b1)) =
                     view (assemble_source t0 fs1 cfg0 fname (a1 ++ incl ++ b1)).
  Proof. vm_compute. reflexivity. Qed.

  (** the theorem applies *)
  Definition toks_of (r : scan_result) : list token := match r with ScanOk toks _ => toks | _ => [] end.
  Definition lines_of (r : scan_result) : list str := match r with ScanOk _ l => l | _ => [] end.
  Definition ta := Eval vm_compute in toks_of (scan (lv_lex t0) fname a1).
  Definition la := Eval vm_compute in lines_of (scan (lv_lex t0) fname a1).
  Definition tr := Eval vm_compute in toks_of (scan (lv_lex t0) pr_ run1).
  Definition lr := Eval vm_compute in lines_of (scan (lv_lex t0) pr_ run1).
  Definition tb := Eval vm_compute in toks_of (scan (lv_lex t0) fname b1).
  Definition lb := Eval vm_compute in lines_of (scan (lv_lex t0) fname b1).
  Definition tl := Eval vm_compute in toks_of (scan (lv_lex t0) fname incl).
  Definition ll := Eval vm_compute in lines_of (scan (lv_lex t0) fname incl).
  Definition body (l : list token) := removelast l.
  Definition eof_of (l : list token) := last l eof_token.
  Definition prog_of (r : pres (list ast * nat)) : list ast := match r with POk (x, _) => x | _ => [] end.
  Definition pa1 := Eval vm_compute in
    prog_of (pinit_pos ta (inc_sub include_depth (include_tokens t0 fs1)) 50 0 []).
  Definition pr1 := Eval vm_compute in
    prog_of (pinit_pos tr (inc_sub (pred include_depth) (include_tokens t0 fs1)) 50 0 []).

  Example by_theorem :
    exists o fin o' fin',
      assemble_source t0 fs1 cfg0 fname (a1 ++ incl ++ b1) = AOk o fin /\
      assemble_source t0 fs1 cfg0 fname (a1 ++ run1 ++ b1) = AOk o' fin' /\
      o_blocks o' = o_blocks o /\ o_labels o' = o_labels o /\ same_symbols fin fin'.
  Proof.
    destruct (assemble_source t0 fs1 cfg0 fname (a1 ++ incl ++ b1)) as [o fin| | | |] eqn:E;
      try (vm_compute in E; discriminate E).
    exists o, fin.
    destruct (include_moved_source t0 fs1 cfg0 fname a1 run1 b1 incl pr_
                (body ta) (eof_of ta) la (body tr) (eof_of tr) lr (body tb) (eof_of tb) lb pa1 pr1 o fin)
      as (o' & fin' & H); try exact E.
    - reflexivity.
    - exists (removelast a1). reflexivity.
    - exists (removelast run1). reflexivity.
    - vm_compute. reflexivity.
    - vm_compute. reflexivity.
    - vm_compute. reflexivity.
    - split; [exists (removelast incl); reflexivity|].
      exists (nth 0 tl eof_token), (nth 1 tl eof_token), (nth 2 tl eof_token), ll.
      repeat split; vm_compute; reflexivity.
    - reflexivity.
    - exists 50. vm_compute. reflexivity.
    - exists 50. vm_compute. reflexivity.
    - repeat split; vm_compute; reflexivity.
    - repeat split; vm_compute; reflexivity.
    - intros X. vm_compute in X. discriminate X.
    - intros X. vm_compute in X. discriminate X.
    - exists o', fin'. split; [reflexivity|exact H].
  Qed.

  (** ** what the conditions exclude, on the model *)
  (** the token after the run continues its last statement: a label named "else" after an .if —
      included, the program assembles; with the run in place it is a syntax error *)
  Definition run2 : str := [46;105;102;32;49;32;123;10;110;111;112;10;125;10]%Z.          (* ".if 1 {\nnop\n}\n" *)
  Definition b2 : str := [101;108;115;101;58;32;110;111;112;10]%Z.              (* "else: nop\n" *)
  Definition fs2 : srcfiles := {| sf_text := [(pr_, run2)]; sf_bin := []; sf_tbl := [] |}.
  Definition kind (r : aresult) : Z :=
    match r with AOk _ _ => 0 | AScanError _ _ => 1 | AParseError _ => 2 | AExc _ _ => 3 | AFuel => 4 end%Z.
  Example else_label_after_if :
    view (assemble_source t0 fs2 cfg0 fname (incl ++ b2)) = Some ([([234; 234], 0)], [([101;108;115;101], 32769)])%Z /\
    kind (assemble_source t0 fs2 cfg0 fname (run2 ++ b2)) = 2%Z /\
    str_eqb (t_value (cur (toks_of (scan (lv_lex t0) fname b2)) 0)) k_else = true.
  Proof. repeat split; vm_compute; reflexivity. Qed.

  (** the other way round: the first line of [b] (",2") continues the last statement of the run
      (".db 1") — with the run in place the program assembles, included it is a syntax error *)
  Definition run3 : str := [46;100;98;32;49;10]%Z.           (* ".db 1\n" *)
  Definition b3 : str := [44;50;10]%Z.               (* ",2\n" *)
  Definition fs3 : srcfiles := {| sf_text := [(pr_, run3)]; sf_bin := []; sf_tbl := [] |}.
  Example operator_line_after_run :
    kind (assemble_source t0 fs3 cfg0 fname (incl ++ b3)) = 2%Z /\
    view (assemble_source t0 fs3 cfg0 fname (run3 ++ b3)) = Some ([([1; 2], 0)], [])%Z /\
    is_ty (cur (toks_of (scan (lv_lex t0) fname b3)) 0) T_COMMA = true.
  Proof. repeat split; vm_compute; reflexivity. Qed.
End MoveExamples.
