(** C16 (.include, source level) — the include line in closed form: for a path without quote,
    backslash and newline, the line  .include '<path>'  (any number of spaces before the path)
    scans to KEYWORD include, QUOTED_STRING '<path>', EOF wherever the file name, and
    [strip_quotes] gives the path back: [include_line] of IncludeMove4.v holds. *)
From Coq Require Import ZArith NArith List Bool Lia Arith.
From A816 Require Import Spec.ExprSem Model.Scanner Model.Parser Proofs.ScannerFuel Proofs.ScannerMono
  Proofs.ExprProofs Proofs.ExprLex Proofs.DataTextScan Proofs.ParserShapeTokens Proofs.InsnTextParse
  Proofs.InsnTextScan Proofs.LabelTextScan Proofs.IpsTextScan.
From A816 Require Proofs.ScannerLayout Proofs.IncludeMove4.
Import ListNotations.
Open Scope Z_scope.

Definition include_body (k1 : nat) (path : str) : str := 46 :: k_include ++ spaces k1 ++ 39 :: path ++ [39].
Definition include_toks (path : str) : list tk := [(T_KEYWORD, k_include); (T_QUOTED_STRING, 39 :: path ++ [39])].

Lemma include_kw_chars : all_in kw_chars k_include.
Proof. repeat constructor. Qed.

Theorem lscan_include lx k1 path :
  mem_str k_include (lx_keywords lx) = true -> path_ok path ->
  lscan lx (include_body k1 path) (include_toks path) 2.
Proof.
  intros Kkw P F n s a ws r out H B HF.
  assert (H' : Zv s a [] (ws ++ (46 :: k_include) ++ (spaces k1 ++ 39 :: path ++ 39 :: 10 :: r)) out).
  { unfold include_body in H. cbn [app] in *. repeat (rewrite <- ?app_assoc in H; cbn [app] in H). exact H. }
  clear H. cbn [Nat.add].
  destruct (scan_tok lx (S n) F s a ws T_KEYWORD k_include (46 :: k_include) _ out H' B
              (i_kw lx k_include include_kw_chars Kkw)) as (s1 & E1 & H1 & L1).
  { cbn [follow_ok]. destruct k1; reflexivity. }
  { exact HF. }
  rewrite E1. clear E1.
  destruct (init_quoted lx F s1 _ (spaces k1) path _ _ H1 (blanks_spaces _) P ltac:(lia)) as (s2 & E2 & H2).
  assert (C2 : scan_loop (S n) F (lex_initial lx) s1 = scan_loop n F (lex_initial lx) s2).
  { eapply scan_call; [exact H1| |exact E2|exact H2|].
    - destruct k1; discriminate.
    - rewrite !app_length. cbn [length]. lia. }
  rewrite C2. clear C2.
  pose proof (Zv_len _ _ _ _ _ H1) as Z1. pose proof (Zv_len _ _ _ _ _ H2) as Z2.
  exists s2, ((a ++ ws ++ 46 :: k_include) ++ spaces k1 ++ 39 :: path ++ [39]), 0%nat. split; [reflexivity|]. split.
  - unfold include_toks. cbn [rev app spaces]. exact H2.
  - rewrite Z2, <- L1, Z1. repeat (rewrite ?app_length; cbn [length]). lia.
Qed.

(** the text of the line and [include_line] *)
Definition include_text (k1 : nat) (path : str) : str := include_body k1 path ++ [10].

Lemma strip_quotes_quoted path : strip_quotes (39 :: path ++ [39]) = path.
Proof. unfold strip_quotes. cbn [tl]. apply removelast_last. Qed.

Theorem include_line_closed lx fname k1 path :
  mem_str k_include (lx_keywords lx) = true -> path_ok path ->
  IncludeMove4.include_line lx fname (include_text k1 path) path.
Proof.
  intros Kkw P. split; [exists (include_body k1 path); reflexivity|].
  destruct (scan_prog lx fname [{| l_body := include_body k1 path; l_toks := include_toks path; l_calls := 2 |}])
    as (toks & eof & lines & S & Htv & He).
  { constructor; [|constructor]. unfold line_ok. cbn [l_body l_toks l_calls]. apply lscan_include; assumption. }
  cbn [prog_text prog_toks flat_map l_body l_toks app] in S, Htv. rewrite app_nil_r in S.
  assert (Hlen : length toks = 2%nat) by (rewrite <- (map_length tv), Htv; reflexivity).
  destruct toks as [|kw [|q [|x y]]]; cbn [length] in Hlen; try lia. clear Hlen.
  cbn [map] in Htv. unfold include_toks in Htv.
  assert (H1 : tv kw = (T_KEYWORD, k_include)) by (exact (f_equal (fun l => nth 0 l (T_EOF, [])) Htv)).
  assert (H2 : tv q = (T_QUOTED_STRING, 39 :: path ++ [39])) by (exact (f_equal (fun l => nth 1 l (T_EOF, [])) Htv)).
  clear Htv. unfold tv in H1, H2.
  assert (T1 := f_equal fst H1). assert (V1 := f_equal snd H1). assert (T2 := f_equal fst H2). assert (V2 := f_equal snd H2).
  cbn [fst snd] in T1, V1, T2, V2.
  exists kw, q, eof, lines. split; [exact S|]. split; [exact T1|]. split; [exact V1|]. split.
  - unfold is_ty. rewrite T2. reflexivity.
  - rewrite V2. apply strip_quotes_quoted.
Qed.

Print Assumptions include_line_closed.
